/-
  C01 (1): the row evaluator of the engine (`Kvql.exec`, the model of expression_exec.go +
  scalar_func.go) REFINES the reference evaluator `Kvql.Spec.eval` (written from README.md) on the
  core language of C01: wherever the reference says "evaluable, with value s", `exec` succeeds with
  a value `v ≈ s` (`≈` forgets `[]byte` vs `string` and `int64` vs `int`), with the cache off and
  the context untouched.  The converse is false on purpose (row mode short-circuits `&` / `|`,
  `int('abc')` is 0 for the engine): the reference is strict.

  Mutual structural induction over expressions / expression lists; one lemma per operator group
  (`refines_logic`, `refines_eq`, `refines_compare`, `refines_match`, `refines_arith`,
  `refines_concat`, `refines_between`, `refines_in`, `refines_call`).  Kinds come from C14
  (`exec_sound`: a well-kinded expression evaluates to a value of its kind), which is how the
  engine's dispatch on STATIC types (`retType l == TSTR`) is tied to the reference's dispatch
  on VALUES.
-/
import Kvql.Proofs.RefineKernels

namespace Kvql.Refine
open Kvql Kvql.Spec Generated

/-! ### the core language -/

mutual
  /-- syntactic part of `CoreLang` -/
  def core : Expr → Bool
    | .field .. | .str .. | .num .. | .float .. | .bool .. => true
    | .ref _ _ t => core t
    | .not _ r => core r
    | .list _ items => coreList items
    | .binop _ op l r =>
      match op with
      | .not => false
      | .in_ | .between => core l && core r && isListNode r
      | _ => core l && core r && !isListNode r
    | .call _ nm args => coreName nm && coreList args
    | _ => false
  def coreList : List Expr → Bool
    | [] => true
    | e :: es => core e && coreList es
  def isListNode : Expr → Bool
    | .list .. => true
    | _ => false
  def coreName : Expr → Bool
    | .name _ f => (Fn.ofName f).isSome
    | _ => false
end

/-- The core language of C01 on which `exec_refines_spec` is proved: expressions built from
    `key`, `value`, text / integer / float / Boolean literals, alias references (to core
    expressions), `!`, `& | and or`, `= != < <= > >=`, `^=`, `~=`, `+ - * /`, `x in (e1, …, en)`,
    `x between e1 and e2`, and calls of `upper lower int float str strlen is_int is_float substr`
    — that are moreover WELL-KINDED by the README typing `kindOf` of C14 (which is what the
    engine's checker guarantees for accepted statements, and which excludes cyclic aliases).

    LEFT OUT (the reference evaluator gives no value for them, so nothing is claimed):
    `split list int_list float_list len json join l2_distance cosine_distance`, field access
    `x['f']` / `x[n]`, `x in <list-valued call or alias>`, bare names.  Nothing of the C01 core
    language is left out: `exec_refines_spec` is the statement for the full language. -/
def CoreLang (e : Expr) : Prop := core e = true ∧ (kindOf e).isSome = true

instance (e : Expr) : Decidable (CoreLang e) := by unfold CoreLang; infer_instance

/-! ### statement -/

/-- for one expression: whenever the reference evaluates it, so does `exec`, to a related value,
    leaving the (cache-off) context as it was -/
def Refines (e : Expr) : Prop :=
  ∀ (kv : Pair) (c : Ctx), c.enable = false → ∀ s, Spec.eval e kv = some s →
    ∃ v, exec e kv c = (.ok v, c) ∧ v ≈ s

/-- two lists related position by position -/
inductive All2 {α β : Type} (R : α → β → Prop) : List α → List β → Prop
  | nil : All2 R [] []
  | cons {a : α} {b : β} {as : List α} {bs : List β} : R a b → All2 R as bs → All2 R (a :: as) (b :: bs)

theorem All2.one {α β : Type} {R : α → β → Prop} {a : α} {bs : List β} (h : All2 R [a] bs) :
    ∃ b, bs = [b] ∧ R a b := by
  cases h with
  | cons h1 t => cases t; exact ⟨_, rfl, h1⟩

theorem All2.two {α β : Type} {R : α → β → Prop} {a0 a1 : α} {bs : List β} (h : All2 R [a0, a1] bs) :
    ∃ b0 b1, bs = [b0, b1] ∧ R a0 b0 ∧ R a1 b1 := by
  cases h with
  | cons h0 t =>
    obtain ⟨b1, rfl, h1⟩ := t.one
    exact ⟨_, _, rfl, h0, h1⟩

theorem All2.three {α β : Type} {R : α → β → Prop} {a0 a1 a2 : α} {bs : List β} (h : All2 R [a0, a1, a2] bs) :
    ∃ b0 b1 b2, bs = [b0, b1, b2] ∧ R a0 b0 ∧ R a1 b1 ∧ R a2 b2 := by
  cases h with
  | cons h0 t =>
    obtain ⟨b1, b2, rfl, h1, h2⟩ := t.two
    exact ⟨_, _, _, rfl, h0, h1, h2⟩

/-- the same for a list of expressions, position by position -/
def RefinesAll (es : List Expr) : Prop :=
  ∀ (kv : Pair) (c : Ctx), c.enable = false → ∀ ss, Spec.evalList es kv = some ss →
    All2 (fun e s => ∃ v, exec e kv c = (.ok v, c) ∧ v ≈ s) es ss

/-- with the kind that C14 gives -/
theorem Refines.kinded {e : Expr} (h : Refines e) {k : Kind} (hk : kindOf e = some k) {kv : Pair} {c : Ctx}
    (hc : c.enable = false) {s : SVal} (hs : Spec.eval e kv = some s) :
    ∃ v, exec e kv c = (.ok v, c) ∧ v ≈ s ∧ v.hasKind k = true := by
  obtain ⟨v, hv, hr⟩ := h kv c hc s hs
  exact ⟨v, hv, hr, (exec_sound e k hk kv c hc).1 v c hv⟩

/-! ### inversion of the reference evaluator -/

theorem eval_binop {p : Nat} {op : Op} {l r : Expr} {kv : Pair} {s : SVal}
    (h : Spec.eval (.binop p op l r) kv = some s) :
    ∃ a b, Spec.eval l kv = some a ∧ Spec.eval r kv = some b ∧ Spec.binop op a b = some s := by
  rw [Spec.eval] at h
  split at h
  · rename_i a b ha hb; exact ⟨a, b, ha, hb, h⟩
  · cases h

theorem eval_not {p : Nat} {r : Expr} {kv : Pair} {s : SVal} (h : Spec.eval (.not p r) kv = some s) :
    ∃ b, Spec.eval r kv = some (.bool b) ∧ s = .bool !b := by
  rw [Spec.eval] at h
  split at h
  · rename_i b hb; cases h; exact ⟨b, hb, rfl⟩
  · cases h

theorem eval_list {p : Nat} {items : List Expr} {kv : Pair} {s : SVal} (h : Spec.eval (.list p items) kv = some s) :
    ∃ ss, Spec.evalList items kv = some ss ∧ s = .list ss := by
  rw [Spec.eval] at h
  cases h' : Spec.evalList items kv with
  | none => simp [h'] at h
  | some ss => simp [h'] at h; exact ⟨ss, rfl, h.symm⟩

theorem evalList_cons {e : Expr} {es : List Expr} {kv : Pair} {ss : List SVal}
    (h : Spec.evalList (e :: es) kv = some ss) :
    ∃ s rest, Spec.eval e kv = some s ∧ Spec.evalList es kv = some rest ∧ ss = s :: rest := by
  rw [Spec.evalList] at h
  split at h
  · rename_i s rest hs hr; cases h; exact ⟨s, rest, hs, hr, rfl⟩
  · cases h

theorem eval_call {p q : Nat} {f : Bytes} {args : List Expr} {kv : Pair} {s : SVal}
    (h : Spec.eval (.call p (.name q f) args) kv = some s) :
    ∃ fn ss, Fn.ofName f = some fn ∧ Spec.evalList args kv = some ss ∧ Spec.apply fn ss = some s := by
  rw [Spec.eval] at h
  split at h
  · rename_i fn ss hf hs; exact ⟨fn, ss, hf, hs, h⟩
  · cases h

/-! ### operator groups -/

section groups
variable {p : Nat} {l r : Expr} {kv : Pair} {c : Ctx} {va vb : Value} {sa sb s : SVal}

/-- `& and | or`: the engine short-circuits, the reference evaluates both sides -/
theorem refines_logic {op : Op} (hop : op = .and ∨ op = .kwAnd ∨ op = .or ∨ op = .kwOr)
    (hl : exec l kv c = (.ok va, c)) (hr : exec r kv c = (.ok vb, c)) (ha : va ≈ sa) (hb : vb ≈ sb)
    (h : Spec.binop op sa sb = some s) : ∃ v, exec (.binop p op l r) kv c = (.ok v, c) ∧ v ≈ s := by
  rcases hop with rfl | rfl | rfl | rfl <;>
  (simp only [Spec.binop] at h
   split at h
   · rename_i x y
     cases h
     have e1 := ha.bool_inv; have e2 := hb.bool_inv; subst e1 e2
     rw [exec]
     cases x <;> simp [M.bind_ok hl, M.bind_ok hr, M.bind_run, asBool, Rel]
   · cases h)

/-- `= !=` -/
theorem refines_eq {op : Op} (hop : op = .eq ∨ op = .neq)
    (hl : exec l kv c = (.ok va, c)) (hr : exec r kv c = (.ok vb, c)) (ha : va ≈ sa) (hb : vb ≈ sb)
    (h : Spec.binop op sa sb = some s) : ∃ v, exec (.binop p op l r) kv c = (.ok v, c) ∧ v ≈ s := by
  rcases hop with rfl | rfl <;> simp only [Spec.binop] at h
  · cases hc : compare? .eq sa sb with
    | none => simp [hc] at h
    | some x =>
      simp only [hc, Option.map_some, Option.some.injEq] at h; subst h
      rw [exec]
      exact ⟨.bool x, by simp [M.bind_ok hl, M.bind_ok hr, M.bind_run, equalRow_spec ha hb hc], rfl⟩
  · cases hc : compare? .eq sa sb with
    | none => simp [hc] at h
    | some x =>
      simp only [hc, Option.map_some, Option.some.injEq] at h; subst h
      rw [exec]
      exact ⟨.bool !x, by simp [M.bind_ok hl, M.bind_ok hr, M.bind_run, equalRow_spec ha hb hc], rfl⟩

/-- the reference's result for `< <= > >=` in terms of the comparison kernels -/
theorem binop_cmp {op : Op} {cop : CmpOp} (hop : cmpOpOf op = some cop) (h : Spec.binop op sa sb = some s) :
    ∃ x, specCmp cop sa sb = some x ∧ s = .bool x := by
  cases op <;> simp [cmpOpOf] at hop <;> subst hop <;> simp only [Spec.binop] at h <;>
    (simp only [specCmp]
     revert h
     generalize compare? _ _ _ = o
     intro h
     cases o with
     | none => simp at h
     | some x => simp at h; exact ⟨x, rfl, h.symm⟩)

/-- `< <= > >=`: the engine chooses text or number comparison by the static type of the left operand -/
theorem refines_compare {op : Op} {k : Kind} (hop : op = .gt ∨ op = .gte ∨ op = .lt ∨ op = .lte)
    (hk : k = .text ∨ k = .num) (hkl : kindOf l = some k)
    (hl : exec l kv c = (.ok va, c)) (hr : exec r kv c = (.ok vb, c)) (ha : va ≈ sa) (hb : vb ≈ sb)
    (hka : va.hasKind k = true)
    (h : Spec.binop op sa sb = some s) : ∃ v, exec (.binop p op l r) kv c = (.ok v, c) ∧ v ≈ s := by
  have hflag := hk_of hkl hk
  rcases hop with rfl | rfl | rfl | rfl
  · obtain ⟨x, hx, rfl⟩ := binop_cmp (cop := .gt) rfl h
    rw [exec]
    exact ⟨.bool x, by simp [M.bind_ok hl, M.bind_ok hr, M.bind_run, compareBy_spec hflag ha hb hka .gt hx], rfl⟩
  · obtain ⟨x, hx, rfl⟩ := binop_cmp (cop := .gte) rfl h
    rw [exec]
    exact ⟨.bool x, by simp [M.bind_ok hl, M.bind_ok hr, M.bind_run, compareBy_spec hflag ha hb hka .gte hx], rfl⟩
  · obtain ⟨x, hx, rfl⟩ := binop_cmp (cop := .lt) rfl h
    rw [exec]
    exact ⟨.bool x, by simp [M.bind_ok hl, M.bind_ok hr, M.bind_run, compareBy_spec hflag ha hb hka .lt hx], rfl⟩
  · obtain ⟨x, hx, rfl⟩ := binop_cmp (cop := .lte) rfl h
    rw [exec]
    exact ⟨.bool x, by simp [M.bind_ok hl, M.bind_ok hr, M.bind_run, compareBy_spec hflag ha hb hka .lte hx], rfl⟩

/-- `^=` and `~=` -/
theorem refines_match {op : Op} (hop : op = .prefixMatch ∨ op = .regexMatch)
    (hl : exec l kv c = (.ok va, c)) (hr : exec r kv c = (.ok vb, c)) (ha : va ≈ sa) (hb : vb ≈ sb)
    (h : Spec.binop op sa sb = some s) : ∃ v, exec (.binop p op l r) kv c = (.ok v, c) ∧ v ≈ s := by
  rcases hop with rfl | rfl <;> simp only [Spec.binop] at h <;> split at h
  · rename_i x y
    cases h
    rw [exec]
    exact ⟨.bool (y.isPrefixOf x), by simp [M.bind_ok hl, M.bind_ok hr, convert_text ha, convert_text hb], rfl⟩
  · cases h
  · rename_i x y
    cases hre : Regex.parse y with
    | none => simp [hre] at h
    | some re =>
      simp only [hre, Option.map_some, Option.some.injEq] at h; subst h
      rw [exec]
      exact ⟨.bool (re.matches x), by simp [M.bind_ok hl, M.bind_ok hr, convert_text ha, convert_text hb, hre], rfl⟩
  · cases h

/-- `- * /` and `+` on numbers -/
theorem refines_arith {op : Op} {mop : MathOp} (hop : mathOpOf op = some mop) (hkl : kindOf l = some .num)
    (hl : exec l kv c = (.ok va, c)) (hr : exec r kv c = (.ok vb, c)) (ha : va ≈ sa) (hb : vb ≈ sb)
    (hka : va.hasKind .num = true)
    (h : Spec.binop op sa sb = some s) : ∃ v, exec (.binop p op l r) kv c = (.ok v, c) ∧ v ≈ s := by
  have hns : (retType l == tyTSTR) = false := (number_flag hkl).2 rfl
  have harith : Spec.arith (mathOpToOp mop) sa sb = some s := by
    cases op <;> simp [mathOpOf] at hop <;> subst hop <;> simp only [Spec.binop, mathOpToOp] at h ⊢
    · -- `+`: the operands are numbers, not texts
      rcases ha.kind_num hka with ⟨i, rfl⟩ | ⟨f, rfl⟩ <;> exact h
    · exact h
    · exact h
    · exact h
  obtain ⟨v, hv, hrel⟩ := executeMathOp_spec ha hb mop harith
  refine ⟨v, ?_, hrel⟩
  cases op <;> simp [mathOpOf] at hop <;> subst hop <;> rw [exec] <;>
    simp [hns, M.bind_ok hl, M.bind_ok hr, hv]

/-- `+` on texts -/
theorem refines_concat (hkl : kindOf l = some .text)
    (hl : exec l kv c = (.ok va, c)) (hr : exec r kv c = (.ok vb, c)) (ha : va ≈ sa) (hb : vb ≈ sb)
    (hka : va.hasKind .text = true) (hkb : vb.hasKind .text = true)
    (h : Spec.binop .add sa sb = some s) : ∃ v, exec (.binop p .add l r) kv c = (.ok v, c) ∧ v ≈ s := by
  have hs : (retType l == tyTSTR) = true := (number_flag hkl).1 rfl
  obtain ⟨x, rfl⟩ := ha.kind_text hka
  obtain ⟨y, rfl⟩ := hb.kind_text hkb
  simp only [Spec.binop, Option.some.injEq] at h; subst h
  rw [exec]
  exact ⟨.str (x ++ y), by simp [hs, M.bind_ok hl, M.bind_ok hr, toStringV_text ha, toStringV_text hb], rfl⟩

end groups

/-! ### `in (…)`: the engine's loop with early exit against the reference's strict membership -/

theorem member_cons {x v : SVal} {vs : List SVal} {r : Bool} (h : Spec.member x (v :: vs) = some r) :
    ∃ here later, compare? .eq x v = some here ∧ Spec.member x vs = some later ∧ r = (here || later) := by
  simp only [Spec.member, bind, Option.bind] at h
  cases h1 : compare? .eq x v with
  | none => simp [h1] at h
  | some here =>
    cases h2 : Spec.member x vs with
    | none => simp [h1, h2] at h
    | some later => simp [h1, h2, pure] at h; exact ⟨here, later, rfl, rfl, h.symm⟩

theorem execInItems_spec {number : Bool} {k : Kind} (hk : (number = true ∧ k = .num) ∨ (number = false ∧ k = .text))
    {left : Value} {sx : SVal} (hx : left ≈ sx) (hkx : left.hasKind k = true) {kv : Pair} {c : Ctx} :
    ∀ (items : List Expr) (ss : List SVal), allKind k items = true →
      All2 (fun e s => ∃ v, exec e kv c = (.ok v, c) ∧ v ≈ s) items ss →
      ∀ r, Spec.member sx ss = some r → execInItems number left items kv c = (.ok (.bool r), c)
  | [], _, _, hall, r, hm => by
    cases hall
    simp only [Spec.member, Option.some.injEq] at hm; subst hm
    rw [execInItems]; rfl
  | e :: es, _, hkind, hall, r, hm => by
    cases hall with
    | cons hhead htail =>
      rename_i s ss
      obtain ⟨v, hv, hrel⟩ := hhead
      obtain ⟨here, later, h1, h2, rfl⟩ := member_cons hm
      simp only [allKind, Bool.and_eq_true] at hkind
      have hke : kindOf e = some k := by simpa using hkind.1
      have hrt : retType e = (if number = true then tyTNUMBER else tyTSTR) := by
        rw [retType_of_kind e k hke]
        rcases hk with ⟨rfl, rfl⟩ | ⟨rfl, rfl⟩ <;> rfl
      have hcmp := compareBy_spec hk hx hrel hkx .eq (r := here) h1
      have ih := execInItems_spec hk hx hkx es ss hkind.2 htail later h2
      rw [execInItems]
      simp only [hrt, bne_self_eq_false, Bool.false_eq_true, if_false]
      cases here with
      | true => simp [M.bind_ok hv, M.bind_run, hcmp]
      | false => simp [M.bind_ok hv, M.bind_run, hcmp, ih]

/-! ### functions -/

def bodyOf : Fn → Body
  | .upper => .upper | .lower => .lower | .int => .toInt | .float => .toFloat | .str => .toStr
  | .strlen => .strlen | .isInt => .isInt | .isFloat => .isFloat | .substr => .subStr

/-- the reference's function names are the engine's table entries with the bodies of the same name -/
theorem ofName_lookup {f : Bytes} {fn : Fn} (h : Fn.ofName f = some fn) :
    ∃ fo, lookupFunc (toLower f) = some fo ∧ fo.body = some (bodyOf fn) := by
  unfold Fn.ofName at h
  have e : f.map Spec.lowerByte = toLower f := rfl
  simp only [e] at h
  generalize toLower f = n at h
  split at h
  · rename_i hn; subst hn; cases h; exact ⟨_, rfl, rfl⟩
  split at h
  · rename_i hn; subst hn; cases h; exact ⟨_, rfl, rfl⟩
  split at h
  · rename_i hn; subst hn; cases h; exact ⟨_, rfl, rfl⟩
  split at h
  · rename_i hn; subst hn; cases h; exact ⟨_, rfl, rfl⟩
  split at h
  · rename_i hn; subst hn; cases h; exact ⟨_, rfl, rfl⟩
  split at h
  · rename_i hn; subst hn; cases h; exact ⟨_, rfl, rfl⟩
  split at h
  · rename_i hn; subst hn; cases h; exact ⟨_, rfl, rfl⟩
  split at h
  · rename_i hn; subst hn; cases h; exact ⟨_, rfl, rfl⟩
  split at h
  · rename_i hn; subst hn; cases h; exact ⟨_, rfl, rfl⟩
  · cases h

/-- what `kindOf` knows of a call -/
theorem kindOf_call {p : Nat} {nm : Expr} {args : List Expr} {k : Kind} (h : kindOf (.call p nm args) = some k) :
    ∃ fname fo b, funcNameOf nm = .ok fname ∧ lookupFunc fname = some fo ∧
      ¬ (!fo.varArgs && args.length != fo.numArgs) = true ∧
      ¬ (fo.varArgs && decide (args.length < fo.numArgs)) = true ∧
      fo.body = some b ∧ argsOk b args = true ∧ k = b.res := by
  rw [kindOf] at h
  split at h
  · cases h
  · rename_i fname hn
    split at h
    · cases h
    · rename_i fo hf
      split at h
      · cases h
      · rename_i h1
        split at h
        · cases h
        · rename_i h2
          split at h
          · cases h
          · rename_i b hb
            split at h
            · rename_i hargs
              cases h
              exact ⟨fname, fo, b, hn, hf, h1, h2, hb, hargs, rfl⟩
            · cases h

section calls
variable {kv : Pair} {c : Ctx}

theorem apply_unary {fn : Fn} {ss : List SVal} {s : SVal} (hfn : fn ≠ .substr) (h : Spec.apply fn ss = some s) :
    ∃ x, ss = [x] := by
  cases ss with
  | nil => cases fn <;> simp [Spec.apply] at h
  | cons x rest =>
    cases rest with
    | nil => exact ⟨x, rfl⟩
    | cons y rest2 =>
      cases fn <;> first
        | exact absurd rfl hfn
        | (simp [Spec.apply] at h)
        | (cases x <;> simp [Spec.apply] at h)

/-- the one-argument functions -/
theorem refines_unary {fn : Fn} (hfn : fn ≠ .substr) {a : Expr} {rest : List Expr} {va : Value} {sa s : SVal}
    (ha : exec a kv c = (.ok va, c)) (hrel : va ≈ sa) (h : Spec.apply fn [sa] = some s) :
    ∃ v, rowBody (bodyOf fn) (a :: rest) kv c = (.ok v, c) ∧ v ≈ s := by
  cases fn with
  | substr => exact absurd rfl hfn
  | upper =>
    cases sa <;> simp [Spec.apply] at h
    rename_i t; subst h
    rw [bodyOf, rowBody]
    exact ⟨_, by simp [M.bind_ok ha]; rfl, by simp [Rel, toStringV_text hrel, toUpper_eq]⟩
  | lower =>
    cases sa <;> simp [Spec.apply] at h
    rename_i t; subst h
    rw [bodyOf, rowBody]
    exact ⟨_, by simp [M.bind_ok ha]; rfl, by simp [Rel, toStringV_text hrel, toLower_eq]⟩
  | int =>
    simp only [Spec.apply] at h
    cases hi : Spec.toInt sa with
    | none => simp [hi] at h
    | some i =>
      simp only [hi, Option.map_some, Option.some.injEq] at h; subst h
      rw [bodyOf, rowBody]
      refine ⟨.int (toIntV va 0), by simp [M.bind_ok ha], ?_⟩
      cases sa with
      | text t =>
        simp only [Spec.toInt, readInt_eq] at hi
        rcases hrel.text_inv with rfl | rfl <;> simp [Rel, toIntV, textToInt, hi]
      | int j =>
        simp only [Spec.toInt, Option.some.injEq] at hi; subst hi
        rcases hrel.int_inv with rfl | rfl <;> simp [Rel, toIntV]
      | float f =>
        have := hrel.float_inv; subst this
        simp only [Spec.toInt] at hi
        split at hi
        · cases hi; simp [Rel, toIntV]
        · cases hi
      | bool _ => simp [Spec.toInt] at hi
      | list _ => simp [Spec.toInt] at hi
  | float =>
    simp only [Spec.apply] at h
    cases hi : Spec.toFloat sa with
    | none => simp [hi] at h
    | some x =>
      simp only [hi, Option.map_some, Option.some.injEq] at h; subst h
      rw [bodyOf, rowBody]
      refine ⟨.float (toFloatV va F64.zero), by simp [M.bind_ok ha], ?_⟩
      cases sa with
      | text t =>
        simp only [Spec.toFloat] at hi
        rcases hrel.text_inv with rfl | rfl <;> simp [Rel, toFloatV, hi]
      | int j =>
        simp only [Spec.toFloat, Option.some.injEq] at hi; subst hi
        rcases hrel.int_inv with rfl | rfl <;> simp [Rel, toFloatV]
      | float f =>
        have := hrel.float_inv; subst this
        simp only [Spec.toFloat, Option.some.injEq] at hi; subst hi
        simp [Rel, toFloatV]
      | bool _ => simp [Spec.toFloat] at hi
      | list _ => simp [Spec.toFloat] at hi
  | str =>
    simp only [Spec.apply] at h
    cases hi : Spec.toStr sa with
    | none => simp [hi] at h
    | some x =>
      simp only [hi, Option.map_some, Option.some.injEq] at h; subst h
      rw [bodyOf, rowBody]
      refine ⟨.str (toStringV va), by simp [M.bind_ok ha], ?_⟩
      exact toStr_spec hrel hi
  | strlen =>
    simp only [Spec.apply] at h
    cases hi : Spec.toStr sa with
    | none => simp [hi] at h
    | some x =>
      simp only [hi, Option.map_some, Option.some.injEq] at h; subst h
      rw [bodyOf, rowBody]
      refine ⟨.int (Int64.ofNat (toStringV va).length), by simp [M.bind_ok ha], ?_⟩
      have : toStringV va = x := toStr_spec hrel hi
      simp [Rel, this]
  | isInt =>
    rw [bodyOf, rowBody]
    refine ⟨.bool (isIntV va), by simp [M.bind_ok ha], ?_⟩
    cases sa with
    | text t =>
      simp only [Spec.apply, Option.some.injEq] at h; subst h
      rw [readInt_eq]
      rcases hrel.text_inv with rfl | rfl <;> simp [Rel, isIntV, parseInt64?]
    | int j =>
      simp only [Spec.apply, Option.some.injEq] at h; subst h
      rcases hrel.int_inv with rfl | rfl <;> simp [Rel, isIntV]
    | float _ => simp [Spec.apply] at h
    | bool _ => simp [Spec.apply] at h
    | list _ => simp [Spec.apply] at h
  | isFloat =>
    rw [bodyOf, rowBody]
    refine ⟨.bool (isFloatV va), by simp [M.bind_ok ha], ?_⟩
    cases sa with
    | text t =>
      simp only [Spec.apply, Option.some.injEq] at h; subst h
      rcases hrel.text_inv with rfl | rfl <;> simp [Rel, isFloatV]
    | float f =>
      simp only [Spec.apply, Option.some.injEq] at h; subst h
      have := hrel.float_inv; subst this
      simp [Rel, isFloatV]
    | int _ => simp [Spec.apply] at h
    | bool _ => simp [Spec.apply] at h
    | list _ => simp [Spec.apply] at h

/-- `substr(t, s, e)` -/
theorem refines_substr {a0 a1 a2 : Expr} {rest : List Expr} {v0 v1 v2 : Value} {s0 s1 s2 s : SVal}
    (hk1 : kindOf a1 = some .num) (hk2 : kindOf a2 = some .num)
    (h0 : exec a0 kv c = (.ok v0, c)) (h1 : exec a1 kv c = (.ok v1, c)) (h2 : exec a2 kv c = (.ok v2, c))
    (r0 : v0 ≈ s0) (r1 : v1 ≈ s1) (r2 : v2 ≈ s2) (h : Spec.apply .substr [s0, s1, s2] = some s) :
    ∃ v, rowBody .subStr (a0 :: a1 :: a2 :: rest) kv c = (.ok v, c) ∧ v ≈ s := by
  have t1 := retType_of_kind a1 .num hk1
  have t2 := retType_of_kind a2 .num hk2
  cases s0 <;> cases s1 <;> cases s2 <;> simp [Spec.apply] at h
  rename_i t st en; subst h
  rw [rowBody]
  have e1 : toIntV v1 0 = st := by rcases r1.int_inv with rfl | rfl <;> rfl
  have e2 : toIntV v2 0 = en := by rcases r2.int_inv with rfl | rfl <;> rfl
  refine ⟨.str (subString (toStringV v0) (toIntV v1 0) (toIntV v2 0)), ?_, ?_⟩
  · simp [M.bind_ok h0, M.bind_ok h1, M.bind_ok h2, t1, t2, Kind.code, substrKernel]
  · simp [Rel, e1, e2, toStringV_text r0, substr_eq]

end calls


/-! ### what `kindOf` and `core` say of the operands -/

theorem beqk {a : Option Kind} {k : Kind} (h : (a == some k) = true) : a = some k := by simpa using h

theorem kind_logic {p : Nat} {op : Op} {l r : Expr} {k : Kind} (hop : op = .and ∨ op = .kwAnd ∨ op = .or ∨ op = .kwOr)
    (h : kindOf (.binop p op l r) = some k) : kindOf l = some .bool ∧ kindOf r = some .bool := by
  rcases hop with rfl | rfl | rfl | rfl <;> simp only [kindOf] at h <;> split at h <;>
    first | (rename_i hh; simp only [Bool.and_eq_true] at hh; exact ⟨beqk hh.1, beqk hh.2⟩) | cases h

theorem kind_eq {p : Nat} {op : Op} {l r : Expr} {k : Kind} (hop : op = .eq ∨ op = .neq)
    (h : kindOf (.binop p op l r) = some k) : kindOf r = kindOf l ∧ (kindOf l).isSome = true := by
  rcases hop with rfl | rfl <;> simp only [kindOf] at h <;> split at h <;>
    first
      | (rename_i hh; simp only [Bool.and_eq_true] at hh
         have e : kindOf l = kindOf r := by simpa using hh.2
         refine ⟨e.symm, ?_⟩
         rcases isScalar_cases hh.1 with h1 | h1 | h1 <;> simp [h1])
      | cases h

theorem kind_cmp {p : Nat} {op : Op} {l r : Expr} {k : Kind} (hop : op = .gt ∨ op = .gte ∨ op = .lt ∨ op = .lte)
    (h : kindOf (.binop p op l r) = some k) :
    ∃ kk, (kk = .text ∨ kk = .num) ∧ kindOf l = some kk ∧ kindOf r = some kk := by
  rcases hop with rfl | rfl | rfl | rfl <;> simp only [kindOf] at h <;> split at h <;>
    first
      | (rename_i hh; simp only [Bool.and_eq_true, Bool.or_eq_true] at hh
         have e : kindOf l = kindOf r := by simpa using hh.2
         rcases hh.1 with h1 | h1
         · exact ⟨.text, .inl rfl, beqk h1, by rw [← e]; exact beqk h1⟩
         · exact ⟨.num, .inr rfl, beqk h1, by rw [← e]; exact beqk h1⟩)
      | cases h

theorem kind_match {p : Nat} {op : Op} {l r : Expr} {k : Kind} (hop : op = .prefixMatch ∨ op = .regexMatch)
    (h : kindOf (.binop p op l r) = some k) : kindOf l = some .text ∧ kindOf r = some .text := by
  rcases hop with rfl | rfl <;> simp only [kindOf] at h <;> split at h <;>
    first | (rename_i hh; simp only [Bool.and_eq_true] at hh; exact ⟨beqk hh.1, beqk hh.2⟩) | cases h

theorem kind_add {p : Nat} {l r : Expr} {k : Kind} (h : kindOf (.binop p .add l r) = some k) :
    (kindOf l = some .text ∧ kindOf r = some .text) ∨ (kindOf l = some .num ∧ kindOf r = some .num) := by
  simp only [kindOf] at h
  split at h
  · rename_i hh; simp only [Bool.and_eq_true] at hh; exact .inl ⟨beqk hh.1, beqk hh.2⟩
  · split at h
    · rename_i hh; simp only [Bool.and_eq_true] at hh; exact .inr ⟨beqk hh.1, beqk hh.2⟩
    · cases h

theorem kind_arith {p : Nat} {op : Op} {l r : Expr} {k : Kind} (hop : op = .sub ∨ op = .mul ∨ op = .div)
    (h : kindOf (.binop p op l r) = some k) : kindOf l = some .num ∧ kindOf r = some .num := by
  rcases hop with rfl | rfl | rfl <;> simp only [kindOf] at h <;> split at h <;>
    first | (rename_i hh; simp only [Bool.and_eq_true] at hh; exact ⟨beqk hh.1, beqk hh.2⟩) | cases h

theorem kind_in {p q : Nat} {l : Expr} {items : List Expr} {k : Kind}
    (h : kindOf (.binop p .in_ l (.list q items)) = some k) :
    ∃ kk, (kk = .text ∨ kk = .num) ∧ kindOf l = some kk ∧ allKind kk items = true := by
  simp only [kindOf] at h
  split at h
  · rename_i h1
    split at h
    · rename_i h2; exact ⟨.text, .inl rfl, beqk h1, h2⟩
    · cases h
  · split at h
    · rename_i h1
      split at h
      · rename_i h2; exact ⟨.num, .inr rfl, beqk h1, h2⟩
      · cases h
    · cases h

theorem kind_between {p q : Nat} {l : Expr} {items : List Expr} {k : Kind}
    (h : kindOf (.binop p .between l (.list q items)) = some k) :
    ∃ kk lo hi, items = [lo, hi] ∧ (kk = .text ∨ kk = .num) ∧ kindOf l = some kk ∧
      kindOf lo = some kk ∧ kindOf hi = some kk := by
  match items, h with
  | [lo, hi], h =>
    simp only [kindOf] at h
    split at h
    · rename_i hh
      simp only [Bool.and_eq_true, Bool.or_eq_true] at hh
      have e1 : kindOf lo = kindOf l := by simpa using hh.1.2
      have e2 : kindOf hi = kindOf l := by simpa using hh.2
      rcases hh.1.1 with h1 | h1
      · exact ⟨.text, lo, hi, rfl, .inl rfl, beqk h1, by rw [e1]; exact beqk h1, by rw [e2]; exact beqk h1⟩
      · exact ⟨.num, lo, hi, rfl, .inr rfl, beqk h1, by rw [e1]; exact beqk h1, by rw [e2]; exact beqk h1⟩
    · cases h
  | [], h => simp [kindOf] at h
  | [_], h => simp [kindOf] at h
  | _ :: _ :: _ :: _, h => simp [kindOf] at h

theorem allKind_mem {k : Kind} : ∀ {items : List Expr}, allKind k items = true → ∀ e ∈ items, (kindOf e).isSome = true
  | [], _, e, he => by cases he
  | x :: xs, h, e, he => by
    simp only [allKind, Bool.and_eq_true] at h
    rcases List.mem_cons.mp he with rfl | he'
    · rw [beqk h.1]; rfl
    · exact allKind_mem h.2 e he'

theorem isListNode_inv {r : Expr} (h : isListNode r = true) : ∃ q items, r = .list q items := by
  cases r <;> simp [isListNode] at h
  exact ⟨_, _, rfl⟩

/-- a well-kinded right operand of the non-list operators is not a list node anyway -/
theorem core_binop {p : Nat} {op : Op} {l r : Expr} (h : core (.binop p op l r) = true) :
    core l = true ∧ core r = true := by
  cases op <;> simp only [core, Bool.and_eq_true] at h <;> first | exact ⟨h.1.1, h.1.2⟩ | cases h

theorem argsOk_kinds {fn : Fn} {args : List Expr} (h : argsOk (bodyOf fn) args = true) :
    ∀ e ∈ args, (kindOf e).isSome = true := by
  have scalar : ∀ {a : Expr}, isScalar (kindOf a) = true → (kindOf a).isSome = true := by
    intro a ha; rcases isScalar_cases ha with h' | h' | h' <;> rw [h'] <;> rfl
  have one : ∀ {a : Expr}, (kindOf a).isSome = true → ∀ e ∈ [a], (kindOf e).isSome = true := by
    intro a ha e he; simp only [List.mem_cons, List.not_mem_nil, or_false] at he; subst he; exact ha
  cases fn <;> simp only [bodyOf] at h
  case substr =>
    match args, h with
    | [a0, a1, a2], h =>
      simp only [argsOk, Bool.and_eq_true] at h
      intro e he
      simp only [List.mem_cons, List.not_mem_nil, or_false] at he
      rcases he with rfl | rfl | rfl
      · rw [beqk h.1.1]; rfl
      · rw [beqk h.1.2]; rfl
      · rw [beqk h.2]; rfl
    | [], h => simp [argsOk] at h
    | [_], h => simp [argsOk] at h
    | [_, _], h => simp [argsOk] at h
    | _ :: _ :: _ :: _ :: _, h => simp [argsOk] at h
  all_goals
    match args, h with
    | [a], h =>
      simp only [argsOk] at h
      first | exact one (by rw [beqk h]; rfl) | exact one (scalar h)
    | [], h => simp [argsOk] at h
    | _ :: _ :: _, h => simp [argsOk] at h

/-! ### the induction -/

mutual
  theorem refines : ∀ (e : Expr) (k : Kind), kindOf e = some k → core e = true → Refines e
    | .str _ d, _, _, _ => by
      intro kv c _ s hs
      rw [Spec.eval] at hs; cases hs
      exact ⟨.bytes d, by rw [exec]; rfl, rfl⟩
    | .field _ kw, _, _, _ => by
      intro kv c _ s hs
      cases kw <;> (rw [Spec.eval] at hs; cases hs)
      · exact ⟨.bytes kv.key, by rw [exec]; rfl, rfl⟩
      · exact ⟨.bytes kv.value, by rw [exec]; rfl, rfl⟩
    | .num _ _ v, _, _, _ => by
      intro kv c _ s hs
      rw [Spec.eval] at hs; cases hs
      exact ⟨.int v, by rw [exec]; rfl, rfl⟩
    | .float _ _ v, _, _, _ => by
      intro kv c _ s hs
      rw [Spec.eval] at hs; cases hs
      exact ⟨.float v, by rw [exec]; rfl, rfl⟩
    | .bool _ _ v, _, _, _ => by
      intro kv c _ s hs
      rw [Spec.eval] at hs; cases hs
      exact ⟨.bool v, by rw [exec]; rfl, rfl⟩
    | .name .., _, hk, _ => by simp [kindOf] at hk
    | .cycle, _, hk, _ => by simp [kindOf] at hk
    | .list .., _, hk, _ => by simp [kindOf] at hk
    | .access .., _, hk, _ => by simp [kindOf] at hk
    | .ref p name t, k, hk, hcore => by
      intro kv c hc s hs
      rw [Spec.eval] at hs
      have hk' : kindOf t = some k := by simpa only [kindOf] using hk
      have hc' : core t = true := by simpa only [core] using hcore
      obtain ⟨v, hv, hr⟩ := refines t k hk' hc' kv c hc s hs
      exact ⟨v, by rw [exec_ref_off p name t kv hc (by rw [hv])]; exact hv, hr⟩
    | .not p r, k, hk, hcore => by
      intro kv c hc s hs
      obtain ⟨b, hb, rfl⟩ := eval_not hs
      have hk' : kindOf r = some .bool := by
        simp only [kindOf] at hk
        split at hk
        · rename_i hh; exact beqk hh
        · cases hk
      have hc' : core r = true := by simpa only [core] using hcore
      obtain ⟨v, hv, hr⟩ := refines r .bool hk' hc' kv c hc _ hb
      have := hr.bool_inv; subst this
      exact ⟨.bool !b, by rw [exec]; simp [M.bind_ok hv, M.bind_run, asBool], rfl⟩
    | .call p nm args, k, hk, hcore => by
      intro kv c hc s hs
      obtain ⟨fname, fo, b, hn, hf, h1, h2, hb, hargs, _⟩ := kindOf_call hk
      simp only [core, Bool.and_eq_true] at hcore
      cases nm with
      | name q f =>
        obtain ⟨fn, ss, hfn, hss, happ⟩ := eval_call hs
        obtain ⟨fo', hf', hb'⟩ := ofName_lookup hfn
        have hfname : fname = toLower f := by
          simp only [funcNameOf, Except.ok.injEq] at hn; exact hn.symm
        subst hfname
        rw [hf] at hf'; cases hf'
        rw [hb] at hb'; cases hb'
        rw [exec_call_eq' hn hf h1 h2 hb]
        have hall := refinesAll args hcore.2 (argsOk_kinds hargs) kv c hc ss hss
        by_cases hsub : fn = .substr
        · subst hsub
          match args, hargs, hall with
          | [a0, a1, a2], hargs', hall' =>
            simp only [bodyOf, argsOk, Bool.and_eq_true] at hargs'
            obtain ⟨s0, s1, s2, rfl, ⟨v0, x0, y0⟩, ⟨v1, x1, y1⟩, ⟨v2, x2, y2⟩⟩ := hall'.three
            exact refines_substr (beqk hargs'.1.2) (beqk hargs'.2) x0 x1 x2 y0 y1 y2 happ
          | [], hargs, _ => simp [bodyOf, argsOk] at hargs
          | [_], hargs, _ => simp [bodyOf, argsOk] at hargs
          | [_, _], hargs, _ => simp [bodyOf, argsOk] at hargs
          | _ :: _ :: _ :: _ :: _, hargs, _ => simp [bodyOf, argsOk] at hargs
        · obtain ⟨x, rfl⟩ := apply_unary hsub happ
          match args, hall with
          | [a], hall' =>
            obtain ⟨s0, hx, ⟨v0, x0, y0⟩⟩ := hall'.one
            cases hx
            exact refines_unary hsub x0 y0 happ
          | [], hall' => cases hall'
          | _ :: _ :: _, hall' =>
            cases hall' with
            | cons _ t => cases t
      | _ => simp [coreName] at hcore
    | .binop p op l r, k, hk, hcore => by
      intro kv c hc s hs
      obtain ⟨sa, sb, hsa, hsb, hop⟩ := eval_binop hs
      have hcl := (core_binop hcore).1
      have hcr := (core_binop hcore).2
      cases op with
      | not => simp [kindOf] at hk
      | and =>
        obtain ⟨kl, kr⟩ := kind_logic (.inl rfl) hk
        obtain ⟨va, hva, ra⟩ := refines l _ kl hcl kv c hc sa hsa
        obtain ⟨vb, hvb, rb⟩ := refines r _ kr hcr kv c hc sb hsb
        exact refines_logic (.inl rfl) hva hvb ra rb hop
      | kwAnd =>
        obtain ⟨kl, kr⟩ := kind_logic (.inr (.inl rfl)) hk
        obtain ⟨va, hva, ra⟩ := refines l _ kl hcl kv c hc sa hsa
        obtain ⟨vb, hvb, rb⟩ := refines r _ kr hcr kv c hc sb hsb
        exact refines_logic (.inr (.inl rfl)) hva hvb ra rb hop
      | or =>
        obtain ⟨kl, kr⟩ := kind_logic (.inr (.inr (.inl rfl))) hk
        obtain ⟨va, hva, ra⟩ := refines l _ kl hcl kv c hc sa hsa
        obtain ⟨vb, hvb, rb⟩ := refines r _ kr hcr kv c hc sb hsb
        exact refines_logic (.inr (.inr (.inl rfl))) hva hvb ra rb hop
      | kwOr =>
        obtain ⟨kl, kr⟩ := kind_logic (.inr (.inr (.inr rfl))) hk
        obtain ⟨va, hva, ra⟩ := refines l _ kl hcl kv c hc sa hsa
        obtain ⟨vb, hvb, rb⟩ := refines r _ kr hcr kv c hc sb hsb
        exact refines_logic (.inr (.inr (.inr rfl))) hva hvb ra rb hop
      | eq =>
        obtain ⟨e, hsome⟩ := kind_eq (.inl rfl) hk
        obtain ⟨kk, hkk⟩ := Option.isSome_iff_exists.mp hsome
        obtain ⟨va, hva, ra⟩ := refines l kk hkk hcl kv c hc sa hsa
        obtain ⟨vb, hvb, rb⟩ := refines r kk (by rw [e]; exact hkk) hcr kv c hc sb hsb
        exact refines_eq (.inl rfl) hva hvb ra rb hop
      | neq =>
        obtain ⟨e, hsome⟩ := kind_eq (.inr rfl) hk
        obtain ⟨kk, hkk⟩ := Option.isSome_iff_exists.mp hsome
        obtain ⟨va, hva, ra⟩ := refines l kk hkk hcl kv c hc sa hsa
        obtain ⟨vb, hvb, rb⟩ := refines r kk (by rw [e]; exact hkk) hcr kv c hc sb hsb
        exact refines_eq (.inr rfl) hva hvb ra rb hop
      | gt =>
        obtain ⟨kk, hkk, kl, kr⟩ := kind_cmp (.inl rfl) hk
        obtain ⟨va, hva, ra, ka⟩ := (refines l kk kl hcl).kinded kl hc hsa
        obtain ⟨vb, hvb, rb⟩ := refines r kk kr hcr kv c hc sb hsb
        exact refines_compare (.inl rfl) hkk kl hva hvb ra rb ka hop
      | gte =>
        obtain ⟨kk, hkk, kl, kr⟩ := kind_cmp (.inr (.inl rfl)) hk
        obtain ⟨va, hva, ra, ka⟩ := (refines l kk kl hcl).kinded kl hc hsa
        obtain ⟨vb, hvb, rb⟩ := refines r kk kr hcr kv c hc sb hsb
        exact refines_compare (.inr (.inl rfl)) hkk kl hva hvb ra rb ka hop
      | lt =>
        obtain ⟨kk, hkk, kl, kr⟩ := kind_cmp (.inr (.inr (.inl rfl))) hk
        obtain ⟨va, hva, ra, ka⟩ := (refines l kk kl hcl).kinded kl hc hsa
        obtain ⟨vb, hvb, rb⟩ := refines r kk kr hcr kv c hc sb hsb
        exact refines_compare (.inr (.inr (.inl rfl))) hkk kl hva hvb ra rb ka hop
      | lte =>
        obtain ⟨kk, hkk, kl, kr⟩ := kind_cmp (.inr (.inr (.inr rfl))) hk
        obtain ⟨va, hva, ra, ka⟩ := (refines l kk kl hcl).kinded kl hc hsa
        obtain ⟨vb, hvb, rb⟩ := refines r kk kr hcr kv c hc sb hsb
        exact refines_compare (.inr (.inr (.inr rfl))) hkk kl hva hvb ra rb ka hop
      | prefixMatch =>
        obtain ⟨kl, kr⟩ := kind_match (.inl rfl) hk
        obtain ⟨va, hva, ra⟩ := refines l _ kl hcl kv c hc sa hsa
        obtain ⟨vb, hvb, rb⟩ := refines r _ kr hcr kv c hc sb hsb
        exact refines_match (.inl rfl) hva hvb ra rb hop
      | regexMatch =>
        obtain ⟨kl, kr⟩ := kind_match (.inr rfl) hk
        obtain ⟨va, hva, ra⟩ := refines l _ kl hcl kv c hc sa hsa
        obtain ⟨vb, hvb, rb⟩ := refines r _ kr hcr kv c hc sb hsb
        exact refines_match (.inr rfl) hva hvb ra rb hop
      | add =>
        rcases kind_add hk with ⟨kl, kr⟩ | ⟨kl, kr⟩
        · obtain ⟨va, hva, ra, ka⟩ := (refines l _ kl hcl).kinded kl hc hsa
          obtain ⟨vb, hvb, rb, kb⟩ := (refines r _ kr hcr).kinded kr hc hsb
          exact refines_concat kl hva hvb ra rb ka kb hop
        · obtain ⟨va, hva, ra, ka⟩ := (refines l _ kl hcl).kinded kl hc hsa
          obtain ⟨vb, hvb, rb⟩ := refines r _ kr hcr kv c hc sb hsb
          exact refines_arith (mop := .add) rfl kl hva hvb ra rb ka hop
      | sub =>
        obtain ⟨kl, kr⟩ := kind_arith (.inl rfl) hk
        obtain ⟨va, hva, ra, ka⟩ := (refines l _ kl hcl).kinded kl hc hsa
        obtain ⟨vb, hvb, rb⟩ := refines r _ kr hcr kv c hc sb hsb
        exact refines_arith (mop := .sub) rfl kl hva hvb ra rb ka hop
      | mul =>
        obtain ⟨kl, kr⟩ := kind_arith (.inr (.inl rfl)) hk
        obtain ⟨va, hva, ra, ka⟩ := (refines l _ kl hcl).kinded kl hc hsa
        obtain ⟨vb, hvb, rb⟩ := refines r _ kr hcr kv c hc sb hsb
        exact refines_arith (mop := .mul) rfl kl hva hvb ra rb ka hop
      | div =>
        obtain ⟨kl, kr⟩ := kind_arith (.inr (.inr rfl)) hk
        obtain ⟨va, hva, ra, ka⟩ := (refines l _ kl hcl).kinded kl hc hsa
        obtain ⟨vb, hvb, rb⟩ := refines r _ kr hcr kv c hc sb hsb
        exact refines_arith (mop := .div) rfl kl hva hvb ra rb ka hop
      | in_ =>
        have hlist : isListNode r = true := by
          simp only [core, Bool.and_eq_true] at hcore; exact hcore.2
        have hnode := refinesNode r hcr
        obtain ⟨q, items, rfl⟩ := isListNode_inv hlist
        obtain ⟨kk, hkk, kl, hall⟩ := kind_in hk
        obtain ⟨ss, hss, rfl⟩ := eval_list hsb
        simp only [Spec.binop] at hop
        cases hm : Spec.member sa ss with
        | none => simp [hm] at hop
        | some x =>
          simp only [hm, Option.map_some, Option.some.injEq] at hop; subst hop
          obtain ⟨va, hva, ra, ka⟩ := (refines l kk kl hcl).kinded kl hc hsa
          have hitems := hnode q items rfl (allKind_mem hall) kv c hc ss hss
          have hflag := hk_of kl hkk
          refine ⟨.bool x, ?_, rfl⟩
          rw [exec]
          simp only [M.bind_ok hva]
          exact execInItems_spec hflag ra ka items ss hall hitems x hm
      | between =>
        have hlist : isListNode r = true := by
          simp only [core, Bool.and_eq_true] at hcore; exact hcore.2
        have hnode := refinesNode r hcr
        obtain ⟨q, items, rfl⟩ := isListNode_inv hlist
        obtain ⟨kk, lo, hi, rfl, hkk, kl, klo, khi⟩ := kind_between hk
        obtain ⟨ss, hss, rfl⟩ := eval_list hsb
        have hitems := hnode q [lo, hi] rfl (by
          intro e he
          simp only [List.mem_cons, List.not_mem_nil, or_false] at he
          rcases he with rfl | rfl
          · rw [klo]; rfl
          · rw [khi]; rfl) kv c hc ss hss
        obtain ⟨va, hva, ra, ka⟩ := (refines l kk kl hcl).kinded kl hc hsa
        obtain ⟨slo, shi, rfl, ⟨vlo, hvlo, rlo⟩, ⟨vhi, hvhi, rhi⟩⟩ := hitems.two
        have klo' : vlo.hasKind kk = true := (exec_sound lo kk klo kv c hc).1 vlo c hvlo
        simp only [Spec.binop] at hop
        cases hm : Spec.between sa slo shi with
        | none => simp [hm] at hop
        | some x =>
          simp only [hm, Option.map_some, Option.some.injEq] at hop; subst hop
          have hflag := hk_of kl hkk
          have tlo := retType_of_kind lo kk klo
          have thi := retType_of_kind hi kk khi
          have hw : (if (retType l == tyTSTR) = true then tyTSTR else tyTNUMBER) = kk.code := by
            rcases hkk with rfl | rfl
            · rw [(number_flag kl).1 rfl]; rfl
            · rw [(number_flag kl).2 rfl]; rfl
          refine ⟨.bool x, ?_, rfl⟩
          rw [exec]
          simp only [M.bind_ok hva, hw, tlo, thi, bne_self_eq_false, Bool.false_eq_true, if_false,
            M.bind_ok hvlo, M.bind_ok hvhi, M.lift_run, betweenKernel_spec hflag ra rlo rhi ka klo' hm]
  termination_by e => sizeOf e
  decreasing_by all_goals (simp_wf; try omega)

  /-- a list node: its items, position by position -/
  theorem refinesNode : ∀ (r : Expr), core r = true → ∀ (q : Nat) (items : List Expr), r = .list q items →
      (∀ e ∈ items, (kindOf e).isSome = true) → RefinesAll items
    | .list _ items', hcore, _, _, heq, hk => by
      cases heq
      exact refinesAll items' (by simpa only [core] using hcore) hk
    | .binop .., _, _, _, heq, _ => by cases heq
    | .field .., _, _, _, heq, _ => by cases heq
    | .str .., _, _, _, heq, _ => by cases heq
    | .not .., _, _, _, heq, _ => by cases heq
    | .call .., _, _, _, heq, _ => by cases heq
    | .name .., _, _, _, heq, _ => by cases heq
    | .ref .., _, _, _, heq, _ => by cases heq
    | .cycle, _, _, _, heq, _ => by cases heq
    | .num .., _, _, _, heq, _ => by cases heq
    | .float .., _, _, _, heq, _ => by cases heq
    | .bool .., _, _, _, heq, _ => by cases heq
    | .access .., _, _, _, heq, _ => by cases heq
  termination_by r => sizeOf r
  decreasing_by all_goals (simp_wf; try omega)

  theorem refinesAll : ∀ (es : List Expr), coreList es = true → (∀ e ∈ es, (kindOf e).isSome = true) → RefinesAll es
    | [], _, _ => by
      intro kv c _ ss hss
      simp only [Spec.evalList, Option.some.injEq] at hss; subst hss
      exact .nil
    | e :: es, hcore, hkinds => by
      intro kv c hc ss hss
      obtain ⟨s, rest, he, hrest, rfl⟩ := evalList_cons hss
      simp only [coreList, Bool.and_eq_true] at hcore
      obtain ⟨k, hk⟩ := Option.isSome_iff_exists.mp (hkinds e (List.mem_cons_self ..))
      exact .cons (refines e k hk hcore.1 kv c hc s he)
        (refinesAll es hcore.2 (fun x hx => hkinds x (List.mem_cons_of_mem _ hx)) kv c hc rest hrest)
  termination_by es => sizeOf es
  decreasing_by all_goals (simp_wf; try omega)
end

/-- **C01 (1)**: on the core language, wherever the reference evaluator gives a value, the engine's
    row evaluator (cache off) succeeds with a related value and leaves the context untouched -/
theorem exec_refines_spec (e : Expr) (h : CoreLang e) (kv : Pair) {s : SVal} (hs : Spec.eval e kv = some s) :
    ∃ v, exec e kv Ctx.off = (.ok v, Ctx.off) ∧ v ≈ s := by
  obtain ⟨k, hk⟩ := Option.isSome_iff_exists.mp h.2
  exact refines e k hk h.1 kv Ctx.off rfl s hs

/-- for a condition: the reference says `b` ⇒ the engine says `b` -/
theorem exec_refines_spec_bool (e : Expr) (h : CoreLang e) (kv : Pair) {b : Bool}
    (hs : Spec.eval e kv = some (.bool b)) : exec e kv Ctx.off = (.ok (.bool b), Ctx.off) := by
  obtain ⟨v, hv, hr⟩ := exec_refines_spec e h kv hs
  rw [hr.bool_inv] at hv; exact hv

theorem holds_iff {p : Expr} {kv : Pair} : Spec.holds p kv = true ↔ Spec.eval p kv = some (.bool true) := by
  unfold Spec.holds
  split
  · rename_i h; simp [h]
  · rename_i h; simp only [Bool.false_eq_true, false_iff]; exact fun e => h e

theorem evaluable_iff {p : Expr} {kv : Pair} : Spec.evaluable p kv = true ↔ ∃ b, Spec.eval p kv = some (.bool b) := by
  unfold Spec.evaluable
  split
  · rename_i b h; simp [h]
  · rename_i h; simp only [Bool.false_eq_true, false_iff]; rintro ⟨b, e⟩; exact h b e

/-- the statement for the full core language of C01 — it is what `exec_refines_spec` proves
    (nothing of the core language is left out; see the `CoreLang` docstring) -/
def exec_refines_spec_full_statement : Prop :=
  ∀ (e : Expr), CoreLang e → ∀ (kv : Pair) (s : SVal), Spec.eval e kv = some s →
    ∃ v, exec e kv Ctx.off = (.ok v, Ctx.off) ∧ v ≈ s

theorem exec_refines_spec_full : exec_refines_spec_full_statement :=
  fun e h kv _ hs => exec_refines_spec e h kv hs

/-! non-vacuity: `key ^= 'a' & int(value) + 1 > 2` is in the core language; on (ab, 5) the
    reference says true, on (ab, x) it is not evaluable while the engine answers (int('x') = 0) -/
section example_
def exA : Expr :=
  .binop 0 .and (.binop 0 .prefixMatch (.field 0 .key) (.str 0 [97]))
    (.binop 0 .gt (.binop 0 .add (.call 0 (.name 0 (Spec.ascii "int")) [.field 0 .value]) (.num 0 [] 1)) (.num 0 [] 2))

example : CoreLang exA := by decide
example : Spec.holds exA ⟨[97, 98], [53]⟩ = true := by decide
example : exec exA ⟨[97, 98], [53]⟩ Ctx.off = (.ok (.bool true), Ctx.off) :=
  exec_refines_spec_bool exA (by decide) _ (holds_iff.mp (by decide))
example : Spec.evaluable exA ⟨[97, 98], [120]⟩ = false := by decide
end example_

end Kvql.Refine
