/-
  With the cache switched off (a nil context, or `EnableCache = false`) the row evaluator leaves
  the context exactly as it found it — also when it fails.
-/
import Kvql.Proofs.ExecBasics

namespace Kvql

/-- the computation does not touch a context whose cache is switched off -/
def Inert {α} (x : M α) : Prop := ∀ c : Ctx, c.enable = false → (x c).2 = c

namespace Inert

theorem pure {α} (a : α) : Inert (Pure.pure a : M α) := fun _ _ => rfl
theorem throw {α} (e : Err) : Inert (M.throw e : M α) := fun _ _ => rfl
theorem lift {α} (x : Except Err α) : Inert (M.lift x) := fun _ _ => rfl

theorem bind {α β} {x : M α} {f : α → M β} (hx : Inert x) (hf : ∀ a, Inert (f a)) : Inert (x >>= f) := by
  intro c hc
  rw [M.bind_run]
  have h1 := hx c hc
  split
  · rename_i a c' heq
    rw [heq] at h1; simp at h1; subst h1
    exact hf a _ hc
  · rename_i e c' heq
    rw [heq] at h1; simpa using h1

theorem ite {α} {p : Prop} [Decidable p] {x y : M α} (hx : Inert x) (hy : Inert y) :
    Inert (if p then x else y) := by split <;> assumption

/-- from an outcome: the context is unchanged -/
theorem ctx_eq {α} {x : M α} (h : Inert x) {c c' : Ctx} {r : Except Err α} (hc : c.enable = false)
    (hr : x c = (r, c')) : c' = c := by
  have := h c hc; rw [hr] at this; exact this

end Inert

theorem Ctx.getFieldResult_off {c : Ctx} (h : c.enable = false) (n : Bytes) : c.getFieldResult n = Option.none := by
  simp [Ctx.getFieldResult, h]
theorem Ctx.setFieldResult_off {c : Ctx} (h : c.enable = false) (n : Bytes) (v : Value) : c.setFieldResult n v = c := by
  simp [Ctx.setFieldResult, h]
theorem Ctx.getChunkFieldResult_off {c : Ctx} (h : c.enable = false) (n k : Bytes) :
    c.getChunkFieldResult n k = Option.none := by
  simp [Ctx.getChunkFieldResult, h]
theorem Ctx.setChunkFieldResult_off {c : Ctx} (h : c.enable = false) (n k : Bytes) (v : List Value) :
    c.setChunkFieldResult n k v = c := by
  simp [Ctx.setChunkFieldResult, h]

/-- an alias reference evaluated with the cache off is its target -/
theorem exec_ref_off (p : Nat) (name : Bytes) (target : Expr) (kv : Pair) {c : Ctx} (hc : c.enable = false)
    (ht : (exec target kv c).2 = c) :
    exec (.ref p name target) kv c = exec target kv c := by
  rw [exec]
  simp only [Ctx.getFieldResult_off hc, ite_self]
  rcases hx : exec target kv c with ⟨r, c'⟩
  rw [hx] at ht; simp at ht; subst ht
  cases r <;> simp [Ctx.setFieldResult_off hc]

mutual
  theorem exec_inert : ∀ (e : Expr) (kv : Pair), Inert (exec e kv)
    | .str .., kv => by rw [exec]; exact .pure _
    | .field _ k, kv => by cases k <;> rw [exec] <;> exact .pure _
    | .name .., kv => by rw [exec]; exact .pure _
    | .num .., kv => by rw [exec]; exact .pure _
    | .float .., kv => by rw [exec]; exact .pure _
    | .bool .., kv => by rw [exec]; exact .pure _
    | .list .., kv => by rw [exec]; exact .pure _
    | .cycle, kv => by rw [exec]; exact .throw _
    | .not _ r, kv => by
      rw [exec]
      exact .bind (exec_inert r kv) fun v => .bind (.lift _) fun _ => .pure _
    | .ref p name target, kv => by
      intro c hc
      rw [exec_ref_off p name target kv hc (exec_inert target kv c hc)]
      exact exec_inert target kv c hc
    | .access _ l f, kv => by
      rw [exec]
      refine .bind (exec_inert l kv) fun left => ?_
      split <;> first | exact .lift _ | exact .throw _
    | .call _ nm args, kv => by
      rw [exec]
      split
      · exact .throw _
      · split
        · exact .throw _
        · split
          · exact .throw _
          · split
            · exact .throw _
            · split
              · exact .throw _
              · exact rowBody_inert _ args kv
    | .binop _ op l r, kv => by
      have hl := exec_inert l kv
      have hr := exec_inert r kv
      cases op <;> rw [exec] <;> (try dsimp only)
      · exact .bind hl fun a => .bind (.lift _) fun x => .ite (.pure _) (.bind hr fun b => .bind (.lift _) fun _ => .pure _)
      · exact .bind hl fun a => .bind (.lift _) fun x => .ite (.pure _) (.bind hr fun b => .bind (.lift _) fun _ => .pure _)
      · exact .throw _
      · exact .bind hl fun a => .bind hr fun b => .bind (.lift _) fun _ => .pure _
      · exact .bind hl fun a => .bind hr fun b => .bind (.lift _) fun _ => .pure _
      · refine .bind hl fun a => .bind hr fun b => ?_
        split <;> first | exact .pure _ | exact .throw _
      · refine .bind hl fun a => .bind hr fun b => ?_
        split
        · split <;> first | exact .pure _ | exact .throw _
        · exact .throw _
      · split
        · exact .bind hl fun a => .bind hr fun b => .pure _
        · exact .bind hl fun a => .bind hr fun b => .lift _
      · exact .bind hl fun a => .bind hr fun b => .lift _
      · exact .bind hl fun a => .bind hr fun b => .lift _
      · exact .bind hl fun a => .bind hr fun b => .lift _
      · exact .bind hl fun a => .bind hr fun b => .bind (.lift _) fun _ => .pure _
      · exact .bind hl fun a => .bind hr fun b => .bind (.lift _) fun _ => .pure _
      · exact .bind hl fun a => .bind hr fun b => .bind (.lift _) fun _ => .pure _
      · exact .bind hl fun a => .bind hr fun b => .bind (.lift _) fun _ => .pure _
      · refine .bind hl fun left => ?_
        split
        · exact execInItems_inert _ left _ kv
        · exact .ite (.throw _) (.bind hr fun fret => by
            split <;> first | exact .pure _ | exact .throw _)
        · exact .ite (.throw _) (.bind hr fun fret => by
            split <;> first | exact .pure _ | exact .throw _)
        · exact .throw _
      · refine .bind hl fun left => ?_
        split
        · rename_i p lo hi
          exact .ite (.throw _) (.ite (.throw _)
            (.bind (exec_inert lo kv) fun lv => .bind (exec_inert hi kv) fun uv => .lift _))
        · exact .throw _
      · exact .bind hl fun a => .bind (.lift _) fun x => .ite (.pure _) (.bind hr fun b => .bind (.lift _) fun _ => .pure _)
      · exact .bind hl fun a => .bind (.lift _) fun x => .ite (.pure _) (.bind hr fun b => .bind (.lift _) fun _ => .pure _)

  theorem execInItems_inert : ∀ (number : Bool) (left : Value) (es : List Expr) (kv : Pair),
      Inert (execInItems number left es kv)
    | _, _, [], kv => by rw [execInItems]; exact .pure _
    | number, left, e :: es, kv => by
      rw [execInItems]
      exact .ite (.throw _) (.bind (exec_inert e kv) fun lv =>
        .bind (.lift _) fun c => .ite (.pure _) (execInItems_inert number left es kv))

  theorem execArgs_inert : ∀ (es : List Expr) (kv : Pair), Inert (execArgs es kv)
    | [], kv => by rw [execArgs]; exact .pure _
    | e :: es, kv => by
      rw [execArgs]
      exact .bind (exec_inert e kv) fun v => .bind (execArgs_inert es kv) fun vs => .pure _

  theorem rowBody_inert : ∀ (b : Body) (args : List Expr) (kv : Pair), Inert (rowBody b args kv)
    | .lower, a0 :: _, kv => by rw [rowBody]; exact .bind (exec_inert a0 kv) fun v => .pure _
    | .upper, a0 :: _, kv => by rw [rowBody]; exact .bind (exec_inert a0 kv) fun v => .pure _
    | .toInt, a0 :: _, kv => by rw [rowBody]; exact .bind (exec_inert a0 kv) fun v => .pure _
    | .toFloat, a0 :: _, kv => by rw [rowBody]; exact .bind (exec_inert a0 kv) fun v => .pure _
    | .toStr, a0 :: _, kv => by rw [rowBody]; exact .bind (exec_inert a0 kv) fun v => .pure _
    | .isInt, a0 :: _, kv => by rw [rowBody]; exact .bind (exec_inert a0 kv) fun v => .pure _
    | .isFloat, a0 :: _, kv => by rw [rowBody]; exact .bind (exec_inert a0 kv) fun v => .pure _
    | .strlen, a0 :: _, kv => by rw [rowBody]; exact .bind (exec_inert a0 kv) fun v => .pure _
    | .len, a0 :: _, kv => by
      rw [rowBody]; exact .bind (exec_inert a0 kv) fun v => .bind (.lift _) fun _ => .pure _
    | .json, a0 :: _, kv => by
      rw [rowBody]; refine .bind (exec_inert a0 kv) fun v => ?_
      split <;> first | exact .pure _ | exact .throw _
    | .subStr, a0 :: a1 :: a2 :: _, kv => by
      rw [rowBody]
      exact .bind (exec_inert a0 kv) fun v => .ite (.throw _) (.ite (.throw _)
        (.bind (exec_inert a1 kv) fun s => .bind (exec_inert a2 kv) fun l => .lift _))
    | .split, a0 :: a1 :: _, kv => by
      rw [rowBody]
      exact .bind (exec_inert a0 kv) fun v => .ite (.throw _) (.bind (exec_inert a1 kv) fun _ => .pure _)
    | .join, a0 :: rest, kv => by
      rw [rowBody]
      exact .ite (.throw _) (.bind (exec_inert a0 kv) fun _ => .bind (execArgs_inert rest kv) fun _ => .pure _)
    | .cosine, a0 :: a1 :: _, kv => by
      rw [rowBody]
      exact .bind (exec_inert a0 kv) fun l => .bind (exec_inert a1 kv) fun r =>
        .bind (.lift _) fun _ => .bind (.lift _) fun _ => .bind (.lift _) fun _ => .pure _
    | .l2, a0 :: a1 :: _, kv => by
      rw [rowBody]
      exact .bind (exec_inert a0 kv) fun l => .bind (exec_inert a1 kv) fun r =>
        .bind (.lift _) fun _ => .bind (.lift _) fun _ => .bind (.lift _) fun _ => .pure _
    | .floatList, [], kv => by rw [rowBody]; exact .pure _
    | .floatList, a0 :: rest, kv => by
      rw [rowBody]; exact .bind (exec_inert a0 kv) fun _ => .bind (execArgs_inert rest kv) fun _ => .pure _
    | .intList, [], kv => by rw [rowBody]; exact .pure _
    | .intList, a0 :: rest, kv => by
      rw [rowBody]; exact .bind (exec_inert a0 kv) fun _ => .bind (execArgs_inert rest kv) fun _ => .pure _
    | .toList, [], kv => by rw [rowBody]; exact .pure _
    | .toList, a0 :: rest, kv => by
      rw [rowBody]
      exact .bind (exec_inert a0 kv) fun _ => .bind (exec_inert a0 kv) fun _ =>
        .bind (execArgs_inert rest kv) fun _ => .ite (.pure _) (.pure _)
    | .lower, [], _ | .upper, [], _ | .toInt, [], _ | .toFloat, [], _
    | .toStr, [], _ | .isInt, [], _ | .isFloat, [], _ | .strlen, [], _
    | .len, [], _ | .json, [], _ | .join, [], _
    | .subStr, [], _ | .subStr, [_], _ | .subStr, [_, _], _
    | .split, [], _ | .split, [_], _
    | .cosine, [], _ | .cosine, [_], _
    | .l2, [], _ | .l2, [_], _ => by simp only [rowBody]; exact .throw _
end

end Kvql
