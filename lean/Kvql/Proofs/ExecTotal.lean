import Kvql.Proofs.ExecBasics

namespace Kvql
open Generated

/-- number of leading arguments a body indexes (`args[0]`, `args[1]`, …) -/
def Body.needs : Body → Nat
  | .subStr => 3
  | .split | .cosine | .l2 => 2
  | .toList | .floatList | .intList => 0
  | _ => 1

mutual
  /-- no cyclic alias below, and every list-index literal is non-negative (the parser has no
      negative literals) -/
  def Expr.wf : Expr → Bool
    | .cycle => false
    | .access _ l f => l.wf && (match f with | .num _ _ n => decide (0 ≤ n.toInt) | _ => true)
    | .binop _ _ l r => l.wf && r.wf
    | .not _ r => r.wf
    | .call _ _ args => Expr.wfList args
    | .ref _ _ t => t.wf
    | .list _ items => Expr.wfList items
    | _ => true
  def Expr.wfList : List Expr → Bool
    | [] => true
    | e :: es => e.wf && Expr.wfList es
end

/-- a pure kernel whose only failures are benign -/
def ExBenign {α} (x : Except Err α) : Prop := ∀ e, x = .error e → e.benign

theorem benign_operandType : Err.operandType.benign := by simp [Err.benign, Err.isPanic]
theorem benign_data : Err.data.benign := by simp [Err.benign, Err.isPanic]
theorem benign_arity : Err.arity.benign := by simp [Err.benign, Err.isPanic]
theorem benign_unknownFunc : Err.unknownFunc.benign := by simp [Err.benign, Err.isPanic]
theorem benign_syntax : Err.syntaxInExec.benign := by simp [Err.benign, Err.isPanic]
theorem benign_unknownOp : Err.unknownOp.benign := by simp [Err.benign, Err.isPanic]

theorem ExBenign.ok {α} (a : α) : ExBenign (.ok a : Except Err α) := by intro e h; cases h
theorem ExBenign.err {α} {e : Err} (h : e.benign) : ExBenign (.error e : Except Err α) := by
  intro e' h'; cases h'; exact h

theorem exb_asBool {v : Value} : ExBenign (asBool v) := by
  unfold asBool; split <;> first | exact .ok _ | exact .err benign_operandType

theorem exb_intMath {op l r} : ExBenign (intMath op l r) := by
  unfold intMath; split <;> (try split) <;> first | exact .ok _ | exact .err benign_data

theorem exb_floatMath {op l r} : ExBenign (floatMath op l r) := by
  unfold floatMath; split <;> (try split) <;> first | exact .ok _ | exact .err benign_data

theorem exb_executeMathOp {l r op} : ExBenign (executeMathOp l r op) := by
  unfold executeMathOp
  split
  · exact exb_intMath
  · split
    · exact exb_floatMath
    · split <;> first | exact exb_floatMath | exact .err benign_operandType

theorem exb_execNumberCompare {l r op} : ExBenign (execNumberCompare l r op) := by
  unfold execNumberCompare
  split
  · exact .ok _
  · split <;> first | exact .ok _ | exact .err benign_operandType

theorem exb_execStringCompare {l r op} : ExBenign (execStringCompare l r op) := by
  unfold execStringCompare
  split <;> first | exact .ok _ | exact .err benign_operandType

theorem exb_compareBy {n l r op} : ExBenign (compareBy n l r op) := by
  unfold compareBy; split
  · exact exb_execNumberCompare
  · exact exb_execStringCompare

theorem ExBenign.bind {α β} {x : Except Err α} {f : α → Except Err β}
    (hx : ExBenign x) (hf : ∀ a, ExBenign (f a)) : ExBenign (x >>= f) := by
  intro e h
  cases x with
  | error e0 => cases h; exact hx _ rfl
  | ok a => exact hf a e h

theorem ExBenign.map {α β} {x : Except Err α} {f : α → β} (hx : ExBenign x) : ExBenign (x.map f) := by
  intro e h
  cases x with
  | error e0 => cases h; exact hx _ rfl
  | ok a => cases h

theorem exb_betweenKernel {n left lv uv} : ExBenign (betweenKernel n left lv uv) := by
  unfold betweenKernel
  refine .bind (exb_compareBy) (fun cmp => ?_)
  split
  · exact .err benign_data
  · refine .bind (exb_compareBy) (fun lc => ?_)
    split
    · exact .ok _
    · exact .bind (exb_compareBy) (fun _ => .ok _)

theorem exb_numberEqual {l r} : ExBenign (numberEqual l r) := by
  unfold numberEqual; split <;> first | exact .ok _ | exact .err benign_operandType

theorem exb_equalRow {l r} : ExBenign (equalRow l r) := by
  unfold equalRow
  split <;> (try split) <;>
    first | exact .ok _ | exact exb_numberEqual | exact .err benign_operandType

theorem exb_dictAccess {k v} : ExBenign (dictAccess k v) := by
  unfold dictAccess
  split <;> (try split) <;> first | exact .ok _ | exact .err benign_operandType

theorem exb_indexGuarded {α} (l : List α) (idx : Int64) (w : α → Value) (h : 0 ≤ idx.toInt) :
    ExBenign (indexGuarded l idx w) := by
  unfold indexGuarded
  split
  · split
    · omega
    · exact .ok _
  · exact .ok _

theorem exb_listAccess {idx v} (h : 0 ≤ idx.toInt) : ExBenign (listAccess idx v) := by
  unfold listAccess
  split <;> (try split) <;> first | exact exb_indexGuarded _ _ _ h | exact .ok _ | exact .err benign_operandType

theorem exb_getListLength {v} : ExBenign (getListLength v) := by
  unfold getListLength
  split <;> first | exact .ok _ | exact .err benign_operandType

theorem exb_parseFloatAll {l} : ExBenign (parseFloatAll l) := by
  induction l with
  | nil => exact .ok _
  | cons b bs ih =>
    unfold parseFloatAll
    split
    · exact .err benign_data
    · exact ih.map

theorem exb_toFloatList {v} : ExBenign (toFloatList v) := by
  unfold toFloatList
  split <;> first | exact exb_parseFloatAll | exact .ok _ | exact .err benign_operandType

theorem exb_cosineDistance {l r} : ExBenign (cosineDistance l r) := by
  unfold cosineDistance; split <;> first | exact .ok _ | exact .err benign_data

theorem exb_l2Distance {l r} : ExBenign (l2Distance l r) := by
  unfold l2Distance; split <;> first | exact .ok _ | exact .err benign_data

theorem exb_substrKernel {v s e} : ExBenign (substrKernel v s e) := ExBenign.ok _

theorem Total.liftB {α} {x : Except Err α} (h : ExBenign x) : Total (M.lift x) := Total.lift h

theorem Total.ite {α} {p : Prop} [Decidable p] {x y : M α} (hx : Total x) (hy : Total y) :
    Total (if p then x else y) := by split <;> assumption

/-! ### the function table gives every body the arguments it indexes -/

theorem funcTable_arity :
    ∀ e ∈ funcTable, ∀ b, (FuncInfo.ofEntry e).body = some b → b.needs ≤ (FuncInfo.ofEntry e).numArgs := by
  decide

theorem lookupFunc_mem {n : Bytes} {fo : FuncInfo} (h : lookupFunc n = some fo) :
    ∃ e ∈ funcTable, fo = FuncInfo.ofEntry e := by
  unfold lookupFunc at h
  cases hf : funcTable.find? (fun e => asciiBytes e.1 == n) with
  | none => simp [hf] at h
  | some e =>
    simp [hf] at h
    exact ⟨e, List.mem_of_find?_eq_some hf, h.symm⟩

theorem lookup_needs {n : Bytes} {fo : FuncInfo} {b : Body} (h : lookupFunc n = some fo) (hb : fo.body = some b) :
    b.needs ≤ fo.numArgs := by
  obtain ⟨e, he, rfl⟩ := lookupFunc_mem h
  exact funcTable_arity e he b hb

/-! ### row mode: `Execute` never panics -/

mutual
  theorem exec_total : ∀ (e : Expr) (kv : Pair), e.wf = true → Total (exec e kv)
    | .str .., kv, _ => by rw [exec]; exact .pure _
    | .field _ k, kv, _ => by cases k <;> rw [exec] <;> exact .pure _
    | .name .., kv, _ => by rw [exec]; exact .pure _
    | .num .., kv, _ => by rw [exec]; exact .pure _
    | .float .., kv, _ => by rw [exec]; exact .pure _
    | .bool .., kv, _ => by rw [exec]; exact .pure _
    | .list .., kv, _ => by rw [exec]; exact .pure _
    | .cycle, kv, h => by simp [Expr.wf] at h
    | .not _ r, kv, h => by
      rw [exec]
      have hr := exec_total r kv (by simpa [Expr.wf] using h)
      exact .bind hr (fun v => .bind (.liftB exb_asBool) (fun _ => .pure _))
    | .ref _ name target, kv, h => by
      rw [exec]
      have ht := exec_total target kv (by simpa [Expr.wf] using h)
      intro c e c' hrun
      dsimp only at hrun
      split at hrun
      · cases hrun
      · split at hrun
        · rename_i e0 c0 heq
          cases hrun
          exact ht _ _ _ heq
        · cases hrun
    | .access _ l f, kv, h => by
      rw [exec]
      simp only [Expr.wf, Bool.and_eq_true] at h
      have hl := exec_total l kv h.1
      refine .bind hl (fun left => ?_)
      split
      · exact .liftB exb_dictAccess
      · rename_i n
        exact .liftB (exb_listAccess (by simpa using h.2))
      · exact .throw benign_syntax
    | .call _ nm args, kv, h => by
      rw [exec]
      simp only [Expr.wf] at h
      split
      · rename_i e0 _
        refine .throw ?_
        cases nm <;> simp [funcNameOf] at * <;> subst_vars <;> exact benign_syntax
      · rename_i fname _
        split
        · exact .throw benign_unknownFunc
        · rename_i fo hfo
          split
          · exact .throw benign_arity
          · rename_i hA1
            split
            · exact .throw benign_arity
            · rename_i hA2
              split
              · -- a body the model does not know: excluded by the table
                rename_i hb
                obtain ⟨e, he, rfl⟩ := lookupFunc_mem hfo
                have : ∀ e ∈ funcTable, (FuncInfo.ofEntry e).body ≠ none := by decide
                exact absurd hb (this e he)
              · rename_i b hb
                have hneeds := lookup_needs hfo hb
                have hlen : b.needs ≤ args.length := by
                  cases hv : fo.varArgs <;> simp [hv] at hA1 hA2 <;> omega
                exact rowBody_total b args kv h hlen
    | .binop _ op l r, kv, h => by
      simp only [Expr.wf, Bool.and_eq_true] at h
      have hl := exec_total l kv h.1
      have hr := exec_total r kv h.2
      cases op <;> rw [exec] <;> (try dsimp only)
      -- and
      · exact .bind hl fun a => .bind (.liftB exb_asBool) fun x => .ite (.pure _) (.bind hr fun b => .bind (.liftB exb_asBool) fun _ => .pure _)
      -- or
      · exact .bind hl fun a => .bind (.liftB exb_asBool) fun x => .ite (.pure _) (.bind hr fun b => .bind (.liftB exb_asBool) fun _ => .pure _)
      -- not
      · exact .throw benign_unknownOp
      -- eq, neq
      · exact .bind hl fun a => .bind hr fun b => .bind (.liftB exb_equalRow) fun _ => .pure _
      · exact .bind hl fun a => .bind hr fun b => .bind (.liftB exb_equalRow) fun _ => .pure _
      -- prefixMatch
      · refine .bind hl fun a => .bind hr fun b => ?_
        split <;> first | exact .pure _ | exact .throw benign_operandType
      -- regexMatch
      · refine .bind hl fun a => .bind hr fun b => ?_
        split
        · split <;> first | exact .pure _ | exact .throw benign_data
        · exact .throw benign_operandType
      -- add
      · split
        · exact .bind hl fun a => .bind hr fun b => .pure _
        · exact .bind hl fun a => .bind hr fun b => .liftB exb_executeMathOp
      -- sub mul div
      · exact .bind hl fun a => .bind hr fun b => .liftB exb_executeMathOp
      · exact .bind hl fun a => .bind hr fun b => .liftB exb_executeMathOp
      · exact .bind hl fun a => .bind hr fun b => .liftB exb_executeMathOp
      -- gt gte lt lte
      · exact .bind hl fun a => .bind hr fun b => .bind (.liftB exb_compareBy) fun _ => .pure _
      · exact .bind hl fun a => .bind hr fun b => .bind (.liftB exb_compareBy) fun _ => .pure _
      · exact .bind hl fun a => .bind hr fun b => .bind (.liftB exb_compareBy) fun _ => .pure _
      · exact .bind hl fun a => .bind hr fun b => .bind (.liftB exb_compareBy) fun _ => .pure _
      -- in
      · refine .bind hl fun left => ?_
        split
        · rename_i p items
          exact execInItems_total _ left items kv (by simpa [Expr.wf] using h.2)
        · exact .ite (.throw benign_operandType) (.bind hr fun fret => by
            split <;> first | exact .pure _ | exact .throw benign_operandType)
        · exact .ite (.throw benign_operandType) (.bind hr fun fret => by
            split <;> first | exact .pure _ | exact .throw benign_operandType)
        · exact .throw benign_operandType
      -- between
      · refine .bind hl fun left => ?_
        split
        · rename_i p lo hi
          have hw : lo.wf = true ∧ hi.wf = true := by simpa [Expr.wf, Expr.wfList] using h.2
          exact .ite (.throw benign_operandType) (.ite (.throw benign_operandType)
            (.bind (exec_total lo kv hw.1) fun lv => .bind (exec_total hi kv hw.2) fun uv => .liftB exb_betweenKernel))
        · exact .throw benign_operandType
      -- kwAnd kwOr
      · exact .bind hl fun a => .bind (.liftB exb_asBool) fun x => .ite (.pure _) (.bind hr fun b => .bind (.liftB exb_asBool) fun _ => .pure _)
      · exact .bind hl fun a => .bind (.liftB exb_asBool) fun x => .ite (.pure _) (.bind hr fun b => .bind (.liftB exb_asBool) fun _ => .pure _)

  theorem execInItems_total : ∀ (number : Bool) (left : Value) (es : List Expr) (kv : Pair),
      Expr.wfList es = true → Total (execInItems number left es kv)
    | _, _, [], kv, _ => by rw [execInItems]; exact .pure _
    | number, left, e :: es, kv, h => by
      rw [execInItems]
      simp only [Expr.wfList, Bool.and_eq_true] at h
      exact .ite (.throw benign_operandType) (.bind (exec_total e kv h.1) fun lv =>
        .bind (.liftB exb_compareBy) fun c => .ite (.pure _) (execInItems_total number left es kv h.2))

  theorem execArgs_total : ∀ (es : List Expr) (kv : Pair), Expr.wfList es = true → Total (execArgs es kv)
    | [], kv, _ => by rw [execArgs]; exact .pure _
    | e :: es, kv, h => by
      rw [execArgs]
      simp only [Expr.wfList, Bool.and_eq_true] at h
      exact .bind (exec_total e kv h.1) fun v => .bind (execArgs_total es kv h.2) fun vs => .pure _

  theorem rowBody_total : ∀ (b : Body) (args : List Expr) (kv : Pair),
      Expr.wfList args = true → b.needs ≤ args.length → Total (rowBody b args kv)
    | .lower, a0 :: _, kv, h, _ => by
      rw [rowBody]; simp only [Expr.wfList, Bool.and_eq_true] at h
      exact .bind (exec_total a0 kv h.1) fun v => .pure _
    | .upper, a0 :: _, kv, h, _ => by
      rw [rowBody]; simp only [Expr.wfList, Bool.and_eq_true] at h
      exact .bind (exec_total a0 kv h.1) fun v => .pure _
    | .toInt, a0 :: _, kv, h, _ => by
      rw [rowBody]; simp only [Expr.wfList, Bool.and_eq_true] at h
      exact .bind (exec_total a0 kv h.1) fun v => .pure _
    | .toFloat, a0 :: _, kv, h, _ => by
      rw [rowBody]; simp only [Expr.wfList, Bool.and_eq_true] at h
      exact .bind (exec_total a0 kv h.1) fun v => .pure _
    | .toStr, a0 :: _, kv, h, _ => by
      rw [rowBody]; simp only [Expr.wfList, Bool.and_eq_true] at h
      exact .bind (exec_total a0 kv h.1) fun v => .pure _
    | .isInt, a0 :: _, kv, h, _ => by
      rw [rowBody]; simp only [Expr.wfList, Bool.and_eq_true] at h
      exact .bind (exec_total a0 kv h.1) fun v => .pure _
    | .isFloat, a0 :: _, kv, h, _ => by
      rw [rowBody]; simp only [Expr.wfList, Bool.and_eq_true] at h
      exact .bind (exec_total a0 kv h.1) fun v => .pure _
    | .strlen, a0 :: _, kv, h, _ => by
      rw [rowBody]; simp only [Expr.wfList, Bool.and_eq_true] at h
      exact .bind (exec_total a0 kv h.1) fun v => .pure _
    | .len, a0 :: _, kv, h, _ => by
      rw [rowBody]; simp only [Expr.wfList, Bool.and_eq_true] at h
      exact .bind (exec_total a0 kv h.1) fun v => .bind (.liftB exb_getListLength) fun _ => .pure _
    | .json, a0 :: _, kv, h, _ => by
      rw [rowBody]; simp only [Expr.wfList, Bool.and_eq_true] at h
      refine .bind (exec_total a0 kv h.1) fun v => ?_
      split <;> first | exact .pure _ | exact .throw benign_operandType
    | .subStr, a0 :: a1 :: a2 :: _, kv, h, _ => by
      rw [rowBody]; simp only [Expr.wfList, Bool.and_eq_true] at h
      exact .bind (exec_total a0 kv h.1) fun v => .ite (.throw benign_operandType) (.ite (.throw benign_operandType)
        (.bind (exec_total a1 kv h.2.1) fun s => .bind (exec_total a2 kv h.2.2.1) fun l => .liftB exb_substrKernel))
    | .split, a0 :: a1 :: _, kv, h, _ => by
      rw [rowBody]; simp only [Expr.wfList, Bool.and_eq_true] at h
      exact .bind (exec_total a0 kv h.1) fun v => .ite (.throw benign_operandType)
        (.bind (exec_total a1 kv h.2.1) fun _ => .pure _)
    | .join, a0 :: rest, kv, h, _ => by
      rw [rowBody]; simp only [Expr.wfList, Bool.and_eq_true] at h
      exact .ite (.throw benign_operandType)
        (.bind (exec_total a0 kv h.1) fun _ => .bind (execArgs_total rest kv h.2) fun _ => .pure _)
    | .cosine, a0 :: a1 :: _, kv, h, _ => by
      rw [rowBody]; simp only [Expr.wfList, Bool.and_eq_true] at h
      exact .bind (exec_total a0 kv h.1) fun l => .bind (exec_total a1 kv h.2.1) fun r =>
        .bind (.liftB exb_toFloatList) fun _ => .bind (.liftB exb_toFloatList) fun _ =>
          .bind (.liftB exb_cosineDistance) fun _ => .pure _
    | .l2, a0 :: a1 :: _, kv, h, _ => by
      rw [rowBody]; simp only [Expr.wfList, Bool.and_eq_true] at h
      exact .bind (exec_total a0 kv h.1) fun l => .bind (exec_total a1 kv h.2.1) fun r =>
        .bind (.liftB exb_toFloatList) fun _ => .bind (.liftB exb_toFloatList) fun _ =>
          .bind (.liftB exb_l2Distance) fun _ => .pure _
    | .floatList, [], kv, _, _ => by rw [rowBody]; exact .pure _
    | .floatList, a0 :: rest, kv, h, _ => by
      rw [rowBody]; simp only [Expr.wfList, Bool.and_eq_true] at h
      exact .bind (exec_total a0 kv h.1) fun _ => .bind (execArgs_total rest kv h.2) fun _ => .pure _
    | .intList, [], kv, _, _ => by rw [rowBody]; exact .pure _
    | .intList, a0 :: rest, kv, h, _ => by
      rw [rowBody]; simp only [Expr.wfList, Bool.and_eq_true] at h
      exact .bind (exec_total a0 kv h.1) fun _ => .bind (execArgs_total rest kv h.2) fun _ => .pure _
    | .toList, [], kv, _, _ => by rw [rowBody]; exact .pure _
    | .toList, a0 :: rest, kv, h, _ => by
      rw [rowBody]; simp only [Expr.wfList, Bool.and_eq_true] at h
      exact .bind (exec_total a0 kv h.1) fun _ => .bind (exec_total a0 kv h.1) fun _ =>
        .bind (execArgs_total rest kv h.2) fun _ => .ite (.pure _) (.pure _)
    -- fewer arguments than the body indexes: excluded by `needs ≤ length`
    | .lower, [], _, _, hn | .upper, [], _, _, hn | .toInt, [], _, _, hn | .toFloat, [], _, _, hn
    | .toStr, [], _, _, hn | .isInt, [], _, _, hn | .isFloat, [], _, _, hn | .strlen, [], _, _, hn
    | .len, [], _, _, hn | .json, [], _, _, hn | .join, [], _, _, hn
    | .subStr, [], _, _, hn | .subStr, [_], _, _, hn | .subStr, [_, _], _, _, hn
    | .split, [], _, _, hn | .split, [_], _, _, hn
    | .cosine, [], _, _, hn | .cosine, [_], _, _, hn
    | .l2, [], _, _, hn | .l2, [_], _, _, hn => by simp [Body.needs] at hn
end
