/-
  The expressions of an accepted DELETE / PUT / REMOVE contain no alias reference: the expression parser
  produces none (`parseExpr_aliasFree`), and with an EMPTY select list the checker's `tryRewriteExpr`
  resolves no name (there is nothing to resolve it against).  This discharges the `aliasFree` hypotheses
  of the whole-statement theorems for the write statements from `planStage` having accepted the text.
-/
import Kvql.Proofs.TypingFaultStmt
import Kvql.Proofs.TypingParserShape
import Kvql.Proofs.RunWritePut

namespace Kvql.Proofs.RunWrite
open Kvql Kvql.Parser Kvql.Proofs.Typing
open Kvql.PlanCheck (planStage)

theorem tblFind_nil (d : Bytes) : Tbl.find [] d = none := by
  simp [Tbl.find, Tbl.find.go]

theorem rewrite_nil {ctx : CheckCtx} (h0 : ctx.tbl = []) (e : Expr) : ctx.rewrite e = .ok e := by
  cases e <;> simp [CheckCtx.rewrite, h0, tblFind_nil]

mutual
  /-- with an empty select list `Check` introduces no alias reference -/
  theorem check_af {ctx : CheckCtx} (h0 : ctx.tbl = []) : ∀ (e e' : Expr), aliasFree e = true →
      ctx.check e = .ok e' → aliasFree e' = true
    | .binop pos op l r, e', ha, h => by
      simp only [aliasFree, Bool.and_eq_true] at ha
      simp only [CheckCtx.check] at h
      obtain ⟨l1, hl1, h⟩ := bind_ok_iff.mp h
      obtain ⟨r1, hr1, h⟩ := bind_ok_iff.mp h
      obtain ⟨l2, hl2, h⟩ := bind_ok_iff.mp h
      obtain ⟨r2, hr2, h⟩ := bind_ok_iff.mp h
      obtain ⟨u, _, h⟩ := bind_ok_iff.mp h
      rw [rewrite_nil h0] at hl2 hr2
      cases hl2; cases hr2; cases h
      simp [aliasFree, check_af h0 l l1 ha.1 hl1, check_af h0 r r1 ha.2 hr1]
    | .field pos kw, e', _, h => by
      simp only [CheckCtx.check] at h
      split at h
      · cases h
      · split at h
        · cases h
        · cases h; rfl
    | .not pos r, e', ha, h => by
      simp only [aliasFree] at ha
      simp only [CheckCtx.check] at h
      obtain ⟨r', hr', h⟩ := bind_ok_iff.mp h
      obtain ⟨t, _, h⟩ := bind_ok_iff.mp h
      split at h
      · cases h
      · cases h
        simp [aliasFree, check_af h0 r r' ha hr']
    | .call pos nm args, e', ha, h => by
      simp only [aliasFree, Bool.and_eq_true] at ha
      cases nm with
      | name q d =>
        simp only [CheckCtx.check] at h
        obtain ⟨args', hargs, h⟩ := bind_ok_iff.mp h
        cases h
        simp [aliasFree, checkArgs_af h0 args args' ha.2 hargs]
      | _ => simp [CheckCtx.check, synErr] at h
    | .list pos items, e', ha, h => by
      simp only [aliasFree] at ha
      cases items with
      | nil => simp [CheckCtx.check, synErr] at h
      | cons i is =>
        simp only [CheckCtx.check] at h
        obtain ⟨items', hitems, h⟩ := bind_ok_iff.mp h
        obtain ⟨u, _, h⟩ := bind_ok_iff.mp h
        cases h
        simp [aliasFree, checkItems_af h0 (i :: is) items' ha hitems]
    | .access pos l f, e', ha, h => by
      simp only [aliasFree, Bool.and_eq_true] at ha
      simp only [CheckCtx.check] at h
      obtain ⟨l', hl', h⟩ := bind_ok_iff.mp h
      obtain ⟨f', hf', h⟩ := bind_ok_iff.mp h
      obtain ⟨u, _, h⟩ := bind_ok_iff.mp h
      cases h
      simp [aliasFree, check_af h0 l l' ha.1 hl', check_af h0 f f' ha.2 hf']
    | .str .., e', ha, h | .name .., e', ha, h | .num .., e', ha, h | .float .., e', ha, h | .bool .., e', ha, h
    | .cycle, e', ha, h | .ref .., e', ha, h => by
      simp only [CheckCtx.check] at h
      cases h
      exact ha
  theorem checkArgs_af {ctx : CheckCtx} (h0 : ctx.tbl = []) : ∀ (args args' : List Expr),
      aliasFree.aliasFreeList args = true → ctx.checkArgs args = .ok args' → aliasFree.aliasFreeList args' = true
    | [], args', _, h => by
      simp only [CheckCtx.checkArgs] at h
      cases h; rfl
    | a :: as, args', ha, h => by
      simp only [aliasFree.aliasFreeList, Bool.and_eq_true] at ha
      cases a with
      | name q d =>
        simp only [CheckCtx.checkArgs] at h
        obtain ⟨a', ha', h⟩ := bind_ok_iff.mp h
        obtain ⟨as', has', h⟩ := bind_ok_iff.mp h
        cases h
        rw [rewrite_nil h0] at ha'
        cases ha'
        simp [aliasFree.aliasFreeList, aliasFree, checkArgs_af h0 as as' ha.2 has']
      | binop pos op l r =>
        simp only [CheckCtx.checkArgs] at h
        obtain ⟨a', ha', h⟩ := bind_ok_iff.mp h
        obtain ⟨as', has', h⟩ := bind_ok_iff.mp h
        cases h
        simp [aliasFree.aliasFreeList, check_af h0 _ a' ha.1 ha', checkArgs_af h0 as as' ha.2 has']
      | field pos kw =>
        simp only [CheckCtx.checkArgs] at h
        obtain ⟨a', ha', h⟩ := bind_ok_iff.mp h
        obtain ⟨as', has', h⟩ := bind_ok_iff.mp h
        cases h
        simp [aliasFree.aliasFreeList, check_af h0 _ a' ha.1 ha', checkArgs_af h0 as as' ha.2 has']
      | not pos r =>
        simp only [CheckCtx.checkArgs] at h
        obtain ⟨a', ha', h⟩ := bind_ok_iff.mp h
        obtain ⟨as', has', h⟩ := bind_ok_iff.mp h
        cases h
        simp [aliasFree.aliasFreeList, check_af h0 _ a' ha.1 ha', checkArgs_af h0 as as' ha.2 has']
      | call pos nm args =>
        simp only [CheckCtx.checkArgs] at h
        obtain ⟨a', ha', h⟩ := bind_ok_iff.mp h
        obtain ⟨as', has', h⟩ := bind_ok_iff.mp h
        cases h
        simp [aliasFree.aliasFreeList, check_af h0 _ a' ha.1 ha', checkArgs_af h0 as as' ha.2 has']
      | list pos items =>
        simp only [CheckCtx.checkArgs] at h
        obtain ⟨a', ha', h⟩ := bind_ok_iff.mp h
        obtain ⟨as', has', h⟩ := bind_ok_iff.mp h
        cases h
        simp [aliasFree.aliasFreeList, check_af h0 _ a' ha.1 ha', checkArgs_af h0 as as' ha.2 has']
      | access pos l f =>
        simp only [CheckCtx.checkArgs] at h
        obtain ⟨a', ha', h⟩ := bind_ok_iff.mp h
        obtain ⟨as', has', h⟩ := bind_ok_iff.mp h
        cases h
        simp [aliasFree.aliasFreeList, check_af h0 _ a' ha.1 ha', checkArgs_af h0 as as' ha.2 has']
      | str pos d =>
        simp only [CheckCtx.checkArgs] at h
        obtain ⟨a', ha', h⟩ := bind_ok_iff.mp h
        obtain ⟨as', has', h⟩ := bind_ok_iff.mp h
        cases h
        simp [aliasFree.aliasFreeList, check_af h0 _ a' ha.1 ha', checkArgs_af h0 as as' ha.2 has']
      | num pos d v =>
        simp only [CheckCtx.checkArgs] at h
        obtain ⟨a', ha', h⟩ := bind_ok_iff.mp h
        obtain ⟨as', has', h⟩ := bind_ok_iff.mp h
        cases h
        simp [aliasFree.aliasFreeList, check_af h0 _ a' ha.1 ha', checkArgs_af h0 as as' ha.2 has']
      | float pos d v =>
        simp only [CheckCtx.checkArgs] at h
        obtain ⟨a', ha', h⟩ := bind_ok_iff.mp h
        obtain ⟨as', has', h⟩ := bind_ok_iff.mp h
        cases h
        simp [aliasFree.aliasFreeList, check_af h0 _ a' ha.1 ha', checkArgs_af h0 as as' ha.2 has']
      | bool pos d v =>
        simp only [CheckCtx.checkArgs] at h
        obtain ⟨a', ha', h⟩ := bind_ok_iff.mp h
        obtain ⟨as', has', h⟩ := bind_ok_iff.mp h
        cases h
        simp [aliasFree.aliasFreeList, check_af h0 _ a' ha.1 ha', checkArgs_af h0 as as' ha.2 has']
      | cycle =>
        simp only [CheckCtx.checkArgs] at h
        obtain ⟨a', ha', h⟩ := bind_ok_iff.mp h
        obtain ⟨as', has', h⟩ := bind_ok_iff.mp h
        cases h
        simp [aliasFree.aliasFreeList, check_af h0 _ a' ha.1 ha', checkArgs_af h0 as as' ha.2 has']
      | ref pos n t =>
        simp [aliasFree] at ha
  theorem checkItems_af {ctx : CheckCtx} (h0 : ctx.tbl = []) : ∀ (items items' : List Expr),
      aliasFree.aliasFreeList items = true → ctx.checkItems items = .ok items' → aliasFree.aliasFreeList items' = true
    | [], items', _, h => by
      simp only [CheckCtx.checkItems] at h
      cases h; rfl
    | a :: as, items', ha, h => by
      simp only [aliasFree.aliasFreeList, Bool.and_eq_true] at ha
      simp only [CheckCtx.checkItems] at h
      obtain ⟨a', ha', h⟩ := bind_ok_iff.mp h
      obtain ⟨as', has', h⟩ := bind_ok_iff.mp h
      cases h
      simp [aliasFree.aliasFreeList, check_af h0 a a' ha.1 ha', checkItems_af h0 as as' ha.2 has']
end

/-! ### the parsing loops of PUT / REMOVE -/

variable {pf : Bytes → F64}

def PairsAF (ps : List (Expr × Expr)) : Prop := ∀ p ∈ ps, aliasFree p.1 = true ∧ aliasFree p.2 = true
def KeysAF (ks : List Expr) : Prop := ∀ k ∈ ks, aliasFree k = true

theorem parsePutKVPair_af {efuel : Nat} {ts rest : Toks} {kv : Expr × Expr}
    (h : parsePutKVPair pf efuel ts = .ok (kv, rest)) : aliasFree kv.1 = true ∧ aliasFree kv.2 = true := by
  unfold parsePutKVPair at h
  obtain ⟨ts0, _, h⟩ := bind_ok_iff.mp h
  obtain ⟨⟨key, ts1⟩, hk, h⟩ := bind_ok_iff.mp h
  dsimp only at h
  split at h
  · simp [eofErr] at h
  · split at h
    · obtain ⟨⟨value, ts2⟩, hv, h⟩ := bind_ok_iff.mp h
      dsimp only at h
      obtain ⟨ts3, _, h⟩ := bind_ok_iff.mp h
      cases h
      exact ⟨parseExpr_aliasFree pf hk, parseExpr_aliasFree pf hv⟩
    · simp [synErr] at h

theorem pairsAF_snoc {acc : List (Expr × Expr)} {kv : Expr × Expr} (ha : PairsAF acc)
    (hk : aliasFree kv.1 = true ∧ aliasFree kv.2 = true) : PairsAF (acc ++ [kv]) := by
  intro p hp
  rcases List.mem_append.mp hp with h | h
  · exact ha p h
  · simp only [List.mem_singleton] at h; subst h; exact hk

theorem putLoop_af (efuel : Nat) : ∀ (fuel : Nat) (acc : List (Expr × Expr)) (ts : Toks) (pairs : List (Expr × Expr)),
    PairsAF acc → putLoop pf efuel fuel acc ts = .ok pairs → PairsAF pairs
  | 0, _, _, _, _, h => by simp [putLoop] at h
  | fuel + 1, acc, ts, pairs, ha, h => by
    unfold putLoop at h
    split at h
    · cases h; exact ha
    · obtain ⟨⟨kv, ts1⟩, hkv, h⟩ := bind_ok_iff.mp h
      dsimp only at h
      have hk := parsePutKVPair_af hkv
      split at h
      · cases h; exact pairsAF_snoc ha hk
      · obtain ⟨ts2, _, h⟩ := bind_ok_iff.mp h
        exact putLoop_af efuel fuel _ ts2 pairs (pairsAF_snoc ha hk) h

theorem validatePut_af {ctx : CheckCtx} (h0 : ctx.tbl = []) : ∀ (ps ps' : List (Expr × Expr)), PairsAF ps →
    validatePut ctx ps = .ok ps' → putAliasFree ps' = true
  | [], ps', _, h => by
    simp only [validatePut] at h
    cases h; rfl
  | (k, v) :: rest, ps', ha, h => by
    unfold validatePut at h
    obtain ⟨k', hk', h⟩ := bind_ok_iff.mp h
    obtain ⟨tk, _, h⟩ := bind_ok_iff.mp h
    split at h
    · simp [synErr] at h
    · obtain ⟨v', hv', h⟩ := bind_ok_iff.mp h
      obtain ⟨tv, _, h⟩ := bind_ok_iff.mp h
      split at h
      · simp [synErr] at h
      · obtain ⟨rest', hrest, h⟩ := bind_ok_iff.mp h
        cases h
        have hkv := ha (k, v) List.mem_cons_self
        have ih := validatePut_af h0 rest rest' (fun p hp => ha p (List.mem_cons_of_mem _ hp)) hrest
        simp only [putAliasFree, List.all_cons, Bool.and_eq_true] at ih ⊢
        exact ⟨⟨check_af h0 k k' hkv.1 hk', check_af h0 v v' hkv.2 hv'⟩, ih⟩

theorem removeLoop_af (efuel : Nat) : ∀ (fuel : Nat) (acc : List Expr) (ts : Toks) (keys : List Expr),
    KeysAF acc → removeLoop pf efuel fuel acc ts = .ok keys → KeysAF keys
  | 0, _, _, _, _, h => by simp [removeLoop] at h
  | fuel + 1, acc, ts, keys, ha, h => by
    unfold removeLoop at h
    split at h
    · cases h; exact ha
    · obtain ⟨⟨k, ts1⟩, hk, h⟩ := bind_ok_iff.mp h
      dsimp only at h
      have hka := parseExpr_aliasFree pf hk
      have hsnoc : KeysAF (acc ++ [k]) := by
        intro x hx
        rcases List.mem_append.mp hx with h' | h'
        · exact ha x h'
        · simp only [List.mem_singleton] at h'; subst h'; exact hka
      split at h
      · cases h; exact hsnoc
      · obtain ⟨ts2, _, h⟩ := bind_ok_iff.mp h
        exact removeLoop_af efuel fuel _ ts2 keys hsnoc h

theorem validateRemove_af {ctx : CheckCtx} (h0 : ctx.tbl = []) : ∀ (ks ks' : List Expr), KeysAF ks →
    validateRemove ctx ks = .ok ks' → removeAliasFree ks' = true
  | [], ks', _, h => by
    simp only [validateRemove] at h
    cases h; rfl
  | k :: rest, ks', ha, h => by
    unfold validateRemove at h
    obtain ⟨t, _, h⟩ := bind_ok_iff.mp h
    split at h
    · simp [synErr] at h
    · obtain ⟨k', hk', h⟩ := bind_ok_iff.mp h
      obtain ⟨rest', hrest, h⟩ := bind_ok_iff.mp h
      cases h
      have ih := validateRemove_af h0 rest rest' (fun x hx => ha x (List.mem_cons_of_mem _ hx)) hrest
      simp only [removeAliasFree, List.all_cons, Bool.and_eq_true] at ih ⊢
      exact ⟨check_af h0 k k' (ha k List.mem_cons_self) hk', ih⟩

/-! ### the accepted statement -/

/-- the WHERE of an accepted DELETE has no alias reference -/
theorem accepted_delete_aliasFree {toks : Toks} {pos wpos : Nat} {w : Expr} {lim : Option LimitS}
    (h : planStage pf toks = .ok (.delete pos wpos w lim)) : aliasFree w = true := by
  obtain ⟨hp, _, _⟩ := planStage_ok_iff.mp h
  rcases parse_inv hp with ⟨_, _, _, h1⟩ | ⟨_, _, _, h1⟩ | ⟨_, _, _, h1⟩ | ⟨_, _, _, _, _, _, h1⟩
  · obtain ⟨_, _, _, _, _, _, he⟩ := parsePut_inv h1; cases he
  · obtain ⟨_, _, _, _, _, _, he⟩ := parseRemove_inv h1; cases he
  · obtain ⟨_, _, wexpr, _, w', _, _, _, _, _, hpe, hck, _, he⟩ := parseDelete_inv' h1
    cases he
    exact check_af (ctx := {}) rfl wexpr w (parseExpr_aliasFree pf hpe) hck
  · obtain ⟨_, _, _, _, _, _, _, _, _, _, _, _, _, _, _, _, he, _⟩ := parseWhere_inv h1
    cases he

/-- the key and value expressions of an accepted PUT have no alias reference -/
theorem accepted_put_aliasFree {toks : Toks} {pos : Nat} {pairs : List (Expr × Expr)}
    (h : planStage pf toks = .ok (.put pos pairs)) : putAliasFree pairs = true := by
  obtain ⟨hp, _, _⟩ := planStage_ok_iff.mp h
  rcases parse_inv hp with ⟨ef, lf, _, h1⟩ | ⟨_, _, _, h1⟩ | ⟨_, _, _, h1⟩ | ⟨_, _, _, _, _, _, h1⟩
  · obtain ⟨_, ps, ps', ts1, hloop, hval, he⟩ := parsePut_inv h1
    cases he
    exact validatePut_af (ctx := { notAllowValue := true }) rfl ps _
      (putLoop_af ef lf [] ts1 ps (fun _ hp => by cases hp) hloop) hval
  · obtain ⟨_, _, _, _, _, _, he⟩ := parseRemove_inv h1; cases he
  · obtain ⟨_, _, _, _, _, _, _, _, _, _, he⟩ := parseDelete_inv h1; cases he
  · obtain ⟨_, _, _, _, _, _, _, _, _, _, _, _, _, _, _, _, he, _⟩ := parseWhere_inv h1
    cases he

/-- the key expressions of an accepted REMOVE have no alias reference -/
theorem accepted_remove_aliasFree {toks : Toks} {pos : Nat} {keys : List Expr}
    (h : planStage pf toks = .ok (.remove pos keys)) : removeAliasFree keys = true := by
  obtain ⟨hp, _, _⟩ := planStage_ok_iff.mp h
  rcases parse_inv hp with ⟨_, _, _, h1⟩ | ⟨ef, lf, _, h1⟩ | ⟨_, _, _, h1⟩ | ⟨_, _, _, _, _, _, h1⟩
  · obtain ⟨_, _, _, _, _, _, he⟩ := parsePut_inv h1; cases he
  · obtain ⟨_, ks, ks', ts1, hloop, hval, he⟩ := parseRemove_inv h1
    cases he
    exact validateRemove_af (ctx := { notAllowKey := true, notAllowValue := true }) rfl ks _
      (removeLoop_af ef lf [] ts1 ks (fun _ hp => by cases hp) hloop) hval
  · obtain ⟨_, _, _, _, _, _, _, _, _, _, he⟩ := parseDelete_inv h1; cases he
  · obtain ⟨_, _, _, _, _, _, _, _, _, _, _, _, _, _, _, _, he, _⟩ := parseWhere_inv h1
    cases he

end Kvql.Proofs.RunWrite
