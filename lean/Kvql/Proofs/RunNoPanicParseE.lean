/-
  RunNoPanic, part 3e: the only `unsupported` outcome `Parse` can name is the call of a computed callee
  (`primaryLoop`): `parse_unsupported_site`.
-/
import Kvql.Proofs.RunNoPanicParseD

namespace Kvql.Proofs.RunNoPanic

open Kvql Kvql.Parser Kvql.Proofs.Typing Kvql.Generated

/-- the one place where the front-end model leaves its domain -/
def calleeSite : String := "call of a computed callee"

/-- if the outcome is `unsupported`, it names `calleeSite` -/
structure US {α : Type} (r : Res α) : Prop where
  site : ∀ w, r = .unsupported w → w = calleeSite

theorem US.bind {α β : Type} {r : Res α} {f : α → Res β} (h : US r) (hf : ∀ a, US (f a)) : US (r >>= f) := by
  cases r with
  | ok a => exact hf a
  | unsupported w => exact ⟨fun w' hw => h.site w' (by rw [Res.bind_unsup] at hw; cases hw; rfl)⟩
  | _ => exact ⟨fun w hw => by cases hw⟩

/-- close a leaf: an outcome that is a constructor -/
macro "us_leaf" : tactic =>
  `(tactic| (refine US.mk ?_; simp [synErr, eofErr, calleeSite]; done))

/-- one step of a routine proof: peel a bind, a branch, or close a leaf -/
macro "us_step" : tactic =>
  `(tactic| first
    | (apply US.bind)
    | (intro _)
    | split
    | (dsimp only; done)
    | us_leaf
    | dsimp only)

/-! ### the checker never leaves the domain -/

theorem rt_us (ctx : CheckCtx) (e : Expr) : US (ctx.rt e) := by
  unfold CheckCtx.rt; repeat' us_step

theorem rewrite_us (ctx : CheckCtx) (e : Expr) : US (ctx.rewrite e) := by
  unfold CheckCtx.rewrite; repeat' us_step

macro "chk_step" : tactic =>
  `(tactic| first
    | exact rt_us _ _
    | exact rewrite_us _ _
    | us_step)

theorem checkAndOrSide_us (ctx : CheckCtx) (e : Expr) : US (ctx.checkAndOrSide e) := by
  unfold CheckCtx.checkAndOrSide; repeat' chk_step

theorem checkWithAndOr_us (ctx : CheckCtx) (l r : Expr) : US (ctx.checkWithAndOr l r) := by
  unfold CheckCtx.checkWithAndOr
  exact US.bind (checkAndOrSide_us _ _) (fun _ => checkAndOrSide_us _ _)

theorem mathSide_us (ctx : CheckCtx) (e : Expr) : US (ctx.mathSide e) := by
  unfold CheckCtx.mathSide; repeat' chk_step

theorem checkWithMath_us (ctx : CheckCtx) (op : Op) (l r : Expr) : US (ctx.checkWithMath op l r) := by
  unfold CheckCtx.checkWithMath
  apply US.bind (mathSide_us _ _); intro _
  apply US.bind (mathSide_us _ _); intro _
  repeat' chk_step

theorem compareSide_us (e : Expr) : US (compareSide e) := by
  unfold compareSide; repeat' chk_step

theorem checkWithCompares_us (ctx : CheckCtx) (pos : Nat) (op : Op) (l r : Expr) :
    US (ctx.checkWithCompares pos op l r) := by
  unfold CheckCtx.checkWithCompares
  apply US.bind (compareSide_us _); intro _
  apply US.bind (compareSide_us _); intro _
  repeat' chk_step

theorem inItems_us (ctx : CheckCtx) (t : Nat) (xs : List Expr) : US (ctx.inItems t xs) := by
  induction xs with
  | nil => unfold CheckCtx.inItems; us_leaf
  | cons x xs ih =>
    unfold CheckCtx.inItems
    apply US.bind (rt_us _ _); intro _
    split
    · us_leaf
    · exact ih

theorem checkWithIn_us (ctx : CheckCtx) (l r : Expr) : US (ctx.checkWithIn l r) := by
  unfold CheckCtx.checkWithIn
  apply US.bind (rt_us _ _); intro _
  split
  · us_leaf
  · split
    · exact inItems_us _ _ _
    all_goals repeat' chk_step

theorem checkWithBetween_us (ctx : CheckCtx) (l r : Expr) : US (ctx.checkWithBetween l r) := by
  unfold CheckCtx.checkWithBetween
  repeat' chk_step

theorem checkOp_us (ctx : CheckCtx) (pos : Nat) (op : Op) (l r : Expr) : US (ctx.checkOp pos op l r) := by
  unfold CheckCtx.checkOp
  split
  all_goals first
    | exact checkWithAndOr_us _ _ _
    | exact checkWithMath_us _ _ _ _
    | exact checkWithIn_us _ _ _
    | exact checkWithBetween_us _ _ _
    | exact checkWithCompares_us _ _ _ _ _
    | us_leaf

theorem listTypes_go_us (ctx : CheckCtx) (t : Nat) (xs : List Expr) : US (CheckCtx.listTypes.go ctx t xs) := by
  induction xs with
  | nil => unfold CheckCtx.listTypes.go; us_leaf
  | cons x xs ih =>
    unfold CheckCtx.listTypes.go
    apply US.bind (rt_us _ _); intro _
    split
    · us_leaf
    · exact ih

theorem listTypes_us (ctx : CheckCtx) (pos : Nat) (xs : List Expr) : US (ctx.listTypes pos xs) := by
  unfold CheckCtx.listTypes
  split
  · us_leaf
  · split
    · us_leaf
    · apply US.bind (rt_us _ _); intro _
      exact listTypes_go_us _ _ _

theorem accessTypes_us (ctx : CheckCtx) (l f : Expr) : US (ctx.accessTypes l f) := by
  unfold CheckCtx.accessTypes
  repeat' chk_step

mutual
  theorem check_us (ctx : CheckCtx) : ∀ e : Expr, US (ctx.check e)
    | .binop pos op l r => by
      unfold CheckCtx.check
      apply US.bind (check_us ctx l); intro _
      apply US.bind (check_us ctx r); intro _
      apply US.bind (rewrite_us _ _); intro _
      apply US.bind (rewrite_us _ _); intro _
      apply US.bind (checkOp_us _ _ _ _ _); intro _
      us_leaf
    | .field pos kw => by unfold CheckCtx.check; repeat' chk_step
    | .not pos r => by
      unfold CheckCtx.check
      apply US.bind (check_us ctx r); intro _
      repeat' chk_step
    | .call pos nm args => by
      unfold CheckCtx.check
      split
      · apply US.bind (checkArgs_us ctx args); intro _
        us_leaf
      · us_leaf
    | .list pos items => by
      unfold CheckCtx.check
      split
      · us_leaf
      · apply US.bind (checkItems_us ctx _); intro _
        apply US.bind (listTypes_us _ _ _); intro _
        us_leaf
    | .access pos l f => by
      unfold CheckCtx.check
      apply US.bind (check_us ctx l); intro _
      apply US.bind (check_us ctx f); intro _
      apply US.bind (accessTypes_us _ _ _); intro _
      us_leaf
    | .str .. | .name .. | .ref .. | .cycle | .num .. | .float .. | .bool .. => by
      unfold CheckCtx.check; us_leaf
  theorem checkArgs_us (ctx : CheckCtx) : ∀ es : List Expr, US (ctx.checkArgs es)
    | [] => by unfold CheckCtx.checkArgs; us_leaf
    | a :: as => by
      unfold CheckCtx.checkArgs
      apply US.bind
      · split
        · exact rewrite_us _ _
        · exact check_us ctx _
      · intro _
        apply US.bind (checkArgs_us ctx as); intro _
        us_leaf
  theorem checkItems_us (ctx : CheckCtx) : ∀ es : List Expr, US (ctx.checkItems es)
    | [] => by unfold CheckCtx.checkItems; us_leaf
    | a :: as => by
      unfold CheckCtx.checkItems
      apply US.bind (check_us ctx a); intro _
      apply US.bind (checkItems_us ctx as); intro _
      us_leaf
end

/-! ### the expression parser -/

variable (pf : Bytes → F64)

structure UsIH (fuel : Nat) : Prop where
  binary : ∀ lev prec ts, US (parseBinaryExpr pf fuel lev prec ts)
  bloop : ∀ lev prec x ts, US (binaryLoop pf fuel lev prec x ts)
  unary : ∀ lev ts, US (parseUnaryExpr pf fuel lev ts)
  primary : ∀ lev ts, US (parsePrimaryExpr pf fuel lev ts)
  ploop : ∀ lev x ts, US (primaryLoop pf fuel lev x ts)
  operand : ∀ lev ts, US (parseOperand pf fuel lev ts)
  items : ∀ lev close strict acc ts, US (parseItems pf fuel lev close strict acc ts)
  call : ∀ lev fn ts, US (parseFuncCall pf fuel lev fn ts)
  access : ∀ lev pos l ts, US (parseFieldAccess pf fuel lev pos l ts)
  list : ∀ lev pos ts, US (parseList pf fuel lev pos ts)
  between : ∀ lev pos oprec ts, US (parseBetween pf fuel lev pos oprec ts)

theorem us_zero : UsIH pf 0 := by
  constructor <;> intros <;> refine US.mk ?_ <;>
    simp [parseBinaryExpr, binaryLoop, parseUnaryExpr, parsePrimaryExpr, primaryLoop, parseOperand,
      parseItems, parseFuncCall, parseFieldAccess, parseList, parseBetween]

theorem expect_us (tp : Nat) (ts : Toks) : US (expect tp ts) := by
  unfold expect; repeat' us_step

theorem buildOp_us (p : Nat) (s : String) : US (buildOp p s) := by
  unfold buildOp; repeat' us_step

theorem us_step' {fuel : Nat} (ih : UsIH pf fuel) : UsIH pf (fuel + 1) := by
  constructor
  all_goals
    intros
    first
      | unfold parseBinaryExpr | unfold binaryLoop | unfold parseUnaryExpr | unfold parsePrimaryExpr
      | unfold primaryLoop | unfold parseOperand | unfold parseItems | unfold parseFuncCall
      | unfold parseFieldAccess | unfold parseList | unfold parseBetween
  all_goals
    repeat' first
      | exact ih.binary _ _ _
      | exact ih.bloop _ _ _ _
      | exact ih.unary _ _
      | exact ih.primary _ _
      | exact ih.ploop _ _ _
      | exact ih.operand _ _
      | exact ih.items _ _ _ _ _
      | exact ih.call _ _ _
      | exact ih.access _ _ _ _
      | exact ih.list _ _ _
      | exact ih.between _ _ _ _
      | exact expect_us _ _
      | exact buildOp_us _ _
      | us_step

theorem us_all : ∀ fuel, UsIH pf fuel
  | 0 => us_zero pf
  | n + 1 => us_step' pf (us_all n)

theorem parseExpr_us (efuel : Nat) (ts : Toks) : US (parseExpr pf efuel ts) :=
  (us_all pf efuel).binary 0 1 ts

/-! ### the statement level -/

macro "stm_step" : tactic =>
  `(tactic| first
    | exact parseExpr_us _ _ _
    | exact expect_us _ _
    | exact rt_us _ _
    | exact rewrite_us _ _
    | exact check_us _ _
    | us_step)

theorem findField_us (tbl : Tbl) (nm : Bytes) (pos : Nat) : US (findFieldInSelect tbl nm pos) := by
  unfold findFieldInSelect; repeat' stm_step

theorem limitLoop_us : ∀ (fuel : Nat) (acc : List Int64) (ts : Toks), US (limitLoop fuel acc ts) := by
  intro fuel
  induction fuel with
  | zero => intros; unfold limitLoop; us_leaf
  | succ n ih => intros; unfold limitLoop; repeat' first | exact ih _ _ | stm_step

theorem parseLimit_us (lfuel : Nat) (ts : Toks) : US (parseLimit lfuel ts) := by
  unfold parseLimit; repeat' first | exact limitLoop_us _ _ _ | stm_step

theorem selectLoop_us (ef : Nat) : ∀ (fuel : Nat) (acc : SelAcc) (ts : Toks), US (selectLoop pf ef fuel acc ts) := by
  intro fuel
  induction fuel with
  | zero => intros; unfold selectLoop; us_leaf
  | succ n ih => intros; unfold selectLoop; repeat' first | exact ih _ _ | stm_step

theorem parseSelect_us (ef lf : Nat) (ts : Toks) : US (parseSelect pf ef lf ts) := by
  unfold parseSelect; repeat' first | exact selectLoop_us pf _ _ _ _ | stm_step

theorem orderLoop_us (ef : Nat) (tbl : Tbl) : ∀ (fuel : Nat) (acc : List (Bytes × Nat)) (ts : Toks),
    US (orderLoop pf ef tbl fuel acc ts) := by
  intro fuel
  induction fuel with
  | zero => intros; unfold orderLoop; us_leaf
  | succ n ih => intros; unfold orderLoop; repeat' first | exact ih _ _ | exact findField_us _ _ _ | stm_step

theorem parseOrderBy_us (ef lf : Nat) (tbl : Tbl) (ts : Toks) : US (parseOrderBy pf ef lf tbl ts) := by
  unfold parseOrderBy; repeat' first | exact orderLoop_us pf _ _ _ _ _ | stm_step

theorem groupLoop_us (ef : Nat) (tbl : Tbl) : ∀ (fuel : Nat) (acc : List (Bytes × GTarget)) (ts : Toks),
    US (groupLoop pf ef tbl fuel acc ts) := by
  intro fuel
  induction fuel with
  | zero => intros; unfold groupLoop; us_leaf
  | succ n ih => intros; unfold groupLoop; repeat' first | exact ih _ _ | exact findField_us _ _ _ | stm_step

theorem groupCheck_us : ∀ (gs : List (Bytes × GTarget)) (tbl : Tbl), US (groupCheck tbl gs) := by
  intro gs
  induction gs with
  | nil => intro tbl; unfold groupCheck; us_leaf
  | cons g rest ih =>
    intro tbl
    obtain ⟨n, tgt⟩ := g
    cases tgt <;> unfold groupCheck <;> repeat' first | exact ih _ | stm_step

theorem parseGroupBy_us (ef lf : Nat) (tbl : Tbl) (ts : Toks) : US (parseGroupBy pf ef lf tbl ts) := by
  unfold parseGroupBy
  repeat' first | exact groupLoop_us pf _ _ _ _ _ | exact groupCheck_us _ _ | stm_step

theorem parsePutKVPair_us (ef : Nat) (ts : Toks) : US (parsePutKVPair pf ef ts) := by
  unfold parsePutKVPair; repeat' stm_step

theorem putLoop_us (ef : Nat) : ∀ (fuel : Nat) (acc : List (Expr × Expr)) (ts : Toks),
    US (putLoop pf ef fuel acc ts) := by
  intro fuel
  induction fuel with
  | zero => intros; unfold putLoop; us_leaf
  | succ n ih => intros; unfold putLoop; repeat' first | exact ih _ _ | exact parsePutKVPair_us pf _ _ | stm_step

theorem validatePut_us (ctx : CheckCtx) : ∀ ps : List (Expr × Expr), US (validatePut ctx ps) := by
  intro ps
  induction ps with
  | nil => unfold validatePut; us_leaf
  | cons p rest ih =>
    obtain ⟨k, v⟩ := p
    unfold validatePut; repeat' first | exact ih | stm_step

theorem parsePut_us (ef lf : Nat) (ts : Toks) : US (parsePut pf ef lf ts) := by
  unfold parsePut
  repeat' first | exact putLoop_us pf _ _ _ _ | exact validatePut_us _ _ | stm_step

theorem removeLoop_us (ef : Nat) : ∀ (fuel : Nat) (acc : List Expr) (ts : Toks),
    US (removeLoop pf ef fuel acc ts) := by
  intro fuel
  induction fuel with
  | zero => intros; unfold removeLoop; us_leaf
  | succ n ih => intros; unfold removeLoop; repeat' first | exact ih _ _ | stm_step

theorem validateRemove_us (ctx : CheckCtx) : ∀ ks : List Expr, US (validateRemove ctx ks) := by
  intro ks
  induction ks with
  | nil => unfold validateRemove; us_leaf
  | cons k rest ih => unfold validateRemove; repeat' first | exact ih | stm_step

theorem parseRemove_us (ef lf : Nat) (ts : Toks) : US (parseRemove pf ef lf ts) := by
  unfold parseRemove
  repeat' first | exact removeLoop_us pf _ _ _ _ | exact validateRemove_us _ _ | stm_step

theorem parseDelete_us (ef lf : Nat) (ts : Toks) : US (parseDelete pf ef lf ts) := by
  unfold parseDelete
  repeat' first | exact parseLimit_us _ _ | stm_step

theorem clauseLoop_us (ef lf : Nat) : ∀ (fuel : Nat) (c : Clauses) (ts : Toks),
    US (clauseLoop pf ef lf fuel c ts) := by
  intro fuel
  induction fuel with
  | zero => intros; unfold clauseLoop; us_leaf
  | succ n ih =>
    intros; unfold clauseLoop
    repeat' first
      | exact ih _ _ | exact parseOrderBy_us pf _ _ _ _ | exact parseGroupBy_us pf _ _ _ _
      | exact parseLimit_us _ _ | stm_step

theorem checkAggrFuncArg_us : ∀ e : Expr, US (checkAggrFuncArg e) := by
  intro e
  induction e using Expr.rec (motive_2 := fun _ => True) with
  | binop p o l r ihl ihr =>
    unfold checkAggrFuncArg
    exact US.bind ihl (fun _ => ihr)
  | call p n args _ _ => unfold checkAggrFuncArg; repeat' us_step
  | nil => trivial
  | cons _ _ _ _ => trivial
  | _ => unfold checkAggrFuncArg; us_leaf

theorem checkAggrFuncArgs_us : ∀ es : List Expr, US (checkAggrFuncArgs es) := by
  intro es
  induction es with
  | nil => unfold checkAggrFuncArgs; us_leaf
  | cons a rest ih =>
    unfold checkAggrFuncArgs
    exact US.bind (checkAggrFuncArg_us a) (fun _ => ih)

theorem checkAggrFunctionArgs_us : ∀ e : Expr, US (checkAggrFunctionArgs e) := by
  intro e
  induction e using Expr.rec (motive_2 := fun _ => True) with
  | binop p o l r ihl ihr =>
    unfold checkAggrFunctionArgs
    exact US.bind ihl (fun _ => ihr)
  | call p n args _ _ =>
    unfold checkAggrFunctionArgs
    repeat' first | exact checkAggrFuncArgs_us _ | us_step
  | nil => trivial
  | cons _ _ _ _ => trivial
  | _ => unfold checkAggrFunctionArgs; us_leaf

theorem validateFields_us : ∀ (n i : Nat) (tbl : Tbl), US (validateFields n i tbl) := by
  intro n
  induction n with
  | zero => intros; unfold validateFields; us_leaf
  | succ m ih =>
    intros; unfold validateFields
    repeat' first | exact ih _ _ | exact checkAggrFunctionArgs_us _ | stm_step

theorem rewriteFieldNames_us : ∀ (n i : Nat) (tbl : Tbl) (tys : List Nat), US (rewriteFieldNames n i tbl tys) := by
  intro n
  induction n with
  | zero => intros; unfold rewriteFieldNames; us_leaf
  | succ m ih => intros; unfold rewriteFieldNames; repeat' first | exact ih _ _ _ | stm_step

theorem refreshTypes_us (tbl : Tbl) : ∀ (tys : List Nat) (i : Nat), US (refreshTypes tbl i tys) := by
  intro tys
  induction tys with
  | nil => intro i; unfold refreshTypes; us_leaf
  | cons t ts ih => intro i; unfold refreshTypes; repeat' first | exact ih _ | stm_step

theorem parseWhere_us (ef lf spos : Nat) (sel : SelAcc) (wpos : Nat) (ts : Toks) :
    US (parseWhere pf ef lf spos sel wpos ts) := by
  unfold parseWhere
  repeat' first
    | exact rewriteFieldNames_us _ _ _ _ | exact clauseLoop_us pf _ _ _ _ _ | exact validateFields_us _ _ _
    | exact refreshTypes_us _ _ _ | stm_step

theorem parse_us (toks : Toks) : US (Parse pf toks) := by
  unfold Parse
  dsimp only
  repeat' first
    | exact parsePut_us pf _ _ _ | exact parseRemove_us pf _ _ _ | exact parseDelete_us pf _ _ _
    | exact parseSelect_us pf _ _ _ | exact parseWhere_us pf _ _ _ _ _ _ | stm_step

variable {pf}

/-- THE ONLY `unsupported` OUTCOME OF `Parse`: a call whose callee is itself a computed expression -/
theorem parse_unsupported_site {pf : Bytes → F64} (toks : Toks) (w : String) (h : Parse pf toks = .unsupported w) :
    w = "call of a computed callee" := (parse_us pf toks).site w h

end Kvql.Proofs.RunNoPanic
