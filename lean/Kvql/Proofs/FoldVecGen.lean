/-
  `Optimize()` (Model/Fold.lean) preserves ANY relation between a tree and its rewritten form that is
  closed under the rewriting steps.  C04 (Proofs/FoldSpec.lean, FoldMain.lean) runs the well-founded
  mutual recursion of `pass` / `binExec` / `operand` / `callFold` / `optArgs` once, for the relation
  "same value under the ROW evaluator" (`FoldRel` / `Sem`).  This file runs the same recursion for an
  ABSTRACT pair of relations (`Sys`):

      F   the strong relation, kept by a node that stays with rewritten operands
      S   the weak relation that survives `tryOptimizeAndOr` (`true & X => X` hands back `X`)

  closed under: reflexivity, transitivity, congruence for binary nodes and calls, the two folding
  steps (`foldBinary`, `foldCall`), re-association under `canReassociate`, and `andOr`.  The facts about
  the optimizer's control flow that do not depend on the relation (a folded operand is a literal, where
  the returned root lives, the weak static type of a rewritten argument) are taken from `pass_ok` … of
  Proofs/FoldSpec.lean.

  Instances: Proofs/FoldVecMain.lean (the BATCH evaluator), Proofs/FoldVecKind.lean (the README typing
  `kindOf`), Proofs/FoldVecShape.lean (`vecOk`, alias-freeness).
-/
import Kvql.Proofs.FoldTotal
namespace Kvql
open Generated
namespace Fold

/-- a pair of relations closed under the rewriting steps of expression_optimizer.go -/
structure Sys where
  F : Expr → Expr → Prop
  S : Expr → Expr → Prop
  F_refl : ∀ e, F e e
  F_trans : ∀ {a b c}, F a b → F b c → F a c
  S_of_F : ∀ {a b}, F a b → S a b
  S_trans : ∀ {a b c}, S a b → S b c → S a c
  /-- rewritten operands inside the binary node that stays -/
  binop : ∀ (p : Nat) (op : Op) {l l' r r' : Expr}, F l l' → F r r' → F (.binop p op l r) (.binop p op l' r')
  /-- rewritten arguments inside the call node that stays -/
  call : ∀ (p : Nat) (nm : Expr) {args args' : List Expr},
    Rows (fun a a' => S a a' ∧ WeakTy a a') args args' → F (.call p nm args) (.call p nm args')
  /-- `tryOptimizeBinaryOpExecute`: a node with literal operands replaced by the literal `k` -/
  foldBinary : ∀ {p : Nat} {op : Op} {l r k : Expr}, isLit4 l = true → isLit4 r = true →
    foldBinary (.binop p op l r) = .ok (some k) → F (.binop p op l r) k
  /-- `tryOptimizeFunctionCall`: a call with literal arguments replaced by the literal `k` -/
  foldCall : ∀ {p : Nat} {nm : Expr} {args : List Expr} {k : Expr}, args.all isLit4 = true →
    foldCall (.call p nm args) = .ok (some k) → F (.call p nm args) k
  /-- `tryReorderBinaryOp`: `(x op c1) op c2 => x op (c1 op c2)` under `canReassociate` -/
  assoc : ∀ (p q : Nat) {op : Op} {x c1 c2 : Expr}, (op = .add ∨ op = .mul) → canReassociate op x c1 c2 = true →
    F (.binop p op (.binop q op x c1) c2) (.binop p op x (.binop p op c1 c2))
  /-- `tryOptimizeAndOr` -/
  andOr : ∀ e, S e (andOr e).1

namespace Sys
variable (Y : Sys)

/-- `tryReorderBinaryOp` -/
theorem reorder_ok : ∀ e : Expr, Y.F e (reorder e)
  | .binop p op l r => by
    have hl := reorder_ok l
    have hr := reorder_ok r
    have hcong := Y.binop p op hl hr
    rw [reorder]
    split
    · exact hcong
    · rename_i hop
      have hop' : op = .add ∨ op = .mul := by
        cases op <;> simp at hop <;> simp
      split
      · rename_i q lop ll lr heq
        split
        · rename_i hcond
          simp only [Bool.and_eq_true, beq_iff_eq] at hcond
          obtain ⟨⟨⟨_, hlop⟩, hre⟩, _⟩ := hcond
          subst hlop
          rw [heq] at hcong
          exact Y.F_trans hcong (Y.assoc p q hop' hre)
        · exact hcong
      · exact hcong
  | .field .. | .str .. | .name .. | .cycle | .num .. | .float .. | .bool .. | .not .. | .call .. | .ref ..
  | .list .. | .access .. => by simp only [reorder]; exact Y.F_refl _

mutual
  theorem pass_ok : ∀ (e : Expr) (r : Pass), pass e = .ok r → Y.F e r.node ∧ Y.S e r.ret
    | .binop p op l r, res, h => by
      rw [pass] at h
      obtain ⟨o, ho, h⟩ := except_bind_ok h
      have oo := binExec_ok (reorder (.binop p op l r)) o ho
      have oc := Fold.binExec_ok (reorder (.binop p op l r)) o ho
      have hre := Y.reorder_ok (.binop p op l r)
      split at h
      · rename_i hv
        cases h
        rw [andOr_lit (oc.lit hv)]
        exact ⟨Y.F_trans hre oo.1, Y.S_of_F (Y.F_trans hre oo.2)⟩
      · cases h
        exact ⟨Y.F_trans hre oo.1, Y.S_trans (Y.S_of_F (Y.F_trans hre oo.2)) (Y.andOr o.ret)⟩
    | .call p nm args, res, h => by
      rw [pass] at h
      obtain ⟨o, ho, h⟩ := except_bind_ok h
      have oo := callFold_ok (.call p nm args) o ho
      cases h
      exact ⟨oo.1, Y.S_of_F oo.2⟩
    | .field p k, res, h | .str p d, res, h | .not p r, res, h | .name p d, res, h | .ref p n t, res, h
    | .cycle, res, h | .num p d v, res, h | .float p d v, res, h | .bool p d v, res, h | .list p items, res, h
    | .access p l f, res, h => by
      simp only [pass] at h
      cases h
      exact ⟨Y.F_refl _, Y.S_of_F (Y.F_refl _)⟩
  termination_by e => (size e, 2)
  decreasing_by
    · rw [size_reorder]; exact Prod.Lex.right _ (by omega)
    · exact Prod.Lex.right _ (by omega)

  theorem binExec_ok : ∀ (e : Expr) (o : Out), binExec e = .ok o → Y.F e o.node ∧ Y.F e o.ret
    | .binop p op l r, o, h => by
      rw [binExec] at h
      obtain ⟨lo, hlo, h⟩ := except_bind_ok h
      obtain ⟨ro, hro, h⟩ := except_bind_ok h
      have ol := operand_ok l lo hlo
      have or_ := operand_ok r ro hro
      have cl := Fold.operand_ok l lo hlo
      have cr := Fold.operand_ok r ro hro
      have hnode := Y.binop p op ol.2 or_.2
      simp only [] at h
      split at h
      · cases h
        exact ⟨hnode, hnode⟩
      · rename_i hv
        simp only [Bool.not_eq_eq_eq_not, Bool.not_true, Bool.and_eq_true, Bool.not_eq_false] at hv
        obtain ⟨fc, hfc, h⟩ := except_bind_ok h
        cases fc with
        | none =>
          cases h
          exact ⟨hnode, hnode⟩
        | some k =>
          cases h
          have hk := Y.foldBinary (cl.lit (by simpa using hv.1)) (cr.lit (by simpa using hv.2)) hfc
          exact ⟨hnode, Y.F_trans hnode hk⟩
    | .field p k, o, h | .str p d, o, h | .not p r, o, h | .name p d, o, h | .ref p n t, o, h
    | .cycle, o, h | .num p d v, o, h | .float p d v, o, h | .bool p d v, o, h | .list p items, o, h
    | .access p l f, o, h | .call p nm args, o, h => by
      simp only [binExec] at h
      cases h
      exact ⟨Y.F_refl _, Y.F_refl _⟩
  termination_by e => (size e, 1)
  decreasing_by
    · exact Prod.Lex.left _ _ (by simp only [size]; omega)
    · exact Prod.Lex.left _ _ (by simp only [size]; omega)

  theorem operand_ok : ∀ (e : Expr) (o : Out), operand e = .ok o → Y.F e o.node ∧ Y.F e o.ret
    | .binop p op l r, o, h => by
      rw [operand] at h
      exact binExec_ok (.binop p op l r) o h
    | .call p nm args, o, h => by
      rw [operand] at h
      exact callFold_ok (.call p nm args) o h
    | .str p d, o, h | .num p d v, o, h | .float p d v, o, h | .bool p d v, o, h
    | .field p k, o, h | .not p r, o, h | .name p d, o, h | .ref p n t, o, h
    | .cycle, o, h | .list p items, o, h | .access p l f, o, h => by
      simp only [operand] at h
      cases h
      exact ⟨Y.F_refl _, Y.F_refl _⟩
  termination_by e => (size e, 2)
  decreasing_by
    · exact Prod.Lex.right _ (by omega)
    · exact Prod.Lex.right _ (by omega)

  theorem callFold_ok : ∀ (e : Expr) (o : Out), callFold e = .ok o → Y.F e o.node ∧ Y.F e o.ret
    | .call p nm args, o, h => by
      rw [callFold] at h
      obtain ⟨args', hargs, h⟩ := except_bind_ok h
      have hrows := optArgs_ok args args' hargs
      have hnode := Y.call p nm hrows
      simp only [] at h
      split at h
      · cases h
        exact ⟨hnode, hnode⟩
      · rename_i hv
        simp only [Bool.not_eq_eq_eq_not, Bool.not_true, Bool.and_eq_true, Bool.not_eq_false] at hv
        obtain ⟨fc, hfc, h⟩ := except_bind_ok h
        cases fc with
        | none =>
          cases h
          exact ⟨hnode, hnode⟩
        | some k =>
          cases h
          have hk := Y.foldCall (by simpa using hv.1) hfc
          exact ⟨hnode, Y.F_trans hnode hk⟩
    | .field p k, o, h | .str p d, o, h | .not p r, o, h | .name p d, o, h | .ref p n t, o, h
    | .cycle, o, h | .num p d v, o, h | .float p d v, o, h | .bool p d v, o, h | .list p items, o, h
    | .access p l f, o, h | .binop p op l r, o, h => by
      simp only [callFold] at h
      cases h
      exact ⟨Y.F_refl _, Y.F_refl _⟩
  termination_by e => (size e, 1)
  decreasing_by
    · exact Prod.Lex.left _ _ (by simp only [size]; omega)

  theorem optArgs_ok : ∀ (args args' : List Expr), optArgs args = .ok args' →
      Rows (fun a a' => Y.S a a' ∧ WeakTy a a') args args'
    | [], args', h => by
      simp only [optArgs] at h
      cases h
      exact .nil
    | a :: rest, args', h => by
      rw [optArgs] at h
      obtain ⟨pa, hpa, h⟩ := except_bind_ok h
      obtain ⟨rest', hrest, h⟩ := except_bind_ok h
      cases h
      exact .cons ⟨(pass_ok a pa hpa).2, (Fold.pass_ok a pa hpa).ty⟩ (optArgs_ok rest rest' hrest)
  termination_by args => (sizeList args, 0)
  decreasing_by
    · exact Prod.Lex.left _ _ (by simp only [sizeList]; omega)
    · exact Prod.Lex.left _ _ (by simp only [sizeList]; omega)
end

/-- `Optimize()` = two passes: the returned root is `S`-related to the original, the node that was the
    root (the target of alias references) `F`-related -/
theorem optimizeBoth_ok {e r n : Expr} (h : optimizeBoth e = .ok (r, n)) : Y.S e r ∧ Y.F e n := by
  rw [optimizeBoth] at h
  obtain ⟨p1, h1, h⟩ := except_bind_ok h
  obtain ⟨p2, h2, h⟩ := except_bind_ok h
  have o1 := Y.pass_ok e p1 h1
  have o2 := Y.pass_ok p1.ret p2 h2
  have hloc := (Fold.pass_ok e p1 h1).loc
  cases h
  refine ⟨Y.S_trans o1.2 o2.2, ?_⟩
  cases hw : p1.which <;> simp only [hw] at hloc ⊢
  · rw [hloc] at o2
    exact Y.F_trans o1.1 o2.1
  · obtain ⟨q, op, l, r, hn, hr⟩ := hloc
    rw [hr] at o2
    have o1n := o1.1
    rw [hn] at o1n ⊢
    exact Y.F_trans o1n (Y.binop q op o2.1 (Y.F_refl r))
  · obtain ⟨q, op, l, r, hn, hr⟩ := hloc
    rw [hr] at o2
    have o1n := o1.1
    rw [hn] at o1n ⊢
    exact Y.F_trans o1n (Y.binop q op (Y.F_refl l) o2.1)
  · exact o1.1

theorem optimize_ok {e e' : Expr} (h : optimize e = .ok e') : Y.S e e' := by
  simp only [optimize] at h
  cases hb : optimizeBoth e with
  | error s => rw [hb] at h; cases h
  | ok rn =>
    obtain ⟨r, n⟩ := rn
    rw [hb] at h
    cases h
    exact (Y.optimizeBoth_ok hb).1

theorem optimizeNode_ok {e n : Expr} (h : optimizeNode e = .ok n) : Y.F e n := by
  simp only [optimizeNode] at h
  cases hb : optimizeBoth e with
  | error s => rw [hb] at h; cases h
  | ok rn =>
    obtain ⟨r, n'⟩ := rn
    rw [hb] at h
    cases h
    exact (Y.optimizeBoth_ok hb).2

end Sys

/-- C04's own relations form such a system (sanity check of the abstraction: `optimizeBoth_ok` of
    Proofs/FoldMain.lean is this instance) -/
def rowSys : Sys where
  F := FoldRel
  S := Sem
  F_refl := FoldRel.refl
  F_trans := FoldRel.trans
  S_of_F := fun h => h.sem
  S_trans := Sem.trans
  binop := fun p op _ _ _ _ hl hr => FoldRel.binop p op hl hr
  call := fun p nm _ _ h => FoldRel.call p nm h
  foldBinary := fun hl hr h => (foldBinary_ok hl hr h).1
  foldCall := fun hl h => (foldCall_ok hl h).1
  assoc := fun p q _ _ _ _ hop h => assoc_ok p q hop h
  andOr := fun e => (andOr_ok e).sem

end Fold
end Kvql
