/-
  C17, the trees the end-to-end model evaluates (`evalTrees`) and their positions.
-/
import Kvql.Proofs.ErrPosRun
import Kvql.Proofs.LexRefine
import Kvql.Proofs.LexSpec
import Kvql.Proofs.RunAggrStmt

namespace Kvql.Proofs.ErrPos

open Kvql Kvql.Run Kvql.PlanCheck Kvql.Proofs.Typing

/-- the expression trees `Run.runStmt` hands to the evaluators (`exec` / `execBatch`), to scan
    planning and to the aggregation plan: for a SELECT the folded WHERE, the folded fields, the field
    nodes alias references and GROUP BY fields point at (`Run.foldSelect`) and the KEY / VALUE nodes
    written in the GROUP BY clause itself; for a DELETE the folded WHERE; for PUT / REMOVE the pairs and
    keys as `Parse` left them.  `error`: the Go panic of the expression optimizer. -/
def evalTrees : Stmt → Fold.R (List Expr)
  | .select s => do
    let f ← Run.foldSelect s
    pure (f.where_ :: (f.fields ++ f.nodes ++ (match s.groupBy with
      | some g => g.fields.map (·.2)
      | none => [])))
  | .delete _ _ w _ => do
    let fw ← Fold.optimize w
    pure [fw]
  | .put _ pairs => pure (pairs.flatMap (fun p => [p.1, p.2]))
  | .remove _ keys => pure keys

/-- the GROUP BY expressions the aggregation plan evaluates are among `evalTrees` -/
theorem groupExprs_sub (s : SelectS) (f : FoldedSelect) (gs : List Expr) (h : groupExprs s f = some gs) :
    ∀ e ∈ gs, e ∈ f.nodes ∨ ∃ g, s.groupBy = some g ∧ e ∈ g.fields.map (·.2) := by
  unfold groupExprs at h
  split at h
  · cases h; intro e he; simp at he
  · rename_i g hg
    have key : ∀ (l : List (Bytes × Expr)) (out : List Expr),
        l.mapM (fun (x : Bytes × Expr) =>
          match x with
          | (nm, e) =>
            match e with
            | .field .. => some e
            | _ => do
              let i ← s.fieldNames.findIdx? (· == nm)
              f.nodes[i]?) = some out →
        ∀ e ∈ out, e ∈ f.nodes ∨ e ∈ l.map (·.2) := by
      intro l
      induction l with
      | nil => intro out ho e he; simp at ho; subst ho; simp at he
      | cons x rest ih =>
        intro out ho e he
        rw [List.mapM_cons] at ho
        simp only [Option.bind_eq_bind, Option.bind_eq_some_iff, Option.pure_def, Option.some.injEq] at ho
        obtain ⟨a, ha, as, has, rfl⟩ := ho
        simp only [List.mem_cons] at he
        rcases he with rfl | he
        · obtain ⟨nm, x2⟩ := x
          dsimp only at ha
          split at ha
          · cases ha; right; simp
          · simp only [Option.bind_eq_some_iff] at ha
            obtain ⟨i, _, hi⟩ := ha
            left; exact List.mem_of_getElem? hi
        · rcases ih as has e he with h1 | h1
          · exact Or.inl h1
          · right; simp only [List.map_cons, List.mem_cons]; exact Or.inr h1
    intro e he
    rcases key g.fields gs h e he with h1 | h1
    · exact Or.inl h1
    · exact Or.inr ⟨g, hg, h1⟩

/-- the expression optimizer never panics (C04 `fold_total`): `evalTrees` is always defined -/
theorem evalTrees_total (stmt : Stmt) : ∃ ts, evalTrees stmt = .ok ts := by
  cases stmt with
  | select s =>
    obtain ⟨f, hf⟩ := Kvql.Proofs.RunAggr.foldSelect_total s
    exact ⟨_, by simp only [evalTrees, hf]; rfl⟩
  | put pos pairs => exact ⟨_, rfl⟩
  | remove pos keys => exact ⟨_, rfl⟩
  | delete pos wpos w lim =>
    obtain ⟨r, n, hb⟩ := Fold.optimizeBoth_total w
    exact ⟨[r], by simp [evalTrees, Fold.optimize, hb, Except.map]⟩

/-- every tree of `evalTrees` satisfies the invariant of the statement -/
theorem evalTrees_ok {T F : Nat → Prop} {stmt : Stmt} (hs : StmtOK T F stmt) {ts : List Expr}
    (ht : evalTrees stmt = .ok ts) : ∀ e ∈ ts, NodeOK T F e := by
  cases stmt with
  | select s =>
    unfold evalTrees at ht
    obtain ⟨f, hf, ht⟩ := Fold.except_bind_ok ht
    cases ht
    obtain ⟨_, hfl, _, hw, _, hg, _⟩ := hs
    obtain ⟨h1, h2, h3⟩ := foldSelect_ok T F hf hw hfl
    intro e he
    simp only [List.mem_cons, List.mem_append] at he
    rcases he with rfl | (he | he) | he
    · exact h1
    · exact (nodeOKs_iff T F _).mp h2 e he
    · exact (nodeOKs_iff T F _).mp h3 e he
    · cases hgb : s.groupBy with
      | none => rw [hgb] at he; simp at he
      | some g =>
        rw [hgb] at he
        simp only [List.mem_map] at he
        obtain ⟨x, hx, rfl⟩ := he
        exact (hg g hgb).2 x hx
  | put pos pairs =>
    simp only [evalTrees, pure, Except.pure, Except.ok.injEq] at ht
    subst ht
    exact StmtOK.exprs hs
  | remove pos keys =>
    simp only [evalTrees, pure, Except.pure, Except.ok.injEq] at ht
    subst ht
    exact StmtOK.exprs hs
  | delete pos wpos w lim =>
    unfold evalTrees at ht
    obtain ⟨fw, hfw, ht⟩ := Fold.except_bind_ok ht
    cases ht
    intro e he
    simp only [List.mem_singleton] at he
    subst he
    exact optimize_ok T F hfw hs.2.2.1

/-! ### token offsets lie inside the query -/

/-- a token's offset is a byte offset inside the query text (C16: the offset of its first byte) -/
theorem tok_inside (q : Bytes) {t : Token} (ht : t ∈ Lexer.split q) : t.pos < q.length := by
  rw [Proofs.LexRefine.split_eq_spec] at ht
  rcases Proofs.LexSpec.spec_tokens_ok q t ht with ⟨qc, _, hq, _⟩ | ⟨hne, hlen, _⟩
  · rcases Nat.lt_or_ge t.pos q.length with h1 | h1
    · exact h1
    · rw [List.getElem?_eq_none h1] at hq; cases hq
  · have : 0 < t.data.length := List.length_pos_iff.mpr hne
    omega

theorem tokOff_inside (q : Bytes) {p : Nat} (h : TokOff (Lexer.split q) p) : p < q.length := by
  obtain ⟨t, ht, rfl⟩ := h
  exact tok_inside q ht

/-- a query with at least one token is not empty, so offset 0 lies inside it -/
theorem zero_inside (q : Bytes) (h : Lexer.split q ≠ []) : 0 < q.length := by
  cases hs : Lexer.split q with
  | nil => exact absurd hs h
  | cons t rest =>
    have := tok_inside q (t := t) (by rw [hs]; simp)
    omega

theorem planStage_nil (pf : Bytes → F64) : planStage pf [] = .err (.syntax none) := rfl

/-- whatever `planStage` answers other than "unexpected end of input", the query has a token -/
theorem split_ne_nil_of_ok {pf : Bytes → F64} {q : Bytes} {s : Stmt}
    (h : planStage pf (Lexer.split q) = .ok s) : Lexer.split q ≠ [] := by
  intro hn; rw [hn, planStage_nil] at h; cases h

theorem errOff_inside (q : Bytes) (hne : Lexer.split q ≠ []) {p : Nat} (h : ErrOff (Lexer.split q) p) :
    p < q.length := by
  rcases h with rfl | h
  · exact zero_inside q hne
  · exact tokOff_inside q h

end Kvql.Proofs.ErrPos
