/-
  C18 / C13 end to end, part 3: every SELECT.  The world a SELECT statement ends in — whatever its
  kind (`*`, fields, ORDER BY, LIMIT, aggregates, GROUP BY), polling mode, batch size ≥ 1 and cache
  setting, whether it succeeds or fails — has the store unchanged and a call log that is a prefix
  of the script of the scan node inferred for its folded WHERE; a statement without LIMIT that
  succeeds has issued the whole script.
-/
import Kvql.Proofs.RunRegionTrace

namespace Kvql.Proofs.RunRegion

open Kvql Kvql.Storage Kvql.Plans Kvql.Proofs.Plan
open Kvql.Run (Trace scanTrace scanTraceLoop zipProj orderTrace limitTrace SPair Verdicts Fail nodeOf
  projTrace runPlainSelect runAggrSelect FoldedSelect aggrInner traceValues rejected runStmt runQuery foldSelect
  Outcome)

theorem projTrace_worlds (s : SelectS) (f : FoldedSelect) (store : Store) (kind : PollKind) (bs : Nat) (hbs : 1 ≤ bs)
    (cache : Bool) :
    AllWorlds (Pre (nodeOf (Scan.optimize f.where_)) store) (projTrace s f store kind bs cache) ∧
    ((projTrace s f store kind bs cache).fin.1 = none →
      Full (nodeOf (Scan.optimize f.where_)) store (projTrace s f store kind bs cache).fin.2) := by
  unfold projTrace
  cases kind with
  | next =>
    simp only
    split
    · obtain ⟨h1, h2⟩ := scanTrace_worlds (nodeOf (Scan.optimize f.where_)) (Run.rowVerdicts f.where_ (Ctx.new cache)
        (Run.yielded (nodeOf (Scan.optimize f.where_)) store)) .next bs hbs store
      exact ⟨(allWorlds_map _ _).mpr h1, h2⟩
    · obtain ⟨h1, h2⟩ := scanTrace_worlds (nodeOf (Scan.optimize f.where_)) (Run.rowVerdicts f.where_ (Ctx.new cache)
        (Run.yielded (nodeOf (Scan.optimize f.where_)) store)) .next bs hbs store
      obtain ⟨z1, z2⟩ := zipProj_worlds (P := Pre (nodeOf (Scan.optimize f.where_)) store) _ _ _ _ _ [] h1.1 (by simp) h1.2.1 h1.2.2
      refine ⟨z1, fun h => ?_⟩
      obtain ⟨e1, e2⟩ := z2 h
      rw [e2]
      exact h2 e1
  | batch =>
    simp only
    split
    · obtain ⟨h1, h2⟩ := scanTrace_worlds (nodeOf (Scan.optimize f.where_)) (Run.batchVerdicts f.where_ (Ctx.new cache)
        (Run.innerChunks (nodeOf (Scan.optimize f.where_)) bs store)) .batch bs hbs store
      exact ⟨(allWorlds_map _ _).mpr h1, h2⟩
    · obtain ⟨h1, h2⟩ := scanTrace_worlds (nodeOf (Scan.optimize f.where_)) (Run.batchVerdicts f.where_ (Ctx.new cache)
        (Run.innerChunks (nodeOf (Scan.optimize f.where_)) bs store)) .batch bs hbs store
      obtain ⟨z1, z2⟩ := zipProj_worlds (P := Pre (nodeOf (Scan.optimize f.where_)) store) _ _ _ _ _ [] h1.1 (by simp) h1.2.1 h1.2.2
      refine ⟨z1, fun h => ?_⟩
      obtain ⟨e1, e2⟩ := z2 h
      rw [e2]
      exact h2 e1

/-- SELECT without aggregates -/
theorem runPlainSelect_world (s : SelectS) (f : FoldedSelect) (store : Store) (kind : PollKind) (bs : Nat)
    (hbs : 1 ≤ bs) (cache : Bool) :
    Pre (nodeOf (Scan.optimize f.where_)) store (runPlainSelect s f store kind bs cache).world ∧
    ((runPlainSelect s f store kind bs cache).fail = none → s.limit = none →
      Full (nodeOf (Scan.optimize f.where_)) store (runPlainSelect s f store kind bs cache).world) := by
  obtain ⟨h1, h2⟩ := projTrace_worlds s f store kind bs hbs cache
  unfold runPlainSelect
  simp only
  -- the trace after ORDER BY
  have key : ∀ t1 : Trace (List Value), AllWorlds (Pre (nodeOf (Scan.optimize f.where_)) store) t1 →
      (t1.fin.1 = none → Full (nodeOf (Scan.optimize f.where_)) store t1.fin.2) →
      Pre (nodeOf (Scan.optimize f.where_)) store
        (match s.limit with
          | none => t1.outcome
          | some l => (limitTrace (Run.limitNat l).1 (Run.limitNat l).2 kind bs t1).outcome).world ∧
      ((match s.limit with
          | none => t1.outcome
          | some l => (limitTrace (Run.limitNat l).1 (Run.limitNat l).2 kind bs t1).outcome).fail = none →
        s.limit = none →
        Full (nodeOf (Scan.optimize f.where_)) store
          (match s.limit with
            | none => t1.outcome
            | some l => (limitTrace (Run.limitNat l).1 (Run.limitNat l).2 kind bs t1).outcome).world) := by
    intro t1 a1 a2
    cases hl : s.limit with
    | none => exact ⟨a1.2.2, fun hf _ => a2 hf⟩
    | some l =>
      exact ⟨(limitTrace_worlds _ _ kind bs t1 a1).2.2, fun _ h => by simp at h⟩
  cases ho : s.order with
  | none => exact key _ h1 h2
  | some o =>
    simp only
    by_cases he : Run.elideOrder s o = true
    · simp only [he, if_true]
      exact key _ h1 h2
    · simp only [he, Bool.false_eq_true, if_false]
      cases hk : Run.orderKeys (Run.projNames s) (Run.projTypes s) o with
      | none => exact ⟨h1.1, fun h => by simp at h⟩
      | some keys =>
        simp only
        obtain ⟨o1, o2, o3⟩ := orderTrace_worlds keys kind bs _ h1
        exact key _ o1 (fun h => by rw [o2]; exact h2 (o3 h))

/-! ### aggregates -/

theorem aggrInner_worlds {P : World → Prop} (rows : List Aggr.Row) (kind : PollKind) (bs : Nat) (w : World) (h : P w) :
    AllWorlds P (aggrInner rows kind bs w) := by
  unfold aggrInner
  cases kind with
  | next =>
    simp only
    refine ⟨h, ?_, h⟩
    intro p hp
    simp only [List.mem_map] at hp
    obtain ⟨r, _, rfl⟩ := hp
    exact h
  | batch =>
    simp only
    refine ⟨h, ?_, h⟩
    intro p hp
    simp only [List.mem_map] at hp
    obtain ⟨r, _, rfl⟩ := hp
    exact h

theorem mapM_worlds {P : World → Prop} : ∀ (l : List (List (List Aggr.AVal) × World)) (l' : List (List (List Value) × World)),
    l.mapM (fun p => do
      let rows ← p.1.mapM (fun r => r.mapM Run.ofAVal)
      pure (rows, p.2)) = some l' → (∀ p ∈ l, P p.2) → ∀ p ∈ l', P p.2 := by
  intro l
  induction l with
  | nil => intro l' h _; simp at h; subst h; simp
  | cons x xs ih =>
    intro l' h hp
    rw [List.mapM_cons] at h
    simp only [Option.pure_def, Option.bind_eq_bind, Option.bind_eq_some_iff] at h
    obtain ⟨y, hy, ys, hys, hl⟩ := h
    obtain ⟨rows, _, hy'⟩ := hy
    simp only [Option.some.injEq] at hy' hl
    subst hl
    intro p hp'
    rcases List.mem_cons.mp hp' with e | e
    · subst e; rw [← hy']; exact hp x List.mem_cons_self
    · exact ih ys hys (fun q hq => hp q (List.mem_cons_of_mem _ hq)) p e

theorem traceValues_worlds {P : World → Prop} (t : Trace (List Aggr.AVal)) (t' : Trace (List Value))
    (h : traceValues t = some t') (ht : AllWorlds P t) :
    AllWorlds P t' ∧ t'.fin = t.fin := by
  unfold traceValues at h
  simp only [Option.pure_def, Option.bind_eq_bind, Option.bind_eq_some_iff, Option.some.injEq] at h
  obtain ⟨polls, hpolls, rfl⟩ := h
  exact ⟨⟨ht.1, mapM_worlds _ _ hpolls ht.2.1, ht.2.2⟩, rfl⟩


/-- the part of `runAggrSelect` above the AggregatePlan -/
def tailOutcome (s : SelectS) (store : Store) (kind : PollKind) (bs : Nat) (ta : Trace (List Value)) : Run.Outcome :=
  match s.order with
  | none => ta.outcome
  | some o =>
    match Run.orderKeys s.fieldNames s.fieldTypes o with
    | none => rejected (.glue "order field not in the select list") store
    | some keys =>
      match s.limit with
      | none => (orderTrace keys kind bs ta).outcome
      | some l => (limitTrace (Run.limitNat l).1 (Run.limitNat l).2 kind bs (orderTrace keys kind bs ta)).outcome

theorem tailOutcome_world {node : ScanNode} (s : SelectS) (store : Store) (kind : PollKind) (bs : Nat)
    (ta : Trace (List Value)) (h1 : AllWorlds (Pre node store) ta)
    (h2 : ta.fin.1 = none → s.limit = none → Full node store ta.fin.2) :
    Pre node store (tailOutcome s store kind bs ta).world ∧
    ((tailOutcome s store kind bs ta).fail = none → s.limit = none →
      Full node store (tailOutcome s store kind bs ta).world) := by
  unfold tailOutcome
  cases ho : s.order with
  | none => exact ⟨h1.2.2, h2⟩
  | some o =>
    simp only
    cases hk : Run.orderKeys s.fieldNames s.fieldTypes o with
    | none => exact ⟨pre_initial _ _, fun h => by simp [rejected] at h⟩
    | some keys =>
      simp only
      obtain ⟨o1, o2, o3⟩ := orderTrace_worlds keys kind bs ta h1
      cases hl : s.limit with
      | none =>
        refine ⟨o1.2.2, fun hf _ => ?_⟩
        have : (orderTrace keys kind bs ta).outcome.world = ta.fin.2 := o2
        rw [this]
        exact h2 (o3 hf) hl
      | some l => exact ⟨(limitTrace_worlds _ _ kind bs _ o1).2.2, fun _ h => by simp at h⟩

/-- the AggregatePlan as its parent sees it, over a drained scan -/
theorem aggr_ta_world {node : ScanNode} {store : Store} (s : SelectS) (kind : PollKind) (bs : Nat)
    (st : Trace SPair) (hw : AllWorlds (Pre node store) st) (hf : st.fin.1 = none → Full node store st.fin.2)
    (r : Except Aggr.Err Aggr.Groups) (ta : Trace (List Value))
    (h : (match
          (match st.fin.1 with
            | some fl => (Except.error fl : Except Fail (List Aggr.Row))
            | none =>
              match r with
              | .error e => .error (Run.aggrFail e)
              | .ok gs => .ok (Aggr.rowsOf gs)) with
        | .error fl => (Except.ok { w0 := st.w0, polls := [], fin := (some fl, st.fin.2) } : Except Fail (Trace (List Value)))
        | .ok rows =>
          match traceValues
              (match s.limit, s.limit.isSome && s.order.isNone with
                | some l, true => limitTrace (Run.limitNat l).1 (Run.limitNat l).2 kind bs (aggrInner rows kind bs st.fin.2)
                | _, _ => aggrInner rows kind bs st.fin.2) with
          | none => .error (.unsupported "aggregate column of list kind")
          | some t => .ok { t with w0 := st.w0 }) = .ok ta) :
    AllWorlds (Pre node store) ta ∧ (ta.fin.1 = none → s.limit = none → Full node store ta.fin.2) := by
  split at h
  · rename_i fl _
    simp only [Except.ok.injEq] at h
    subst h
    exact ⟨⟨hw.1, by simp, hw.2.2⟩, fun h => by simp at h⟩
  · rename_i rows hrows
    have hfin : st.fin.1 = none := by
      cases hx : st.fin.1 with
      | none => rfl
      | some fl => rw [hx] at hrows; simp at hrows
    split at h
    · simp at h
    · rename_i t ht
      simp only [Except.ok.injEq] at h
      subst h
      have hinner : AllWorlds (Pre node store) (aggrInner rows kind bs st.fin.2) := aggrInner_worlds _ _ _ _ hw.2.2
      cases hl : s.limit with
      | none =>
        rw [hl] at ht
        simp only at ht
        obtain ⟨t1, t2⟩ := traceValues_worlds _ _ ht hinner
        refine ⟨⟨hw.1, t1.2.1, t1.2.2⟩, fun _ _ => ?_⟩
        simp only [t2]
        have : (aggrInner rows kind bs st.fin.2).fin.2 = st.fin.2 := by
          unfold aggrInner; cases kind <;> rfl
        rw [this]
        exact hf hfin
      | some l =>
        refine ⟨?_, fun _ h => by simp at h⟩
        rw [hl] at ht
        split at ht
        · obtain ⟨t1, _⟩ := traceValues_worlds _ _ ht (limitTrace_worlds _ _ kind bs _ hinner)
          exact ⟨hw.1, t1.2.1, t1.2.2⟩
        · obtain ⟨t1, _⟩ := traceValues_worlds _ _ ht hinner
          exact ⟨hw.1, t1.2.1, t1.2.2⟩

/-- SELECT with aggregates -/
theorem runAggrSelect_world (s : SelectS) (f : FoldedSelect) (store : Store) (kind : PollKind) (bs : Nat)
    (hbs : 1 ≤ bs) (cache : Bool) :
    Pre (nodeOf (Scan.optimize f.where_)) store (runAggrSelect s f store kind bs cache).world ∧
    ((runAggrSelect s f store kind bs cache).fail = none → s.limit = none →
      Full (nodeOf (Scan.optimize f.where_)) store (runAggrSelect s f store kind bs cache).world) := by
  have hrej : ∀ fl, Pre (nodeOf (Scan.optimize f.where_)) store (rejected fl store).world ∧
      ((rejected fl store).fail = none → s.limit = none →
        Full (nodeOf (Scan.optimize f.where_)) store (rejected fl store).world) :=
    fun fl => ⟨pre_initial _ _, fun h => by simp [rejected] at h⟩
  unfold runAggrSelect
  simp only
  split
  · exact hrej _
  · exact hrej _
  · rename_i afields0 groups _ _
    cases kind with
    | next =>
      simp only []
      obtain ⟨hw, hf⟩ := scanTrace_worlds (nodeOf (Scan.optimize f.where_))
        (Run.rowVerdicts f.where_ Ctx.none (Run.yielded (nodeOf (Scan.optimize f.where_)) store)) .next bs hbs store
      generalize scanTrace (nodeOf (Scan.optimize f.where_))
        (Run.rowVerdicts f.where_ Ctx.none (Run.yielded (nodeOf (Scan.optimize f.where_)) store)) .next bs store = st at hw hf ⊢
      split
      · exact hrej _
      · rename_i afields _
        generalize Aggr.prepare _ _ _ _ = r
        split
        · exact hrej _
        · rename_i ta hta
          obtain ⟨a1, a2⟩ := aggr_ta_world s .next bs st hw hf r ta hta
          exact tailOutcome_world s store .next bs ta a1 a2
    | batch =>
      simp only []
      obtain ⟨hw, hf⟩ := scanTrace_worlds (nodeOf (Scan.optimize f.where_))
        (Run.batchVerdicts f.where_ (Ctx.new cache) (Run.innerChunks (nodeOf (Scan.optimize f.where_)) bs store))
        .batch bs hbs store
      generalize scanTrace (nodeOf (Scan.optimize f.where_))
        (Run.batchVerdicts f.where_ (Ctx.new cache) (Run.innerChunks (nodeOf (Scan.optimize f.where_)) bs store))
        .batch bs store = st at hw hf ⊢
      split
      · exact hrej _
      · rename_i afields _
        generalize Aggr.prepareBatch _ _ _ _ = r
        split
        · exact hrej _
        · rename_i ta hta
          obtain ⟨a1, a2⟩ := aggr_ta_world s .batch bs st hw hf r ta hta
          exact tailOutcome_world s store .batch bs ta a1 a2

end Kvql.Proofs.RunRegion
