/-
  RunNoPanic, part 15b: constant folding and alias resolution keep "every aggregate call that
  `listAggrFuncs` finds has an argument".
  `FoldInvL P`: the variant of `FoldInv` (RunNoPanicFold.lean) for predicates that look at the NUMBER of
  arguments of a call but not at the arguments themselves.
-/
import Kvql.Proofs.RunNoPanicFold

namespace Kvql.Proofs.RunNoPanic.AggrNP

open Kvql Kvql.Parser Kvql.Proofs.Typing Kvql.Run
open Kvql.PlanCheck (listAggrCalls isAggrCallee isAggr)

structure FoldInvL (P : Expr → Prop) : Prop where
  lit : ∀ e, Fold.isLit4 e = true → P e
  binop : ∀ p op l r, P (.binop p op l r) ↔ (P l ∧ P r)
  call_len : ∀ p nm args args', P (.call p nm args) → args'.length = args.length → P (.call p nm args')

section inv
set_option linter.unusedSectionVars false
open Kvql.Fold

theorem optArgs_length : ∀ (args args' : List Expr), optArgs args = .ok args' → args'.length = args.length
  | [], args', h => by
    simp only [optArgs] at h
    cases h
    rfl
  | a :: rest, args', h => by
    rw [optArgs] at h
    obtain ⟨pa, _, h⟩ := Fold.except_bind_ok h
    obtain ⟨rest', hrest, h⟩ := Fold.except_bind_ok h
    cases h
    simp [optArgs_length rest rest' hrest]

variable {P : Expr → Prop} (hP : FoldInvL P)
include hP

theorem reorder_invL : ∀ e : Expr, P e → P (reorder e)
  | .binop p op l r, h => by
    obtain ⟨hl, hr⟩ := (hP.binop ..).mp h
    have hl' := reorder_invL l hl
    have hr' := reorder_invL r hr
    rw [reorder]
    split
    · exact (hP.binop ..).mpr ⟨hl', hr'⟩
    · split
      · rename_i q lop ll lr heq
        have hl'' := hl'
        rw [heq] at hl''
        obtain ⟨h1, h2⟩ := (hP.binop ..).mp hl''
        split
        · exact (hP.binop ..).mpr ⟨h1, (hP.binop ..).mpr ⟨h2, hr'⟩⟩
        · exact (hP.binop ..).mpr ⟨hl', hr'⟩
      · exact (hP.binop ..).mpr ⟨hl', hr'⟩
  | .field .., h | .str .., h | .name .., h | .cycle, h | .num .., h | .float .., h | .bool .., h | .not .., h
  | .call .., h | .ref .., h | .list .., h | .access .., h => by simpa [reorder] using h

theorem mkBool_invL (p : Nat) (b : Bool) : P (mkBool p b) := hP.lit _ rfl

theorem andOr_invL (e : Expr) (h : P e) : P (andOr e).1 := by
  unfold andOr
  split
  · rename_i q op l r
    obtain ⟨hl, hr⟩ := (hP.binop ..).mp h
    split
    · exact h
    · split <;> (repeat' split) <;> first | exact h | exact hl | exact hr | exact mkBool_invL hP _ _
  · exact h

theorem callFold_invL : ∀ (e : Expr) (o : Out), P e → callFold e = .ok o → P o.ret ∧ P o.node
  | .call p nm args, o, ha, h => by
    have hb := h
    rw [callFold] at h
    obtain ⟨args', hargs, h⟩ := Fold.except_bind_ok h
    have hnode : P (.call p nm args') := hP.call_len _ _ _ _ ha (optArgs_length args args' hargs)
    simp only [] at h
    split at h
    · cases h; exact ⟨hnode, hnode⟩
    · obtain ⟨fc, hfc, h⟩ := Fold.except_bind_ok h
      cases fc with
      | none => cases h; exact ⟨hnode, hnode⟩
      | some k =>
        cases h
        exact ⟨hP.lit _ ((callFold_ok _ _ hb).lit rfl), hnode⟩
  | .field p k, o, ha, h | .str p d, o, ha, h | .not p r, o, ha, h | .name p d, o, ha, h | .ref p n t, o, ha, h
  | .cycle, o, ha, h | .num p d v, o, ha, h | .float p d v, o, ha, h | .bool p d v, o, ha, h
  | .list p items, o, ha, h | .access p l f, o, ha, h | .binop p op l r, o, ha, h => by
    simp only [callFold] at h
    cases h
    exact ⟨ha, ha⟩

mutual
  theorem binExec_invL : ∀ (e : Expr) (o : Out), P e → binExec e = .ok o → P o.ret ∧ P o.node
    | .binop p op l r, o, ha, h => by
      obtain ⟨hl, hr⟩ := (hP.binop ..).mp ha
      have hb := h
      rw [binExec] at h
      obtain ⟨lo, hlo, h⟩ := Fold.except_bind_ok h
      obtain ⟨ro, hro, h⟩ := Fold.except_bind_ok h
      have al := (operand_invL l lo hl hlo).1
      have ar := (operand_invL r ro hr hro).1
      have hnode : P (.binop p op lo.ret ro.ret) := (hP.binop ..).mpr ⟨al, ar⟩
      simp only [] at h
      split at h
      · cases h; exact ⟨hnode, hnode⟩
      · obtain ⟨fc, hfc, h⟩ := Fold.except_bind_ok h
        cases fc with
        | none => cases h; exact ⟨hnode, hnode⟩
        | some k =>
          cases h
          exact ⟨hP.lit _ ((binExec_ok _ _ hb).lit rfl), hnode⟩
    | .field p k, o, ha, h | .str p d, o, ha, h | .not p r, o, ha, h | .name p d, o, ha, h | .ref p n t, o, ha, h
    | .cycle, o, ha, h | .num p d v, o, ha, h | .float p d v, o, ha, h | .bool p d v, o, ha, h
    | .list p items, o, ha, h | .access p l f, o, ha, h | .call p nm args, o, ha, h => by
      simp only [binExec] at h
      cases h
      exact ⟨ha, ha⟩
  termination_by e => (size e, 1)
  decreasing_by
    · exact Prod.Lex.left _ _ (by simp only [size]; omega)
    · exact Prod.Lex.left _ _ (by simp only [size]; omega)

  theorem operand_invL : ∀ (e : Expr) (o : Out), P e → operand e = .ok o → P o.ret ∧ P o.node
    | .binop p op l r, o, ha, h => by
      rw [operand] at h
      exact binExec_invL (.binop p op l r) o ha h
    | .call p nm args, o, ha, h => by
      rw [operand] at h
      exact callFold_invL hP (.call p nm args) o ha h
    | .str p d, o, ha, h | .num p d v, o, ha, h | .float p d v, o, ha, h | .bool p d v, o, ha, h
    | .field p k, o, ha, h | .not p r, o, ha, h | .name p d, o, ha, h | .ref p n t, o, ha, h
    | .cycle, o, ha, h | .list p items, o, ha, h | .access p l f, o, ha, h => by
      simp only [operand] at h
      cases h
      exact ⟨ha, ha⟩
  termination_by e => (size e, 2)
  decreasing_by
    · exact Prod.Lex.right _ (by omega)
end

theorem pass_invL : ∀ (e : Expr) (r : Pass), P e → pass e = .ok r → P r.ret ∧ P r.node
  | .binop p op l r, res, ha, h => by
    rw [pass] at h
    obtain ⟨o, ho, h⟩ := Fold.except_bind_ok h
    have oa := binExec_invL hP (reorder (.binop p op l r)) o (reorder_invL hP _ ha) ho
    split at h
    · cases h; exact ⟨andOr_invL hP _ oa.1, oa.2⟩
    · cases h; exact ⟨andOr_invL hP _ oa.1, oa.2⟩
  | .call p nm args, res, ha, h => by
    rw [pass] at h
    obtain ⟨o, ho, h⟩ := Fold.except_bind_ok h
    have oa := callFold_invL hP (.call p nm args) o ha ho
    cases h
    exact oa
  | .field p k, res, ha, h | .str p d, res, ha, h | .not p r, res, ha, h | .name p d, res, ha, h
  | .ref p n t, res, ha, h | .cycle, res, ha, h | .num p d v, res, ha, h | .float p d v, res, ha, h
  | .bool p d v, res, ha, h | .list p items, res, ha, h | .access p l f, res, ha, h => by
    simp only [pass] at h
    cases h
    exact ⟨ha, ha⟩

end inv

/-- `Optimize()` preserves every `FoldInvL` predicate: on the returned root and on the old root node -/
theorem optimizeBoth_invL {P : Expr → Prop} (hP : FoldInvL P) {e r n : Expr} (he : P e)
    (h : Fold.optimizeBoth e = .ok (r, n)) : P r ∧ P n := by
  rw [Fold.optimizeBoth] at h
  obtain ⟨p1, h1, h⟩ := Fold.except_bind_ok h
  obtain ⟨p2, h2, h⟩ := Fold.except_bind_ok h
  have i1 := pass_invL hP _ _ he h1
  have i2 := pass_invL hP _ _ i1.1 h2
  have hloc := (Fold.pass_ok e p1 h1).loc
  cases h
  refine ⟨i2.1, ?_⟩
  cases hw : p1.which <;> simp only [hw] at hloc ⊢
  · exact i2.2
  · obtain ⟨q, op, l, r, hn, hr⟩ := hloc
    have := i1.2
    rw [hn] at this ⊢
    exact (hP.binop ..).mpr ⟨i2.2, ((hP.binop ..).mp this).2⟩
  · obtain ⟨q, op, l, r, hn, hr⟩ := hloc
    have := i1.2
    rw [hn] at this ⊢
    exact (hP.binop ..).mpr ⟨((hP.binop ..).mp this).1, i2.2⟩
  · exact i1.2

/-! ### the instance: every aggregate call `listAggrFuncs` finds has an argument -/

/-- every aggregate call that `listAggrFuncs` finds in the tree has at least one argument -/
def ArgsNE (e : Expr) : Prop := ∀ c ∈ listAggrCalls e, c.2 ≠ []

theorem foldInvL_argsNE : FoldInvL ArgsNE where
  lit := by
    intro e h
    cases e <;> simp [Fold.isLit4] at h <;> simp [ArgsNE, listAggrCalls]
  binop := by
    intro p op l r
    simp only [ArgsNE, listAggrCalls, List.mem_append]
    constructor
    · intro h; exact ⟨fun c hc => h c (.inl hc), fun c hc => h c (.inr hc)⟩
    · rintro ⟨h1, h2⟩ c (hc | hc)
      · exact h1 c hc
      · exact h2 c hc
  call_len := by
    intro p nm args args' h hlen
    cases nm with
    | name q d =>
      simp only [ArgsNE, listAggrCalls] at h ⊢
      split
      · rename_i hag
        simp only [hag, if_true, List.mem_singleton, forall_eq] at h
        simp only [List.mem_singleton, forall_eq]
        intro h0
        rw [h0] at hlen
        exact h (List.eq_nil_of_length_eq_zero (by simpa using hlen.symm))
      · intro c hc; cases hc
    | _ => simp [ArgsNE, listAggrCalls]

/-! ### alias resolution -/

mutual
  theorem mapRefsList_length (g : Nat → Bytes → Expr → Expr) : ∀ (es : List Expr), (mapRefsList g es).length = es.length
    | [] => by simp [mapRefsList]
    | e :: es => by simp [mapRefsList, mapRefsList_length g es]
end

/-- `mapRefs` with a function that never produces a callee name or a tree with aggregate calls at the top -/
theorem mapRefs_argsNE (g : Nat → Bytes → Expr → Expr)
    (hg : ∀ p n t, (∀ q d, g p n t ≠ .name q d) ∧ listAggrCalls (g p n t) = []) :
    ∀ (e : Expr), ArgsNE e → ArgsNE (mapRefs g e)
  | .binop p op l r, h => by
    have hb := (foldInvL_argsNE.binop p op l r).mp h
    rw [mapRefs]
    exact (foldInvL_argsNE.binop ..).mpr ⟨mapRefs_argsNE g hg l hb.1, mapRefs_argsNE g hg r hb.2⟩
  | .call p (.name q d) args, h => by
    simp only [mapRefs]
    exact foldInvL_argsNE.call_len _ _ _ _ h (mapRefsList_length g args)
  | .call p (.ref q n t) args, h => by
    simp only [mapRefs]
    intro c hc
    cases hx : g q n t with
    | name q' d' => exact absurd hx ((hg q n t).1 q' d')
    | _ => rw [hx] at hc; simp [listAggrCalls] at hc
  | .call p (.binop ..) args, h | .call p (.field ..) args, h
  | .call p (.str ..) args, h | .call p (.not ..) args, h
  | .call p (.call ..) args, h
  | .call p .cycle args, h | .call p (.num ..) args, h
  | .call p (.float ..) args, h | .call p (.bool ..) args, h
  | .call p (.list ..) args, h | .call p (.access ..) args, h => by
    simp [mapRefs, ArgsNE, listAggrCalls]
  | .ref p n t, h => by
    simp only [mapRefs]
    intro c hc
    rw [(hg p n t).2] at hc
    cases hc
  | .field .., h | .str .., h | .not .., h | .name .., h
  | .cycle, h | .num .., h | .float .., h
  | .bool .., h | .list .., h | .access .., h => by
    simp [mapRefs, ArgsNE, listAggrCalls]

theorem resolveTop_argsNE (tbl : Tbl) (e : Expr) (h : ArgsNE e) : ArgsNE (resolveTop tbl e) := by
  unfold resolveTop
  rw [resolve]
  apply mapRefs_argsNE _ _ e h
  intro p n t
  split
  · split
    · exact ⟨fun q d hx => (by cases hx), by simp [listAggrCalls]⟩
    · exact ⟨fun q d hx => (by cases hx), by simp [listAggrCalls]⟩
  · exact ⟨fun q d hx => (by cases hx), by simp [listAggrCalls]⟩

/-- the folded fields of a SELECT inherit the property from the parsed fields -/
theorem foldSelect_argsNE {s : SelectS} {f : FoldedSelect} (h : foldSelect s = .ok f)
    (hargs : ∀ x ∈ s.fields, ∀ c ∈ listAggrCalls x, c.2 ≠ []) :
    ∀ x ∈ f.fields, ∀ c ∈ listAggrCalls x, c.2 ≠ [] := by
  unfold foldSelect at h
  obtain ⟨w, _, h⟩ := Fold.except_bind_ok h
  obtain ⟨fs, hfs, h⟩ := Fold.except_bind_ok h
  obtain ⟨_, hfi⟩ := mapM_ok_inv _ _ _ hfs
  simp only [pure, Except.pure, Except.ok.injEq] at h
  subst h
  intro x hx
  obtain ⟨p, hp, rfl⟩ := List.mem_map.mp hx
  obtain ⟨i, hi⟩ := List.mem_iff_getElem?.mp hp
  obtain ⟨x0, hx0, hxo⟩ := hfi i p hi
  have h1 : ArgsNE p.1 :=
    (optimizeBoth_invL foldInvL_argsNE (hargs x0 (List.mem_of_getElem? hx0)) (r := p.1) (n := p.2) hxo).1
  exact resolveTop_argsNE _ _ h1

end Kvql.Proofs.RunNoPanic.AggrNP
