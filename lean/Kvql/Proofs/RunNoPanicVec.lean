/-
  RunNoPanic, part 4: the batch evaluator never panics — field cache ON or OFF, no `vecOk`.

  `execBatch_total` (ExecPanicFree.lean) needs the cache off and the static condition `vecOk`.  Both
  go away with the right invariant: `ColsLen c n` — every column of the per-chunk cache of `c` has
  `n` values.  Evaluating ONE chunk of `n` pairs from such a context (a fresh context has an empty
  cache) returns `n` values or an ordinary error, and leaves such a context: a cache hit returns a
  column of the right length, so no `slice[i]` of the vector code goes out of range.

  Organisation: the lengths of the loop results (`*_len`), the context operations keep `ColsLen`,
  the invariant-carrying predicate `Good` with its sequencing rule `Good.bind`, then the mutual
  induction `execBatch_safe_core` / `inItemsBatch_safe_core` / `vecBody_safe_core` along the case
  structure of `execBatch_total_core`.
-/
import Kvql.Proofs.RunNoPanicBase
import Kvql.Proofs.ExecVecTotalThm
import Kvql.Proofs.CacheBase

namespace Kvql.Proofs.RunNoPanic

open Kvql

/-- every column the per-chunk cache holds has `n` values -/
def ColsLen (c : Ctx) (n : Nat) : Prop :=
  ∀ (k : Bytes) (col : List Value), assocGet c.chunkKeyCache k = some col → col.length = n

theorem colsLen_new (cache : Bool) (n : Nat) : ColsLen (Ctx.new cache) n := by
  intro k col h; simp [Ctx.new, assocGet] at h

theorem colsLen_none (n : Nat) : ColsLen Ctx.none n := by
  intro k col h; simp [Ctx.none, assocGet] at h

/-! Helper lemmas live in the sub-namespace `Vec` (generic names: `Good`, `Adm`, `Outcome`, …). -/
namespace Vec

/-! ### lengths of the loop results -/

theorem exc_bind_ok {α β} {x : Except Err α} {f : α → Except Err β} {b : β} (h : x >>= f = .ok b) :
    ∃ a, x = .ok a ∧ f a = .ok b := by
  cases x with
  | error e => cases h
  | ok a => exact ⟨a, rfl, h⟩

theorem mapRows_len {f : Value → Except Err Value} :
    ∀ (n : Nat) (xs ys : List Value), mapRows f n xs = .ok ys → ys.length = xs.length
  | 0, xs, ys, h => by simp only [mapRows] at h; cases h; rfl
  | n + 1, [], ys, h => by simp [mapRows] at h
  | n + 1, x :: xs, ys, h => by
    simp only [mapRows] at h
    obtain ⟨y, _, h⟩ := exc_bind_ok h
    obtain ⟨ys', h1, h⟩ := exc_bind_ok h
    cases h
    simp [mapRows_len n xs ys' h1]

theorem mapRowsFresh_len {f : Value → Value} :
    ∀ (n : Nat) (xs ys : List Value), mapRowsFresh f n xs = .ok ys → ys.length = n
  | 0, xs, ys, h => by simp only [mapRowsFresh] at h; cases h; rfl
  | n + 1, [], ys, h => by simp [mapRowsFresh] at h
  | n + 1, x :: xs, ys, h => by
    simp only [mapRowsFresh] at h
    obtain ⟨ys', h1, h⟩ := exc_bind_ok h
    cases h
    simp [mapRowsFresh_len n xs ys' h1]

theorem zipRows_len {f : Value → Value → Except Err Value} :
    ∀ (n : Nat) (xs zs ys : List Value), zipRows f n xs zs = .ok ys → ys.length = xs.length
  | 0, xs, zs, ys, h => by simp only [zipRows] at h; cases h; rfl
  | n + 1, [], zs, ys, h => by simp [zipRows] at h
  | n + 1, x :: xs, [], ys, h => by simp [zipRows] at h
  | n + 1, x :: xs, z :: zs, ys, h => by
    simp only [zipRows] at h
    obtain ⟨y, _, h⟩ := exc_bind_ok h
    obtain ⟨ys', h1, h⟩ := exc_bind_ok h
    cases h
    simp [zipRows_len n xs zs ys' h1]

theorem zip3Rows_len {f : Value → Value → Value → Except Err Value} :
    ∀ (n : Nat) (xs zs ws ys : List Value), zip3Rows f n xs zs ws = .ok ys → ys.length = xs.length
  | 0, xs, zs, ws, ys, h => by simp only [zip3Rows] at h; cases h; rfl
  | n + 1, [], zs, ws, ys, h => by simp [zip3Rows] at h
  | n + 1, x :: xs, [], ws, ys, h => by simp [zip3Rows] at h
  | n + 1, x :: xs, z :: zs, [], ys, h => by simp [zip3Rows] at h
  | n + 1, x :: xs, z :: zs, w :: ws, ys, h => by
    simp only [zip3Rows] at h
    obtain ⟨y, _, h⟩ := exc_bind_ok h
    obtain ⟨ys', h1, h⟩ := exc_bind_ok h
    cases h
    simp [zip3Rows_len n xs zs ws ys' h1]

theorem zipRowsLazy_len {f : Value → Option Value → Except Err Value} :
    ∀ (n : Nat) (xs zs ys : List Value), zipRowsLazy f n xs zs = .ok ys → ys.length = xs.length
  | 0, xs, zs, ys, h => by simp only [zipRowsLazy] at h; cases h; rfl
  | n + 1, [], zs, ys, h => by simp [zipRowsLazy] at h
  | n + 1, x :: xs, zs, ys, h => by
    simp only [zipRowsLazy] at h
    obtain ⟨y, _, h⟩ := exc_bind_ok h
    obtain ⟨ys', h1, h⟩ := exc_bind_ok h
    cases h
    simp [zipRowsLazy_len n xs zs.tail ys' h1]

theorem inRows_len {number : Bool} {cols : List (List Value)} :
    ∀ (n i : Nat) (xs ys : List Value), inRows number cols n i xs = .ok ys → ys.length = xs.length
  | 0, i, xs, ys, h => by simp only [inRows] at h; cases h; rfl
  | n + 1, i, [], ys, h => by simp [inRows] at h
  | n + 1, i, x :: xs, ys, h => by
    simp only [inRows] at h
    obtain ⟨y, _, h⟩ := exc_bind_ok h
    obtain ⟨ys', h1, h⟩ := exc_bind_ok h
    cases h
    simp [inRows_len n (i + 1) xs ys' h1]

theorem inCallRows_len {number : Bool} :
    ∀ (n : Nat) (xs fs ys : List Value), inCallRows number n xs fs = .ok ys → ys.length = xs.length
  | 0, xs, fs, ys, h => by simp only [inCallRows] at h; cases h; rfl
  | n + 1, xs, [], ys, h => by simp [inCallRows] at h
  | n + 1, xs, fr :: fs, ys, h => by
    simp only [inCallRows] at h
    split at h
    · cases h
    · split at h
      · cases h
      · obtain ⟨y, _, h⟩ := exc_bind_ok h
        obtain ⟨ys', h1, h⟩ := exc_bind_ok h
        cases h
        simp [inCallRows_len n _ fs ys' h1]

theorem betweenRows_len {number : Bool} :
    ∀ (n : Nat) (xs ls us ys : List Value), xs.length = n → betweenRows number n xs ls us = .ok ys →
      ys.length = n
  | 0, [], ls, us, ys, _, h => by simp only [betweenRows] at h; cases h; rfl
  | n + 1, x :: xs, [], us, ys, _, h => by simp [betweenRows] at h
  | n + 1, x :: xs, l :: ls, [], ys, _, h => by simp [betweenRows] at h
  | n + 1, x :: xs, l :: ls, u :: us, ys, hx, h => by
    simp only [betweenRows, List.tail_cons] at h
    obtain ⟨y, _, h⟩ := exc_bind_ok h
    obtain ⟨ys', h1, h⟩ := exc_bind_ok h
    cases h
    simp [betweenRows_len n xs ls us ys' (by simpa using hx) h1]

theorem equalBatchFinish_len {not : Bool} {n : Nat} {xs zs ys : List Value} (hx : xs.length = n)
    (h : equalBatchFinish not n xs zs = .ok ys) : ys.length = n := by
  unfold equalBatchFinish at h
  split at h
  · rename_i h0; cases h; simp at h0; simp [h0]
  · rw [zipRows_len _ _ _ _ h, hx]

theorem forPairs_len {f : Pair → M Value} :
    ∀ (chunk : List Pair) (c c' : Ctx) (vs : List Value), forPairs f chunk c = (.ok vs, c') →
      vs.length = chunk.length
  | [], c, c', vs, h => by rw [forPairs] at h; simp at h; simp [← h.1]
  | kv :: kvs, c, c', vs, h => by
    rw [forPairs] at h
    obtain ⟨v, c1, _, h⟩ := bind_ok_inv h
    obtain ⟨vs', c2, h2, h⟩ := bind_ok_inv h
    simp at h
    simp [← h.1, forPairs_len kvs c1 c2 vs' h2]


/-! ### the context operations keep the invariant -/

theorem colsLen_updateHit {c : Ctx} {n : Nat} (h : ColsLen c n) : ColsLen c.updateHit n := h

theorem colsLen_get {c : Ctx} {n : Nat} (h : ColsLen c n) {name key : Bytes} {col : List Value}
    (hg : c.getChunkFieldResult name key = some col) : col.length = n := by
  unfold Ctx.getChunkFieldResult at hg
  split at hg
  · cases hg
  · exact h _ _ hg

theorem set_present (c : Ctx) (name key : Bytes) (vs : List Value) :
    (c.setChunkFieldResult name key vs).present = c.present := by
  unfold Ctx.setChunkFieldResult
  split
  · rfl
  · dsimp only
    split
    · rfl
    · unfold Ctx.appendChunkFieldResult
      dsimp only
      split
      · rfl
      · split <;> rfl

theorem set_enable (c : Ctx) (name key : Bytes) (vs : List Value) :
    (c.setChunkFieldResult name key vs).enable = c.enable := by
  unfold Ctx.setChunkFieldResult
  split
  · rfl
  · dsimp only
    split
    · rfl
    · unfold Ctx.appendChunkFieldResult
      dsimp only
      split
      · rfl
      · split <;> rfl

theorem colsLen_set {c : Ctx} {n : Nat} (h : ColsLen c n) (name key : Bytes) {vs : List Value}
    (hv : vs.length = n) : ColsLen (c.setChunkFieldResult name key vs) n := by
  have hk : ∀ (c' : Ctx), ColsLen c' n → ColsLen (c'.appendChunkFieldResult name vs) n := by
    intro c' h'
    unfold Ctx.appendChunkFieldResult
    split
    · exact h'
    · split <;> exact h'
  unfold Ctx.setChunkFieldResult
  split
  · exact h
  · dsimp only
    split
    · exact h
    · apply hk
      intro k col hg
      dsimp only at hg
      rw [Kvql.Cache.assocGet_assocSet] at hg
      split at hg
      · cases hg; exact hv
      · exact h _ _ hg

/-! ### the invariant-carrying predicate -/

/-- what a chunk evaluation may assume of its context -/
structure Adm (chunk : List Pair) (c : Ctx) : Prop where
  ne : c.present = true → chunk ≠ []
  cl : ColsLen c chunk.length

/-- at context `c`: a result satisfying `P` or a benign error; the context keeps the invariant -/
def Outcome {α} (P : α → Prop) : Except Err α → Prop
  | .ok a => P a
  | .error err => err.benign

def Good {α} (P : α → Prop) (chunk : List Pair) (x : M α) (c : Ctx) : Prop :=
  Outcome P (x c).1 ∧
  ColsLen (x c).2 chunk.length ∧ (x c).2.present = c.present ∧ (x c).2.enable = c.enable

theorem Good.of_run {α} {P : α → Prop} {chunk : List Pair} {x : M α} {c c' : Ctx} {r : Except Err α}
    (h : x c = (r, c')) (h1 : Outcome P r)
    (h2 : ColsLen c' chunk.length) (h3 : c'.present = c.present) (h4 : c'.enable = c.enable) :
    Good P chunk x c := by
  unfold Good; rw [h]; exact ⟨h1, h2, h3, h4⟩

theorem Good.adm {α} {P : α → Prop} {chunk : List Pair} {x : M α} {c : Ctx} (ha : Adm chunk c)
    (h : Good P chunk x c) : Adm chunk (x c).2 :=
  ⟨fun hp => ha.ne (h.2.2.1 ▸ hp), h.2.1⟩

theorem Good.pure {α} {P : α → Prop} {chunk : List Pair} {c : Ctx} (ha : Adm chunk c) {a : α} (hp : P a) :
    Good P chunk (Pure.pure a : M α) c := ⟨hp, ha.cl, rfl, rfl⟩

theorem Good.throw {α} {P : α → Prop} {chunk : List Pair} {c : Ctx} (ha : Adm chunk c) {e : Err}
    (he : e.benign) : Good P chunk (M.throw e : M α) c := ⟨he, ha.cl, rfl, rfl⟩

theorem Good.lift {α} {P : α → Prop} {chunk : List Pair} {c : Ctx} (ha : Adm chunk c) {x : Except Err α}
    (hb : ExBenign x) (hp : ∀ a, x = .ok a → P a) : Good P chunk (M.lift x) c := by
  refine Good.of_run (r := x) rfl ?_ ha.cl rfl rfl
  cases x with
  | ok a => exact hp a rfl
  | error e => exact hb e rfl

theorem Good.ite {α} {P : α → Prop} {chunk : List Pair} {p : Prop} [Decidable p] {x y : M α} {c : Ctx}
    (hx : Good P chunk x c) (hy : Good P chunk y c) : Good P chunk (if p then x else y) c := by
  split <;> assumption

theorem Good.bind {α β} {Q : α → Prop} {P : β → Prop} {chunk : List Pair} {x : M α} {f : α → M β} {c : Ctx}
    (ha : Adm chunk c) (hx : Good Q chunk x c)
    (hf : ∀ a c1, Adm chunk c1 → Q a → Good P chunk (f a) c1) : Good P chunk (x >>= f) c := by
  have ha1 := hx.adm ha
  obtain ⟨h1, h2, h3, h4⟩ := hx
  unfold Good
  rw [M.bind_run]
  rcases hxc : x c with ⟨r, c1⟩
  rw [hxc] at h1 h2 h3 h4 ha1
  cases r with
  | error e => exact ⟨h1, h2, h3, h4⟩
  | ok a =>
    obtain ⟨g1, g2, g3, g4⟩ := hf a c1 ha1 h1
    exact ⟨g1, g2, g3.trans h3, g4.trans h4⟩

/-- the row body run pair by pair with a nil context -/
theorem rowWiseNoCtx_good {f : Pair → M Value} (hf : ∀ kv, Total (f kv)) {chunk : List Pair} {c : Ctx}
    (ha : Adm chunk c) : Good (fun vs => vs.length = chunk.length) chunk (rowWiseNoCtx f chunk) c := by
  refine Good.of_run (r := (forPairs f chunk Ctx.none).1) rfl ?_ ha.cl rfl rfl
  rcases hx : forPairs f chunk Ctx.none with ⟨r, d⟩
  cases r with
  | ok vs => exact forPairs_len chunk _ _ vs hx
  | error e => exact forPairs_total hf chunk Ctx.none e d hx


/-! ### the batch evaluator -/

/-- the statement proved for every cycle-free expression -/
def BatchSafe (e : Expr) : Prop :=
  ∀ (chunk : List Pair) (c : Ctx), Adm chunk c →
    Good (fun vs => vs.length = chunk.length) chunk (execBatch e chunk) c

theorem binop_safe {e l r : Expr} {F : Nat → List Value → List Value → Except Err (List Value)}
    (hb : ∀ chunk, execBatch e chunk = (do
      let a ← execBatch l chunk
      let b ← execBatch r chunk
      M.lift (F chunk.length a b)))
    (hF : ∀ n as bs, as.length = n → bs.length = n → ExBenign (F n as bs))
    (hL : ∀ n as bs ys, as.length = n → F n as bs = .ok ys → ys.length = n)
    (ihl : BatchSafe l) (ihr : BatchSafe r) : BatchSafe e := by
  intro chunk c ha
  rw [hb]
  refine .bind ha (ihl chunk c ha) fun a c1 ha1 hla => ?_
  refine .bind ha1 (ihr chunk c1 ha1) fun b c2 ha2 hlb => ?_
  exact .lift ha2 (hF _ _ _ hla hlb) (fun ys h => hL _ _ _ _ hla h)

theorem zipRows_hL {K : Value → Value → Except Err Value} :
    ∀ n as bs ys, as.length = n → zipRows K n as bs = .ok ys → ys.length = n :=
  fun _ _ _ _ ha h => (zipRows_len _ _ _ _ h).trans ha

theorem unary_body_safe {b : Body} {f : Value → Value} (hb : unaryOf b = some f) {a0 : Expr} {rest : List Expr}
    (ih : BatchSafe a0) :
    ∀ (chunk : List Pair) (c : Ctx), Adm chunk c →
      Good (fun vs => vs.length = chunk.length) chunk (vecBody b (a0 :: rest) chunk) c := by
  intro chunk c ha
  have hv : vecBody b (a0 :: rest) chunk = (do
      let rarg ← execBatch a0 chunk
      M.lift (mapRowsFresh f chunk.length rarg)) := by
    cases b <;> simp [unaryOf] at hb <;> subst hb <;> rw [vecBody]
  rw [hv]
  exact .bind ha (ih chunk c ha) fun a c1 ha1 hla =>
    .lift ha1 (mapRowsFresh_err _ _ hla) (fun ys h => mapRowsFresh_len _ _ _ h)

mutual
  theorem execBatch_safe_core : ∀ (e : Expr), e.wf = true → BatchSafe e
    | .str .., _ => fun _ c ha => by rw [execBatch]; exact .pure ha (by simp)
    | .field .., _ => fun _ c ha => by rw [execBatch]; exact .pure ha (by simp)
    | .name .., _ => fun _ c ha => by rw [execBatch]; exact .pure ha (by simp)
    | .num .., _ => fun _ c ha => by rw [execBatch]; exact .pure ha (by simp)
    | .float .., _ => fun _ c ha => by rw [execBatch]; exact .pure ha (by simp)
    | .bool .., _ => fun _ c ha => by rw [execBatch]; exact .pure ha (by simp)
    | .list .., _ => fun _ c ha => by rw [execBatch]; exact .pure ha (by simp)
    | .cycle, h => by simp [Expr.wf] at h
    | .not p r, hw => by
      intro chunk c ha
      rw [execBatch]
      refine .bind ha (execBatch_safe_core r (by simpa [Expr.wf] using hw) chunk c ha) fun a c1 ha1 hla =>
        .lift ha1 (mapRows_err (fun x => ExBenign.map (ExBenign.map exb_asBool)) _ _ hla)
          (fun ys h => (mapRows_len _ _ _ h).trans hla)
    | .ref p name t, hw => by
      intro chunk c ha
      have ih := execBatch_safe_core t (by simpa [Expr.wf] using hw) chunk c ha
      unfold Good
      rw [execBatch]
      dsimp only
      split
      · rename_i hp
        simp only [Bool.and_eq_true, List.isEmpty_iff] at hp
        exact absurd hp.2 (ha.ne hp.1)
      · split
        · rename_i cval hget
          split at hget
          · exact ⟨colsLen_get ha.cl hget, ha.cl, rfl, rfl⟩
          · cases hget
        · obtain ⟨h1, h2, h3, h4⟩ := ih
          rcases hx : execBatch t chunk c with ⟨r, c1⟩
          rw [hx] at h1 h2 h3 h4
          cases r with
          | error e0 => exact ⟨h1, h2, h3, h4⟩
          | ok vs =>
            dsimp only
            refine ⟨h1, ?_, ?_, ?_⟩
            · split
              · exact colsLen_set h2 _ _ h1
              · exact h2
            · split
              · rw [set_present]; exact h3
              · exact h3
            · split
              · rw [set_enable]; exact h4
              · exact h4
    | .access p l f, hw => by
      intro chunk c ha
      simp only [Expr.wf, Bool.and_eq_true] at hw
      rw [execBatch]
      refine .bind ha (execBatch_safe_core l hw.1 chunk c ha) fun left c1 ha1 hla => ?_
      split
      · exact .lift ha1 (mapRows_err (fun _ => exb_dictAccess) _ _ rfl)
          (fun ys h => (mapRows_len _ _ _ h).trans hla)
      · rename_i q d n
        exact .lift ha1 (mapRows_err (fun _ => exb_listAccess (by simpa using hw.2)) _ _ rfl)
          (fun ys h => (mapRows_len _ _ _ h).trans hla)
      · exact .throw ha1 benign_syntax
    | .call p nm args, hw => by
      intro chunk c ha
      simp only [Expr.wf] at hw
      rw [execBatch]
      cases hn : funcNameOf nm with
      | error e0 =>
        dsimp only
        refine .throw ha ?_
        cases nm <;> simp [funcNameOf] at hn <;> subst hn <;> exact benign_syntax
      | ok fname =>
        dsimp only
        cases hf : lookupFunc fname with
        | none => exact .throw ha benign_unknownFunc
        | some fo =>
          dsimp only
          by_cases h1 : (!fo.varArgs && args.length != fo.numArgs) = true
          · rw [if_pos h1]; exact .throw ha benign_arity
          · rw [if_neg h1]
            by_cases h2 : (fo.varArgs && decide (args.length < fo.numArgs)) = true
            · rw [if_pos h2]; exact .throw ha benign_arity
            · rw [if_neg h2]
              cases hb : fo.body with
              | none =>
                obtain ⟨e, he, rfl⟩ := lookupFunc_mem hf
                have : ∀ e ∈ Generated.funcTable, (FuncInfo.ofEntry e).body ≠ none := by decide
                exact absurd hb (this e he)
              | some b =>
                dsimp only
                have hneeds := lookup_needs hf hb
                have hlen : b.needs ≤ args.length := by
                  cases hv : fo.varArgs <;> simp [hv] at h1 h2 <;> omega
                refine .ite (vecBody_safe_core b args hw hlen chunk c ha) ?_
                exact rowWiseNoCtx_good (fun kv => rowBody_total b args kv hw hlen) ha
    | .binop p op l r, hw => by
      simp only [Expr.wf, Bool.and_eq_true] at hw
      have ihl := execBatch_safe_core l hw.1
      have ihr := execBatch_safe_core r hw.2
      cases op
      · exact binop_safe (F := zipRows andK) (fun _ => by rw [execBatch]; rfl) (zipRows_hF fun _ _ => exb_andK) zipRows_hL ihl ihr
      · exact binop_safe (F := zipRows orK) (fun _ => by rw [execBatch]; rfl) (zipRows_hF fun _ _ => exb_orK) zipRows_hL ihl ihr
      · intro chunk c ha; rw [execBatch]; exact .throw ha benign_unknownOp
      · exact binop_safe (F := equalBatchFinish false) (fun _ => by rw [execBatch])
          (fun n as bs ha hb => equalBatchFinish_err ha hb) (fun n as bs ys ha h => equalBatchFinish_len ha h) ihl ihr
      · exact binop_safe (F := equalBatchFinish true) (fun _ => by rw [execBatch])
          (fun n as bs ha hb => equalBatchFinish_err ha hb) (fun n as bs ys ha h => equalBatchFinish_len ha h) ihl ihr
      · exact binop_safe (F := zipRows prefixK) (fun _ => by rw [execBatch]; rfl) (zipRows_hF fun _ _ => exb_prefixK) zipRows_hL ihl ihr
      · exact binop_safe (F := zipRows regexK) (fun _ => by rw [execBatch]; rfl) (zipRows_hF fun _ _ => exb_regexK) zipRows_hL ihl ihr
      · cases hs : (retType l == Generated.tyTSTR)
        · exact binop_safe (F := zipRows (fun x y => executeMathOp x y .add))
            (fun _ => by rw [execBatch]; simp [hs]) (zipRows_hF fun _ _ => exb_executeMathOp) zipRows_hL ihl ihr
        · exact binop_safe (F := zipRows concatK)
            (fun _ => by rw [execBatch]; simp [hs]; rfl) (zipRows_hF fun _ _ => exb_concatK) zipRows_hL ihl ihr
      · exact binop_safe (F := zipRows (fun x y => executeMathOp x y .sub))
          (fun _ => by rw [execBatch]) (zipRows_hF fun _ _ => exb_executeMathOp) zipRows_hL ihl ihr
      · exact binop_safe (F := zipRows (fun x y => executeMathOp x y .mul))
          (fun _ => by rw [execBatch]) (zipRows_hF fun _ _ => exb_executeMathOp) zipRows_hL ihl ihr
      · exact binop_safe (F := zipRows (fun x y => executeMathOp x y .div))
          (fun _ => by rw [execBatch]) (zipRows_hF fun _ _ => exb_executeMathOp) zipRows_hL ihl ihr
      · exact binop_safe (F := zipRows (fun x y => boolV (compareBy (!(retType l == Generated.tyTSTR)) x y .gt)))
          (fun _ => by rw [execBatch]) (zipRows_hF fun _ _ => ExBenign.map exb_compareBy) zipRows_hL ihl ihr
      · exact binop_safe (F := zipRows (fun x y => boolV (compareBy (!(retType l == Generated.tyTSTR)) x y .gte)))
          (fun _ => by rw [execBatch]) (zipRows_hF fun _ _ => ExBenign.map exb_compareBy) zipRows_hL ihl ihr
      · exact binop_safe (F := zipRows (fun x y => boolV (compareBy (!(retType l == Generated.tyTSTR)) x y .lt)))
          (fun _ => by rw [execBatch]) (zipRows_hF fun _ _ => ExBenign.map exb_compareBy) zipRows_hL ihl ihr
      · exact binop_safe (F := zipRows (fun x y => boolV (compareBy (!(retType l == Generated.tyTSTR)) x y .lte)))
          (fun _ => by rw [execBatch]) (zipRows_hF fun _ _ => ExBenign.map exb_compareBy) zipRows_hL ihl ihr
      · -- in
        intro chunk c ha
        rw [execBatch]
        refine .bind ha (ihl chunk c ha) fun rleft c1 ha1 hlen => ?_
        dsimp only
        split
        · rename_i q items
          have hwi : Expr.wfList items = true := by simpa [Expr.wf] using hw.2
          refine .bind ha1 (inItemsBatch_safe_core _ items hwi chunk c1 ha1) fun cols c2 ha2 hcols => ?_
          exact .lift ha2 (inRows_err _ 0 rleft hlen (by simpa using hcols))
            (fun ys h => (inRows_len _ _ _ _ h).trans hlen)
        · exact .bind ha1 (ihr chunk c1 ha1) fun frets c2 ha2 hlf =>
            .lift ha2 (inCallRows_err _ _ _ hlen hlf) (fun ys h => (inCallRows_len _ _ _ _ h).trans hlen)
        · exact .bind ha1 (ihr chunk c1 ha1) fun frets c2 ha2 hlf =>
            .lift ha2 (inCallRows_err _ _ _ hlen hlf) (fun ys h => (inCallRows_len _ _ _ _ h).trans hlen)
        · exact .throw ha1 benign_operandType
      · -- between
        intro chunk c ha
        rw [execBatch]
        refine .bind ha (ihl chunk c ha) fun rleft c1 ha1 hlen => ?_
        split
        · rename_i q lo hi
          have hwl : lo.wf = true ∧ hi.wf = true := by simpa [Expr.wf, Expr.wfList] using hw.2
          refine .ite (.throw ha1 benign_operandType) (.ite (.throw ha1 benign_operandType)
            (.ite (.throw ha1 benign_operandType) (.ite (.throw ha1 benign_operandType) ?_)))
          refine .bind ha1 (execBatch_safe_core lo hwl.1 chunk c1 ha1) fun lb c2 ha2 hb => ?_
          refine .bind ha2 (execBatch_safe_core hi hwl.2 chunk c2 ha2) fun ub c3 ha3 hu => ?_
          exact .lift ha3 (betweenRows_err _ _ _ _ hlen hb hu) (fun ys h => betweenRows_len _ _ _ _ _ hlen h)
        · exact .throw ha1 benign_operandType
      · exact binop_safe (F := zipRows andK) (fun _ => by rw [execBatch]; rfl) (zipRows_hF fun _ _ => exb_andK) zipRows_hL ihl ihr
      · exact binop_safe (F := zipRows orK) (fun _ => by rw [execBatch]; rfl) (zipRows_hF fun _ _ => exb_orK) zipRows_hL ihl ihr

  theorem inItemsBatch_safe_core : ∀ (number : Bool) (items : List Expr), Expr.wfList items = true →
      ∀ (chunk : List Pair) (c : Ctx), Adm chunk c →
        Good (fun cols => ∀ col ∈ cols, col.length = chunk.length) chunk (execInItemsBatch number items chunk) c
    | _, [], _ => fun _ c ha => by rw [execInItemsBatch]; exact .pure ha (by simp)
    | number, e :: es, hw => by
      intro chunk c ha
      simp only [Expr.wfList, Bool.and_eq_true] at hw
      rw [execInItemsBatch]
      refine .ite (.throw ha benign_operandType) ?_
      refine .bind ha (execBatch_safe_core e hw.1 chunk c ha) fun vals c1 ha1 hv => ?_
      refine .bind ha1 (inItemsBatch_safe_core number es hw.2 chunk c1 ha1) fun rest c2 ha2 hr => ?_
      refine .pure ha2 ?_
      intro col hcol
      rcases List.mem_cons.mp hcol with rfl | h
      · exact hv
      · exact hr col h

  theorem vecBody_safe_core : ∀ (b : Body) (args : List Expr), Expr.wfList args = true →
      b.needs ≤ args.length → ∀ (chunk : List Pair) (c : Ctx), Adm chunk c →
        Good (fun vs => vs.length = chunk.length) chunk (vecBody b args chunk) c
    | .join, args, hw, hn => fun chunk c ha => by
      rw [vecBody]; exact rowWiseNoCtx_good (fun kv => rowBody_total .join args kv hw hn) ha
    | .toList, args, hw, hn => fun chunk c ha => by
      rw [vecBody]; exact rowWiseNoCtx_good (fun kv => rowBody_total .toList args kv hw hn) ha
    | .intList, args, hw, hn => fun chunk c ha => by
      rw [vecBody]; exact rowWiseNoCtx_good (fun kv => rowBody_total .intList args kv hw hn) ha
    | .floatList, args, hw, hn => fun chunk c ha => by
      rw [vecBody]; exact rowWiseNoCtx_good (fun kv => rowBody_total .floatList args kv hw hn) ha
    | .lower, a0 :: _, hw, _ => by
      simp [Expr.wfList] at hw
      exact unary_body_safe rfl (execBatch_safe_core a0 hw.1)
    | .upper, a0 :: _, hw, _ => by
      simp [Expr.wfList] at hw
      exact unary_body_safe rfl (execBatch_safe_core a0 hw.1)
    | .toInt, a0 :: _, hw, _ => by
      simp [Expr.wfList] at hw
      exact unary_body_safe rfl (execBatch_safe_core a0 hw.1)
    | .toFloat, a0 :: _, hw, _ => by
      simp [Expr.wfList] at hw
      exact unary_body_safe rfl (execBatch_safe_core a0 hw.1)
    | .toStr, a0 :: _, hw, _ => by
      simp [Expr.wfList] at hw
      exact unary_body_safe rfl (execBatch_safe_core a0 hw.1)
    | .isInt, a0 :: _, hw, _ => by
      simp [Expr.wfList] at hw
      exact unary_body_safe rfl (execBatch_safe_core a0 hw.1)
    | .isFloat, a0 :: _, hw, _ => by
      simp [Expr.wfList] at hw
      exact unary_body_safe rfl (execBatch_safe_core a0 hw.1)
    | .strlen, a0 :: _, hw, _ => by
      simp [Expr.wfList] at hw
      exact unary_body_safe rfl (execBatch_safe_core a0 hw.1)
    | .len, a0 :: _, hw, _ => by
      intro chunk c ha
      simp [Expr.wfList] at hw
      rw [vecBody]
      exact .bind ha (execBatch_safe_core a0 hw.1 chunk c ha) fun a c1 ha1 hla =>
        .lift ha1 (mapRows_err (fun _ => ExBenign.map exb_getListLength) _ _ hla)
          (fun ys h => (mapRows_len _ _ _ h).trans hla)
    | .json, a0 :: _, hw, _ => by
      intro chunk c ha
      simp [Expr.wfList] at hw
      rw [vecBody]
      refine .bind ha (execBatch_safe_core a0 hw.1 chunk c ha) fun a c1 ha1 hla =>
        .lift ha1 (mapRows_err (fun x => ?_) _ _ hla) (fun ys h => (mapRows_len _ _ _ h).trans hla)
      split <;> first | exact .ok _ | exact .err benign_operandType
    | .subStr, a0 :: a1 :: a2 :: _, hw, _ => by
      intro chunk c ha
      simp [Expr.wfList] at hw
      rw [vecBody]
      refine .ite (.throw ha benign_operandType) (.ite (.throw ha benign_operandType) ?_)
      refine .bind ha (execBatch_safe_core a0 hw.1 chunk c ha) fun vs c1 ha1 h0 => ?_
      refine .bind ha1 (execBatch_safe_core a1 hw.2.1 chunk c1 ha1) fun ss c2 ha2 h1 => ?_
      refine .bind ha2 (execBatch_safe_core a2 hw.2.2.1 chunk c2 ha2) fun ls c3 ha3 h2 => ?_
      exact .lift ha3 (zip3Rows_err (fun _ _ _ => exb_substrKernel) _ _ _ _ h0 h1 h2)
        (fun ys h => (zip3Rows_len _ _ _ _ _ h).trans h0)
    | .split, a0 :: a1 :: _, hw, _ => by
      intro chunk c ha
      simp [Expr.wfList] at hw
      rw [vecBody]
      refine .ite (.throw ha benign_operandType) ?_
      refine .bind ha (execBatch_safe_core a0 hw.1 chunk c ha) fun vs c1 ha1 h0 => ?_
      refine .bind ha1 (execBatch_safe_core a1 hw.2.1 chunk c1 ha1) fun ss c2 ha2 h1 => ?_
      exact .lift ha2 (zipRows_err (fun _ _ => .ok _) _ _ _ h0 h1) (fun ys h => (zipRows_len _ _ _ _ h).trans h0)
    | .cosine, a0 :: a1 :: _, hw, _ => by
      intro chunk c ha
      simp [Expr.wfList] at hw
      rw [vecBody]
      refine .bind ha (execBatch_safe_core a0 hw.1 chunk c ha) fun vs c1 ha1 h0 => ?_
      refine .bind ha1 (execBatch_safe_core a1 hw.2.1 chunk c1 ha1) fun ss c2 ha2 h1 => ?_
      exact .lift ha2 (zipRowsLazy_err (fun _ _ => exb_distanceRow fun _ _ => exb_cosineDistance) _ _ _ h0 h1)
        (fun ys h => (zipRowsLazy_len _ _ _ _ h).trans h0)
    | .l2, a0 :: a1 :: _, hw, _ => by
      intro chunk c ha
      simp [Expr.wfList] at hw
      rw [vecBody]
      refine .bind ha (execBatch_safe_core a0 hw.1 chunk c ha) fun vs c1 ha1 h0 => ?_
      refine .bind ha1 (execBatch_safe_core a1 hw.2.1 chunk c1 ha1) fun ss c2 ha2 h1 => ?_
      exact .lift ha2 (zipRowsLazy_err (fun _ _ => exb_distanceRow fun _ _ => exb_l2Distance) _ _ _ h0 h1)
        (fun ys h => (zipRowsLazy_len _ _ _ _ h).trans h0)
    | .lower, [], _, hn | .upper, [], _, hn | .toInt, [], _, hn | .toFloat, [], _, hn
    | .toStr, [], _, hn | .isInt, [], _, hn | .isFloat, [], _, hn | .strlen, [], _, hn
    | .len, [], _, hn | .json, [], _, hn
    | .subStr, [], _, hn | .subStr, [_], _, hn | .subStr, [_, _], _, hn
    | .split, [], _, hn | .split, [_], _, hn
    | .cosine, [], _, hn | .cosine, [_], _, hn
    | .l2, [], _, hn | .l2, [_], _, hn => by simp [Body.needs] at hn
end

end Vec

/-- THE BATCH EVALUATOR NEVER PANICS: a well-formed expression on one chunk (non-empty unless the
    context is nil), from a context whose cached columns have the chunk's length: as many values as
    pairs, or an error that is neither a Go panic nor unbounded recursion; the context keeps the
    invariant. -/
theorem execBatch_safe (e : Expr) (hwf : e.wf = true) (chunk : List Pair) (c : Ctx)
    (hne : c.present = true → chunk ≠ []) (hcl : ColsLen c chunk.length) :
    (match (execBatch e chunk c).1 with
      | .ok vs => vs.length = chunk.length
      | .error err => err.isPanic = false ∧ err ≠ .outOfFuel) ∧
    ColsLen (execBatch e chunk c).2 chunk.length ∧
    (execBatch e chunk c).2.present = c.present ∧ (execBatch e chunk c).2.enable = c.enable := by
  obtain ⟨h1, h2, h3, h4⟩ := Vec.execBatch_safe_core e hwf chunk c ⟨hne, hcl⟩
  refine ⟨?_, h2, h3, h4⟩
  generalize (execBatch e chunk c).1 = r at h1
  cases r with
  | ok vs => exact h1
  | error err => exact h1

end Kvql.Proofs.RunNoPanic
