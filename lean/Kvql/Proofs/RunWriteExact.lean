/-
  The DELETE shortcut against the REAL evaluator.

  `buildDeletePlan` replaces `delete where f` by the removal of the listed keys when the scan type
  inferred from `f` is MGET and `f` contains no `&` / `and` (C02 `delete_shortcut_exact`, stated for
  evaluators that are exact on `|`, key equality, IN, `<=`, BETWEEN: `Scan.SemExact`).  The engine's
  row evaluator is NOT such an evaluator as it stands: `l | r` is an error when `l` is one, and
  `key between 'a' and 'a'` is an error on every pair.  What holds — and is what the whole-statement
  theorem needs — is exactness on the pairs on which the filter EVALUATES:

      `exec f (k, v)` is a Boolean `b`,  no `&` on the way down,  MGET ks inferred,  k ∈ ks   ⇒   b = true.

  Proof: the verdict `evX v` reads `|` as the disjunction of the operands' verdicts and a BETWEEN atom
  over literals as its documented meaning, and is the engine's verdict "true" everywhere else.  It
  is a `SemExact` evaluator (so `delete_shortcut_exact` applies to it), it holds wherever the engine
  says true, and it is false wherever the engine says `false`.
-/
import Kvql.Proofs.SelectCorrect
import Kvql.Proofs.ScanExact

namespace Kvql.Proofs.RunWrite
open Kvql Kvql.Select Kvql.Refine Generated

/-- the engine's verdict with `|` / `or` read as the disjunction of the operands' verdicts and
    `key between 'lo' and 'hi'` as `lo ≤ key ≤ hi` -/
def evX (v : Bytes) : Expr → Bytes → Bool
  | .binop _ .or l r, k => evX v l k || evX v r k
  | .binop _ .kwOr l r, k => evX v l k || evX v r k
  | .binop _ .between (.field _ .key) (.list _ [.str _ lo, .str _ hi]), k => decide (lo ≤ k) && decide (k ≤ hi)
  | e, k => execTrue v e k

/-! ### inversion of `|` for a `false` result, BETWEEN over literals -/

/-- `l | r` false ⇒ both false -/
theorem or_false_inv {p : Nat} {op : Op} (hop : op = .or ∨ op = .kwOr) {l r : Expr} {kv : Pair}
    (h : exec (.binop p op l r) kv Ctx.off = (.ok (.bool false), Ctx.off)) :
    exec l kv Ctx.off = (.ok (.bool false), Ctx.off) ∧ exec r kv Ctx.off = (.ok (.bool false), Ctx.off) := by
  have key : ((do
      let a ← exec l kv
      let x ← M.lift (asBool a)
      if x = true then Pure.pure (Value.bool true)
      else
        let b ← exec r kv
        let y ← M.lift (asBool b)
        Pure.pure (Value.bool y)) : M Value) Ctx.off = (.ok (.bool false), Ctx.off) := by
    rcases hop with rfl | rfl <;> (rw [exec] at h; exact h)
  obtain ⟨a, c0, ha, h1⟩ := bind_ok_inv key
  have e0 : c0 = Ctx.off := (exec_inert l kv).ctx_eq rfl ha
  subst e0
  obtain ⟨x, c1, hx, h2⟩ := bind_ok_inv h1
  simp only [M.lift_run, Prod.mk.injEq] at hx
  obtain ⟨hx, rfl⟩ := hx
  have ea := asBool_ok hx; subst ea
  cases x with
  | true => simp at h2
  | false =>
    simp only [Bool.false_eq_true, if_false] at h2
    obtain ⟨b, c2, hb, h3⟩ := bind_ok_inv h2
    have e2 : c2 = Ctx.off := (exec_inert r kv).ctx_eq rfl hb
    subst e2
    obtain ⟨y, c3, hy, h4⟩ := bind_ok_inv h3
    simp only [M.lift_run, Prod.mk.injEq] at hy
    obtain ⟨hy, rfl⟩ := hy
    have eb := asBool_ok hy; subst eb
    cases y with
    | true => simp at h4
    | false => exact ⟨ha, hb⟩

/-- `key between 'lo' and 'hi'` false ⇒ the key is not between the literals -/
theorem between_false_inv (p p1 p2 p3 p4 : Nat) (lo hi k v : Bytes)
    (h : exec (.binop p .between (.field p1 .key) (.list p2 [.str p3 lo, .str p4 hi])) ⟨k, v⟩ Ctx.off =
      (.ok (.bool false), Ctx.off)) : ¬ (lo ≤ k ∧ k ≤ hi) := by
  rw [exec] at h
  rw [M.bind_ok (a := Value.bytes k) (c' := Ctx.off) (by rw [exec]; rfl)] at h
  simp only [rt_field, rt_str_ne, if_true, Bool.false_eq_true, if_false] at h
  rw [M.bind_ok (a := Value.bytes lo) (c' := Ctx.off) (by rw [exec]; rfl),
    M.bind_ok (a := Value.bytes hi) (c' := Ctx.off) (by rw [exec]; rfl)] at h
  simp only [M.lift_run, Bool.not_true, betweenKernel, compareBy, Bool.false_eq_true, if_false,
    execStringCompare, convertToByteArray, bind, Except.bind, ordCmp_lt, ordCmp_lte] at h
  by_cases h1 : lo < hi <;> by_cases h2 : lo ≤ k <;> by_cases h3 : k ≤ hi <;> simp [h1, h2, h3] at h
  all_goals (intro hc; first | exact h2 hc.1 | exact h3 hc.2)

/-! ### `key in ('a', …)` over literals, both directions -/

theorem execInItems_step (k : Bytes) (kv : Pair) (c : Ctx) (q : Nat) (d : Bytes) (rest : List Expr) :
    execInItems false (.bytes k) (.str q d :: rest) kv c =
      (if decide (k = d) = true then (.ok (.bool true), c) else execInItems false (.bytes k) rest kv c) := by
  have hc : compareBy false (.bytes k) (.bytes d) .eq = .ok (decide (k = d)) := by
    simp [compareBy, execStringCompare, convertToByteArray, ordCmp_eq]
  rw [execInItems]
  simp only [rt_str_ne, Bool.false_eq_true, if_false]
  rw [M.bind_ok (a := Value.bytes d) (c' := c) (by rw [exec]; rfl), M.bind_run]
  simp only [M.lift_run, hc]
  split <;> rfl

/-- a listed key is found -/
theorem execInItems_literals_conv (k : Bytes) (kv : Pair) (c : Ctx) :
    ∀ (items : List Expr), (Scan.stringItems items).2 = true → k ∈ (Scan.stringItems items).1 →
      execInItems false (.bytes k) items kv c = (.ok (.bool true), c)
  | [], _, h => by simp [Scan.stringItems] at h
  | .str q d :: rest, hs, h => by
    have hs' : (Scan.stringItems rest).2 = true := by simpa [Scan.stringItems] using hs
    rw [execInItems_step]
    by_cases e : k = d
    · simp [e]
    · simp only [e, decide_false, Bool.false_eq_true, if_false]
      apply execInItems_literals_conv k kv c rest hs'
      have : k = d ∨ k ∈ (Scan.stringItems rest).1 := by simpa [Scan.stringItems] using h
      rcases this with h' | h'
      · exact absurd h' e
      · exact h'
  | .binop .. :: rest, hs, _ => by simp [Scan.stringItems] at hs
  | .field .. :: rest, hs, _ => by simp [Scan.stringItems] at hs
  | .not .. :: rest, hs, _ => by simp [Scan.stringItems] at hs
  | .call .. :: rest, hs, _ => by simp [Scan.stringItems] at hs
  | .name .. :: rest, hs, _ => by simp [Scan.stringItems] at hs
  | .ref .. :: rest, hs, _ => by simp [Scan.stringItems] at hs
  | .cycle :: rest, hs, _ => by simp [Scan.stringItems] at hs
  | .num .. :: rest, hs, _ => by simp [Scan.stringItems] at hs
  | .float .. :: rest, hs, _ => by simp [Scan.stringItems] at hs
  | .bool .. :: rest, hs, _ => by simp [Scan.stringItems] at hs
  | .list .. :: rest, hs, _ => by simp [Scan.stringItems] at hs
  | .access .. :: rest, hs, _ => by simp [Scan.stringItems] at hs

/-! ### `evX` against the engine's verdict -/

/-- where the engine says true, `evX` holds -/
theorem evX_of_execTrue (v : Bytes) (e : Expr) (k : Bytes) (h : execTrue v e k = true) : evX v e k = true := by
  fun_induction evX v e k with
  | case1 p l r k ihl ihr =>
    rcases (exec_is_sem v).or_ p l r k h with h1 | h1
    · simp [ihl h1]
    · simp [ihr h1]
  | case2 p l r k ihl ihr =>
    rcases (exec_is_sem v).kwOr p l r k h with h1 | h1
    · simp [ihl h1]
    · simp [ihr h1]
  | case3 p p1 p2 p3 lo p4 hi k =>
    have := (exec_is_sem v).between_ p p1 p2 p3 p4 lo hi k h
    simp [this.1, this.2]
  | case4 => exact h

/-- where the engine says `false`, `evX` does not hold -/
theorem evX_false_of_exec (v : Bytes) (e : Expr) (k : Bytes)
    (h : exec e ⟨k, v⟩ Ctx.off = (.ok (.bool false), Ctx.off)) : evX v e k = false := by
  fun_induction evX v e k with
  | case1 p l r k ihl ihr =>
    obtain ⟨h1, h2⟩ := or_false_inv (.inl rfl) h
    simp [ihl h1, ihr h2]
  | case2 p l r k ihl ihr =>
    obtain ⟨h1, h2⟩ := or_false_inv (.inr rfl) h
    simp [ihl h1, ihr h2]
  | case3 p p1 p2 p3 lo p4 hi k =>
    have := between_false_inv p p1 p2 p3 p4 lo hi k v h
    by_cases h2 : lo ≤ k <;> by_cases h3 : k ≤ hi <;> simp [h2, h3]
    exact this ⟨h2, h3⟩
  | case4 e k _ _ _ =>
    unfold execTrue
    rw [h]

section atoms
variable (v : Bytes)

theorem evX_and (p : Nat) (l r : Expr) (k : Bytes) : evX v (.binop p .and l r) k = execTrue v (.binop p .and l r) k := by
  simp [evX]
theorem evX_kwAnd (p : Nat) (l r : Expr) (k : Bytes) :
    evX v (.binop p .kwAnd l r) k = execTrue v (.binop p .kwAnd l r) k := by
  simp [evX]

end atoms

/-- `evX` is an exact evaluator in the sense of C02 -/
theorem evX_semExact (v : Bytes) : Scan.SemExact (evX v) where
  and_ p l r k h := by
    rw [evX_and] at h
    obtain ⟨h1, h2⟩ := (exec_is_sem v).and_ p l r k h
    exact ⟨evX_of_execTrue v l k h1, evX_of_execTrue v r k h2⟩
  kwAnd p l r k h := by
    rw [evX_kwAnd] at h
    obtain ⟨h1, h2⟩ := (exec_is_sem v).kwAnd p l r k h
    exact ⟨evX_of_execTrue v l k h1, evX_of_execTrue v r k h2⟩
  or_ p l r k h := by simpa [evX] using h
  kwOr p l r k h := by simpa [evX] using h
  false_ p d k := by
    have := (exec_is_sem v).false_ p d k
    simpa [evX] using this
  eq_r p p1 p2 lit k h := (exec_is_sem v).eq_r p p1 p2 lit k (by simpa [evX] using h)
  eq_l p p1 p2 lit k h := (exec_is_sem v).eq_l p p1 p2 lit k (by simpa [evX] using h)
  pre_r p p1 p2 lit k h := (exec_is_sem v).pre_r p p1 p2 lit k (by simpa [evX] using h)
  gt_r p p1 p2 lit k h := (exec_is_sem v).gt_r p p1 p2 lit k (by simpa [evX] using h)
  gt_l p p1 p2 lit k h := (exec_is_sem v).gt_l p p1 p2 lit k (by simpa [evX] using h)
  gte_r p p1 p2 lit k h := (exec_is_sem v).gte_r p p1 p2 lit k (by simpa [evX] using h)
  gte_l p p1 p2 lit k h := (exec_is_sem v).gte_l p p1 p2 lit k (by simpa [evX] using h)
  lt_r p p1 p2 lit k h := (exec_is_sem v).lt_r p p1 p2 lit k (by simpa [evX] using h)
  lt_l p p1 p2 lit k h := (exec_is_sem v).lt_l p p1 p2 lit k (by simpa [evX] using h)
  lte_r p p1 p2 lit k h := (exec_is_sem v).lte_r p p1 p2 lit k (by simpa [evX] using h)
  lte_l p p1 p2 lit k h := (exec_is_sem v).lte_l p p1 p2 lit k (by simpa [evX] using h)
  in_ p p1 p2 items k hs h := (exec_is_sem v).in_ p p1 p2 items k hs (by simpa [evX] using h)
  between_ p p1 p2 p3 p4 lo hi k h := by simpa [evX] using h
  or_conv p l r k h := by simpa [evX] using h
  kwOr_conv p l r k h := by simpa [evX] using h
  eq_r_conv p p1 p2 lit := by
    have : execTrue v (.binop p .eq (.field p1 .key) (.str p2 lit)) lit = true := by
      rw [execTrue_iff, exec_key_eq_r]; simp
    simpa [evX] using this
  eq_l_conv p p1 p2 lit := by
    have : execTrue v (.binop p .eq (.str p1 lit) (.field p2 .key)) lit = true := by
      rw [execTrue_iff, exec_key_eq_l]; simp
    simpa [evX] using this
  lte_r_conv p p1 p2 lit k hk := by
    have : execTrue v (.binop p .lte (.field p1 .key) (.str p2 lit)) k = true := by
      rw [execTrue_iff, exec_key_cmp_r p p1 p2 lit k v .lte .lte rfl, ordCmp_lte]; simp [hk]
    simpa [evX] using this
  gte_l_conv p p1 p2 lit k hk := by
    have : execTrue v (.binop p .gte (.str p1 lit) (.field p2 .key)) k = true := by
      rw [execTrue_iff, exec_key_cmp_l p p1 p2 lit k v .gte .gte rfl, ordCmp_gte]; simp [hk]
    simpa [evX] using this
  in_conv p p1 p2 items k hs hk := by
    have : execTrue v (.binop p .in_ (.field p1 .key) (.list p2 items)) k = true := by
      rw [execTrue_iff, exec]
      rw [M.bind_ok (a := Value.bytes k) (c' := Ctx.off) (by rw [exec]; rfl)]
      simp only [rt_field, Bool.not_true]
      exact execInItems_literals_conv k ⟨k, v⟩ Ctx.off items hs hk
    simpa [evX] using this
  between_conv p p1 p2 p3 p4 lo hi k h1 h2 := by simp [evX, h1, h2]

/-- **the DELETE shortcut is exact on the pairs the filter evaluates on**: `f` without `&` / `and` on the
    way down, MGET `ks` inferred from it, the engine's row evaluator (cache off) gives the Boolean `b`
    on a pair whose key is listed — then `b` is `true`. -/
theorem shortcut_exact_on_evaluable {f : Expr} (hna : Scan.noAndSpine f = true) {ks : List Bytes}
    (hm : Scan.optimizeExpr f = .mget ks) {k v : Bytes} (hk : k ∈ ks) {b : Bool}
    (hx : exec f ⟨k, v⟩ Ctx.off = (.ok (.bool b), Ctx.off)) : b = true := by
  have hev : evX v f k = true := (Scan.delete_shortcut_exact (evX_semExact v) f hna ks hm k).mpr hk
  cases b with
  | true => rfl
  | false => rw [evX_false_of_exec v f k hx] at hev; cases hev

end Kvql.Proofs.RunWrite
