/-
  Proofs for C07 (patched order_plan.go): Go's conversion `float64(i)` of an int64, as modelled
  by `Kvql.Order.f64OfInt`, is exact — hence strictly monotone and finite — for |i| < 2^53.
  This discharges `Spec.Order.ConvOK` for number columns mixing int64/int and float64.
-/
import Kvql.Spec.Order

namespace Kvql.Proofs.OrderConv
open Kvql Kvql.Order

theorem mask_toNat (x : UInt64) : (x &&& 0x7fffffffffffffff).toNat = x.toNat % 2^63 := by
  rw [UInt64.toNat_and]
  have : (0x7fffffffffffffff : UInt64).toNat = 2^63 - 1 := by decide
  rw [this, Nat.and_two_pow_sub_one_eq_mod]

theorem key_pos (m : Nat) (hm : m < 2^63) : f64Key ⟨UInt64.ofNat m⟩ = (m : Int) := by
  unfold f64Key
  simp only [mask_toNat]
  have h1 : (UInt64.ofNat m).toNat = m := by
    simp [UInt64.toNat_ofNat']; omega
  have h2 : ((UInt64.ofNat m) >>> 63 == 1) = false := by
    rw [beq_eq_false_iff_ne]
    intro h
    have := congrArg UInt64.toNat h
    rw [UInt64.toNat_shiftRight, h1] at this
    simp [Nat.shiftRight_eq_div_pow] at this
    omega
  simp only [h1, h2]
  have : m % 2^63 = m := Nat.mod_eq_of_lt hm
  simp [this]

theorem key_neg (m : Nat) (hm : m < 2^63) : f64Key ⟨UInt64.ofNat (0x8000000000000000 + m)⟩ = -(m : Int) := by
  unfold f64Key
  simp only [mask_toNat]
  have h1 : (UInt64.ofNat (0x8000000000000000 + m)).toNat = 2^63 + m := by
    simp [UInt64.toNat_ofNat']; omega
  have h2 : ((UInt64.ofNat (0x8000000000000000 + m)) >>> 63 == 1) = true := by
    rw [beq_iff_eq]
    apply UInt64.toNat_inj.mp
    rw [UInt64.toNat_shiftRight, h1]
    simp [Nat.shiftRight_eq_div_pow]
    omega
  simp only [h1, h2]
  have : (2^63 + m) % 2^63 = m := by omega
  simp [this]

theorem not_nan (m : Nat) (hm : m < 2^64) (h : m % 2^63 ≤ 0x7ff0000000000000) : f64IsNaN ⟨UInt64.ofNat m⟩ = false := by
  unfold f64IsNaN
  have h1 : (UInt64.ofNat m).toNat = m := by
    simp [UInt64.toNat_ofNat']; omega
  simp only [gt_iff_lt, decide_eq_false_iff_not, UInt64.lt_iff_toNat_lt, mask_toNat, h1]
  have : (0x7ff0000000000000 : UInt64).toNat = 0x7ff0000000000000 := by decide
  omega
theorem ratToBits_small (n : Nat) (h0 : 0 < n) (h : n < 2^53) :
    ratToBits n 1 = some ((Nat.log2 n + 1022) * 2^52 + n * 2^(52 - Nat.log2 n)) := by
  have hl1 : Nat.log2 1 = 0 := by decide
  have he : n.log2 < 53 := (Nat.log2_lt (by omega)).mpr h
  have hlo : 2 ^ n.log2 ≤ n := Nat.log2_self_le (by omega)
  have hhi : n < 2 ^ (n.log2 + 1) := Nat.lt_log2_self
  generalize hE : n.log2 = e at *
  have hpow : 2 ^ e * 2 ^ (52 - e) = 2 ^ 52 := by rw [← Nat.pow_add]; congr 1; omega
  have hQlo : 2 ^ 52 ≤ n * 2 ^ (52 - e) := by
    rw [← hpow]; exact Nat.mul_le_mul_right _ hlo
  have hQhi : n * 2 ^ (52 - e) < 2 ^ 53 := by
    have : 2 ^ (e + 1) * 2 ^ (52 - e) = 2 ^ 53 := by rw [← Nat.pow_add]; congr 1; omega
    rw [← this]; exact Nat.mul_lt_mul_of_pos_right hhi (Nat.pow_pos (by decide))
  -- the scaled fraction at k = e - 52 is (n·2^(52-e), 1)
  have hsc : scaled n 1 ((e : Int) - 0 - 52) = (n * 2 ^ (52 - e), 1) := by
    unfold scaled
    by_cases h52 : e = 52
    · subst h52; simp
    · have : ¬ ((e : Int) - 0 - 52 ≥ 0) := by omega
      simp only [this, ↓reduceIte, Nat.shiftLeft_eq]
      congr 2
      congr 1
      omega
  have hexp : ratExp n 1 = (e : Int) - 0 - 52 := by
    unfold ratExp
    simp only [hE, hl1, hsc, Nat.div_one, pow2_52, pow2_53, Int.natCast_zero]
    have a1 : ¬ (n * 2 ^ (52 - e) ≥ 9007199254740992) := by
      have : (2:Nat)^53 = 9007199254740992 := by decide
      omega
    have a2 : ¬ (n * 2 ^ (52 - e) < 4503599627370496) := by
      have : (2:Nat)^52 = 4503599627370496 := by decide
      omega
    simp only [a1, a2, ↓reduceIte]
    have : ¬ ((e : Int) - 0 - 52 < -1074) := by omega
    simp only [this, ↓reduceIte]
  unfold ratToBits roundAt
  rw [hexp]
  simp only [hsc, Nat.div_one, Nat.mod_one, pow2_52]
  have b1 : ((e : Int) - 0 - 52 + 1074).toNat = e + 1022 := by omega
  have p52 : (2:Nat)^52 = 4503599627370496 := by decide
  have p53 : (2:Nat)^53 = 9007199254740992 := by decide
  simp only [b1, Nat.mul_zero]
  have b2 : ¬ ((0:Nat) > 1 ∨ (0 = 1 ∧ n * 2 ^ (52 - e) % 2 = 1)) := by omega
  simp only [b2, ↓reduceIte]
  have b3 : ¬ ((e + 1022) * 4503599627370496 + n * 2 ^ (52 - e) ≥ 0x7ff0000000000000) := by omega
  simp only [b3, ↓reduceIte, p52]

/-- bits of a positive integer below 2^53 -/
def gbits (n : Nat) : Nat := (Nat.log2 n + 1022) * 2^52 + n * 2^(52 - Nat.log2 n)

theorem ratToBits_gbits (n : Nat) (h0 : 0 < n) (h : n < 2^53) : ratToBits n 1 = some (gbits n) :=
  ratToBits_small n h0 h

theorem gbits_bounds (n : Nat) (h0 : 0 < n) (h : n < 2^53) :
    (Nat.log2 n + 1023) * 2^52 ≤ gbits n ∧ gbits n < (Nat.log2 n + 1024) * 2^52 ∧ Nat.log2 n < 53 := by
  have he : n.log2 < 53 := (Nat.log2_lt (by omega)).mpr h
  have hlo : 2 ^ n.log2 ≤ n := Nat.log2_self_le (by omega)
  have hhi : n < 2 ^ (n.log2 + 1) := Nat.lt_log2_self
  unfold gbits
  generalize n.log2 = e at *
  have hpow : 2 ^ e * 2 ^ (52 - e) = 2 ^ 52 := by rw [← Nat.pow_add]; congr 1; omega
  have hQlo : 2 ^ 52 ≤ n * 2 ^ (52 - e) := by
    rw [← hpow]; exact Nat.mul_le_mul_right _ hlo
  have hQhi : n * 2 ^ (52 - e) < 2 ^ 53 := by
    have : 2 ^ (e + 1) * 2 ^ (52 - e) = 2 ^ 53 := by rw [← Nat.pow_add]; congr 1; omega
    rw [← this]; exact Nat.mul_lt_mul_of_pos_right hhi (Nat.pow_pos (by decide))
  have p52 : (2:Nat)^52 = 4503599627370496 := by decide
  have p53 : (2:Nat)^53 = 9007199254740992 := by decide
  omega

theorem gbits_mono (n m : Nat) (h0 : 0 < n) (hnm : n < m) (h : m < 2^53) : gbits n < gbits m := by
  have bn := gbits_bounds n h0 (by omega)
  have bm := gbits_bounds m (by omega) h
  have hle : n.log2 < m.log2 + 1 := (Nat.log2_lt (by omega)).mpr (Nat.lt_trans hnm Nat.lt_log2_self)
  by_cases heq : n.log2 = m.log2
  · unfold gbits
    rw [heq]
    have : n * 2 ^ (52 - m.log2) < m * 2 ^ (52 - m.log2) := Nat.mul_lt_mul_of_pos_right hnm (Nat.pow_pos (by decide))
    omega
  · have hlt : n.log2 + 1 ≤ m.log2 := by omega
    have : (n.log2 + 1024) * 2^52 ≤ (m.log2 + 1023) * 2^52 := Nat.mul_le_mul_right _ (by omega)
    omega

/-- `f64Key (float64(i))` for |i| < 2^53 -/
theorem key_ofInt (i : Int) (h1 : -2^53 < i) (h2 : i < 2^53) :
    f64Key (f64OfInt i) = (if i = 0 then 0 else if i < 0 then -(gbits i.natAbs : Int) else (gbits i.natAbs : Int)) ∧
    f64IsNaN (f64OfInt i) = false := by
  unfold f64OfInt
  by_cases hz : i = 0
  · subst hz
    refine ⟨?_, ?_⟩
    · have := key_pos 0 (by decide); simpa using this
    · have := not_nan 0 (by decide) (by decide); simpa using this
  · have hn0 : 0 < i.natAbs := by omega
    have hn : i.natAbs < 2^53 := by omega
    have b := gbits_bounds _ hn0 hn
    have p52 : (2:Nat)^52 = 4503599627370496 := by decide
    have hg63 : gbits i.natAbs < 2^63 := by omega
    have hbeq : (i == 0) = false := by simp [hz]
    simp only [hbeq, Bool.false_eq_true, ↓reduceIte, ratToBits_gbits _ hn0 hn, hz]
    change _ ∧ _
    by_cases hneg : i < 0
    · simp only [hneg, ↓reduceIte]
      refine ⟨key_neg _ hg63, not_nan _ (by omega) ?_⟩
      have : (9223372036854775808 + gbits i.natAbs) % 2^63 = gbits i.natAbs := by omega
      rw [this]; omega
    · simp only [hneg, ↓reduceIte, Nat.zero_add]
      refine ⟨key_pos _ hg63, not_nan _ (by omega) ?_⟩
      have : gbits i.natAbs % 2^63 = gbits i.natAbs := Nat.mod_eq_of_lt hg63
      rw [this]; omega

open Kvql.Spec.Order in
/-- the conversion int64 → float64 is faithful (strictly monotone, finite) below 2^53 -/
theorem convOK_small : ConvOK (fun i => -2^53 < i ∧ i < 2^53) := by
  have mono : ∀ a b : Int, (-2^53 < a ∧ a < 2^53) → (-2^53 < b ∧ b < 2^53) → a < b →
      f64Key (f64OfInt a) < f64Key (f64OfInt b) := by
    intro a b ha hb hab
    rw [(key_ofInt a ha.1 ha.2).1, (key_ofInt b hb.1 hb.2).1]
    have pa : a ≠ 0 → 0 < gbits a.natAbs := fun h => by
      have := gbits_bounds a.natAbs (by omega) (by omega); omega
    have pb : b ≠ 0 → 0 < gbits b.natAbs := fun h => by
      have := gbits_bounds b.natAbs (by omega) (by omega); omega
    by_cases ha0 : a = 0
    · have := pb (by omega)
      simp only [ha0, ↓reduceIte]
      have hb1 : ¬ b = 0 := by omega
      have hb2 : ¬ b < 0 := by omega
      simp only [hb1, hb2, ↓reduceIte]; omega
    · by_cases hb0 : b = 0
      · have := pa ha0
        have ha2 : a < 0 := by omega
        simp only [hb0, ha0, ha2, ↓reduceIte]; omega
      · have := pa ha0
        have := pb hb0
        simp only [ha0, hb0, ↓reduceIte]
        by_cases han : a < 0
        · by_cases hbn : b < 0
          · have := gbits_mono b.natAbs a.natAbs (by omega) (by omega) (by omega)
            simp only [han, hbn, ↓reduceIte]; omega
          · simp only [han, hbn, ↓reduceIte]; omega
        · have hbn : ¬ b < 0 := by omega
          have := gbits_mono a.natAbs b.natAbs (by omega) (by omega) (by omega)
          simp only [han, hbn, ↓reduceIte]; omega
  refine ⟨?_, fun a ha => (key_ofInt a ha.1 ha.2).2⟩
  intro a b ha hb
  constructor
  · exact mono a b ha hb
  · intro h
    by_cases hab : a < b
    · exact hab
    · exfalso
      by_cases he : a = b
      · subst he; omega
      · have := mono b a hb ha (by omega); omega

end Kvql.Proofs.OrderConv
