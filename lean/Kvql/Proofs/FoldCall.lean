/-
  C04, function calls: a call whose arguments are refined is refined (`call_refines`), over two
  evaluation contexts at once — taken with the empty pair and the nil context it also says that a
  call with literal arguments has the same value on every pair (constant folding).
  One case per function body (`rowBody_refines`): every kernel is indifferent to the Go kind of a
  text (`Rel.*_congr` of ExecVecRel.lean).
-/
import Kvql.Proofs.FoldPure
namespace Kvql
open Generated
namespace Fold

/-- an argument of a call before (`a`, evaluated on `kv`, `c`) and after (`a'`, on `kv'`, `c'`):
    the new one refines the old one, and has the same static type unless the old one is
    Boolean-typed (no function body asks for a Boolean-typed argument) -/
structure ArgOK (kv : Pair) (c : Ctx) (kv' : Pair) (c' : Ctx) (a a' : Expr) : Prop where
  ty : retType a' = retType a ∨ retType a = tyTBOOL
  sem : Refines (ev a' kv' c') (ev a kv c)

theorem run_unary {b : Body} {f : Value → Value} (hb : unaryOf b = some f) (a : Expr) (rest : List Expr) (kv : Pair)
    {c : Ctx} (hc : c.enable = false) :
    run (rowBody b (a :: rest) kv) c = match ev a kv c with
      | .ok v => .ok (f v)
      | .error e => .error e := by
  cases b <;> simp [unaryOf] at hb <;> subst hb <;> rw [rowBody] <;> rw [run_bind (exec_inert a kv) hc] <;>
    simp only [ev] <;> cases run (exec a kv) c <;> rfl

theorem unaryOf_rel_congr {b : Body} {f : Value → Value} (hb : unaryOf b = some f) {v v' : Value} (r : Rel v' v) :
    f v' = f v := by
  cases b <;> simp [unaryOf] at hb <;> subst hb <;>
    simp only [r.toStringV_congr, r.toIntV_congr, r.toFloatV_congr, r.isIntV_congr, r.isFloatV_congr]

theorem run_execArgs_cons (a : Expr) (rest : List Expr) (kv : Pair) {c : Ctx} (hc : c.enable = false) :
    run (execArgs (a :: rest) kv) c = match ev a kv c with
      | .error e => .error e
      | .ok v => match run (execArgs rest kv) c with
        | .error e => .error e
        | .ok vs => .ok (v :: vs) := by
  rw [execArgs, run_bind (exec_inert a kv) hc]
  simp only [ev]
  cases run (exec a kv) c with
  | error e => rfl
  | ok v =>
    simp only []
    rw [run_bind (execArgs_inert rest kv) hc]
    cases run (execArgs rest kv) c <;> rfl

/-- evaluated argument lists, related element by element -/
theorem execArgs_refines {kv : Pair} {c : Ctx} {kv' : Pair} {c' : Ctx} (hc : c.enable = false) (hc' : c'.enable = false) :
    ∀ {args args' : List Expr}, Rows (ArgOK kv c kv' c') args args' →
      ∀ vs, run (execArgs args kv) c = .ok vs →
        ∃ vs', run (execArgs args' kv') c' = .ok vs' ∧ Rows (fun v v' => Rel v' v) vs vs'
  | _, _, .nil, vs, h => by
    simp [execArgs] at h
    subst h
    exact ⟨[], by simp [execArgs], .nil⟩
  | _, _, .cons (a := a) (b := a') (as := rest) (bs := rest') ha hr, vs, h => by
    rw [run_execArgs_cons a rest kv hc] at h
    rw [run_execArgs_cons a' rest' kv' hc']
    cases hx : ev a kv c with
    | error e => simp [hx] at h
    | ok v =>
      obtain ⟨v', hv', rv⟩ := ha.sem v hx
      simp only [hx] at h
      cases hxs : run (execArgs rest kv) c with
      | error e => simp [hxs] at h
      | ok ws =>
        obtain ⟨ws', hws', rws⟩ := execArgs_refines hc hc' hr ws hxs
        simp only [hxs] at h
        cases h
        exact ⟨v' :: ws', by simp [hv', hws'], .cons rv rws⟩

theorem map_congr_rel {β} {f : Value → β} (hf : ∀ v v', Rel v' v → f v' = f v) :
    ∀ {vs vs' : List Value}, Rows (fun v v' => Rel v' v) vs vs' → vs'.map f = vs.map f
  | _, _, .nil => rfl
  | _, _, .cons h hr => by simp [hf _ _ h, map_congr_rel hf hr]

section
variable {kv : Pair} {c : Ctx} {kv' : Pair} {c' : Ctx}

/-- what `ArgOK` gives once the old argument has a value -/
theorem ArgOK.value {a a' : Expr} (h : ArgOK kv c kv' c' a a') {v : Value} (hv : ev a kv c = .ok v) :
    ∃ v', ev a' kv' c' = .ok v' ∧ Rel v' v := h.sem v hv

theorem ArgOK.ty_of_ne {a a' : Expr} (h : ArgOK kv c kv' c' a a') {t : Nat} (ht : retType a = t) (hb : t ≠ tyTBOOL) :
    retType a' = t := by
  rcases h.ty with h1 | h1
  · rw [h1, ht]
  · rw [h1] at ht; exact absurd ht.symm hb

theorem rowBody_refines (hc : c.enable = false) (hc' : c'.enable = false) (b : Body) :
    ∀ {args args' : List Expr}, Rows (ArgOK kv c kv' c') args args' →
      Refines (run (rowBody b args' kv') c') (run (rowBody b args kv) c) := by
  intro args args' h w hw
  cases hu : unaryOf b with
  | some f =>
    cases h with
    | nil => cases b <;> simp [unaryOf] at hu <;> simp [rowBody] at hw
    | cons ha hr =>
      rw [run_unary hu _ _ _ hc] at hw
      rw [run_unary hu _ _ _ hc']
      rename_i a a' rest rest'
      cases hx : ev a kv c with
      | error e => simp [hx] at hw
      | ok v =>
        obtain ⟨v', hv', rv⟩ := ha.value hx
        simp only [hx] at hw
        simp only [hv', unaryOf_rel_congr hu rv]
        exact ⟨w, hw, .refl w⟩
  | none =>
    cases b <;> simp [unaryOf] at hu
    case len =>
      cases h with
      | nil => simp [rowBody] at hw
      | cons ha hr =>
        rename_i a a' rest rest'
        rw [rowBody, run_bind (exec_inert a kv) hc] at hw
        rw [rowBody, run_bind (exec_inert a' kv') hc']
        cases hx : ev a kv c with
        | error e => simp only [ev] at hx; simp [hx] at hw
        | ok v =>
          obtain ⟨v', hv', rv⟩ := ha.value hx
          simp only [ev] at hx hv'
          simp only [hx, run_lift_bind] at hw
          simp only [hv', run_lift_bind, rv.getListLength_congr]
          exact ⟨w, hw, .refl w⟩
    case json =>
      cases h with
      | nil => simp [rowBody] at hw
      | cons ha hr =>
        rename_i a a' rest rest'
        rw [rowBody, run_bind (exec_inert a kv) hc] at hw
        rw [rowBody, run_bind (exec_inert a' kv') hc']
        cases hx : ev a kv c with
        | error e => simp only [ev] at hx; simp [hx] at hw
        | ok v =>
          obtain ⟨v', hv', rv⟩ := ha.value hx
          simp only [ev] at hx hv'
          simp only [hx] at hw
          simp only [hv', rv.convertToByteArray_congr]
          cases hcv : convertToByteArray v with
          | none => simp [hcv] at hw
          | some bs =>
            simp only [hcv, run_pure] at hw ⊢
            exact ⟨w, hw, .refl w⟩
    case subStr =>
      match args, args', h with
      | [], _, .nil => simp [rowBody] at hw
      | [_], _, .cons _ .nil => simp [rowBody] at hw
      | [_, _], _, .cons _ (.cons _ .nil) => simp [rowBody] at hw
      | a0 :: a1 :: a2 :: rest, _, .cons (b := b0) h0 (.cons (b := b1) h1 (.cons (b := b2) (bs := rest') h2 hr)) =>
        rw [rowBody, run_bind (exec_inert a0 kv) hc] at hw
        rw [rowBody, run_bind (exec_inert b0 kv') hc']
        cases hx0 : ev a0 kv c with
        | error e => simp only [ev] at hx0; simp [hx0] at hw
        | ok v0 =>
          obtain ⟨v0', hv0', r0⟩ := h0.value hx0
          simp only [ev] at hx0 hv0'
          simp only [hx0, run_ite, run_throw] at hw
          simp only [hv0', run_ite, run_throw]
          by_cases t1 : retType a1 = tyTNUMBER
          · by_cases t2 : retType a2 = tyTNUMBER
            · have t1' := h1.ty_of_ne t1 (by decide)
              have t2' := h2.ty_of_ne t2 (by decide)
              simp only [t1, t2, bne_self_eq_false, Bool.false_eq_true, if_false] at hw
              simp only [t1', t2', bne_self_eq_false, Bool.false_eq_true, if_false]
              rw [run_bind (exec_inert a1 kv) hc] at hw
              rw [run_bind (exec_inert b1 kv') hc']
              cases hx1 : ev a1 kv c with
              | error e => simp only [ev] at hx1; simp [hx1] at hw
              | ok v1 =>
                obtain ⟨v1', hv1', r1⟩ := h1.value hx1
                simp only [ev] at hx1 hv1'
                simp only [hx1] at hw
                simp only [hv1']
                rw [run_bind (exec_inert a2 kv) hc] at hw
                rw [run_bind (exec_inert b2 kv') hc']
                cases hx2 : ev a2 kv c with
                | error e => simp only [ev] at hx2; simp [hx2] at hw
                | ok v2 =>
                  obtain ⟨v2', hv2', r2⟩ := h2.value hx2
                  simp only [ev] at hx2 hv2'
                  simp only [hx2, run_lift] at hw
                  simp only [hv2', run_lift, r0.toStringV_congr, r1.toIntV_congr, r2.toIntV_congr]
                  exact ⟨w, hw, .refl w⟩
            · simp [t1, t2] at hw
          · simp [t1] at hw
    case split =>
      match args, args', h with
      | [], _, .nil => simp [rowBody] at hw
      | [_], _, .cons _ .nil => simp [rowBody] at hw
      | a0 :: a1 :: rest, _, .cons (b := b0) h0 (.cons (b := b1) (bs := rest') h1 hr) =>
        rw [rowBody, run_bind (exec_inert a0 kv) hc] at hw
        rw [rowBody, run_bind (exec_inert b0 kv') hc']
        cases hx0 : ev a0 kv c with
        | error e => simp only [ev] at hx0; simp [hx0] at hw
        | ok v0 =>
          obtain ⟨v0', hv0', r0⟩ := h0.value hx0
          simp only [ev] at hx0 hv0'
          simp only [hx0, run_ite, run_throw] at hw
          simp only [hv0', run_ite, run_throw]
          by_cases t1 : retType a1 = tyTSTR
          · have t1' := h1.ty_of_ne t1 (by decide)
            simp only [t1, bne_self_eq_false, Bool.false_eq_true, if_false] at hw
            simp only [t1', bne_self_eq_false, Bool.false_eq_true, if_false]
            rw [run_bind (exec_inert a1 kv) hc] at hw
            rw [run_bind (exec_inert b1 kv') hc']
            cases hx1 : ev a1 kv c with
            | error e => simp only [ev] at hx1; simp [hx1] at hw
            | ok v1 =>
              obtain ⟨v1', hv1', r1⟩ := h1.value hx1
              simp only [ev] at hx1 hv1'
              simp only [hx1, run_pure] at hw
              simp only [hv1', run_pure, r0.toStringV_congr, r1.toStringV_congr]
              exact ⟨w, hw, .refl w⟩
          · simp [t1] at hw
    case join =>
      match args, args', h with
      | [], _, .nil => simp [rowBody] at hw
      | a0 :: rest, _, .cons (b := b0) (bs := rest') h0 hr =>
        rw [rowBody] at hw
        rw [rowBody]
        simp only [run_ite, run_throw] at hw ⊢
        by_cases t0 : retType a0 = tyTSTR
        · have t0' := h0.ty_of_ne t0 (by decide)
          simp only [t0, bne_self_eq_false, Bool.false_eq_true, if_false] at hw
          simp only [t0', bne_self_eq_false, Bool.false_eq_true, if_false]
          rw [run_bind (exec_inert a0 kv) hc] at hw
          rw [run_bind (exec_inert b0 kv') hc']
          cases hx0 : ev a0 kv c with
          | error e => simp only [ev] at hx0; simp [hx0] at hw
          | ok v0 =>
            obtain ⟨v0', hv0', r0⟩ := h0.value hx0
            simp only [ev] at hx0 hv0'
            simp only [hx0] at hw
            simp only [hv0']
            rw [run_bind (execArgs_inert rest kv) hc] at hw
            rw [run_bind (execArgs_inert rest' kv') hc']
            cases hxs : run (execArgs rest kv) c with
            | error e => simp [hxs] at hw
            | ok vs =>
              obtain ⟨vs', hvs', rvs⟩ := execArgs_refines hc hc' hr vs hxs
              simp only [hxs, run_pure] at hw
              simp only [hvs', run_pure, r0.toStringV_congr,
                map_congr_rel (f := toStringV) (fun _ _ r => r.toStringV_congr) rvs]
              exact ⟨w, hw, .refl w⟩
        · simp [t0] at hw
    case cosine =>
      match args, args', h with
      | [], _, .nil => simp [rowBody] at hw
      | [_], _, .cons _ .nil => simp [rowBody] at hw
      | a0 :: a1 :: rest, _, .cons (b := b0) h0 (.cons (b := b1) (bs := rest') h1 hr) =>
        rw [rowBody, run_bind (exec_inert a0 kv) hc] at hw
        rw [rowBody, run_bind (exec_inert b0 kv') hc']
        cases hx0 : ev a0 kv c with
        | error e => simp only [ev] at hx0; simp [hx0] at hw
        | ok v0 =>
          obtain ⟨v0', hv0', r0⟩ := h0.value hx0
          simp only [ev] at hx0 hv0'
          simp only [hx0] at hw
          simp only [hv0']
          rw [run_bind (exec_inert a1 kv) hc] at hw
          rw [run_bind (exec_inert b1 kv') hc']
          cases hx1 : ev a1 kv c with
          | error e => simp only [ev] at hx1; simp [hx1] at hw
          | ok v1 =>
            obtain ⟨v1', hv1', r1⟩ := h1.value hx1
            simp only [ev] at hx1 hv1'
            simp only [hx1, run_lift_bind] at hw
            simp only [hv1', run_lift_bind, r0.toFloatList_congr, r1.toFloatList_congr]
            exact ⟨w, hw, .refl w⟩
    case l2 =>
      match args, args', h with
      | [], _, .nil => simp [rowBody] at hw
      | [_], _, .cons _ .nil => simp [rowBody] at hw
      | a0 :: a1 :: rest, _, .cons (b := b0) h0 (.cons (b := b1) (bs := rest') h1 hr) =>
        rw [rowBody, run_bind (exec_inert a0 kv) hc] at hw
        rw [rowBody, run_bind (exec_inert b0 kv') hc']
        cases hx0 : ev a0 kv c with
        | error e => simp only [ev] at hx0; simp [hx0] at hw
        | ok v0 =>
          obtain ⟨v0', hv0', r0⟩ := h0.value hx0
          simp only [ev] at hx0 hv0'
          simp only [hx0] at hw
          simp only [hv0']
          rw [run_bind (exec_inert a1 kv) hc] at hw
          rw [run_bind (exec_inert b1 kv') hc']
          cases hx1 : ev a1 kv c with
          | error e => simp only [ev] at hx1; simp [hx1] at hw
          | ok v1 =>
            obtain ⟨v1', hv1', r1⟩ := h1.value hx1
            simp only [ev] at hx1 hv1'
            simp only [hx1, run_lift_bind] at hw
            simp only [hv1', run_lift_bind, r0.toFloatList_congr, r1.toFloatList_congr]
            exact ⟨w, hw, .refl w⟩
    case floatList =>
      match args, args', h with
      | [], _, .nil =>
        rw [rowBody] at hw ⊢
        exact ⟨w, hw, .refl w⟩
      | a0 :: rest, _, .cons (b := b0) (bs := rest') h0 hr =>
        rw [rowBody, run_bind (exec_inert a0 kv) hc] at hw
        rw [rowBody, run_bind (exec_inert b0 kv') hc']
        cases hx0 : ev a0 kv c with
        | error e => simp only [ev] at hx0; simp [hx0] at hw
        | ok v0 =>
          obtain ⟨v0', hv0', r0⟩ := h0.value hx0
          simp only [ev] at hx0 hv0'
          simp only [hx0] at hw
          simp only [hv0']
          rw [run_bind (execArgs_inert rest kv) hc] at hw
          rw [run_bind (execArgs_inert rest' kv') hc']
          cases hxs : run (execArgs rest kv) c with
          | error e => simp [hxs] at hw
          | ok vs =>
            obtain ⟨vs', hvs', rvs⟩ := execArgs_refines hc hc' hr vs hxs
            simp only [hxs, run_pure] at hw
            simp only [hvs', run_pure, List.map_cons, r0.toFloatV_congr,
              map_congr_rel (f := fun v => toFloatV v F64.zero) (fun _ _ r => r.toFloatV_congr _) rvs]
            exact ⟨w, hw, .refl w⟩
    case intList =>
      match args, args', h with
      | [], _, .nil =>
        rw [rowBody] at hw ⊢
        exact ⟨w, hw, .refl w⟩
      | a0 :: rest, _, .cons (b := b0) (bs := rest') h0 hr =>
        rw [rowBody, run_bind (exec_inert a0 kv) hc] at hw
        rw [rowBody, run_bind (exec_inert b0 kv') hc']
        cases hx0 : ev a0 kv c with
        | error e => simp only [ev] at hx0; simp [hx0] at hw
        | ok v0 =>
          obtain ⟨v0', hv0', r0⟩ := h0.value hx0
          simp only [ev] at hx0 hv0'
          simp only [hx0] at hw
          simp only [hv0']
          rw [run_bind (execArgs_inert rest kv) hc] at hw
          rw [run_bind (execArgs_inert rest' kv') hc']
          cases hxs : run (execArgs rest kv) c with
          | error e => simp [hxs] at hw
          | ok vs =>
            obtain ⟨vs', hvs', rvs⟩ := execArgs_refines hc hc' hr vs hxs
            simp only [hxs, run_pure] at hw
            simp only [hvs', run_pure, List.map_cons, r0.toIntV_congr,
              map_congr_rel (f := fun v => toIntV v 0) (fun _ _ r => r.toIntV_congr _) rvs]
            exact ⟨w, hw, .refl w⟩
    case toList =>
      match args, args', h with
      | [], _, .nil =>
        rw [rowBody] at hw ⊢
        exact ⟨w, hw, .refl w⟩
      | a0 :: rest, _, .cons (b := b0) (bs := rest') h0 hr =>
        rw [rowBody, run_bind (exec_inert a0 kv) hc] at hw
        rw [rowBody, run_bind (exec_inert b0 kv') hc']
        cases hx0 : ev a0 kv c with
        | error e => simp only [ev] at hx0; simp [hx0] at hw
        | ok v0 =>
          obtain ⟨v0', hv0', r0⟩ := h0.value hx0
          simp only [ev] at hx0 hv0'
          simp only [hx0] at hw
          simp only [hv0']
          rw [run_bind (exec_inert a0 kv) hc] at hw
          rw [run_bind (exec_inert b0 kv') hc']
          simp only [hx0] at hw
          simp only [hv0']
          rw [run_bind (execArgs_inert rest kv) hc] at hw
          rw [run_bind (execArgs_inert rest' kv') hc']
          cases hxs : run (execArgs rest kv) c with
          | error e => simp [hxs] at hw
          | ok vs =>
            obtain ⟨vs', hvs', rvs⟩ := execArgs_refines hc hc' hr vs hxs
            simp only [hxs, run_ite, run_pure] at hw
            simp only [hvs', run_ite, run_pure, List.map_cons, r0.toIntV_congr, r0.toFloatV_congr, r0.listUseInt_congr,
              map_congr_rel (f := fun v => toIntV v 0) (fun _ _ r => r.toIntV_congr _) rvs,
              map_congr_rel (f := fun v => toFloatV v F64.zero) (fun _ _ r => r.toFloatV_congr _) rvs]
            exact ⟨w, hw, .refl w⟩
theorem ev_call (p : Nat) (nm : Expr) (args : List Expr) (kv : Pair) (c : Ctx) :
    ev (.call p nm args) kv c =
      match funcNameOf nm with
      | .error e => .error e
      | .ok fname =>
        match lookupFunc fname with
        | none => .error .unknownFunc
        | some fo =>
          if (!fo.varArgs && args.length != fo.numArgs) = true then .error .arity
          else if (fo.varArgs && decide (args.length < fo.numArgs)) = true then .error .arity
          else match fo.body with
            | none => .error (.panic "function body not modelled")
            | some b => run (rowBody b args kv) c := by
  rw [ev, exec]
  cases funcNameOf nm with
  | error e => rfl
  | ok fname =>
    simp only []
    cases lookupFunc fname with
    | none => rfl
    | some fo =>
      simp only [run_ite, run_throw]
      split
      · rfl
      · split
        · rfl
        · cases fo.body <;> rfl

/-- a call whose arguments are refined is refined (the same function, the same arity) -/
theorem call_refines (hc : c.enable = false) (hc' : c'.enable = false) (p p' : Nat) (nm : Expr)
    {args args' : List Expr} (h : Rows (ArgOK kv c kv' c') args args') :
    Refines (ev (.call p' nm args') kv' c') (ev (.call p nm args) kv c) := by
  rw [ev_call, ev_call, ← Rows.length_eq h]
  cases funcNameOf nm with
  | error e => exact .error
  | ok fname =>
    simp only []
    cases lookupFunc fname with
    | none => exact .error
    | some fo =>
      simp only []
      split
      · exact .error
      · split
        · exact .error
        · cases fo.body with
          | none => exact .error
          | some b => exact rowBody_refines hc hc' b h

end

end Fold
end Kvql
