/-
  C18 (4), traffic: what a scan reads from the storage.

  For every scan node, filter (evaluable or not), store, mode, batch size and fault index, every
  entry of the call log of `select *` is
  * for a cursor scan (full / prefix / range): `Cursor`, `Seek`, `Next->end`, or `Next->k` with `k`
    a key of the region — or the ONE key beyond it: the first key, from the seek position on, on
    which the end test fires;
  * for a MultiGet: `Get k` with `k` one of the listed keys;
  * for EmptyResult: nothing at all.
  Also here, for C01/C03: `scan_rows_eq_filter` (both modes return `(store ∩ region).filter P`) and
  `newMultiGetKeys_sorted` (the key list `NewMultiGetPlan` builds is strictly ascending).
-/
import Kvql.Proofs.ScanRows
import Kvql.Proofs.PlanProofsSelect

namespace Kvql.Proofs.Scan

open Kvql Kvql.Storage Kvql.Plans Kvql.Proofs.Plan Kvql.Proofs.Store

/-! ### `Emits` with a postcondition on the value -/

structure EmitsQ (P : Entry → Prop) (Q : α → Prop) (m : M α) : Prop where
  out : ∀ f w, (∃ ext, (m f w).2.log = w.log ++ ext ∧ ∀ e ∈ ext, P e) ∧ (∀ a, (m f w).1 = .ok a → Q a)

theorem EmitsQ.pure {P : Entry → Prop} {Q : α → Prop} (a : α) (h : Q a) : EmitsQ P Q (pure a : M α) :=
  ⟨fun _ w => ⟨⟨[], by simp, by simp⟩, fun b hb => by simp at hb; exact hb ▸ h⟩⟩

theorem EmitsQ.throw {P : Entry → Prop} {Q : α → Prop} (e : Err) : EmitsQ P Q (M.throw e : M α) :=
  ⟨fun _ w => ⟨⟨[], by simp, by simp⟩, fun b hb => by simp at hb⟩⟩

theorem EmitsQ.of_emits {P : Entry → Prop} {m : M α} (h : Emits P m) : EmitsQ P (fun _ => True) m :=
  ⟨fun f w => by
    obtain ⟨ext, h1, h2, _⟩ := h.out f w
    exact ⟨⟨ext, h1, h2⟩, fun _ _ => trivial⟩⟩

theorem EmitsQ.mono {P : Entry → Prop} {Q Q' : α → Prop} {m : M α} (h : EmitsQ P Q m) (hq : ∀ a, Q a → Q' a) :
    EmitsQ P Q' m :=
  ⟨fun f w => ⟨(h.out f w).1, fun a ha => hq a ((h.out f w).2 a ha)⟩⟩

theorem EmitsQ.bind {P : Entry → Prop} {Q1 : α → Prop} {Q : β → Prop} {m : M α} {k : α → M β}
    (hm : EmitsQ P Q1 m) (hk : ∀ a, Q1 a → EmitsQ P Q (k a)) : EmitsQ P Q (m >>= k) := by
  refine ⟨fun f w => ?_⟩
  obtain ⟨⟨e1, h1l, h1p⟩, hq1⟩ := hm.out f w
  simp only [run_bind]
  rcases hmw : m f w with ⟨r, w'⟩
  rw [hmw] at h1l hq1
  cases r with
  | error e => exact ⟨⟨e1, h1l, h1p⟩, fun b hb => by simp at hb⟩
  | ok a =>
    simp only []
    obtain ⟨⟨e2, h2l, h2p⟩, hq2⟩ := (hk a (hq1 a rfl)).out f w'
    refine ⟨⟨e1 ++ e2, by rw [h2l, h1l, List.append_assoc], ?_⟩, hq2⟩
    intro e he
    rcases List.mem_append.mp he with h | h
    · exact h1p e h
    · exact h2p e h

theorem EmitsQ.call {P : Entry → Prop} (c : Call) (h : ∀ b, P ⟨c, b⟩) : EmitsQ P (fun _ => True) (Storage.call c) :=
  EmitsQ.of_emits (Emits.call c h)

/-! ### the keys a cursor standing at `rest` may still hand out -/

/-- the keys up to and including the first one on which the end test fires -/
def allowedKeys (stop : Bytes → Bool) : List Pair → List Bytes
  | [] => []
  | p :: r => if stop p.1 then [p.1] else p.1 :: allowedKeys stop r

theorem allowedKeys_head (stop : Bytes → Bool) (p : Pair) (r : List Pair) : p.1 ∈ allowedKeys stop (p :: r) := by
  simp only [allowedKeys]; split <;> simp

theorem allowedKeys_tail (stop : Bytes → Bool) (p : Pair) (r : List Pair) (h : stop p.1 = false) :
    ∀ k ∈ allowedKeys stop r, k ∈ allowedKeys stop (p :: r) := by
  intro k hk; simp [allowedKeys, h, hk]

/-- an allowed key is a key read before the end test fires, or the first key on which it fires -/
theorem allowedKeys_spec (stop : Bytes → Bool) : ∀ (rest : List Pair) k, k ∈ allowedKeys stop rest →
    (∃ p ∈ rest.takeWhile (fun p => !stop p.1), p.1 = k) ∨
      (rest.find? (fun p => stop p.1)).map (·.1) = some k := by
  intro rest
  induction rest with
  | nil => intro k h; simp [allowedKeys] at h
  | cons p r ih =>
    intro k h
    simp only [allowedKeys] at h
    by_cases hs : stop p.1 = true
    · simp only [hs, if_true, List.mem_singleton] at h
      subst h
      right; simp [hs]
    · have hs' : stop p.1 = false := by simpa using hs
      simp only [hs', Bool.false_eq_true, if_false, List.mem_cons] at h
      rcases h with h | h
      · left; exact ⟨p, by simp [hs'], h.symm⟩
      · rcases ih k h with ⟨q, hq, e⟩ | h'
        · left; exact ⟨q, by simp [hs', hq], e⟩
        · right; simpa [List.find?_cons, hs'] using h'

section cursor
variable (stop : Bytes → Bool) (rest0 : List Pair) (P : Entry → Prop)
  (hnext : ∀ k b, k ∈ allowedKeys stop rest0 → P ⟨.next (some k), b⟩) (hend : ∀ b, P ⟨.next none, b⟩)

/-- everything `rest` may still hand out, `rest0` may hand out -/
def Sub (rest : List Pair) : Prop := ∀ k ∈ allowedKeys stop rest, k ∈ allowedKeys stop rest0

include hnext hend

theorem tq_cursorNext (filter : Filter) : ∀ (rest : List Pair), Sub stop rest0 rest →
    EmitsQ P (fun r => r.2.2 = true ∨ Sub stop rest0 r.2.1) (cursorNext stop filter rest) := by
  intro rest
  induction rest with
  | nil =>
    intro _
    unfold cursorNext
    exact EmitsQ.bind (EmitsQ.call _ hend) (fun _ _ => EmitsQ.pure _ (.inl rfl))
  | cons p r ih =>
    intro hsub
    unfold cursorNext
    refine EmitsQ.bind (EmitsQ.call _ (fun b => hnext p.1 b (hsub _ (allowedKeys_head stop p r)))) (fun _ _ => ?_)
    split
    · exact EmitsQ.pure _ (.inl rfl)
    · rename_i hs
      have hs' : stop p.1 = false := by simpa using hs
      have hsub' : Sub stop rest0 r := fun k hk => hsub k (allowedKeys_tail stop p r hs' k hk)
      split
      · exact EmitsQ.throw _
      · exact EmitsQ.pure _ (.inr hsub')
      · exact ih hsub'

theorem tq_readChunk (i : Nat) : ∀ (rest acc : List Pair), Sub stop rest0 rest →
    EmitsQ P (fun r => r.2.1 = true ∨ Sub stop rest0 r.2.2) (readChunk stop i rest acc) := by
  induction i with
  | zero => intro rest acc hsub; unfold readChunk; exact EmitsQ.pure _ (.inr hsub)
  | succ i ih =>
    intro rest acc hsub
    cases rest with
    | nil =>
      unfold readChunk
      exact EmitsQ.bind (EmitsQ.call _ hend) (fun _ _ => EmitsQ.pure _ (.inl rfl))
    | cons p r =>
      unfold readChunk
      refine EmitsQ.bind (EmitsQ.call _ (fun b => hnext p.1 b (hsub _ (allowedKeys_head stop p r)))) (fun _ _ => ?_)
      split
      · exact EmitsQ.pure _ (.inl rfl)
      · rename_i hs
        have hs' : stop p.1 = false := by simpa using hs
        exact ih r _ (fun k hk => hsub k (allowedKeys_tail stop p r hs' k hk))

theorem tq_cursorBatchLoop (filter : Filter) (bs fuel : Nat) : ∀ (rest ret : List Pair), Sub stop rest0 rest →
    EmitsQ P (fun r => r.2.2 = true ∨ Sub stop rest0 r.2.1) (cursorBatchLoop stop filter bs fuel rest ret) := by
  induction fuel with
  | zero => intro rest ret _; unfold cursorBatchLoop; exact EmitsQ.throw _
  | succ fuel ih =>
    intro rest ret hsub
    unfold cursorBatchLoop
    refine EmitsQ.bind (tq_readChunk stop rest0 P hnext hend bs rest [] hsub) (fun x hx => ?_)
    obtain ⟨chunk, done, rest'⟩ := x
    simp only at hx ⊢
    split
    · split
      · exact EmitsQ.pure _ (.inl rfl)
      · rename_i hd
        have : Sub stop rest0 rest' := by rcases hx with h | h; exact absurd h hd; exact h
        exact ih _ _ this
    · refine EmitsQ.bind (EmitsQ.of_emits (Emits.ofExcept _)) (fun ms _ => ?_)
      split
      · exact EmitsQ.pure _ (.inl rfl)
      · rename_i hd
        have hsub' : Sub stop rest0 rest' := by rcases hx with h | h; exact absurd h hd; exact h
        split
        · exact EmitsQ.pure _ (.inr hsub')
        · exact ih _ _ hsub'

end cursor

/-! ### MultiGet reads listed keys only -/

section mget
variable (K : List Bytes) (P : Entry → Prop) (hget : ∀ k b, k ∈ K → P ⟨.get k, b⟩)
include hget

theorem tq_get (k : Bytes) (hk : k ∈ K) : EmitsQ P (fun _ => True) (Storage.get k) := by
  unfold Storage.get
  exact EmitsQ.bind (EmitsQ.call _ (fun b => hget k b hk))
    (fun _ _ => EmitsQ.bind (EmitsQ.of_emits Emits.getStore) (fun _ _ => EmitsQ.pure _ trivial))

theorem tq_mgetNext (filter : Filter) : ∀ (ks : List Bytes), (∀ k ∈ ks, k ∈ K) →
    EmitsQ P (fun r => ∀ k ∈ r.2, k ∈ K) (mgetNext filter ks) := by
  intro ks
  induction ks with
  | nil => intro _; unfold mgetNext; exact EmitsQ.pure _ (by simp)
  | cons k ks ih =>
    intro hsub
    have hsub' : ∀ k ∈ ks, k ∈ K := fun q hq => hsub q (List.mem_cons_of_mem _ hq)
    unfold mgetNext
    refine EmitsQ.bind (tq_get K P hget k (hsub k List.mem_cons_self)) (fun v _ => ?_)
    split
    · exact ih hsub'
    · split
      · exact EmitsQ.throw _
      · exact EmitsQ.pure _ hsub'
      · exact ih hsub'

theorem tq_mgetReadChunk (i : Nat) : ∀ (ks : List Bytes) (acc : List Pair), (∀ k ∈ ks, k ∈ K) →
    EmitsQ P (fun r => ∀ k ∈ r.2.2, k ∈ K) (mgetReadChunk i ks acc) := by
  induction i with
  | zero => intro ks acc hsub; unfold mgetReadChunk; exact EmitsQ.pure _ hsub
  | succ i ih =>
    intro ks acc hsub
    cases ks with
    | nil => unfold mgetReadChunk; exact EmitsQ.pure _ (by simp)
    | cons k ks =>
      have hsub' : ∀ k ∈ ks, k ∈ K := fun q hq => hsub q (List.mem_cons_of_mem _ hq)
      unfold mgetReadChunk
      refine EmitsQ.bind (tq_get K P hget k (hsub k List.mem_cons_self)) (fun v _ => ?_)
      split
      · exact ih _ _ hsub'
      · exact ih _ _ hsub'

theorem tq_mgetBatchLoop (filter : Filter) (bs fuel : Nat) : ∀ (ks : List Bytes) (ret : List Pair),
    (∀ k ∈ ks, k ∈ K) → EmitsQ P (fun r => ∀ k ∈ r.2, k ∈ K) (mgetBatchLoop filter bs fuel ks ret) := by
  induction fuel with
  | zero => intro ks ret _; unfold mgetBatchLoop; exact EmitsQ.throw _
  | succ fuel ih =>
    intro ks ret hsub
    unfold mgetBatchLoop
    refine EmitsQ.bind (tq_mgetReadChunk K P hget bs ks [] hsub) (fun x hx => ?_)
    obtain ⟨chunk, fin, ks'⟩ := x
    simp only at hx ⊢
    split
    · refine EmitsQ.bind (EmitsQ.pure (Q := fun _ => True) _ trivial) (fun ret' _ => ?_)
      split
      · exact EmitsQ.pure _ hx
      · exact ih _ _ hx
    · refine EmitsQ.bind (EmitsQ.of_emits (Emits.ofExcept _)) (fun ms _ => ?_)
      refine EmitsQ.bind (EmitsQ.pure (Q := fun _ => True) _ trivial) (fun ret' _ => ?_)
      split
      · exact EmitsQ.pure _ hx
      · exact ih _ _ hx

end mget

/-! ### the scan plans -/

/-- what a `select *` over the node, on the store, may leave in the call log -/
def TrafficOK (node : ScanNode) (store : Store) (e : Entry) : Prop :=
  match e.call with
  | .next (some k) => node.isCursorScan = true ∧ k ∈ allowedKeys node.stop (node.startRest store)
  | .next none => node.isCursorScan = true
  | .cursor => node.isCursorScan = true
  | .seek _ => node.isCursorScan = true
  | .get k => ∃ ks, node = .mget ks ∧ k ∈ ks
  | _ => False

/-- the state of the scan is consistent with the snapshot taken at `Init` -/
def Inv (node : ScanNode) (store : Store) (st : ScanSt) : Prop :=
  match node with
  | .mget ks => ∀ k ∈ st.keysLeft, k ∈ ks
  | .empty => True
  | _ => st.done = true ∨ ∀ c, st.iter = some c → Sub node.stop (node.startRest store) c.rest

theorem inv_cursor {node : ScanNode} (hc : node.isCursorScan = true) (store : Store) (st : ScanSt) :
    Inv node store st ↔ (st.done = true ∨ ∀ c, st.iter = some c → Sub node.stop (node.startRest store) c.rest) := by
  cases node <;> simp [ScanNode.isCursorScan] at hc <;> rfl

theorem tq_scanNext (node : ScanNode) (store : Store) (filter : Filter) (st : ScanSt) (hinv : Inv node store st) :
    EmitsQ (TrafficOK node store) (fun r => Inv node store r.2) (node.next filter st) := by
  by_cases hc : node.isCursorScan = true
  · rw [inv_cursor hc] at hinv
    have hnext : ∀ k b, k ∈ allowedKeys node.stop (node.startRest store) →
        TrafficOK node store ⟨.next (some k), b⟩ := fun k b hk => ⟨hc, hk⟩
    have hend : ∀ b, TrafficOK node store ⟨.next none, b⟩ := fun _ => hc
    have key : EmitsQ (TrafficOK node store) (fun r => Inv node store r.2)
        (if st.done then (pure (none, st) : M (Option Pair × ScanSt)) else
          match st.iter with
          | none => M.throw .nilCursor
          | some c => do
            let (r, rest, done) ← cursorNext node.stop filter c.rest
            pure (r, { st with iter := some { c with rest := rest }, done := done })) := by
      split
      · rename_i hd
        exact EmitsQ.pure _ ((inv_cursor hc store st).mpr (.inl hd))
      · rename_i hd
        split
        · exact EmitsQ.throw _
        · rename_i c hiter
          have hsub : Sub node.stop (node.startRest store) c.rest := by
            rcases hinv with h | h
            · exact absurd h hd
            · exact h c hiter
          refine EmitsQ.bind (tq_cursorNext node.stop _ _ hnext hend filter c.rest hsub) (fun x hx => ?_)
          obtain ⟨r, rest, done⟩ := x
          refine EmitsQ.pure _ ((inv_cursor hc store _).mpr ?_)
          rcases hx with h | h
          · exact .inl h
          · exact .inr (fun c' hc' => by simp only [Option.some.injEq] at hc'; subst hc'; exact h)
    cases node <;> simp [ScanNode.isCursorScan] at hc <;> exact key
  · cases node with
    | full => simp [ScanNode.isCursorScan] at hc
    | «prefix» p => simp [ScanNode.isCursorScan] at hc
    | range a b => simp [ScanNode.isCursorScan] at hc
    | empty => exact EmitsQ.pure _ trivial
    | mget ks =>
      have hget : ∀ k b, k ∈ ks → TrafficOK (.mget ks) store ⟨.get k, b⟩ := fun k b hk => ⟨ks, rfl, hk⟩
      unfold ScanNode.next
      exact EmitsQ.bind (tq_mgetNext ks _ hget filter st.keysLeft hinv) (fun x hx => EmitsQ.pure _ hx)

theorem tq_scanBatch (node : ScanNode) (store : Store) (filter : Filter) (bs : Nat) (st : ScanSt)
    (hinv : Inv node store st) :
    EmitsQ (TrafficOK node store) (fun r => Inv node store r.2) (node.batch filter bs st) := by
  by_cases hc : node.isCursorScan = true
  · rw [inv_cursor hc] at hinv
    have hnext : ∀ k b, k ∈ allowedKeys node.stop (node.startRest store) →
        TrafficOK node store ⟨.next (some k), b⟩ := fun k b hk => ⟨hc, hk⟩
    have hend : ∀ b, TrafficOK node store ⟨.next none, b⟩ := fun _ => hc
    have key : EmitsQ (TrafficOK node store) (fun r => Inv node store r.2)
        (if st.done then (pure ([], st) : M (List Pair × ScanSt)) else
          match st.iter with
          | none => M.throw .nilCursor
          | some c => do
            let (rows, rest, done) ← cursorBatchLoop node.stop filter bs (c.rest.length + 1) c.rest []
            pure (rows, { st with iter := some { c with rest := rest }, done := done })) := by
      split
      · rename_i hd
        exact EmitsQ.pure _ ((inv_cursor hc store st).mpr (.inl hd))
      · rename_i hd
        split
        · exact EmitsQ.throw _
        · rename_i c hiter
          have hsub : Sub node.stop (node.startRest store) c.rest := by
            rcases hinv with h | h
            · exact absurd h hd
            · exact h c hiter
          refine EmitsQ.bind (tq_cursorBatchLoop node.stop _ _ hnext hend filter bs _ c.rest [] hsub) (fun x hx => ?_)
          obtain ⟨r, rest, done⟩ := x
          refine EmitsQ.pure _ ((inv_cursor hc store _).mpr ?_)
          rcases hx with h | h
          · exact .inl h
          · exact .inr (fun c' hc' => by simp only [Option.some.injEq] at hc'; subst hc'; exact h)
    cases node <;> simp [ScanNode.isCursorScan] at hc <;> exact key
  · cases node with
    | full => simp [ScanNode.isCursorScan] at hc
    | «prefix» p => simp [ScanNode.isCursorScan] at hc
    | range a b => simp [ScanNode.isCursorScan] at hc
    | empty => exact EmitsQ.pure _ trivial
    | mget ks =>
      have hget : ∀ k b, k ∈ ks → TrafficOK (.mget ks) store ⟨.get k, b⟩ := fun k b hk => ⟨ks, rfl, hk⟩
      unfold ScanNode.batch
      exact EmitsQ.bind (tq_mgetBatchLoop ks _ hget filter bs _ st.keysLeft [] hinv) (fun x hx => EmitsQ.pure _ hx)

/-! ### `Init`, polls, the whole run -/

/-- every entry of the log satisfies `P` -/
def AllLog (P : Entry → Prop) (w : World) : Prop := ∀ e ∈ w.log, P e

theorem EmitsQ.allLog {P : Entry → Prop} {Q : α → Prop} {m : M α} (h : EmitsQ P Q m) (f : Option Nat) (w : World)
    (hw : AllLog P w) : AllLog P (m f w).2 ∧ ∀ a, (m f w).1 = .ok a → Q a := by
  obtain ⟨⟨ext, hl, hp⟩, hq⟩ := h.out f w
  refine ⟨?_, hq⟩
  intro e he
  rw [hl] at he
  rcases List.mem_append.mp he with h' | h'
  · exact hw e h'
  · exact hp e h'

theorem call_spec (c : Call) (f : Option Nat) (w : World) :
    (Storage.call c f w).2.store = w.store ∧ ∃ b, (Storage.call c f w).2.log = w.log ++ [⟨c, b⟩] := by
  rw [run_call]
  split
  · exact ⟨rfl, true, rfl⟩
  · exact ⟨rfl, false, rfl⟩

theorem cursor_spec (f : Option Nat) (w : World) :
    (cursor f w).2.store = w.store ∧ (∃ b, (cursor f w).2.log = w.log ++ [⟨.cursor, b⟩]) ∧
      ∀ c, (cursor f w).1 = .ok c → c = ⟨w.store, w.store⟩ := by
  obtain ⟨h1, b, h2⟩ := call_spec .cursor f w
  simp only [cursor, run_bind]
  rcases hc : Storage.call .cursor f w with ⟨r, w1⟩
  rw [hc] at h1 h2
  cases r with
  | error e => exact ⟨h1, ⟨b, h2⟩, fun c hc' => by simp at hc'⟩
  | ok u =>
    simp only [run_getStore, run_pure]
    refine ⟨h1, ⟨b, h2⟩, fun c hc' => ?_⟩
    simp only [Except.ok.injEq] at hc'
    simp only at h1
    rw [← hc', h1]

theorem seek_spec (c : Cursor) (a : Bytes) (f : Option Nat) (w : World) :
    (c.seek a f w).2.store = w.store ∧ (∃ b, (c.seek a f w).2.log = w.log ++ [⟨.seek a, b⟩]) ∧
      ∀ c', (c.seek a f w).1 = .ok c' → c' = { c with rest := Store.seek c.snap a } := by
  obtain ⟨h1, b, h2⟩ := call_spec (.seek a) f w
  simp only [Cursor.seek, run_bind]
  rcases hc : Storage.call (.seek a) f w with ⟨r, w1⟩
  rw [hc] at h1 h2
  cases r with
  | error e => exact ⟨h1, ⟨b, h2⟩, fun c hc' => by simp at hc'⟩
  | ok u =>
    simp only [run_pure]
    exact ⟨h1, ⟨b, h2⟩, fun c' hc' => by simp only [Except.ok.injEq] at hc'; exact hc'.symm⟩

theorem allLog_snoc {P : Entry → Prop} {w w' : World} (hw : AllLog P w) (e : Entry) (he : P e)
    (hl : w'.log = w.log ++ [e]) : AllLog P w' := by
  intro x hx
  rw [hl] at hx
  rcases List.mem_append.mp hx with h | h
  · exact hw x h
  · simp at h; subst h; exact he

/-- `Init` of a scan on a world whose store is `store`: only `Cursor` / `Seek` are issued, and the
    cursor then stands at the start of the region over a snapshot of `store` -/
theorem init_spec (node : ScanNode) (store : Store) (st : ScanSt) (hinv : ∀ ks, node = .mget ks → Inv node store st)
    (f : Option Nat) (w : World) (hw : w.store = store) (hlog : AllLog (TrafficOK node store) w) :
    AllLog (TrafficOK node store) (node.init st f w).2 ∧ (node.init st f w).2.store = store ∧
      ∀ st', (node.init st f w).1 = .ok st' → Inv node store st' := by
  have seekCase : ∀ (a : Bytes), node.isCursorScan = true → node.startRest store = store.seek a →
      let m : M ScanSt := (do
        let c ← cursor
        let c ← c.seek a
        pure { st with iter := some c, done := false })
      AllLog (TrafficOK node store) (m f w).2 ∧ (m f w).2.store = store ∧
        ∀ st', (m f w).1 = .ok st' → Inv node store st' := by
    intro a hc hstart
    obtain ⟨c1, ⟨b1, c2⟩, c3⟩ := cursor_spec f w
    simp only [run_bind]
    rcases hcur : cursor f w with ⟨r, w1⟩
    rw [hcur] at c1 c2 c3
    have hl1 : AllLog (TrafficOK node store) w1 := allLog_snoc hlog ⟨.cursor, b1⟩ hc c2
    cases r with
    | error e => exact ⟨hl1, by rw [← hw]; exact c1, fun st' h => by simp at h⟩
    | ok c =>
      have hc' := c3 c rfl
      simp only []
      obtain ⟨s1, ⟨b2, s2⟩, s3⟩ := seek_spec c a f w1
      rcases hsk : c.seek a f w1 with ⟨r2, w2⟩
      rw [hsk] at s1 s2 s3
      have hl2 : AllLog (TrafficOK node store) w2 := allLog_snoc hl1 ⟨.seek a, b2⟩ hc s2
      cases r2 with
      | error e => exact ⟨hl2, by rw [← hw, ← c1]; exact s1, fun st' h => by simp at h⟩
      | ok c'' =>
        have := s3 c'' rfl
        simp only [run_pure]
        refine ⟨hl2, by rw [← hw, ← c1]; exact s1, fun st' h => ?_⟩
        simp only [Except.ok.injEq] at h
        rw [inv_cursor hc, ← h]
        right
        intro c0 hc0
        simp only [Option.some.injEq] at hc0
        subst hc0
        rw [this, hc', hw, ← hstart]
        exact fun k hk => hk
  cases node with
  | mget ks => exact ⟨hlog, hw, fun st' h => by simp [ScanNode.init] at h; rw [← h]; exact hinv ks rfl⟩
  | empty => exact ⟨hlog, hw, fun _ _ => trivial⟩
  | full => exact seekCase [] rfl rfl
  | «prefix» p => exact seekCase p rfl rfl
  | range a b =>
    cases a with
    | some a => exact seekCase a rfl rfl
    | none =>
      have hc : (ScanNode.range none b).isCursorScan = true := rfl
      obtain ⟨c1, ⟨b1, c2⟩, c3⟩ := cursor_spec f w
      simp only [ScanNode.init, run_bind]
      rcases hcur : cursor f w with ⟨r, w1⟩
      rw [hcur] at c1 c2 c3
      have hl1 : AllLog (TrafficOK (.range none b) store) w1 := allLog_snoc hlog ⟨.cursor, b1⟩ hc c2
      cases r with
      | error e => exact ⟨hl1, by rw [← hw]; exact c1, fun st' h => by simp at h⟩
      | ok c =>
        have hc' := c3 c rfl
        simp only [run_pure]
        refine ⟨hl1, by rw [← hw]; exact c1, fun st' h => ?_⟩
        simp only [Except.ok.injEq] at h
        rw [inv_cursor hc, ← h]
        right
        intro c0 hc0
        simp only [Option.some.injEq] at hc0
        subst hc0
        rw [hc', hw]
        exact fun k hk => hk

theorem drain_traffic (node : ScanNode) (store : Store) (filter : Filter) (kind : PollKind) (bs fuel : Nat) :
    ∀ (st : ScanSt) (acc : List (List Row)) (f : Option Nat) (w : World), Inv node store st →
    AllLog (TrafficOK node store) w →
    AllLog (TrafficOK node store) (drain kind bs fuel (.select node filter st) acc f w).2 := by
  induction fuel with
  | zero => intro st acc f w _ hw; exact hw
  | succ fuel ih =>
    intro st acc f w hinv hw
    cases kind with
    | next =>
      obtain ⟨hl, hq⟩ := (tq_scanNext node store filter st hinv).allLog f w hw
      simp only [drain, Plan.poll]
      rcases hn : node.next filter st f w with ⟨r, w'⟩
      rw [hn] at hl hq
      cases r with
      | error e => exact hl
      | ok x =>
        obtain ⟨r, st'⟩ := x
        cases r with
        | none => exact hl
        | some p => exact ih st' _ f w' (hq _ rfl) hl
    | batch =>
      obtain ⟨hl, hq⟩ := (tq_scanBatch node store filter bs st hinv).allLog f w hw
      simp only [drain, Plan.poll]
      rcases hn : node.batch filter bs st f w with ⟨r, w'⟩
      rw [hn] at hl hq
      cases r with
      | error e => exact hl
      | ok x =>
        obtain ⟨rows, st'⟩ := x
        cases rows with
        | nil => exact hl
        | cons p ps => exact ih st' _ f w' (hq _ rfl) hl

/-- TRAFFIC: every entry of the call log of a `select *` run is allowed by the scan node -/
theorem select_traffic (node : ScanNode) (filter : Filter) (kind : PollKind) (bs : Nat) (f : Option Nat)
    (store : Store) : ∀ e ∈ (run (.select node filter) kind bs f store).2.log, TrafficOK node store e := by
  have hinv0 : ∀ ks, node = .mget ks → Inv node store node.newState := by
    intro ks h; subst h; exact fun k hk => hk
  have h0 : AllLog (TrafficOK node store) { store := store } := by intro e he; simp at he
  obtain ⟨hl1, hs1, hq1⟩ := init_spec node store node.newState hinv0 f { store := store } rfl h0
  simp only [run, runG, buildPlan_select, run_bind]
  rcases hi1 : node.init node.newState f { store := store } with ⟨r1, w1⟩
  rw [hi1] at hl1 hs1 hq1
  cases r1 with
  | error e => exact hl1
  | ok st1 =>
    simp only []
    obtain ⟨hl2, hs2, hq2⟩ := init_spec node store st1 (fun ks _ => hq1 st1 rfl) f w1 hs1 hl1
    rcases hi2 : node.init st1 f w1 with ⟨r2, w2⟩
    rw [hi2] at hl2 hs2 hq2
    cases r2 with
    | error e => exact hl2
    | ok st2 =>
      simp only [run_pure]
      exact drain_traffic node store filter kind bs _ st2 [] f w2 (hq2 st2 rfl) hl2

/-- the one key beyond the region a cursor scan may read: the first key, from the seek position
    on, on which the end test fires (range: the first key `> End`; prefix: the first key `≥ prefix`
    that does not have the prefix; full scan: none) -/
def firstBeyond (node : ScanNode) (store : Store) : Option Bytes :=
  ((node.startRest store).find? (fun p => node.stop p.1)).map (·.1)

/-- C18 (4): the keys handed out by `Next` lie in the region of the scan node, except possibly the
    one key `firstBeyond`; `Get` asks for listed keys only; no write is issued; an EmptyResult plan
    issues nothing.  Every node, filter, store, mode, batch size, fault index. -/
theorem scan_reads_region (node : ScanNode) (filter : Filter) (kind : PollKind) (bs : Nat) (f : Option Nat)
    (store : Store) (hs : store.Sorted) :
    (∀ e ∈ (run (.select node filter) kind bs f store).2.log,
      (∀ k, e.call = .next (some k) → node.inRegion k = true ∨ firstBeyond node store = some k) ∧
      (∀ k, e.call = .get k → node.inRegion k = true ∧ ∃ ks, node = .mget ks) ∧
      (e.call = .cursor ∨ (∃ a, e.call = .seek a) ∨ (∃ k, e.call = .next k) → node.isCursorScan = true)) ∧
    (node = .empty → (run (.select node filter) kind bs f store).2.log = []) := by
  have ht := select_traffic node filter kind bs f store
  refine ⟨fun e he => ?_, fun hempty => ?_⟩
  · have h := ht e he
    refine ⟨fun k hk => ?_, fun k hk => ?_, fun hk => ?_⟩
    · simp only [TrafficOK, hk] at h
      obtain ⟨hc, hal⟩ := h
      rcases allowedKeys_spec node.stop _ k hal with ⟨p, hp, e⟩ | h'
      · left
        rw [region_of_cursor_scan node hc hs] at hp
        rw [← e]
        exact (List.mem_filter.mp hp).2
      · right; exact h'
    · simp only [TrafficOK, hk] at h
      obtain ⟨ks, hn, hmem⟩ := h
      exact ⟨by subst hn; simpa [ScanNode.inRegion] using hmem, ks, hn⟩
    · rcases hk with hk | ⟨a, hk⟩ | ⟨k, hk⟩
      · simpa [TrafficOK, hk] using h
      · simpa [TrafficOK, hk] using h
      · cases k with
        | none => simpa [TrafficOK, hk] using h
        | some k => simp only [TrafficOK, hk] at h; exact h.1
  · subst hempty
    cases hl : (run (.select .empty filter) kind bs f store).2.log with
    | nil => rfl
    | cons e r =>
      have h := ht e (by rw [hl]; exact List.mem_cons_self)
      unfold TrafficOK at h
      split at h <;> simp_all [ScanNode.isCursorScan]

/-- C01 (2) / C03: for every scan node, both iteration modes return exactly the stored pairs of the
    node's region on which the filter is true, in key order, once each — for every store, every
    batch size ≥ 1, when the filter evaluates on the stored pairs of the region -/
theorem scan_rows_eq_filter (node : ScanNode) (hwf : ScanNode.WellFormed node) (filter : Filter) (store : Store)
    (hs : store.Sorted) (hev : ∀ p ∈ store, node.inRegion p.1 = true → Evaluable filter p)
    (bs : Nat) (hbs : 1 ≤ bs) :
    rowsOf (run (.select node filter) .next bs none store) =
        ((store.filter (fun p => node.inRegion p.1)).filter (accepts filter)).map Row.pair ∧
    rowsOf (run (.select node filter) .batch bs none store) =
        ((store.filter (fun p => node.inRegion p.1)).filter (accepts filter)).map Row.pair :=
  ⟨(scan_rows node hwf filter store hs hev .next bs hbs).2.1, (scan_rows node hwf filter store hs hev .batch bs hbs).2.1⟩

/-! ### `NewMultiGetPlan`: the key list is strictly ascending and has the same members -/

theorem mem_insertKey (k : Bytes) : ∀ (l : List Bytes) (x : Bytes), x ∈ insertKey k l ↔ x = k ∨ x ∈ l := by
  intro l
  induction l with
  | nil => intro x; simp [insertKey]
  | cons a r ih =>
    intro x
    simp only [insertKey]
    split
    · simp only [List.mem_cons, ih]
      constructor
      · rintro (h | h | h) <;> simp [h]
      · rintro (h | h | h) <;> simp [h]
    · split
      · rename_i _ heq
        subst heq
        simp only [List.mem_cons]
        constructor
        · rintro (h | h) <;> simp [h]
        · rintro (h | h | h) <;> simp [h]
      · simp [List.mem_cons]

theorem insertKey_sorted (k : Bytes) : ∀ (l : List Bytes), l.Pairwise (· < ·) → (insertKey k l).Pairwise (· < ·) := by
  intro l
  induction l with
  | nil => intro _; simp [insertKey]
  | cons a r ih =>
    intro h
    rw [List.pairwise_cons] at h
    simp only [insertKey]
    split
    · rename_i hlt
      rw [List.pairwise_cons]
      refine ⟨fun x hx => ?_, ih h.2⟩
      rcases (mem_insertKey k r x).mp hx with e | hx
      · subst e; exact hlt
      · exact h.1 x hx
    · rename_i hnlt
      split
      · exact List.pairwise_cons.mpr h
      · rename_i hne
        have hka : k < a := key_lt_of_not a k hnlt (fun e => hne e.symm) |> fun h' => h'
        rw [List.pairwise_cons]
        refine ⟨fun x hx => ?_, List.pairwise_cons.mpr h⟩
        rcases List.mem_cons.mp hx with e | hx
        · subst e; exact hka
        · exact key_lt_trans hka (h.1 x hx)

theorem newMultiGetKeys_sorted (keys : List Bytes) : (newMultiGetKeys keys).Pairwise (· < ·) := by
  induction keys with
  | nil => simp [newMultiGetKeys]
  | cons k r ih => exact insertKey_sorted k _ ih

theorem mem_newMultiGetKeys (keys : List Bytes) (x : Bytes) : x ∈ newMultiGetKeys keys ↔ x ∈ keys := by
  induction keys with
  | nil => simp [newMultiGetKeys]
  | cons k r ih =>
    simp only [newMultiGetKeys, List.foldr_cons, List.mem_cons] at ih ⊢
    rw [mem_insertKey, ih]

/-- the node `NewMultiGetPlan` builds satisfies the hypothesis of the theorems above -/
theorem newMultiGet_wellFormed (keys : List Bytes) : ScanNode.WellFormed (.mget (newMultiGetKeys keys)) :=
  newMultiGetKeys_sorted keys

/-! non-vacuity -/

example : newMultiGetKeys [[98], [97], [98], [97, 98]] = [[97], [97, 98], [98]] := by decide

/-- `select * where key ^= 'a'` in batch mode over {a, ab, b, c}: `b` is read (the one key beyond),
    `c` is not -/
example :
    ((run (.select (.prefix [97]) (fun _ => .ok true)) .batch 2 none
      [([97], [1]), ([97, 98], [2]), ([98], [3]), ([99], [4])]).2.log.map (·.call)) =
      [.cursor, .seek [97], .cursor, .seek [97], .next (some [97]), .next (some [97, 98]), .next (some [98])] ∧
    firstBeyond (.prefix [97]) [([97], [1]), ([97, 98], [2]), ([98], [3]), ([99], [4])] = some [98] := by
  decide

end Kvql.Proofs.Scan
