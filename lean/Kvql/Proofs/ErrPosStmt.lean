/-
  C17, positions in the tree: the statement level.  `parse_ok`: every `Pos` stored in the statement
  `Parse` returns is the offset of an input token, with exactly two synthesised exceptions, both the
  zero value of a Go struct field and both only in an `AllFields` statement:
    * the KEY and VALUE field nodes `parseSelect` builds for `select *` (`&FieldExpr{Field: KeyKW}`),
      and the copies of them inside alias references to the names `KEY` / `VALUE`;
    * `SelectStmt.Pos` of a bare `where …` (`&SelectStmt{AllFields: true}`).
-/
import Kvql.Proofs.ErrPosCheck

set_option linter.unusedSectionVars false

namespace Kvql.Proofs.ErrPos

open Kvql Kvql.Parser Kvql.Generated

/-- the positions a KEY / VALUE node and the statement itself may carry: a token offset, or the zero
    value when the statement is `AllFields` -/
def Fq (T : Nat → Prop) (all : Bool) (p : Nat) : Prop := T p ∨ (p = 0 ∧ all = true)

theorem Fq.of {T : Nat → Prop} (all : Bool) : ∀ p, T p → Fq T all p := fun _ h => Or.inl h

section
variable (T F : Nat → Prop) (hTF : ∀ p, T p → F p) (pf : Bytes → F64)

theorem Good.node {e : Expr} (hTF : ∀ p, T p → F p) (h : Good T e) : NodeOK T F e :=
  h.1.mono (fun _ h => h) hTF

theorem limitLoop_ok : ∀ (fuel : Nat) (acc : List Int64) {ts : Toks}, TokS T ts →
    Suc (limitLoop fuel acc ts) (fun p => TokS T p.2) := by
  intro fuel
  induction fuel with
  | zero => intros; simp [limitLoop]
  | succ n ih =>
    intro acc ts h
    unfold limitLoop
    split
    · exact TokS.nil
    · rename_i t rest
      split
      · exact ih _ h.tail
      · split
        · split
          · simp
          · rename_i t2 r2
            split
            · simp
            · exact ih _ h.tail
        · exact h

theorem parseLimit_ok (lfuel : Nat) {ts : Toks} (h : TokS T ts) :
    Suc (parseLimit lfuel ts) (fun p => T p.1.pos ∧ TokS T p.2) := by
  unfold parseLimit
  split
  · simp
  · rename_i t rest
    apply Res.Holds.bind (expect_ok T _ h)
    intro ts1 h1
    apply Res.Holds.bind (limitLoop_ok T _ _ h1)
    rintro ⟨vals, ts2⟩ h2
    dsimp only at h2 ⊢
    split
    · exact ⟨h.head, h2⟩
    · exact ⟨h.head, h2⟩
    · split
      · simp
      · simp

theorem selectLoop_ok (efuel : Nat) : ∀ (fuel : Nat) (acc : SelAcc) {ts : Toks},
    NodeOKs T T acc.fields → TokS T ts →
    Suc (selectLoop pf efuel fuel acc ts) (fun p => NodeOKs T T p.1.fields ∧ TokS T p.2) := by
  intro fuel
  induction fuel with
  | zero => intros; simp [selectLoop]
  | succ n ih =>
    intro acc ts hacc h
    unfold selectLoop
    split
    · exact ⟨hacc, TokS.nil⟩
    · rename_i t rest
      split
      · exact ⟨hacc, h⟩
      · split
        · split
          · rename_i t2 r2
            split
            · simp
            · split
              · simp
              · exact ⟨hacc, h.tail⟩
          · split
            · simp
            · exact ⟨hacc, TokS.nil⟩
        · apply Res.Holds.bind (parseExpr_ok T pf efuel h)
          rintro ⟨field, ts1⟩ ⟨hf, h1⟩
          dsimp only
          apply Res.Holds.bind (R := fun p => TokS T p.2)
          · split
            · exact TokS.nil
            · rename_i t1 r1
              split
              · split
                · simp
                · rename_i t2 r2
                  split
                  · simp
                  · exact (TokS.tail h1).tail
              · split
                · exact h1
                · split
                  · exact h1
                  · simp
          · rintro ⟨fname, ts2⟩ h2
            dsimp only at h2 ⊢
            have hacc' : NodeOKs T T (acc.fields ++ [field]) := nodeOKs_append T T hacc ⟨hf.1, trivial⟩
            split
            · exact ⟨hacc', TokS.nil⟩
            · split
              · exact ⟨hacc', h2⟩
              · exact ih _ hacc' (TokS.tail h2)

/-- `parseSelect`: the statement position is the SELECT token's; the fields are built from tokens,
    except the two field nodes of `select *`, which carry the zero `Pos` -/
theorem parseSelect_ok (efuel lfuel : Nat) {ts : Toks} (h : TokS T ts) :
    Suc (parseSelect pf efuel lfuel ts)
      (fun p => T p.1.1 ∧ NodeOKs T (Fq T p.1.2.all) p.1.2.fields ∧ TokS T p.2) := by
  unfold parseSelect
  split
  · simp
  · rename_i t rest
    apply Res.Holds.bind (expect_ok T _ h)
    intro ts1 h1
    apply Res.Holds.bind (selectLoop_ok T pf efuel lfuel _ (by simp [NodeOKs]) h1)
    rintro ⟨acc, ts2⟩ ⟨ha, h2⟩
    dsimp only at ha h2 ⊢
    split
    · simp
    · split
      · rename_i hall
        refine ⟨h.head, ?_, h2⟩
        exact ⟨Or.inr ⟨rfl, hall⟩, Or.inr ⟨rfl, hall⟩, trivial⟩
      · exact ⟨h.head, ha.mono (fun _ h => h) (Fq.of _), h2⟩

theorem orderLoop_ok (efuel : Nat) (tbl : Tbl) :
    ∀ (fuel : Nat) (acc : List (Bytes × Nat)) {ts : Toks}, TokS T ts →
    Suc (orderLoop pf efuel tbl fuel acc ts) (fun p => TokS T p.2) := by
  intro fuel
  induction fuel with
  | zero => intros; simp [orderLoop]
  | succ n ih =>
    intro acc ts h
    unfold orderLoop
    split
    · exact TokS.nil
    · rename_i t rest
      apply Res.Holds.bind (parseExpr_ok T pf efuel h)
      rintro ⟨field, ts1⟩ ⟨hf, h1⟩
      dsimp only
      apply Res.Holds.bind (Suc.triv _)
      intro _ _
      split
      · exact TokS.nil
      · rename_i t1 r1
        split
        · exact ih _ (TokS.tail h1)
        · split
          · split
            · rename_i t2 r2
              split
              · exact ih _ (TokS.tail (TokS.tail h1))
              · exact TokS.tail h1
            · exact TokS.nil
          · exact h1

theorem parseOrderBy_ok (efuel lfuel : Nat) (tbl : Tbl) {ts : Toks}
    (h : TokS T ts) : Suc (parseOrderBy pf efuel lfuel tbl ts) (fun p => T p.1.pos ∧ TokS T p.2) := by
  unfold parseOrderBy
  split
  · simp
  · rename_i t rest
    apply Res.Holds.bind (expect_ok T _ h)
    intro ts1 h1
    apply Res.Holds.bind (expect_ok T _ h1)
    intro ts2 h2
    apply Res.Holds.bind (orderLoop_ok T pf efuel tbl lfuel _ h2)
    rintro ⟨os, ts3⟩ h3
    exact ⟨h.head, h3⟩

/-- a group-by entry with its own expression satisfies the invariant -/
def GPos (g : Bytes × GTarget) : Prop :=
  match g.2 with
  | .sel _ => True
  | .own e => NodeOK T F e

include hTF in
theorem groupLoop_ok (efuel : Nat) (tbl : Tbl) :
    ∀ (fuel : Nat) (acc : List (Bytes × GTarget)) {ts : Toks}, (∀ g ∈ acc, GPos T F g) → TokS T ts →
    Suc (groupLoop pf efuel tbl fuel acc ts) (fun p => (∀ g ∈ p.1, GPos T F g) ∧ TokS T p.2) := by
  intro fuel
  induction fuel with
  | zero => intros; simp [groupLoop]
  | succ n ih =>
    intro acc ts hacc h
    unfold groupLoop
    split
    · exact ⟨hacc, TokS.nil⟩
    · rename_i t rest
      apply Res.Holds.bind (parseExpr_ok T pf efuel h)
      rintro ⟨field, ts1⟩ ⟨hf, h1⟩
      dsimp only
      apply Res.Holds.bind (R := GPos T F)
      · split
        · apply Res.Holds.bind (Suc.triv _)
          intro _ _; simp [GPos]
        · simpa [GPos] using Good.node T F hTF hf
        · apply Res.Holds.bind (Suc.triv _)
          rintro ⟨i, fexpr⟩ _
          dsimp only
          split
          · simp
          · split
            · simp
            · simp [GPos]
        · apply Res.Holds.bind (Suc.triv _)
          intro _ _; simp [GPos]
      · intro entry hentry
        have hacc' : ∀ g ∈ acc ++ [entry], GPos T F g := by
          intro g hg
          rcases List.mem_append.mp hg with hg | hg
          · exact hacc g hg
          · simp at hg; subst hg; exact hentry
        split
        · exact ⟨hacc', TokS.nil⟩
        · rename_i t1 r1
          split
          · exact ih _ hacc' (TokS.tail h1)
          · exact ⟨hacc', h1⟩

theorem groupCheck_ok : ∀ (gs : List (Bytes × GTarget)) {tbl : Tbl}, TblOK T F tbl →
    (∀ g ∈ gs, GPos T F g) →
    Suc (groupCheck tbl gs) (fun p => TblOK T F p.1 ∧ ∀ g ∈ p.2, GPos T F g) := by
  intro gs
  induction gs with
  | nil => intro tbl ht _; simpa [groupCheck] using ht
  | cons g rest ih =>
    intro tbl ht hg
    obtain ⟨n, tgt⟩ := g
    cases tgt with
    | sel i =>
      unfold groupCheck
      split
      · simp
      · rename_i nm e hget
        apply Res.Holds.bind (check_ok T F _ ht e (getElem_ok T F ht hget)); intro e' he'
        apply Res.Holds.bind (ih (setField_ok T F ht i he') (fun g hg' => hg g (by simp [hg'])))
        rintro ⟨tbl', rest'⟩ ⟨h1, h2⟩
        refine ⟨h1, ?_⟩
        intro g hg'
        simp only [List.mem_cons] at hg'
        rcases hg' with rfl | hg'
        · simp [GPos]
        · exact h2 g hg'
    | own e =>
      unfold groupCheck
      have he : NodeOK T F e := by simpa [GPos] using hg (n, .own e) (by simp)
      apply Res.Holds.bind (check_ok T F _ ht e he); intro e' he'
      apply Res.Holds.bind (ih ht (fun g hg' => hg g (by simp [hg'])))
      rintro ⟨tbl', rest'⟩ ⟨h1, h2⟩
      refine ⟨h1, ?_⟩
      intro g hg'
      simp only [List.mem_cons] at hg'
      rcases hg' with rfl | hg'
      · simpa [GPos] using he'
      · exact h2 g hg'

include hTF in
theorem parseGroupBy_ok (efuel lfuel : Nat) {tbl : Tbl} (ht : TblOK T F tbl) {ts : Toks}
    (h : TokS T ts) :
    Suc (parseGroupBy pf efuel lfuel tbl ts)
      (fun p => T p.1.1 ∧ (∀ g ∈ p.1.2.1, GPos T F g) ∧ TblOK T F p.1.2.2 ∧ TokS T p.2) := by
  unfold parseGroupBy
  split
  · simp
  · rename_i t rest
    apply Res.Holds.bind (expect_ok T _ h)
    intro ts1 h1
    apply Res.Holds.bind (expect_ok T _ h1)
    intro ts2 h2
    apply Res.Holds.bind (groupLoop_ok T F hTF pf efuel tbl lfuel [] (by simp) h2)
    rintro ⟨gs, ts3⟩ ⟨hg, h3⟩
    dsimp only at hg h3 ⊢
    apply Res.Holds.bind (groupCheck_ok T F gs ht hg)
    rintro ⟨tbl', gs'⟩ ⟨ht', hg'⟩
    exact ⟨h.head, hg', ht', h3⟩

/-! ### PUT / REMOVE / DELETE -/

theorem parsePutKVPair_ok (efuel : Nat) {ts : Toks} (h : TokS T ts) :
    Suc (parsePutKVPair pf efuel ts) (fun p => (Good T p.1.1 ∧ Good T p.1.2) ∧ TokS T p.2) := by
  unfold parsePutKVPair
  apply Res.Holds.bind (expect_ok T _ h)
  intro ts1 h1
  apply Res.Holds.bind (parseExpr_ok T pf efuel h1)
  rintro ⟨k, ts2⟩ ⟨hk, h2⟩
  dsimp only
  split
  · simp
  · rename_i t rest
    split
    · apply Res.Holds.bind (parseExpr_ok T pf efuel (TokS.tail h2))
      rintro ⟨v, ts3⟩ ⟨hv, h3⟩
      apply Res.Holds.bind (expect_ok T _ h3)
      intro ts4 h4
      exact ⟨⟨hk, hv⟩, h4⟩
    · simp

def PairsOK (ps : List (Expr × Expr)) : Prop := ∀ p ∈ ps, NodeOK T F p.1 ∧ NodeOK T F p.2

include hTF in
theorem putLoop_ok (efuel : Nat) : ∀ (fuel : Nat) (acc : List (Expr × Expr)) {ts : Toks},
    PairsOK T F acc → TokS T ts → Suc (putLoop pf efuel fuel acc ts) (PairsOK T F) := by
  intro fuel
  induction fuel with
  | zero => intros; simp [putLoop]
  | succ n ih =>
    intro acc ts hacc h
    unfold putLoop
    split
    · exact hacc
    · apply Res.Holds.bind (parsePutKVPair_ok T pf efuel h)
      rintro ⟨kv, ts1⟩ ⟨hkv, h1⟩
      dsimp only at hkv h1 ⊢
      have hacc' : PairsOK T F (acc ++ [kv]) := by
        intro p hp
        rcases List.mem_append.mp hp with hp | hp
        · exact hacc p hp
        · simp at hp; subst hp; exact ⟨Good.node T F hTF hkv.1, Good.node T F hTF hkv.2⟩
      split
      · exact hacc'
      · apply Res.Holds.bind (expect_ok T _ h1)
        intro ts2 h2
        exact ih _ hacc' h2

theorem validatePut_ok (ctx : CheckCtx) (ht : TblOK T F ctx.tbl) : ∀ ps : List (Expr × Expr),
    PairsOK T F ps → Suc (validatePut ctx ps) (PairsOK T F) := by
  intro ps
  induction ps with
  | nil => intro _; simp [validatePut, PairsOK]
  | cons p rest ih =>
    intro hp
    obtain ⟨k, v⟩ := p
    have hkv := hp (k, v) (by simp)
    unfold validatePut
    apply Res.Holds.bind (check_ok T F _ ht k hkv.1); intro k' hk'
    apply Res.Holds.bind (Suc.triv _); intro _ _
    split
    · simp
    · apply Res.Holds.bind (check_ok T F _ ht v hkv.2); intro v' hv'
      apply Res.Holds.bind (Suc.triv _); intro _ _
      split
      · simp
      · apply Res.Holds.bind (ih (fun q hq => hp q (by simp [hq]))); intro rest' hrest'
        intro q hq
        simp only [List.mem_cons] at hq
        rcases hq with rfl | hq
        · exact ⟨hk', hv'⟩
        · exact hrest' q hq

include hTF in
theorem parsePut_ok (efuel lfuel : Nat) {ts : Toks} (h : TokS T ts) :
    Suc (parsePut pf efuel lfuel ts) (StmtOK T F) := by
  unfold parsePut
  split
  · simp
  · apply Res.Holds.bind (expect_ok T _ h)
    intro ts1 h1
    apply Res.Holds.bind (putLoop_ok T F hTF pf efuel lfuel [] (fun _ hp => by simp at hp) h1)
    intro ps hps
    apply Res.Holds.bind (validatePut_ok T F _ (tblOK_nil T F) ps hps); intro ps' hps'
    exact ⟨h.head, hps'⟩

include hTF in
theorem removeLoop_ok (efuel : Nat) : ∀ (fuel : Nat) (acc : List Expr) {ts : Toks},
    NodeOKs T F acc → TokS T ts → Suc (removeLoop pf efuel fuel acc ts) (NodeOKs T F) := by
  intro fuel
  induction fuel with
  | zero => intros; simp [removeLoop]
  | succ n ih =>
    intro acc ts hacc h
    unfold removeLoop
    split
    · exact hacc
    · apply Res.Holds.bind (parseExpr_ok T pf efuel h)
      rintro ⟨k, ts1⟩ ⟨hk, h1⟩
      dsimp only
      have hacc' : NodeOKs T F (acc ++ [k]) := nodeOKs_append T F hacc ⟨Good.node T F hTF hk, trivial⟩
      split
      · exact hacc'
      · apply Res.Holds.bind (expect_ok T _ h1)
        intro ts2 h2
        exact ih _ hacc' h2

theorem validateRemove_ok (ctx : CheckCtx) (ht : TblOK T F ctx.tbl) : ∀ ks : List Expr, NodeOKs T F ks →
    Suc (validateRemove ctx ks) (NodeOKs T F) := by
  intro ks
  induction ks with
  | nil => intro _; simp [validateRemove, NodeOKs]
  | cons k rest ih =>
    intro hk
    unfold validateRemove
    apply Res.Holds.bind (Suc.triv _); intro _ _
    split
    · simp
    · apply Res.Holds.bind (check_ok T F _ ht k hk.1); intro k' hk'
      apply Res.Holds.bind (ih hk.2); intro rest' hrest'
      exact ⟨hk', hrest'⟩

include hTF in
theorem parseRemove_ok (efuel lfuel : Nat) {ts : Toks} (h : TokS T ts) :
    Suc (parseRemove pf efuel lfuel ts) (StmtOK T F) := by
  unfold parseRemove
  split
  · simp
  · apply Res.Holds.bind (expect_ok T _ h)
    intro ts1 h1
    apply Res.Holds.bind (removeLoop_ok T F hTF pf efuel lfuel [] (by simp [NodeOKs]) h1)
    intro ks hks
    apply Res.Holds.bind (validateRemove_ok T F _ (tblOK_nil T F) ks hks); intro ks' hks'
    exact ⟨h.head, hks'⟩

include hTF in
theorem parseDelete_ok (efuel lfuel : Nat) {ts : Toks} (h : TokS T ts) :
    Suc (parseDelete pf efuel lfuel ts) (StmtOK T F) := by
  unfold parseDelete
  split
  · simp
  · apply Res.Holds.bind (expect_ok T _ h)
    intro ts1 h1
    split
    · simp
    · rename_i wt rest1
      apply Res.Holds.bind (expect_ok T _ h1)
      intro ts2 h2
      apply Res.Holds.bind (parseExpr_ok T pf efuel h2)
      rintro ⟨w, ts3⟩ ⟨hw, h3⟩
      dsimp only
      apply Res.Holds.bind (R := fun p => (∀ l, p.1 = some l → T l.pos) ∧ TokS T p.2)
      · split
        · simp only [Res.holds_pure]
          exact ⟨fun l hl => (by cases hl), TokS.nil⟩
        · split
          · apply Res.Holds.bind (parseLimit_ok T lfuel h3)
            rintro ⟨l, ts'⟩ ⟨hl, h'⟩
            simp only [Res.holds_pure]
            exact ⟨fun l' hl' => by cases hl'; exact hl, h'⟩
          · simp
      · rintro ⟨lim, ts4⟩ ⟨hlim, h4⟩
        dsimp only at hlim h4 ⊢
        split
        · simp
        · apply Res.Holds.bind (check_ok T F _ (tblOK_nil T F) w (Good.node T F hTF hw)); intro w' hw'
          apply Res.Holds.bind (Suc.triv _); intro _ _
          split
          · simp
          · exact ⟨h.head, h1.head, hw', hlim⟩

/-! ### SELECT -/

/-- the invariant of the clauses gathered after the WHERE expression -/
def ClOK (c : Clauses) : Prop :=
  TblOK T F c.tbl ∧ (∀ o, c.order = some o → T o.pos) ∧
  (∀ g, c.group = some g → T g.1 ∧ ∀ x ∈ g.2, GPos T F x) ∧ (∀ l, c.limit = some l → T l.pos)

include hTF in
theorem clauseLoop_ok (efuel lfuel : Nat) : ∀ (fuel : Nat) (c : Clauses) {ts : Toks},
    ClOK T F c → TokS T ts →
    Suc (clauseLoop pf efuel lfuel fuel c ts) (ClOK T F) := by
  intro fuel
  induction fuel with
  | zero => intros; simp [clauseLoop]
  | succ n ih =>
    intro c ts hc h
    unfold clauseLoop
    split
    · exact hc
    · rename_i t rest
      split
      · split
        · simp
        · apply Res.Holds.bind (parseOrderBy_ok T pf efuel lfuel c.tbl h)
          rintro ⟨o, ts'⟩ ⟨ho, h1⟩
          dsimp only at ho h1 ⊢
          split
          · simp
          · refine ih _ ⟨hc.1, ?_, hc.2.2.1, hc.2.2.2⟩ h1
            intro o' ho'
            cases ho'
            exact ho
      · split
        · split
          · simp
          · apply Res.Holds.bind (parseGroupBy_ok T F hTF pf efuel lfuel hc.1 h)
            rintro ⟨⟨gpos, gfields, tbl'⟩, ts'⟩ ⟨hg, hgf, ht', h1⟩
            dsimp only at hg hgf ht' h1 ⊢
            split
            · simp
            · refine ih _ ⟨ht', hc.2.1, ?_, hc.2.2.2⟩ h1
              intro g' hg'
              cases hg'
              exact ⟨hg, hgf⟩
        · split
          · split
            · simp
            · apply Res.Holds.bind (parseLimit_ok T lfuel h)
              rintro ⟨l, ts'⟩ ⟨hl, h1⟩
              dsimp only at hl h1 ⊢
              split
              · simp
              · refine ih _ ⟨hc.1, hc.2.1, hc.2.2.1, ?_⟩ TokS.nil
                intro l' hl'
                cases hl'
                exact hl
          · simp

theorem validateFields_ok : ∀ (n i : Nat) {tbl : Tbl}, TblOK T F tbl →
    Suc (validateFields n i tbl) (TblOK T F) := by
  intro n
  induction n with
  | zero => intro i tbl ht; simpa [validateFields] using ht
  | succ m ih =>
    intro i tbl ht
    unfold validateFields
    split
    · simpa using ht
    · rename_i nm f hget
      apply Res.Holds.bind (check_ok T F _ ht f (getElem_ok T F ht hget)); intro f' hf'
      apply Res.Holds.bind (Suc.triv _); intro _ _
      exact ih _ (setField_ok T F ht i hf')

theorem rewriteFieldNames_ok : ∀ (n i : Nat) {tbl : Tbl} (tys : List Nat), TblOK T F tbl →
    Suc (rewriteFieldNames n i tbl tys) (fun r => TblOK T F r.1) := by
  intro n
  induction n with
  | zero => intro i tbl tys ht; simpa [rewriteFieldNames] using ht
  | succ m ih =>
    intro i tbl tys ht
    unfold rewriteFieldNames
    split
    · simpa using ht
    · rename_i nm f hget
      split
      · split
        · split
          · exact ih _ _ ht
          · apply Res.Holds.bind (rewrite_ok T F _ ht (getElem_ok T F ht hget)); intro f' hf'
            apply Res.Holds.bind (Suc.triv _); intro _ _
            exact ih _ _ (setField_ok T F ht i hf')
        · exact ih _ _ ht
      · exact ih _ _ ht

theorem finalGroup_ok {tbl : Tbl} (ht : TblOK T F tbl) (g : Nat × List (Bytes × GTarget))
    (hg : ∀ x ∈ g.2, GPos T F x) : ∀ x ∈ (finalGroup tbl g).fields, NodeOK T F x.2 := by
  intro x hx
  simp only [finalGroup, List.mem_map] at hx
  obtain ⟨⟨n, tgt⟩, hy, rfl⟩ := hx
  have hgy := hg _ hy
  cases tgt with
  | sel i =>
    dsimp only
    split
    · rename_i nm e hget
      exact resolveTop_ok T F ht (getElem_ok T F ht hget)
    · trivial
  | own e =>
    exact resolveTop_ok T F ht (by simpa [GPos] using hgy)

include hTF in
/-- the part of `Parse` after the WHERE keyword -/
theorem parseWhere_ok (efuel lfuel spos : Nat) (sel : SelAcc) (hs : NodeOKs T F sel.fields)
    (hsp : F spos) (wpos : Nat) (hwp : T wpos) {ts : Toks} (h : TokS T ts) :
    Suc (parseWhere pf efuel lfuel spos sel wpos ts)
      (fun s => StmtOK T F s ∧ s.isAll = sel.all) := by
  unfold parseWhere
  split
  · simp
  · rename_i t rest
    apply Res.Holds.bind (parseExpr_ok T pf efuel h)
    rintro ⟨e, ts1⟩ ⟨he, h1⟩
    dsimp only
    have htbl : TblOK T F (sel.names.zip sel.fields) := by
      intro p hp
      obtain ⟨n, x⟩ := p
      exact (nodeOKs_iff T F _).mp hs x (List.of_mem_zip hp).2
    apply Res.Holds.bind (rewriteFieldNames_ok T F _ _ sel.types htbl)
    rintro ⟨tbl1, tys1⟩ htbl1
    dsimp only
    apply Res.Holds.bind (clauseLoop_ok T F hTF pf efuel lfuel lfuel { tbl := tbl1 }
      ⟨htbl1, fun o ho => (by cases ho), fun g hg => (by cases hg), fun l hl => (by cases hl)⟩ h1)
    intro c hc
    apply Res.Holds.bind (validateFields_ok T F _ _ hc.1); intro tbl2 htbl2
    apply Res.Holds.bind (validateFields_ok T F _ _ htbl2); intro tbl3 htbl3
    apply Res.Holds.bind (Suc.triv _); intro types _
    apply Res.Holds.bind (check_ok T F _ htbl3 e (Good.node T F hTF he)); intro e' he'
    apply Res.Holds.bind (Suc.triv _); intro _ _
    split
    · simp
    · refine ⟨⟨hsp, ?_, hwp, resolveTop_ok T F htbl3 he', hc.2.1, ?_, hc.2.2.2⟩, rfl⟩
      · rw [nodeOKs_iff]
        intro x hx
        simp only [List.mem_map] at hx
        obtain ⟨p, hp, rfl⟩ := hx
        exact resolveTop_ok T F htbl3 (htbl3 p hp)
      · intro g hg
        dsimp only at hg
        cases hcg : c.group with
        | none => rw [hcg] at hg; cases hg
        | some g0 =>
          rw [hcg] at hg
          simp only [Option.map_some, Option.some.injEq] at hg
          subst hg
          exact ⟨(hc.2.2.1 g0 hcg).1, finalGroup_ok T F htbl3 g0 (hc.2.2.1 g0 hcg).2⟩

end

theorem trimEndSemis_sub (toks : Toks) : ∀ t ∈ trimEndSemis toks, t ∈ toks := by
  intro t ht
  cases toks with
  | nil => simp [trimEndSemis] at ht
  | cons a rest =>
    simp only [trimEndSemis, List.mem_cons, List.mem_reverse] at ht ⊢
    rcases ht with ht | ht
    · exact Or.inl ht
    · right
      have := (List.dropWhile_sublist (fun x => x.tp == tkSEMI) (l := rest.reverse)).mem ht
      simpa using this

theorem StmtOK.mono {T F F' : Nat → Prop} (hF : ∀ p, F p → F' p) {s : Stmt} (h : StmtOK T F s) :
    StmtOK T F' s := by
  have hn : ∀ e, NodeOK T F e → NodeOK T F' e := fun e he => he.mono (fun _ h => h) hF
  cases s with
  | select s =>
    obtain ⟨h1, h2, h3, h4, h5, h6, h7⟩ := h
    exact ⟨hF _ h1, h2.mono (fun _ h => h) hF, h3, hn _ h4, h5,
      fun g hg => ⟨(h6 g hg).1, fun x hx => hn _ ((h6 g hg).2 x hx)⟩, h7⟩
  | put pos pairs => exact ⟨h.1, fun x hx => ⟨hn _ (h.2 x hx).1, hn _ (h.2 x hx).2⟩⟩
  | remove pos keys => exact ⟨h.1, h.2.mono (fun _ h => h) hF⟩
  | delete pos wpos w lim => exact ⟨h.1, h.2.1, hn _ h.2.2.1, h.2.2.2⟩

/-- **positions in the tree are token offsets**: every `Pos` of the statement `Parse` returns is in
    `T` whenever the offsets of the input tokens are — except the KEY / VALUE nodes and the
    statement position of an `AllFields` statement, which may also be 0 -/
theorem parse_ok (T : Nat → Prop) (pf : Bytes → F64) {toks : Toks} (h : TokS T toks) :
    Suc (Parse pf toks) (fun s => StmtOK T (Fq T s.isAll) s) := by
  have h' : TokS T (trimEndSemis toks) := fun t ht => h t (trimEndSemis_sub toks t ht)
  unfold Parse
  dsimp only
  generalize trimEndSemis toks = ts at h'
  split
  · simp
  · rename_i t rest
    split
    · exact Res.Holds.mono (parsePut_ok T T (fun _ h => h) pf _ _ h')
        (fun s hs => hs.mono (Fq.of _))
    · split
      · exact Res.Holds.mono (parseRemove_ok T T (fun _ h => h) pf _ _ h')
          (fun s hs => hs.mono (Fq.of _))
      · split
        · exact Res.Holds.mono (parseDelete_ok T T (fun _ h => h) pf _ _ h')
            (fun s hs => hs.mono (Fq.of _))
        · split
          · apply Res.Holds.bind (parseSelect_ok T pf _ _ h')
            rintro ⟨⟨spos, sel⟩, ts1⟩ ⟨hsp, hs, h1⟩
            dsimp only at hsp hs h1 ⊢
            split
            · simp
            · rename_i wt ts2
              apply Res.Holds.mono (parseWhere_ok T (Fq T sel.all) (Fq.of _) pf _ _ _ _ hs
                (Or.inl hsp) _ h1.head h1.tail)
              rintro s ⟨hs1, hs2⟩
              rw [hs2]; exact hs1
          · split
            · apply Res.Holds.mono (parseWhere_ok T (Fq T true) (Fq.of _) pf _ _ 0 { all := true }
                (by simp [NodeOKs]) (Or.inr ⟨rfl, rfl⟩) _ h'.head h'.tail)
              rintro s ⟨hs1, hs2⟩
              rw [hs2]; exact hs1
            · simp

end Kvql.Proofs.ErrPos
