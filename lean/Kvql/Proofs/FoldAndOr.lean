/-
  C04, `tryOptimizeAndOr`: Boolean simplification with a literal operand (`andOr_ok`).
-/
import Kvql.Proofs.FoldRel
namespace Kvql
open Generated
namespace Fold

/-! ### tryOptimizeAndOr -/

theorem asBool_ok {v : Value} {b : Bool} (h : asBool v = .ok b) : v = .bool b := by
  cases v <;> simp [asBool] at h
  subst h; rfl

/-- `l & r` where the right operand is the literal `rv` -/
theorem shortCircuit_right_lit (isAnd rv : Bool) {a : Except Err Value} {v : Value}
    (h : shortCircuit isAnd a (.ok (.bool rv)) = .ok v) :
    ∃ bx, a = .ok (.bool bx) ∧ v = .bool (if bx != isAnd then bx else rv) := by
  cases a with
  | error e => simp [shortCircuit] at h
  | ok x =>
    simp only [shortCircuit] at h
    cases hx : asBool x with
    | error e => simp [hx] at h
    | ok bx =>
      have := asBool_ok hx
      subst this
      simp only [asBool] at h
      refine ⟨bx, rfl, ?_⟩
      split at h <;> simp_all

theorem shortCircuit_left_lit (isAnd lv : Bool) {b : Except Err Value} {v : Value}
    (h : shortCircuit isAnd (.ok (.bool lv)) b = .ok v) :
    (lv ≠ isAnd ∧ v = .bool lv) ∨ (lv = isAnd ∧ ∃ y, b = .ok (.bool y) ∧ v = .bool y) := by
  have hlv : asBool (.bool lv) = .ok lv := rfl
  simp only [shortCircuit, hlv] at h
  by_cases hd : lv = isAnd
  · subst hd
    simp only [bne_self_eq_false, Bool.false_eq_true, if_false] at h
    cases b with
    | error e => simp at h
    | ok y =>
      cases hy : asBool y with
      | error e => simp [hy] at h
      | ok byy =>
        have := asBool_ok hy
        subst this
        simp only [hy] at h
        cases h
        exact .inr ⟨rfl, byy, rfl, rfl⟩
  · have : (lv != isAnd) = true := by simpa using hd
    simp only [this, if_true] at h
    cases h
    exact .inl ⟨hd, rfl⟩

/-- what `tryOptimizeAndOr` returns has the value of its argument; its static type is the
    argument's unless the argument is Boolean-typed (`true & X => X` hands back `X` whatever its
    static type) -/
structure AndOrOK (e : Expr) (r : Expr) (w : Which) : Prop where
  sem : Sem e r
  ty : retType r = retType e ∨ retType e = tyTBOOL
  loc : match w with
    | .self => r = e
    | .left => ∃ p op l r', e = .binop p op l r' ∧ r = l
    | .right => ∃ p op l r', e = .binop p op l r' ∧ r = r'
    | .fresh => True
  shape : ShapeOK e r

theorem andOrOK_self (e : Expr) : AndOrOK e e .self :=
  ⟨.refl e, .inl rfl, rfl, .refl e⟩

theorem retType_mkBool (p : Nat) (b : Bool) : retType (mkBool p b) = tyTBOOL := rfl
theorem ev_mkBool (p : Nat) (b : Bool) (kv : Pair) (c : Ctx) : ev (mkBool p b) kv c = .ok (.bool b) := by
  simp [mkBool, ev, exec]

def notBool : Expr → Bool
  | .bool .. => false
  | _ => true

theorem andOr_rightLit {p : Nat} {op : Op} {l : Expr} (pr : Nat) (dr : Bytes) (rv : Bool)
    (hop : (op != .and && op != .or) = false) (hl : notBool l = true) :
    andOr (.binop p op l (.bool pr dr rv)) =
      if op == .and then (if rv then (l, .left) else (mkBool pr false, .fresh))
      else (if rv then (mkBool pr true, .fresh) else (l, .left)) := by
  cases l <;> simp [notBool] at hl <;> simp [andOr, hop, Expr.pos]

theorem andOr_leftLit {p : Nat} {op : Op} {r : Expr} (pl : Nat) (dl : Bytes) (lv : Bool)
    (hop : (op != .and && op != .or) = false) (hr : notBool r = true) :
    andOr (.binop p op (.bool pl dl lv) r) =
      if op == .and then (if lv then (r, .right) else (mkBool pl false, .fresh))
      else (if lv then (mkBool pl true, .fresh) else (r, .right)) := by
  cases r <;> simp [notBool] at hr <;> simp [andOr, hop, Expr.pos]

theorem andOr_noLit {p : Nat} {op : Op} {l r : Expr} (hl : notBool l = true) (hr : notBool r = true) :
    andOr (.binop p op l r) = (.binop p op l r, .self) := by
  cases l <;> simp [notBool] at hl <;> cases r <;> simp [notBool] at hr <;> simp [andOr]

theorem andOr_bothLit {p : Nat} {op : Op} (pl : Nat) (dl : Bytes) (lv : Bool) (pr : Nat) (dr : Bytes) (rv : Bool)
    (hop : (op != .and && op != .or) = false) :
    andOr (.binop p op (.bool pl dl lv) (.bool pr dr rv)) =
      if op == .and then (mkBool pl (lv && rv), .fresh) else (mkBool pl (lv || rv), .fresh) := by
  simp [andOr, hop, Expr.pos]

theorem notBool_cases (e : Expr) : (∃ p d v, e = .bool p d v) ∨ notBool e = true := by
  cases e <;> simp [notBool]

theorem andOr_ok (e : Expr) : AndOrOK e (andOr e).1 (andOr e).2 := by
  cases e with
  | binop p op l r =>
    have shape : ∀ k, ShapeOK (.binop p op l r) k := fun k => shapeOK_binop p op l r k
    by_cases hop : op = .and ∨ op = .or
    · have hty : retType (.binop p op l r) = tyTBOOL := by rcases hop with h | h <;> subst h <;> rfl
      have hev : ∀ kv c, c.enable = false →
          ev (.binop p op l r) kv c = shortCircuit (op == .and) (ev l kv c) (ev r kv c) := by
        intro kv c hc
        have := ev_shortCircuit p l r kv hc
        rcases hop with h | h <;> subst h
        · exact this.1
        · exact this.2.2.1
      have hne : (op != .and && op != .or) = false := by rcases hop with h | h <;> subst h <;> rfl
      have fresh : ∀ (pos : Nat) (b : Bool),
          (∀ kv c, c.enable = false → ∀ v, ev (.binop p op l r) kv c = .ok v → v = .bool b) →
          AndOrOK (.binop p op l r) (mkBool pos b) .fresh := fun pos b h =>
        ⟨fun kv c hc v hv => ⟨.bool b, ev_mkBool .., by rw [h kv c hc v hv]; exact .refl _⟩,
          .inl (by rw [hty]; rfl), trivial, shape _⟩
      have evb : ∀ q d b kv c, ev (.bool q d b) kv c = .ok (.bool b) := fun q d b kv c => by simp [ev, exec]
      rcases notBool_cases l with ⟨pl, dl, lv, rfl⟩ | hl
      · rcases notBool_cases r with ⟨pr, dr, rv, rfl⟩ | hr
        · rw [andOr_bothLit pl dl lv pr dr rv hne]
          have key : ∀ kv c, c.enable = false → ∀ v, ev (.binop p op (.bool pl dl lv) (.bool pr dr rv)) kv c = .ok v →
              v = .bool (if lv != (op == .and) then lv else rv) := by
            intro kv c hc v hv
            rw [hev kv c hc, evb, evb] at hv
            obtain ⟨bx, hb, hv⟩ := shortCircuit_right_lit _ rv hv
            cases hb
            exact hv
          rcases hop with h | h <;> subst h
          · simp only [beq_self_eq_true, if_true]
            refine fresh _ _ fun kv c hc v hv => ?_
            rw [key kv c hc v hv]
            cases lv <;> cases rv <;> rfl
          · have : (Op.or == Op.and) = false := rfl
            simp only [this, Bool.false_eq_true, if_false]
            refine fresh _ _ fun kv c hc v hv => ?_
            rw [key kv c hc v hv]
            cases lv <;> cases rv <;> rfl
        · rw [andOr_leftLit pl dl lv hne hr]
          have key : ∀ kv c, c.enable = false → ∀ v, ev (.binop p op (.bool pl dl lv) r) kv c = .ok v →
              (lv ≠ (op == .and) ∧ v = .bool lv) ∨ (lv = (op == .and) ∧ ∃ y, ev r kv c = .ok (.bool y) ∧ v = .bool y) := by
            intro kv c hc v hv
            rw [hev kv c hc, evb] at hv
            exact shortCircuit_left_lit _ _ hv
          have keep : ∀ (hlv : lv = (op == .and)), AndOrOK (.binop p op (.bool pl dl lv) r) r .right := fun hlv =>
            ⟨fun kv c hc v hv => by
              rcases key kv c hc v hv with ⟨h, _⟩ | ⟨_, y, hy, h⟩
              · exact absurd hlv h
              · subst h; exact ⟨.bool y, hy, .refl _⟩,
             .inr hty, ⟨_, _, _, _, rfl, rfl⟩, shape _⟩
          have drop : ∀ (hlv : lv ≠ (op == .and)), AndOrOK (.binop p op (.bool pl dl lv) r) (mkBool pl lv) .fresh :=
            fun hlv => fresh _ _ fun kv c hc v hv => by
              rcases key kv c hc v hv with ⟨_, h⟩ | ⟨h, _⟩
              · exact h
              · exact absurd h hlv
          rcases hop with h | h <;> subst h
          · cases lv
            · exact drop (by decide)
            · exact keep rfl
          · cases lv
            · exact keep rfl
            · exact drop (by decide)
      · rcases notBool_cases r with ⟨pr, dr, rv, rfl⟩ | hr
        · rw [andOr_rightLit pr dr rv hne hl]
          have key : ∀ kv c, c.enable = false → ∀ v, ev (.binop p op l (.bool pr dr rv)) kv c = .ok v →
              ∃ bx, ev l kv c = .ok (.bool bx) ∧ v = .bool (if bx != (op == .and) then bx else rv) := by
            intro kv c hc v hv
            rw [hev kv c hc, evb] at hv
            exact shortCircuit_right_lit _ rv hv
          have keep : ∀ (hrv : rv = (op == .and)), AndOrOK (.binop p op l (.bool pr dr rv)) l .left := fun hrv =>
            ⟨fun kv c hc v hv => by
              obtain ⟨bx, hx, hv⟩ := key kv c hc v hv
              refine ⟨.bool bx, hx, ?_⟩
              rw [hv, hrv]
              cases bx <;> cases (op == Op.and) <;> exact .refl _,
             .inr hty, ⟨_, _, _, _, rfl, rfl⟩, shape _⟩
          have drop : ∀ (hrv : rv ≠ (op == .and)), AndOrOK (.binop p op l (.bool pr dr rv)) (mkBool pr rv) .fresh :=
            fun hrv => fresh _ _ fun kv c hc v hv => by
              obtain ⟨bx, _, hv⟩ := key kv c hc v hv
              rw [hv]
              cases bx <;> cases rv <;> cases h : (op == Op.and) <;> simp_all
          rcases hop with h | h <;> subst h
          · cases rv
            · exact drop (by decide)
            · exact keep rfl
          · cases rv
            · exact keep rfl
            · exact drop (by decide)
        · rw [andOr_noLit hl hr]
          exact andOrOK_self _
    · have : (op != .and && op != .or) = true := by
        cases op <;> simp at hop <;> rfl
      simp only [andOr, this, if_true]
      exact andOrOK_self _
  | _ => simp only [andOr]; exact andOrOK_self _

end Fold
end Kvql
