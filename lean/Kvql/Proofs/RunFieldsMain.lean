/-
  End-to-end proofs for SELECT statements WITH A FIELD LIST, part 7: the statement-level forms of
  ORDER BY (C07) and LIMIT (C08), relative to the statement without the clause — either iteration mode,
  `select *` or a field list — and their row-mode corollaries where the success of the statement without
  the clause is derived from `EvalOK`.
-/
import Kvql.Proofs.RunFieldsBatch

namespace Kvql.Proofs.RunFields
open Kvql Kvql.Run Kvql.Plans Kvql.Storage Kvql.Cache Kvql.Project Kvql.Proofs.Scan Kvql.Proofs.Typing
open Kvql.Proofs.RunTables Kvql.Proofs.RunScan Kvql.Proofs.RunLimit Kvql.Proofs.RunFold
open Kvql.PlanCheck (planStage finalPlanCheck)

/-! ### a trace below LIMIT that ends without failure ends well -/

theorem orderTrace_nonempty_of_ok (keys : List Order.Key) (kind : PollKind) (bs : Nat) (t : Trace (List Value))
    (_h : (orderTrace keys kind bs t).fin.1 = none) : ∀ q ∈ (orderTrace keys kind bs t).polls, q.1 ≠ [] := by
  unfold orderTrace
  cases hf : t.fin.1 with
  | some fl => simp
  | none =>
    cases kind with
    | next =>
      simp only
      cases hd : Order.drainNext (lessRows keys) ((t.polls.map (·.1.length)).sum + 2) {} (t.polls.flatMap (·.1)) with
      | panic => simp
      | ok rows =>
        simp only
        intro q hq
        obtain ⟨r, _, rfl⟩ := List.mem_map.mp hq
        simp
    | batch =>
      simp only
      cases hd : Order.drainBatch (lessRows keys) bs ((t.polls.map (·.1.length)).sum + 2) {} (t.polls.map (·.1)) with
      | panic => simp
      | ok bss =>
        simp only
        intro q hq
        obtain ⟨b, hb, rfl⟩ := List.mem_map.mp hq
        exact order_drainBatch_nonempty _ bs _ _ _ bss hd b hb

theorem plainTrace_good_of_ok {s : SelectS} {f : FoldedSelect} {store : Store} {kind : PollKind} {bs : Nat} {cache : Bool}
    {t1 : Trace (List Value)} (ht : plainTrace s f store kind bs cache = .ok t1) (h : t1.fin.1 = none) :
    Good t1 (allRows t1) t1.fin.2.store := by
  refine ⟨h, rfl, ?_, rfl⟩
  unfold plainTrace at ht
  cases ho : s.order with
  | none =>
    rw [ho] at ht
    simp only [Except.ok.injEq] at ht
    subst ht
    exact projTrace_nonempty s f store kind bs cache
  | some o =>
    rw [ho] at ht
    simp only at ht
    by_cases he : elideOrder s o = true
    · simp only [he, if_true, Except.ok.injEq] at ht
      subst ht
      exact projTrace_nonempty s f store kind bs cache
    · simp only [he, Bool.false_eq_true, if_false] at ht
      cases hk : orderKeys (projNames s) (projTypes s) o with
      | none => rw [hk] at ht; cases ht
      | some keys =>
        rw [hk] at ht
        simp only [Except.ok.injEq] at ht
        subst ht
        exact orderTrace_nonempty_of_ok keys kind bs _ h

/-- the statement without LIMIT is the outcome of the trace below LIMIT -/
theorem runStmt_noLimit {s : SelectS} {f : FoldedSelect} (store : Store) (kind : PollKind) (bs : Nat) (cache : Bool)
    (hbs : 1 ≤ bs) (hnoaggr : finalPlanCheck s = .ok false) (hf : foldSelect s = .ok f) :
    runStmt (.select { s with limit := none }) store kind bs cache =
      match plainTrace s f store kind bs cache with
      | .error e => { fail := some e, rows := [], world := (projTrace s f store kind bs cache).w0 }
      | .ok t1 => t1.outcome := by
  rw [runStmt_plain { s with limit := none } store kind bs cache hbs hnoaggr hf, runPlainSelect_eq, plainTrace_noLimit]
  rfl

/-- **(4) C08 at statement level, either mode.**  If the statement without its LIMIT clause succeeds,
    the statement succeeds and returns rows `start … start+count-1` of the rows of the statement without
    LIMIT. -/
theorem runStmt_limit {s : SelectS} (hnoaggr : finalPlanCheck s = .ok false) {l : LimitS} (hl : s.limit = some l)
    (store : Store) (kind : PollKind) (bs : Nat) (hbs : 1 ≤ bs) (cache : Bool)
    (hok : (runStmt (.select { s with limit := none }) store kind bs cache).fail = none) :
    (runStmt (.select s) store kind bs cache).fail = none ∧
    (runStmt (.select s) store kind bs cache).rows =
      ((runStmt (.select { s with limit := none }) store kind bs cache).rows.drop l.start.toInt.toNat).take
        l.count.toInt.toNat := by
  obtain ⟨f, hf⟩ := foldSelect_total s
  rw [runStmt_noLimit store kind bs cache hbs hnoaggr hf] at hok ⊢
  cases ht : plainTrace s f store kind bs cache with
  | error e => rw [ht] at hok; cases hok
  | ok t1 =>
    rw [ht] at hok
    simp only at hok ⊢
    have hg := plainTrace_good_of_ok ht hok
    obtain ⟨h1, h2, _⟩ := runStmt_of_good hbs hnoaggr hf ht hg
    refine ⟨h1, ?_⟩
    rw [h2, outcome_rows]
    unfold sliceOf
    rw [hl]

/-! ### ORDER BY relative to the statement without it -/

/-- the statement without ORDER BY (and without LIMIT) is the outcome of the projection -/
theorem runStmt_noOrder {s : SelectS} {f : FoldedSelect} (store : Store) (kind : PollKind) (bs : Nat) (cache : Bool)
    (hbs : 1 ≤ bs) (hnoaggr : finalPlanCheck s = .ok false) (hf : foldSelect s = .ok f) (hlim : s.limit = none) :
    runStmt (.select { s with order := none }) store kind bs cache = (projTrace s f store kind bs cache).outcome := by
  rw [runStmt_plain { s with order := none } store kind bs cache hbs hnoaggr hf, runPlainSelect_eq, plainTrace_noOrder]
  simp only [hlim]

/-- the rows `FinalOrderPlan` hands out for the child rows `R`, in row mode -/
def sortedRows (keys : List Order.Key) (R : List (List Value)) : Order.Res (List (List Value)) :=
  Order.drainNext (lessRows keys) (R.length + 2) {} R

/-- both modes of `FinalOrderPlan` hand out the same rows (C07 (c) over traces) -/
theorem orderTrace_rows {t : Trace (List Value)} {R : List (List Value)} {store : Store} (h : Good t R store)
    (keys : List Order.Key) (kind : PollKind) (bs : Nat) (hbs : 1 ≤ bs) {out : List (List Value)}
    (ho : sortedRows keys R = .ok out) : allRows (orderTrace keys kind bs t) = out := by
  have hsum := sum_lengths t
  rw [h.rows] at hsum
  have hall : t.polls.flatMap (·.1) = R := h.rows
  unfold sortedRows at ho
  cases kind with
  | next =>
    unfold orderTrace
    simp only [h.fin, hsum, hall, ho]
    unfold allRows
    simp only [List.flatMap_def, List.map_map, Function.comp_def]
    exact flatten_single out
  | batch =>
    have hne : ∀ c ∈ t.polls.map (·.1), c ≠ [] := by
      intro c hc
      obtain ⟨p, hp, rfl⟩ := List.mem_map.mp hc
      exact h.nonempty p hp
    have hfl : (t.polls.map (·.1)).flatten = R := by rw [← List.flatMap_def]; exact hall
    have hnb := Kvql.Proofs.Order.next_eq_batch (lessR := lessRows keys) bs hbs (t.polls.map (·.1)) hne (R.length + 2)
      (R.length + 2) (by rw [hfl]; omega) (by rw [hfl]; omega)
    rw [hfl, ho] at hnb
    cases hd : Order.drainBatch (lessRows keys) bs (R.length + 2) {} (t.polls.map (·.1)) with
    | panic => rw [hd] at hnb; cases hnb
    | ok bss =>
      rw [hd] at hnb
      simp only [Order.Res.map, Order.Res.ok.injEq] at hnb
      unfold orderTrace
      simp only [h.fin, hsum, hd]
      unfold allRows
      simp only [List.flatMap_def, List.map_map, Function.comp_def, List.map_id']
      exact hnb

/-- **(3) C07 at statement level, either mode.**  A statement with ORDER BY (not the elided
    `order by key asc`) and without LIMIT: if the statement without ORDER BY succeeds and its rows are rows
    on which the documented order is defined, the statement succeeds, its rows are a permutation of those
    rows, no row is (documented-order) less than an earlier one, and they are the rows `sortedRows`
    computes from them (the same in both modes). -/
theorem runStmt_order {s : SelectS} (hnoaggr : finalPlanCheck s = .ok false) {o : OrderS} (ho : s.order = some o)
    (hne : elideOrder s o = false) (hlim : s.limit = none)
    {keys : List Order.Key} (hk : orderKeys (projNames s) (projTypes s) o = some keys)
    (store : Store) (kind : PollKind) (bs : Nat) (hbs : 1 ≤ bs) (cache : Bool)
    (hok : (runStmt (.select { s with order := none }) store kind bs cache).fail = none)
    (kinds : List Spec.Order.Kind)
    (hR : ∀ r ∈ (runStmt (.select { s with order := none }) store kind bs cache).rows, RowOKV keys kinds r) :
    (runStmt (.select s) store kind bs cache).fail = none ∧
    (runStmt (.select s) store kind bs cache).rows.Perm
      (runStmt (.select { s with order := none }) store kind bs cache).rows ∧
    (runStmt (.select s) store kind bs cache).rows.Pairwise (fun a b => lessV keys b a = false) ∧
    sortedRows keys (runStmt (.select { s with order := none }) store kind bs cache).rows =
      .ok (runStmt (.select s) store kind bs cache).rows := by
  obtain ⟨f, hf⟩ := foldSelect_total s
  rw [runStmt_noOrder store kind bs cache hbs hnoaggr hf hlim] at hok hR ⊢
  have hg := projTrace_good_of_ok (s := s) (f := f) (store := store) (kind := kind) (bs := bs) (cache := cache) hok
  rw [outcome_rows] at hR ⊢
  obtain ⟨t1, out, ht, g1, g2, g3⟩ := plainTrace_order_good hbs ho hne hk hg kinds hR
  obtain ⟨h1, h2, _⟩ := runStmt_of_good hbs hnoaggr hf ht g1
  have hrows : (runStmt (.select s) store kind bs cache).rows = out := by
    rw [h2]; unfold sliceOf; rw [hlim]
  rw [hrows]
  refine ⟨h1, g2, g3, ?_⟩
  -- the rows are those of `sortedRows`
  obtain ⟨hswo, hlok⟩ := lessV_swo keys kinds
  obtain ⟨out', e, _, _⟩ := Kvql.Proofs.Order.plan_sorted_next hswo hlok _ hR
    ((allRows (projTrace s f store kind bs cache)).length + 2) (by omega)
  have hsr : sortedRows keys (allRows (projTrace s f store kind bs cache)) = .ok out' := e
  have h3 := orderTrace_rows hg keys kind bs hbs hsr
  have ht' : t1 = orderTrace keys kind bs (projTrace s f store kind bs cache) := by
    unfold plainTrace at ht
    simp only [ho, hne, Bool.false_eq_true, if_false, hk, Except.ok.injEq] at ht
    exact ht.symm
  rw [← ht', g1.rows] at h3
  rw [hsr, h3]

end Kvql.Proofs.RunFields
