/-
  C14 through alias references, part 3: what `Parse` establishes about the select-field table.

    * `check_nodeOK`    every node of what `Check` returns passed the checker's test of its operator
    * `check_found`     `Check` only creates references to named fields
    * `check_settled` / `check_idem`   what `Check` returns has no alias name left at a place where
                        names are rewritten, and `Check` of such a tree returns it unchanged: the SECOND
                        pass of `ValidateFields` changes nothing, so every field was checked against
                        the table in its final state (`validateFields_pass2`)
    * the table invariant through `RewriteFieldNames`, the clauses, `ValidateFields`
    * `accepted_select_table`  the accepted SELECT: its table is a fixpoint of the checker (`TblOK`)
-/
import Kvql.Proofs.TypingAliasResolve

namespace Kvql.Proofs.Typing

open Kvql Kvql.Generated Kvql.PlanCheck Kvql.Parser

/-! ### names of the table -/

theorem find_go_isSome_setField (nm : Bytes) : ∀ (tbl : Tbl) (i k : Nat) (e : Expr),
    (Tbl.find.go nm (tbl.setField i e) k).isSome = (Tbl.find.go nm tbl k).isSome
  | [], i, k, e => by simp [Tbl.setField]
  | (n, x) :: rest, 0, k, e => by
    simp only [Tbl.setField, Tbl.find.go]
    split <;> simp
  | (n, x) :: rest, i + 1, k, e => by
    simp only [Tbl.setField, Tbl.find.go]
    split
    · simp
    · exact find_go_isSome_setField nm rest i (k + 1) e

theorem aliasP_setField (tbl : Tbl) (i : Nat) (e : Expr) : aliasP (tbl.setField i e) = aliasP tbl := by
  funext d
  exact find_go_isSome_setField d tbl i 0 e

theorem setField_get_cases : ∀ (tbl : Tbl) (i j : Nat) (e : Expr) (nm : Bytes) (f : Expr),
    (tbl.setField i e)[j]? = some (nm, f) → (j ≠ i ∧ tbl[j]? = some (nm, f)) ∨ (j = i ∧ f = e)
  | [], i, j, e, nm, f, h => by simp [Tbl.setField] at h
  | (n0, x0) :: rest, 0, j, e, nm, f, h => by
    cases j with
    | zero =>
      simp [Tbl.setField] at h
      exact .inr ⟨rfl, h.2.symm⟩
    | succ j =>
      simp [Tbl.setField] at h
      exact .inl ⟨by omega, by rw [List.getElem?_cons_succ]; exact h⟩
  | p :: rest, i + 1, j, e, nm, f, h => by
    cases j with
    | zero =>
      simp [Tbl.setField] at h
      exact .inl ⟨by omega, by rw [List.getElem?_cons_zero]; obtain ⟨a, b⟩ := p; simp at h; simp [h]⟩
    | succ j =>
      simp [Tbl.setField] at h
      rcases setField_get_cases rest i j e nm f h with ⟨h1, h2⟩ | ⟨h1, h2⟩
      · exact .inl ⟨by omega, by rw [List.getElem?_cons_succ]; exact h2⟩
      · exact .inr ⟨by omega, h2⟩

theorem setField_same : ∀ (tbl : Tbl) (i : Nat) (nm : Bytes) (f : Expr), tbl[i]? = some (nm, f) →
    tbl.setField i f = tbl
  | [], i, nm, f, h => by simp at h
  | (n0, x0) :: rest, 0, nm, f, h => by
    simp at h
    simp [Tbl.setField, h.2]
  | p :: rest, i + 1, nm, f, h => by
    simp at h
    simp [Tbl.setField, setField_same rest i nm f h]

/-! ### every node of what `Check` returns passed its test -/

theorem nodeOK_rewrite {ctx : CheckCtx} {x y : Expr} (hx : NodeOK ctx false x) (h : ctx.rewrite x = .ok y) :
    NodeOK ctx false y := by
  rcases rewrite_cases h with rfl | ⟨p, d, j, tgt, _, _, rfl⟩
  · exact hx
  · simp [NodeOK]

mutual
  theorem check_nodeOK (ctx : CheckCtx) : ∀ (e e' : Expr), ctx.check e = .ok e' → NodeOK ctx false e'
    | .binop pos op l r, e', h => by
      simp only [CheckCtx.check] at h
      obtain ⟨l1, hl1, h⟩ := bind_ok_iff.mp h
      obtain ⟨r1, hr1, h⟩ := bind_ok_iff.mp h
      obtain ⟨l2, hl2, h⟩ := bind_ok_iff.mp h
      obtain ⟨r2, hr2, h⟩ := bind_ok_iff.mp h
      obtain ⟨u, hop, h⟩ := bind_ok_iff.mp h
      cases h
      simp only [NodeOK]
      exact ⟨nodeOK_rewrite (check_nodeOK ctx l l1 hl1) hl2, nodeOK_rewrite (check_nodeOK ctx r r1 hr1) hr2, hop⟩
    | .field pos kw, e', h => by
      simp only [CheckCtx.check] at h
      split at h
      · cases h
      · split at h
        · cases h
        · cases h; simp [NodeOK]
    | .not pos r, e', h => by
      simp only [CheckCtx.check] at h
      obtain ⟨r', hr', h⟩ := bind_ok_iff.mp h
      obtain ⟨t, hrt, h⟩ := bind_ok_iff.mp h
      split at h
      · cases h
      · rename_i hne
        simp only [bne_iff_ne, ne_eq, Decidable.not_not] at hne
        cases h
        simp only [NodeOK]
        exact ⟨check_nodeOK ctx r r' hr', by rw [hrt, hne]⟩
    | .call pos nm args, e', h => by
      simp only [CheckCtx.check] at h
      split at h
      · rename_i q d
        obtain ⟨args', ha, h⟩ := bind_ok_iff.mp h
        cases h
        simp only [NodeOK]
        exact ⟨⟨q, d, rfl⟩, checkArgs_nodeOK ctx args args' ha⟩
      · cases h
    | .list pos items, e', h => by
      simp only [CheckCtx.check] at h
      split at h
      · cases h
      · obtain ⟨items', hi, h⟩ := bind_ok_iff.mp h
        obtain ⟨u, _, h⟩ := bind_ok_iff.mp h
        cases h
        simp only [NodeOK]
        exact checkItems_nodeOK ctx _ items' hi
    | .access pos l f, e', h => by
      simp only [CheckCtx.check] at h
      obtain ⟨l', _, h⟩ := bind_ok_iff.mp h
      obtain ⟨f', _, h⟩ := bind_ok_iff.mp h
      obtain ⟨u, _, h⟩ := bind_ok_iff.mp h
      cases h
      simp [NodeOK]
    | .str .., e', h => by simp only [CheckCtx.check] at h; cases h; simp [NodeOK]
    | .num .., e', h => by simp only [CheckCtx.check] at h; cases h; simp [NodeOK]
    | .float .., e', h => by simp only [CheckCtx.check] at h; cases h; simp [NodeOK]
    | .bool .., e', h => by simp only [CheckCtx.check] at h; cases h; simp [NodeOK]
    | .name .., e', h => by simp only [CheckCtx.check] at h; cases h; simp [NodeOK]
    | .cycle, e', h => by simp only [CheckCtx.check] at h; cases h; simp [NodeOK]
    | .ref .., e', h => by simp only [CheckCtx.check] at h; cases h; simp [NodeOK]
  theorem checkArgs_nodeOK (ctx : CheckCtx) : ∀ (args args' : List Expr), ctx.checkArgs args = .ok args' →
      NodeOKList ctx false args'
    | [], args', h => by simp only [CheckCtx.checkArgs] at h; cases h; simp [NodeOKList]
    | a :: as, args', h => by
      unfold CheckCtx.checkArgs at h
      obtain ⟨a', ha, h⟩ := bind_ok_iff.mp h
      obtain ⟨as', has, h⟩ := bind_ok_iff.mp h
      cases h
      simp only [NodeOKList]
      refine ⟨?_, checkArgs_nodeOK ctx as as' has⟩
      split at ha
      · exact nodeOK_rewrite (by simp [NodeOK]) ha
      · exact check_nodeOK ctx a _ ha
  theorem checkItems_nodeOK (ctx : CheckCtx) : ∀ (items items' : List Expr), ctx.checkItems items = .ok items' →
      NodeOKList ctx false items'
    | [], items', h => by simp only [CheckCtx.checkItems] at h; cases h; simp [NodeOKList]
    | a :: as, items', h => by
      unfold CheckCtx.checkItems at h
      obtain ⟨a', ha, h⟩ := bind_ok_iff.mp h
      obtain ⟨as', has, h⟩ := bind_ok_iff.mp h
      cases h
      simp only [NodeOKList]
      exact ⟨check_nodeOK ctx a _ ha, checkItems_nodeOK ctx as as' has⟩
end

/-! ### `Check` only creates references to named fields -/

theorem found_rewrite {ctx : CheckCtx} {al : Bytes → Bool} (hal : aliasP ctx.tbl = al) {x y : Expr}
    (hx : FoundP al x = true) (h : ctx.rewrite x = .ok y) : FoundP al y = true := by
  rcases rewrite_cases h with rfl | ⟨p, d, j, tgt, _, hf, rfl⟩
  · exact hx
  · simp only [FoundP, ← hal, aliasP, hf, Option.isSome_some]

mutual
  theorem check_found (ctx : CheckCtx) {al : Bytes → Bool} (hal : aliasP ctx.tbl = al) :
      ∀ (e e' : Expr), ctx.check e = .ok e' → FoundP al e = true → FoundP al e' = true
    | .binop pos op l r, e', h, hf => by
      simp only [CheckCtx.check] at h
      obtain ⟨l1, hl1, h⟩ := bind_ok_iff.mp h
      obtain ⟨r1, hr1, h⟩ := bind_ok_iff.mp h
      obtain ⟨l2, hl2, h⟩ := bind_ok_iff.mp h
      obtain ⟨r2, hr2, h⟩ := bind_ok_iff.mp h
      obtain ⟨u, _, h⟩ := bind_ok_iff.mp h
      cases h
      simp only [FoundP, Bool.and_eq_true] at hf ⊢
      exact ⟨found_rewrite hal (check_found ctx hal l l1 hl1 hf.1) hl2,
        found_rewrite hal (check_found ctx hal r r1 hr1 hf.2) hr2⟩
    | .field pos kw, e', h, _ => by
      simp only [CheckCtx.check] at h
      split at h
      · cases h
      · split at h
        · cases h
        · cases h; simp [FoundP]
    | .not pos r, e', h, hf => by
      simp only [CheckCtx.check] at h
      obtain ⟨r', hr', h⟩ := bind_ok_iff.mp h
      obtain ⟨t, _, h⟩ := bind_ok_iff.mp h
      split at h
      · cases h
      · cases h
        simp only [FoundP] at hf ⊢
        exact check_found ctx hal r r' hr' hf
    | .call pos nm args, e', h, hf => by
      simp only [CheckCtx.check] at h
      split at h
      · obtain ⟨args', ha, h⟩ := bind_ok_iff.mp h
        cases h
        simp only [FoundP, Bool.and_eq_true] at hf ⊢
        exact ⟨hf.1, checkArgs_found ctx hal args args' ha hf.2⟩
      · cases h
    | .list pos items, e', h, hf => by
      simp only [CheckCtx.check] at h
      split at h
      · cases h
      · obtain ⟨items', hi, h⟩ := bind_ok_iff.mp h
        obtain ⟨u, _, h⟩ := bind_ok_iff.mp h
        cases h
        simp only [FoundP] at hf ⊢
        exact checkItems_found ctx hal _ items' hi hf
    | .access pos l f, e', h, hf => by
      simp only [CheckCtx.check] at h
      obtain ⟨l', hl', h⟩ := bind_ok_iff.mp h
      obtain ⟨f', hf', h⟩ := bind_ok_iff.mp h
      obtain ⟨u, _, h⟩ := bind_ok_iff.mp h
      cases h
      simp only [FoundP, Bool.and_eq_true] at hf ⊢
      exact ⟨check_found ctx hal l l' hl' hf.1, check_found ctx hal f f' hf' hf.2⟩
    | .str .., e', h, hf => by simp only [CheckCtx.check] at h; cases h; exact hf
    | .num .., e', h, hf => by simp only [CheckCtx.check] at h; cases h; exact hf
    | .float .., e', h, hf => by simp only [CheckCtx.check] at h; cases h; exact hf
    | .bool .., e', h, hf => by simp only [CheckCtx.check] at h; cases h; exact hf
    | .name .., e', h, hf => by simp only [CheckCtx.check] at h; cases h; exact hf
    | .cycle, e', h, hf => by simp only [CheckCtx.check] at h; cases h; exact hf
    | .ref .., e', h, hf => by simp only [CheckCtx.check] at h; cases h; exact hf
  theorem checkArgs_found (ctx : CheckCtx) {al : Bytes → Bool} (hal : aliasP ctx.tbl = al) :
      ∀ (args args' : List Expr), ctx.checkArgs args = .ok args' → FoundPList al args = true →
        FoundPList al args' = true
    | [], args', h, _ => by simp only [CheckCtx.checkArgs] at h; cases h; simp [FoundPList]
    | a :: as, args', h, hf => by
      unfold CheckCtx.checkArgs at h
      obtain ⟨a', ha, h⟩ := bind_ok_iff.mp h
      obtain ⟨as', has, h⟩ := bind_ok_iff.mp h
      cases h
      simp only [FoundPList, Bool.and_eq_true] at hf ⊢
      refine ⟨?_, checkArgs_found ctx hal as as' has hf.2⟩
      split at ha
      · exact found_rewrite hal hf.1 ha
      · exact check_found ctx hal a _ ha hf.1
  theorem checkItems_found (ctx : CheckCtx) {al : Bytes → Bool} (hal : aliasP ctx.tbl = al) :
      ∀ (items items' : List Expr), ctx.checkItems items = .ok items' → FoundPList al items = true →
        FoundPList al items' = true
    | [], items', h, _ => by simp only [CheckCtx.checkItems] at h; cases h; simp [FoundPList]
    | a :: as, items', h, hf => by
      unfold CheckCtx.checkItems at h
      obtain ⟨a', ha, h⟩ := bind_ok_iff.mp h
      obtain ⟨as', has, h⟩ := bind_ok_iff.mp h
      cases h
      simp only [FoundPList, Bool.and_eq_true] at hf ⊢
      exact ⟨check_found ctx hal a _ ha hf.1, checkItems_found ctx hal as as' has hf.2⟩
end

mutual
  theorem foundP_of_refFree (al : Bytes → Bool) : ∀ e : Expr, refFree e = true → FoundP al e = true
    | .binop _ _ l r, h => by
      simp only [refFree, Bool.and_eq_true] at h
      simp [FoundP, foundP_of_refFree al l h.1, foundP_of_refFree al r h.2]
    | .not _ r, h => by
      simp only [refFree] at h
      simp [FoundP, foundP_of_refFree al r h]
    | .call _ n args, h => by
      simp only [refFree, Bool.and_eq_true] at h
      simp [FoundP, foundP_of_refFree al n h.1, foundPList_of_refFree al args h.2]
    | .list _ items, h => by
      simp only [refFree] at h
      simp [FoundP, foundPList_of_refFree al items h]
    | .access _ l f, h => by
      simp only [refFree, Bool.and_eq_true] at h
      simp [FoundP, foundP_of_refFree al l h.1, foundP_of_refFree al f h.2]
    | .ref .., h => by simp [refFree] at h
    | .cycle, _ | .field .., _ | .str .., _ | .name .., _ | .num .., _ | .float .., _ | .bool .., _ => by
      simp [FoundP]
  theorem foundPList_of_refFree (al : Bytes → Bool) : ∀ es : List Expr, refFree.refFreeList es = true →
      FoundPList al es = true
    | [], _ => by simp [FoundPList]
    | e :: es, h => by
      simp only [refFree.refFreeList, Bool.and_eq_true] at h
      simp [FoundPList, foundP_of_refFree al e h.1, foundPList_of_refFree al es h.2]
end

/-! ### settled trees: `Check` returns them unchanged -/

/-- not the name of a select field -/
def notAlias (al : Bytes → Bool) : Expr → Bool
  | .name _ d => !al d
  | _ => true

mutual
  /-- no name of a select field is left at a place where `Check` rewrites names (operands of
      binary operators, arguments of calls); the copies of the references are not looked at -/
  def SettledP (al : Bytes → Bool) : Expr → Bool
    | .binop _ _ l r => notAlias al l && notAlias al r && SettledP al l && SettledP al r
    | .not _ r => SettledP al r
    | .call _ _ args => SettledArgs al args
    | .list _ items => SettledList al items
    | .access _ l f => SettledP al l && SettledP al f
    | _ => true
  def SettledArgs (al : Bytes → Bool) : List Expr → Bool
    | [] => true
    | e :: es => notAlias al e && SettledP al e && SettledArgs al es
  def SettledList (al : Bytes → Bool) : List Expr → Bool
    | [] => true
    | e :: es => SettledP al e && SettledList al es
end

theorem rewrite_settled {ctx : CheckCtx} {al : Bytes → Bool} (hal : aliasP ctx.tbl = al) {x y : Expr}
    (hx : SettledP al x = true) (h : ctx.rewrite x = .ok y) : notAlias al y = true ∧ SettledP al y = true := by
  unfold CheckCtx.rewrite at h
  split at h
  · rename_i p d
    split at h
    · split at h
      · cases h
      · cases h; simp [notAlias, SettledP]
    · rename_i hnone
      cases h
      refine ⟨?_, hx⟩
      simp only [notAlias, ← hal, aliasP, hnone]
      rfl
  · rename_i hnn
    cases h
    refine ⟨?_, hx⟩
    cases x <;> first | rfl | exact absurd rfl (hnn _ _)

/-- `Check` keeps the kind of node -/
theorem check_not_name {ctx : CheckCtx} {a a' : Expr} (hn : ∀ p d, a ≠ .name p d) (h : ctx.check a = .ok a') :
    ∀ p d, a' ≠ .name p d := by
  intro p d he
  subst he
  cases a with
  | binop pos op l r =>
    simp only [CheckCtx.check] at h
    obtain ⟨l1, _, h⟩ := bind_ok_iff.mp h
    obtain ⟨r1, _, h⟩ := bind_ok_iff.mp h
    obtain ⟨l2, _, h⟩ := bind_ok_iff.mp h
    obtain ⟨r2, _, h⟩ := bind_ok_iff.mp h
    obtain ⟨u, _, h⟩ := bind_ok_iff.mp h
    cases h
  | field pos kw =>
    simp only [CheckCtx.check] at h
    split at h
    · cases h
    · split at h <;> cases h
  | not pos r =>
    simp only [CheckCtx.check] at h
    obtain ⟨r', _, h⟩ := bind_ok_iff.mp h
    obtain ⟨t, _, h⟩ := bind_ok_iff.mp h
    split at h <;> cases h
  | call pos nm args =>
    simp only [CheckCtx.check] at h
    split at h
    · obtain ⟨args', _, h⟩ := bind_ok_iff.mp h
      cases h
    · cases h
  | list pos items =>
    simp only [CheckCtx.check] at h
    split at h
    · cases h
    · obtain ⟨items', _, h⟩ := bind_ok_iff.mp h
      obtain ⟨u, _, h⟩ := bind_ok_iff.mp h
      cases h
  | access pos l f =>
    simp only [CheckCtx.check] at h
    obtain ⟨l', _, h⟩ := bind_ok_iff.mp h
    obtain ⟨f', _, h⟩ := bind_ok_iff.mp h
    obtain ⟨u, _, h⟩ := bind_ok_iff.mp h
    cases h
  | name q d' => exact hn q d' rfl
  | str _ _ => simp only [CheckCtx.check] at h; cases h
  | num _ _ _ => simp only [CheckCtx.check] at h; cases h
  | float _ _ _ => simp only [CheckCtx.check] at h; cases h
  | bool _ _ _ => simp only [CheckCtx.check] at h; cases h
  | cycle => simp only [CheckCtx.check] at h; cases h
  | ref _ _ _ => simp only [CheckCtx.check] at h; cases h

theorem notAlias_of_not_name {al : Bytes → Bool} {a : Expr} (hn : ∀ p d, a ≠ .name p d) : notAlias al a = true := by
  cases a <;> first | rfl | exact absurd rfl (hn _ _)

mutual
  /-- what `Check` returns is settled -/
  theorem check_settled (ctx : CheckCtx) {al : Bytes → Bool} (hal : aliasP ctx.tbl = al) :
      ∀ (e e' : Expr), ctx.check e = .ok e' → SettledP al e' = true
    | .binop pos op l r, e', h => by
      simp only [CheckCtx.check] at h
      obtain ⟨l1, hl1, h⟩ := bind_ok_iff.mp h
      obtain ⟨r1, hr1, h⟩ := bind_ok_iff.mp h
      obtain ⟨l2, hl2, h⟩ := bind_ok_iff.mp h
      obtain ⟨r2, hr2, h⟩ := bind_ok_iff.mp h
      obtain ⟨u, _, h⟩ := bind_ok_iff.mp h
      cases h
      obtain ⟨a1, a2⟩ := rewrite_settled hal (check_settled ctx hal l l1 hl1) hl2
      obtain ⟨b1, b2⟩ := rewrite_settled hal (check_settled ctx hal r r1 hr1) hr2
      simp [SettledP, a1, a2, b1, b2]
    | .field pos kw, e', h => by
      simp only [CheckCtx.check] at h
      split at h
      · cases h
      · split at h
        · cases h
        · cases h; simp [SettledP]
    | .not pos r, e', h => by
      simp only [CheckCtx.check] at h
      obtain ⟨r', hr', h⟩ := bind_ok_iff.mp h
      obtain ⟨t, _, h⟩ := bind_ok_iff.mp h
      split at h
      · cases h
      · cases h
        simp only [SettledP]
        exact check_settled ctx hal r r' hr'
    | .call pos nm args, e', h => by
      simp only [CheckCtx.check] at h
      split at h
      · obtain ⟨args', ha, h⟩ := bind_ok_iff.mp h
        cases h
        simp only [SettledP]
        exact checkArgs_settled ctx hal args args' ha
      · cases h
    | .list pos items, e', h => by
      simp only [CheckCtx.check] at h
      split at h
      · cases h
      · obtain ⟨items', hi, h⟩ := bind_ok_iff.mp h
        obtain ⟨u, _, h⟩ := bind_ok_iff.mp h
        cases h
        simp only [SettledP]
        exact checkItems_settled ctx hal _ items' hi
    | .access pos l f, e', h => by
      simp only [CheckCtx.check] at h
      obtain ⟨l', hl', h⟩ := bind_ok_iff.mp h
      obtain ⟨f', hf', h⟩ := bind_ok_iff.mp h
      obtain ⟨u, _, h⟩ := bind_ok_iff.mp h
      cases h
      simp [SettledP, check_settled ctx hal l l' hl', check_settled ctx hal f f' hf']
    | .str .., e', h => by simp only [CheckCtx.check] at h; cases h; simp [SettledP]
    | .num .., e', h => by simp only [CheckCtx.check] at h; cases h; simp [SettledP]
    | .float .., e', h => by simp only [CheckCtx.check] at h; cases h; simp [SettledP]
    | .bool .., e', h => by simp only [CheckCtx.check] at h; cases h; simp [SettledP]
    | .name .., e', h => by simp only [CheckCtx.check] at h; cases h; simp [SettledP]
    | .cycle, e', h => by simp only [CheckCtx.check] at h; cases h; simp [SettledP]
    | .ref .., e', h => by simp only [CheckCtx.check] at h; cases h; simp [SettledP]
  theorem checkArgs_settled (ctx : CheckCtx) {al : Bytes → Bool} (hal : aliasP ctx.tbl = al) :
      ∀ (args args' : List Expr), ctx.checkArgs args = .ok args' → SettledArgs al args' = true
    | [], args', h => by simp only [CheckCtx.checkArgs] at h; cases h; simp [SettledArgs]
    | a :: as, args', h => by
      unfold CheckCtx.checkArgs at h
      obtain ⟨a', ha, h⟩ := bind_ok_iff.mp h
      obtain ⟨as', has, h⟩ := bind_ok_iff.mp h
      cases h
      have ih := checkArgs_settled ctx hal as as' has
      split at ha
      · obtain ⟨a1, a2⟩ := rewrite_settled hal (x := .name _ _) (by simp [SettledP]) ha
        simp [SettledArgs, a1, a2, ih]
      · rename_i hnn
        have hn' := check_not_name (fun p d he => hnn p d he) ha
        simp [SettledArgs, notAlias_of_not_name hn', check_settled ctx hal a _ ha, ih]
  theorem checkItems_settled (ctx : CheckCtx) {al : Bytes → Bool} (hal : aliasP ctx.tbl = al) :
      ∀ (items items' : List Expr), ctx.checkItems items = .ok items' → SettledList al items' = true
    | [], items', h => by simp only [CheckCtx.checkItems] at h; cases h; simp [SettledList]
    | a :: as, items', h => by
      unfold CheckCtx.checkItems at h
      obtain ⟨a', ha, h⟩ := bind_ok_iff.mp h
      obtain ⟨as', has, h⟩ := bind_ok_iff.mp h
      cases h
      simp [SettledList, check_settled ctx hal a _ ha, checkItems_settled ctx hal as as' has]
end

theorem rewrite_notAlias {ctx : CheckCtx} {x : Expr} (h : notAlias (aliasP ctx.tbl) x = true) :
    ctx.rewrite x = .ok x := by
  unfold CheckCtx.rewrite
  split
  · rename_i p d
    simp only [notAlias, aliasP, Bool.not_eq_true', Option.isSome_eq_false_iff, Option.isNone_iff_eq_none] at h
    simp [h]
  · rfl

mutual
  /-- `Check` of a settled tree returns it unchanged -/
  theorem check_idem (ctx : CheckCtx) : ∀ (e e' : Expr), SettledP (aliasP ctx.tbl) e = true →
      ctx.check e = .ok e' → e' = e
    | .binop pos op l r, e', hs, h => by
      simp only [SettledP, Bool.and_eq_true] at hs
      simp only [CheckCtx.check] at h
      obtain ⟨l1, hl1, h2⟩ := bind_ok_iff.mp h
      obtain ⟨r1, hr1, h3⟩ := bind_ok_iff.mp h2
      have e1 := check_idem ctx l l1 hs.1.2 hl1
      have e2 := check_idem ctx r r1 hs.2 hr1
      rw [e1, e2, rewrite_notAlias hs.1.1.1, rewrite_notAlias hs.1.1.2] at h3
      simp only [Res.bind_ok] at h3
      obtain ⟨u, _, h4⟩ := bind_ok_iff.mp h3
      cases h4; rfl
    | .field pos kw, e', _, h => by
      simp only [CheckCtx.check] at h
      split at h
      · cases h
      · split at h
        · cases h
        · cases h; rfl
    | .not pos r, e', hs, h => by
      simp only [SettledP] at hs
      simp only [CheckCtx.check] at h
      obtain ⟨r', hr', h2⟩ := bind_ok_iff.mp h
      have e1 := check_idem ctx r r' hs hr'
      rw [e1] at h2
      obtain ⟨t, _, h3⟩ := bind_ok_iff.mp h2
      split at h3
      · cases h3
      · cases h3; rfl
    | .call pos nm args, e', hs, h => by
      simp only [SettledP] at hs
      simp only [CheckCtx.check] at h
      split at h
      · obtain ⟨args', ha, h⟩ := bind_ok_iff.mp h
        cases h
        rw [checkArgs_idem ctx args args' hs ha]
      · cases h
    | .list pos items, e', hs, h => by
      simp only [SettledP] at hs
      simp only [CheckCtx.check] at h
      split at h
      · cases h
      · obtain ⟨items', hi, h⟩ := bind_ok_iff.mp h
        obtain ⟨u, _, h⟩ := bind_ok_iff.mp h
        cases h
        rw [checkItems_idem ctx _ items' hs hi]
    | .access pos l f, e', hs, h => by
      simp only [SettledP, Bool.and_eq_true] at hs
      simp only [CheckCtx.check] at h
      obtain ⟨l', hl', h⟩ := bind_ok_iff.mp h
      obtain ⟨f', hf', h⟩ := bind_ok_iff.mp h
      obtain ⟨u, _, h⟩ := bind_ok_iff.mp h
      cases h
      rw [check_idem ctx l l' hs.1 hl', check_idem ctx f f' hs.2 hf']
    | .str .., e', _, h => by simp only [CheckCtx.check] at h; cases h; rfl
    | .num .., e', _, h => by simp only [CheckCtx.check] at h; cases h; rfl
    | .float .., e', _, h => by simp only [CheckCtx.check] at h; cases h; rfl
    | .bool .., e', _, h => by simp only [CheckCtx.check] at h; cases h; rfl
    | .name .., e', _, h => by simp only [CheckCtx.check] at h; cases h; rfl
    | .cycle, e', _, h => by simp only [CheckCtx.check] at h; cases h; rfl
    | .ref .., e', _, h => by simp only [CheckCtx.check] at h; cases h; rfl
  theorem checkArgs_idem (ctx : CheckCtx) : ∀ (args args' : List Expr), SettledArgs (aliasP ctx.tbl) args = true →
      ctx.checkArgs args = .ok args' → args' = args
    | [], args', _, h => by simp only [CheckCtx.checkArgs] at h; cases h; rfl
    | a :: as, args', hs, h => by
      simp only [SettledArgs, Bool.and_eq_true] at hs
      unfold CheckCtx.checkArgs at h
      obtain ⟨a', ha, h⟩ := bind_ok_iff.mp h
      obtain ⟨as', has, h⟩ := bind_ok_iff.mp h
      cases h
      rw [checkArgs_idem ctx as as' hs.2 has]
      congr 1
      split at ha
      · rw [rewrite_notAlias hs.1.1] at ha
        cases ha; rfl
      · exact check_idem ctx a _ hs.1.2 ha
  theorem checkItems_idem (ctx : CheckCtx) : ∀ (items items' : List Expr), SettledList (aliasP ctx.tbl) items = true →
      ctx.checkItems items = .ok items' → items' = items
    | [], items', _, h => by simp only [CheckCtx.checkItems] at h; cases h; rfl
    | a :: as, items', hs, h => by
      simp only [SettledList, Bool.and_eq_true] at hs
      unfold CheckCtx.checkItems at h
      obtain ⟨a', ha, h⟩ := bind_ok_iff.mp h
      obtain ⟨as', has, h⟩ := bind_ok_iff.mp h
      cases h
      rw [checkItems_idem ctx as as' hs.2 has, check_idem ctx a _ hs.1 ha]
end

end Kvql.Proofs.Typing
