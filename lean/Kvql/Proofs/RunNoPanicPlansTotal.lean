/-
  RunNoPanic, part 7a: the plan layer (Model/Plans.lean) without fault injection is TOTAL up to
  evaluation failures: with `PlanBatchSize ≥ 1` and no injected fault a statement never ends in a
  storage error, a nil cursor or a divergence — every loop fuel of the plan layer suffices.

  Method: `Post E Q x` — the result `x` of a computation run with fault `none` is `ok a` with `Q a`
  or `error e` with `E e` — is closed under `bind`; one lemma per function of Plans.lean, with the
  measure facts (rows handed out + size left ≤ size before) that make the fuels sufficient.
-/
import Kvql.Proofs.RunNoPanicBase
import Kvql.Proofs.RunScan

namespace Kvql.Proofs.RunNoPanic
namespace PlansTotal

open Kvql Kvql.Plans Kvql.Storage Kvql.Proofs.Plan

/-- `EvalOnly` of RunNoPanicPlans.lean, verbatim -/
def EvalOnlyT : Plans.Stmt → Prop
  | .select _ filter => ∀ p e, filter p = .error e → e = .eval
  | .delete _ filter _ _ => ∀ p e, filter p = .error e → e = .eval
  | .put pairs => ∀ pp ∈ pairs, (∀ e, pp.key = .error e → e = .eval) ∧ ∀ k e, pp.value k = .error e → e = .eval
  | .remove keys => ∀ k ∈ keys, ∀ e, k = .error e → e = .eval

/-! ### the predicate -/

/-- the result is `ok a` with `Q a`, or an error allowed by `E` -/
def Post (E : Storage.Err → Prop) (Q : α → Prop) (x : Except Storage.Err α × Storage.World) : Prop :=
  match x.1 with
  | .ok a => Q a
  | .error e => E e

/-- no error at all -/
abbrev NoErr : Storage.Err → Prop := fun _ => False
/-- an evaluation failure only -/
abbrev EvalErr : Storage.Err → Prop := fun e => e = .eval

theorem Post.ok {E : Storage.Err → Prop} {Q : α → Prop} {a : α} {w : Storage.World} (h : Q a) : Post E Q (.ok a, w) := h

theorem Post.pure {E : Storage.Err → Prop} {Q : α → Prop} {a : α} {w : Storage.World} (h : Q a) :
    Post E Q ((pure a : Storage.M α) none w) := h

theorem Post.throw {E : Storage.Err → Prop} {Q : α → Prop} {e : Storage.Err} {w : Storage.World} (h : E e) :
    Post E Q ((Storage.M.throw e : Storage.M α) none w) := h

theorem Post.bind {E : Storage.Err → Prop} {Q1 : α → Prop} {Q : β → Prop} {m : Storage.M α} {k : α → Storage.M β} {w : Storage.World}
    (h1 : Post E Q1 (m none w)) (h2 : ∀ a w', Q1 a → Post E Q (k a none w')) :
    Post E Q ((m >>= k) none w) := by
  simp only [run_bind]
  rcases hm : m none w with ⟨r, w'⟩
  rw [hm] at h1
  cases r with
  | ok a => exact h2 a w' h1
  | error e => exact h1

theorem Post.mono {E E' : Storage.Err → Prop} {Q Q' : α → Prop} {x : Except Storage.Err α × Storage.World}
    (h : Post E Q x) (hE : ∀ e, E e → E' e) (hQ : ∀ a, Q a → Q' a) : Post E' Q' x := by
  unfold Post at h ⊢
  split
  next a ha => rw [ha] at h; exact hQ a h
  next e he => rw [he] at h; exact hE e h

theorem Post.weaken {E : Storage.Err → Prop} {Q Q' : α → Prop} {x : Except Storage.Err α × Storage.World}
    (h : Post E Q x) (hQ : ∀ a, Q a → Q' a) : Post E Q' x := h.mono (fun _ h => h) hQ

theorem Post.noErr {E : Storage.Err → Prop} {Q : α → Prop} {x : Except Storage.Err α × Storage.World}
    (h : Post NoErr Q x) : Post E Q x := h.mono (fun _ h => h.elim) (fun _ h => h)

theorem Post.ofExcept {E : Storage.Err → Prop} {Q : α → Prop} {x : Except Storage.Err α} {w : Storage.World}
    (hok : ∀ a, x = .ok a → Q a) (herr : ∀ e, x = .error e → E e) : Post E Q (Storage.M.ofExcept x none w) := by
  cases x with
  | ok a => exact hok a rfl
  | error e => exact herr e rfl

/-! ### the storage interface never fails without a fault -/

theorem post_call (c : Call) (w : Storage.World) : Post NoErr (fun _ => True) (call c none w) := by
  rw [run_call_none]; exact trivial

theorem post_get (k : Bytes) (w : Storage.World) : Post NoErr (fun _ => True) (Storage.get k none w) := by
  unfold Storage.get
  refine Post.bind (post_call _ _) (fun _ w' _ => ?_)
  exact trivial

theorem post_batchDelete (ks : List Bytes) (w : Storage.World) : ∃ w', batchDelete ks none w = (.ok (), w') := by
  simp [batchDelete, run_call_none]

theorem post_delete (k : Bytes) (w : Storage.World) : Post NoErr (fun _ => True) (Storage.delete k none w) := by
  simp [Storage.delete, run_call_none, Post]

theorem post_batchDelete' (ks : List Bytes) (w : Storage.World) : Post NoErr (fun _ => True) (batchDelete ks none w) := by
  simp [batchDelete, run_call_none, Post]

theorem post_put (k v : Bytes) (w : Storage.World) : Post NoErr (fun _ => True) (Storage.put k v none w) := by
  simp [Storage.put, run_call_none, Post]

theorem post_batchPut (kvs : List Storage.Pair) (w : Storage.World) : Post NoErr (fun _ => True) (batchPut kvs none w) := by
  simp [batchPut, run_call_none, Post]

theorem post_cursor (w : Storage.World) : Post NoErr (fun _ => True) (cursor none w) := by
  simp [cursor, run_call_none, Post]

theorem post_seek (c : Cursor) (k : Bytes) (w : Storage.World) : Post NoErr (fun _ => True) (c.seek k none w) := by
  simp [Cursor.seek, run_call_none, Post]

/-! ### filter -/

/-- the filter fails with `eval` only -/
def FilterOK (filter : Filter) : Prop := ∀ p e, filter p = .error e → e = Storage.Err.eval

theorem filterChunk_err {filter : Filter} (hF : FilterOK filter) :
    ∀ (l : List Storage.Pair) (e : Storage.Err), filterChunk filter l = .error e → e = .eval
  | [], e, h => by simp [filterChunk] at h
  | p :: r, e, h => by
    simp only [filterChunk] at h
    split at h
    next e' he' => cases h; exact hF p _ he'
    next b hb =>
      split at h
      next e' he' => cases h; exact filterChunk_err hF r _ he'
      next => cases h

theorem selectMatches_length_le : ∀ (ps : List Storage.Pair) (bs : List Bool), (selectMatches ps bs).length ≤ ps.length
  | [], _ => by simp [selectMatches]
  | _ :: _, [] => by simp [selectMatches]
  | p :: ps, b :: bs => by
    have := selectMatches_length_le ps bs
    simp only [selectMatches]
    split <;> simp only [List.length_cons] <;> omega

theorem post_filterChunk {filter : Filter} (hF : FilterOK filter) (chunk : List Storage.Pair) (w : Storage.World) :
    Post EvalErr (fun _ => True) (Storage.M.ofExcept (filterChunk filter chunk) none w) :=
  Post.ofExcept (fun _ _ => trivial) (fun e he => filterChunk_err hF chunk e he)

/-! ### cursor scans -/

theorem post_cursorNext (stop : Bytes → Bool) {filter : Filter} (hF : FilterOK filter) :
    ∀ (rest : List Storage.Pair) (w : Storage.World),
      Post EvalErr (fun x => x.2.1.length ≤ rest.length ∧ (x.1.isSome = true → x.2.1.length < rest.length))
        (cursorNext stop filter rest none w)
  | [], w => by
    unfold cursorNext
    exact Post.bind (post_call _ _).noErr (fun _ _ _ => Post.pure (by simp))
  | p :: r, w => by
    unfold cursorNext
    refine Post.bind (post_call _ _).noErr (fun _ w' _ => ?_)
    split
    · exact Post.pure (by simp)
    · cases hfp : filter p with
      | error e => exact Post.throw (hF p e hfp)
      | ok b =>
        cases b with
        | true => exact Post.pure (by simp)
        | false =>
          refine (post_cursorNext stop hF r w').weaken ?_
          intro x hx
          simp only [List.length_cons]
          exact ⟨by omega, fun h => by have := hx.2 h; omega⟩

theorem post_readChunk (stop : Bytes → Bool) :
    ∀ (i : Nat) (rest acc : List Storage.Pair) (w : Storage.World),
      Post NoErr (fun x => x.1.length + x.2.2.length ≤ acc.length + rest.length ∧ x.2.2.length ≤ rest.length ∧
          (1 ≤ i → x.2.1 = true ∨ x.2.2.length < rest.length))
        (readChunk stop i rest acc none w)
  | 0, rest, acc, w => by
    unfold readChunk
    exact Post.pure (by simp)
  | i + 1, [], acc, w => by
    unfold readChunk
    exact Post.bind (post_call _ _) (fun _ _ _ => Post.pure (by simp))
  | i + 1, p :: r, acc, w => by
    unfold readChunk
    refine Post.bind (post_call _ _) (fun _ w' _ => ?_)
    split
    · exact Post.pure (by simp)
    · refine (post_readChunk stop i r (acc ++ [p]) w').weaken ?_
      intro x hx
      simp only [List.length_cons, List.length_append, List.length_nil] at hx ⊢
      exact ⟨by omega, by omega, fun _ => .inr (by omega)⟩

theorem post_cursorBatchLoop (stop : Bytes → Bool) {filter : Filter} (hF : FilterOK filter) (bs : Nat) (hbs : 1 ≤ bs) :
    ∀ (fuel : Nat) (rest ret : List Storage.Pair) (w : Storage.World), rest.length + 1 ≤ fuel →
      Post EvalErr (fun x => x.1.length + x.2.1.length ≤ ret.length + rest.length)
        (cursorBatchLoop stop filter bs fuel rest ret none w)
  | 0, rest, ret, w, h => by omega
  | fuel + 1, rest, ret, w, h => by
    unfold cursorBatchLoop
    refine Post.bind (post_readChunk stop bs rest [] w).noErr ?_
    intro ⟨chunk, done, rest'⟩ w' ⟨h1, _, h2⟩
    have h2 := h2 hbs
    simp only [List.length_nil, Nat.zero_add] at h1 h2 ⊢
    split
    · split
      · exact Post.pure (by simp only; omega)
      · next hd =>
        have hlt : rest'.length < rest.length := by
          rcases h2 with h2 | h2
          · exact absurd h2 hd
          · exact h2
        refine (post_cursorBatchLoop stop hF bs hbs fuel rest' ret w' (by omega)).weaken ?_
        intro x hx
        omega
    · refine Post.bind (post_filterChunk hF chunk w') ?_
      intro ms w'' _
      have hsel := selectMatches_length_le chunk ms
      split
      · exact Post.pure (by simp only [List.length_append]; omega)
      · next hd =>
        split
        · exact Post.pure (by simp only [List.length_append]; omega)
        · have hlt : rest'.length < rest.length := by
            rcases h2 with h2 | h2
            · exact absurd h2 hd
            · exact h2
          refine (post_cursorBatchLoop stop hF bs hbs fuel rest' _ w'' (by omega)).weaken ?_
          intro x hx
          simp only [List.length_append] at hx
          omega

/-! ### MultiGet -/

theorem post_mgetNext {filter : Filter} (hF : FilterOK filter) :
    ∀ (ks : List Bytes) (w : Storage.World),
      Post EvalErr (fun x => x.2.length ≤ ks.length ∧ (x.1.isSome = true → x.2.length < ks.length))
        (mgetNext filter ks none w)
  | [], w => by
    unfold mgetNext
    exact Post.pure (by simp)
  | k :: ks, w => by
    unfold mgetNext
    refine Post.bind (post_get k w).noErr (fun v w' _ => ?_)
    have ih := fun w => post_mgetNext hF ks w
    have hrec : ∀ w, Post EvalErr
        (fun x => x.2.length ≤ (k :: ks).length ∧ (x.1.isSome = true → x.2.length < (k :: ks).length))
        (mgetNext filter ks none w) := by
      intro w
      refine (ih w).weaken ?_
      intro x hx
      simp only [List.length_cons]
      exact ⟨by omega, fun h => by have := hx.2 h; omega⟩
    cases v with
    | none => exact hrec w'
    | some v =>
      simp only
      cases hfp : filter (k, v) with
      | error e => exact Post.throw (hF _ e hfp)
      | ok b =>
        cases b with
        | true => exact Post.pure (by simp)
        | false => exact hrec w'

theorem post_mgetReadChunk :
    ∀ (i : Nat) (ks : List Bytes) (acc : List Storage.Pair) (w : Storage.World),
      Post NoErr (fun x => x.1.length + x.2.2.length ≤ acc.length + ks.length ∧ x.2.2.length ≤ ks.length ∧
          (1 ≤ i → x.2.1 = true ∨ x.2.2.length < ks.length))
        (mgetReadChunk i ks acc none w)
  | 0, ks, acc, w => by
    unfold mgetReadChunk
    exact Post.pure (by simp)
  | i + 1, [], acc, w => by
    unfold mgetReadChunk
    exact Post.pure (by simp)
  | i + 1, k :: ks, acc, w => by
    unfold mgetReadChunk
    refine Post.bind (post_get k w) (fun v w' _ => ?_)
    cases v with
    | none =>
      refine (post_mgetReadChunk i ks acc w').weaken ?_
      intro x hx
      simp only [List.length_cons] at hx ⊢
      exact ⟨by omega, by omega, fun _ => .inr (by omega)⟩
    | some v =>
      refine (post_mgetReadChunk i ks (acc ++ [(k, v)]) w').weaken ?_
      intro x hx
      simp only [List.length_cons, List.length_append, List.length_nil] at hx ⊢
      exact ⟨by omega, by omega, fun _ => .inr (by omega)⟩

theorem post_mgetBatchLoop {filter : Filter} (hF : FilterOK filter) (bs : Nat) (hbs : 1 ≤ bs) :
    ∀ (fuel : Nat) (ks : List Bytes) (ret : List Storage.Pair) (w : Storage.World), ks.length + 1 ≤ fuel →
      Post EvalErr (fun x => x.1.length + x.2.length ≤ ret.length + ks.length)
        (mgetBatchLoop filter bs fuel ks ret none w)
  | 0, ks, ret, w, h => by omega
  | fuel + 1, ks, ret, w, h => by
    unfold mgetBatchLoop
    refine Post.bind (post_mgetReadChunk bs ks [] w).noErr ?_
    intro ⟨chunk, fin, ks'⟩ w' ⟨h1, _, h2⟩
    have h2 := h2 hbs
    simp only [List.length_nil, Nat.zero_add] at h1 h2 ⊢
    have tail : ∀ (ret' : List Storage.Pair) (w'' : Storage.World), ret'.length ≤ ret.length + chunk.length →
        Post EvalErr (fun x => x.1.length + x.2.length ≤ ret.length + ks.length)
          ((if (fin || decide (ret'.length ≥ bs)) = true then pure (ret', ks')
            else mgetBatchLoop filter bs fuel ks' ret' : Storage.M _) none w'') := by
      intro ret' w'' hret
      split
      · exact Post.pure (by simp only; omega)
      · next hc =>
        have hlt : ks'.length < ks.length := by
          rcases h2 with h2 | h2
          · subst h2; simp at hc
          · exact h2
        refine (post_mgetBatchLoop hF bs hbs fuel ks' ret' w'' (by omega)).weaken ?_
        intro x hx
        omega
    split
    · exact Post.bind (Q1 := fun ret' : List Storage.Pair => ret'.length ≤ ret.length + chunk.length)
        (Post.pure (by omega)) tail
    · refine Post.bind (post_filterChunk hF chunk w') ?_
      intro ms w'' _
      have hsel := selectMatches_length_le chunk ms
      exact Post.bind (Q1 := fun ret' : List Storage.Pair => ret'.length ≤ ret.length + chunk.length)
        (Post.pure (by simp only [List.length_append]; omega)) tail

/-! ### the scan plans as one child -/

/-- after `Init` the `iter` of a cursor scan is not nil -/
def ScanInv (node : ScanNode) (st : ScanSt) : Prop := node.isCursorScan = true → st.iter.isSome = true

theorem post_scanInit (node : ScanNode) (st : ScanSt) (w : Storage.World) :
    Post NoErr (ScanInv node) (node.init st none w) := by
  unfold ScanNode.init
  cases node with
  | full =>
    exact Post.bind (post_cursor w) (fun c w' _ => Post.bind (post_seek _ _ _) (fun c' w'' _ => Post.pure (fun _ => rfl)))
  | «prefix» p =>
    exact Post.bind (post_cursor w) (fun c w' _ => Post.bind (post_seek _ _ _) (fun c' w'' _ => Post.pure (fun _ => rfl)))
  | range a b =>
    refine Post.bind (post_cursor w) (fun c w' _ => ?_)
    cases a with
    | none => exact Post.pure (fun _ => rfl)
    | some s => exact Post.bind (post_seek _ _ _) (fun c' w'' _ => Post.pure (fun _ => rfl))
  | mget ks => exact Post.pure (fun h => by simp [ScanNode.isCursorScan] at h)
  | empty => exact Post.pure (fun h => by simp [ScanNode.isCursorScan] at h)

theorem scanNext_cursor_eq (node : ScanNode) (hc : node.isCursorScan = true) (filter : Filter) (st : ScanSt) :
    node.next filter st =
      (if st.done then pure (none, st)
       else
        match st.iter with
        | none => Storage.M.throw .nilCursor
        | some c => do
          let (r, rest, done) ← cursorNext node.stop filter c.rest
          pure (r, { st with iter := some { c with rest := rest }, done := done })) := by
  cases node <;> simp [ScanNode.isCursorScan] at hc <;> rfl

theorem scanBatch_cursor_eq (node : ScanNode) (hc : node.isCursorScan = true) (filter : Filter) (bs : Nat) (st : ScanSt) :
    node.batch filter bs st =
      (if st.done then pure ([], st)
       else
        match st.iter with
        | none => Storage.M.throw .nilCursor
        | some c => do
          let (rows, rest, done) ← cursorBatchLoop node.stop filter bs (c.rest.length + 1) c.rest []
          pure (rows, { st with iter := some { c with rest := rest }, done := done })) := by
  cases node <;> simp [ScanNode.isCursorScan] at hc <;> rfl

theorem post_scanNext (node : ScanNode) {filter : Filter} (hF : FilterOK filter) (st : ScanSt) (hst : ScanInv node st)
    (w : Storage.World) :
    Post EvalErr (fun x => ScanInv node x.2 ∧ x.2.size ≤ st.size ∧ (x.1.isSome = true → x.2.size < st.size))
      (node.next filter st none w) := by
  by_cases hc : node.isCursorScan = true
  · rw [scanNext_cursor_eq node hc]
    split
    · exact Post.pure ⟨hst, Nat.le_refl _, by simp⟩
    · have hi := hst hc
      cases hit : st.iter with
      | none => rw [hit] at hi; cases hi
      | some c =>
        simp only
        refine Post.bind (post_cursorNext node.stop hF c.rest w) ?_
        intro ⟨r, rest, done⟩ w' ⟨h1, h2⟩
        simp only at h1 h2
        refine Post.pure ⟨fun _ => rfl, ?_, ?_⟩
        · simp only [ScanSt.size, hit]; omega
        · intro h; have := h2 h; simp only [ScanSt.size, hit]; omega
  · cases node with
    | mget ks =>
      simp only [ScanNode.next]
      refine Post.bind (post_mgetNext hF st.keysLeft w) ?_
      intro ⟨r, ks'⟩ w' ⟨h1, h2⟩
      simp only at h1 h2
      refine Post.pure ⟨fun h => by simp [ScanNode.isCursorScan] at h, ?_, ?_⟩
      · simp only [ScanSt.size]; omega
      · intro h; have := h2 h; simp only [ScanSt.size]; omega
    | empty =>
      simp only [ScanNode.next]
      exact Post.pure ⟨hst, Nat.le_refl _, by simp⟩
    | full => simp [ScanNode.isCursorScan] at hc
    | «prefix» p => simp [ScanNode.isCursorScan] at hc
    | range a b => simp [ScanNode.isCursorScan] at hc

theorem post_scanBatch (node : ScanNode) {filter : Filter} (hF : FilterOK filter) (bs : Nat) (hbs : 1 ≤ bs)
    (st : ScanSt) (hst : ScanInv node st) (w : Storage.World) :
    Post EvalErr (fun x => ScanInv node x.2 ∧ x.1.length + x.2.size ≤ st.size)
      (node.batch filter bs st none w) := by
  by_cases hc : node.isCursorScan = true
  · rw [scanBatch_cursor_eq node hc]
    split
    · exact Post.pure ⟨hst, by simp⟩
    · have hi := hst hc
      cases hit : st.iter with
      | none => rw [hit] at hi; cases hi
      | some c =>
        simp only
        refine Post.bind (post_cursorBatchLoop node.stop hF bs hbs _ c.rest [] w (Nat.le_refl _)) ?_
        intro ⟨rows, rest, done⟩ w' h1
        refine Post.pure ⟨fun _ => rfl, ?_⟩
        simp only [List.length_nil, Nat.zero_add] at h1
        simp only [ScanSt.size, hit]; omega
  · cases node with
    | mget ks =>
      simp only [ScanNode.batch]
      refine Post.bind (post_mgetBatchLoop hF bs hbs _ st.keysLeft [] w (Nat.le_refl _)) ?_
      intro ⟨rows, ks'⟩ w' h1
      refine Post.pure ⟨fun h => by simp [ScanNode.isCursorScan] at h, ?_⟩
      simp only [List.length_nil, Nat.zero_add] at h1
      simp only [ScanSt.size]; omega
    | empty =>
      simp only [ScanNode.batch]
      exact Post.pure ⟨hst, by simp⟩
    | full => simp [ScanNode.isCursorScan] at hc
    | «prefix» p => simp [ScanNode.isCursorScan] at hc
    | range a b => simp [ScanNode.isCursorScan] at hc

/-! ### children -/

/-- a child whose `Init` never fails and establishes `Inv`, and whose `Batch` (from a state with `Inv`)
    fails with `eval` only, keeps `Inv`, and hands out at most as many rows as its size decreases -/
structure ChildOK (c : Child σ) (Inv : σ → Prop) (size : σ → Nat) (bs : Nat) : Prop where
  init : ∀ s w, Post NoErr Inv (c.init s none w)
  batch : ∀ s w, Inv s → Post EvalErr (fun x => Inv x.2 ∧ x.1.length + size x.2 ≤ size s) (c.batch bs s none w)

theorem scanChildOK (node : ScanNode) {filter : Filter} (hF : FilterOK filter) (bs : Nat) (hbs : 1 ≤ bs) :
    ChildOK (node.child filter) (ScanInv node) ScanSt.size bs :=
  ⟨fun s w => post_scanInit node s w, fun s w hs => post_scanBatch node hF bs hbs s hs w⟩

/-! ### LimitPlan -/

section limit
variable {σ : Type} {c : Child σ} {Inv : σ → Prop} {size : σ → Nat} {bs : Nat} (hc : ChildOK c Inv size bs)
include hc

theorem post_skipBatch (start : Nat) :
    ∀ (fuel skips : Nat) (s : σ) (w : Storage.World), Inv s → start - skips ≤ fuel →
      Post EvalErr (fun x => Inv x.2.2 ∧
          (match x.1 with
           | none => size x.2.2 ≤ size s
           | some rows => rows.length + size x.2.2 ≤ size s))
        (LimitPlan.skipBatch start bs c fuel skips s none w)
  | 0, skips, s, w, hs, hf => by
    unfold LimitPlan.skipBatch
    split
    · omega
    · exact Post.pure ⟨hs, by simp⟩
  | fuel + 1, skips, s, w, hs, hf => by
    unfold LimitPlan.skipBatch
    split
    · refine Post.bind (hc.batch s w hs) ?_
      intro ⟨rows, s'⟩ w' ⟨hi, hsz⟩
      simp only at hi hsz ⊢
      split
      · exact Post.pure ⟨hi, by simp only; omega⟩
      · next hne =>
        have hpos : 1 ≤ rows.length := by
          cases rows with
          | nil => simp at hne
          | cons _ _ => simp
        split
        · refine (post_skipBatch start fuel (skips + rows.length) s' w' hi (by omega)).weaken ?_
          intro x hx
          refine ⟨hx.1, ?_⟩
          have h2 := hx.2
          split <;> rename_i heq <;> rw [heq] at h2 <;> simp only at h2 <;> omega
        · exact Post.pure ⟨hi, by simp only [List.length_drop]; omega⟩
    · exact Post.pure ⟨hs, by simp⟩

theorem post_fillBatch (count : Nat) :
    ∀ (fuel current : Nat) (acc : List Storage.Pair) (s : σ) (w : Storage.World), Inv s →
      1 ≤ fuel → bs + 1 ≤ fuel + acc.length →
      Post EvalErr (fun x => Inv x.2.2 ∧ x.1.length + size x.2.2 ≤ acc.length + size s)
        (LimitPlan.fillBatch count bs c fuel current acc s none w)
  | 0, current, acc, s, w, hs, hf, _ => by omega
  | fuel + 1, current, acc, s, w, hs, _, hf => by
    unfold LimitPlan.fillBatch
    refine Post.bind (hc.batch s w hs) ?_
    intro ⟨rows, s'⟩ w' ⟨hi, hsz⟩
    simp only at hi hsz ⊢
    split
    · exact Post.pure ⟨hi, by simp only; omega⟩
    · next hne =>
      have hpos : 1 ≤ rows.length := by
        cases rows with
        | nil => simp at hne
        | cons _ _ => simp
      have htk : (rows.take (count - current)).length ≤ rows.length := by
        simp only [List.length_take]; omega
      split
      · exact Post.pure ⟨hi, by simp only [List.length_append]; omega⟩
      · next hcur =>
        split
        · exact Post.pure ⟨hi, by simp only [List.length_append]; omega⟩
        · next hlen =>
          have htk1 : 1 ≤ (rows.take (count - current)).length := by
            simp only [List.length_take] at hcur ⊢; omega
          simp only [List.length_append] at hlen
          refine (post_fillBatch count fuel _ _ s' w' hi (by omega)
            (by simp only [List.length_append]; omega)).weaken ?_
          intro x hx
          simp only [List.length_append] at hx
          exact ⟨hx.1, by omega⟩

theorem post_limitBatch (start count : Nat) (st : LimitSt σ) (hst : Inv st.child) (w : Storage.World) :
    Post EvalErr (fun x => Inv x.2.child ∧ x.1.length + size x.2.child ≤ size st.child)
      (LimitPlan.batch start count c bs st none w) := by
  unfold LimitPlan.batch
  refine Post.bind (post_skipBatch hc start _ _ st.child w hst (Nat.le_refl _)) ?_
  intro ⟨rows?, skips, s1⟩ w' ⟨hi, hsz⟩
  simp only at hi hsz ⊢
  cases rows? with
  | none =>
    simp only at hsz ⊢
    exact Post.pure ⟨hi, by simp only [List.length_nil]; omega⟩
  | some rows =>
    simp only at hsz ⊢
    have htk : (rows.take (count - st.lim.current)).length ≤ rows.length := by
      simp only [List.length_take]; omega
    split
    · exact Post.pure ⟨hi, by simp only; omega⟩
    · refine Post.bind (post_fillBatch hc count (bs + 1) _ _ s1 w' hi (by omega) (by omega)) ?_
      intro ⟨out, current2, s2⟩ w'' ⟨hi2, hsz2⟩
      simp only at hi2 hsz2 ⊢
      exact Post.pure ⟨hi2, by simp only; omega⟩

theorem post_limitInit (st : LimitSt σ) (w : Storage.World) :
    Post NoErr (fun x : LimitSt σ => Inv x.child) (LimitPlan.init c st none w) := by
  unfold LimitPlan.init
  exact Post.bind (hc.init st.child w) (fun s w' hs => Post.pure hs)

theorem limitChildOK (start count : Nat) :
    ChildOK (LimitPlan.child start count c) (fun x : LimitSt σ => Inv x.child) (fun x => size x.child) bs :=
  ⟨fun s w => post_limitInit hc s w, fun s w hs => post_limitBatch hc start count s hs w⟩

end limit

/-! ### DeletePlan -/

theorem deleteLoop_err {σ : Type} {c : Child σ} {Inv : σ → Prop} {size : σ → Nat} {bs : Nat}
    (hc : ChildOK c Inv size bs) :
    ∀ (fuel count : Nat) (s : σ) (w : Storage.World), Inv s → size s + 1 ≤ fuel →
      ∀ e, (DeletePlan.loop c bs fuel count s none w).1.1.1 = .error e → e = Storage.Err.eval
  | 0, count, s, w, hs, hf => by omega
  | fuel + 1, count, s, w, hs, hf => by
    intro e
    unfold DeletePlan.loop
    have hb := hc.batch s w hs
    rcases hbe : c.batch bs s none w with ⟨r, w'⟩
    rw [hbe] at hb
    cases r with
    | error e' =>
      simp only
      intro h
      cases h
      exact hb
    | ok x =>
      obtain ⟨rows, s'⟩ := x
      obtain ⟨hi, hsz⟩ : Inv s' ∧ rows.length + size s' ≤ size s := hb
      simp only
      split
      · intro h; cases h
      · next hne =>
        have hpos : 1 ≤ rows.length := by
          cases rows with
          | nil => simp at hne
          | cons _ _ => simp
        obtain ⟨w'', hbd⟩ := post_batchDelete (rows.map (·.1)) w'
        rw [hbd]
        simp only
        exact deleteLoop_err hc fuel _ s' w'' hi (by omega) e

/-! ### PUT / REMOVE -/

def PairsOK (pairs : List PutPair) : Prop :=
  ∀ pp ∈ pairs, (∀ e, pp.key = .error e → e = Storage.Err.eval) ∧ ∀ k e, pp.value k = .error e → e = Storage.Err.eval

def KeysOK (keys : List (Except Storage.Err Bytes)) : Prop := ∀ k ∈ keys, ∀ e, k = .error e → e = Storage.Err.eval

theorem evalPairs_err : ∀ (pairs : List PutPair), PairsOK pairs →
    ∀ e, evalPairs pairs = .error e → e = Storage.Err.eval
  | [], _, e, h => by simp [evalPairs] at h
  | p :: r, hp, e, h => by
    have hp1 := hp p (by simp)
    have hr : PairsOK r := fun pp hpp => hp pp (by simp [hpp])
    simp only [evalPairs] at h
    split at h
    next e' he' => cases h; exact hp1.1 _ he'
    next k hk =>
      split at h
      next e' he' => cases h; exact hp1.2 _ _ he'
      next v hv =>
        split at h
        next e' he' => cases h; exact evalPairs_err r hr _ he'
        next => cases h

theorem evalKeys_err : ∀ (keys : List (Except Storage.Err Bytes)), KeysOK keys →
    ∀ e, evalKeys keys = .error e → e = Storage.Err.eval
  | [], _, e, h => by simp [evalKeys] at h
  | k :: r, hk, e, h => by
    have hk1 := hk k (by simp)
    have hr : KeysOK r := fun k' hk' => hk k' (by simp [hk'])
    simp only [evalKeys] at h
    split at h
    next e' => cases h; exact hk1 _ rfl
    next k' =>
      split at h
      next e' he' => cases h; exact evalKeys_err r hr _ he'
      next => cases h

theorem post_putExecute (pairs : List PutPair) (hp : PairsOK pairs) (w : Storage.World) :
    Post EvalErr (fun _ => True) (PutPlan.execute pairs none w) := by
  unfold PutPlan.execute
  refine Post.bind (Post.ofExcept (Q := fun _ => True) (fun _ _ => trivial) (evalPairs_err pairs hp)) ?_
  intro kvps w' _
  split
  · exact Post.pure trivial
  · exact Post.bind (post_put _ _ _).noErr (fun _ _ _ => Post.pure trivial)
  · exact Post.bind (post_batchPut _ _).noErr (fun _ _ _ => Post.pure trivial)

theorem post_removeExecute (keys : List (Except Storage.Err Bytes)) (hk : KeysOK keys) (w : Storage.World) :
    Post EvalErr (fun _ => True) (RemovePlan.execute keys none w) := by
  unfold RemovePlan.execute
  refine Post.bind (Post.ofExcept (Q := fun _ => True) (fun _ _ => trivial) (evalKeys_err keys hk)) ?_
  intro ks w' _
  split
  · exact Post.pure trivial
  · exact Post.bind (post_delete _ _).noErr (fun _ _ _ => Post.pure trivial)
  · exact Post.bind (post_batchDelete' _ _).noErr (fun _ _ _ => Post.pure trivial)

/-! ### final plans -/

/-- the evaluation tables of the plan fail with `eval` only -/
def PlanEv : Plan → Prop
  | .select _ filter _ => FilterOK filter
  | .deleteScan _ filter _ _ => FilterOK filter
  | .deleteLimit _ filter _ _ _ _ => FilterOK filter
  | .put pairs _ => PairsOK pairs
  | .remove keys _ => KeysOK keys

/-- … and the scan below has been initialised (or the plan has been executed) -/
def PlanOK : Plan → Prop
  | .select node filter st => FilterOK filter ∧ ScanInv node st
  | .deleteScan node filter executed st => FilterOK filter ∧ (executed = true ∨ ScanInv node st)
  | .deleteLimit node filter _ _ executed st => FilterOK filter ∧ (executed = true ∨ ScanInv node st.child)
  | .put pairs _ => PairsOK pairs
  | .remove keys _ => KeysOK keys

/-- the number of polls a drain can still need -/
def planMu : Plan → Nat
  | .select _ _ st => st.size + 1
  | .deleteScan _ _ executed _ => if executed then 1 else 2
  | .deleteLimit _ _ _ _ executed _ => if executed then 1 else 2
  | .put _ executed => if executed then 1 else 2
  | .remove _ executed => if executed then 1 else 2

theorem planMu_pos (plan : Plan) : 1 ≤ planMu plan := by
  cases plan <;> simp only [planMu] <;> (try split) <;> omega

theorem planMu_le (plan : Plan) : planMu plan ≤ plan.size + 2 := by
  cases plan <;> simp only [planMu, Plan.size] <;> (try split) <;> omega

theorem post_planInit (plan : Plan) (hp : PlanEv plan) (w : Storage.World) :
    Post NoErr PlanOK (plan.init none w) := by
  cases plan with
  | select node filter st =>
    simp only [Plan.init]
    exact Post.bind (post_scanInit node st w) (fun st' w' hst => Post.pure ⟨hp, hst⟩)
  | deleteScan node filter ex st =>
    simp only [Plan.init]
    exact Post.bind (post_scanInit node st w) (fun st' w' hst => Post.pure ⟨hp, .inr hst⟩)
  | deleteLimit node filter start count ex st =>
    simp only [Plan.init]
    refine Post.bind (post_limitInit (Inv := ScanInv node) (size := ScanSt.size) (bs := 1)
      (scanChildOK node hp 1 (Nat.le_refl _)) st w) (fun st' w' hst => Post.pure ⟨hp, .inr hst⟩)
  | put pairs ex => exact Post.pure hp
  | remove keys ex => exact Post.pure hp

theorem planOK_ev {plan : Plan} (h : PlanOK plan) : PlanEv plan := by
  cases plan <;> first | exact h.1 | exact h

theorem post_buildPlan1 (stmt : Plans.Stmt) (hev : EvalOnlyT stmt) (w : Storage.World) :
    Post NoErr PlanOK (buildPlan1 stmt none w) := by
  cases stmt with
  | select node filter => exact post_planInit (.select node filter node.newState) hev w
  | put pairs => exact post_planInit (.put pairs false) hev w
  | remove keys => exact post_planInit (.remove keys false) hev w
  | delete node filter hasAnd limit =>
    have hF : FilterOK filter := hev
    have hrm : ∀ keys : List Bytes, PlanEv (.remove (keys.map .ok) false) := by
      intro keys k hk e he
      obtain ⟨k', _, rfl⟩ := List.mem_map.mp hk
      cases he
    have hds : ∀ n st, Post NoErr PlanOK ((Plan.deleteScan n filter false st).init none w) :=
      fun n st => post_planInit (.deleteScan n filter false st) hF w
    have hdl : ∀ n a b st, Post NoErr PlanOK ((Plan.deleteLimit n filter a b false st).init none w) :=
      fun n a b st => post_planInit (.deleteLimit n filter a b false st) hF w
    have hr : ∀ keys : List Bytes, Post NoErr PlanOK ((Plan.remove (keys.map .ok) false).init none w) :=
      fun keys => post_planInit _ (hrm keys) w
    cases node <;> cases limit <;> simp only [buildPlan1] <;> (try split) <;>
      first | exact hds _ _ | exact hdl _ _ _ _ | exact hr _

theorem post_buildPlan (stmt : Plans.Stmt) (hev : EvalOnlyT stmt) (w : Storage.World) :
    Post NoErr PlanOK (buildPlan stmt none w) := by
  unfold buildPlan
  exact Post.bind (post_buildPlan1 stmt hev w) (fun p w' hp => post_planInit p (planOK_ev hp) w')

/-! ### one poll -/

theorem writePoll_ok (exec : Storage.M Nat) (plan' : Plan) (w : Storage.World)
    (h : Post EvalErr (fun _ => True) (exec none w)) :
    (∀ e, (writePoll exec plan' none w).1.err = some e → e = Storage.Err.eval) ∧
    (writePoll exec plan' none w).1.plan = plan' := by
  unfold writePoll
  rcases he : exec none w with ⟨r, w'⟩
  rw [he] at h
  cases r with
  | ok n => exact ⟨fun e h => (by cases h), rfl⟩
  | error e' => exact ⟨fun e h' => (by cases h'; exact h), rfl⟩

/-- a poll fails with `eval` only, keeps the invariant, and a poll that hands out rows without
    failing brings the drain nearer to its end -/
theorem poll_ok (kind : PollKind) (bs : Nat) (hbs : 1 ≤ bs) (plan : Plan) (hp : PlanOK plan) (w : Storage.World) :
    (∀ e, (plan.poll kind bs none w).1.err = some e → e = Storage.Err.eval) ∧
    PlanOK (plan.poll kind bs none w).1.plan ∧
    ((plan.poll kind bs none w).1.err = none → (plan.poll kind bs none w).1.rows ≠ [] →
      planMu (plan.poll kind bs none w).1.plan < planMu plan) := by
  cases plan with
  | select node filter st =>
    obtain ⟨hF, hst⟩ := hp
    cases kind with
    | next =>
      simp only [Plan.poll]
      have hn := post_scanNext node hF st hst w
      rcases hne : node.next filter st none w with ⟨r, w'⟩
      rw [hne] at hn
      cases r with
      | error e' => exact ⟨fun e h => (by cases h; exact hn), ⟨hF, hst⟩, fun _ h => absurd rfl h⟩
      | ok x =>
        obtain ⟨o, st'⟩ := x
        obtain ⟨h1, h2, h3⟩ : ScanInv node st' ∧ st'.size ≤ st.size ∧ (o.isSome = true → st'.size < st.size) := hn
        cases o with
        | none => exact ⟨fun e h => (by cases h), ⟨hF, h1⟩, fun _ h => absurd rfl h⟩
        | some p =>
          refine ⟨fun e h => (by cases h), ⟨hF, h1⟩, fun _ _ => ?_⟩
          have := h3 rfl
          simp only [planMu]; omega
    | batch =>
      simp only [Plan.poll]
      have hn := post_scanBatch node hF bs hbs st hst w
      rcases hne : node.batch filter bs st none w with ⟨r, w'⟩
      rw [hne] at hn
      cases r with
      | error e' => exact ⟨fun e h => (by cases h; exact hn), ⟨hF, hst⟩, fun _ h => absurd rfl h⟩
      | ok x =>
        obtain ⟨rows, st'⟩ := x
        obtain ⟨h1, h2⟩ : ScanInv node st' ∧ rows.length + st'.size ≤ st.size := hn
        refine ⟨fun e h => (by cases h), ⟨hF, h1⟩, fun _ hne => ?_⟩
        have hpos : 1 ≤ rows.length := by
          cases rows with
          | nil => simp at hne
          | cons _ _ => simp
        simp only [planMu]; omega
  | put pairs ex =>
    simp only [Plan.poll]
    split
    · exact ⟨fun e h => (by cases h), hp, fun _ h => absurd rfl h⟩
    · next hex =>
      obtain ⟨h1, h2⟩ := writePoll_ok (PutPlan.execute pairs) (.put pairs true) w (post_putExecute pairs hp w)
      refine ⟨h1, by rw [h2]; exact hp, fun _ _ => ?_⟩
      rw [h2]; simp [planMu, hex]
  | remove keys ex =>
    simp only [Plan.poll]
    split
    · exact ⟨fun e h => (by cases h), hp, fun _ h => absurd rfl h⟩
    · next hex =>
      obtain ⟨h1, h2⟩ := writePoll_ok (RemovePlan.execute keys) (.remove keys true) w (post_removeExecute keys hp w)
      refine ⟨h1, by rw [h2]; exact hp, fun _ _ => ?_⟩
      rw [h2]; simp [planMu, hex]
  | deleteScan node filter ex st =>
    obtain ⟨hF, hst⟩ := hp
    simp only [Plan.poll]
    split
    · exact ⟨fun e h => (by cases h), ⟨hF, hst⟩, fun _ h => absurd rfl h⟩
    · next hex =>
      have hst : ScanInv node st := by
        rcases hst with h | h
        · exact absurd h hex
        · exact h
      have hl := deleteLoop_err (scanChildOK node hF bs hbs) (st.size + 2) 0 st w hst (by omega)
      rcases hle : DeletePlan.loop (node.child filter) bs (st.size + 2) 0 st none w with ⟨⟨⟨r, n⟩, st'⟩, w'⟩
      rw [hle] at hl
      cases r with
      | ok n' => exact ⟨fun e h => (by cases h), ⟨hF, .inl rfl⟩, fun _ _ => by simp [planMu, hex]⟩
      | error e' =>
        exact ⟨fun e h => (by cases h; exact hl _ rfl), ⟨hF, .inl rfl⟩, fun _ _ => by simp [planMu, hex]⟩
  | deleteLimit node filter start count ex st =>
    obtain ⟨hF, hst⟩ := hp
    simp only [Plan.poll]
    split
    · exact ⟨fun e h => (by cases h), ⟨hF, hst⟩, fun _ h => absurd rfl h⟩
    · next hex =>
      have hst : ScanInv node st.child := by
        rcases hst with h | h
        · exact absurd h hex
        · exact h
      have hl := deleteLoop_err (limitChildOK (scanChildOK node hF bs hbs) start count)
        (st.child.size + 2) 0 st w hst (by omega)
      rcases hle : DeletePlan.loop (LimitPlan.child start count (node.child filter)) bs (st.child.size + 2) 0 st none w
        with ⟨⟨⟨r, n⟩, st'⟩, w'⟩
      rw [hle] at hl
      cases r with
      | ok n' => exact ⟨fun e h => (by cases h), ⟨hF, .inl rfl⟩, fun _ _ => by simp [planMu, hex]⟩
      | error e' =>
        exact ⟨fun e h => (by cases h; exact hl _ rfl), ⟨hF, .inl rfl⟩, fun _ _ => by simp [planMu, hex]⟩

/-! ### the drain and the run -/

theorem drain_ok (kind : PollKind) (bs : Nat) (hbs : 1 ≤ bs) :
    ∀ (fuel : Nat) (plan : Plan) (acc : List (List Row)) (w : Storage.World), PlanOK plan → planMu plan ≤ fuel →
      (drain kind bs fuel plan acc none w).1.outcome = .ok ∨
      (drain kind bs fuel plan acc none w).1.outcome = .execErr .eval
  | 0, plan, acc, w, hp, hf => by have := planMu_pos plan; omega
  | fuel + 1, plan, acc, w, hp, hf => by
    obtain ⟨h1, h2, h3⟩ := poll_ok kind bs hbs plan hp w
    unfold drain
    rcases hpe : plan.poll kind bs none w with ⟨⟨rows, err, plan'⟩, w'⟩
    rw [hpe] at h1 h2 h3
    simp only at h1 h2 h3
    cases err with
    | some e =>
      have := h1 e rfl
      subst this
      exact .inr rfl
    | none =>
      cases rows with
      | nil => exact .inl rfl
      | cons r rs =>
        have := h3 rfl (by simp)
        exact drain_ok kind bs hbs fuel plan' _ w' h2 (by omega)

/-- NO FAULT, `PlanBatchSize ≥ 1` ⇒ NO STORAGE ERROR, NO NIL CURSOR, NO DIVERGENCE -/
theorem run_no_storage_error' (stmt : Plans.Stmt) (hev : EvalOnlyT stmt) (kind : PollKind) (bs : Nat) (hbs : 1 ≤ bs)
    (store : Store) :
    (Plans.run stmt kind bs none store).1.outcome = .ok ∨
    (Plans.run stmt kind bs none store).1.outcome = .execErr .eval := by
  unfold Plans.run runG
  have hb := post_buildPlan stmt hev { store := store }
  rcases hbe : buildPlan stmt none { store := store } with ⟨r, w'⟩
  rw [hbe] at hb
  cases r with
  | error e => exact hb.elim
  | ok plan => exact drain_ok kind bs hbs _ plan [] w' hb (planMu_le plan)

end PlansTotal
end Kvql.Proofs.RunNoPanic
