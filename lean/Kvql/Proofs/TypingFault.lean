/-
  C14 (b), part 1: contexts with a hole, the fault classes at the root of the hole, and the
  propagation of a rejection from the hole to the whole expression.

  * `Ctxt` / `plug`: the syntactic positions — under `!`, as an operand of a binary operator
    (`& | and or`, comparisons, arithmetic, `in`, `between`), function argument, IN-list item /
    BETWEEN bound (an item of the list node), operand of a field access — nested at any depth.
  * `plug_rejects`: `Check` recurses everywhere.
  * fault classes on plain operands (literals, `key`/`value`, calls, expressions built from them;
    no field name to resolve): `op_mismatch_rejected` (the README operator table `opAccepts`),
    `in_mismatch_rejected`, `between_mismatch_rejected`, `not_nonbool_rejected`,
    `key_forbidden_rejected` / `value_forbidden_rejected`.
  * unknown function / wrong argument count: `hasBadCall` is found by the plan-time walk
    (`walkCalls_bad`) and survives `Check` (`check_keeps_bad`), the resolution of references
    (`resolveTop_keeps_bad`) and any context (`plug_keeps_bad`).
-/
import Kvql.Proofs.TypingAccepted

namespace Kvql.Proofs.Typing

open Kvql Kvql.Generated Kvql.PlanCheck Kvql.Parser

/-! ### contexts -/

/-- an expression with one hole: under `!`, as the left or right operand of a binary operator
    (`& | and or`, comparisons, arithmetic, `in`, `between`), as a function argument, as an item of
    a list (the items of an IN list, the two bounds of BETWEEN), as an operand of a field access -/
inductive Ctxt
  | hole
  | notC (pos : Nat) (c : Ctxt)
  | binL (pos : Nat) (op : Op) (c : Ctxt) (r : Expr)
  | binR (pos : Nat) (op : Op) (l : Expr) (c : Ctxt)
  | arg (pos : Nat) (nm : Expr) (pre : List Expr) (c : Ctxt) (post : List Expr)
  | item (pos : Nat) (pre : List Expr) (c : Ctxt) (post : List Expr)
  | accL (pos : Nat) (c : Ctxt) (f : Expr)
  | accR (pos : Nat) (l : Expr) (c : Ctxt)

/-- fill the hole -/
def plug : Ctxt → Expr → Expr
  | .hole, e => e
  | .notC p c, e => .not p (plug c e)
  | .binL p op c r, e => .binop p op (plug c e) r
  | .binR p op l c, e => .binop p op l (plug c e)
  | .arg p nm pre c post, e => .call p nm (pre ++ plug c e :: post)
  | .item p pre c post, e => .list p (pre ++ plug c e :: post)
  | .accL p c f, e => .access p (plug c e) f
  | .accR p l c, e => .access p l (plug c e)

/-! ### the checker recurses everywhere: a rejected sub-expression rejects the whole -/

theorem checkArgs_rejects (ctx : CheckCtx) (x : Expr) (hx : Rejects (ctx.check x)) (post : List Expr) :
    ∀ pre : List Expr, Rejects (ctx.checkArgs (pre ++ x :: post))
  | [] => by
    simp only [List.nil_append]
    unfold CheckCtx.checkArgs
    apply Rejects.bind
    split
    · rename_i p d
      exact absurd (by simp [CheckCtx.check]) (hx (.name p d))
    · exact hx
  | a :: pre => by
    simp only [List.cons_append]
    unfold CheckCtx.checkArgs
    apply Rejects.bind_right
    intro a' _
    exact Rejects.bind (checkArgs_rejects ctx x hx post pre) _

theorem checkItems_rejects (ctx : CheckCtx) (x : Expr) (hx : Rejects (ctx.check x)) (post : List Expr) :
    ∀ pre : List Expr, Rejects (ctx.checkItems (pre ++ x :: post))
  | [] => by
    simp only [List.nil_append]
    unfold CheckCtx.checkItems
    exact Rejects.bind hx _
  | a :: pre => by
    simp only [List.cons_append]
    unfold CheckCtx.checkItems
    apply Rejects.bind_right
    intro a' _
    exact Rejects.bind (checkItems_rejects ctx x hx post pre) _

/-- REJECTION PROPAGATES OUTWARD: whatever the position of the hole — under `!`, under a binary
    operator, inside function arguments, IN lists, BETWEEN bounds, field-access operands, at any
    depth — if `Check` does not accept the sub-expression it does not accept the expression.
    (This is what the repairs `!`, lists, field access established: before them `Check` did not
    visit those operands.) -/
theorem plug_rejects (ctx : CheckCtx) : ∀ (c : Ctxt) (e : Expr), Rejects (ctx.check e) →
    Rejects (ctx.check (plug c e))
  | .hole, e, h => h
  | .notC p c, e, h => by
    simp only [plug, CheckCtx.check]
    exact Rejects.bind (plug_rejects ctx c e h) _
  | .binL p op c r, e, h => by
    simp only [plug, CheckCtx.check]
    exact Rejects.bind (plug_rejects ctx c e h) _
  | .binR p op l c, e, h => by
    simp only [plug, CheckCtx.check]
    apply Rejects.bind_right
    intro l1 _
    exact Rejects.bind (plug_rejects ctx c e h) _
  | .arg p nm pre c post, e, h => by
    simp only [plug, CheckCtx.check]
    split
    · exact Rejects.bind (checkArgs_rejects ctx _ (plug_rejects ctx c e h) post pre) _
    · exact rejects_synErr _
  | .item p pre c post, e, h => by
    simp only [plug, CheckCtx.check]
    split
    · exact rejects_synErr _
    · exact Rejects.bind (checkItems_rejects ctx _ (plug_rejects ctx c e h) post pre) _
  | .accL p c f, e, h => by
    simp only [plug, CheckCtx.check]
    exact Rejects.bind (plug_rejects ctx c e h) _
  | .accR p l c, e, h => by
    simp only [plug, CheckCtx.check]
    apply Rejects.bind_right
    intro l1 _
    exact Rejects.bind (plug_rejects ctx c e h) _

/-! ### plain operands: no field name to resolve, no reference -/

/-- trees `Check` leaves as they are and types without looking at the select list: no name
    (except as the callee of a call), no reference, no cycle marker -/
def plain : Expr → Bool
  | .binop _ _ l r => plain l && plain r
  | .not _ r => plain r
  | .call _ (.name ..) args => plainList args
  | .call .. => false
  | .list _ items => plainList items
  | .access _ l f => plain l && plain f
  | .name .. | .ref .. | .cycle => false
  | _ => true
where plainList : List Expr → Bool
  | [] => true
  | e :: es => plain e && plainList es

theorem rewrite_plain (ctx : CheckCtx) {e : Expr} (h : plain e = true) : ctx.rewrite e = .ok e := by
  cases e <;> first | rfl | (simp [plain] at h)

/-- the checker's type of a plain tree is its static type, whatever the select list -/
theorem rt_plain (ctx : CheckCtx) : ∀ e : Expr, plain e = true → ctx.rt e = .ok e.retType
  | .binop p op l r, h => by
    simp only [plain, Bool.and_eq_true] at h
    cases op
    case add =>
      have := rt_add ctx p l r (rt_plain ctx l h.1)
      simpa [Expr.retType, Expr.opRetType] using this
    all_goals exact rt_selfTyped ctx rfl
  | .ref .., h => by simp [plain] at h
  | .cycle, h => by simp [plain] at h
  | .name .., h => by simp [plain] at h
  | .field .., _ => rt_selfTyped ctx rfl
  | .str .., _ => rt_selfTyped ctx rfl
  | .not .., _ => rt_selfTyped ctx rfl
  | .call .., _ => rt_selfTyped ctx rfl
  | .num .., _ => rt_selfTyped ctx rfl
  | .float .., _ => rt_selfTyped ctx rfl
  | .bool .., _ => rt_selfTyped ctx rfl
  | .list .., _ => rt_selfTyped ctx rfl
  | .access .., _ => rt_selfTyped ctx rfl

mutual
  /-- `Check` returns a plain tree unchanged -/
  theorem check_plain (ctx : CheckCtx) : ∀ (e e' : Expr), plain e = true → ctx.check e = .ok e' → e' = e
    | .binop pos op l r, e', hp, h => by
      simp only [plain, Bool.and_eq_true] at hp
      simp only [CheckCtx.check] at h
      obtain ⟨l1, hl1, h2⟩ := bind_ok_iff.mp h
      obtain ⟨r1, hr1, h3⟩ := bind_ok_iff.mp h2
      have e1 := check_plain ctx l l1 hp.1 hl1
      have e2 := check_plain ctx r r1 hp.2 hr1
      rw [e1, e2, rewrite_plain ctx hp.1, rewrite_plain ctx hp.2] at h3
      simp only [Res.bind_ok] at h3
      obtain ⟨u, _, h4⟩ := bind_ok_iff.mp h3
      cases h4; rfl
    | .not pos r, e', hp, h => by
      simp only [plain] at hp
      simp only [CheckCtx.check] at h
      obtain ⟨r', hr', h2⟩ := bind_ok_iff.mp h
      have e1 := check_plain ctx r r' hp hr'
      rw [e1] at h2
      obtain ⟨t, _, h3⟩ := bind_ok_iff.mp h2
      split at h3
      · cases h3
      · cases h3; rfl
    | .call pos nm args, e', hp, h => by
      cases nm with
      | name q d =>
        simp only [plain] at hp
        simp only [CheckCtx.check] at h
        obtain ⟨args', ha, h⟩ := bind_ok_iff.mp h
        cases h
        rw [checkArgs_plain ctx args args' hp ha]
      | _ => simp [plain] at hp
    | .list pos items, e', hp, h => by
      simp only [plain] at hp
      simp only [CheckCtx.check] at h
      split at h
      · cases h
      · obtain ⟨items', hi, h⟩ := bind_ok_iff.mp h
        obtain ⟨u, _, h⟩ := bind_ok_iff.mp h
        cases h
        rw [checkItems_plain ctx _ items' hp hi]
    | .access pos l f, e', hp, h => by
      simp only [plain, Bool.and_eq_true] at hp
      simp only [CheckCtx.check] at h
      obtain ⟨l', hl', h⟩ := bind_ok_iff.mp h
      obtain ⟨f', hf', h⟩ := bind_ok_iff.mp h
      obtain ⟨u, _, h⟩ := bind_ok_iff.mp h
      cases h
      rw [check_plain ctx l l' hp.1 hl', check_plain ctx f f' hp.2 hf']
    | .field pos kw, e', _, h => by
      simp only [CheckCtx.check] at h
      split at h
      · cases h
      · split at h
        · cases h
        · cases h; rfl
    | .str .., e', _, h => by simp only [CheckCtx.check] at h; cases h; rfl
    | .num .., e', _, h => by simp only [CheckCtx.check] at h; cases h; rfl
    | .float .., e', _, h => by simp only [CheckCtx.check] at h; cases h; rfl
    | .bool .., e', _, h => by simp only [CheckCtx.check] at h; cases h; rfl
    | .name .., _, hp, _ => by simp [plain] at hp
    | .ref .., _, hp, _ => by simp [plain] at hp
    | .cycle, _, hp, _ => by simp [plain] at hp
  theorem checkArgs_plain (ctx : CheckCtx) : ∀ (args args' : List Expr), plain.plainList args = true →
      ctx.checkArgs args = .ok args' → args' = args
    | [], args', _, h => by unfold CheckCtx.checkArgs at h; cases h; rfl
    | a :: as, args', hp, h => by
      simp only [plain.plainList, Bool.and_eq_true] at hp
      unfold CheckCtx.checkArgs at h
      obtain ⟨a', ha, h⟩ := bind_ok_iff.mp h
      obtain ⟨as', has, h⟩ := bind_ok_iff.mp h
      cases h
      rw [checkArgs_plain ctx as as' hp.2 has]
      congr 1
      split at ha
      · simp [plain] at hp
      · exact check_plain ctx a a' hp.1 ha
  theorem checkItems_plain (ctx : CheckCtx) : ∀ (items items' : List Expr), plain.plainList items = true →
      ctx.checkItems items = .ok items' → items' = items
    | [], items', _, h => by unfold CheckCtx.checkItems at h; cases h; rfl
    | a :: as, items', hp, h => by
      simp only [plain.plainList, Bool.and_eq_true] at hp
      unfold CheckCtx.checkItems at h
      obtain ⟨a', ha, h⟩ := bind_ok_iff.mp h
      obtain ⟨as', has, h⟩ := bind_ok_iff.mp h
      cases h
      rw [checkItems_plain ctx as as' hp.2 has, check_plain ctx a a' hp.1 ha]
end

/-- for plain operands, `Check` of a binary node succeeds only if the operator's own rule does -/
theorem check_binop_plain {ctx : CheckCtx} {pos : Nat} {op : Op} {l r e' : Expr}
    (hl : plain l = true) (hr : plain r = true) (h : ctx.check (.binop pos op l r) = .ok e') :
    ctx.checkOp pos op l r = .ok () := by
  simp only [CheckCtx.check] at h
  obtain ⟨l1, hl1, h2⟩ := bind_ok_iff.mp h
  obtain ⟨r1, hr1, h3⟩ := bind_ok_iff.mp h2
  have e1 := check_plain ctx l l1 hl hl1
  have e2 := check_plain ctx r r1 hr hr1
  rw [e1, e2, rewrite_plain ctx hl, rewrite_plain ctx hr] at h3
  simp only [Res.bind_ok] at h3
  obtain ⟨u, hop, _⟩ := bind_ok_iff.mp h3
  exact hop

/-! ### fault classes at the root of the hole -/

/-- the README operator table over static types (`in` and `between`, whose right operand is a
    list, are stated separately): which operand types an operator supports -/
def opAccepts (op : Op) (tl tr : Nat) : Bool :=
  match op with
  | .and | .or | .kwAnd | .kwOr => tl == tyTBOOL && tr == tyTBOOL
  | .eq | .neq => tl == tr && (tl == tyTNUMBER || tl == tyTSTR || tl == tyTBOOL)
  | .gt | .gte | .lt | .lte => tl == tr && (tl == tyTNUMBER || tl == tyTSTR)
  | .prefixMatch | .regexMatch => tl == tyTSTR && tr == tyTSTR
  | .add => (tl == tyTSTR && tr == tyTSTR) || (tl == tyTNUMBER && tr == tyTNUMBER)
  | .sub | .mul | .div => tl == tyTNUMBER && tr == tyTNUMBER
  | .in_ | .between | .not => false

theorem rt_plain_eq {ctx : CheckCtx} {e : Expr} {t : Nat} (hp : plain e = true) (h : ctx.rt e = .ok t) :
    e.retType = t := by
  rw [rt_plain ctx e hp] at h
  injection h

/-- FAULT CLASS 1, operator applied to operand types it does not support (every operator of the
    README table but `in` / `between`): rejected, whatever the statement form and select list -/
theorem op_mismatch_rejected (ctx : CheckCtx) (pos : Nat) (op : Op) (l r : Expr)
    (hl : plain l = true) (hr : plain r = true) (hne : op ≠ .in_ ∧ op ≠ .between)
    (h : opAccepts op l.retType r.retType = false) :
    Rejects (ctx.check (.binop pos op l r)) := by
  intro e' he
  have hop := check_binop_plain hl hr he
  cases op
  case and | or | kwAnd | kwOr =>
    simp only [CheckCtx.checkOp, CheckCtx.checkWithAndOr] at hop
    obtain ⟨u, h1, h2⟩ := bind_ok_iff.mp hop
    have t1 := rt_plain_eq hl (checkAndOrSide_ok h1)
    have t2 := rt_plain_eq hr (checkAndOrSide_ok h2)
    simp [opAccepts, t1, t2] at h
  case add | sub | mul | div =>
    simp only [CheckCtx.checkOp] at hop
    rcases checkWithMath_ok hop with ⟨ho, h1, h2⟩ | ⟨h1, h2⟩
    · have t1 := rt_plain_eq hl h1
      have t2 := rt_plain_eq hr h2
      first
        | (simp [opAccepts, t1, t2] at h; done)
        | cases ho
    · have t1 := rt_plain_eq hl h1
      have t2 := rt_plain_eq hr h2
      simp [opAccepts, t1, t2] at h
  case eq | neq | gt | gte | lt | lte | prefixMatch | regexMatch =>
    simp only [CheckCtx.checkOp] at hop
    obtain ⟨t, h1, h2, he', hg, hpm⟩ := checkWithCompares_ok hop
    have t1 := rt_plain_eq hl h1
    have t2 := rt_plain_eq hr h2
    simp only [opAccepts, t1, t2, beq_self_eq_true, Bool.true_and] at h
    first
      | (rcases he' (by simp) with rfl | rfl | rfl <;> simp at h; done)
      | (rcases hg (by simp) with rfl | rfl <;> simp at h; done)
      | (have := hpm (by simp); subst this; simp at h)
  case in_ => exact hne.1 rfl
  case between => exact hne.2 rfl
  case not => simp [CheckCtx.checkOp, synErr] at hop

theorem plainList_mem : ∀ {xs : List Expr}, plain.plainList xs = true → ∀ x ∈ xs, plain x = true
  | [], _, x, hx => by simp at hx
  | y :: ys, h, x, hx => by
    simp only [plain.plainList, Bool.and_eq_true] at h
    rcases List.mem_cons.mp hx with rfl | hx'
    · exact h.1
    · exact plainList_mem h.2 x hx'

/-- FAULT CLASS 1 for `in (…)`: a left operand that is neither text nor number, or an item of
    another type than the left operand -/
theorem in_mismatch_rejected (ctx : CheckCtx) (pos q : Nat) (l : Expr) (items : List Expr)
    (hl : plain l = true) (hi : plain.plainList items = true)
    (h : (l.retType ≠ tyTSTR ∧ l.retType ≠ tyTNUMBER) ∨ ∃ x ∈ items, x.retType ≠ l.retType) :
    Rejects (ctx.check (.binop pos .in_ l (.list q items))) := by
  intro e' he
  have hop := check_binop_plain hl (r := .list q items) (by simpa [plain] using hi) he
  simp only [CheckCtx.checkOp] at hop
  obtain ⟨t, h1, htt, hcase⟩ := checkWithIn_ok hop
  have t1 := rt_plain_eq hl h1
  rcases hcase with ⟨q', items', heq, hit⟩ | ⟨hshape, _⟩
  · cases heq
    rcases h with ⟨n1, n2⟩ | ⟨x, hx, hne⟩
    · rcases htt with rfl | rfl
      · exact n1 t1
      · exact n2 t1
    · exact hne ((rt_plain_eq (plainList_mem hi x hx) (hit x hx)).trans t1.symm)
  · rcases hshape with ⟨_, _, _, hh⟩ | ⟨_, _, _, hh⟩ <;> cases hh

/-- FAULT CLASS 1 for `between … and …`: a left operand that is neither text nor number, or a
    bound of another type -/
theorem between_mismatch_rejected (ctx : CheckCtx) (pos q : Nat) (l lo hi : Expr)
    (hl : plain l = true) (hlo : plain lo = true) (hhi : plain hi = true)
    (h : (l.retType ≠ tyTSTR ∧ l.retType ≠ tyTNUMBER) ∨ lo.retType ≠ l.retType ∨ hi.retType ≠ l.retType) :
    Rejects (ctx.check (.binop pos .between l (.list q [lo, hi]))) := by
  intro e' he
  have hop := check_binop_plain hl (r := .list q [lo, hi]) (by simp [plain, plain.plainList, hlo, hhi]) he
  simp only [CheckCtx.checkOp] at hop
  obtain ⟨t, q', lo', hi', heq, h1, htt, h2, h3⟩ := checkWithBetween_ok hop
  cases heq
  have t1 := rt_plain_eq hl h1
  rcases h with ⟨n1, n2⟩ | hne | hne
  · rcases htt with rfl | rfl
    · exact n1 t1
    · exact n2 t1
  · exact hne ((rt_plain_eq hlo h2).trans t1.symm)
  · exact hne ((rt_plain_eq hhi h3).trans t1.symm)

/-- FAULT CLASS 2, `!` applied to something that is not Boolean -/
theorem not_nonbool_rejected (ctx : CheckCtx) (pos : Nat) (r : Expr) (hr : plain r = true)
    (h : r.retType ≠ tyTBOOL) : Rejects (ctx.check (.not pos r)) := by
  intro e' he
  simp only [CheckCtx.check] at he
  obtain ⟨r', hr', h2⟩ := bind_ok_iff.mp he
  rw [check_plain ctx r r' hr hr'] at h2
  obtain ⟨t, ht, h3⟩ := bind_ok_iff.mp h2
  split at h3
  · cases h3
  · rename_i hne
    simp only [bne_iff_ne, ne_eq, Decidable.not_not] at hne
    exact h ((rt_plain_eq hr ht).trans hne)

/-- FAULT CLASS 4, `key` / `value` where the statement form forbids them (REMOVE: both; PUT: `value`) -/
theorem key_forbidden_rejected (ctx : CheckCtx) (pos : Nat) (h : ctx.notAllowKey = true) :
    Rejects (ctx.check (.field pos .key)) := by
  intro e' he
  simp [CheckCtx.check, h, synErr] at he

theorem value_forbidden_rejected (ctx : CheckCtx) (pos : Nat) (h : ctx.notAllowValue = true) :
    Rejects (ctx.check (.field pos .value)) := by
  intro e' he
  simp only [CheckCtx.check] at he
  split at he
  · cases he
  · simp [h, synErr] at he

/-! ### fault class 5: unknown function, wrong argument count -/

/-- a call the plan-time validation rejects wherever it stands: the callee is no name, or names
    neither a scalar nor an aggregate function, or the argument count is one the function found
    under that name does not take -/
def badCall (nm : Expr) (nargs : Nat) : Bool :=
  match nm with
  | .name _ d =>
    match findSig true (toLower d) with
    | none => true
    | some s => !arityOk s nargs
  | _ => true

/-- some call of the tree (outside the copies alias references carry) is bad -/
def hasBadCall : Expr → Bool
  | .binop _ _ l r => hasBadCall l || hasBadCall r
  | .not _ r => hasBadCall r
  | .call _ nm args => badCall nm args.length || hasBadCallList args
  | .list _ items => hasBadCallList items
  | .access _ l f => hasBadCall l || hasBadCall f
  | _ => false
where hasBadCallList : List Expr → Bool
  | [] => false
  | e :: es => hasBadCall e || hasBadCallList es

theorem callCheck_bad {site : Bool} {pos : Nat} {nm : Expr} {args : List Expr} (h : badCall nm args.length = true) :
    Rejects (callCheck site pos nm args) := by
  intro u hu
  cases nm with
  | name q d =>
    simp only [badCall] at h
    simp only [callCheck] at hu
    cases site
    · -- not an aggregate site: scalar functions only
      simp only [findSig] at h hu
      cases hs : scalarSig (toLower d) with
      | none => simp [hs, synErr] at hu
      | some sg =>
        simp only [hs] at h hu
        simp only [Bool.not_eq_true'] at h
        simp [h, synErr] at hu
    · cases hf : findSig true (toLower d) with
      | none => simp [hf, synErr] at hu
      | some sg =>
        simp only [hf] at h hu
        simp only [Bool.not_eq_true'] at h
        simp [h, synErr] at hu
  | _ => simp [callCheck, synErr] at hu

mutual
  /-- a bad call is found by the validation walk, whatever precedes it -/
  theorem walkCalls_bad : ∀ (e : Expr) (site : Bool), hasBadCall e = true → Rejects (walkCalls site e)
    | .binop _ _ l r, site, h => by
      simp only [hasBadCall, Bool.or_eq_true] at h
      simp only [walkCalls]
      rcases h with h | h
      · exact Rejects.bind (walkCalls_bad l site h) _
      · exact Rejects.bind_right (fun _ _ => walkCalls_bad r site h)
    | .not _ r, site, h => by
      simp only [hasBadCall] at h
      simp only [walkCalls]
      exact walkCalls_bad r false h
    | .call p nm args, site, h => by
      simp only [hasBadCall, Bool.or_eq_true] at h
      simp only [walkCalls]
      rcases h with h | h
      · exact Rejects.bind (callCheck_bad h) _
      · exact Rejects.bind_right (fun _ _ => Rejects.bind_right (fun _ _ => walkCallsList_bad args h))
    | .list _ items, site, h => by
      simp only [hasBadCall] at h
      simp only [walkCalls]
      exact walkCallsList_bad items h
    | .access _ l f, site, h => by
      simp only [hasBadCall, Bool.or_eq_true] at h
      simp only [walkCalls]
      rcases h with h | h
      · exact Rejects.bind (walkCalls_bad l false h) _
      · exact Rejects.bind_right (fun _ _ => walkCalls_bad f false h)
    | .ref .., _, h => by simp [hasBadCall] at h
    | .cycle, _, h => by simp [hasBadCall] at h
    | .field .., _, h | .str .., _, h | .name .., _, h | .num .., _, h | .float .., _, h | .bool .., _, h => by
      simp [hasBadCall] at h
  theorem walkCallsList_bad : ∀ (es : List Expr), hasBadCall.hasBadCallList es = true → Rejects (walkCallsList es)
    | [], h => by simp [hasBadCall.hasBadCallList] at h
    | e :: es, h => by
      simp only [hasBadCall.hasBadCallList, Bool.or_eq_true] at h
      simp only [walkCallsList]
      rcases h with h | h
      · exact Rejects.bind (walkCalls_bad e false h) _
      · exact Rejects.bind_right (fun _ _ => walkCallsList_bad es h)
end

/-- `Check` keeps the number of arguments -/
theorem checkArgs_length (ctx : CheckCtx) : ∀ (args args' : List Expr), ctx.checkArgs args = .ok args' →
    args'.length = args.length
  | [], args', h => by unfold CheckCtx.checkArgs at h; cases h; rfl
  | a :: as, args', h => by
    unfold CheckCtx.checkArgs at h
    obtain ⟨a', _, h2⟩ := bind_ok_iff.mp h
    obtain ⟨as', has, h3⟩ := bind_ok_iff.mp h2
    cases h3
    simp [checkArgs_length ctx as as' has]

mutual
  /-- `Check` keeps every call: a bad call of the parsed tree is a bad call of the checked tree -/
  theorem check_keeps_bad (ctx : CheckCtx) : ∀ (e e' : Expr), ctx.check e = .ok e' → hasBadCall e = true →
      hasBadCall e' = true
    | .binop pos op l r, e', h, hb => by
      simp only [CheckCtx.check] at h
      obtain ⟨l1, hl1, h2⟩ := bind_ok_iff.mp h
      obtain ⟨r1, hr1, h3⟩ := bind_ok_iff.mp h2
      obtain ⟨l2, hl2, h4⟩ := bind_ok_iff.mp h3
      obtain ⟨r2, hr2, h5⟩ := bind_ok_iff.mp h4
      obtain ⟨u, _, h6⟩ := bind_ok_iff.mp h5
      cases h6
      simp only [hasBadCall, Bool.or_eq_true] at hb ⊢
      rcases hb with hb | hb
      · have := check_keeps_bad ctx l l1 hl1 hb
        rcases rewrite_cases hl2 with rfl | ⟨p, d, _, _, rfl, _, _⟩
        · exact .inl this
        · simp [hasBadCall] at this
      · have := check_keeps_bad ctx r r1 hr1 hb
        rcases rewrite_cases hr2 with rfl | ⟨p, d, _, _, rfl, _, _⟩
        · exact .inr this
        · simp [hasBadCall] at this
    | .not pos r, e', h, hb => by
      simp only [CheckCtx.check] at h
      obtain ⟨r', hr', h2⟩ := bind_ok_iff.mp h
      obtain ⟨t, _, h3⟩ := bind_ok_iff.mp h2
      split at h3
      · cases h3
      · cases h3
        simp only [hasBadCall] at hb ⊢
        exact check_keeps_bad ctx r r' hr' hb
    | .call pos nm args, e', h, hb => by
      simp only [CheckCtx.check] at h
      split at h
      · obtain ⟨args', ha, h2⟩ := bind_ok_iff.mp h
        cases h2
        simp only [hasBadCall, Bool.or_eq_true] at hb ⊢
        rcases hb with hb | hb
        · exact .inl (by rw [checkArgs_length ctx args args' ha]; exact hb)
        · exact .inr (checkArgs_keeps_bad ctx args args' ha hb)
      · cases h
    | .list pos items, e', h, hb => by
      simp only [CheckCtx.check] at h
      split at h
      · cases h
      · obtain ⟨items', hi, h2⟩ := bind_ok_iff.mp h
        obtain ⟨u, _, h3⟩ := bind_ok_iff.mp h2
        cases h3
        simp only [hasBadCall] at hb ⊢
        exact checkItems_keeps_bad ctx _ items' hi hb
    | .access pos l f, e', h, hb => by
      simp only [CheckCtx.check] at h
      obtain ⟨l', hl', h2⟩ := bind_ok_iff.mp h
      obtain ⟨f', hf', h3⟩ := bind_ok_iff.mp h2
      obtain ⟨u, _, h4⟩ := bind_ok_iff.mp h3
      cases h4
      simp only [hasBadCall, Bool.or_eq_true] at hb ⊢
      rcases hb with hb | hb
      · exact .inl (check_keeps_bad ctx l l' hl' hb)
      · exact .inr (check_keeps_bad ctx f f' hf' hb)
    | .ref .., _, _, hb => by simp [hasBadCall] at hb
    | .cycle, _, _, hb => by simp [hasBadCall] at hb
    | .field .., _, _, hb | .str .., _, _, hb | .name .., _, _, hb | .num .., _, _, hb
    | .float .., _, _, hb | .bool .., _, _, hb => by simp [hasBadCall] at hb
  theorem checkArgs_keeps_bad (ctx : CheckCtx) : ∀ (args args' : List Expr), ctx.checkArgs args = .ok args' →
      hasBadCall.hasBadCallList args = true → hasBadCall.hasBadCallList args' = true
    | [], _, _, hb => by simp [hasBadCall.hasBadCallList] at hb
    | a :: as, args', h, hb => by
      unfold CheckCtx.checkArgs at h
      obtain ⟨a', ha, h2⟩ := bind_ok_iff.mp h
      obtain ⟨as', has, h3⟩ := bind_ok_iff.mp h2
      cases h3
      simp only [hasBadCall.hasBadCallList, Bool.or_eq_true] at hb ⊢
      rcases hb with hb | hb
      · left
        split at ha
        · simp [hasBadCall] at hb
        · exact check_keeps_bad ctx a a' ha hb
      · exact .inr (checkArgs_keeps_bad ctx as as' has hb)
  theorem checkItems_keeps_bad (ctx : CheckCtx) : ∀ (items items' : List Expr), ctx.checkItems items = .ok items' →
      hasBadCall.hasBadCallList items = true → hasBadCall.hasBadCallList items' = true
    | [], _, _, hb => by simp [hasBadCall.hasBadCallList] at hb
    | a :: as, items', h, hb => by
      unfold CheckCtx.checkItems at h
      obtain ⟨a', ha, h2⟩ := bind_ok_iff.mp h
      obtain ⟨as', has, h3⟩ := bind_ok_iff.mp h2
      cases h3
      simp only [hasBadCall.hasBadCallList, Bool.or_eq_true] at hb ⊢
      rcases hb with hb | hb
      · exact .inl (check_keeps_bad ctx a a' ha hb)
      · exact .inr (checkItems_keeps_bad ctx as as' has hb)
end

theorem mapRefsList_length (f : Nat → Bytes → Expr → Expr) : ∀ es : List Expr, (mapRefsList f es).length = es.length
  | [] => by simp [mapRefsList]
  | e :: es => by simp [mapRefsList, mapRefsList_length f es]

mutual
  /-- resolving references keeps every call -/
  theorem mapRefs_keeps_bad {f : Nat → Bytes → Expr → Expr} (hf : RefLike f) : ∀ e : Expr, hasBadCall e = true →
      hasBadCall (mapRefs f e) = true
    | .binop _ _ l r, h => by
      simp only [hasBadCall, Bool.or_eq_true, mapRefs] at h ⊢
      rcases h with h | h
      · exact .inl (mapRefs_keeps_bad hf l h)
      · exact .inr (mapRefs_keeps_bad hf r h)
    | .not _ r, h => by
      simp only [hasBadCall, mapRefs] at h ⊢
      exact mapRefs_keeps_bad hf r h
    | .call _ nm args, h => by
      simp only [hasBadCall, Bool.or_eq_true, mapRefs] at h ⊢
      rcases h with h | h
      · left
        rw [mapRefsList_length]
        cases nm with
        | ref p n t =>
          simp only [mapRefs]
          rcases hf p n t with hc | ⟨t', hr⟩
          · rw [hc]; rfl
          · rw [hr]; rfl
        | _ => simp_all [badCall, mapRefs]
      · exact .inr (mapRefsList_keeps_bad hf args h)
    | .list _ items, h => by
      simp only [hasBadCall, mapRefs] at h ⊢
      exact mapRefsList_keeps_bad hf items h
    | .access _ l x, h => by
      simp only [hasBadCall, Bool.or_eq_true, mapRefs] at h ⊢
      rcases h with h | h
      · exact .inl (mapRefs_keeps_bad hf l h)
      · exact .inr (mapRefs_keeps_bad hf x h)
    | .ref .., h => by simp [hasBadCall] at h
    | .cycle, h => by simp [hasBadCall] at h
    | .field .., h | .str .., h | .name .., h | .num .., h | .float .., h | .bool .., h => by
      simp [hasBadCall] at h
  theorem mapRefsList_keeps_bad {f : Nat → Bytes → Expr → Expr} (hf : RefLike f) : ∀ es : List Expr,
      hasBadCall.hasBadCallList es = true → hasBadCall.hasBadCallList (mapRefsList f es) = true
    | [], h => by simp [hasBadCall.hasBadCallList] at h
    | e :: es, h => by
      simp only [hasBadCall.hasBadCallList, Bool.or_eq_true, mapRefsList] at h ⊢
      rcases h with h | h
      · exact .inl (mapRefs_keeps_bad hf e h)
      · exact .inr (mapRefsList_keeps_bad hf es h)
end

theorem resolveTop_keeps_bad (tbl : Tbl) (e : Expr) (h : hasBadCall e = true) :
    hasBadCall (resolveTop tbl e) = true := by
  unfold resolveTop
  simp only [resolve]
  apply mapRefs_keeps_bad _ e h
  intro p n t
  dsimp only
  split
  · split
    · exact .inl rfl
    · exact .inr ⟨_, rfl⟩
  · exact .inr ⟨_, rfl⟩

theorem hasBadCallList_append (x : Expr) (hx : hasBadCall x = true) (post : List Expr) :
    ∀ pre : List Expr, hasBadCall.hasBadCallList (pre ++ x :: post) = true
  | [] => by simp [hasBadCall.hasBadCallList, hx]
  | a :: pre => by simp [hasBadCall.hasBadCallList, hasBadCallList_append x hx post pre]

/-- a bad call in the hole is a bad call of the whole -/
theorem plug_keeps_bad : ∀ (c : Ctxt) (e : Expr), hasBadCall e = true → hasBadCall (plug c e) = true
  | .hole, e, h => h
  | .notC _ c, e, h => by simp [plug, hasBadCall, plug_keeps_bad c e h]
  | .binL _ _ c r, e, h => by simp [plug, hasBadCall, plug_keeps_bad c e h]
  | .binR _ _ l c, e, h => by simp [plug, hasBadCall, plug_keeps_bad c e h]
  | .arg _ nm pre c post, e, h => by
    simp [plug, hasBadCall, hasBadCallList_append _ (plug_keeps_bad c e h) post pre]
  | .item _ pre c post, e, h => by
    simp [plug, hasBadCall, hasBadCallList_append _ (plug_keeps_bad c e h) post pre]
  | .accL _ c f, e, h => by simp [plug, hasBadCall, plug_keeps_bad c e h]
  | .accR _ l c, e, h => by simp [plug, hasBadCall, plug_keeps_bad c e h]

end Kvql.Proofs.Typing
