/-
  RunNoPanic, part 13: PUT, REMOVE, DELETE — for every store, mode, batch size ≥ 1 and cache setting the
  statement ends cleanly or with an evaluation error VALUE.
-/
import Kvql.Proofs.RunNoPanicScan
import Kvql.Proofs.RunNoPanicFold
import Kvql.Proofs.RunWriteDelete
import Kvql.Proofs.RunNoPanicStage

namespace Kvql.Proofs.RunNoPanic

open Kvql Kvql.Run Kvql.Plans Kvql.Storage Kvql.Proofs.Typing Kvql.Proofs.RunWrite Kvql.Cache

/-! ### PUT / REMOVE -/

theorem bytesOf_benign {e : Expr} (hw : e.wf = true) (kv : Kvql.Pair) (x : Kvql.Err)
    (h : bytesOf e kv = .error x) : x.isPanic = false ∧ x ≠ .outOfFuel := by
  unfold bytesOf at h
  split at h
  · cases h
  · rename_i x' hx
    cases h
    unfold nocache at hx
    rcases hr : exec e kv Ctx.off with ⟨r, c⟩
    rw [hr] at hx
    simp only at hx
    subst hx
    exact Kvql.Proofs.PanicFree.exec_total e hw kv Ctx.off hr

theorem putEval_benign : ∀ (pairs : List (Expr × Expr)), (∀ kv ∈ pairs, kv.1.wf = true ∧ kv.2.wf = true) →
    ∀ x, putEval pairs = .error x → x.isPanic = false ∧ x ≠ .outOfFuel
  | [], _, x, h => by simp [putEval] at h
  | (k, v) :: rest, hw, x, h => by
    have hkv := hw (k, v) (by simp)
    simp only [putEval] at h
    split at h
    · rename_i e he
      cases h
      exact bytesOf_benign hkv.1 _ _ he
    · split at h
      · rename_i e he
        cases h
        exact bytesOf_benign hkv.2 _ _ he
      · split at h
        · rename_i e he
          cases h
          exact putEval_benign rest (fun p hp => hw p (by simp [hp])) _ he
        · cases h

theorem removeEval_benign : ∀ (keys : List Expr), (∀ k ∈ keys, k.wf = true) →
    ∀ x, removeEval keys = .error x → x.isPanic = false ∧ x ≠ .outOfFuel
  | [], _, x, h => by simp [removeEval] at h
  | k :: rest, hw, x, h => by
    simp only [removeEval] at h
    split at h
    · rename_i e he
      cases h
      exact bytesOf_benign (hw k (by simp)) _ _ he
    · split at h
      · rename_i e he
        cases h
        exact removeEval_benign rest (fun p hp => hw p (by simp [hp])) _ he
      · cases h

theorem isExec_errFail {x : Kvql.Err} (h : x.isPanic = false ∧ x ≠ .outOfFuel) : isExec (errFail x) :=
  isExec_of_okErr (okErr_eval h)

/-- PUT: clean trees without alias reference -/
theorem runStmt_put_safe {pos : Nat} {pairs : List (Expr × Expr)} (haf : putAliasFree pairs = true)
    (hw : ∀ kv ∈ pairs, kv.1.wf = true ∧ kv.2.wf = true)
    (store : Store) (kind : PollKind) {bs : Nat} (hbs : 1 ≤ bs) (cache : Bool) (fl : Run.Fail)
    (h : (runStmt (.put pos pairs) store kind bs cache).fail = some fl) : isExec fl := by
  cases hp : putEval pairs with
  | ok kvps =>
    rw [(runStmt_put_ok haf hp store kind hbs cache).1] at h
    cases h
  | error x =>
    rw [(runStmt_put_error haf hp store kind hbs cache).1] at h
    cases h
    exact isExec_errFail (putEval_benign pairs hw x hp)

/-- REMOVE -/
theorem runStmt_remove_safe {pos : Nat} {keys : List Expr} (haf : removeAliasFree keys = true)
    (hw : ∀ k ∈ keys, k.wf = true)
    (store : Store) (kind : PollKind) {bs : Nat} (hbs : 1 ≤ bs) (cache : Bool) (fl : Run.Fail)
    (h : (runStmt (.remove pos keys) store kind bs cache).fail = some fl) : isExec fl := by
  cases hp : removeEval keys with
  | ok ks =>
    rw [(runStmt_remove_ok haf hp store kind hbs cache).1] at h
    cases h
  | error x =>
    rw [(runStmt_remove_error haf hp store kind hbs cache).1] at h
    cases h
    exact isExec_errFail (removeEval_benign keys hw x hp)

/-! ### DELETE -/

/-- DELETE: the filter is evaluated chunk-wise in either mode, cache on or off -/
theorem runStmt_delete_safe {pos wpos : Nat} {w : Expr} {lim : Option LimitS} (hw : w.wf = true)
    (store : Store) (kind : PollKind) {bs : Nat} (hbs : 1 ≤ bs) (cache : Bool) (fl : Run.Fail)
    (h : (runStmt (.delete pos wpos w lim) store kind bs cache).fail = some fl) : isExec fl := by
  obtain ⟨fw, hfw⟩ := optimize_total w
  have hfwf : fw.wf = true := optimize_wf hfw hw
  rw [runStmt_delete hfw store kind hbs cache] at h
  have hv : VGood (deleteTable fw store bs cache) ((yielded (nodeOf (Scan.optimize fw)) store).map (·.1)) := by
    have := batchVerdicts_good hfwf cache (innerChunks (nodeOf (Scan.optimize fw)) bs store)
    rw [Kvql.Proofs.RunTables.innerChunks_flatten _ bs hbs store] at this
    exact this
  generalize hnode : nodeOf (Scan.optimize fw) = node at h hv
  generalize hvv : deleteTable fw store bs cache = v at h hv
  rcases run_no_storage_error (.delete node (filterOfV v) (Scan.hasAndOp fw) (lim.map limitNat))
    (fun p e he => filterOfV_evalOnly v p e he) kind bs hbs store with ho | ho
  · unfold writeOutcome at h
    rw [ho] at h
    cases h
  · obtain ⟨p, hp, he⟩ := delete_evalErr_covered node (filterOfV v) _ _ kind bs store ho
    obtain ⟨pe, h1, h2⟩ := hv.firstErr_exec hp he
    unfold writeOutcome at h
    rw [ho] at h
    simp only [h1, Option.map_some, Option.getD_some, Option.some.injEq] at h
    subst h
    exact isExec_of_okErr h2

end Kvql.Proofs.RunNoPanic
