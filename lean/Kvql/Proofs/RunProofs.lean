/-
  Theorems over the end-to-end model `Kvql.Run.runQuery` (Model/Run.lean).

  (c) `run_rejected_touches_nothing`  whatever `planStage` does not accept issues no storage call.
  (a) `run_select_star_correct`       C01 for a statement given as TEXT: `select * where P` / `where P`
                                      returns exactly the stored pairs on which the REFERENCE evaluator
                                      says `P` is true, in key order — row mode, every batch size,
                                      cache on or off; `run_select_star_correct_batch_partial`: batch mode,
                                      with the one hypothesis no component theorem provides.
  (b) `run_star_modes_agree_partial`  row mode and batch mode return the same rows.

  Chain for (a):   text ──Lexer.split, planStage──▶ select s            (hypothesis: accepted, `select *` shape)
      C14 `accepted_select_where_kind`   the checker has typed `s.where_`: `CoreLang` needs only `core`
      C04 `fold_total`, `fold_preserves_where`   the folded WHERE has the Boolean value of the parsed one
      RunFoldFree   folding introduces no alias reference: re-pointing references is the identity
      C01 `exec_refines_spec` (via `Select.exec_of_spec`)   the row evaluator gives the reference's verdict
      C05 `filterRow_on/off`, `loop_step`, `filterChunk_off`   … with the field cache on or off
      C03 `batch_pairwise`, `vec_eq_map`   … and the vector evaluator gives the row evaluator's verdict
      C02 `scan_plan_sound` + `exec_is_sem`   the scan node covers every accepted pair
      C01/C03 `scan_rows`   both drains return the filtered region, in store order
-/
import Kvql.Proofs.RunFoldFree
import Kvql.Proofs.RunScan
import Kvql.Proofs.RunTables
import Kvql.Proofs.RunLimit
import Kvql.Proofs.SelectCorrect
import Kvql.Proofs.TypingAcceptedFull
import Kvql.Properties.C04

namespace Kvql.Proofs.Run
open Kvql Kvql.Run Kvql.Plans Kvql.Storage Kvql.Proofs.Scan Kvql.Proofs.Typing Kvql.Cache
open Kvql.Proofs.RunFold Kvql.Proofs.RunScan Kvql.Proofs.RunTables Kvql.Proofs.RunLimit
open Kvql.PlanCheck (planStage finalPlanCheck)

/-! ### (c) rejected statements touch nothing -/

/-- REJECTED BEFORE ANY STORAGE ACCESS, through the composition: whatever `planStage` does not
    accept — a lexical / syntax error, a checker error, an unknown function, a wrong argument count
    or type, a malformed GROUP BY — gives no row, an empty call log and the store as it was, for
    every store, iteration mode, batch size and cache setting. -/
theorem run_rejected_touches_nothing (query : Bytes) (pf : Bytes → F64) (store : Store) (kind : PollKind)
    (bs : Nat) (cache : Bool) (h : Rejects (planStage pf (Lexer.split query))) :
    (runQuery query pf store kind bs cache).fail.isSome = true ∧
    (runQuery query pf store kind bs cache).rows = [] ∧
    (runQuery query pf store kind bs cache).world.log = [] ∧
    (runQuery query pf store kind bs cache).world.store = store := by
  unfold runQuery
  cases hp : planStage pf (Lexer.split query) with
  | ok s => exact absurd hp (h s)
  | _ => exact ⟨rfl, rfl, rfl, rfl⟩

/-- … and conversely a storage call is made only for a statement `planStage` accepted -/
theorem run_touches_only_if_accepted (query : Bytes) (pf : Bytes → F64) (store : Store) (kind : PollKind)
    (bs : Nat) (cache : Bool) (h : (runQuery query pf store kind bs cache).world.log ≠ []) :
    ∃ s, planStage pf (Lexer.split query) = .ok s := by
  unfold runQuery at h
  cases hp : planStage pf (Lexer.split query) with
  | ok s => exact ⟨s, rfl⟩
  | _ => simp [hp, rejected] at h

/-! ### unfolding `runQuery` on `select * where P` -/

theorem mapM_optimizeBoth_total : ∀ l : List Expr, ∃ fs, l.mapM Fold.optimizeBoth = .ok fs
  | [] => ⟨[], rfl⟩
  | e :: es => by
    obtain ⟨r, n, h⟩ := Fold.optimizeBoth_total e
    obtain ⟨fs, hfs⟩ := mapM_optimizeBoth_total es
    exact ⟨(r, n) :: fs, by simp [List.mapM_cons, h, hfs, bind, Except.bind, pure, Except.pure]⟩

/-- the folded statement: its WHERE is the tree `Optimize()` returned, with the alias references
    re-pointed -/
theorem foldSelect_ok (s : SelectS) {fw n : Expr} (hfold : Fold.optimizeBoth s.where_ = .ok (fw, n)) :
    ∃ f tbl, foldSelect s = .ok f ∧ f.where_ = Parser.resolveTop tbl fw := by
  obtain ⟨fs, hfs⟩ := mapM_optimizeBoth_total s.fields
  refine ⟨{ where_ := Parser.resolveTop (s.fieldNames.zip (fs.map (·.2))) fw,
            fields := fs.map (fun p => Parser.resolveTop (s.fieldNames.zip (fs.map (·.2))) p.1),
            nodes := fs.map (fun p => Parser.resolveTop (s.fieldNames.zip (fs.map (·.2))) p.2) },
          s.fieldNames.zip (fs.map (·.2)), ?_, rfl⟩
  simp [foldSelect, hfold, hfs, bind, Except.bind, pure, Except.pure]

/-- the verdict table `projTrace` builds for the folded WHERE `fw` -/
def starTable (fw : Expr) (store : Store) (kind : PollKind) (bs : Nat) (cache : Bool) : Verdicts :=
  match kind with
  | .next => rowVerdicts fw (Ctx.new cache) (yielded (nodeOf (Scan.optimize fw)) store)
  | .batch => batchVerdicts fw (Ctx.new cache) (innerChunks (nodeOf (Scan.optimize fw)) bs store)

/-- `runQuery` on an accepted `select * where P` / `where P` without ORDER BY / LIMIT whose WHERE
    has no alias reference: the trace of the scan plan of the folded WHERE, every pair as a row -/
theorem runQuery_star (query : Bytes) (pf : Bytes → F64) (s : SelectS) (store : Store) (kind : PollKind)
    (bs : Nat) (cache : Bool)
    (hplan : planStage pf (Lexer.split query) = .ok (.select s)) (hbs : 1 ≤ bs)
    (hnoaggr : finalPlanCheck s = .ok false)
    (hstar : s.allFields = true) (hord : s.order = none) (hlim : s.limit = none)
    (haf : aliasFree s.where_ = true) {fw n : Expr} (hfold : Fold.optimizeBoth s.where_ = .ok (fw, n)) :
    runQuery query pf store kind bs cache =
      ((scanTrace (nodeOf (Scan.optimize fw)) (starTable fw store kind bs cache) kind bs store).map pairRow).outcome := by
  obtain ⟨f, tbl, hf, hw⟩ := foldSelect_ok s hfold
  rw [resolveTop_of_af tbl fw (optimizeBoth_af haf hfold)] at hw
  have hbs0 : (bs == 0) = false := by
    cases bs with
    | zero => omega
    | succ k => rfl
  unfold runQuery
  rw [hplan]
  simp only [runStmt, hbs0, Bool.false_eq_true, if_false, hnoaggr, hf]
  unfold runPlainSelect
  simp only [hord, hlim]
  unfold projTrace starTable
  cases kind <;> simp only [hstar, if_true, hw]

/-- … and with a LIMIT clause: `FinalLimitPlan` over that trace -/
theorem runQuery_star_limit (query : Bytes) (pf : Bytes → F64) (s : SelectS) (store : Store) (kind : PollKind)
    (bs : Nat) (cache : Bool)
    (hplan : planStage pf (Lexer.split query) = .ok (.select s)) (hbs : 1 ≤ bs)
    (hnoaggr : finalPlanCheck s = .ok false)
    (hstar : s.allFields = true) (hord : s.order = none) {l : LimitS} (hlim : s.limit = some l)
    (haf : aliasFree s.where_ = true) {fw n : Expr} (hfold : Fold.optimizeBoth s.where_ = .ok (fw, n)) :
    runQuery query pf store kind bs cache =
      (limitTrace (limitNat l).1 (limitNat l).2 kind bs
        ((scanTrace (nodeOf (Scan.optimize fw)) (starTable fw store kind bs cache) kind bs store).map pairRow)).outcome := by
  obtain ⟨f, tbl, hf, hw⟩ := foldSelect_ok s hfold
  rw [resolveTop_of_af tbl fw (optimizeBoth_af haf hfold)] at hw
  have hbs0 : (bs == 0) = false := by
    cases bs with
    | zero => omega
    | succ k => rfl
  unfold runQuery
  rw [hplan]
  simp only [runStmt, hbs0, Bool.false_eq_true, if_false, hnoaggr, hf]
  unfold runPlainSelect
  simp only [hord, hlim]
  unfold projTrace starTable
  cases kind <;> simp only [hstar, if_true, hw]

/-! ### (a) `select *` is correct -/

theorem nodeOf_eq : Run.nodeOf = Select.nodeOf := by
  funext sc; cases sc <;> rfl

theorem optimize_of_both {e fw n : Expr} (h : Fold.optimizeBoth e = .ok (fw, n)) : Fold.optimize e = .ok fw := by
  simp [Fold.optimize, h, Except.map]

/-- what the accepted statement and the reference evaluator give about the folded WHERE `fw`:
    on every stored pair the row evaluator (cache off) returns the reference's verdict, and the scan
    node inferred from `fw` covers every pair the reference accepts -/
theorem star_facts {query : Bytes} {pf : Bytes → F64} {s : SelectS}
    (hplan : planStage pf (Lexer.split query) = .ok (.select s))
    (haf : aliasFree s.where_ = true) (hside : sideOk s.where_ = true) (hcore : Refine.core s.where_ = true)
    {store : Store} (hev : ∀ p ∈ store, Spec.evaluable s.where_ ⟨p.1, p.2⟩ = true)
    {fw n : Expr} (hfold : Fold.optimizeBoth s.where_ = .ok (fw, n)) :
    (∀ p ∈ store, exec fw (toKv p) Ctx.off = (.ok (.bool (Select.specHolds s.where_ p)), Ctx.off)) ∧
    (∀ p ∈ store, Select.specHolds s.where_ p = true → (nodeOf (Scan.optimize fw)).inRegion p.1 = true) := by
  have hP : Refine.CoreLang s.where_ :=
    ⟨hcore, by rw [accepted_select_where_kind hplan haf hside]; rfl⟩
  have hfp : Select.FoldPreserves s.where_ fw := fun kv b hv =>
    Kvql.Properties.C04.fold_preserves_where (optimize_of_both hfold) rfl hv
  have hx : ∀ p ∈ store, exec fw (toKv p) Ctx.off = (.ok (.bool (Select.specHolds s.where_ p)), Ctx.off) :=
    fun p hp => Select.exec_of_spec hfp hP (hev p hp)
  refine ⟨hx, fun p hp hg => ?_⟩
  have ha : Select.execTrue p.2 fw p.1 = true := by
    rw [Select.execTrue_iff]
    have := hx p hp
    rw [hg] at this
    exact this
  rw [nodeOf_eq]
  exact Select.inRegion_of_region (Kvql.Properties.C02.scan_plan_sound (Select.exec_is_sem p.2) fw p.1 ha)

/-- from the table to the outcome -/
theorem star_correct_of_table {query : Bytes} {pf : Bytes → F64} {s : SelectS} {store : Store} (hs : store.Sorted)
    {kind : PollKind} {bs : Nat} {cache : Bool}
    (hplan : planStage pf (Lexer.split query) = .ok (.select s)) (hbs : 1 ≤ bs)
    (hnoaggr : finalPlanCheck s = .ok false)
    (hstar : s.allFields = true) (hord : s.order = none) (hlim : s.limit = none)
    (haf : aliasFree s.where_ = true) {fw n : Expr} (hfold : Fold.optimizeBoth s.where_ = .ok (fw, n))
    (hcover : ∀ p ∈ store, Select.specHolds s.where_ p = true → (nodeOf (Scan.optimize fw)).inRegion p.1 = true)
    (htable : starTable fw store kind bs cache =
      (yielded (nodeOf (Scan.optimize fw)) store).map (fun p => (p.1, Except.ok (Select.specHolds s.where_ p)))) :
    (runQuery query pf store kind bs cache).fail = none ∧
    (runQuery query pf store kind bs cache).rows =
      (store.filter (fun p => Spec.holds s.where_ ⟨p.1, p.2⟩)).map pairRow ∧
    (runQuery query pf store kind bs cache).world.store = store := by
  rw [runQuery_star query pf s store kind bs cache hplan hbs hnoaggr hstar hord hlim haf hfold, htable]
  have hwf : ScanNode.WellFormed (nodeOf (Scan.optimize fw)) := by
    rw [nodeOf_eq]; exact Select.nodeOf_wellFormed _
  have hy := yielded_eq_filter (nodeOf (Scan.optimize fw)) hwf hs
  have hv : ∀ p ∈ store, (nodeOf (Scan.optimize fw)).inRegion p.1 = true →
      ((yielded (nodeOf (Scan.optimize fw)) store).map
        (fun p => (p.1, (Except.ok (Select.specHolds s.where_ p) : Except Project.PErr Bool)))).lookup p.1 =
        some (.ok (Select.specHolds s.where_ p)) := by
    intro p hp hr
    rw [hy]
    exact lookup_map_of_mem _ (keys_distinct hs _) (List.mem_filter.mpr ⟨hp, hr⟩)
  exact star_outcome_of_table _ hwf store hs _ (Select.specHolds s.where_) hv hcover kind bs hbs

/-- **(a) C01 over the end-to-end model, row mode.**  Let `query` be a statement text that
    `BuildPlan` accepts (`planStage`) as `select * where P` or `where P` without ORDER BY, GROUP BY
    or LIMIT, whose WHERE has no alias reference (`aliasFree`), stays within the places where the
    engine's typing coincides with the README's (`sideOk`, C14) and within the operators and
    functions the reference evaluator covers (`core`).  On a sorted store on whose pairs the
    reference evaluator `Spec.eval P` is defined, `Run.runQuery` — lexer, parser, checker, plan-time
    validation, constant folding, scan-type inference, scan plan, row evaluator, field cache,
    projection — succeeds and returns exactly the stored pairs on which the REFERENCE says `P` is
    true, with their stored values, in key order; the store is unchanged.  Row mode, every batch
    size ≥ 1, field cache on or off.

    Discharged here (explicit hypotheses of C01 `select_star_correct`): `FoldPreserves` (C04
    `fold_preserves_where`, with `fold_total` and the re-pointing of references after folding);
    the well-kindedness half of `CoreLang` (C14 `accepted_select_where_kind`, from the checker).
    KEPT as hypotheses, all decidable on the statement: `core` (the sub-language of the reference
    evaluator — a restriction of the SPEC, not of the checker), `sideOk` and `aliasFree` (what
    C14's `check_sound` needs), and `finalPlanCheck s = ok false` (`select *` carries no aggregate:
    a fact about `parseSelect` that no component theorem states). -/
theorem run_select_star_correct (query : Bytes) (pf : Bytes → F64) (s : SelectS)
    (hplan : planStage pf (Lexer.split query) = .ok (.select s))
    (hstar : s.allFields = true) (hord : s.order = none) (hlim : s.limit = none)
    (hnoaggr : finalPlanCheck s = .ok false)
    (haf : aliasFree s.where_ = true) (hside : sideOk s.where_ = true) (hcore : Refine.core s.where_ = true)
    (store : Store) (hs : store.Sorted)
    (hev : ∀ p ∈ store, Spec.evaluable s.where_ ⟨p.1, p.2⟩ = true)
    (bs : Nat) (hbs : 1 ≤ bs) (cache : Bool) :
    (runQuery query pf store .next bs cache).fail = none ∧
    (runQuery query pf store .next bs cache).rows =
      (store.filter (fun p => Spec.holds s.where_ ⟨p.1, p.2⟩)).map pairRow ∧
    (runQuery query pf store .next bs cache).world.store = store := by
  obtain ⟨fw, n, hfold⟩ := Fold.optimizeBoth_total s.where_
  obtain ⟨hx, hcover⟩ := star_facts hplan haf hside hcore hev hfold
  refine star_correct_of_table hs hplan hbs hnoaggr hstar hord hlim haf hfold hcover ?_
  have hwf : ScanNode.WellFormed (nodeOf (Scan.optimize fw)) := by
    rw [nodeOf_eq]; exact Select.nodeOf_wellFormed _
  unfold starTable
  apply rowVerdicts_eq (optimizeBoth_af haf hfold) cache
  intro p hp
  rw [yielded_eq_filter _ hwf hs] at hp
  exact hx p (List.mem_filter.mp hp).1

theorem bool_of_contentEq {v : Value} {b : Bool} (h : Value.contentEq v (.bool b)) : v = .bool b := by
  unfold Value.contentEq at h
  cases v <;> simp [Value.norm] at h ⊢
  exact h

/-- **(a), batch mode — partial.**  The same statement in batch mode (`PlanBatchSize = bs`).
    EXTRA hypotheses, both about the folded WHERE `fw` (`Fold.optimize P = ok fw`): `fw.vecOk` (the
    static side condition of C03 `vec_eq_map`) and `hbatch`: the VECTOR evaluator is defined on every
    stored pair taken as a chunk of its own.  What is missing for full strength is the batch analogue
    of C01 `exec_refines_spec` (wherever the reference gives a value, `ExecuteBatch` succeeds): C03
    proves the direction batch ⇒ row only.  Everything else is as in `run_select_star_correct`. -/
theorem run_select_star_correct_batch_partial (query : Bytes) (pf : Bytes → F64) (s : SelectS)
    (hplan : planStage pf (Lexer.split query) = .ok (.select s))
    (hstar : s.allFields = true) (hord : s.order = none) (hlim : s.limit = none)
    (hnoaggr : finalPlanCheck s = .ok false)
    (haf : aliasFree s.where_ = true) (hside : sideOk s.where_ = true) (hcore : Refine.core s.where_ = true)
    (store : Store) (hs : store.Sorted)
    (hev : ∀ p ∈ store, Spec.evaluable s.where_ ⟨p.1, p.2⟩ = true)
    (fw : Expr) (hfw : Fold.optimize s.where_ = .ok fw) (hok : fw.vecOk = true)
    (hbatch : ∀ p ∈ store, ∃ v, (execBatch fw [⟨p.1, p.2⟩] Ctx.off).1 = .ok [v])
    (bs : Nat) (hbs : 1 ≤ bs) (cache : Bool) :
    (runQuery query pf store .batch bs cache).fail = none ∧
    (runQuery query pf store .batch bs cache).rows =
      (store.filter (fun p => Spec.holds s.where_ ⟨p.1, p.2⟩)).map pairRow ∧
    (runQuery query pf store .batch bs cache).world.store = store := by
  obtain ⟨fw', n, hfold⟩ := Fold.optimizeBoth_total s.where_
  have e : fw' = fw := by
    have := optimize_of_both hfold
    rw [hfw] at this
    injection this with this
    exact this.symm
  subst e
  obtain ⟨hx, hcover⟩ := star_facts hplan haf hside hcore hev hfold
  refine star_correct_of_table hs hplan hbs hnoaggr hstar hord hlim haf hfold hcover ?_
  have hwf : ScanNode.WellFormed (nodeOf (Scan.optimize fw')) := by
    rw [nodeOf_eq]; exact Select.nodeOf_wellFormed _
  unfold starTable
  simp only
  rw [← innerChunks_flatten _ bs hbs store]
  apply batchVerdicts_eq (optimizeBoth_af haf hfold) cache
  intro p hp
  rw [innerChunks_flatten _ bs hbs store, yielded_eq_filter _ hwf hs] at hp
  have hps := (List.mem_filter.mp hp).1
  obtain ⟨v, hv0⟩ := hbatch p hps
  have hv : PairVal fw' v (toKv p) :=
    Kvql.Proofs.C03.batch_ok_ctx fw' Ctx.off rfl [toKv p] (by simp) hv0
  obtain ⟨vr, h1, h2⟩ := single_row_value hok (kv := toKv p) hv
  have h3 : nocache fw' (toKv p) = .ok (.bool (Select.specHolds s.where_ p)) := by
    unfold nocache; rw [hx p hps]
  rw [h3] at h1
  injection h1 with h1
  subst h1
  rw [bool_of_contentEq h2] at hv
  exact hv

/-! ### (b) row mode and batch mode agree — `select *` -/

theorem contentEq_bool {vr : Value} {b : Bool} (h : Value.contentEq (.bool b) vr) : vr = .bool b := by
  unfold Value.contentEq at h
  cases vr <;> simp [Value.norm] at h ⊢
  exact h.symm

/-- **(b) for statement kind (1), partial.**  An accepted `select * where P` / `where P` (no ORDER
    BY / GROUP BY / LIMIT, no alias reference in `P`), on a sorted store on every pair of which the
    VECTOR evaluator, applied to the folded WHERE `fw` and the pair as a chunk of its own, yields a
    Boolean — by C03 `batch_pairwise` that is: `ExecuteBatch` succeeds with Booleans on every chunk
    of stored pairs, i.e. batch iteration meets no evaluation error.  Then row iteration succeeds
    too, and at any two batch sizes, with the field cache on or off on either side, both return
    the same rows (the stored pairs the row evaluator accepts, in key order) and leave the store as
    it was.
    RESTRICTIONS (hence `_partial`): "batch succeeds" is the hypothesis on the evaluator, not on the
    outcome of the batch run (the converse of `scan_rows` — a successful scan has evaluated every
    pair of its region — is not a component theorem); statement kinds (2) and (3) (select fields
    with the cache driving the projection, LIMIT) are covered by the RUNQ correspondence and by the
    component theorems C05 `row_mode_cache_invisible` / `batch_cache_invisible` and C08
    `limit_modes_agree`, not by a theorem over `runQuery`. -/
theorem run_star_modes_agree_partial (query : Bytes) (pf : Bytes → F64) (s : SelectS)
    (hplan : planStage pf (Lexer.split query) = .ok (.select s))
    (hstar : s.allFields = true) (hord : s.order = none) (hlim : s.limit = none)
    (hnoaggr : finalPlanCheck s = .ok false) (haf : aliasFree s.where_ = true)
    (store : Store) (hs : store.Sorted)
    (fw : Expr) (hfw : Fold.optimize s.where_ = .ok fw) (hok : fw.vecOk = true)
    (hbatch : ∀ p ∈ store, ∃ b, (execBatch fw [⟨p.1, p.2⟩] Ctx.off).1 = .ok [.bool b])
    (bs bs' : Nat) (hbs : 1 ≤ bs) (hbs' : 1 ≤ bs') (cache cache' : Bool) :
    (runQuery query pf store .batch bs cache).fail = none ∧
    (runQuery query pf store .next bs' cache').fail = none ∧
    (runQuery query pf store .next bs' cache').rows = (runQuery query pf store .batch bs cache).rows ∧
    (runQuery query pf store .batch bs cache).rows = (store.filter (Select.accepted fw)).map pairRow ∧
    (runQuery query pf store .next bs' cache').world.store = store ∧
    (runQuery query pf store .batch bs cache).world.store = store := by
  obtain ⟨fw', n, hfold⟩ := Fold.optimizeBoth_total s.where_
  have e : fw' = fw := by
    have := optimize_of_both hfold
    rw [hfw] at this
    injection this with this
    exact this.symm
  subst e
  have hafw := optimizeBoth_af haf hfold
  have hwf : ScanNode.WellFormed (nodeOf (Scan.optimize fw')) := by
    rw [nodeOf_eq]; exact Select.nodeOf_wellFormed _
  -- batch value and row value of the filter on a stored pair
  have hval : ∀ p ∈ store, PairVal fw' (.bool (Select.accepted fw' p)) (toKv p) ∧
      exec fw' (toKv p) Ctx.off = (.ok (.bool (Select.accepted fw' p)), Ctx.off) := by
    intro p hp
    obtain ⟨b, hb0⟩ := hbatch p hp
    have hb : PairVal fw' (.bool b) (toKv p) :=
      Kvql.Proofs.C03.batch_ok_ctx fw' Ctx.off rfl [toKv p] (by simp) hb0
    obtain ⟨vr, h1, h2⟩ := single_row_value hok (kv := toKv p) hb
    have hvr := contentEq_bool h2
    subst hvr
    have hrow : exec fw' (toKv p) Ctx.off = (.ok (.bool b), Ctx.off) := by
      have := Select.exec_off fw' (toKv p)
      rw [this]
      unfold nocache at h1
      rw [h1]
    have hacc : Select.accepted fw' p = b := by
      unfold Select.accepted Select.execTrue
      have : exec fw' ⟨p.1, p.2⟩ Ctx.off = (.ok (.bool b), Ctx.off) := hrow
      rw [this]
      cases b <;> rfl
    rw [hacc]
    exact ⟨hb, hrow⟩
  have hcover : ∀ p ∈ store, Select.accepted fw' p = true → (nodeOf (Scan.optimize fw')).inRegion p.1 = true := by
    intro p _ ha
    rw [nodeOf_eq]
    exact Select.inRegion_of_region (Kvql.Properties.C02.scan_plan_sound (Select.exec_is_sem p.2) fw' p.1 ha)
  have hy := yielded_eq_filter (nodeOf (Scan.optimize fw')) hwf hs
  -- both tables are the table of `accepted fw`
  have tnext : starTable fw' store .next bs' cache' =
      (yielded (nodeOf (Scan.optimize fw')) store).map (fun p => (p.1, Except.ok (Select.accepted fw' p))) := by
    unfold starTable
    apply rowVerdicts_eq hafw cache'
    intro p hp
    rw [hy] at hp
    exact (hval p (List.mem_filter.mp hp).1).2
  have tbatch : starTable fw' store .batch bs cache =
      (yielded (nodeOf (Scan.optimize fw')) store).map (fun p => (p.1, Except.ok (Select.accepted fw' p))) := by
    unfold starTable
    simp only
    rw [← innerChunks_flatten _ bs hbs store]
    apply batchVerdicts_eq hafw cache
    intro p hp
    rw [innerChunks_flatten _ bs hbs store, hy] at hp
    exact (hval p (List.mem_filter.mp hp).1).1
  have hv : ∀ p ∈ store, (nodeOf (Scan.optimize fw')).inRegion p.1 = true →
      ((yielded (nodeOf (Scan.optimize fw')) store).map
        (fun p => (p.1, (Except.ok (Select.accepted fw' p) : Except Project.PErr Bool)))).lookup p.1 =
        some (.ok (Select.accepted fw' p)) := by
    intro p hp hr
    rw [hy]
    exact lookup_map_of_mem _ (keys_distinct hs _) (List.mem_filter.mpr ⟨hp, hr⟩)
  have onext := star_outcome_of_table _ hwf store hs _ (Select.accepted fw') hv hcover .next bs' hbs'
  have obatch := star_outcome_of_table _ hwf store hs _ (Select.accepted fw') hv hcover .batch bs hbs
  rw [← tnext, ← runQuery_star query pf s store .next bs' cache' hplan hbs' hnoaggr hstar hord hlim haf hfold] at onext
  rw [← tbatch, ← runQuery_star query pf s store .batch bs cache hplan hbs hnoaggr hstar hord hlim haf hfold] at obatch
  exact ⟨obatch.1, onext.1, by rw [onext.2.1, obatch.2.1], obatch.2.1, onext.2.2, obatch.2.2⟩

/-- the trace of the scan of an accepted `select *` whose folded WHERE `fw` is Boolean under the
    vector evaluator on every stored pair: in either mode, at every batch size, cache on or off, it
    ends without failure, hands out non-empty polls, and its rows are the stored pairs the row
    evaluator accepts, in key order -/
theorem star_trace_of_batchBool {s : SelectS} (haf : aliasFree s.where_ = true) {store : Store} (hs : store.Sorted)
    {fw n : Expr} (hfold : Fold.optimizeBoth s.where_ = .ok (fw, n)) (hok : fw.vecOk = true)
    (hbatch : ∀ p ∈ store, ∃ b, (execBatch fw [⟨p.1, p.2⟩] Ctx.off).1 = .ok [.bool b])
    (kind : PollKind) (bs : Nat) (hbs : 1 ≤ bs) (cache : Bool) :
    ((scanTrace (nodeOf (Scan.optimize fw)) (starTable fw store kind bs cache) kind bs store).map pairRow).fin.1 = none ∧
    allRows ((scanTrace (nodeOf (Scan.optimize fw)) (starTable fw store kind bs cache) kind bs store).map pairRow) =
      (store.filter (Select.accepted fw)).map pairRow ∧
    (∀ p ∈ ((scanTrace (nodeOf (Scan.optimize fw)) (starTable fw store kind bs cache) kind bs store).map pairRow).polls,
      p.1 ≠ []) := by
  have hafw := optimizeBoth_af haf hfold
  have hwf : ScanNode.WellFormed (nodeOf (Scan.optimize fw)) := by
    rw [nodeOf_eq]; exact Select.nodeOf_wellFormed _
  have hval : ∀ p ∈ store, PairVal fw (.bool (Select.accepted fw p)) (toKv p) ∧
      exec fw (toKv p) Ctx.off = (.ok (.bool (Select.accepted fw p)), Ctx.off) := by
    intro p hp
    obtain ⟨b, hb0⟩ := hbatch p hp
    have hb : PairVal fw (.bool b) (toKv p) :=
      Kvql.Proofs.C03.batch_ok_ctx fw Ctx.off rfl [toKv p] (by simp) hb0
    obtain ⟨vr, h1, h2⟩ := single_row_value hok (kv := toKv p) hb
    have hvr := contentEq_bool h2
    subst hvr
    have hrow : exec fw (toKv p) Ctx.off = (.ok (.bool b), Ctx.off) := by
      have := Select.exec_off fw (toKv p)
      rw [this]
      unfold nocache at h1
      rw [h1]
    have hacc : Select.accepted fw p = b := by
      unfold Select.accepted Select.execTrue
      have : exec fw ⟨p.1, p.2⟩ Ctx.off = (.ok (.bool b), Ctx.off) := hrow
      rw [this]
      cases b <;> rfl
    rw [hacc]
    exact ⟨hb, hrow⟩
  have hcover : ∀ p ∈ store, Select.accepted fw p = true → (nodeOf (Scan.optimize fw)).inRegion p.1 = true := by
    intro p _ ha
    rw [nodeOf_eq]
    exact Select.inRegion_of_region (Kvql.Properties.C02.scan_plan_sound (Select.exec_is_sem p.2) fw p.1 ha)
  have hy := yielded_eq_filter (nodeOf (Scan.optimize fw)) hwf hs
  have htable : starTable fw store kind bs cache =
      (yielded (nodeOf (Scan.optimize fw)) store).map (fun p => (p.1, Except.ok (Select.accepted fw p))) := by
    cases kind with
    | next =>
      unfold starTable
      apply rowVerdicts_eq hafw cache
      intro p hp
      rw [hy] at hp
      exact (hval p (List.mem_filter.mp hp).1).2
    | batch =>
      unfold starTable
      simp only
      rw [← innerChunks_flatten _ bs hbs store]
      apply batchVerdicts_eq hafw cache
      intro p hp
      rw [innerChunks_flatten _ bs hbs store, hy] at hp
      exact (hval p (List.mem_filter.mp hp).1).1
  have hv : ∀ p ∈ store, (nodeOf (Scan.optimize fw)).inRegion p.1 = true →
      ((yielded (nodeOf (Scan.optimize fw)) store).map
        (fun p => (p.1, (Except.ok (Select.accepted fw p) : Except Project.PErr Bool)))).lookup p.1 =
        some (.ok (Select.accepted fw p)) := by
    intro p hp hr
    rw [hy]
    exact lookup_map_of_mem _ (keys_distinct hs _) (List.mem_filter.mpr ⟨hp, hr⟩)
  have o := star_outcome_of_table _ hwf store hs _ (Select.accepted fw) hv hcover kind bs hbs
  rw [← htable] at o
  refine ⟨o.1, ?_, ?_⟩
  · rw [← outcome_rows]; exact o.2.1
  · intro p hp
    simp only [Trace.map, List.mem_map] at hp
    obtain ⟨q, hq, rfl⟩ := hp
    have := scanTrace_nonempty _ _ kind bs store q hq
    simp only
    intro e
    exact this (List.map_eq_nil_iff.mp e)

/-- **(b) for statement kind (3) on `select *`, partial.**  An accepted `select * where P limit s, n`
    / `limit n` (no ORDER BY / GROUP BY, no alias reference in `P`) under the hypotheses of
    `run_star_modes_agree_partial`: in EITHER mode, at every batch size ≥ 1, cache on or off, the
    statement succeeds and returns rows `s … s+n-1` of the unlimited result — the stored pairs the
    row evaluator accepts, in key order.  Hence both modes agree, and LIMIT is `take n ∘ drop s`
    (C08) for the whole statement. -/
theorem run_star_limit_partial (query : Bytes) (pf : Bytes → F64) (s : SelectS)
    (hplan : planStage pf (Lexer.split query) = .ok (.select s))
    (hstar : s.allFields = true) (hord : s.order = none) (l : LimitS) (hlim : s.limit = some l)
    (hnoaggr : finalPlanCheck s = .ok false) (haf : aliasFree s.where_ = true)
    (store : Store) (hs : store.Sorted)
    (fw : Expr) (hfw : Fold.optimize s.where_ = .ok fw) (hok : fw.vecOk = true)
    (hbatch : ∀ p ∈ store, ∃ b, (execBatch fw [⟨p.1, p.2⟩] Ctx.off).1 = .ok [.bool b])
    (kind : PollKind) (bs : Nat) (hbs : 1 ≤ bs) (cache : Bool) :
    (runQuery query pf store kind bs cache).fail = none ∧
    (runQuery query pf store kind bs cache).rows =
      (((store.filter (Select.accepted fw)).map pairRow).drop l.start.toInt.toNat).take l.count.toInt.toNat := by
  obtain ⟨fw', n, hfold⟩ := Fold.optimizeBoth_total s.where_
  have e : fw' = fw := by
    have := optimize_of_both hfold
    rw [hfw] at this
    injection this with this
    exact this.symm
  subst e
  obtain ⟨t1, t2, t3⟩ := star_trace_of_batchBool haf hs hfold hok hbatch kind bs hbs cache
  rw [runQuery_star_limit query pf s store kind bs cache hplan hbs hnoaggr hstar hord hlim haf hfold]
  obtain ⟨r1, r2⟩ := limitTrace_rows (limitNat l).1 (limitNat l).2 kind bs _ t1 t3
  rw [t2] at r2
  exact ⟨r1, r2⟩

/-- the facts `limitTrace_rows` needs about the scan trace, from a verdict table (cf. `star_outcome_of_table`) -/
theorem star_trace_of_table (node : ScanNode) (hwf : ScanNode.WellFormed node) (store : Store) (hs : store.Sorted)
    (v : Verdicts) (g : SPair → Bool)
    (hv : ∀ p ∈ store, node.inRegion p.1 = true → v.lookup p.1 = some (.ok (g p)))
    (hcover : ∀ p ∈ store, g p = true → node.inRegion p.1 = true)
    (kind : PollKind) (bs : Nat) (hbs : 1 ≤ bs) :
    ((scanTrace node v kind bs store).map pairRow).fin.1 = none ∧
    allRows ((scanTrace node v kind bs store).map pairRow) = (store.filter g).map pairRow ∧
    (∀ p ∈ ((scanTrace node v kind bs store).map pairRow).polls, p.1 ≠ []) := by
  have o := star_outcome_of_table node hwf store hs v g hv hcover kind bs hbs
  refine ⟨o.1, ?_, ?_⟩
  · rw [← outcome_rows]; exact o.2.1
  · intro p hp
    simp only [Trace.map, List.mem_map] at hp
    obtain ⟨q, hq, rfl⟩ := hp
    have := scanTrace_nonempty _ _ kind bs store q hq
    simp only
    intro e
    exact this (List.map_eq_nil_iff.mp e)

/-- **C01 + C08 over the end-to-end model, row mode.**  `select * where P limit s, n` / `limit n`
    under the hypotheses of `run_select_star_correct`: the statement succeeds and returns rows
    `s … s+n-1` of the reference's selection `store.filter (Spec.holds P)` in key order. -/
theorem run_select_star_limit_correct (query : Bytes) (pf : Bytes → F64) (s : SelectS)
    (hplan : planStage pf (Lexer.split query) = .ok (.select s))
    (hstar : s.allFields = true) (hord : s.order = none) (l : LimitS) (hlim : s.limit = some l)
    (hnoaggr : finalPlanCheck s = .ok false)
    (haf : aliasFree s.where_ = true) (hside : sideOk s.where_ = true) (hcore : Refine.core s.where_ = true)
    (store : Store) (hs : store.Sorted)
    (hev : ∀ p ∈ store, Spec.evaluable s.where_ ⟨p.1, p.2⟩ = true)
    (bs : Nat) (hbs : 1 ≤ bs) (cache : Bool) :
    (runQuery query pf store .next bs cache).fail = none ∧
    (runQuery query pf store .next bs cache).rows =
      (((store.filter (fun p => Spec.holds s.where_ ⟨p.1, p.2⟩)).map pairRow).drop l.start.toInt.toNat).take
        l.count.toInt.toNat := by
  obtain ⟨fw, n, hfold⟩ := Fold.optimizeBoth_total s.where_
  obtain ⟨hx, hcover⟩ := star_facts hplan haf hside hcore hev hfold
  have hwf : ScanNode.WellFormed (nodeOf (Scan.optimize fw)) := by
    rw [nodeOf_eq]; exact Select.nodeOf_wellFormed _
  have hy := yielded_eq_filter (nodeOf (Scan.optimize fw)) hwf hs
  have htable : starTable fw store .next bs cache =
      (yielded (nodeOf (Scan.optimize fw)) store).map (fun p => (p.1, Except.ok (Select.specHolds s.where_ p))) := by
    unfold starTable
    apply rowVerdicts_eq (optimizeBoth_af haf hfold) cache
    intro p hp
    rw [hy] at hp
    exact hx p (List.mem_filter.mp hp).1
  have hv : ∀ p ∈ store, (nodeOf (Scan.optimize fw)).inRegion p.1 = true →
      ((yielded (nodeOf (Scan.optimize fw)) store).map
        (fun p => (p.1, (Except.ok (Select.specHolds s.where_ p) : Except Project.PErr Bool)))).lookup p.1 =
        some (.ok (Select.specHolds s.where_ p)) := by
    intro p hp hr
    rw [hy]
    exact lookup_map_of_mem _ (keys_distinct hs _) (List.mem_filter.mpr ⟨hp, hr⟩)
  obtain ⟨t1, t2, t3⟩ := star_trace_of_table _ hwf store hs _ (Select.specHolds s.where_) hv hcover .next bs hbs
  rw [← htable] at t1 t2 t3
  rw [runQuery_star_limit query pf s store .next bs cache hplan hbs hnoaggr hstar hord hlim haf hfold]
  obtain ⟨r1, r2⟩ := limitTrace_rows (limitNat l).1 (limitNat l).2 .next bs _ t1 t3
  rw [t2] at r2
  exact ⟨r1, r2⟩

/-! ### the hypotheses as one Boolean check on the statement text -/

/-- every hypothesis of `run_select_star_correct` about the accepted statement and the store, as a
    computable check on what `planStage` returns (no hypothesis is left implicit: the instances
    below are closed by `decide`) -/
def starHyps (r : Res Stmt) (store : Store) : Bool :=
  match r with
  | .ok (.select s) =>
    s.allFields && s.order.isNone && s.limit.isNone &&
    (match finalPlanCheck s with | .ok false => true | _ => false) &&
    aliasFree s.where_ && sideOk s.where_ && Refine.core s.where_ &&
    store.all (fun p => Spec.evaluable s.where_ ⟨p.1, p.2⟩)
  | _ => false

theorem starHyps_sound {r : Res Stmt} {store : Store} (h : starHyps r store = true) :
    ∃ s, r = .ok (.select s) ∧ s.allFields = true ∧ s.order = none ∧ s.limit = none ∧
      finalPlanCheck s = .ok false ∧ aliasFree s.where_ = true ∧ sideOk s.where_ = true ∧
      Refine.core s.where_ = true ∧ ∀ p ∈ store, Spec.evaluable s.where_ ⟨p.1, p.2⟩ = true := by
  unfold starHyps at h
  split at h
  · rename_i s
    simp only [Bool.and_eq_true, Option.isNone_iff_eq_none, List.all_eq_true] at h
    obtain ⟨⟨⟨⟨⟨⟨⟨h1, h2⟩, h3⟩, h4⟩, h5⟩, h6⟩, h7⟩, h8⟩ := h
    refine ⟨s, rfl, h1, h2, h3, ?_, h5, h6, h7, h8⟩
    split at h4
    · assumption
    · cases h4
  · cases h

/-- (a) with its hypotheses checked by computation: for every statement text and sorted store that
    pass `starHyps`, the end-to-end model in row mode returns the reference's selection -/
theorem run_select_star_checked (query : Bytes) (pf : Bytes → F64) (store : Store) (hs : store.Sorted)
    (h : starHyps (planStage pf (Lexer.split query)) store = true) (bs : Nat) (hbs : 1 ≤ bs) (cache : Bool) :
    ∃ s, planStage pf (Lexer.split query) = .ok (.select s) ∧
      (runQuery query pf store .next bs cache).fail = none ∧
      (runQuery query pf store .next bs cache).rows =
        (store.filter (fun p => Spec.holds s.where_ ⟨p.1, p.2⟩)).map pairRow ∧
      (runQuery query pf store .next bs cache).world.store = store := by
  obtain ⟨s, hplan, h1, h2, h3, h4, h5, h6, h7, h8⟩ := starHyps_sound h
  exact ⟨s, hplan, run_select_star_correct query pf s hplan h1 h2 h3 h4 h5 h6 h7 store hs h8 bs hbs cache⟩

/-- the hypothesis `hbatch` of the batch-mode theorems as a computable check: `ExecuteBatch` yields a
    Boolean on every stored pair taken alone -/
def batchBoolOn (fw : Expr) (store : Store) : Bool :=
  store.all (fun p =>
    match (execBatch fw [⟨p.1, p.2⟩] Ctx.off).1 with
    | .ok [.bool _] => true
    | _ => false)

theorem batchBoolOn_sound {fw : Expr} {store : Store} (h : batchBoolOn fw store = true) :
    ∀ p ∈ store, ∃ b, (execBatch fw [⟨p.1, p.2⟩] Ctx.off).1 = .ok [.bool b] := by
  intro p hp
  unfold batchBoolOn at h
  rw [List.all_eq_true] at h
  have := h p hp
  split at this
  · rename_i b hb; exact ⟨b, hb⟩
  · cases this

end Kvql.Proofs.Run
