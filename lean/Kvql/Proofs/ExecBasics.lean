/-
  Basic lemmas about the evaluators' monad `M` and the rules used by the proofs over `exec` /
  `execBatch`.
-/
import Kvql.Model.ExecVec

namespace Kvql

namespace M

@[simp] theorem pure_run {α} (a : α) (c : Ctx) : (Pure.pure a : M α) c = (.ok a, c) := rfl
@[simp] theorem mpure_run {α} (a : α) (c : Ctx) : (M.pure a : M α) c = (.ok a, c) := rfl
@[simp] theorem throw_run {α} (e : Err) (c : Ctx) : (M.throw e : M α) c = (.error e, c) := rfl
@[simp] theorem lift_run {α} (x : Except Err α) (c : Ctx) : (M.lift x : M α) c = (x, c) := rfl

theorem bind_run {α β} (x : M α) (f : α → M β) (c : Ctx) :
    (x >>= f) c = match x c with
      | (.ok a, c') => f a c'
      | (.error e, c') => (.error e, c') := rfl

theorem bind_ok {α β} {x : M α} {f : α → M β} {c c' : Ctx} {a : α} (h : x c = (.ok a, c')) :
    (x >>= f) c = f a c' := by
  simp [bind_run, h]

theorem bind_err {α β} {x : M α} {f : α → M β} {c c' : Ctx} {e : Err} (h : x c = (.error e, c')) :
    (x >>= f) c = (.error e, c') := by
  simp [bind_run, h]

end M

theorem bind_ok_inv {α β} {x : M α} {f : α → M β} {c c' : Ctx} {b : β} (h : (x >>= f) c = (.ok b, c')) :
    ∃ a c0, x c = (.ok a, c0) ∧ f a c0 = (.ok b, c') := by
  rw [M.bind_run] at h
  split at h
  · rename_i a c0 hx; exact ⟨a, c0, hx, h⟩
  · cases h

/-- an outcome that is neither a Go panic nor the cyclic-alias marker -/
def Err.benign (e : Err) : Prop := e.isPanic = false ∧ e ≠ .outOfFuel

/-- the computation never ends in a panic or out of fuel, whatever the context -/
def Total {α} (x : M α) : Prop := ∀ c e c', x c = (.error e, c') → e.benign

namespace Total

theorem pure {α} (a : α) : Total (Pure.pure a : M α) := by
  intro c e c' h; simp at h

theorem throw {α} {e : Err} (h : e.benign) : Total (M.throw e : M α) := by
  intro c e' c' h'; simp at h'; rw [← h'.1]; exact h

theorem lift {α} {x : Except Err α} (h : ∀ e, x = .error e → e.benign) : Total (M.lift x) := by
  intro c e c' h'; simp at h'; exact h e h'.1

theorem bind {α β} {x : M α} {f : α → M β} (hx : Total x) (hf : ∀ a, Total (f a)) : Total (x >>= f) := by
  intro c e c' h
  rw [M.bind_run] at h
  split at h
  · exact hf _ _ _ _ h
  · rename_i e0 c0 heq
    have := hx c e0 c0 heq
    simp at h; rw [← h.1]; exact this

end Total

end Kvql
