/-
  C17, plan-time errors.  Everything `PlanCheck.planStage` raises after `Parse` — the function-call
  validation (`checkStatementFunctionCalls`: unknown function, arity, static argument types), the
  shape errors of `buildFinalPlan` and the aggregate constructors — carries the position of a node of
  the statement (`fc.GetPos()`, `fc.Args[i].GetPos()`, `stmt.Pos`, `stmt.GroupBy.Pos`,
  `args[1].GetPos()`) or -1 ("Missing group by statement"); with `parse_ok` these are token offsets
  (or the 0 of an `AllFields` statement).
-/
import Kvql.Proofs.ErrPosFold
import Kvql.Proofs.ParserPosStmt
import Kvql.Model.PlanCheck

set_option linter.unusedSectionVars false

namespace Kvql.Proofs.ErrPos

open Kvql Kvql.Parser Kvql.Generated Kvql.PlanCheck
open Kvql.Proofs.ParserPos (EOK)

section
variable (T F E : Nat → Prop) (hT : ∀ p, T p → E p) (hF : ∀ p, F p → E p) (hE0 : E 0)

/-- `Q` on success, a position in `E` on error -/
abbrev PosE {α : Type} (r : Res α) (Q : α → Prop) : Prop := r.Holds Q (EOK E) (fun _ => True) True

theorem PosE.of {α : Type} {r : Res α} {Q : α → Prop} (he : PosE E r (fun _ => True)) (hs : Suc r Q) :
    PosE E r Q := by
  cases r <;> simp_all

include hT hF hE0 in
/-- `GetPos()` of a node of a tree that satisfies the invariant -/
theorem node_pos {e : Expr} (h : NodeOK T F e) : E e.pos := by
  cases e <;> simp_all [NodeOK, Expr.pos]
  all_goals first
    | exact hF _ h
    | exact hT _ h
    | exact hT _ h.1

include hT hF hE0 in
theorem synErr_node {α : Type} {e : Expr} (h : NodeOK T F e) (Q : α → Prop) :
    PosE E (synErr e.pos : Res α) Q := by
  simpa [EOK] using node_pos T F E hT hF hE0 h

include hT hF hE0 in
theorem argTypeCheck_pos : ∀ (tps : List Nat) (args : List Expr), NodeOKs T F args →
    PosE E (argTypeCheck tps args) (fun _ => True) := by
  intro tps
  induction tps with
  | nil => intro args _; simp [argTypeCheck]
  | cons tp tps ih =>
    intro args ha
    cases args with
    | nil => simp [argTypeCheck]
    | cons a as =>
      unfold argTypeCheck
      split
      · exact synErr_node T F E hT hF hE0 ha.1 _
      · exact ih as ha.2

include hT hF hE0 in
theorem callCheck_pos (site : Bool) {pos : Nat} (hp : T pos) (nm : Expr) {args : List Expr}
    (ha : NodeOKs T F args) : PosE E (callCheck site pos nm args) (fun _ => True) := by
  have hpe : E pos := hT _ hp
  unfold callCheck
  split
  · split
    · simpa [EOK] using hpe
    · split
      · split
        · exact argTypeCheck_pos T F E hT hF hE0 _ _ ha
        · simp
      · simpa [EOK] using hpe
  · simpa [EOK] using hpe

include hT hF hE0 in
mutual
  theorem walkCalls_pos : ∀ (site : Bool) (e : Expr), NodeOK T F e →
      PosE E (walkCalls site e) (fun _ => True)
    | site, .binop p o l r, he => by
      unfold walkCalls
      exact Res.Holds.bind (walkCalls_pos site l he.2.1) (fun _ _ => walkCalls_pos site r he.2.2)
    | site, .not p r, he => by
      unfold walkCalls; exact walkCalls_pos false r he.2
    | site, .call p nm args, he => by
      unfold walkCalls
      apply Res.Holds.bind (callCheck_pos T F E hT hF hE0 site he.1 nm he.2.2); intro _ _
      apply Res.Holds.bind (walkCalls_pos false nm he.2.1); intro _ _
      exact walkCallsList_pos args he.2.2
    | site, .ref p n t, he => by
      unfold walkCalls; exact walkCalls_pos false t he.2
    | site, .cycle, he => by
      unfold walkCalls; simp
    | site, .list p items, he => by
      unfold walkCalls; exact walkCallsList_pos items he.2
    | site, .access p l f, he => by
      unfold walkCalls
      exact Res.Holds.bind (walkCalls_pos false l he.2.1) (fun _ _ => walkCalls_pos false f he.2.2)
    | site, .field .., he | site, .str .., he | site, .name .., he | site, .num .., he
    | site, .float .., he | site, .bool .., he => by
      unfold walkCalls; simp
  theorem walkCallsList_pos : ∀ (es : List Expr), NodeOKs T F es →
      PosE E (walkCallsList es) (fun _ => True)
    | [], _ => by unfold walkCallsList; simp
    | e :: es, he => by
      unfold walkCallsList
      exact Res.Holds.bind (walkCalls_pos false e he.1) (fun _ _ => walkCallsList_pos es he.2)
end

include hT hF hE0 in
theorem walkFields_pos : ∀ (fs : List Expr), NodeOKs T F fs → PosE E (walkFields fs) (fun _ => True) := by
  intro fs
  induction fs with
  | nil => intro _; simp [walkFields]
  | cons f fs ih =>
    intro h
    unfold walkFields
    exact Res.Holds.bind (walkCalls_pos T F E hT hF hE0 true f h.1) (fun _ _ => ih h.2)

include hT hF hE0 in
theorem walkKeys_pos : ∀ (ks : List Expr), NodeOKs T F ks → PosE E (walkKeys ks) (fun _ => True) := by
  intro ks
  induction ks with
  | nil => intro _; simp [walkKeys]
  | cons k ks ih =>
    intro h
    unfold walkKeys
    exact Res.Holds.bind (walkCalls_pos T F E hT hF hE0 false k h.1) (fun _ _ => ih h.2)

include hT hF hE0 in
theorem walkPairs_pos : ∀ (ps : List (Expr × Expr)), PairsOK T F ps →
    PosE E (walkPairs ps) (fun _ => True) := by
  intro ps
  induction ps with
  | nil => intro _; simp [walkPairs]
  | cons p ps ih =>
    intro h
    obtain ⟨k, v⟩ := p
    have hkv := h (k, v) (by simp)
    unfold walkPairs
    apply Res.Holds.bind (walkCalls_pos T F E hT hF hE0 false k hkv.1); intro _ _
    apply Res.Holds.bind (walkCalls_pos T F E hT hF hE0 false v hkv.2); intro _ _
    exact ih (fun q hq => h q (by simp [hq]))

include hT hF hE0 in
/-- `checkStatementFunctionCalls` -/
theorem checkStmtCalls_pos {s : Stmt} (h : StmtOK T F s) : PosE E (checkStmtCalls s) (fun _ => True) := by
  cases s with
  | select s =>
    unfold checkStmtCalls
    exact Res.Holds.bind (walkCalls_pos T F E hT hF hE0 false _ h.2.2.2.1)
      (fun _ _ => walkFields_pos T F E hT hF hE0 _ h.2.1)
  | put pos pairs => exact walkPairs_pos T F E hT hF hE0 _ h.2
  | remove pos keys => exact walkKeys_pos T F E hT hF hE0 _ h.2
  | delete pos wpos w lim => exact walkCalls_pos T F E hT hF hE0 false _ h.2.2.1

include hT hF in
/-- the shape errors of `buildFinalPlan`: at `stmt.Pos`, at `stmt.GroupBy.Pos`, or -1 -/
theorem finalPlanCheck_pos {s : SelectS} (h : StmtOK T F (.select s)) :
    PosE E (finalPlanCheck s) (fun _ => True) := by
  have hsp : E s.pos := hF _ h.1
  have hgp : ∀ g, s.groupBy = some g → E g.pos := fun g hg => hT _ (h.2.2.2.2.2.1 g hg).1
  unfold finalPlanCheck
  dsimp only
  repeat' split
  all_goals first
    | (simp; done)
    | (simp [EOK]; done)
    | (simp only [holds_synErr, EOK]; exact hsp)
    | (simp only [holds_synErr, EOK]; apply hgp; assumption)

theorem listAggrCalls_ok : ∀ (e : Expr), NodeOK T F e → ∀ c ∈ listAggrCalls e, NodeOKs T F c.2
  | .binop p o l r, he, c, hc => by
    unfold listAggrCalls at hc
    rcases List.mem_append.mp hc with hc | hc
    · exact listAggrCalls_ok l he.2.1 c hc
    · exact listAggrCalls_ok r he.2.2 c hc
  | .call p nm args, he, c, hc => by
    cases nm with
    | name q d =>
      simp only [listAggrCalls] at hc
      split at hc
      · simp at hc; subst hc; exact he.2.2
      · simp at hc
    | _ => simp [listAggrCalls] at hc
  | .field .., _, c, hc | .str .., _, c, hc | .name .., _, c, hc | .num .., _, c, hc
  | .float .., _, c, hc | .bool .., _, c, hc | .cycle, _, c, hc | .not .., _, c, hc
  | .ref .., _, c, hc | .list .., _, c, hc | .access .., _, c, hc => by
    simp [listAggrCalls] at hc

include hT hF hE0 in
/-- the aggregate constructors: "second parameter require number / string type" at `args[1].GetPos()` -/
theorem aggrCtor_pos (fname : Bytes) {args : List Expr} (ha : NodeOKs T F args) :
    PosE E (aggrCtor fname args) (fun _ => True) := by
  unfold aggrCtor
  split
  · split
    · rename_i x a
      split
      · exact synErr_node T F E hT hF hE0 ha.2.1 _
      · split <;> first | (simp; done) | (split <;> simp)
    · simp
  · split
    · rename_i x a
      split
      · exact synErr_node T F E hT hF hE0 ha.2.1 _
      · split <;> simp
    · simp
  · simp

include hT hF hE0 in
theorem aggrCtors_pos : ∀ (cs : List (Bytes × List Expr)), (∀ c ∈ cs, NodeOKs T F c.2) →
    PosE E (aggrCtors cs) (fun _ => True) := by
  intro cs
  induction cs with
  | nil => intro _; simp [aggrCtors]
  | cons c cs ih =>
    intro h
    obtain ⟨n, args⟩ := c
    unfold aggrCtors
    exact Res.Holds.bind (aggrCtor_pos T F E hT hF hE0 n (h (n, args) (by simp)))
      (fun _ _ => ih (fun c hc => h c (by simp [hc])))

include hT hF hE0 in
theorem aggrInit_pos : ∀ (fs : List Expr), NodeOKs T F fs → PosE E (aggrInit fs) (fun _ => True) := by
  intro fs
  induction fs with
  | nil => intro _; simp [aggrInit]
  | cons f fs ih =>
    intro h
    unfold aggrInit
    exact Res.Holds.bind (aggrCtors_pos T F E hT hF hE0 _ (listAggrCalls_ok T F f h.1))
      (fun _ _ => ih h.2)

include hT hF hE0 in
/-- `buildFinalPlan` + the `Init` chain before the first storage call -/
theorem buildStage_pos {s : Stmt} (h : StmtOK T F s) : PosE E (buildStage s) (fun _ => True) := by
  cases s with
  | select s =>
    unfold buildStage
    apply Res.Holds.bind (finalPlanCheck_pos T F E hT hF h); intro aggr _
    split
    · exact aggrInit_pos T F E hT hF hE0 _ h.2.1
    · simp
  | _ => simp [buildStage]

end

/-- the offset of one of the tokens -/
def TokOff (toks : Toks) (p : Nat) : Prop := ∃ t ∈ toks, t.pos = p

/-- the positions an error of the front end may carry: 0 or a token offset -/
def ErrOff (toks : Toks) (p : Nat) : Prop := p = 0 ∨ TokOff toks p

theorem tokS_tokOff (toks : Toks) : TokS (TokOff toks) toks := fun t ht => ⟨t, ht, rfl⟩

/-- `Parse`: on success the statement invariant, on error a position that is 0 or a token offset -/
theorem parse_both (pf : Bytes → F64) (toks : Toks) :
    PosE (ErrOff toks) (Parse pf toks) (fun s => StmtOK (TokOff toks) (Fq (TokOff toks) s.isAll) s) := by
  apply PosE.of
  · exact ParserPos.parse_pos (ErrOff toks) (Or.inl rfl) pf (toks := toks)
      (fun t ht => Or.inr ⟨t, ht, rfl⟩)
  · exact parse_ok (TokOff toks) pf (tokS_tokOff toks)

theorem Fq.errOff {toks : Toks} {all : Bool} : ∀ p, Fq (TokOff toks) all p → ErrOff toks p
  | _, .inl h => Or.inr h
  | _, .inr h => Or.inl h.1

/-- **plan-time errors**: everything `planStage` raises — by `Parse`, by the function-call validation,
    by `buildFinalPlan`, by an aggregate constructor — carries -1, 0 or a token offset; what it accepts
    satisfies the statement invariant -/
theorem planStage_both (pf : Bytes → F64) (toks : Toks) :
    PosE (ErrOff toks) (planStage pf toks)
      (fun s => StmtOK (TokOff toks) (Fq (TokOff toks) s.isAll) s) := by
  unfold planStage frontStage
  apply Res.Holds.bind (R := fun s => StmtOK (TokOff toks) (Fq (TokOff toks) s.isAll) s)
  · apply Res.Holds.bind (parse_both pf toks)
    intro s hs
    apply Res.Holds.bind (checkStmtCalls_pos _ _ (ErrOff toks) (fun _ h => Or.inr h) Fq.errOff (Or.inl rfl) hs)
    intro _ _
    exact hs
  · intro s hs
    apply Res.Holds.bind (buildStage_pos _ _ (ErrOff toks) (fun _ h => Or.inr h) Fq.errOff (Or.inl rfl) hs)
    intro _ _
    exact hs

end Kvql.Proofs.ErrPos
