/-
  C04, the relation between a node and its rewritten form (`FoldRel`: same values, same static
  type, same shape where `in` / `between` look at the tree), congruence for the node that stays
  with rewritten operands, and the two folding steps: `foldBinary_ok`, `foldCall_ok`.
-/
import Kvql.Proofs.FoldCall
import Kvql.Model.Fold
namespace Kvql
open Generated
namespace Fold

/-! ### operators: refinement of the operands gives refinement of the node -/

/-- two evaluation contexts (used with the empty pair and the nil context for constant folding):
    every operator except `in` / `between`, whose right operand is a tree -/
theorem binop_refines2 {kv : Pair} {c : Ctx} {kv' : Pair} {c' : Ctx} (hc : c.enable = false) (hc' : c'.enable = false)
    {op : Op} (hop : op ≠ .in_ ∧ op ≠ .between) (p p' : Nat) {l l' r r' : Expr} (tl : retType l' = retType l)
    (hl : Refines (ev l' kv' c') (ev l kv c)) (hr : Refines (ev r' kv' c') (ev r kv c)) :
    Refines (ev (.binop p' op l' r') kv' c') (ev (.binop p op l r) kv c) := by
  by_cases hs : isStrict2 op = true
  · rw [ev_strict2 hs p l r kv hc, ev_strict2 hs p' l' r' kv' hc', tl]
    exact strict2_refines op _ hl hr
  · have h1 := ev_shortCircuit p l r kv hc
    have h2 := ev_shortCircuit p' l' r' kv' hc'
    cases op <;> simp [isStrict2] at hs hop
    · rw [h1.1, h2.1]; exact shortCircuit_refines _ hl hr
    · rw [h1.2.2.1, h2.2.2.1]; exact shortCircuit_refines _ hl hr
    · rw [ev_not_binop]; exact .error
    · rw [h1.2.1, h2.2.1]; exact shortCircuit_refines _ hl hr
    · rw [h1.2.2.2, h2.2.2.2]; exact shortCircuit_refines _ hl hr

/-- one evaluation context, every operator -/
theorem binop_refines {kv : Pair} {c : Ctx} (hc : c.enable = false) (op : Op) (p : Nat) {l l' r r' : Expr}
    (tl : retType l' = retType l) (hl : Refines (ev l' kv c) (ev l kv c))
    (tr : retType r' = retType r) (hr : Refines (ev r' kv c) (ev r kv c)) (sr : ShapeOK r r') :
    Refines (ev (.binop p op l' r') kv c) (ev (.binop p op l r) kv c) := by
  by_cases h1 : op = .in_
  · subst h1; exact in_refines p kv hc hl tl hr tr sr
  · by_cases h2 : op = .between
    · subst h2; exact between_refines p kv hc hl tl sr
    · exact binop_refines2 hc hc ⟨h1, h2⟩ p p tl hl hr

/-! ### the relation between an expression and its rewritten form -/

/-- `e'` has the value of `e` on every pair on which `e` has one (field cache off) -/
def Sem (e e' : Expr) : Prop := ∀ (kv : Pair) (c : Ctx), c.enable = false → Refines (ev e' kv c) (ev e kv c)

theorem Sem.refl (e : Expr) : Sem e e := fun _ _ _ => .refl _
theorem Sem.trans {a b c : Expr} (h1 : Sem a b) (h2 : Sem b c) : Sem a c :=
  fun kv cx hc => (h2 kv cx hc).trans (h1 kv cx hc)

/-- what the parent node needs of a rewritten operand: same values, same static type, same shape
    where `in` / `between` look at it -/
structure FoldRel (e e' : Expr) : Prop where
  sem : Sem e e'
  ty : retType e' = retType e
  shape : ShapeOK e e'

theorem FoldRel.refl (e : Expr) : FoldRel e e := ⟨.refl e, rfl, .refl e⟩

theorem ShapeOK.trans {a b c : Expr} (tab : retType b = retType a) (h1 : ShapeOK a b) (h2 : ShapeOK b c) : ShapeOK a c := by
  refine ⟨fun h => ?_, fun h t => ?_⟩
  · have := h1.1 h; subst this; exact h2.1 h
  · exact h2.2 (h1.2 h t) (tab ▸ t)

theorem FoldRel.trans {a b c : Expr} (h1 : FoldRel a b) (h2 : FoldRel b c) : FoldRel a c :=
  ⟨h1.sem.trans h2.sem, h2.ty.trans h1.ty, ShapeOK.trans h1.ty h1.shape h2.shape⟩

theorem retType_binop_congr (p p' : Nat) (op : Op) {l l' : Expr} (r r' : Expr) (tl : retType l' = retType l) :
    retType (.binop p' op l' r') = retType (.binop p op l r) := by
  cases op <;> simp [retType, tl]

theorem shapeOK_binop (p : Nat) (op : Op) (l r e' : Expr) : ShapeOK (.binop p op l r) e' :=
  ⟨fun h => by simp [isListNode] at h, fun h => by simp [isCallRefNode] at h⟩

/-- congruence: rewritten operands inside the node that stays -/
theorem FoldRel.binop (p : Nat) (op : Op) {l l' r r' : Expr} (hl : FoldRel l l') (hr : FoldRel r r') :
    FoldRel (.binop p op l r) (.binop p op l' r') :=
  ⟨fun kv c hc => binop_refines hc op p hl.ty (hl.sem kv c hc) hr.ty (hr.sem kv c hc) hr.shape,
   retType_binop_congr p p op r r' hl.ty, shapeOK_binop ..⟩

/-! ### literals and constant evaluation -/

/-- what a literal evaluates to -/
def litVal : Expr → Value
  | .str _ d => .bytes d
  | .num _ _ v => .int v
  | .float _ _ v => .float v
  | .bool _ _ v => .bool v
  | _ => .nil

theorem ev_lit {e : Expr} (h : isLit4 e = true) (kv : Pair) (c : Ctx) : ev e kv c = .ok (litVal e) := by
  cases e <;> simp [isLit4] at h <;> simp [ev, exec, litVal]

theorem lit_refines {e : Expr} (h : isLit4 e = true) (kv : Pair) (c : Ctx) (kv' : Pair) (c' : Ctx) :
    Refines (ev e kv' c') (ev e kv c) := by
  rw [ev_lit h, ev_lit h]; exact .refl _

theorem isLit4_of_isLit3 {e : Expr} (h : isLit3 e = true) : isLit4 e = true := by
  cases e <;> simp [isLit3] at h <;> rfl

theorem constExec_eq (e : Expr) : constExec e = ev e emptyPair Ctx.none := rfl

theorem ctxNone_off : Ctx.none.enable = false := rfl

/-- a node whose operands are literals has, on every pair, the value constant evaluation finds -/
theorem const_binop {p : Nat} {op : Op} {l r : Expr} (hop : op ≠ .in_ ∧ op ≠ .between)
    (hl : isLit4 l = true) (hr : isLit4 r = true) {ret : Value}
    (hk : constExec (.binop p op l r) = .ok ret) {kv : Pair} {c : Ctx} (hc : c.enable = false) {v : Value}
    (hv : ev (.binop p op l r) kv c = .ok v) : Rel ret v := by
  have := binop_refines2 hc ctxNone_off hop p p rfl (lit_refines hl kv c emptyPair Ctx.none)
    (lit_refines hr kv c emptyPair Ctx.none) v hv
  obtain ⟨v', hv', rv⟩ := this
  rw [← constExec_eq, hk] at hv'
  cases hv'
  exact rv

theorem intMath_kind {op : MathOp} {l r : Int64} {v : Value} (h : intMath op l r = .ok v) : ∃ i, v = .int i := by
  cases op <;> simp only [intMath] at h
  · cases h; exact ⟨_, rfl⟩
  · cases h; exact ⟨_, rfl⟩
  · cases h; exact ⟨_, rfl⟩
  · split at h
    · cases h
    · cases h; exact ⟨_, rfl⟩

theorem floatMath_kind {op : MathOp} {l r : F64} {v : Value} (h : floatMath op l r = .ok v) : ∃ f, v = .float f := by
  cases op <;> simp only [floatMath] at h
  · cases h; exact ⟨_, rfl⟩
  · cases h; exact ⟨_, rfl⟩
  · cases h; exact ⟨_, rfl⟩
  · split at h
    · cases h
    · cases h; exact ⟨_, rfl⟩

/-- arithmetic yields an integer or a float, never a text -/
theorem executeMathOp_kind {a b : Value} {op : MathOp} {v : Value} (h : executeMathOp a b op = .ok v) :
    (∃ i, v = .int i) ∨ (∃ f, v = .float f) := by
  unfold executeMathOp at h
  split at h
  · exact .inl (intMath_kind h)
  · split at h
    · exact .inr (floatMath_kind h)
    · split at h
      · exact .inr (floatMath_kind h)
      · exact .inr (floatMath_kind h)
      · cases h

/-! ### foldBinary: a node with literal operands is replaced by the literal of its value -/

theorem sem_of_const {n k : Expr} (hk : isLit4 k = true)
    (h : ∀ (kv : Pair) (c : Ctx), c.enable = false → ∀ v, ev n kv c = .ok v → Rel (litVal k) v) : Sem n k := by
  intro kv c hc v hv
  exact ⟨litVal k, ev_lit hk kv c, h kv c hc v hv⟩

theorem mathop_ok {p : Nat} {op : Op} {mop : MathOp} {l r : Expr} (hm : mathOpOf op = some mop)
    (hl : isLit4 l = true) (hr : isLit4 r = true) {ret : Value}
    (hk : constExec (.binop p op l r) = .ok ret) :
    (∃ s, ret = .str s ∧ op = .add ∧ retType l = tyTSTR) ∨
    (((∃ i, ret = .int i) ∨ (∃ f, ret = .float f)) ∧ retType (.binop p op l r) = tyTNUMBER) := by
  have hs : isStrict2 op = true := by cases op <;> simp [mathOpOf] at hm <;> rfl
  rw [constExec_eq, ev_strict2 hs p l r _ ctxNone_off, ev_lit hl, ev_lit hr] at hk
  simp only [strict2] at hk
  cases op <;> simp [mathOpOf] at hm
  · -- add
    simp only [kernel2] at hk
    split at hk
    · rename_i hty
      cases hk
      exact .inl ⟨_, rfl, rfl, by simpa using hty⟩
    · rename_i hty
      refine .inr ⟨executeMathOp_kind hk, ?_⟩
      simp only [retType]
      simp at hty
      simp [hty]
  · exact .inr ⟨executeMathOp_kind hk, rfl⟩
  · exact .inr ⟨executeMathOp_kind hk, rfl⟩
  · exact .inr ⟨executeMathOp_kind hk, rfl⟩

theorem foldBinary_ok {p : Nat} {op : Op} {l r k : Expr} (hl : isLit4 l = true) (hr : isLit4 r = true)
    (h : foldBinary (.binop p op l r) = .ok (some k)) : FoldRel (.binop p op l r) k ∧ isLit4 k = true := by
  have shape := shapeOK_binop p op l r k
  by_cases hm : ∃ mop, mathOpOf op = some mop
  · obtain ⟨mop, hm⟩ := hm
    have hop : op ≠ .in_ ∧ op ≠ .between := by cases op <;> simp [mathOpOf] at hm <;> simp
    have h' : (match constExec (.binop p op l r) with
        | .error _ => (pure none : R (Option Expr))
        | .ok ret =>
          match ret with
          | .str s => pure (some (.str l.pos s))
          | .int c => pure (some (.num l.pos (formatInt c) c))
          | .float c => pure (some (.float l.pos [] c))
          | _ => pure none) = .ok (some k) := by
      cases op <;> simp [mathOpOf] at hm <;> exact h
    cases hk : constExec (.binop p op l r) with
    | error e => simp [hk, pure, Except.pure] at h'
    | ok ret =>
      simp only [hk] at h'
      have hconst := fun kv c hc v hv => const_binop (ret := ret) hop hl hr hk (kv := kv) (c := c) hc (v := v) hv
      rcases mathop_ok hm hl hr hk with ⟨s, rfl, rfl, hty⟩ | ⟨hkind, hty⟩
      · simp [pure, Except.pure] at h'
        subst h'
        refine ⟨⟨sem_of_const rfl fun kv c hc v hv => ?_, ?_, shape⟩, rfl⟩
        · have := rel_of_str (hconst kv c hc v hv)
          subst this
          exact .inr ⟨s, rfl, rfl⟩
        · simp [retType, hty]
      · rcases hkind with ⟨i, rfl⟩ | ⟨f, rfl⟩
        · simp [pure, Except.pure] at h'
          subst h'
          refine ⟨⟨sem_of_const rfl fun kv c hc v hv => ?_, ?_, shape⟩, rfl⟩
          · exact hconst kv c hc v hv
          · rw [hty]; rfl
        · simp [pure, Except.pure] at h'
          subst h'
          refine ⟨⟨sem_of_const rfl fun kv c hc v hv => ?_, ?_, shape⟩, rfl⟩
          · exact hconst kv c hc v hv
          · rw [hty]; rfl
  · by_cases hb : op = .and ∨ op = .or ∨ op = .eq ∨ op = .neq ∨ op = .gt ∨ op = .gte ∨ op = .lt ∨ op = .lte
    · have hop : op ≠ .in_ ∧ op ≠ .between := by rcases hb with h | h | h | h | h | h | h | h <;> subst h <;> simp
      have hty : retType (.binop p op l r) = tyTBOOL := by
        rcases hb with h | h | h | h | h | h | h | h <;> subst h <;> rfl
      have h' : (match constExec (.binop p op l r) with
          | .error _ => (pure none : R (Option Expr))
          | .ok ret =>
            match ret with
            | .bool b => pure (some (mkBool l.pos b))
            | _ => throw "tryOptimizeBinaryOpExecute: ret.(bool)") = .ok (some k) := by
        rcases hb with h1 | h1 | h1 | h1 | h1 | h1 | h1 | h1 <;> subst h1 <;> exact h
      cases hk : constExec (.binop p op l r) with
      | error e => simp [hk, pure, Except.pure] at h'
      | ok ret =>
        simp only [hk] at h'
        cases ret <;> simp [pure, Except.pure, throw, throwThe, MonadExceptOf.throw] at h'
        subst h'
        refine ⟨⟨sem_of_const rfl fun kv c hc v hv => ?_, ?_, shape⟩, rfl⟩
        · exact const_binop hop hl hr hk hc hv
        · rw [hty]; rfl
    · exfalso
      cases op <;> simp [mathOpOf] at hm hb <;> simp [foldBinary, pure, Except.pure] at h

/-! ### foldCall: a call with literal arguments is replaced by the literal of its value -/

theorem rows_lit (kv : Pair) (c : Ctx) (kv' : Pair) (c' : Ctx) :
    ∀ {args : List Expr}, args.all isLit4 = true → Rows (ArgOK kv c kv' c') args args
  | [], _ => .nil
  | a :: rest, h => by
    simp only [List.all_cons, Bool.and_eq_true] at h
    exact .cons ⟨.inl rfl, lit_refines h.1 kv c kv' c'⟩ (rows_lit kv c kv' c' h.2)

theorem const_call {p : Nat} {nm : Expr} {args : List Expr} (hl : args.all isLit4 = true) {ret : Value}
    (hk : constExec (.call p nm args) = .ok ret) {kv : Pair} {c : Ctx} (hc : c.enable = false) {v : Value}
    (hv : ev (.call p nm args) kv c = .ok v) : Rel ret v := by
  obtain ⟨v', hv', rv⟩ := call_refines hc ctxNone_off p p nm (rows_lit kv c emptyPair Ctx.none hl) v hv
  rw [← constExec_eq, hk] at hv'
  cases hv'
  exact rv

theorem shapeOK_call_lit {p : Nat} {nm : Expr} {args : List Expr} {k : Expr}
    (hty : retType (.call p nm args) ≠ tyTLIST) : ShapeOK (.call p nm args) k :=
  ⟨fun h => by simp [isListNode] at h, fun _ t => absurd t hty⟩

theorem foldCall_ok {p : Nat} {nm : Expr} {args : List Expr} {k : Expr} (hl : args.all isLit4 = true)
    (h : foldCall (.call p nm args) = .ok (some k)) : FoldRel (.call p nm args) k ∧ isLit4 k = true := by
  simp only [foldCall] at h
  split at h
  · simp [pure, Except.pure] at h
  · cases hk : constExec (.call p nm args) with
    | error e => simp [hk, pure, Except.pure] at h
    | ok ret =>
      simp only [hk] at h
      have hconst := fun kv c hc v hv => const_call (ret := ret) hl hk (kv := kv) (c := c) hc (v := v) hv
      split at h
      · rename_i hty
        have hty' : retType (.call p nm args) = tyTSTR := by simpa using hty
        cases ret <;> simp [pure, Except.pure, throw, throwThe, MonadExceptOf.throw] at h
        subst h
        rename_i s
        refine ⟨⟨sem_of_const rfl fun kv c hc v hv => ?_, hty'.symm ▸ rfl, shapeOK_call_lit (by rw [hty']; decide)⟩, rfl⟩
        have := rel_of_str (hconst kv c hc v hv)
        subst this
        exact .inr ⟨s, rfl, rfl⟩
      · split at h
        · rename_i hty
          have hty' : retType (.call p nm args) = tyTNUMBER := by simpa using hty
          cases ret <;> simp [pure, Except.pure] at h
          · subst h
            exact ⟨⟨sem_of_const rfl fun kv c hc v hv => hconst kv c hc v hv, hty'.symm ▸ rfl,
              shapeOK_call_lit (by rw [hty']; decide)⟩, rfl⟩
          · subst h
            exact ⟨⟨sem_of_const rfl fun kv c hc v hv => hconst kv c hc v hv, hty'.symm ▸ rfl,
              shapeOK_call_lit (by rw [hty']; decide)⟩, rfl⟩
        · split at h
          · rename_i hty
            have hty' : retType (.call p nm args) = tyTBOOL := by simpa using hty
            cases ret <;> simp [pure, Except.pure, throw, throwThe, MonadExceptOf.throw] at h
            subst h
            exact ⟨⟨sem_of_const rfl fun kv c hc v hv => hconst kv c hc v hv, hty'.symm ▸ rfl,
              shapeOK_call_lit (by rw [hty']; decide)⟩, rfl⟩
          · simp [pure, Except.pure] at h

end Fold
end Kvql
