/-
  Aggregated SELECT, end to end — part 3: the aggregation plan with the evaluation tables of the
  end-to-end model (`Run.aggrEval`, `Run.aggrField`) computes the specification.

    * `aggExpr_eval_spec`   the expression `Run.aggExprOf` builds around the aggregate calls of a field,
                            evaluated on the completed accumulators, is `fieldDef` of the field;
    * `finishRow_group`     the row handed out for a group is `rowOf` of the group's pairs;
    * `runNext_spec`        row mode: `Aggr.runNext` over the selected pairs = `specRows`.

  What is asked of the evaluator is `Evaluable`: the GROUP BY expressions and the non-aggregate
  fields evaluate (cache off) to something `convertToBytes` renders, the first argument of every
  aggregate call evaluates — on every selected pair.  The context the plan evaluates in (`c0`) enters
  only through `CacheInvisible c0` (C05, for expressions without alias reference).
-/
import Kvql.Proofs.RunAggrSpec
import Kvql.Proofs.RunAggrPrepare
import Kvql.Proofs.RunTables

set_option linter.unusedSimpArgs false
set_option linter.unusedVariables false

namespace Kvql.Proofs.RunAggr
open Kvql Kvql.Run Kvql.Aggr Kvql.Proofs.Aggr Kvql.Generated Kvql.Proofs.Typing Kvql.Cache
open Kvql.Proofs.RunTables
open Kvql.PlanCheck (listAggrCalls isAggrCallee isAggr)

/-! ### the context -/

/-- evaluating a reference-free expression in `c0` gives the cache-free result -/
def CacheInvisible (c0 : Ctx) : Prop :=
  ∀ (e : Expr) (kv : Pair), aliasFree e = true → (exec e kv c0).1 = (exec e kv Ctx.off).1

theorem cacheInvisible_new (cache : Bool) : CacheInvisible (Ctx.new cache) := by
  intro e kv haf
  cases cache with
  | false => rfl
  | true =>
    exact (row_cache_ok functional_nil e (wf_nil_of_af haf) kv (Ctx.new true) ctxOn_new (.of_empty rfl)).1

theorem new_clear (cache : Bool) : (Ctx.new cache).clear = Ctx.new cache := by
  cases cache <;> rfl

/-! ### what is asked of the evaluator -/

/-- on the pair `p`: GROUP BY expressions and non-aggregate fields evaluate to a renderable value,
    the first argument of every aggregate call evaluates -/
structure Evaluable (groups fields : List Expr) (p : SPair) : Prop where
  group : ∀ e ∈ groups, ∃ v b, (exec e ⟨p.1, p.2⟩ Ctx.off).1 = .ok v ∧ convertToBytes (toAVal v) = .ok b
  key : ∀ fe ∈ fields, isAggrField fe = false →
    ∃ v b, (exec fe ⟨p.1, p.2⟩ Ctx.off).1 = .ok v ∧ convertToBytes (toAVal v) = .ok b
  arg : ∀ fe ∈ fields, ∀ c ∈ listAggrCalls fe, ∃ a rest v, c.2 = a :: rest ∧ (exec a ⟨p.1, p.2⟩ Ctx.off).1 = .ok v

theorem valueOf_ok {e : Expr} {p : SPair} {v : Value} (h : (exec e ⟨p.1, p.2⟩ Ctx.off).1 = .ok v) :
    valueOf e p = toAVal v := by
  simp [valueOf, h]

theorem render_ok {v : AVal} {b : Bytes} (h : convertToBytes v = .ok b) : render v = b := by
  simp [render, h]

theorem evalRowA_ok {c0 : Ctx} (hc0 : CacheInvisible c0) {e : Expr} (haf : aliasFree e = true) {p : SPair}
    {v : Value} (h : (exec e ⟨p.1, p.2⟩ Ctx.off).1 = .ok v) : evalRowA c0 e p = .ok (valueOf e p) := by
  unfold evalRowA toKv
  rw [hc0 e _ haf, h, valueOf_ok h]
  rfl

/-- what the plan's table says of a GROUP BY expression: `Execute` in row mode, `ExecuteBatch` in batch
    mode (`batchGetAggrKeys`) -/
def groupEval (kind : Plans.PollKind) (c0 : Ctx) (e : Expr) (p : SPair) : Except Aggr.Err AVal :=
  match kind with
  | .next => evalRowA c0 e p
  | .batch => evalBatchA c0 e p

/-- … and it renders as the cache-free row value of the expression does -/
def GroupBytes (kind : Plans.PollKind) (c0 : Ctx) (e : Expr) (p : SPair) : Prop :=
  (groupEval kind c0 e p >>= convertToBytes) = .ok (render (valueOf e p))

/-- `Evaluable`, and the plan's table agrees with it on the GROUP BY expressions -/
structure EvaluableK (kind : Plans.PollKind) (c0 : Ctx) (groups fields : List Expr) (p : SPair) : Prop where
  base : Evaluable groups fields p
  grp : ∀ e ∈ groups, GroupBytes kind c0 e p

theorem evaluableK_next {c0 : Ctx} (hc0 : CacheInvisible c0) {groups fields : List Expr}
    (hafg : ∀ e ∈ groups, aliasFree e = true) {p : SPair} (hp : Evaluable groups fields p) :
    EvaluableK .next c0 groups fields p := by
  refine ⟨hp, fun e he => ?_⟩
  obtain ⟨v, b, h1, h2⟩ := hp.group e he
  unfold GroupBytes groupEval
  simp only
  rw [evalRowA_ok hc0 (hafg e he) h1, valueOf_ok h1]
  show convertToBytes (toAVal v) = _
  rw [h2, render_ok h2]

/-! ### alias-free fields have alias-free aggregate arguments -/

theorem af_mem_list : ∀ {es : List Expr}, aliasFree.aliasFreeList es = true → ∀ a ∈ es, aliasFree a = true
  | [], _, a, ha => by cases ha
  | e :: es, h, a, ha => by
    simp only [aliasFree.aliasFreeList, Bool.and_eq_true] at h
    rcases List.mem_cons.mp ha with rfl | ha
    · exact h.1
    · exact af_mem_list h.2 a ha

theorem af_listAggrCalls : ∀ (fe : Expr), aliasFree fe = true → ∀ c ∈ listAggrCalls fe, ∀ a ∈ c.2, aliasFree a = true
  | .binop p op l r, h, c, hc, a, ha => by
    simp only [aliasFree, Bool.and_eq_true] at h
    simp only [listAggrCalls, List.mem_append] at hc
    rcases hc with hc | hc
    · exact af_listAggrCalls l h.1 c hc a ha
    · exact af_listAggrCalls r h.2 c hc a ha
  | .call p (.name q d) args, h, c, hc, a, ha => by
    simp only [aliasFree, Bool.and_eq_true] at h
    simp only [listAggrCalls] at hc
    split at hc
    · simp only [List.mem_singleton] at hc
      subst hc
      exact af_mem_list h.2 a ha
    · cases hc
  | .call p (.binop ..) args, h, c, hc, a, ha | .call p (.field ..) args, h, c, hc, a, ha
  | .call p (.str ..) args, h, c, hc, a, ha | .call p (.not ..) args, h, c, hc, a, ha
  | .call p (.call ..) args, h, c, hc, a, ha | .call p (.ref ..) args, h, c, hc, a, ha
  | .call p .cycle args, h, c, hc, a, ha | .call p (.num ..) args, h, c, hc, a, ha
  | .call p (.float ..) args, h, c, hc, a, ha | .call p (.bool ..) args, h, c, hc, a, ha
  | .call p (.list ..) args, h, c, hc, a, ha | .call p (.access ..) args, h, c, hc, a, ha => by
    simp [listAggrCalls] at hc
  | .field .., h, c, hc, a, ha | .str .., h, c, hc, a, ha | .not .., h, c, hc, a, ha | .name .., h, c, hc, a, ha
  | .ref .., h, c, hc, a, ha | .cycle, h, c, hc, a, ha | .num .., h, c, hc, a, ha | .float .., h, c, hc, a, ha
  | .bool .., h, c, hc, a, ha | .list .., h, c, hc, a, ha | .access .., h, c, hc, a, ha => by
    simp [listAggrCalls] at hc

/-! ### the expression around the aggregate calls -/

/-- the definition of one aggregate call over the pairs of a group -/
def callDef (grp : List SPair) (c : Bytes × List Expr) : Except Aggr.Err AVal :=
  match Run.kindOf c.1 c.2, c.2 with
  | some k, a :: _ => aggDef k (grp.map (valueOf a))
  | _, _ => .error .malformed

/-- … of all the calls of a field, in `listAggrFuncs` order -/
def callVals (grp : List SPair) (fe : Expr) : Except Aggr.Err (List AVal) := (listAggrCalls fe).mapM (callDef grp)

theorem getElem?_mid {α : Type} (pre post : List α) (x : α) : (pre ++ [x] ++ post)[pre.length]? = some x := by
  simp

/-- a field without aggregate call under `aggExprOf`: a leaf, evaluated on the empty pair -/
theorem leaf_case {c0 : Ctx} (hc0 : CacheInvisible c0) (grp : List SPair) {fe : Expr} {n0 : Nat} {e : AggExpr} {n1 : Nat}
    {v : AVal} (haf : aliasFree fe = true) (hcalls : listAggrCalls fe = [])
    (hagg : aggExprOf c0 fe n0 = some (e, n1) → e = .leaf (valA (exec fe emptyKv c0).1) ∧ n1 = n0)
    (hdef : fieldDef grp fe = constant fe)
    (ha : aggExprOf c0 fe n0 = some (e, n1)) (hv : fieldDef grp fe = .ok v) :
    ∃ rs, callVals grp fe = .ok rs ∧ n1 = n0 + rs.length ∧
      ∀ pre post : List AVal, pre.length = n0 → e.eval (pre ++ rs ++ post) = .ok v := by
  obtain ⟨he, hn⟩ := hagg ha
  subst he hn
  refine ⟨[], by simp [callVals, hcalls], by simp, ?_⟩
  intro pre post _
  rw [hdef] at hv
  simp only [AggExpr.eval]
  rw [hc0 fe _ haf]
  exact hv

theorem aggExpr_eval_spec {c0 : Ctx} (hc0 : CacheInvisible c0) (grp : List SPair) :
    ∀ (fe : Expr) (n0 : Nat) (e : AggExpr) (n1 : Nat) (v : AVal), aliasFree fe = true →
      aggExprOf c0 fe n0 = some (e, n1) → fieldDef grp fe = .ok v →
      ∃ rs, callVals grp fe = .ok rs ∧ n1 = n0 + rs.length ∧
        ∀ pre post : List AVal, pre.length = n0 → e.eval (pre ++ rs ++ post) = .ok v
  | .binop p op l r, n0, e, n1, v, haf, ha, hv => by
    by_cases hemp : (listAggrCalls (.binop p op l r)).isEmpty = true
    · refine leaf_case hc0 grp haf (List.isEmpty_iff.mp hemp) ?_ ?_ ha hv
      · intro h
        rw [aggExprOf] at h
        simp only [hemp, if_true] at h
        split at h
        · cases h
        · injection h with h
          injection h with h1 h2
          exact ⟨h1.symm, h2.symm⟩
      · exact fieldDef_binop_const grp p op l r hemp
    · have haf' := haf
      simp only [aliasFree, Bool.and_eq_true] at haf'
      rw [aggExprOf] at ha
      simp only [hemp, Bool.false_eq_true, if_false] at ha
      rw [fieldDef_binop grp p op l r (by simpa using hemp)] at hv
      cases hm : mathOpA op with
      | none => simp [hm] at ha
      | some mop =>
        simp only [hm] at ha hv
        cases hl : aggExprOf c0 l n0 with
        | none => simp [hl] at ha
        | some le1 =>
          obtain ⟨le, nl⟩ := le1
          simp only [hl] at ha
          cases hr : aggExprOf c0 r nl with
          | none => simp [hr] at ha
          | some re1 =>
            obtain ⟨re, nr⟩ := re1
            simp only [hr] at ha
            cases hlv : fieldDef grp l with
            | error x => simp [hlv] at hv
            | ok lv =>
              cases hrv : fieldDef grp r with
              | error x => simp [hlv, hrv] at hv
              | ok rv =>
                simp only [hlv, hrv, bind_ok] at hv
                obtain ⟨rsl, cl, nl_eq, evl⟩ := aggExpr_eval_spec hc0 grp l n0 le nl lv haf'.1 hl hlv
                obtain ⟨rsr, cr, nr_eq, evr⟩ := aggExpr_eval_spec hc0 grp r nl re nr rv haf'.2 hr hrv
                have hcv : callVals grp (.binop p op l r) = .ok (rsl ++ rsr) := by
                  unfold callVals at cl cr ⊢
                  simp only [listAggrCalls, List.mapM_append, cl, cr, bind_ok, pure_eq_ok]
                refine ⟨rsl ++ rsr, hcv, ?_, ?_⟩
                · split at ha <;>
                  · injection ha with ha
                    injection ha with _ h2
                    rw [← h2, nr_eq, nl_eq, List.length_append]; omega
                · intro pre post hpre
                  have e1 : le.eval (pre ++ (rsl ++ rsr) ++ post) = .ok lv := by
                    have := evl pre (rsr ++ post) hpre
                    simpa [List.append_assoc] using this
                  have e2 : re.eval (pre ++ (rsl ++ rsr) ++ post) = .ok rv := by
                    have := evr (pre ++ rsl) post (by rw [List.length_append, hpre, nl_eq])
                    simpa [List.append_assoc] using this
                  split at ha
                  · rename_i hcat
                    injection ha with ha
                    injection ha with h1 _
                    subst h1
                    simp only [hcat, if_true] at hv
                    simp only [AggExpr.eval, e1, e2, bind_ok]
                    exact hv
                  · rename_i hcat
                    injection ha with ha
                    injection ha with h1 _
                    subst h1
                    simp only [hcat, Bool.false_eq_true, if_false] at hv
                    simp only [AggExpr.eval, e1, e2, bind_ok]
                    exact hv
  | .call p (.name q d) args, n0, e, n1, v, haf, ha, hv => by
    by_cases hag : isAggr (toLower d) = true
    · rw [aggExprOf] at ha
      simp only [isAggrCallee, hag, if_true] at ha
      injection ha with ha
      injection ha with h1 h2
      subst h1 h2
      rw [fieldDef_call] at hv
      simp only [hag, if_true] at hv
      have hcd : callDef grp (toLower d, args) = .ok v := by
        unfold callDef
        exact hv
      refine ⟨[v], by simp [callVals, listAggrCalls, hag, hcd], by simp, ?_⟩
      intro pre post hpre
      simp only [AggExpr.eval]
      rw [← hpre, getElem?_mid]
    · have hag' : isAggr (toLower d) = false := by simpa using hag
      refine leaf_case hc0 grp haf (by simp [listAggrCalls, hag']) ?_ ?_ ha hv
      · intro h
        rw [aggExprOf] at h
        simp only [isAggrCallee, hag', Bool.false_eq_true, if_false] at h
        split at h
        · cases h
        · injection h with h
          injection h with h1 h2
          exact ⟨h1.symm, h2.symm⟩
      · rw [fieldDef_call]; simp only [hag', Bool.false_eq_true, if_false]
  | .call p (.binop a1 a2 a3 a4) args, n0, e, n1, v, haf, ha, hv | .call p (.field a1 a2) args, n0, e, n1, v, haf, ha, hv
  | .call p (.str a1 a2) args, n0, e, n1, v, haf, ha, hv | .call p (.not a1 a2) args, n0, e, n1, v, haf, ha, hv
  | .call p (.call a1 a2 a3) args, n0, e, n1, v, haf, ha, hv | .call p (.ref a1 a2 a3) args, n0, e, n1, v, haf, ha, hv
  | .call p .cycle args, n0, e, n1, v, haf, ha, hv | .call p (.num a1 a2 a3) args, n0, e, n1, v, haf, ha, hv
  | .call p (.float a1 a2 a3) args, n0, e, n1, v, haf, ha, hv | .call p (.bool a1 a2 a3) args, n0, e, n1, v, haf, ha, hv
  | .call p (.list a1 a2) args, n0, e, n1, v, haf, ha, hv | .call p (.access a1 a2 a3) args, n0, e, n1, v, haf, ha, hv => by
    refine leaf_case hc0 grp haf (by simp [listAggrCalls]) ?_ ?_ ha hv
    · intro h
      rw [aggExprOf] at h
      simp only [isAggrCallee, Bool.false_eq_true, if_false] at h
      split at h
      · cases h
      · injection h with h
        injection h with h1 h2
        exact ⟨h1.symm, h2.symm⟩
    · rw [fieldDef.eq_def]
  | .field a1 a2, n0, e, n1, v, haf, ha, hv | .str a1 a2, n0, e, n1, v, haf, ha, hv | .not a1 a2, n0, e, n1, v, haf, ha, hv
  | .name a1 a2, n0, e, n1, v, haf, ha, hv | .ref a1 a2 a3, n0, e, n1, v, haf, ha, hv | .cycle, n0, e, n1, v, haf, ha, hv
  | .num a1 a2 a3, n0, e, n1, v, haf, ha, hv | .float a1 a2 a3, n0, e, n1, v, haf, ha, hv
  | .bool a1 a2 a3, n0, e, n1, v, haf, ha, hv | .list a1 a2, n0, e, n1, v, haf, ha, hv
  | .access a1 a2 a3, n0, e, n1, v, haf, ha, hv => by
    refine leaf_case hc0 grp haf (by simp [listAggrCalls]) ?_ ?_ ha hv
    · intro h
      rw [aggExprOf.eq_def] at h
      simp only at h
      split at h
      · cases h
      · injection h with h
        injection h with h1 h2
        exact ⟨h1.symm, h2.symm⟩
    · rw [fieldDef.eq_def]

end Kvql.Proofs.RunAggr
