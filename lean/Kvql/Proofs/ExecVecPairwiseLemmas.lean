/-
  `batch_pairwise`: with the field cache switched off, `ExecuteBatch` on a non-empty chunk is
  pair-wise — it succeeds exactly when it succeeds on every pair taken as a chunk of its own, and
  then returns those pairs' values in order.  No static side condition: every node kind, every
  function.  (The chunk must be non-empty: on an empty chunk an alias panics at `chunk[0]` when the
  context is non-nil, and `=` returns a nil slice.)

  Proof: every `ExecuteBatch` is a sequence of sub-evaluations on the same chunk followed by one
  loop over the pairs (`PW.un / bin / tern`), each loop being characterised in both directions by
  its per-pair kernel.
-/
import Kvql.Proofs.ExecVecInList
import Kvql.Proofs.ExecOffConst

namespace Kvql
open Generated

/-! ### `Rows` helpers -/

theorem Rows.singleton_inv {α β : Type} {P : α → β → Prop} {as : List α} {b : β} (h : Rows P as [b]) :
    ∃ a, as = [a] ∧ P a b := by
  cases h with
  | cons hp hr => cases hr; exact ⟨_, rfl, hp⟩

theorem Rows.single {α β : Type} {P : α → β → Prop} {a : α} {b : β} (h : P a b) : Rows P [a] [b] := .cons h .nil

theorem Rows.unzip1 {β : Type} {A : Value → β → Prop} {C : Value → Value → Prop} :
    ∀ {vs : List Value} {chunk : List β}, Rows (fun v kv => ∃ x, A x kv ∧ C x v) vs chunk →
      ∃ xs, Rows A xs chunk ∧ Rows (fun v x => C x v) vs xs
  | _, _, .nil => ⟨[], .nil, .nil⟩
  | _, _, .cons ⟨x, ha, hc⟩ hr => by
    obtain ⟨xs, h1, h2⟩ := Rows.unzip1 hr
    exact ⟨x :: xs, .cons ha h1, .cons hc h2⟩

theorem Rows.unzip2 {β : Type} {A B : Value → β → Prop} {C : Value → Value → Value → Prop} :
    ∀ {vs : List Value} {chunk : List β}, Rows (fun v kv => ∃ x z, A x kv ∧ B z kv ∧ C x z v) vs chunk →
      ∃ xs zs, Rows A xs chunk ∧ Rows B zs chunk ∧ Rows (fun v (xz : Value × Value) => C xz.1 xz.2 v) vs (xs.zip zs)
  | _, _, .nil => ⟨[], [], .nil, .nil, .nil⟩
  | _, _, .cons ⟨x, z, ha, hb, hc⟩ hr => by
    obtain ⟨xs, zs, h1, h2, h3⟩ := Rows.unzip2 hr
    exact ⟨x :: xs, z :: zs, .cons ha h1, .cons hb h2, .cons hc h3⟩

theorem Rows.unzip3 {β : Type} {A B D : Value → β → Prop} {C : Value → Value → Value → Value → Prop} :
    ∀ {vs : List Value} {chunk : List β}, Rows (fun v kv => ∃ x y z, A x kv ∧ B y kv ∧ D z kv ∧ C x y z v) vs chunk →
      ∃ xs ys zs, Rows A xs chunk ∧ Rows B ys chunk ∧ Rows D zs chunk ∧
        Rows (fun v (t : Value × Value × Value) => C t.1 t.2.1 t.2.2 v) vs (xs.zip (ys.zip zs))
  | _, _, .nil => ⟨[], [], [], .nil, .nil, .nil, .nil⟩
  | _, _, .cons ⟨x, y, z, ha, hb, hd, hc⟩ hr => by
    obtain ⟨xs, ys, zs, h1, h2, h3, h4⟩ := Rows.unzip3 hr
    exact ⟨x :: xs, y :: ys, z :: zs, .cons ha h1, .cons hb h2, .cons hd h3, .cons hc h4⟩

/-! ### the loops, from the per-pair kernel back to the loop -/

theorem mapRows_of_rows {f : Value → Except Err Value} :
    ∀ {xs ys : List Value}, Rows (fun y x => f x = .ok y) ys xs → mapRows f xs.length xs = .ok ys
  | _, _, .nil => rfl
  | _, _, .cons hp hr => by simp [mapRows, hp, mapRows_of_rows hr]; rfl

theorem mapRowsFresh_of_rows {f : Value → Value} :
    ∀ {xs ys : List Value}, Rows (fun y x => y = f x) ys xs → mapRowsFresh f xs.length xs = .ok ys
  | _, _, .nil => rfl
  | _, _, .cons hp hr => by simp [mapRowsFresh, hp, mapRowsFresh_of_rows hr]; rfl

theorem zipRows_of_rows {f : Value → Value → Except Err Value} :
    ∀ {xs zs ys : List Value}, xs.length = zs.length →
      Rows (fun y (xz : Value × Value) => f xz.1 xz.2 = .ok y) ys (xs.zip zs) → zipRows f xs.length xs zs = .ok ys
  | [], [], _, _, .nil => rfl
  | x :: xs, z :: zs, _, hl, .cons hp hr => by
    have := zipRows_of_rows (by simpa using hl) hr
    simp only [List.zip_cons_cons] at *
    simp [zipRows, hp, this]; rfl
  | [], _ :: _, _, hl, _ => by simp at hl
  | _ :: _, [], _, hl, _ => by simp at hl

theorem zip3Rows_of_rows {f : Value → Value → Value → Except Err Value} :
    ∀ {xs ys zs vs : List Value}, xs.length = ys.length → xs.length = zs.length →
      Rows (fun v (t : Value × Value × Value) => f t.1 t.2.1 t.2.2 = .ok v) vs (xs.zip (ys.zip zs)) →
      zip3Rows f xs.length xs ys zs = .ok vs
  | [], [], [], _, _, _, .nil => rfl
  | x :: xs, y :: ys, z :: zs, _, h1, h2, .cons hp hr => by
    have := zip3Rows_of_rows (by simpa using h1) (by simpa using h2) hr
    simp [zip3Rows, hp, this]; rfl
  | [], _ :: _, _, _, h1, _, _ => by simp at h1
  | _ :: _, [], _, _, h1, _, _ => by simp at h1
  | [], [], _ :: _, _, _, h2, _ => by simp at h2
  | _ :: _, _ :: _, [], _, _, h2, _ => by simp at h2

theorem betweenRows_of_rows {number : Bool} :
    ∀ {xs ys zs vs : List Value}, xs.length = ys.length → xs.length = zs.length →
      Rows (fun v (t : Value × Value × Value) => betweenRow number (some t.1) t.2.1 t.2.2 = .ok v) vs (xs.zip (ys.zip zs)) →
      betweenRows number xs.length xs ys zs = .ok vs
  | [], [], [], _, _, _, .nil => rfl
  | x :: xs, y :: ys, z :: zs, _, h1, h2, .cons hp hr => by
    have := betweenRows_of_rows (by simpa using h1) (by simpa using h2) hr
    simp [betweenRows, hp, this]; rfl
  | [], _ :: _, _, _, h1, _, _ => by simp at h1
  | _ :: _, [], _, _, h1, _, _ => by simp at h1
  | [], [], _ :: _, _, _, h2, _ => by simp at h2
  | _ :: _, _ :: _, [], _, _, h2, _ => by simp at h2

/-! ### pair-wise chunk computations -/

/-- the computation on the one-pair chunk `[kv]` succeeds with the one value `v` and leaves the context alone -/
def Single (X : List Pair → M (List Value)) (c : Ctx) (v : Value) (kv : Pair) : Prop := X [kv] c = (.ok [v], c)

/-- a chunk computation that, cache off and chunk non-empty, succeeds exactly when it succeeds pair by pair -/
def PW (X : List Pair → M (List Value)) : Prop :=
  ∀ (c : Ctx), c.enable = false → ∀ (chunk : List Pair), chunk ≠ [] → ∀ (vs : List Value) (c' : Ctx),
    X chunk c = (.ok vs, c') ↔ (c' = c ∧ Rows (Single X c) vs chunk)

theorem PW.single_inv {X : List Pair → M (List Value)} (h : PW X) {c : Ctx} (hc : c.enable = false) {kv : Pair}
    {al : List Value} {c1 : Ctx} (hx : X [kv] c = (.ok al, c1)) : c1 = c ∧ ∃ x, al = [x] ∧ Single X c x kv := by
  obtain ⟨e1, R⟩ := (h c hc [kv] (by simp) al c1).mp hx
  exact ⟨e1, R.singleton_inv⟩

/-- a computation that never succeeds -/
theorem PW.never {X : List Pair → M (List Value)} (h : ∀ chunk c vs c', X chunk c ≠ (.ok vs, c')) : PW X := by
  intro c _ chunk hne vs c'
  constructor
  · intro hx; exact absurd hx (h _ _ _ _)
  · rintro ⟨_, R⟩
    cases R with
    | nil => exact absurd rfl hne
    | cons hp _ => exact absurd hp (h _ _ _ _)

theorem PW.congr {X Y : List Pair → M (List Value)} (h : ∀ chunk, X chunk = Y chunk) (hY : PW Y) : PW X := by
  have : X = Y := funext h
  rw [this]; exact hY

theorem rows_const_eq {f : Pair → Value} {c : Ctx} :
    ∀ {vs : List Value} {chunk : List Pair},
      Rows (Single (fun chunk => (Pure.pure (chunk.map f) : M (List Value))) c) vs chunk → vs = chunk.map f
  | _, _, .nil => rfl
  | _, _, .cons hp hr => by
    have h1 := (pure_ok_inv hp).1
    simp at h1
    simp [rows_const_eq hr, h1]

/-- one value per pair, computed from the pair alone -/
theorem PW.const (f : Pair → Value) : PW (fun chunk => (Pure.pure (chunk.map f) : M (List Value))) := by
  intro c _ chunk _ vs c'
  constructor
  · intro h
    obtain ⟨rfl, rfl⟩ := pure_ok_inv h
    exact ⟨rfl, Rows.map_left f (fun kv => rfl) chunk⟩
  · rintro ⟨rfl, R⟩
    rw [rows_const_eq R]; rfl

/-- one sub-evaluation, then a loop over the pairs -/
theorem PW.un {X Z : List Pair → M (List Value)} {F : List Pair → List Value → Except Err (List Value)}
    {K : Value → Except Err Value}
    (hZ : ∀ chunk, Z chunk = (do let a ← X chunk; M.lift (F chunk a)))
    (hF1 : ∀ {Pa : Value → Pair → Prop} {as ys : List Value} {chunk : List Pair}, Rows Pa as chunk →
      F chunk as = .ok ys → Rows (fun y kv => ∃ a, Pa a kv ∧ K a = .ok y) ys chunk)
    (hF2 : ∀ {as ys : List Value} {chunk : List Pair}, as.length = chunk.length →
      Rows (fun y a => K a = .ok y) ys as → F chunk as = .ok ys)
    (hX : PW X) : PW Z := by
  intro c hc chunk hne vs c'
  have single : ∀ kv v, Single Z c v kv ↔ ∃ x, Single X c x kv ∧ K x = .ok v := by
    intro kv v
    unfold Single
    rw [hZ]
    constructor
    · intro h
      obtain ⟨al, c1, ha, h1⟩ := bind_ok_inv h
      obtain ⟨e1, x, rfl, sx⟩ := hX.single_inv hc ha
      rw [e1] at h1
      obtain ⟨hf, _⟩ := lift_ok_inv h1
      obtain ⟨y, hy, a, rfl, hk⟩ := (hF1 (Pa := fun a _ => a = x) (chunk := [kv]) (Rows.single rfl) hf).singleton_inv
      cases hy
      exact ⟨a, sx, hk⟩
    · rintro ⟨x, sx, hk⟩
      rw [M.bind_ok sx]
      have := hF2 (as := [x]) (ys := [v]) (chunk := [kv]) rfl (Rows.single hk)
      simp [this]
  rw [hZ]
  constructor
  · intro h
    obtain ⟨a, c1, ha, h1⟩ := bind_ok_inv h
    obtain ⟨e1, Ra⟩ := (hX c hc chunk hne a c1).mp ha
    rw [e1] at h1
    obtain ⟨hf, e2⟩ := lift_ok_inv h1
    refine ⟨e2, (hF1 Ra hf).imp ?_⟩
    rintro y kv ⟨x, sx, hk⟩
    exact (single kv y).mpr ⟨x, sx, hk⟩
  · rintro ⟨rfl, R⟩
    have R' := R.imp (fun v kv h => (single kv v).mp h)
    obtain ⟨xs, Rx, Rk⟩ := Rows.unzip1 (A := Single X c') (C := fun x v => K x = .ok v) R'
    have hx := (hX c' hc chunk hne xs c').mpr ⟨rfl, Rx⟩
    rw [M.bind_ok hx]
    simp [hF2 Rx.length_eq Rk]

/-- two sub-evaluations on the chunk, then a loop over the pairs -/
theorem PW.bin {X Y Z : List Pair → M (List Value)} {F : List Pair → List Value → List Value → Except Err (List Value)}
    {K : Value → Value → Except Err Value}
    (hZ : ∀ chunk, Z chunk = (do let a ← X chunk; let b ← Y chunk; M.lift (F chunk a b)))
    (hF1 : ∀ {Pa Pb : Value → Pair → Prop} {as bs ys : List Value} {chunk : List Pair}, Rows Pa as chunk → Rows Pb bs chunk →
      F chunk as bs = .ok ys → Rows (fun y kv => ∃ a b, Pa a kv ∧ Pb b kv ∧ K a b = .ok y) ys chunk)
    (hF2 : ∀ {as bs ys : List Value} {chunk : List Pair}, as.length = chunk.length → bs.length = chunk.length →
      Rows (fun y (ab : Value × Value) => K ab.1 ab.2 = .ok y) ys (as.zip bs) → F chunk as bs = .ok ys)
    (hX : PW X) (hY : PW Y) : PW Z := by
  intro c hc chunk hne vs c'
  have single : ∀ kv v, Single Z c v kv ↔ ∃ x z, Single X c x kv ∧ Single Y c z kv ∧ K x z = .ok v := by
    intro kv v
    unfold Single
    rw [hZ]
    constructor
    · intro h
      obtain ⟨al, c1, ha, h1⟩ := bind_ok_inv h
      obtain ⟨e1, x, rfl, sx⟩ := hX.single_inv hc ha
      rw [e1] at h1
      obtain ⟨bl, c2, hb, h2⟩ := bind_ok_inv h1
      obtain ⟨e2, z, rfl, sz⟩ := hY.single_inv hc hb
      rw [e2] at h2
      obtain ⟨hf, _⟩ := lift_ok_inv h2
      obtain ⟨y, hy, a, b, rfl, rfl, hk⟩ := (hF1 (Pa := fun a _ => a = x) (Pb := fun b _ => b = z) (chunk := [kv])
        (Rows.single rfl) (Rows.single rfl) hf).singleton_inv
      cases hy
      exact ⟨a, b, sx, sz, hk⟩
    · rintro ⟨x, z, sx, sz, hk⟩
      rw [M.bind_ok sx, M.bind_ok sz]
      have := hF2 (as := [x]) (bs := [z]) (ys := [v]) (chunk := [kv]) rfl rfl (Rows.single hk)
      simp [this]
  rw [hZ]
  constructor
  · intro h
    obtain ⟨a, c1, ha, h1⟩ := bind_ok_inv h
    obtain ⟨e1, Ra⟩ := (hX c hc chunk hne a c1).mp ha
    rw [e1] at h1
    obtain ⟨b, c2, hb, h2⟩ := bind_ok_inv h1
    obtain ⟨e2, Rb⟩ := (hY c hc chunk hne b c2).mp hb
    rw [e2] at h2
    obtain ⟨hf, e3⟩ := lift_ok_inv h2
    refine ⟨e3, (hF1 Ra Rb hf).imp ?_⟩
    rintro y kv ⟨x, z, sx, sz, hk⟩
    exact (single kv y).mpr ⟨x, z, sx, sz, hk⟩
  · rintro ⟨rfl, R⟩
    have R' := R.imp (fun v kv h => (single kv v).mp h)
    obtain ⟨xs, zs, Rx, Rz, Rk⟩ := Rows.unzip2 (A := Single X c') (B := Single Y c') (C := fun x z v => K x z = .ok v) R'
    have hx := (hX c' hc chunk hne xs c').mpr ⟨rfl, Rx⟩
    have hz := (hY c' hc chunk hne zs c').mpr ⟨rfl, Rz⟩
    rw [M.bind_ok hx, M.bind_ok hz]
    simp [hF2 Rx.length_eq Rz.length_eq Rk]

/-- three sub-evaluations on the chunk, then a loop over the pairs -/
theorem PW.tern {X Y W Z : List Pair → M (List Value)}
    {F : List Pair → List Value → List Value → List Value → Except Err (List Value)}
    {K : Value → Value → Value → Except Err Value}
    (hZ : ∀ chunk, Z chunk = (do let a ← X chunk; let b ← Y chunk; let d ← W chunk; M.lift (F chunk a b d)))
    (hF1 : ∀ {Pa Pb Pd : Value → Pair → Prop} {as bs ds ys : List Value} {chunk : List Pair}, Rows Pa as chunk →
      Rows Pb bs chunk → Rows Pd ds chunk → F chunk as bs ds = .ok ys →
      Rows (fun y kv => ∃ a b d, Pa a kv ∧ Pb b kv ∧ Pd d kv ∧ K a b d = .ok y) ys chunk)
    (hF2 : ∀ {as bs ds ys : List Value} {chunk : List Pair}, as.length = chunk.length → bs.length = chunk.length →
      ds.length = chunk.length →
      Rows (fun y (t : Value × Value × Value) => K t.1 t.2.1 t.2.2 = .ok y) ys (as.zip (bs.zip ds)) → F chunk as bs ds = .ok ys)
    (hX : PW X) (hY : PW Y) (hW : PW W) : PW Z := by
  intro c hc chunk hne vs c'
  have single : ∀ kv v, Single Z c v kv ↔
      ∃ x y z, Single X c x kv ∧ Single Y c y kv ∧ Single W c z kv ∧ K x y z = .ok v := by
    intro kv v
    unfold Single
    rw [hZ]
    constructor
    · intro h
      obtain ⟨al, c1, ha, h1⟩ := bind_ok_inv h
      obtain ⟨e1, x, rfl, sx⟩ := hX.single_inv hc ha
      rw [e1] at h1
      obtain ⟨bl, c2, hb, h2⟩ := bind_ok_inv h1
      obtain ⟨e2, y, rfl, sy⟩ := hY.single_inv hc hb
      rw [e2] at h2
      obtain ⟨dl, c3, hd, h3⟩ := bind_ok_inv h2
      obtain ⟨e3, z, rfl, sz⟩ := hW.single_inv hc hd
      rw [e3] at h3
      obtain ⟨hf, _⟩ := lift_ok_inv h3
      obtain ⟨w, hw, a, b, d, rfl, rfl, rfl, hk⟩ := (hF1 (Pa := fun a _ => a = x) (Pb := fun b _ => b = y)
        (Pd := fun d _ => d = z) (chunk := [kv]) (Rows.single rfl) (Rows.single rfl) (Rows.single rfl) hf).singleton_inv
      cases hw
      exact ⟨a, b, d, sx, sy, sz, hk⟩
    · rintro ⟨x, y, z, sx, sy, sz, hk⟩
      rw [M.bind_ok sx, M.bind_ok sy, M.bind_ok sz]
      have := hF2 (as := [x]) (bs := [y]) (ds := [z]) (ys := [v]) (chunk := [kv]) rfl rfl rfl (Rows.single hk)
      simp [this]
  rw [hZ]
  constructor
  · intro h
    obtain ⟨a, c1, ha, h1⟩ := bind_ok_inv h
    obtain ⟨e1, Ra⟩ := (hX c hc chunk hne a c1).mp ha
    rw [e1] at h1
    obtain ⟨b, c2, hb, h2⟩ := bind_ok_inv h1
    obtain ⟨e2, Rb⟩ := (hY c hc chunk hne b c2).mp hb
    rw [e2] at h2
    obtain ⟨d, c3, hd, h3⟩ := bind_ok_inv h2
    obtain ⟨e3, Rd⟩ := (hW c hc chunk hne d c3).mp hd
    rw [e3] at h3
    obtain ⟨hf, e4⟩ := lift_ok_inv h3
    refine ⟨e4, (hF1 Ra Rb Rd hf).imp ?_⟩
    rintro w kv ⟨x, y, z, sx, sy, sz, hk⟩
    exact (single kv w).mpr ⟨x, y, z, sx, sy, sz, hk⟩
  · rintro ⟨rfl, R⟩
    have R' := R.imp (fun v kv h => (single kv v).mp h)
    obtain ⟨xs, ys, zs, Rx, Ry, Rz, Rk⟩ := Rows.unzip3 (A := Single X c') (B := Single Y c') (D := Single W c')
      (C := fun x y z v => K x y z = .ok v) R'
    have hx := (hX c' hc chunk hne xs c').mpr ⟨rfl, Rx⟩
    have hy := (hY c' hc chunk hne ys c').mpr ⟨rfl, Ry⟩
    have hz := (hW c' hc chunk hne zs c').mpr ⟨rfl, Rz⟩
    rw [M.bind_ok hx, M.bind_ok hy, M.bind_ok hz]
    simp [hF2 Rx.length_eq Ry.length_eq Rz.length_eq Rk]

/-! ### the loops of expression_exec_vec.go / scalar_func_vec.go as `F1` / `F2` pairs -/

section loops
variable {chunk : List Pair}

theorem zipRows_F2 {K : Value → Value → Except Err Value} {as bs ys : List Value}
    (ha : as.length = chunk.length) (hb : bs.length = chunk.length)
    (h : Rows (fun y (ab : Value × Value) => K ab.1 ab.2 = .ok y) ys (as.zip bs)) :
    zipRows K chunk.length as bs = .ok ys := by
  rw [← ha]; exact zipRows_of_rows (by rw [ha, hb]) h

theorem equalBatchFinish_F2 {not : Bool} {as bs ys : List Value}
    (ha : as.length = chunk.length) (hb : bs.length = chunk.length)
    (h : Rows (fun y (ab : Value × Value) => boolV ((equalRow ab.1 ab.2).map (fun c => if not then !c else c)) = .ok y)
      ys (as.zip bs)) :
    equalBatchFinish not chunk.length as bs = .ok ys := by
  unfold equalBatchFinish
  split
  · rename_i h0
    have hc : chunk.length = 0 := by simpa using h0
    have : as = [] := by cases as <;> simp_all
    subst this
    cases h; rfl
  · exact zipRows_F2 ha hb h

theorem zipRowsLazy_F2 {f : Value → Option Value → Except Err Value} {as bs ys : List Value}
    (ha : as.length = chunk.length) (hb : bs.length = chunk.length)
    (h : Rows (fun y (ab : Value × Value) => f ab.1 (some ab.2) = .ok y) ys (as.zip bs)) :
    zipRowsLazy f chunk.length as bs = .ok ys := by
  rw [zipRowsLazy_eq f _ _ _ hb]; exact zipRows_F2 ha hb h

theorem zip3Rows_F2 {K : Value → Value → Value → Except Err Value} {as bs ds ys : List Value}
    (ha : as.length = chunk.length) (hb : bs.length = chunk.length) (hd : ds.length = chunk.length)
    (h : Rows (fun y (t : Value × Value × Value) => K t.1 t.2.1 t.2.2 = .ok y) ys (as.zip (bs.zip ds))) :
    zip3Rows K chunk.length as bs ds = .ok ys := by
  rw [← ha]; exact zip3Rows_of_rows (by rw [ha, hb]) (by rw [ha, hd]) h

theorem betweenRows_F2 {number : Bool} {as bs ds ys : List Value}
    (ha : as.length = chunk.length) (hb : bs.length = chunk.length) (hd : ds.length = chunk.length)
    (h : Rows (fun y (t : Value × Value × Value) => betweenRow number (some t.1) t.2.1 t.2.2 = .ok y) ys (as.zip (bs.zip ds))) :
    betweenRows number chunk.length as bs ds = .ok ys := by
  rw [← ha]; exact betweenRows_of_rows (by rw [ha, hb]) (by rw [ha, hd]) h

/-- the per-pair kernel of the call / alias branch of `execInBatch` -/
def inCallK (number : Bool) (left fret : Value) : Except Err Value :=
  match unpackArray fret with
  | none => .error .operandType
  | some vals => boolV (inValues number left vals)

theorem inCallRows_F1 {number : Bool} {Pa Pb : Value → Pair → Prop} {as bs ys : List Value}
    (ha : Rows Pa as chunk) (hb : Rows Pb bs chunk) (h : inCallRows number chunk.length as bs = .ok ys) :
    Rows (fun y kv => ∃ a b, Pa a kv ∧ Pb b kv ∧ inCallK number a b = .ok y) ys chunk := by
  refine (inCallRows_forall₂ ha hb h).imp ?_
  rintro y kv ⟨a, b, vals, c, pa, pb, hu, hv, rfl⟩
  exact ⟨a, b, pa, pb, by simp [inCallK, hu, hv, boolV, Except.map]⟩

theorem inCallRows_of_rows {number : Bool} :
    ∀ {xs zs ys : List Value}, xs.length = zs.length →
      Rows (fun y (xz : Value × Value) => inCallK number xz.1 xz.2 = .ok y) ys (xs.zip zs) →
      inCallRows number xs.length xs zs = .ok ys
  | [], [], _, _, .nil => rfl
  | x :: xs, z :: zs, _, hl, .cons hp hr => by
    have ih := inCallRows_of_rows (by simpa using hl) hr
    simp only [inCallK] at hp
    cases hu : unpackArray z with
    | none => simp [hu] at hp
    | some vals =>
      simp only [hu] at hp
      cases hv : inValues number x vals with
      | error e => simp [hv, boolV, Except.map] at hp
      | ok c =>
        simp [hv, boolV, Except.map] at hp
        subst hp
        simp [inCallRows, hu, hv, ih]; rfl
  | [], _ :: _, _, hl, _ => by simp at hl
  | _ :: _, [], _, hl, _ => by simp at hl

theorem inCallRows_F2 {number : Bool} {as bs ys : List Value}
    (ha : as.length = chunk.length) (hb : bs.length = chunk.length)
    (h : Rows (fun y (ab : Value × Value) => inCallK number ab.1 ab.2 = .ok y) ys (as.zip bs)) :
    inCallRows number chunk.length as bs = .ok ys := by
  rw [← ha]; exact inCallRows_of_rows (by rw [ha, hb]) h

theorem mapRows_F1 {f : Value → Except Err Value} {Pa : Value → Pair → Prop} {as ys : List Value}
    (ha : Rows Pa as chunk) (h : mapRows f chunk.length as = .ok ys) :
    Rows (fun y kv => ∃ a, Pa a kv ∧ f a = .ok y) ys chunk := mapRows_forall₂ ha h

theorem mapRows_F2 {f : Value → Except Err Value} {as ys : List Value} (ha : as.length = chunk.length)
    (h : Rows (fun y a => f a = .ok y) ys as) : mapRows f chunk.length as = .ok ys := by
  rw [← ha]; exact mapRows_of_rows h

theorem mapRowsFresh_F1 {f : Value → Value} {Pa : Value → Pair → Prop} {as ys : List Value}
    (ha : Rows Pa as chunk) (h : mapRowsFresh f chunk.length as = .ok ys) :
    Rows (fun y kv => ∃ a, Pa a kv ∧ (Except.ok (f a) : Except Err Value) = .ok y) ys chunk :=
  (mapRowsFresh_forall₂ ha h).imp fun y kv ⟨a, pa, he⟩ => ⟨a, pa, by rw [he]⟩

theorem mapRowsFresh_F2 {f : Value → Value} {as ys : List Value} (ha : as.length = chunk.length)
    (h : Rows (fun y a => (Except.ok (f a) : Except Err Value) = .ok y) ys as) :
    mapRowsFresh f chunk.length as = .ok ys := by
  rw [← ha]; exact mapRowsFresh_of_rows (h.imp fun y a he => by cases he; rfl)

end loops

/-! ### row bodies run pair by pair without a context -/

theorem forPairs_iff {f : Pair → M Value} (hin : ∀ kv, Inert (f kv)) {c : Ctx} (hc : c.enable = false) :
    ∀ (chunk : List Pair) (vs : List Value), (forPairs f chunk c).1 = .ok vs ↔ Rows (fun v kv => (f kv c).1 = .ok v) vs chunk
  | [], vs => by
    constructor
    · intro h; simp [forPairs] at h; cases h; exact .nil
    · intro h; cases h; rfl
  | kv :: kvs, vs => by
    have ih := forPairs_iff hin hc kvs
    rw [forPairs, M.bind_run]
    rcases hf : f kv c with ⟨r, c1⟩
    have e1 : c1 = c := by have := hin kv c hc; rw [hf] at this; exact this
    subst e1
    cases r with
    | error e =>
      constructor
      · intro h; cases h
      · intro h; cases h with
        | cons hp _ => rw [hf] at hp; cases hp
    | ok v =>
      dsimp only
      rw [M.bind_run]
      rcases hr : forPairs f kvs c1 with ⟨r2, c2⟩
      cases r2 with
      | error e =>
        constructor
        · intro h; cases h
        · intro h
          cases h with
          | cons _ hrest =>
            have := (ih _).mpr hrest
            rw [hr] at this; cases this
      | ok vs' =>
        dsimp only
        constructor
        · intro h
          have : vs = v :: vs' := by simp at h; exact h.symm
          subst this
          exact .cons (by rw [hf]) ((ih vs').mp (by rw [hr]))
        · intro h
          cases h with
          | cons hp hrest =>
            rw [hf] at hp; cases hp
            have := (ih _).mpr hrest
            rw [hr] at this; cases this
            rfl

theorem PW.rowWise {f : Pair → M Value} (hin : ∀ kv, Inert (f kv)) : PW (rowWiseNoCtx f) := by
  intro c _ chunk _ vs c'
  have single : ∀ kv v, Single (rowWiseNoCtx f) c v kv ↔ (f kv Ctx.none).1 = .ok v := by
    intro kv v
    unfold Single rowWiseNoCtx
    have := forPairs_iff hin (c := Ctx.none) rfl [kv] [v]
    constructor
    · intro h
      simp only [Prod.mk.injEq, and_true] at h
      obtain ⟨w, hw, hp⟩ := (this.mp h).singleton_inv
      cases hw; exact hp
    · intro h
      rw [this.mpr (Rows.single h)]
  unfold rowWiseNoCtx
  constructor
  · intro h
    simp only [Prod.mk.injEq] at h
    refine ⟨h.2.symm, ((forPairs_iff hin (c := Ctx.none) rfl chunk vs).mp h.1).imp ?_⟩
    intro v kv hv; exact (single kv v).mpr hv
  · rintro ⟨rfl, R⟩
    have := (forPairs_iff hin (c := Ctx.none) rfl chunk vs).mpr (R.imp fun v kv h => (single kv v).mp h)
    rw [this]

/-! ### alias references with the cache off -/

theorem execBatch_ref_iff {p : Nat} {name : Bytes} {t : Expr} (ht : PW (execBatch t)) {c : Ctx} (hc : c.enable = false)
    {chunk : List Pair} (hne : chunk ≠ []) (vs : List Value) (c' : Ctx) :
    execBatch (.ref p name t) chunk c = (.ok vs, c') ↔ execBatch t chunk c = (.ok vs, c') := by
  rw [execBatch]
  dsimp only
  have hemp : chunk.isEmpty = false := by cases chunk <;> simp_all
  simp only [hemp, Bool.and_false, Bool.false_eq_true, if_false, Ctx.getChunkFieldResult_off hc, ite_self]
  rcases hx : execBatch t chunk c with ⟨r, c1⟩
  cases r with
  | error e => simp
  | ok vs0 =>
    obtain ⟨e1, _⟩ := (ht c hc chunk hne vs0 c1).mp hx
    subst e1
    simp [Ctx.setChunkFieldResult_off hc]

theorem PW.ref {p : Nat} {name : Bytes} {t : Expr} (ht : PW (execBatch t)) : PW (execBatch (.ref p name t)) := by
  intro c hc chunk hne vs c'
  rw [execBatch_ref_iff ht hc hne, ht c hc chunk hne vs c']
  have : ∀ v kv, Single (execBatch t) c v kv ↔ Single (execBatch (.ref p name t)) c v kv := by
    intro v kv
    unfold Single
    rw [execBatch_ref_iff ht hc (by simp)]
  constructor
  · rintro ⟨e1, R⟩; exact ⟨e1, R.imp fun v kv h => (this v kv).mp h⟩
  · rintro ⟨e1, R⟩; exact ⟨e1, R.imp fun v kv h => (this v kv).mpr h⟩

theorem bind_throw_ne_ok {α β} {x : M α} {e : Err} {c c' : Ctx} {b : β} : (x >>= fun _ => (M.throw e : M β)) c ≠ (.ok b, c') := by
  rw [M.bind_run]; split <;> simp

/-! ### `x in (e1, e2, …)`: columns of item values against rows of item values -/

theorem Rows.comp {α β γ : Type} {P : α → β → Prop} {Q : β → γ → Prop} {R : α → γ → Prop}
    (h : ∀ a b c, P a b → Q b c → R a c) :
    ∀ {as : List α} {bs : List β} {cs : List γ}, Rows P as bs → Rows Q bs cs → Rows R as cs
  | _, _, _, .nil, .nil => .nil
  | _, _, _, .cons hp hr, .cons hq hs => .cons (h _ _ _ hp hq) (Rows.comp h hr hs)

theorem Rows.unzip2g {α γ β : Type} {A : α → β → Prop} {B : γ → β → Prop} {C : α → γ → Value → Prop} :
    ∀ {vs : List Value} {chunk : List β}, Rows (fun v kv => ∃ x z, A x kv ∧ B z kv ∧ C x z v) vs chunk →
      ∃ xs zs, Rows A xs chunk ∧ Rows B zs chunk ∧ Rows (fun v (xz : α × γ) => C xz.1 xz.2 v) vs (xs.zip zs)
  | _, _, .nil => ⟨[], [], .nil, .nil, .nil⟩
  | _, _, .cons ⟨x, z, ha, hb, hc⟩ hr => by
    obtain ⟨xs, zs, h1, h2, h3⟩ := Rows.unzip2g hr
    exact ⟨x :: xs, z :: zs, .cons ha h1, .cons hb h2, .cons hc h3⟩

/-- a column per item: each entry is the item's value on that pair of the chunk -/
def ColsP (number : Bool) (c : Ctx) (chunk : List Pair) (cols : List (List Value)) (items : List Expr) : Prop :=
  Rows (fun col e => retType e = wantType number ∧ Rows (Single (execBatch e) c) col chunk) cols items

/-- a row of item values on one pair -/
def RowP (number : Bool) (c : Ctx) (kv : Pair) (row : List Value) (items : List Expr) : Prop :=
  Rows (fun w e => retType e = wantType number ∧ Single (execBatch e) c w kv) row items

/-- `row` is what the columns hold at index `j` -/
def AtIdx (j : Nat) (row : List Value) (cols : List (List Value)) : Prop := Rows (fun w col => col[j]? = some w) row cols

def unitCols (row : List Value) : List (List Value) := row.map fun w => [w]

theorem atIdx_unitCols : ∀ (row : List Value), AtIdx 0 row (unitCols row)
  | [] => .nil
  | w :: ws => .cons rfl (atIdx_unitCols ws)

theorem ColsP.rowAt {number : Bool} {c : Ctx} {chunk : List Pair} {j : Nat} {kv : Pair} (hj : chunk[j]? = some kv) :
    ∀ {cols : List (List Value)} {items : List Expr}, ColsP number c chunk cols items →
      ∃ row, AtIdx j row cols ∧ RowP number c kv row items
  | _, _, .nil => ⟨[], .nil, .nil⟩
  | _, _, .cons ⟨ht, hcol⟩ hr => by
    obtain ⟨row, h1, h2⟩ := ColsP.rowAt hj hr
    have hjlt : j < chunk.length := by rcases List.getElem?_eq_some_iff.mp hj with ⟨h, _⟩; exact h
    obtain ⟨w, hw, hs⟩ := hcol.get j hjlt
    have hkv : chunk[j] = kv := by rcases List.getElem?_eq_some_iff.mp hj with ⟨_, h⟩; exact h
    rw [hkv] at hs
    exact ⟨w :: row, .cons hw h1, .cons ⟨ht, hs⟩ h2⟩

theorem RowP.unitCols {number : Bool} {c : Ctx} {kv : Pair} :
    ∀ {row : List Value} {items : List Expr}, RowP number c kv row items → ColsP number c [kv] (unitCols row) items
  | _, _, .nil => .nil
  | _, _, .cons ⟨ht, hs⟩ hr => .cons ⟨ht, Rows.single hs⟩ (RowP.unitCols hr)

theorem ColsP.single_inv {number : Bool} {c : Ctx} {kv : Pair} :
    ∀ {cols : List (List Value)} {items : List Expr}, ColsP number c [kv] cols items →
      ∃ row, cols = unitCols row ∧ RowP number c kv row items
  | _, _, .nil => ⟨[], rfl, .nil⟩
  | _, _, .cons ⟨ht, hcol⟩ hr => by
    obtain ⟨row, h1, h2⟩ := ColsP.single_inv hr
    obtain ⟨w, rfl, hs⟩ := hcol.singleton_inv
    exact ⟨w :: row, by simp [Kvql.unitCols, h1], .cons ⟨ht, hs⟩ h2⟩

theorem inColumns_atIdx {number : Bool} {x : Value} {j : Nat} :
    ∀ {row : List Value} {cols : List (List Value)}, AtIdx j row cols →
      inColumns number x j cols = inColumns number x 0 (unitCols row)
  | _, _, .nil => rfl
  | _, _, .cons hw hr => by
    unfold inColumns
    simp only [Kvql.unitCols, List.map_cons, hw, List.getElem?_cons_zero]
    have ih := inColumns_atIdx (number := number) (x := x) hr
    simp only [Kvql.unitCols] at ih
    rw [ih]

theorem inRows_single {number : Bool} (cols : List (List Value)) (x : Value) :
    inRows number cols 1 0 [x] = (inColumns number x 0 cols).map (fun b => [Value.bool b]) := by
  simp only [inRows]
  cases inColumns number x 0 cols <;> rfl

/-- prepend one row to the columns of the remaining pairs -/
theorem ColsP.prepend {number : Bool} {c : Ctx} {kv : Pair} {tail : List Pair}
    {row : List Value} {cols' : List (List Value)} {items : List Expr} (hrow : RowP number c kv row items)
    (hcols : ColsP number c tail cols' items) :
    ∃ cols, ColsP number c (kv :: tail) cols items ∧ AtIdx 0 row cols ∧
      Rows (fun (col' col : List Value) => ∀ p, col[p + 1]? = col'[p]?) cols' cols := by
  unfold RowP at hrow
  unfold ColsP at hcols
  induction hrow generalizing cols' with
  | nil => cases hcols; exact ⟨[], .nil, .nil, .nil⟩
  | @cons w e ws es hp _ ih =>
    cases hcols with
    | @cons col' _ cols'' _ hq hc =>
      obtain ⟨cols, h1, h2, h3⟩ := ih hc
      exact ⟨(w :: col') :: cols, Rows.cons ⟨hp.1, Rows.cons hp.2 hq.2⟩ h1, Rows.cons rfl h2, Rows.cons (fun p => by simp) h3⟩

/-- rows of item values, one per pair of a non-empty chunk, transposed into columns -/
theorem transpose_rows {number : Bool} {c : Ctx} {items : List Expr} :
    ∀ {chunk : List Pair} {rows : List (List Value)}, chunk ≠ [] →
      Rows (fun row kv => RowP number c kv row items) rows chunk →
      ∃ cols, ColsP number c chunk cols items ∧ ∀ p row, rows[p]? = some row → AtIdx p row cols
  | [kv], _, _, .cons hrow .nil => by
    rename_i row
    refine ⟨unitCols row, hrow.unitCols, ?_⟩
    intro p r hp
    cases p with
    | zero => simp at hp; subst hp; exact atIdx_unitCols row
    | succ p => simp at hp
  | kv :: kv2 :: rest, _, _, .cons hrow hr => by
    rename_i row rows'
    obtain ⟨cols', hc', hidx'⟩ := transpose_rows (by simp) hr
    obtain ⟨cols, h1, h2, h3⟩ := ColsP.prepend hrow hc'
    refine ⟨cols, h1, ?_⟩
    intro p r hp
    cases p with
    | zero => simp at hp; subst hp; exact h2
    | succ p =>
      have hp' : rows'[p]? = some r := by simpa using hp
      exact Rows.comp (fun w col' col hw hq => by rw [hq p]; exact hw) (hidx' p r hp') h3
  | [], _, hne, _ => absurd rfl hne

/-- the row loop of the ListExpr branch, from the per-pair scans -/
theorem inRows_of_rows {number : Bool} {cols : List (List Value)} :
    ∀ {xs : List Value} {rows : List (List Value)} {vs : List Value} (i : Nat), xs.length = rows.length →
      Rows (fun v (xr : Value × List Value) => ∃ b, inColumns number xr.1 0 (unitCols xr.2) = .ok b ∧ v = .bool b)
        vs (xs.zip rows) →
      (∀ p row, rows[p]? = some row → AtIdx (i + p) row cols) →
      inRows number cols xs.length i xs = .ok vs
  | [], [], _, _, _, .nil, _ => rfl
  | x :: xs, row :: rows, _, i, hl, .cons ⟨b, hb, hv⟩ hr, hidx => by
    have h0 := hidx 0 row rfl
    have ih := inRows_of_rows (cols := cols) (i + 1) (by simpa using hl) hr (fun p r hp => by
      have := hidx (p + 1) r (by simpa using hp)
      rw [show i + (p + 1) = i + 1 + p by omega] at this
      exact this)
    simp only [Nat.add_zero] at h0
    simp only [List.length_cons, inRows]
    rw [inColumns_atIdx h0, hb]
    simp [ih, hv]; rfl
  | [], _ :: _, _, _, hl, _, _ => by simp at hl
  | _ :: _, [], _, _, hl, _, _ => by simp at hl

/-- the item columns are computed pair-wise -/
def ItemsPW (number : Bool) (items : List Expr) : Prop :=
  ∀ (c : Ctx), c.enable = false → ∀ (chunk : List Pair), chunk ≠ [] → ∀ (cols : List (List Value)) (c' : Ctx),
    execInItemsBatch number items chunk c = (.ok cols, c') ↔ (c' = c ∧ ColsP number c chunk cols items)

theorem PW.inList {X Z : List Pair → M (List Value)} {number : Bool} {items : List Expr}
    (hZ : ∀ chunk, Z chunk = (do
      let rleft ← X chunk
      let cols ← execInItemsBatch number items chunk
      M.lift (inRows number cols chunk.length 0 rleft)))
    (hX : PW X) (hI : ItemsPW number items) : PW Z := by
  intro c hc chunk hne vs c'
  have single : ∀ kv v, Single Z c v kv ↔
      ∃ x row, Single X c x kv ∧ RowP number c kv row items ∧
        ∃ b, inColumns number x 0 (unitCols row) = .ok b ∧ v = .bool b := by
    intro kv v
    unfold Single
    rw [hZ]
    constructor
    · intro h
      obtain ⟨al, c1, ha, h1⟩ := bind_ok_inv h
      obtain ⟨e1, x, rfl, sx⟩ := hX.single_inv hc ha
      rw [e1] at h1
      obtain ⟨cols1, c2, hcs, h2⟩ := bind_ok_inv h1
      obtain ⟨e2, hcp⟩ := (hI c hc [kv] (by simp) cols1 c2).mp hcs
      rw [e2] at h2
      obtain ⟨row, rfl, hrow⟩ := hcp.single_inv
      obtain ⟨hf, _⟩ := lift_ok_inv h2
      simp only [List.length_cons, List.length_nil, Nat.zero_add] at hf
      rw [inRows_single] at hf
      cases hb : inColumns number x 0 (unitCols row) with
      | error e => simp [hb, Except.map] at hf
      | ok b =>
        simp [hb, Except.map] at hf
        exact ⟨x, row, sx, hrow, b, hb, hf.symm⟩
    · rintro ⟨x, row, sx, hrow, b, hb, rfl⟩
      rw [M.bind_ok sx]
      have hcs := (hI c hc [kv] (by simp) (unitCols row) c).mpr ⟨rfl, hrow.unitCols⟩
      rw [M.bind_ok hcs]
      simp only [List.length_cons, List.length_nil, Nat.zero_add]
      rw [inRows_single, hb]; rfl
  rw [hZ]
  constructor
  · intro h
    obtain ⟨a, c1, ha, h1⟩ := bind_ok_inv h
    obtain ⟨e1, Ra⟩ := (hX c hc chunk hne a c1).mp ha
    rw [e1] at h1
    obtain ⟨cols, c2, hcs, h2⟩ := bind_ok_inv h1
    obtain ⟨e2, hcp⟩ := (hI c hc chunk hne cols c2).mp hcs
    rw [e2] at h2
    obtain ⟨hf, e3⟩ := lift_ok_inv h2
    refine ⟨e3, (inRows_rows (chunk := chunk) Ra (i := 0) (by simp) hf).imp ?_⟩
    rintro y kv ⟨x, b, j, sx, hj, hcol, rfl⟩
    obtain ⟨row, hat, hrow⟩ := hcp.rowAt hj
    refine (single kv _).mpr ⟨x, row, sx, hrow, b, ?_, rfl⟩
    rw [← inColumns_atIdx hat]; exact hcol
  · rintro ⟨rfl, R⟩
    have R' := R.imp (fun v kv h => (single kv v).mp h)
    obtain ⟨xs, rows, Rx, Rrows, Rk⟩ := Rows.unzip2g (A := Single X c') (B := fun row kv => RowP number c' kv row items)
      (C := fun x row v => ∃ b, inColumns number x 0 (unitCols row) = .ok b ∧ v = .bool b) R'
    obtain ⟨cols, hcp, hidx⟩ := transpose_rows hne Rrows
    have hx := (hX c' hc chunk hne xs c').mpr ⟨rfl, Rx⟩
    have hcs := (hI c' hc chunk hne cols c').mpr ⟨rfl, hcp⟩
    rw [M.bind_ok hx, M.bind_ok hcs]
    have hl : xs.length = rows.length := by rw [Rx.length_eq, Rrows.length_eq]
    have := inRows_of_rows (cols := cols) 0 hl Rk (fun p row hp => by simpa using hidx p row hp)
    rw [← Rx.length_eq, this]; rfl

end Kvql
