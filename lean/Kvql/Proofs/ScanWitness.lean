/-
  The hypotheses of the C02/C18 theorems are satisfiable: the reference meaning
  `Spec.canHold` is an evaluator in the sense of `Sem`.
-/
import Kvql.Spec.KeyFilter
import Kvql.Proofs.ScanSound
import Kvql.Proofs.ScanExact

namespace Kvql.Scan
open Kvql.Bytes (Pre)

theorem canHold_sem : Sem Spec.canHold where
  and_ := by intro p l r k; simp [Spec.canHold]
  kwAnd := by intro p l r k; simp [Spec.canHold]
  or_ := by intro p l r k; simp [Spec.canHold]
  kwOr := by intro p l r k; simp [Spec.canHold]
  false_ := by intro p d k; simp [Spec.canHold]
  eq_r := by intro p p1 p2 lit k; simp [Spec.canHold]
  eq_l := by intro p p1 p2 lit k; simp [Spec.canHold]
  pre_r := by intro p p1 p2 lit k; simp [Spec.canHold, Bytes.isPrefix_iff]
  gt_r := by intro p p1 p2 lit k; simp [Spec.canHold, Bytes.lt_iff]
  gt_l := by intro p p1 p2 lit k; simp [Spec.canHold, Bytes.lt_iff]
  gte_r := by intro p p1 p2 lit k; simp [Spec.canHold, Bytes.le_iff]
  gte_l := by intro p p1 p2 lit k; simp [Spec.canHold, Bytes.le_iff]
  lt_r := by intro p p1 p2 lit k; simp [Spec.canHold, Bytes.lt_iff]
  lt_l := by intro p p1 p2 lit k; simp [Spec.canHold, Bytes.lt_iff]
  lte_r := by intro p p1 p2 lit k; simp [Spec.canHold, Bytes.le_iff]
  lte_l := by intro p p1 p2 lit k; simp [Spec.canHold, Bytes.le_iff]
  in_ := by intro p p1 p2 items k h; simp [Spec.canHold, h]
  between_ := by intro p p1 p2 p3 p4 lo hi k; simp [Spec.canHold, Bytes.le_iff]

theorem canHold_semExact : SemExact Spec.canHold where
  toSem := canHold_sem
  or_conv := by intro p l r k; simp [Spec.canHold]
  kwOr_conv := by intro p l r k; simp [Spec.canHold]
  eq_r_conv := by intro p p1 p2 lit; simp [Spec.canHold]
  eq_l_conv := by intro p p1 p2 lit; simp [Spec.canHold]
  lte_r_conv := by intro p p1 p2 lit k; simp [Spec.canHold, Bytes.le_iff]
  gte_l_conv := by intro p p1 p2 lit k; simp [Spec.canHold, Bytes.le_iff]
  in_conv := by intro p p1 p2 items k h; simp [Spec.canHold, h]
  between_conv := by intro p p1 p2 p3 p4 lo hi k h1 h2; simp [Spec.canHold, Bytes.le_iff, h1, h2]

end Kvql.Scan
