/-
  C15 — minimal parenthesisation at the level of *text*: the tokens of `printMin e`, written
  with one blank before and after each (`textOf`), are what the lexer reads back, up to
  positions (by the reference tokenizer, `Lexer.split = Spec.lex`, C16); the parser does not
  look at positions (Proofs/ParsePrecPos.lean); hence
  `parseExpr (Lexer.split (printMinText e)) = e` modulo positions.
-/
import Kvql.Proofs.ParsePrecPos
import Kvql.Proofs.ParserPrintMain

set_option linter.unusedSimpArgs false
set_option linter.unusedVariables false

namespace Kvql.Proofs.ParsePrec

open Kvql Kvql.Parser Kvql.Lexer Kvql.Generated Kvql.Spec Kvql.Proofs.LexSpec Kvql.Proofs.PrintLex
open Kvql.Proofs.PrintParse (erasePos)

/-- the text of one token: a string literal between single quotes, anything else as it is -/
def tokText (t : Token) : Bytes := if t.tp == tkSTRING then 39 :: (t.data ++ [39]) else t.data

/-- each token followed by one blank -/
def body : Toks → Bytes
  | [] => []
  | t :: ts => tokText t ++ 32 :: body ts

/-- ` t1 t2 … tn ` -/
def textOf (ts : Toks) : Bytes := 32 :: body ts

def isOp1Byte (c : UInt8) : Bool :=
  c == 38 || c == 124 || c == 61 || c == 43 || c == 45 || c == 42 || c == 47 || c == 62 || c == 60
def isOp2Byte (c : UInt8) : Bool := c == 33 || c == 94 || c == 126 || c == 62 || c == 60
def isPunctByte (c : UInt8) : Bool := c == 40 || c == 41 || c == 91 || c == 93 || c == 44

/-- the token is what the lexer makes of its own text (decidable): a string literal without the
    quote character; a lower-case word of its own kind (names, numbers, `key`, `true`, `in`,
    `and`, …); a symbolic operator; a bracket or comma -/
def lexOK (t : Token) : Bool :=
  if t.tp == tkSTRING then strOK t.data
  else
    (wordOK t.data && classify t.data == t.tp) ||
    (t.tp == tkOPERATOR &&
      match t.data with
      | [c] => isOp1Byte c || c == 33
      | [c, 61] => isOp2Byte c
      | _ => false) ||
    (match t.data with
      | [c] => isPunctByte c && t.tp == punctTp c
      | _ => false)

theorem step_bang (Y : Bytes) : stepOf 33 (32 :: Y) = .brk (some (tkOPERATOR, [33])) 1 (32 :: Y) := by
  simp [stepOf, specBlank, isQuote, isBackquote, isOpChar, isPunct, isSep, isOp1, isOp2Lead]

theorem tok_eta (t : Token) (j : Nat) : tok t.tp t.data j = { t with pos := j } := rfl

/-- one token between blanks -/
theorem L_token (t : Token) (h : lexOK t = true) (Y : Bytes) (j : Nat) :
    L (tokText t ++ 32 :: Y) j [] j =
      { t with pos := j } :: L (32 :: Y) (j + (tokText t).length) [] (j + (tokText t).length) := by
  have hsp : BreakHead (32 :: Y) := BreakHead_cons (by decide)
  unfold lexOK at h
  unfold tokText
  by_cases hs : t.tp == tkSTRING
  · simp only [hs, if_true] at h ⊢
    have hs' : t.tp = tkSTRING := by simpa using hs
    have := L_str h (32 :: Y) j
    simp only [List.cons_append, List.append_assoc, List.nil_append, List.length_cons, List.length_append,
      List.length_nil] at this ⊢
    rw [this, ← hs', tok_eta]
    simp [Nat.add_assoc]
  · simp only [hs, Bool.false_eq_true, if_false, Bool.or_eq_true, Bool.and_eq_true, beq_iff_eq] at h ⊢
    rcases h with (⟨hw, hc⟩ | ⟨hop, hd⟩) | hp
    · rw [L_wordK hw (32 :: Y) hsp j, hc, tok_eta]
    · split at hd
      · rename_i c hdat
        rw [hdat]
        simp only [List.cons_append, List.nil_append, List.length_cons, List.length_nil]
        rcases Bool.or_eq_true _ _ ▸ hd with h1 | h33
        · have hc : c = 38 ∨ c = 124 ∨ c = 61 ∨ c = 43 ∨ c = 45 ∨ c = 42 ∨ c = 47 ∨ c = 62 ∨ c = 60 := by
            simpa [isOp1Byte, or_assoc] using h1
          rw [L_brk (step_op1 c hc Y)]
          simp only [emitToks, wordTok_nil, List.nil_append, List.singleton_append]
          rw [← hop, ← hdat]
        · have hc : c = 33 := by simpa using h33
          subst hc
          rw [L_brk (step_bang Y)]
          simp only [emitToks, wordTok_nil, List.nil_append, List.singleton_append]
          rw [← hop, ← hdat]
      · rename_i c hdat
        rw [hdat]
        simp only [List.cons_append, List.nil_append, List.length_cons, List.length_nil]
        have hc : c = 33 ∨ c = 94 ∨ c = 126 ∨ c = 62 ∨ c = 60 := by
          simpa [isOp2Byte, or_assoc] using hd
        rw [L_brk (step_op2 c hc Y)]
        simp only [emitToks, wordTok_nil, List.nil_append, List.singleton_append]
        rw [← hop, ← hdat]
      · cases hd
    · split at hp
      · rename_i c hdat
        rw [hdat]
        simp only [Bool.and_eq_true, beq_iff_eq] at hp
        simp only [List.cons_append, List.nil_append, List.length_cons, List.length_nil]
        have hc : c = 40 ∨ c = 41 ∨ c = 91 ∨ c = 93 ∨ c = 44 := by
          simpa [isPunctByte, or_assoc] using hp.1
        rw [L_punct c hc, ← hp.2, ← hdat, tok_eta]
      · cases hp

/-- the tokens of `textOf ts` are `ts`, up to positions -/
theorem L_body : ∀ (ts : Toks), (∀ t ∈ ts, lexOK t = true) → ∀ i, TEq (L (32 :: body ts) i [] i) ts
  | [], _, i => by
    rw [L_sp]
    simp [body, L_nil, wordTok_nil, TEq]
  | t :: ts, h, i => by
    rw [L_sp]
    simp only [body]
    rw [L_token t (h t (by simp)) (body ts) (i + 1)]
    have ih := L_body ts (fun x hx => h x (by simp [hx])) (i + 1 + (tokText t).length)
    exact teq_cons (by simp [er]) ih

theorem split_textOf (ts : Toks) (h : ∀ t ∈ ts, lexOK t = true) : TEq (Lexer.split (textOf ts)) ts := by
  rw [Proofs.LexRefine.split_eq_spec, lex_eq_L]
  exact L_body ts h 0

theorem teq_length {a b : Toks} (h : TEq a b) : a.length = b.length := by
  have := congrArg List.length h
  simpa using this

theorem teq_symm {a b : Toks} (h : TEq a b) : TEq b a := Eq.symm h

variable (pf : Bytes → F64)

/-- the minimal text of `e` -/
def printMinText (e : Expr) : Bytes := textOf (printMin pf e)

/-- every token of the minimal text is read back by the lexer as itself (decidable) -/
def lexable (e : Expr) : Bool := (printMin pf e).all lexOK

/-- **Minimal parenthesisation, as text.**  Lexing and parsing the minimal text of a well-formed
    tree gives the tree back, modulo positions. -/
theorem print_min_text_reparse (e : Expr) (hw : wf pf e = true) (hl : lexable pf e = true)
    (hsize : 8 * (Lexer.split (printMinText pf e)).length + 8 ≤ maxNestLevel) :
    ∃ e', parseExpr pf (exprFuel (Lexer.split (printMinText pf e))) (Lexer.split (printMinText pf e)) =
        .ok (e', []) ∧ erasePos e' = erasePos e := by
  have hall : ∀ t ∈ printMin pf e, lexOK t = true := by
    simpa [lexable, List.all_eq_true] using hl
  have hT := split_textOf (printMin pf e) hall
  have hlen := teq_length hT
  unfold printMinText at hsize ⊢
  have hfuel : exprFuel (Lexer.split (textOf (printMin pf e))) = exprFuel (printMin pf e) := by
    simp only [exprFuel, hlen]
  have hp := print_min_parse pf e hw (by rw [← hlen]; exact hsize)
  obtain ⟨x', rest', h1, h2, h3⟩ := parseExpr_pos_invariant pf (teq_symm hT) hp
  have hr : rest' = [] := teq_nil_left h3
  subst hr
  refine ⟨x', by rw [hfuel]; exact h1, ?_⟩
  rw [← h2, erasePos_canonPos]

end Kvql.Proofs.ParsePrec
