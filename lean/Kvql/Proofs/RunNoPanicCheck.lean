/-
  RunNoPanic, part 2b: the checker over a good table.
    * `check_no_panic`   `Check` of a good tree over a good table never panics (every `ReturnType()` it
                         asks for has enough fuel: `rt_ok`);
    * `check_egood`      what `Check` returns is good again;
    * `tgood_setField_check` / `tgood_setField_rewrite`  storing it back in the table keeps the table good —
                         the references `Check` creates passed the cycle test `closesCycle`, which is complete
                         (`reaches_complete`).
-/
import Kvql.Proofs.RunNoPanicRank

namespace Kvql.Proofs.RunNoPanic

open Kvql Kvql.Parser Kvql.Proofs.Typing Kvql.Generated

/-! ### `Res`: computations that do not panic -/

/-- the computation does not end in a Go panic -/
def NP {α : Type} (r : Res α) : Prop := ∀ s, r ≠ .panic s

theorem NP.ok {α : Type} (a : α) : NP (.ok a : Res α) := by intro s h; cases h
theorem NP.pure {α : Type} (a : α) : NP (pure a : Res α) := by intro s h; cases h
theorem NP.err {α : Type} (e : PErr) : NP (.err e : Res α) := by intro s h; cases h
theorem NP.synErr {α : Type} (p : Nat) : NP (synErr p : Res α) := by intro s h; cases h

theorem NP.bind {α β : Type} {x : Res α} {f : α → Res β} (hx : NP x) (hf : ∀ a, x = .ok a → NP (f a)) :
    NP (x >>= f) := by
  cases x with
  | ok a => exact hf a rfl
  | err e => intro s h; cases h
  | panic s => exact absurd rfl (hx s)
  | outOfFuel => intro s h; cases h
  | unsupported w => intro s h; cases h

/-! ### the shape of good trees -/

/-- a list of good trees -/
def EGoodL (tbl : Tbl) (es : List Expr) : Prop :=
  FoundList tbl es = true ∧ noCycList es = true ∧ numsOKList es = true

theorem egood_binop {tbl : Tbl} {p : Nat} {op : Op} {l r : Expr} :
    EGood tbl (.binop p op l r) ↔ EGood tbl l ∧ EGood tbl r := by
  simp only [EGood, Clean, Found, FoundP, noCyc, numsOK, Bool.and_eq_true]
  constructor
  · rintro ⟨⟨a, b⟩, ⟨c, d⟩, e, f⟩; exact ⟨⟨a, c, e⟩, b, d, f⟩
  · rintro ⟨⟨a, c, e⟩, b, d, f⟩; exact ⟨⟨a, b⟩, ⟨c, d⟩, e, f⟩

theorem egood_access {tbl : Tbl} {p : Nat} {l r : Expr} :
    EGood tbl (.access p l r) ↔ EGood tbl l ∧ EGood tbl r := by
  simp only [EGood, Clean, Found, FoundP, noCyc, numsOK, Bool.and_eq_true]
  constructor
  · rintro ⟨⟨a, b⟩, ⟨c, d⟩, e, f⟩; exact ⟨⟨a, c, e⟩, b, d, f⟩
  · rintro ⟨⟨a, c, e⟩, b, d, f⟩; exact ⟨⟨a, b⟩, ⟨c, d⟩, e, f⟩

theorem egood_not {tbl : Tbl} {p : Nat} {r : Expr} : EGood tbl (.not p r) ↔ EGood tbl r := by
  simp only [EGood, Clean, Found, FoundP, noCyc, numsOK]

theorem egood_list {tbl : Tbl} {p : Nat} {items : List Expr} : EGood tbl (.list p items) ↔ EGoodL tbl items := by
  simp only [EGood, EGoodL, Clean, Found, FoundList, FoundP, noCyc, numsOK]

theorem egood_call {tbl : Tbl} {p : Nat} {nm : Expr} {args : List Expr} :
    EGood tbl (.call p nm args) ↔ EGood tbl nm ∧ EGoodL tbl args := by
  simp only [EGood, EGoodL, Clean, Found, FoundList, FoundP, noCyc, numsOK, Bool.and_eq_true]
  constructor
  · rintro ⟨⟨a, b⟩, ⟨c, d⟩, e, f⟩; exact ⟨⟨a, c, e⟩, b, d, f⟩
  · rintro ⟨⟨a, c, e⟩, b, d, f⟩; exact ⟨⟨a, b⟩, ⟨c, d⟩, e, f⟩

theorem egoodL_nil {tbl : Tbl} : EGoodL tbl [] := by
  simp [EGoodL, FoundList, FoundPList, noCycList, numsOKList]

theorem egoodL_cons {tbl : Tbl} {e : Expr} {es : List Expr} :
    EGoodL tbl (e :: es) ↔ EGood tbl e ∧ EGoodL tbl es := by
  simp only [EGood, EGoodL, Clean, Found, FoundList, FoundPList, noCycList, numsOKList, Bool.and_eq_true]
  constructor
  · rintro ⟨⟨a, b⟩, ⟨c, d⟩, e, f⟩; exact ⟨⟨a, c, e⟩, b, d, f⟩
  · rintro ⟨⟨a, c, e⟩, b, d, f⟩; exact ⟨⟨a, b⟩, ⟨c, d⟩, e, f⟩

theorem egood_ref {tbl : Tbl} {p : Nat} {d : Bytes} {t : Expr} :
    EGood tbl (.ref p d t) ↔ aliasP tbl d = true ∧ Clean t := by
  simp only [EGood, Clean, Found, FoundP, noCyc, numsOK]

/-! ### what `Check` returns is good -/

theorem rewrite_egood' {ctx : CheckCtx} (hg : TGood ctx.tbl) {x y : Expr} (hx : EGood ctx.tbl x)
    (h : ctx.rewrite x = .ok y) : EGood ctx.tbl y := by
  rcases rewrite_cases h with rfl | ⟨p, d, j, tgt, _, hf, rfl⟩
  · exact hx
  · obtain ⟨n, hn⟩ := find_get hf
    exact egood_ref.mpr ⟨by simp [aliasP, hf], hg.clean j n tgt hn⟩

mutual
  theorem check_egood' (ctx : CheckCtx) (hg : TGood ctx.tbl) :
      ∀ (e e' : Expr), ctx.check e = .ok e' → EGood ctx.tbl e → EGood ctx.tbl e'
    | .binop pos op l r, e', h, he => by
      simp only [CheckCtx.check] at h
      obtain ⟨l1, hl1, h⟩ := bind_ok_iff.mp h
      obtain ⟨r1, hr1, h⟩ := bind_ok_iff.mp h
      obtain ⟨l2, hl2, h⟩ := bind_ok_iff.mp h
      obtain ⟨r2, hr2, h⟩ := bind_ok_iff.mp h
      obtain ⟨u, _, h⟩ := bind_ok_iff.mp h
      cases h
      rw [egood_binop] at he ⊢
      exact ⟨rewrite_egood' hg (check_egood' ctx hg l l1 hl1 he.1) hl2,
        rewrite_egood' hg (check_egood' ctx hg r r1 hr1 he.2) hr2⟩
    | .field pos kw, e', h, _ => by
      simp only [CheckCtx.check] at h
      split at h
      · cases h
      · split at h
        · cases h
        · cases h; simp [EGood, Clean, FoundP, noCyc, numsOK]
    | .not pos r, e', h, he => by
      simp only [CheckCtx.check] at h
      obtain ⟨r', hr', h⟩ := bind_ok_iff.mp h
      obtain ⟨t, _, h⟩ := bind_ok_iff.mp h
      split at h
      · cases h
      · cases h
        rw [egood_not] at he ⊢
        exact check_egood' ctx hg r r' hr' he
    | .call pos nm args, e', h, he => by
      simp only [CheckCtx.check] at h
      split at h
      · obtain ⟨args', ha, h⟩ := bind_ok_iff.mp h
        cases h
        rw [egood_call] at he ⊢
        exact ⟨he.1, checkArgs_egood' ctx hg args args' ha he.2⟩
      · cases h
    | .list pos items, e', h, he => by
      simp only [CheckCtx.check] at h
      split at h
      · cases h
      · obtain ⟨items', hi, h⟩ := bind_ok_iff.mp h
        obtain ⟨u, _, h⟩ := bind_ok_iff.mp h
        cases h
        rw [egood_list] at he ⊢
        exact checkItems_egood' ctx hg _ items' hi he
    | .access pos l f, e', h, he => by
      simp only [CheckCtx.check] at h
      obtain ⟨l', hl', h⟩ := bind_ok_iff.mp h
      obtain ⟨f', hf', h⟩ := bind_ok_iff.mp h
      obtain ⟨u, _, h⟩ := bind_ok_iff.mp h
      cases h
      rw [egood_access] at he ⊢
      exact ⟨check_egood' ctx hg l l' hl' he.1, check_egood' ctx hg f f' hf' he.2⟩
    | .str .., e', h, he => by simp only [CheckCtx.check] at h; cases h; exact he
    | .num .., e', h, he => by simp only [CheckCtx.check] at h; cases h; exact he
    | .float .., e', h, he => by simp only [CheckCtx.check] at h; cases h; exact he
    | .bool .., e', h, he => by simp only [CheckCtx.check] at h; cases h; exact he
    | .name .., e', h, he => by simp only [CheckCtx.check] at h; cases h; exact he
    | .cycle, e', h, he => by simp only [CheckCtx.check] at h; cases h; exact he
    | .ref .., e', h, he => by simp only [CheckCtx.check] at h; cases h; exact he
  theorem checkArgs_egood' (ctx : CheckCtx) (hg : TGood ctx.tbl) :
      ∀ (args args' : List Expr), ctx.checkArgs args = .ok args' → EGoodL ctx.tbl args → EGoodL ctx.tbl args'
    | [], args', h, _ => by simp only [CheckCtx.checkArgs] at h; cases h; exact egoodL_nil
    | a :: as, args', h, he => by
      unfold CheckCtx.checkArgs at h
      obtain ⟨a', ha, h⟩ := bind_ok_iff.mp h
      obtain ⟨as', has, h⟩ := bind_ok_iff.mp h
      cases h
      rw [egoodL_cons] at he ⊢
      refine ⟨?_, checkArgs_egood' ctx hg as as' has he.2⟩
      split at ha
      · exact rewrite_egood' hg he.1 ha
      · exact check_egood' ctx hg a _ ha he.1
  theorem checkItems_egood' (ctx : CheckCtx) (hg : TGood ctx.tbl) :
      ∀ (items items' : List Expr), ctx.checkItems items = .ok items' → EGoodL ctx.tbl items →
        EGoodL ctx.tbl items'
    | [], items', h, _ => by simp only [CheckCtx.checkItems] at h; cases h; exact egoodL_nil
    | a :: as, items', h, he => by
      unfold CheckCtx.checkItems at h
      obtain ⟨a', ha, h⟩ := bind_ok_iff.mp h
      obtain ⟨as', has, h⟩ := bind_ok_iff.mp h
      cases h
      rw [egoodL_cons] at he ⊢
      exact ⟨check_egood' ctx hg a _ ha he.1, checkItems_egood' ctx hg as as' has he.2⟩
end

/-- … and returns a good tree -/
theorem check_egood (ctx : CheckCtx) (hg : TGood ctx.tbl) {e e' : Expr} (he : EGood ctx.tbl e)
    (h : ctx.check e = .ok e') : EGood ctx.tbl e' :=
  check_egood' ctx hg e e' h he

theorem rewrite_egood (ctx : CheckCtx) (hg : TGood ctx.tbl) {e e' : Expr} (he : EGood ctx.tbl e)
    (h : ctx.rewrite e = .ok e') : EGood ctx.tbl e' :=
  rewrite_egood' hg he h

/-! ### the helpers of `Check` do not panic when they ask `ReturnType()` of good trees only -/

theorem rt_np (ctx : CheckCtx) (hg : TGood ctx.tbl) {e : Expr} (he : EGood ctx.tbl e) : NP (ctx.rt e) := by
  obtain ⟨t, ht⟩ := rt_ok ctx hg he
  rw [ht]; exact NP.ok t

theorem rewrite_np (ctx : CheckCtx) (e : Expr) : NP (ctx.rewrite e) := by
  unfold CheckCtx.rewrite
  split
  · split
    · split
      · exact NP.err _
      · exact NP.ok _
    · exact NP.ok _
  · exact NP.ok _

theorem checkAndOrSide_np (ctx : CheckCtx) (hg : TGood ctx.tbl) {e : Expr} (he : EGood ctx.tbl e) :
    NP (ctx.checkAndOrSide e) := by
  unfold CheckCtx.checkAndOrSide
  split
  · refine NP.bind (rt_np ctx hg he) fun t _ => ?_
    split
    · exact NP.synErr _
    · exact NP.pure _
  · exact NP.synErr _

theorem checkWithAndOr_np (ctx : CheckCtx) (hg : TGood ctx.tbl) {l r : Expr} (hl : EGood ctx.tbl l)
    (hr : EGood ctx.tbl r) : NP (ctx.checkWithAndOr l r) := by
  unfold CheckCtx.checkWithAndOr
  exact NP.bind (checkAndOrSide_np ctx hg hl) fun _ _ => checkAndOrSide_np ctx hg hr

theorem mathSide_np (ctx : CheckCtx) (hg : TGood ctx.tbl) {e : Expr} (he : EGood ctx.tbl e) :
    NP (ctx.mathSide e) := by
  have key : NP (do
      let t ← ctx.rt e
      if t != tyTNUMBER then
        if t == tyTSTR then pure true else synErr e.pos
      else pure false : Res Bool) := by
    refine NP.bind (rt_np ctx hg he) fun t _ => ?_
    split
    · split
      · exact NP.pure _
      · exact NP.synErr _
    · exact NP.pure _
  unfold CheckCtx.mathSide
  split
  all_goals first
    | exact key
    | exact NP.pure _
    | exact NP.synErr _

theorem checkWithMath_np (ctx : CheckCtx) (hg : TGood ctx.tbl) (op : Op) {l r : Expr} (hl : EGood ctx.tbl l)
    (hr : EGood ctx.tbl r) : NP (ctx.checkWithMath op l r) := by
  unfold CheckCtx.checkWithMath
  refine NP.bind (mathSide_np ctx hg hl) fun a _ => ?_
  refine NP.bind (mathSide_np ctx hg hr) fun b _ => ?_
  refine NP.bind ?_ fun _ _ => ?_
  · split
    · exact NP.pure _
    · split
      · exact NP.synErr _
      · split
        · exact NP.synErr _
        · exact NP.pure _
  · split
    · split
      · split
        · exact NP.synErr _
        · exact NP.pure _
      · split
        · exact NP.synErr _
        · exact NP.pure _
      · exact NP.pure _
    · exact NP.pure _

theorem compareSide_np (e : Expr) : NP (compareSide e) := by
  unfold compareSide
  split
  all_goals first
    | exact NP.pure _
    | exact NP.synErr _

theorem checkWithCompares_np (ctx : CheckCtx) (hg : TGood ctx.tbl) (pos : Nat) (op : Op) {l r : Expr}
    (hl : EGood ctx.tbl l) (hr : EGood ctx.tbl r) : NP (ctx.checkWithCompares pos op l r) := by
  unfold CheckCtx.checkWithCompares
  refine NP.bind (compareSide_np l) fun a _ => ?_
  obtain ⟨lk, lv⟩ := a
  dsimp only
  refine NP.bind (compareSide_np r) fun b _ => ?_
  obtain ⟨rk, rv⟩ := b
  dsimp only
  split
  · exact NP.synErr _
  · refine NP.bind (rt_np ctx hg hl) fun lt _ => ?_
    refine NP.bind (rt_np ctx hg hr) fun rt _ => ?_
    split
    · exact NP.synErr _
    · split
      all_goals first
        | exact NP.pure _
        | (split
           · exact NP.synErr _
           · exact NP.pure _)

theorem inItems_np (ctx : CheckCtx) (hg : TGood ctx.tbl) (ltype : Nat) :
    ∀ (items : List Expr), EGoodL ctx.tbl items → NP (ctx.inItems ltype items)
  | [], _ => by unfold CheckCtx.inItems; exact NP.pure _
  | x :: xs, h => by
    rw [egoodL_cons] at h
    unfold CheckCtx.inItems
    refine NP.bind (rt_np ctx hg h.1) fun t _ => ?_
    split
    · exact NP.synErr _
    · exact inItems_np ctx hg ltype xs h.2

theorem checkWithIn_np (ctx : CheckCtx) (hg : TGood ctx.tbl) {l r : Expr} (hl : EGood ctx.tbl l)
    (hr : EGood ctx.tbl r) : NP (ctx.checkWithIn l r) := by
  have key : NP (do
      let t ← ctx.rt r
      if t != tyTLIST then synErr r.pos else pure () : Res Unit) := by
    refine NP.bind (rt_np ctx hg hr) fun t _ => ?_
    split
    · exact NP.synErr _
    · exact NP.pure _
  unfold CheckCtx.checkWithIn
  refine NP.bind (rt_np ctx hg hl) fun lt _ => ?_
  split
  · exact NP.synErr _
  · split
    · exact inItems_np ctx hg lt _ (egood_list.mp hr)
    · exact key
    · exact key
    · exact NP.synErr _

theorem checkWithBetween_np (ctx : CheckCtx) (hg : TGood ctx.tbl) {l r : Expr} (hl : EGood ctx.tbl l)
    (hr : EGood ctx.tbl r) : NP (ctx.checkWithBetween l r) := by
  unfold CheckCtx.checkWithBetween
  refine NP.bind (rt_np ctx hg hl) fun lt _ => ?_
  split
  · rename_i p lo hi
    have h2 := egood_list.mp hr
    rw [egoodL_cons, egoodL_cons] at h2
    split
    · exact NP.synErr _
    · refine NP.bind (rt_np ctx hg h2.1) fun t1 _ => ?_
      split
      · exact NP.synErr _
      · refine NP.bind (rt_np ctx hg h2.2.1) fun t2 _ => ?_
        split
        · exact NP.synErr _
        · exact NP.pure _
  · exact NP.synErr _

theorem checkOp_np (ctx : CheckCtx) (hg : TGood ctx.tbl) (pos : Nat) (op : Op) {l r : Expr}
    (hl : EGood ctx.tbl l) (hr : EGood ctx.tbl r) : NP (ctx.checkOp pos op l r) := by
  unfold CheckCtx.checkOp
  split
  all_goals first
    | exact checkWithAndOr_np ctx hg hl hr
    | exact NP.synErr _
    | exact checkWithMath_np ctx hg _ hl hr
    | exact checkWithIn_np ctx hg hl hr
    | exact checkWithBetween_np ctx hg hl hr
    | exact checkWithCompares_np ctx hg _ _ hl hr

theorem listTypes_go_np (ctx : CheckCtx) (hg : TGood ctx.tbl) (ftype : Nat) :
    ∀ (items : List Expr), EGoodL ctx.tbl items → NP (CheckCtx.listTypes.go ctx ftype items)
  | [], _ => by unfold CheckCtx.listTypes.go; exact NP.pure _
  | x :: xs, h => by
    rw [egoodL_cons] at h
    unfold CheckCtx.listTypes.go
    refine NP.bind (rt_np ctx hg h.1) fun t _ => ?_
    split
    · exact NP.synErr _
    · exact listTypes_go_np ctx hg ftype xs h.2

theorem listTypes_np (ctx : CheckCtx) (hg : TGood ctx.tbl) (pos : Nat) {items : List Expr}
    (h : EGoodL ctx.tbl items) : NP (ctx.listTypes pos items) := by
  unfold CheckCtx.listTypes
  split
  · exact NP.synErr _
  · rw [egoodL_cons] at h
    split
    · exact NP.pure _
    · exact NP.bind (rt_np ctx hg h.1) fun t _ => listTypes_go_np ctx hg t _ h.2

theorem accessTypes_np (ctx : CheckCtx) (hg : TGood ctx.tbl) {l f : Expr} (hl : EGood ctx.tbl l) :
    NP (ctx.accessTypes l f) := by
  unfold CheckCtx.accessTypes
  dsimp only
  refine NP.bind (rt_np ctx hg hl) fun t _ => ?_
  repeat' (first | exact NP.pure _ | exact NP.synErr _ | split)

/-! ### `Check` does not panic over a good table -/

mutual
  theorem check_np (ctx : CheckCtx) (hg : TGood ctx.tbl) : ∀ (e : Expr), EGood ctx.tbl e → NP (ctx.check e)
    | .binop pos op l r, he => by
      rw [egood_binop] at he
      simp only [CheckCtx.check]
      refine NP.bind (check_np ctx hg l he.1) fun l1 hl1 => ?_
      refine NP.bind (check_np ctx hg r he.2) fun r1 hr1 => ?_
      refine NP.bind (rewrite_np ctx l1) fun l2 hl2 => ?_
      refine NP.bind (rewrite_np ctx r1) fun r2 hr2 => ?_
      have h1 := rewrite_egood' hg (check_egood' ctx hg l l1 hl1 he.1) hl2
      have h2 := rewrite_egood' hg (check_egood' ctx hg r r1 hr1 he.2) hr2
      exact NP.bind (checkOp_np ctx hg pos op h1 h2) fun _ _ => NP.pure _
    | .field pos kw, _ => by
      simp only [CheckCtx.check]
      split
      · exact NP.synErr _
      · split
        · exact NP.synErr _
        · exact NP.pure _
    | .not pos r, he => by
      rw [egood_not] at he
      simp only [CheckCtx.check]
      refine NP.bind (check_np ctx hg r he) fun r' hr' => ?_
      refine NP.bind (rt_np ctx hg (check_egood' ctx hg r r' hr' he)) fun t _ => ?_
      split
      · exact NP.synErr _
      · exact NP.pure _
    | .call pos nm args, he => by
      rw [egood_call] at he
      simp only [CheckCtx.check]
      split
      · exact NP.bind (checkArgs_np ctx hg args he.2) fun _ _ => NP.pure _
      · exact NP.synErr _
    | .list pos items, he => by
      rw [egood_list] at he
      simp only [CheckCtx.check]
      split
      · exact NP.synErr _
      · refine NP.bind (checkItems_np ctx hg _ he) fun items' hi => ?_
        exact NP.bind (listTypes_np ctx hg pos (checkItems_egood' ctx hg _ items' hi he)) fun _ _ => NP.pure _
    | .access pos l f, he => by
      rw [egood_access] at he
      simp only [CheckCtx.check]
      refine NP.bind (check_np ctx hg l he.1) fun l' hl' => ?_
      refine NP.bind (check_np ctx hg f he.2) fun f' _ => ?_
      exact NP.bind (accessTypes_np ctx hg (check_egood' ctx hg l l' hl' he.1)) fun _ _ => NP.pure _
    | .str .., _ => by simp only [CheckCtx.check]; exact NP.pure _
    | .num .., _ => by simp only [CheckCtx.check]; exact NP.pure _
    | .float .., _ => by simp only [CheckCtx.check]; exact NP.pure _
    | .bool .., _ => by simp only [CheckCtx.check]; exact NP.pure _
    | .name .., _ => by simp only [CheckCtx.check]; exact NP.pure _
    | .cycle, _ => by simp only [CheckCtx.check]; exact NP.pure _
    | .ref .., _ => by simp only [CheckCtx.check]; exact NP.pure _
  theorem checkArgs_np (ctx : CheckCtx) (hg : TGood ctx.tbl) :
      ∀ (args : List Expr), EGoodL ctx.tbl args → NP (ctx.checkArgs args)
    | [], _ => by simp only [CheckCtx.checkArgs]; exact NP.pure _
    | a :: as, he => by
      rw [egoodL_cons] at he
      unfold CheckCtx.checkArgs
      refine NP.bind ?_ fun a' _ => ?_
      · split
        · exact rewrite_np ctx _
        · exact check_np ctx hg a he.1
      · exact NP.bind (checkArgs_np ctx hg as he.2) fun _ _ => NP.pure _
  theorem checkItems_np (ctx : CheckCtx) (hg : TGood ctx.tbl) :
      ∀ (items : List Expr), EGoodL ctx.tbl items → NP (ctx.checkItems items)
    | [], _ => by simp only [CheckCtx.checkItems]; exact NP.pure _
    | a :: as, he => by
      rw [egoodL_cons] at he
      unfold CheckCtx.checkItems
      refine NP.bind (check_np ctx hg a he.1) fun a' _ => ?_
      exact NP.bind (checkItems_np ctx hg as he.2) fun _ _ => NP.pure _
end

/-- `Check` never panics over a good table -/
theorem check_no_panic (ctx : CheckCtx) (hg : TGood ctx.tbl) (e : Expr) (he : EGood ctx.tbl e) (site : String) :
    ctx.check e ≠ .panic site :=
  check_np ctx hg e he site

/-! ### the references `Check` creates passed the cycle test -/

/-- a reference `Check` may create: an index of the table that passed `closesCycle` -/
def NewRef (ctx : CheckCtx) (j : Nat) : Prop := ctx.closesCycle j = false ∧ j < ctx.tbl.length

theorem rewrite_refIdx {ctx : CheckCtx} {x y : Expr} (h : ctx.rewrite x = .ok y) :
    ∀ j ∈ y.refIdx ctx.tbl, j ∈ x.refIdx ctx.tbl ∨ NewRef ctx j := by
  unfold CheckCtx.rewrite at h
  split at h
  · rename_i p d
    split at h
    · rename_i k tgt hf
      split at h
      · cases h
      · rename_i hc
        cases h
        intro j hj
        simp only [Expr.refIdx, hf, List.mem_singleton] at hj
        subst hj
        exact .inr ⟨by simpa using hc, ParserTotal.Tbl.find_lt hf⟩
    · cases h; exact fun j hj => .inl hj
  · cases h; exact fun j hj => .inl hj

mutual
  theorem check_refIdx (ctx : CheckCtx) : ∀ (e e' : Expr), ctx.check e = .ok e' →
      ∀ j ∈ e'.refIdx ctx.tbl, j ∈ e.refIdx ctx.tbl ∨ NewRef ctx j
    | .binop pos op l r, e', h => by
      simp only [CheckCtx.check] at h
      obtain ⟨l1, hl1, h⟩ := bind_ok_iff.mp h
      obtain ⟨r1, hr1, h⟩ := bind_ok_iff.mp h
      obtain ⟨l2, hl2, h⟩ := bind_ok_iff.mp h
      obtain ⟨r2, hr2, h⟩ := bind_ok_iff.mp h
      obtain ⟨u, _, h⟩ := bind_ok_iff.mp h
      cases h
      intro j hj
      simp only [Expr.refIdx, List.mem_append] at hj ⊢
      rcases hj with hj | hj
      · rcases rewrite_refIdx hl2 j hj with hj | hj
        · rcases check_refIdx ctx l l1 hl1 j hj with hj | hj
          · exact .inl (.inl hj)
          · exact .inr hj
        · exact .inr hj
      · rcases rewrite_refIdx hr2 j hj with hj | hj
        · rcases check_refIdx ctx r r1 hr1 j hj with hj | hj
          · exact .inl (.inr hj)
          · exact .inr hj
        · exact .inr hj
    | .field pos kw, e', h => by
      simp only [CheckCtx.check] at h
      split at h
      · cases h
      · split at h
        · cases h
        · cases h; exact fun j hj => .inl hj
    | .not pos r, e', h => by
      simp only [CheckCtx.check] at h
      obtain ⟨r', hr', h⟩ := bind_ok_iff.mp h
      obtain ⟨t, _, h⟩ := bind_ok_iff.mp h
      split at h
      · cases h
      · cases h
        intro j hj
        simp only [Expr.refIdx] at hj ⊢
        exact check_refIdx ctx r r' hr' j hj
    | .call pos nm args, e', h => by
      simp only [CheckCtx.check] at h
      split at h
      · obtain ⟨args', ha, h⟩ := bind_ok_iff.mp h
        cases h
        intro j hj
        simp only [Expr.refIdx, List.mem_append] at hj ⊢
        rcases hj with hj | hj
        · exact .inl (.inl hj)
        · rcases checkArgs_refIdx ctx args args' ha j hj with hj | hj
          · exact .inl (.inr hj)
          · exact .inr hj
      · cases h
    | .list pos items, e', h => by
      simp only [CheckCtx.check] at h
      split at h
      · cases h
      · obtain ⟨items', hi, h⟩ := bind_ok_iff.mp h
        obtain ⟨u, _, h⟩ := bind_ok_iff.mp h
        cases h
        intro j hj
        simp only [Expr.refIdx] at hj ⊢
        exact checkItems_refIdx ctx _ items' hi j hj
    | .access pos l f, e', h => by
      simp only [CheckCtx.check] at h
      obtain ⟨l', hl', h⟩ := bind_ok_iff.mp h
      obtain ⟨f', hf', h⟩ := bind_ok_iff.mp h
      obtain ⟨u, _, h⟩ := bind_ok_iff.mp h
      cases h
      intro j hj
      simp only [Expr.refIdx, List.mem_append] at hj ⊢
      rcases hj with hj | hj
      · rcases check_refIdx ctx l l' hl' j hj with hj | hj
        · exact .inl (.inl hj)
        · exact .inr hj
      · rcases check_refIdx ctx f f' hf' j hj with hj | hj
        · exact .inl (.inr hj)
        · exact .inr hj
    | .str .., e', h => by simp only [CheckCtx.check] at h; cases h; exact fun j hj => .inl hj
    | .num .., e', h => by simp only [CheckCtx.check] at h; cases h; exact fun j hj => .inl hj
    | .float .., e', h => by simp only [CheckCtx.check] at h; cases h; exact fun j hj => .inl hj
    | .bool .., e', h => by simp only [CheckCtx.check] at h; cases h; exact fun j hj => .inl hj
    | .name .., e', h => by simp only [CheckCtx.check] at h; cases h; exact fun j hj => .inl hj
    | .cycle, e', h => by simp only [CheckCtx.check] at h; cases h; exact fun j hj => .inl hj
    | .ref .., e', h => by simp only [CheckCtx.check] at h; cases h; exact fun j hj => .inl hj
  theorem checkArgs_refIdx (ctx : CheckCtx) : ∀ (args args' : List Expr), ctx.checkArgs args = .ok args' →
      ∀ j ∈ Expr.refIdx.refIdxList ctx.tbl args', j ∈ Expr.refIdx.refIdxList ctx.tbl args ∨ NewRef ctx j
    | [], args', h => by simp only [CheckCtx.checkArgs] at h; cases h; exact fun j hj => .inl hj
    | a :: as, args', h => by
      unfold CheckCtx.checkArgs at h
      obtain ⟨a', ha, h⟩ := bind_ok_iff.mp h
      obtain ⟨as', has, h⟩ := bind_ok_iff.mp h
      cases h
      intro j hj
      simp only [Expr.refIdx.refIdxList, List.mem_append] at hj ⊢
      rcases hj with hj | hj
      · have : j ∈ a.refIdx ctx.tbl ∨ NewRef ctx j := by
          split at ha
          · exact rewrite_refIdx ha j hj
          · exact check_refIdx ctx a _ ha j hj
        rcases this with hj | hj
        · exact .inl (.inl hj)
        · exact .inr hj
      · rcases checkArgs_refIdx ctx as as' has j hj with hj | hj
        · exact .inl (.inr hj)
        · exact .inr hj
  theorem checkItems_refIdx (ctx : CheckCtx) : ∀ (items items' : List Expr), ctx.checkItems items = .ok items' →
      ∀ j ∈ Expr.refIdx.refIdxList ctx.tbl items', j ∈ Expr.refIdx.refIdxList ctx.tbl items ∨ NewRef ctx j
    | [], items', h => by simp only [CheckCtx.checkItems] at h; cases h; exact fun j hj => .inl hj
    | a :: as, items', h => by
      unfold CheckCtx.checkItems at h
      obtain ⟨a', ha, h⟩ := bind_ok_iff.mp h
      obtain ⟨as', has, h⟩ := bind_ok_iff.mp h
      cases h
      intro j hj
      simp only [Expr.refIdx.refIdxList, List.mem_append] at hj ⊢
      rcases hj with hj | hj
      · rcases check_refIdx ctx a _ ha j hj with hj | hj
        · exact .inl (.inl hj)
        · exact .inr hj
      · rcases checkItems_refIdx ctx as as' has j hj with hj | hj
        · exact .inl (.inr hj)
        · exact .inr hj
end

/-- a reference that passed the cycle test of field `i` does not lead back to `i` -/
theorem newRef_not_reach {tbl : Tbl} {i j : Nat} (h : NewRef { tbl := tbl, cur := some i } j) :
    ¬ Reach tbl j i := by
  obtain ⟨hc, hj⟩ := h
  exact reaches_complete hj (by simpa [CheckCtx.closesCycle] using hc)

/-! ### storing the checked tree back -/

/-- a tree is good in the context of a table with the same names -/
theorem egood_setField {tbl : Tbl} {e : Expr} (i : Nat) (x : Expr) (h : EGood tbl e) : EGood (tbl.setField i x) e := by
  unfold EGood Found at h ⊢
  rw [aliasP_setField]
  exact h

theorem tgood_setField {tbl : Tbl} (hg : TGood tbl) {i : Nat} {nm : Bytes} {f f' : Expr}
    (hi : tbl[i]? = some (nm, f)) (he : EGood tbl f')
    (hnew : ∀ j ∈ f'.refIdx tbl, j ∈ f.refIdx tbl ∨ NewRef { tbl := tbl, cur := some i } j) :
    TGood (tbl.setField i f') := by
  refine ⟨fun j n g hj => ?_, fun j n g hj => ?_, ?_⟩
  · rcases setField_get_cases tbl i j f' n g hj with ⟨_, h2⟩ | ⟨_, rfl⟩
    · exact (egood_setField i f' ⟨hg.found j n g h2, hg.clean j n g h2⟩).1
    · exact (egood_setField i g he).1
  · rcases setField_get_cases tbl i j f' n g hj with ⟨_, h2⟩ | ⟨_, rfl⟩
    · exact hg.clean j n g h2
    · exact he.2
  · refine acyclic_setField hg.acyclic hi fun j hj => ?_
    rcases hnew j hj with h | h
    · exact .inl h
    · exact .inr (newRef_not_reach h)

/-- `ValidateFields` / `parseGroupBy`: field `i` checked in its own context and stored back -/
theorem tgood_setField_check {tbl : Tbl} (hg : TGood tbl) {i : Nat} {nm : Bytes} {f f' : Expr}
    (hi : tbl[i]? = some (nm, f))
    (h : ({ tbl := tbl, cur := some i } : CheckCtx).check f = .ok f') : TGood (tbl.setField i f') :=
  tgood_setField hg hi
    (check_egood { tbl := tbl, cur := some i } hg ⟨hg.found i nm f hi, hg.clean i nm f hi⟩ h)
    (check_refIdx { tbl := tbl, cur := some i } f f' h)

/-- `RewriteFieldNames`: field `i` rewritten in its own context and stored back -/
theorem tgood_setField_rewrite {tbl : Tbl} (hg : TGood tbl) {i : Nat} {nm : Bytes} {f f' : Expr}
    (hi : tbl[i]? = some (nm, f))
    (h : ({ tbl := tbl, cur := some i } : CheckCtx).rewrite f = .ok f') : TGood (tbl.setField i f') :=
  tgood_setField hg hi
    (rewrite_egood { tbl := tbl, cur := some i } hg ⟨hg.found i nm f hi, hg.clean i nm f hi⟩ h)
    (rewrite_refIdx h)

end Kvql.Proofs.RunNoPanic
