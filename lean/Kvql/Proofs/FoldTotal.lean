/-
  C04, no panic: every `ret.(string)` / `ret.(bool)` of the optimizer is applied to a value of that
  Go type (`optimizeBoth_total`).  For calls this is a fact about the regenerated `funcTable`
  (`table_bodies`, by `decide`: a new text- or Boolean-typed function breaks the build until its body
  is shown to return a Go string / bool).
-/
import Kvql.Proofs.FoldMain
namespace Kvql
open Generated
namespace Fold

/-! ### no panic: the type assertions of the optimizer cannot fail (with the built-in function table) -/

theorem kernel2_bool {op : Op} (hop : op = .eq ∨ op = .neq ∨ op = .gt ∨ op = .gte ∨ op = .lt ∨ op = .lte) (s : Bool)
    {a b v : Value} (h : kernel2 op s a b = .ok v) : ∃ x, v = .bool x := by
  rcases hop with rfl | rfl | rfl | rfl | rfl | rfl <;> simp only [kernel2] at h <;>
    (split at h <;> first | (cases h; exact ⟨_, rfl⟩) | cases h)

theorem shortCircuit_bool {isAnd : Bool} {a b : Except Err Value} {v : Value} (h : shortCircuit isAnd a b = .ok v) :
    ∃ x, v = .bool x := by
  simp only [shortCircuit] at h
  split at h
  · cases h
  · split at h
    · cases h
    · split at h
      · cases h; exact ⟨_, rfl⟩
      · split at h
        · cases h
        · split at h
          · cases h
          · cases h; exact ⟨_, rfl⟩

theorem boolop_ret {p : Nat} {op : Op} {l r : Expr}
    (hop : op = .and ∨ op = .or ∨ op = .eq ∨ op = .neq ∨ op = .gt ∨ op = .gte ∨ op = .lt ∨ op = .lte)
    {ret : Value} (h : constExec (.binop p op l r) = .ok ret) : ∃ x, ret = .bool x := by
  rw [constExec_eq] at h
  have hsc := ev_shortCircuit p l r emptyPair ctxNone_off
  rcases hop with rfl | rfl | hop
  · rw [hsc.1] at h; exact shortCircuit_bool h
  · rw [hsc.2.2.1] at h; exact shortCircuit_bool h
  · have hs : isStrict2 op = true := by rcases hop with rfl | rfl | rfl | rfl | rfl | rfl <;> rfl
    rw [ev_strict2 hs p l r _ ctxNone_off] at h
    simp only [strict2] at h
    split at h
    · cases h
    · split at h
      · cases h
      · exact kernel2_bool hop _ h

theorem foldBinary_total (n : Expr) : ∃ x, foldBinary n = .ok x := by
  cases n with
  | binop p op l r =>
    by_cases hb : op = .and ∨ op = .or ∨ op = .eq ∨ op = .neq ∨ op = .gt ∨ op = .gte ∨ op = .lt ∨ op = .lte
    · have h' : foldBinary (.binop p op l r) = (match constExec (.binop p op l r) with
          | .error _ => (pure none : R (Option Expr))
          | .ok ret =>
            match ret with
            | .bool b => pure (some (mkBool l.pos b))
            | _ => throw "tryOptimizeBinaryOpExecute: ret.(bool)") := by
        rcases hb with h1 | h1 | h1 | h1 | h1 | h1 | h1 | h1 <;> subst h1 <;> rfl
      rw [h']
      cases hk : constExec (.binop p op l r) with
      | error e => exact ⟨_, rfl⟩
      | ok ret =>
        obtain ⟨x, rfl⟩ := boolop_ret hb hk
        exact ⟨_, rfl⟩
    · cases op <;> simp at hb <;> simp only [foldBinary] <;>
        first
        | exact ⟨_, rfl⟩
        | (split <;> first | exact ⟨_, rfl⟩ | (split <;> exact ⟨_, rfl⟩))
  | _ => exact ⟨_, rfl⟩

/-- read off the regenerated `funcTable`: a text-typed function has one of the five bodies that
    return a Go string, a Boolean-typed one is `is_int` or `is_float` -/
theorem table_bodies :
    ∀ e ∈ funcTable, ∀ b, (FuncInfo.ofEntry e).body = some b →
      ((FuncInfo.ofEntry e).retType = tyTSTR → b = .lower ∨ b = .upper ∨ b = .toStr ∨ b = .subStr ∨ b = .join) ∧
      ((FuncInfo.ofEntry e).retType = tyTBOOL → b = .isInt ∨ b = .isFloat) := by
  decide

theorem lookup_mem {name : Bytes} {fo : FuncInfo} (h : lookupFunc name = some fo) :
    ∃ e ∈ funcTable, fo = FuncInfo.ofEntry e := by
  simp only [lookupFunc, Option.map_eq_some_iff] at h
  obtain ⟨e, he, rfl⟩ := h
  exact ⟨e, List.mem_of_find?_eq_some he, rfl⟩

theorem rowBody_str {b : Body} (hb : b = .lower ∨ b = .upper ∨ b = .toStr ∨ b = .subStr ∨ b = .join)
    (args : List Expr) (kv : Pair) {c : Ctx} (hc : c.enable = false) {v : Value}
    (h : run (rowBody b args kv) c = .ok v) : ∃ s, v = .str s := by
  have unary : ∀ {f : Value → Value}, unaryOf b = some f → (∀ x, ∃ s, f x = .str s) → ∃ s, v = .str s := by
    intro f hf hstr
    cases args with
    | nil => cases b <;> simp [unaryOf] at hf <;> simp [rowBody] at h
    | cons a rest =>
      rw [run_unary hf a rest kv hc] at h
      cases hx : ev a kv c with
      | error e => rw [hx] at h; cases h
      | ok x => rw [hx] at h; cases h; exact hstr x
  rcases hb with rfl | rfl | rfl | rfl | rfl
  · exact unary (f := fun v => .str (toLower (toStringV v))) rfl fun x => ⟨_, rfl⟩
  · exact unary (f := fun v => .str (toUpper (toStringV v))) rfl fun x => ⟨_, rfl⟩
  · exact unary (f := fun v => .str (toStringV v)) rfl fun x => ⟨_, rfl⟩
  · match args, h with
    | [], h => simp [rowBody] at h
    | [_], h => simp [rowBody] at h
    | [_, _], h => simp [rowBody] at h
    | a0 :: a1 :: a2 :: rest, h =>
      rw [rowBody, run_bind (exec_inert a0 kv) hc] at h
      cases h0 : run (exec a0 kv) c with
      | error e => rw [h0] at h; cases h
      | ok v0 =>
        rw [h0] at h
        simp only [run_ite, run_throw] at h
        by_cases t1 : (retType a1 != tyTNUMBER) = true
        · simp only [t1, if_true] at h; cases h
        · by_cases t2 : (retType a2 != tyTNUMBER) = true
          · simp only [t1, t2, if_true] at h; cases h
          · simp only [t1, t2] at h
            rw [run_bind (exec_inert a1 kv) hc] at h
            cases h1 : run (exec a1 kv) c with
            | error e => rw [h1] at h; cases h
            | ok v1 =>
              rw [h1] at h
              simp only [] at h
              rw [run_bind (exec_inert a2 kv) hc] at h
              cases h2 : run (exec a2 kv) c with
              | error e => rw [h2] at h; cases h
              | ok v2 =>
                rw [h2] at h
                simp only [run_lift, substrKernel] at h
                cases h; exact ⟨_, rfl⟩
  · match args, h with
    | [], h => simp [rowBody] at h
    | a0 :: rest, h =>
      rw [rowBody] at h
      simp only [run_ite, run_throw] at h
      split at h
      · cases h
      · rw [run_bind (exec_inert a0 kv) hc] at h
        cases h0 : run (exec a0 kv) c with
        | error e => rw [h0] at h; cases h
        | ok v0 =>
          rw [h0] at h
          simp only [] at h
          rw [run_bind (execArgs_inert rest kv) hc] at h
          cases hs : run (execArgs rest kv) c with
          | error e => rw [hs] at h; cases h
          | ok vs =>
            rw [hs] at h
            simp only [run_pure] at h
            cases h; exact ⟨_, rfl⟩

theorem rowBody_bool {b : Body} (hb : b = .isInt ∨ b = .isFloat)
    (args : List Expr) (kv : Pair) {c : Ctx} (hc : c.enable = false) {v : Value}
    (h : run (rowBody b args kv) c = .ok v) : ∃ x, v = .bool x := by
  have unary : ∀ {f : Value → Value}, unaryOf b = some f → (∀ x, ∃ s, f x = .bool s) → ∃ s, v = .bool s := by
    intro f hf hstr
    cases args with
    | nil => cases b <;> simp [unaryOf] at hf <;> simp [rowBody] at h
    | cons a rest =>
      rw [run_unary hf a rest kv hc] at h
      cases hx : ev a kv c with
      | error e => rw [hx] at h; cases h
      | ok x => rw [hx] at h; cases h; exact hstr x
  rcases hb with rfl | rfl
  · exact unary (f := fun v => .bool (isIntV v)) rfl fun x => ⟨_, rfl⟩
  · exact unary (f := fun v => .bool (isFloatV v)) rfl fun x => ⟨_, rfl⟩

/-- what constant evaluation of a scalar call returns: the value of its body, whose kind the table fixes -/
theorem constExec_call_kind {p : Nat} {nm : Expr} {args : List Expr} {ret : Value}
    (h : constExec (.call p nm args) = .ok ret) :
    (retType (.call p nm args) = tyTSTR → ∃ s, ret = .str s) ∧
    (retType (.call p nm args) = tyTBOOL → ∃ x, ret = .bool x) := by
  rw [constExec_eq, ev_call] at h
  cases nm with
  | name q d =>
    simp only [funcNameOf] at h
    cases hlk : lookupFunc (toLower d) with
    | none => rw [hlk] at h; cases h
    | some fo =>
      rw [hlk] at h
      simp only [] at h
      split at h
      · cases h
      · split at h
        · cases h
        · cases hb : fo.body with
          | none => rw [hb] at h; cases h
          | some b =>
            rw [hb] at h
            simp only [] at h
            obtain ⟨e, he, rfl⟩ := lookup_mem hlk
            have ht := table_bodies e he b hb
            have hty : retType (.call p (.name q d) args) = (FuncInfo.ofEntry e).retType := by
              simp [retType, hlk]
            rw [hty]
            exact ⟨fun t => rowBody_str (ht.1 t) args _ ctxNone_off h,
                   fun t => rowBody_bool (ht.2 t) args _ ctxNone_off h⟩
  | _ => simp [funcNameOf] at h

theorem foldCall_total (p : Nat) (nm : Expr) (args : List Expr) : ∃ x, foldCall (.call p nm args) = .ok x := by
  simp only [foldCall]
  split
  · exact ⟨_, rfl⟩
  · cases hk : constExec (.call p nm args) with
    | error e => exact ⟨_, rfl⟩
    | ok ret =>
      have hkind := constExec_call_kind hk
      simp only []
      split
      · rename_i hty
        obtain ⟨s, rfl⟩ := hkind.1 (by simpa using hty)
        exact ⟨_, rfl⟩
      · split
        · cases ret <;> exact ⟨_, rfl⟩
        · split
          · rename_i hty
            obtain ⟨x, rfl⟩ := hkind.2 (by simpa using hty)
            exact ⟨_, rfl⟩
          · exact ⟨_, rfl⟩

mutual
  theorem pass_total : ∀ e : Expr, ∃ r, pass e = .ok r
    | .binop p op l r => by
      rw [pass]
      obtain ⟨o, ho⟩ := binExec_total (reorder (.binop p op l r))
      rw [ho]
      simp only [bind, Except.bind]
      split <;> exact ⟨_, rfl⟩
    | .call p nm args => by
      rw [pass]
      obtain ⟨o, ho⟩ := callFold_total (.call p nm args)
      rw [ho]
      exact ⟨_, rfl⟩
    | .field .. | .str .. | .not .. | .name .. | .ref .. | .cycle | .num .. | .float .. | .bool .. | .list ..
    | .access .. => by simp only [pass]; exact ⟨_, rfl⟩
  termination_by e => (size e, 2)
  decreasing_by
    · rw [size_reorder]; exact Prod.Lex.right _ (by omega)
    · exact Prod.Lex.right _ (by omega)

  theorem binExec_total : ∀ e : Expr, ∃ o, binExec e = .ok o
    | .binop p op l r => by
      rw [binExec]
      obtain ⟨lo, hlo⟩ := operand_total l
      obtain ⟨ro, hro⟩ := operand_total r
      rw [hlo, hro]
      simp only [bind, Except.bind]
      split
      · exact ⟨_, rfl⟩
      · obtain ⟨x, hx⟩ := foldBinary_total (.binop p op lo.ret ro.ret)
        rw [hx]
        cases x <;> exact ⟨_, rfl⟩
    | .field .. | .str .. | .not .. | .name .. | .ref .. | .cycle | .num .. | .float .. | .bool .. | .list ..
    | .access .. | .call .. => by simp only [binExec]; exact ⟨_, rfl⟩
  termination_by e => (size e, 1)
  decreasing_by
    · exact Prod.Lex.left _ _ (by simp only [size]; omega)
    · exact Prod.Lex.left _ _ (by simp only [size]; omega)

  theorem operand_total : ∀ e : Expr, ∃ o, operand e = .ok o
    | .binop p op l r => by rw [operand]; exact binExec_total (.binop p op l r)
    | .call p nm args => by rw [operand]; exact callFold_total (.call p nm args)
    | .field .. | .str .. | .not .. | .name .. | .ref .. | .cycle | .num .. | .float .. | .bool .. | .list ..
    | .access .. => by simp only [operand]; exact ⟨_, rfl⟩
  termination_by e => (size e, 2)
  decreasing_by
    · exact Prod.Lex.right _ (by omega)
    · exact Prod.Lex.right _ (by omega)

  theorem callFold_total : ∀ e : Expr, ∃ o, callFold e = .ok o
    | .call p nm args => by
      rw [callFold]
      obtain ⟨args', ha⟩ := optArgs_total args
      rw [ha]
      simp only [bind, Except.bind]
      split
      · exact ⟨_, rfl⟩
      · obtain ⟨x, hx⟩ := foldCall_total p nm args'
        rw [hx]
        cases x <;> exact ⟨_, rfl⟩
    | .field .. | .str .. | .not .. | .name .. | .ref .. | .cycle | .num .. | .float .. | .bool .. | .list ..
    | .access .. | .binop .. => by simp only [callFold]; exact ⟨_, rfl⟩
  termination_by e => (size e, 1)
  decreasing_by
    · exact Prod.Lex.left _ _ (by simp only [size]; omega)

  theorem optArgs_total : ∀ args : List Expr, ∃ r, optArgs args = .ok r
    | [] => by simp only [optArgs]; exact ⟨_, rfl⟩
    | a :: rest => by
      rw [optArgs]
      obtain ⟨pa, hpa⟩ := pass_total a
      obtain ⟨r, hr⟩ := optArgs_total rest
      rw [hpa, hr]
      exact ⟨_, rfl⟩
  termination_by args => (sizeList args, 0)
  decreasing_by
    · exact Prod.Lex.left _ _ (by simp only [sizeList]; omega)
    · exact Prod.Lex.left _ _ (by simp only [sizeList]; omega)
end

/-- `Optimize()` never panics: none of the type assertions `ret.(string)` / `ret.(bool)` can fail -/
theorem optimizeBoth_total (e : Expr) : ∃ r n, optimizeBoth e = .ok (r, n) := by
  rw [optimizeBoth]
  obtain ⟨p1, h1⟩ := pass_total e
  obtain ⟨p2, h2⟩ := pass_total p1.ret
  rw [h1]
  simp only [bind, Except.bind]
  rw [h2]
  exact ⟨_, _, rfl⟩

end Fold
end Kvql
