/-
  parse_total, statement level: `Parse` with its own fuel never returns `outOfFuel` and never
  reaches a nil-token `panic` branch.
-/
import Kvql.Proofs.ParserTotal

namespace Kvql.Proofs.ParserTotal

open Kvql Kvql.Parser Kvql.Generated

/-- total except for the cyclic-alias site of `ReturnType` -/
abbrev TotS {α : Type} (r : Res α) (Q : α → Prop) : Prop :=
  r.Holds Q (fun _ => True) (fun s => s = cyclicPanic) False

abbrev Safe {α : Type} (r : Res α) : Prop := TotS r (fun _ => True)

theorem Safe.bind {α β : Type} {r : Res α} {f : α → Res β} (h : Safe r) (hf : ∀ a, Safe (f a)) :
    Safe (r >>= f) := Res.Holds.bind h (fun a _ => hf a)

theorem Tot.toS {α : Type} {r : Res α} {Q : α → Prop} (h : Tot r Q) : TotS r Q :=
  h.monoP (fun _ h => h.elim)

theorem rt_safe (ctx : CheckCtx) (e : Expr) : Safe (ctx.rt e) := by
  unfold CheckCtx.rt; split <;> simp

theorem rewrite_safe (ctx : CheckCtx) (e : Expr) : Safe (ctx.rewrite e) := by
  unfold CheckCtx.rewrite
  repeat' split
  all_goals simp

/-- `omega` after normalising list lengths -/
macro "lomega" : tactic =>
  `(tactic| (simp only [List.length_cons, List.length_nil, Lt, Le, Res.holds_pure, Res.holds_ok] at *; omega))

/-- one step of a routine proof: peel a bind, a branch, or close a leaf -/
macro "safe_step" : tactic =>
  `(tactic| first
    | exact rt_safe _ _
    | exact rewrite_safe _ _
    | (apply Safe.bind)
    | (intro _)
    | split
    | (simp [synErr, eofErr]; done))

theorem checkAndOrSide_safe (ctx : CheckCtx) (e : Expr) : Safe (ctx.checkAndOrSide e) := by
  unfold CheckCtx.checkAndOrSide; repeat' safe_step

theorem checkWithAndOr_safe (ctx : CheckCtx) (l r : Expr) : Safe (ctx.checkWithAndOr l r) := by
  unfold CheckCtx.checkWithAndOr
  exact Safe.bind (checkAndOrSide_safe _ _) (fun _ => checkAndOrSide_safe _ _)

theorem mathSide_safe (ctx : CheckCtx) (e : Expr) : Safe (ctx.mathSide e) := by
  unfold CheckCtx.mathSide; repeat' safe_step

theorem checkWithMath_safe (ctx : CheckCtx) (op : Op) (l r : Expr) : Safe (ctx.checkWithMath op l r) := by
  unfold CheckCtx.checkWithMath
  apply Safe.bind (mathSide_safe _ _); intro _
  apply Safe.bind (mathSide_safe _ _); intro _
  repeat' safe_step

theorem compareSide_safe (e : Expr) : Safe (compareSide e) := by
  unfold compareSide; repeat' safe_step

theorem checkWithCompares_safe (ctx : CheckCtx) (pos : Nat) (op : Op) (l r : Expr) :
    Safe (ctx.checkWithCompares pos op l r) := by
  unfold CheckCtx.checkWithCompares
  apply Safe.bind (compareSide_safe _); intro _
  apply Safe.bind (compareSide_safe _); intro _
  repeat' safe_step

theorem inItems_safe (ctx : CheckCtx) (t : Nat) (xs : List Expr) : Safe (ctx.inItems t xs) := by
  induction xs with
  | nil => simp [CheckCtx.inItems]
  | cons x xs ih =>
    unfold CheckCtx.inItems
    apply Safe.bind (rt_safe _ _); intro _
    split
    · simp [synErr]
    · exact ih

theorem checkWithIn_safe (ctx : CheckCtx) (l r : Expr) : Safe (ctx.checkWithIn l r) := by
  unfold CheckCtx.checkWithIn
  apply Safe.bind (rt_safe _ _); intro _
  split
  · simp [synErr]
  · split
    · exact inItems_safe _ _ _
    all_goals repeat' safe_step

theorem checkWithBetween_safe (ctx : CheckCtx) (l r : Expr) : Safe (ctx.checkWithBetween l r) := by
  unfold CheckCtx.checkWithBetween
  repeat' safe_step

theorem checkOp_safe (ctx : CheckCtx) (pos : Nat) (op : Op) (l r : Expr) : Safe (ctx.checkOp pos op l r) := by
  unfold CheckCtx.checkOp
  split
  all_goals first
    | exact checkWithAndOr_safe _ _ _
    | exact checkWithMath_safe _ _ _ _
    | exact checkWithIn_safe _ _ _
    | exact checkWithBetween_safe _ _ _
    | exact checkWithCompares_safe _ _ _ _ _
    | simp [synErr]

theorem listTypes_go_safe (ctx : CheckCtx) (t : Nat) (xs : List Expr) : Safe (CheckCtx.listTypes.go ctx t xs) := by
  induction xs with
  | nil => simp [CheckCtx.listTypes.go]
  | cons x xs ih =>
    unfold CheckCtx.listTypes.go
    apply Safe.bind (rt_safe _ _); intro _
    split
    · simp [synErr]
    · exact ih

theorem listTypes_safe (ctx : CheckCtx) (pos : Nat) (xs : List Expr) : Safe (ctx.listTypes pos xs) := by
  unfold CheckCtx.listTypes
  split
  · simp [synErr]
  · split
    · simp
    · apply Safe.bind (rt_safe _ _); intro _
      exact listTypes_go_safe _ _ _

theorem accessTypes_safe (ctx : CheckCtx) (l f : Expr) : Safe (ctx.accessTypes l f) := by
  unfold CheckCtx.accessTypes
  repeat' safe_step

mutual
  theorem check_safe (ctx : CheckCtx) : ∀ e : Expr, Safe (ctx.check e)
    | .binop pos op l r => by
      unfold CheckCtx.check
      apply Safe.bind (check_safe ctx l); intro _
      apply Safe.bind (check_safe ctx r); intro _
      apply Safe.bind (rewrite_safe _ _); intro _
      apply Safe.bind (rewrite_safe _ _); intro _
      apply Safe.bind (checkOp_safe _ _ _ _ _); intro _
      simp
    | .field pos kw => by unfold CheckCtx.check; repeat' safe_step
    | .not pos r => by
      unfold CheckCtx.check
      apply Safe.bind (check_safe ctx r); intro _
      repeat' safe_step
    | .call pos nm args => by
      unfold CheckCtx.check
      split
      · apply Safe.bind (checkArgs_safe ctx args); intro _
        simp
      · simp [synErr]
    | .list pos items => by
      unfold CheckCtx.check
      split
      · simp [synErr]
      · apply Safe.bind (checkItems_safe ctx _); intro _
        apply Safe.bind (listTypes_safe _ _ _); intro _
        simp
    | .access pos l f => by
      unfold CheckCtx.check
      apply Safe.bind (check_safe ctx l); intro _
      apply Safe.bind (check_safe ctx f); intro _
      apply Safe.bind (accessTypes_safe _ _ _); intro _
      simp
    | .str .. | .name .. | .ref .. | .cycle | .num .. | .float .. | .bool .. => by
      unfold CheckCtx.check; simp
  theorem checkArgs_safe (ctx : CheckCtx) : ∀ es : List Expr, Safe (ctx.checkArgs es)
    | [] => by unfold CheckCtx.checkArgs; simp
    | a :: as => by
      unfold CheckCtx.checkArgs
      apply Safe.bind
      · split
        · exact rewrite_safe _ _
        · exact check_safe ctx _
      · intro _
        apply Safe.bind (checkArgs_safe ctx as); intro _
        simp
  theorem checkItems_safe (ctx : CheckCtx) : ∀ es : List Expr, Safe (ctx.checkItems es)
    | [] => by unfold CheckCtx.checkItems; simp
    | a :: as => by
      unfold CheckCtx.checkItems
      apply Safe.bind (check_safe ctx a); intro _
      apply Safe.bind (checkItems_safe ctx as); intro _
      simp
end

/-! ### the statement parsers -/

variable (pf : Bytes → F64)

theorem parseExpr_tot (efuel : Nat) (ts : Toks) (h : 8 * ts.length + 4 ≤ efuel) :
    Tot (parseExpr pf efuel ts) (Lt ts.length) := (expr_total pf efuel).binary 0 1 ts h

theorem limitLoop_tot : ∀ (fuel : Nat) (acc : List Int64) (ts : Toks), ts.length + 1 ≤ fuel →
    Tot (limitLoop fuel acc ts) (fun p => p.2.length ≤ ts.length) := by
  intro fuel
  induction fuel with
  | zero => intros; omega
  | succ n ih =>
    intro acc ts h
    unfold limitLoop
    split
    · simp
    · rename_i t rest
      simp only [List.length_cons] at h
      split
      · apply (ih _ rest (by omega)).mono
        intro p hp; simp only [List.length_cons]; omega
      · split
        · split
          · simp [synErr]
          · split
            · simp [synErr]
            · apply (ih _ _ (by simp only [List.length_cons] at *; omega)).mono
              intro p hp; simp only [List.length_cons] at *; omega
        · simp

theorem parseLimit_tot (lfuel : Nat) (ts : Toks) (hne : ts ≠ []) (h : ts.length + 1 ≤ lfuel) :
    Tot (parseLimit lfuel ts) (fun p => p.2.length < ts.length) := by
  unfold parseLimit
  split
  · exact absurd rfl hne
  · rename_i t rest
    apply Res.Holds.bind (expect_tot _ _)
    intro ts1 h1
    apply Res.Holds.bind (limitLoop_tot _ _ ts1 (by omega))
    rintro ⟨vals, ts2⟩ h2
    dsimp only at h2 ⊢
    split
    · lomega
    · lomega
    · split <;> simp [eofErr, synErr]

theorem selectLoop_tot (efuel : Nat) : ∀ (fuel : Nat) (acc : SelAcc) (ts : Toks),
    ts.length + 1 ≤ fuel → 8 * ts.length + 4 ≤ efuel →
    Tot (selectLoop pf efuel fuel acc ts) (fun p => p.2.length ≤ ts.length) := by
  intro fuel
  induction fuel with
  | zero => intros; omega
  | succ n ih =>
    intro acc ts h he
    unfold selectLoop
    split
    · simp
    · rename_i t rest
      simp only [List.length_cons] at h he
      split
      · simp
      · split
        · split
          · split
            · simp [synErr]
            · split
              · simp [synErr]
              · simp
          · split <;> simp [eofErr]
        · apply Res.Holds.bind (parseExpr_tot pf efuel _ (by simp only [List.length_cons]; omega))
          rintro ⟨field, ts1⟩ h1
          simp only [Lt, List.length_cons] at h1
          dsimp only
          apply Res.Holds.bind (R := fun p => p.2.length ≤ ts1.length)
          · split
            · simp
            · split
              · split
                · simp [eofErr]
                · split
                  · simp [synErr]
                  · simp; omega
              · split
                · simp
                · split
                  · simp
                  · simp [synErr]
          · rintro ⟨fname, ts2⟩ h2
            dsimp only at h2 ⊢
            split
            · simp
            · split
              · simp only [Res.holds_pure, List.length_cons] at *; omega
              · rename_i t3 r3 _
                simp only [List.length_cons] at h2
                apply (ih _ r3 (by omega) (by omega)).mono
                intro p hp; simp only [List.length_cons] at *; omega

theorem parseSelect_tot (efuel lfuel : Nat) (ts : Toks) (hne : ts ≠ [])
    (h : ts.length + 1 ≤ lfuel) (he : 8 * ts.length + 4 ≤ efuel) :
    Tot (parseSelect pf efuel lfuel ts) (fun p => p.2.length < ts.length) := by
  unfold parseSelect
  split
  · exact absurd rfl hne
  · apply Res.Holds.bind (expect_tot _ _)
    intro ts1 h1
    apply Res.Holds.bind (selectLoop_tot pf efuel lfuel _ ts1 (by omega) (by omega))
    rintro ⟨acc, ts2⟩ h2
    dsimp only at h2 ⊢
    split
    · simp [synErr]
    · split <;> lomega

theorem Tbl.find_go_lt (tbl : Tbl) (nm : Bytes) : ∀ (k i : Nat) (e : Expr),
    Tbl.find.go nm tbl k = some (i, e) → k ≤ i ∧ i < k + tbl.length := by
  induction tbl with
  | nil => intro k i e h; simp [Tbl.find.go] at h
  | cons p rest ih =>
    intro k i e h
    obtain ⟨n, x⟩ := p
    unfold Tbl.find.go at h
    split at h
    · simp at h; simp only [List.length_cons]; omega
    · have := ih (k + 1) i e h
      simp only [List.length_cons]; omega

theorem Tbl.find_lt {tbl : Tbl} {nm : Bytes} {i : Nat} {e : Expr} (h : tbl.find nm = some (i, e)) :
    i < tbl.length := by
  have := Tbl.find_go_lt tbl nm 0 i e h
  omega

theorem Tbl.setField_length (tbl : Tbl) : ∀ (i : Nat) (e : Expr), (tbl.setField i e).length = tbl.length := by
  induction tbl with
  | nil => intro i e; simp [Tbl.setField]
  | cons p rest ih =>
    intro i e
    cases i with
    | zero => obtain ⟨n, x⟩ := p; simp [Tbl.setField]
    | succ j => simp [Tbl.setField, ih]

theorem findField_tot (tbl : Tbl) (nm : Bytes) (pos : Nat) :
    TotS (findFieldInSelect tbl nm pos) (fun p => p.1 < tbl.length) := by
  unfold findFieldInSelect
  split
  · simp [synErr]
  · rename_i i fexpr hf
    apply Res.Holds.bind (rt_safe _ _)
    intro t _
    split
    · simp; exact Tbl.find_lt hf
    · simp [synErr]

theorem orderLoop_tot (efuel : Nat) (tbl : Tbl) : ∀ (fuel : Nat) (acc : List (Bytes × Nat)) (ts : Toks),
    ts.length + 1 ≤ fuel → 8 * ts.length + 4 ≤ efuel →
    TotS (orderLoop pf efuel tbl fuel acc ts) (fun p => p.2.length ≤ ts.length) := by
  intro fuel
  induction fuel with
  | zero => intros; omega
  | succ n ih =>
    intro acc ts h he
    unfold orderLoop
    split
    · simp
    · rename_i t rest
      apply Res.Holds.bind (parseExpr_tot pf efuel _ he).toS
      rintro ⟨field, ts1⟩ h1
      simp only [Lt, List.length_cons] at h1 h he
      dsimp only
      apply Res.Holds.bind (findField_tot _ _ _)
      intro _ _
      split
      · simp
      · rename_i t1 r1
        simp only [List.length_cons] at h1
        split
        · apply (ih _ r1 (by omega) (by omega)).mono
          intro p hp; simp only [List.length_cons] at *; omega
        · split
          · split
            · rename_i t2 r2
              split
              · apply (ih _ r2 (by simp only [List.length_cons] at *; omega) (by simp only [List.length_cons] at *; omega)).mono
                intro p hp; simp only [List.length_cons] at *; omega
              · simp only [Res.holds_pure, List.length_cons] at *; omega
            · simp
          · simp only [Res.holds_pure, List.length_cons] at *; omega

theorem parseOrderBy_tot (efuel lfuel : Nat) (tbl : Tbl) (ts : Toks) (hne : ts ≠ [])
    (h : ts.length + 1 ≤ lfuel) (he : 8 * ts.length + 4 ≤ efuel) :
    TotS (parseOrderBy pf efuel lfuel tbl ts) (fun p => p.2.length < ts.length) := by
  unfold parseOrderBy
  split
  · exact absurd rfl hne
  · apply Res.Holds.bind (expect_tot _ _).toS
    intro ts1 h1
    apply Res.Holds.bind (expect_tot _ _).toS
    intro ts2 h2
    apply Res.Holds.bind (orderLoop_tot pf efuel tbl lfuel _ ts2 (by omega) (by omega))
    rintro ⟨os, ts3⟩ h3
    simp only [Res.holds_pure] at *
    omega

/-- every group-by entry that points into the select list does so with a valid index -/
def GOk (n : Nat) (g : Bytes × GTarget) : Prop :=
  match g.2 with
  | .sel i => i < n
  | .own _ => True

theorem groupLoop_tot (efuel : Nat) (tbl : Tbl) : ∀ (fuel : Nat) (acc : List (Bytes × GTarget)) (ts : Toks),
    ts.length + 1 ≤ fuel → 8 * ts.length + 4 ≤ efuel → (∀ g ∈ acc, GOk tbl.length g) →
    TotS (groupLoop pf efuel tbl fuel acc ts)
      (fun p => p.2.length ≤ ts.length ∧ ∀ g ∈ p.1, GOk tbl.length g) := by
  intro fuel
  induction fuel with
  | zero => intros; omega
  | succ n ih =>
    intro acc ts h he hacc
    unfold groupLoop
    split
    · simpa using hacc
    · rename_i t rest
      apply Res.Holds.bind (parseExpr_tot pf efuel _ he).toS
      rintro ⟨field, ts1⟩ h1
      simp only [Lt, List.length_cons] at h1 h he
      dsimp only
      apply Res.Holds.bind (R := GOk tbl.length)
      · split
        · apply Res.Holds.bind (findField_tot _ _ _)
          rintro ⟨i, e⟩ hi
          simpa [GOk] using hi
        · simp [GOk]
        · apply Res.Holds.bind (findField_tot _ _ _)
          rintro ⟨i, e⟩ hi
          dsimp only
          split
          · simp [synErr]
          · split
            · simp [synErr]
            · simpa [GOk] using hi
        · apply Res.Holds.bind (findField_tot _ _ _)
          rintro ⟨i, e⟩ hi
          simpa [GOk] using hi
      · intro entry hentry
        have hacc' : ∀ g ∈ acc ++ [entry], GOk tbl.length g := by
          intro g hg
          rcases List.mem_append.mp hg with hg | hg
          · exact hacc g hg
          · simp at hg; subst hg; exact hentry
        split
        · simpa using hacc'
        · rename_i t1 r1
          simp only [List.length_cons] at h1
          split
          · apply (ih _ r1 (by omega) (by omega) hacc').mono
            rintro p ⟨hp, hg⟩
            exact ⟨by simp only [List.length_cons] at *; omega, hg⟩
          · simp only [Res.holds_pure]
            exact ⟨by simp only [List.length_cons] at *; omega, hacc'⟩

theorem groupCheck_tot : ∀ (gs : List (Bytes × GTarget)) (tbl : Tbl),
    (∀ g ∈ gs, GOk tbl.length g) → Safe (groupCheck tbl gs) := by
  intro gs
  induction gs with
  | nil => intro tbl _; simp [groupCheck]
  | cons g rest ih =>
    intro tbl hg
    obtain ⟨n, tgt⟩ := g
    cases tgt with
    | sel i =>
      unfold groupCheck
      have hi : i < tbl.length := by simpa [GOk] using hg (n, .sel i) (by simp)
      split
      · rename_i hnone
        simp only [List.getElem?_eq_none_iff] at hnone
        omega
      · apply Safe.bind (check_safe _ _); intro e'
        apply Safe.bind
        · apply ih
          intro g hg'
          rw [Tbl.setField_length]
          exact hg g (by simp [hg'])
        · intro _; simp
    | own e =>
      unfold groupCheck
      apply Safe.bind (check_safe _ _); intro e'
      apply Safe.bind (ih tbl (fun g hg' => hg g (by simp [hg']))); intro _
      simp

theorem parseGroupBy_tot (efuel lfuel : Nat) (tbl : Tbl) (ts : Toks) (hne : ts ≠ [])
    (h : ts.length + 1 ≤ lfuel) (he : 8 * ts.length + 4 ≤ efuel) :
    TotS (parseGroupBy pf efuel lfuel tbl ts) (fun p => p.2.length < ts.length) := by
  unfold parseGroupBy
  split
  · exact absurd rfl hne
  · apply Res.Holds.bind (expect_tot _ _).toS
    intro ts1 h1
    apply Res.Holds.bind (expect_tot _ _).toS
    intro ts2 h2
    apply Res.Holds.bind (groupLoop_tot pf efuel tbl lfuel [] ts2 (by omega) (by omega) (by simp))
    rintro ⟨gs, ts3⟩ ⟨h3, hg⟩
    dsimp only at h3 hg ⊢
    apply Res.Holds.bind (groupCheck_tot gs tbl hg)
    rintro ⟨tbl', gs'⟩ _
    simp only [Res.holds_pure] at *
    omega

theorem parsePutKVPair_tot (efuel : Nat) (ts : Toks) (he : 8 * ts.length + 4 ≤ efuel) :
    Tot (parsePutKVPair pf efuel ts) (fun p => p.2.length < ts.length) := by
  unfold parsePutKVPair
  apply Res.Holds.bind (expect_tot _ _)
  intro ts1 h1
  apply Res.Holds.bind (parseExpr_tot pf efuel ts1 (by omega))
  rintro ⟨k, ts2⟩ h2
  dsimp only
  split
  · simp [eofErr]
  · rename_i t rest
    split
    · apply Res.Holds.bind (parseExpr_tot pf efuel rest (by lomega))
      rintro ⟨v, ts3⟩ h3
      apply Res.Holds.bind (expect_tot _ _)
      intro ts4 h4
      lomega
    · simp [synErr]

theorem putLoop_tot (efuel : Nat) : ∀ (fuel : Nat) (acc : List (Expr × Expr)) (ts : Toks),
    ts.length + 1 ≤ fuel → 8 * ts.length + 4 ≤ efuel →
    Tot (putLoop pf efuel fuel acc ts) (fun _ => True) := by
  intro fuel
  induction fuel with
  | zero => intros; omega
  | succ n ih =>
    intro acc ts h he
    unfold putLoop
    split
    · simp
    · rename_i t rest
      apply Res.Holds.bind (parsePutKVPair_tot pf efuel _ he)
      rintro ⟨kv, ts1⟩ h1
      dsimp only at h1 ⊢
      split
      · simp
      · apply Res.Holds.bind (expect_tot _ _)
        intro ts2 h2
        exact ih _ ts2 (by lomega) (by lomega)

theorem validatePut_safe (ctx : CheckCtx) : ∀ ps : List (Expr × Expr), Safe (validatePut ctx ps) := by
  intro ps
  induction ps with
  | nil => simp [validatePut]
  | cons p rest ih =>
    obtain ⟨k, v⟩ := p
    unfold validatePut
    apply Safe.bind (check_safe _ _); intro _
    apply Safe.bind (rt_safe _ _); intro _
    split
    · simp [synErr]
    · apply Safe.bind (check_safe _ _); intro _
      apply Safe.bind (rt_safe _ _); intro _
      split
      · simp [synErr]
      · apply Safe.bind ih; intro _; simp

theorem parsePut_tot (efuel lfuel : Nat) (ts : Toks) (hne : ts ≠ [])
    (h : ts.length + 1 ≤ lfuel) (he : 8 * ts.length + 4 ≤ efuel) :
    Safe (parsePut pf efuel lfuel ts) := by
  unfold parsePut
  split
  · exact absurd rfl hne
  · apply Res.Holds.bind (expect_tot _ _).toS
    intro ts1 h1
    apply Res.Holds.bind (putLoop_tot pf efuel lfuel [] ts1 (by omega) (by omega)).toS
    intro ps _
    apply Safe.bind (validatePut_safe _ _); intro _
    simp

theorem removeLoop_tot (efuel : Nat) : ∀ (fuel : Nat) (acc : List Expr) (ts : Toks),
    ts.length + 1 ≤ fuel → 8 * ts.length + 4 ≤ efuel →
    Tot (removeLoop pf efuel fuel acc ts) (fun _ => True) := by
  intro fuel
  induction fuel with
  | zero => intros; omega
  | succ n ih =>
    intro acc ts h he
    unfold removeLoop
    split
    · simp
    · rename_i t rest
      apply Res.Holds.bind (parseExpr_tot pf efuel _ he)
      rintro ⟨k, ts1⟩ h1
      dsimp only at h1 ⊢
      split
      · simp
      · apply Res.Holds.bind (expect_tot _ _)
        intro ts2 h2
        exact ih _ ts2 (by lomega) (by lomega)

theorem validateRemove_safe (ctx : CheckCtx) : ∀ ks : List Expr, Safe (validateRemove ctx ks) := by
  intro ks
  induction ks with
  | nil => simp [validateRemove]
  | cons k rest ih =>
    unfold validateRemove
    apply Safe.bind (rt_safe _ _); intro _
    split
    · simp [synErr]
    · apply Safe.bind (check_safe _ _); intro _
      apply Safe.bind ih; intro _; simp

theorem parseRemove_tot (efuel lfuel : Nat) (ts : Toks) (hne : ts ≠ [])
    (h : ts.length + 1 ≤ lfuel) (he : 8 * ts.length + 4 ≤ efuel) :
    Safe (parseRemove pf efuel lfuel ts) := by
  unfold parseRemove
  split
  · exact absurd rfl hne
  · apply Res.Holds.bind (expect_tot _ _).toS
    intro ts1 h1
    apply Res.Holds.bind (removeLoop_tot pf efuel lfuel [] ts1 (by omega) (by omega)).toS
    intro ks _
    apply Safe.bind (validateRemove_safe _ _); intro _
    simp

theorem parseDelete_tot (efuel lfuel : Nat) (ts : Toks) (hne : ts ≠ [])
    (h : ts.length + 1 ≤ lfuel) (he : 8 * ts.length + 4 ≤ efuel) :
    Safe (parseDelete pf efuel lfuel ts) := by
  unfold parseDelete
  split
  · exact absurd rfl hne
  · apply Res.Holds.bind (expect_tot _ _).toS
    intro ts1 h1
    split
    · simp [eofErr]
    · rename_i wt rest1
      apply Res.Holds.bind (expect_tot _ _).toS
      intro ts2 h2
      apply Res.Holds.bind (parseExpr_tot pf efuel ts2 (by lomega)).toS
      rintro ⟨w, ts3⟩ h3
      dsimp only
      apply Res.Holds.bind (R := fun _ => True)
      · split
        · simp
        · split
          · apply Res.Holds.bind (parseLimit_tot lfuel _ (by simp) (by lomega)).toS
            intro _ _; simp
          · simp [synErr]
      · rintro ⟨lim, ts4⟩ _
        dsimp only
        split
        · simp [synErr]
        · apply Safe.bind (check_safe _ _); intro _
          apply Safe.bind (rt_safe _ _); intro _
          split <;> simp [synErr]

theorem clauseLoop_tot (efuel lfuel : Nat) : ∀ (fuel : Nat) (c : Clauses) (ts : Toks),
    ts.length + 1 ≤ fuel → ts.length + 1 ≤ lfuel → 8 * ts.length + 4 ≤ efuel →
    Safe (clauseLoop pf efuel lfuel fuel c ts) := by
  intro fuel
  induction fuel with
  | zero => intros; omega
  | succ n ih =>
    intro c ts h hl he
    unfold clauseLoop
    split
    · simp
    · rename_i t rest
      split
      · split
        · simp [synErr]
        · apply Res.Holds.bind (parseOrderBy_tot pf efuel lfuel _ _ (by simp) hl he)
          rintro ⟨o, ts'⟩ h1
          dsimp only at h1 ⊢
          split
          · simp [synErr]
          · exact ih _ ts' (by omega) (by omega) (by omega)
      · split
        · split
          · simp [synErr]
          · apply Res.Holds.bind (parseGroupBy_tot pf efuel lfuel _ _ (by simp) hl he)
            rintro ⟨⟨gpos, gfields, tbl'⟩, ts'⟩ h1
            dsimp only at h1 ⊢
            split
            · simp [synErr]
            · exact ih _ ts' (by omega) (by omega) (by omega)
        · split
          · split
            · simp [synErr]
            · apply Res.Holds.bind (parseLimit_tot lfuel _ (by simp) hl).toS
              rintro ⟨l, ts'⟩ h1
              dsimp only at h1 ⊢
              split
              · simp [synErr]
              · exact ih _ [] (by lomega) (by lomega) (by lomega)
          · simp [synErr]

theorem checkAggrFuncArg_safe : ∀ e : Expr, Safe (checkAggrFuncArg e) := by
  intro e
  induction e using Expr.rec (motive_2 := fun _ => True) with
  | binop p o l r ihl ihr =>
    unfold checkAggrFuncArg
    exact Safe.bind ihl (fun _ => ihr)
  | call p n args _ _ =>
    unfold checkAggrFuncArg
    split
    · split <;> simp [synErr]
    · simp
  | nil => trivial
  | cons _ _ _ _ => trivial
  | _ => unfold checkAggrFuncArg; simp

theorem checkAggrFuncArgs_safe : ∀ es : List Expr, Safe (checkAggrFuncArgs es) := by
  intro es
  induction es with
  | nil => simp [checkAggrFuncArgs]
  | cons a rest ih =>
    unfold checkAggrFuncArgs
    exact Safe.bind (checkAggrFuncArg_safe a) (fun _ => ih)

theorem checkAggrFunctionArgs_safe : ∀ e : Expr, Safe (checkAggrFunctionArgs e) := by
  intro e
  induction e using Expr.rec (motive_2 := fun _ => True) with
  | binop p o l r ihl ihr =>
    unfold checkAggrFunctionArgs
    exact Safe.bind ihl (fun _ => ihr)
  | call p n args _ _ =>
    unfold checkAggrFunctionArgs
    split
    · split
      · exact checkAggrFuncArgs_safe _
      · simp
    · simp
  | nil => trivial
  | cons _ _ _ _ => trivial
  | _ => unfold checkAggrFunctionArgs; simp

theorem validateFields_safe : ∀ (n i : Nat) (tbl : Tbl), Safe (validateFields n i tbl) := by
  intro n
  induction n with
  | zero => intro i tbl; simp [validateFields]
  | succ m ih =>
    intro i tbl
    unfold validateFields
    split
    · simp
    · apply Safe.bind (check_safe _ _); intro _
      apply Safe.bind (checkAggrFunctionArgs_safe _); intro _
      exact ih _ _

theorem rewriteFieldNames_safe : ∀ (n i : Nat) (tbl : Tbl) (tys : List Nat), Safe (rewriteFieldNames n i tbl tys) := by
  intro n
  induction n with
  | zero => intro i tbl tys; simp [rewriteFieldNames]
  | succ m ih =>
    intro i tbl tys
    unfold rewriteFieldNames
    split
    · simp
    · split
      · split
        · split
          · exact ih _ _ _
          · apply Safe.bind (rewrite_safe _ _); intro _
            apply Safe.bind (rt_safe _ _); intro _
            exact ih _ _ _
        · exact ih _ _ _
      · exact ih _ _ _

theorem refreshTypes_safe (tbl : Tbl) : ∀ (tys : List Nat) (i : Nat), Safe (refreshTypes tbl i tys) := by
  intro tys
  induction tys with
  | nil => intro i; simp [refreshTypes]
  | cons t ts ih =>
    intro i
    unfold refreshTypes
    apply Safe.bind
    · split
      · exact rt_safe _ _
      · simp
    · intro _
      apply Safe.bind (ih _); intro _
      simp

theorem parseWhere_tot (efuel lfuel spos : Nat) (sel : SelAcc) (wpos : Nat) (ts : Toks)
    (h : ts.length + 1 ≤ lfuel) (he : 8 * ts.length + 4 ≤ efuel) :
    Safe (parseWhere pf efuel lfuel spos sel wpos ts) := by
  unfold parseWhere
  split
  · simp [eofErr]
  · rename_i t rest
    apply Res.Holds.bind (parseExpr_tot pf efuel _ he).toS
    rintro ⟨e, ts1⟩ h1
    dsimp only at h1 ⊢
    apply Safe.bind (rewriteFieldNames_safe _ _ _ _)
    rintro ⟨tbl1, tys1⟩
    dsimp only
    apply Safe.bind (clauseLoop_tot pf efuel lfuel lfuel _ ts1 (by lomega) (by lomega) (by lomega))
    intro c
    apply Safe.bind (validateFields_safe _ _ _); intro _
    apply Safe.bind (validateFields_safe _ _ _); intro _
    apply Safe.bind (refreshTypes_safe _ _ _); intro _
    apply Safe.bind (check_safe _ _); intro _
    apply Safe.bind (rt_safe _ _); intro _
    split
    · simp [synErr]
    · simp

/-- `Parse` is total: with the fuel it gives itself it never returns `outOfFuel`, and the only
    `panic` site it can name is the cyclic-alias recursion of `ReturnType` (never a nil token) -/
theorem parse_safe (toks : Toks) : Safe (Parse pf toks) := by
  unfold Parse
  dsimp only
  generalize trimEndSemis toks = ts
  split
  · simp [eofErr]
  · rename_i t rest
    have hl : (t :: rest).length + 1 ≤ loopFuel (t :: rest) := by simp [loopFuel]
    have he : 8 * (t :: rest).length + 4 ≤ exprFuel (t :: rest) := by simp [exprFuel]
    split
    · exact parsePut_tot pf _ _ _ (by simp) hl he
    · split
      · exact parseRemove_tot pf _ _ _ (by simp) hl he
      · split
        · exact parseDelete_tot pf _ _ _ (by simp) hl he
        · split
          · apply Res.Holds.bind (parseSelect_tot pf _ _ _ (by simp) hl he).toS
            rintro ⟨⟨spos, sel⟩, ts1⟩ h1
            dsimp only at h1 ⊢
            split
            · simp [eofErr]
            · rename_i wt ts'
              exact parseWhere_tot pf _ _ _ _ _ ts' (by lomega) (by lomega)
          · split
            · exact parseWhere_tot pf _ _ _ _ _ rest (by lomega) (by lomega)
            · simp [synErr]

end Kvql.Proofs.ParserTotal
