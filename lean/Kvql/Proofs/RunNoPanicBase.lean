/-
  RunNoPanic, shared vocabulary (definitions only; the lemmas are in RunNoPanic*.lean).

  * the ALIAS GRAPH of a select-field table: field `a` refers to field `b` (`Edge`), reachability
    (`Reach`), a strictly decreasing rank along the edges (`Ranked`, `Acyclic`) — the invariant behind
    the sufficiency of `rtFuel` and the absence of the cycle marker in resolved trees;
  * `numsOK`: every integer literal of a tree is non-negative (what the lexer and the parser
    guarantee; with `noCyc` it gives the hypothesis `Expr.wf` of the evaluators' totality theorems);
  * `TGood`: the invariant of the select-field table all through `Parse`;
  * `Fail.bad`: the outcomes of `Run.runQuery` the no-panic theorem excludes.
-/
import Kvql.Model.Run
import Kvql.Proofs.TypingAliasTable
import Kvql.Proofs.ExecTotal

namespace Kvql.Proofs.RunNoPanic

open Kvql Kvql.Parser Kvql.Proofs.Typing

/-! ### the alias graph of a table -/

/-- field `a` of the table refers (anywhere in its tree, copies excluded) to field `b` -/
def Edge (tbl : Tbl) (a b : Nat) : Prop := ∃ nm e, tbl[a]? = some (nm, e) ∧ b ∈ e.refIdx tbl

/-- reflexive-transitive closure of `Edge` -/
inductive Reach (tbl : Tbl) : Nat → Nat → Prop
  | refl (a : Nat) : Reach tbl a a
  | step {a b c : Nat} : Edge tbl a b → Reach tbl b c → Reach tbl a c

/-- `rank` decreases strictly along every alias reference -/
def Ranked (tbl : Tbl) (rank : Nat → Nat) : Prop := ∀ a b, Edge tbl a b → rank b < rank a

/-- no field refers to itself through any chain of alias references -/
def Acyclic (tbl : Tbl) : Prop := ∃ rank, Ranked tbl rank

/-! ### non-negative integer literals -/

mutual
  /-- every integer literal of the tree (copies of alias targets included) is non-negative -/
  def numsOK : Expr → Bool
    | .num _ _ v => decide (0 ≤ v.toInt)
    | .binop _ _ l r => numsOK l && numsOK r
    | .not _ r => numsOK r
    | .call _ n args => numsOK n && numsOKList args
    | .ref _ _ t => numsOK t
    | .list _ items => numsOKList items
    | .access _ l f => numsOK l && numsOK f
    | _ => true
  def numsOKList : List Expr → Bool
    | [] => true
    | e :: es => numsOK e && numsOKList es
end

/-- a tree the front end may hold: no cycle marker, no negative literal -/
def Clean (e : Expr) : Prop := noCyc e = true ∧ numsOK e = true

/-- the NUMBER tokens of a token list have non-negative values (true of `Lexer.split`) -/
def NumToksOK (toks : Toks) : Prop :=
  ∀ t ∈ toks, t.tp = Generated.tkNUMBER → 0 ≤ (parseInt? t.data).getD 0

/-! ### the invariant of the select-field table during `Parse` -/

/-- every reference of every entry names a field; no cycle marker and no negative literal in any
    entry; the alias graph is acyclic -/
structure TGood (tbl : Tbl) : Prop where
  found : ∀ (j : Nat) (nm : Bytes) (f : Expr), tbl[j]? = some (nm, f) → Found tbl f = true
  clean : ∀ (j : Nat) (nm : Bytes) (f : Expr), tbl[j]? = some (nm, f) → Clean f
  acyclic : Acyclic tbl

/-- an expression the checker may be asked about in the context of `tbl` -/
def EGood (tbl : Tbl) (e : Expr) : Prop := Found tbl e = true ∧ Clean e

/-! ### outcomes -/

open Kvql.Run in
/-- the outcomes the no-panic theorem excludes: a Go panic, unbounded recursion, a disagreement of
    the component models -/
def bad : Run.Fail → Bool
  | .panic _ => true
  | .fuel => true
  | .glue _ => true
  | _ => false

open Kvql.Run in
/-- an error VALUE: what the library returns as `error` -/
def isErrorValue : Run.Fail → Bool
  | .plan _ => true
  | .exec _ => true
  | _ => false

open Kvql.Run in
/-- an evaluation failure reported as an error value, or a failure of the storage machine (which the
    plan layer without fault injection never produces: `run_no_storage_error`) -/
def mild : Run.Fail → Bool
  | .exec _ => true
  | .storageExec _ => true
  | .storagePlan _ => true
  | _ => false

theorem not_bad_of_mild {f : Run.Fail} (h : mild f = true) : bad f = false := by
  cases f <;> simp_all [mild, bad]

/-- the projection / scan errors that are error values -/
def okErr (e : Project.PErr) : Prop := bad (Run.perrFail e) = false

end Kvql.Proofs.RunNoPanic
