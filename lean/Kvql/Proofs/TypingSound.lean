/-
  C14 (a): the engine's checker is SOUND for the README typing `kindOf`.

  `check_sound`: if `CheckCtx.check ctx e = ok e'`, every call of `e'` passes the plan-time
  function validation, and `e'` satisfies the side condition `sideOk` (the places where the engine's
  rules are knowingly laxer than the README: dynamically typed field access, arguments of
  functions, elements of list-valued calls, bare names), then `kindOf e' = some k` with
  `k.code = e'.retType`, and the checker's own type of `e'` is that code.
-/
import Kvql.Proofs.TypingBasics

namespace Kvql.Proofs.Typing

open Kvql Kvql.Generated Kvql.PlanCheck

/-! ### the side condition -/

def isScalarTy (t : Nat) : Bool := t == tyTSTR || t == tyTNUMBER || t == tyTBOOL

/-- the argument types (static `ReturnType()` codes) the README documents for each function body;
    the engine itself accepts arguments of any type and converts them -/
def argTypesOk : Body → List Nat → Bool
  | .lower, [t] | .upper, [t] | .json, [t] => t == tyTSTR
  | .toInt, [t] | .toFloat, [t] | .toStr, [t] | .strlen, [t] | .isInt, [t] | .isFloat, [t] => isScalarTy t
  | .subStr, [t0, t1, t2] => t0 == tyTSTR && t1 == tyTNUMBER && t2 == tyTNUMBER
  | .split, [t0, t1] => t0 == tyTSTR && t1 == tyTSTR
  | .join, t0 :: rest => t0 == tyTSTR && rest.all isScalarTy
  | .len, [t] => t == tyTLIST || t == tyTSTR
  | .cosine, [t0, t1] | .l2, [t0, t1] => t0 == tyTLIST && t1 == tyTLIST
  | .toList, t :: rest | .intList, t :: rest | .floatList, t :: rest => isScalarTy t && rest.all isScalarTy
  | _, _ => false

/-- the body of the scalar function a callee names -/
def bodyOf : Expr → Option Body
  | .name _ d => (lookupFunc (toLower d)).bind (·.body)
  | _ => none

/-- `x in <list-valued call or alias>`: the engine knows one list type; the README typing wants the
    elements to be of the kind of `x` -/
def inElemOk (l r : Expr) : Bool :=
  (kindOf l == some .text && kindOf r == some .listText) || (kindOf l == some .num && kindOf r == some .listNum)

mutual
  /-- where the engine's rules are laxer than the README typing, the tree stays on the README side -/
  def sideOk : Expr → Bool
    | .str .. | .field .. | .num .. | .float .. | .bool .. => true
    | .ref .. => true                       -- typed through the select field it names (`TblSound`)
    | .name .. => false                     -- a name that is no alias: evaluated as its own text
    | .cycle => false
    | .list .. => false                     -- lists only stand to the right of `in` / `between`
    | .access .. => false                   -- dynamically typed field access (exempt in C14)
    | .not _ r => sideOk r
    | .call _ nm args =>
      (match bodyOf nm with
       | some b => argTypesOk b (retTypes args)
       | none => false) && sideOkList args
    | .binop _ op l r =>
      match op, r with
      | .in_, .list _ items => sideOk l && sideOkList items
      | .in_, r => sideOk l && sideOk r && inElemOk l r
      | .between, .list _ items => sideOk l && sideOkList items
      | _, r => sideOk l && sideOk r
  def sideOkList : List Expr → Bool
    | [] => true
    | e :: es => sideOk e && sideOkList es
  /-- the static types of a list of arguments -/
  def retTypes : List Expr → List Nat
    | [] => []
    | e :: es => e.retType :: retTypes es
end

/-- every call passes the plan-time validation as a scalar call -/
def callsOk (e : Expr) : Prop := walkCalls false e = .ok ()

/-- no alias reference (what the parser produces) -/
def refFree : Expr → Bool
  | .binop _ _ l r => refFree l && refFree r
  | .not _ r => refFree r
  | .call _ n args => refFree n && refFreeList args
  | .ref .. => false
  | .list _ items => refFreeList items
  | .access _ l f => refFree l && refFree f
  | _ => true
where refFreeList : List Expr → Bool
  | [] => true
  | e :: es => refFree e && refFreeList es

/-! ### soundness of a node -/

/-- `e` is well-kinded, its kind is its static type, and the checker computes that type -/
def Sound (ctx : CheckCtx) (e : Expr) : Prop :=
  ∃ k, kindOf e = some k ∧ k.code = e.retType ∧ ctx.rt e = .ok k.code

/-- the select fields alias references can point at are sound -/
def TblSound (ctx : CheckCtx) : Prop :=
  ∀ d j tgt, ctx.tbl.find d = some (j, tgt) → Sound ctx tgt

theorem tblSound_nil (ctx : CheckCtx) (h : ctx.tbl = []) : TblSound ctx := by
  intro d j tgt hf
  rw [h] at hf
  simp [Tbl.find, Tbl.find.go] at hf

theorem Sound.rt_eq {ctx : CheckCtx} {e : Expr} (h : Sound ctx e) : ctx.rt e = .ok e.retType := by
  obtain ⟨k, _, hc, hr⟩ := h
  rw [← hc]; exact hr

theorem sound_ref {ctx : CheckCtx} (ht : TblSound ctx) {p : Nat} {d : Bytes} {j : Nat} {tgt : Expr}
    (hf : ctx.tbl.find d = some (j, tgt)) : Sound ctx (.ref p d tgt) := by
  obtain ⟨k, hk, hc, hr⟩ := ht d j tgt hf
  refine ⟨k, ?_, ?_, rt_ref ctx p d hf hr⟩
  · simpa [kindOf] using hk
  · simpa [Expr.retType] using hc

/-! ### inversion of the engine's rules -/

theorem rewrite_cases {ctx : CheckCtx} {x y : Expr} (h : ctx.rewrite x = .ok y) :
    y = x ∨ ∃ p d j tgt, x = .name p d ∧ ctx.tbl.find d = some (j, tgt) ∧ y = .ref p d tgt := by
  unfold CheckCtx.rewrite at h
  split at h
  · rename_i p d
    split at h
    · rename_i j tgt hf
      split at h
      · cases h
      · cases h; exact .inr ⟨p, d, j, tgt, rfl, hf, rfl⟩
    · cases h; exact .inl rfl
  · cases h; exact .inl rfl

theorem checkAndOrSide_ok {ctx : CheckCtx} {e : Expr} (h : ctx.checkAndOrSide e = .ok ()) :
    ctx.rt e = .ok tyTBOOL := by
  unfold CheckCtx.checkAndOrSide at h
  split at h
  · obtain ⟨t, ht, h2⟩ := bind_ok_iff.mp h
    split at h2
    · cases h2
    · rename_i hne
      simp only [bne_iff_ne, ne_eq, Decidable.not_not] at hne
      rw [ht, hne]
  · cases h

theorem mathSide_ok {ctx : CheckCtx} {e : Expr} {b : Bool} (h : ctx.mathSide e = .ok b) :
    ctx.rt e = .ok (if b then tyTSTR else tyTNUMBER) := by
  have aux : ∀ (x : Expr), (do
      let t ← ctx.rt x
      if t != tyTNUMBER then (if t == tyTSTR then pure true else synErr x.pos) else pure false : Res Bool) = .ok b →
      ctx.rt x = .ok (if b then tyTSTR else tyTNUMBER) := by
    intro x hx
    obtain ⟨t, ht, h2⟩ := bind_ok_iff.mp hx
    split at h2
    · split at h2
      · rename_i _ he
        cases h2
        simp only [beq_iff_eq] at he
        simp [ht, he]
      · cases h2
    · rename_i hne
      cases h2
      simp only [bne_iff_ne, ne_eq, Decidable.not_not] at hne
      simp [ht, hne]
  unfold CheckCtx.mathSide at h
  split at h
  · exact aux _ h
  · exact aux _ h
  · exact aux _ h
  · exact aux _ h
  · exact aux _ h
  · cases h; exact rt_selfTyped ctx (e := .str _ _) rfl
  · cases h; exact rt_selfTyped ctx (e := .field _ _) rfl
  · cases h; exact rt_selfTyped ctx (e := .access _ _ _) rfl
  · cases h

theorem checkWithMath_ok {ctx : CheckCtx} {op : Op} {l r : Expr} (h : ctx.checkWithMath op l r = .ok ()) :
    (op = .add ∧ ctx.rt l = .ok tyTSTR ∧ ctx.rt r = .ok tyTSTR) ∨
    (ctx.rt l = .ok tyTNUMBER ∧ ctx.rt r = .ok tyTNUMBER) := by
  unfold CheckCtx.checkWithMath at h
  obtain ⟨bl, hl, h⟩ := bind_ok_iff.mp h
  obtain ⟨br, hr, h⟩ := bind_ok_iff.mp h
  obtain ⟨u, h1, _⟩ := bind_ok_iff.mp h
  have hl' := mathSide_ok hl
  have hr' := mathSide_ok hr
  cases bl <;> cases br <;> cases op <;> simp [synErr] at h1 <;> simp_all

theorem checkWithCompares_ok {ctx : CheckCtx} {pos : Nat} {op : Op} {l r : Expr}
    (h : ctx.checkWithCompares pos op l r = .ok ()) :
    ∃ t, ctx.rt l = .ok t ∧ ctx.rt r = .ok t ∧
      ((op = .eq ∨ op = .neq) → (t = tyTNUMBER ∨ t = tyTSTR ∨ t = tyTBOOL)) ∧
      ((op = .gt ∨ op = .gte ∨ op = .lt ∨ op = .lte) → (t = tyTNUMBER ∨ t = tyTSTR)) ∧
      ((op = .prefixMatch ∨ op = .regexMatch) → t = tyTSTR) := by
  unfold CheckCtx.checkWithCompares at h
  obtain ⟨⟨lk, lv⟩, _, h⟩ := bind_ok_iff.mp h
  obtain ⟨⟨rk, rv⟩, _, h⟩ := bind_ok_iff.mp h
  dsimp only at h
  split at h
  · cases h
  · obtain ⟨lt, hlt, h⟩ := bind_ok_iff.mp h
    obtain ⟨rt, hrt, h⟩ := bind_ok_iff.mp h
    split at h
    · cases h
    · rename_i hne
      simp only [bne_iff_ne, ne_eq, Decidable.not_not] at hne
      subst hne
      refine ⟨lt, hlt, hrt, ?_, ?_, ?_⟩
      · intro ho
        rcases ho with rfl | rfl <;>
        · simp only at h
          split at h
          · cases h
          · rename_i hc
            by_cases h1 : lt = tyTNUMBER <;> by_cases h2 : lt = tyTSTR <;> by_cases h3 : lt = tyTBOOL <;> simp_all
      · intro ho
        rcases ho with rfl | rfl | rfl | rfl <;>
        · simp only at h
          split at h
          · cases h
          · rename_i hc
            by_cases h1 : lt = tyTNUMBER <;> by_cases h2 : lt = tyTSTR <;> simp_all
      · intro ho
        rcases ho with rfl | rfl <;>
        · simp only at h
          split at h
          · cases h
          · rename_i hc
            simpa using hc

theorem inItems_ok {ctx : CheckCtx} {t : Nat} : ∀ {items : List Expr}, ctx.inItems t items = .ok () →
    ∀ x ∈ items, ctx.rt x = .ok t
  | [], _, x, hx => by simp at hx
  | y :: ys, h, x, hx => by
    unfold CheckCtx.inItems at h
    obtain ⟨ty, hty, h⟩ := bind_ok_iff.mp h
    split at h
    · cases h
    · rename_i hne
      simp only [bne_iff_ne, ne_eq, Decidable.not_not] at hne
      rcases List.mem_cons.mp hx with rfl | hx'
      · rw [hty, hne]
      · exact inItems_ok h x hx'

theorem checkWithIn_ok {ctx : CheckCtx} {l r : Expr} (h : ctx.checkWithIn l r = .ok ()) :
    ∃ t, ctx.rt l = .ok t ∧ (t = tyTSTR ∨ t = tyTNUMBER) ∧
      ((∃ p items, r = .list p items ∧ ∀ x ∈ items, ctx.rt x = .ok t) ∨
       (((∃ p n a, r = .call p n a) ∨ (∃ p n tg, r = .ref p n tg)) ∧ ctx.rt r = .ok tyTLIST)) := by
  unfold CheckCtx.checkWithIn at h
  obtain ⟨t, ht, h⟩ := bind_ok_iff.mp h
  split at h
  · cases h
  · rename_i hc
    simp only [bne_iff_ne, ne_eq, Bool.and_eq_true, not_and, Decidable.not_not] at hc
    have htt : t = tyTSTR ∨ t = tyTNUMBER := by
      by_cases h1 : t = tyTSTR
      · exact .inl h1
      · exact .inr (hc h1)
    refine ⟨t, ht, htt, ?_⟩
    split at h
    · exact .inl ⟨_, _, rfl, inItems_ok h⟩
    · obtain ⟨t2, ht2, h⟩ := bind_ok_iff.mp h
      split at h
      · cases h
      · rename_i hne
        simp only [bne_iff_ne, ne_eq, Decidable.not_not] at hne
        exact .inr ⟨.inl ⟨_, _, _, rfl⟩, by rw [ht2, hne]⟩
    · obtain ⟨t2, ht2, h⟩ := bind_ok_iff.mp h
      split at h
      · cases h
      · rename_i hne
        simp only [bne_iff_ne, ne_eq, Decidable.not_not] at hne
        exact .inr ⟨.inr ⟨_, _, _, rfl⟩, by rw [ht2, hne]⟩
    · cases h

theorem checkWithBetween_ok {ctx : CheckCtx} {l r : Expr} (h : ctx.checkWithBetween l r = .ok ()) :
    ∃ t p lo hi, r = .list p [lo, hi] ∧ ctx.rt l = .ok t ∧ (t = tyTSTR ∨ t = tyTNUMBER) ∧
      ctx.rt lo = .ok t ∧ ctx.rt hi = .ok t := by
  unfold CheckCtx.checkWithBetween at h
  obtain ⟨t, ht, h⟩ := bind_ok_iff.mp h
  split at h
  · split at h
    · cases h
    · rename_i hc
      simp only [bne_iff_ne, ne_eq, Bool.and_eq_true, not_and, Decidable.not_not] at hc
      have htt : t = tyTSTR ∨ t = tyTNUMBER := by
        by_cases h1 : t = tyTSTR
        · exact .inl h1
        · exact .inr (hc h1)
      obtain ⟨t1, ht1, h⟩ := bind_ok_iff.mp h
      split at h
      · cases h
      · rename_i hne1
        simp only [bne_iff_ne, ne_eq, Decidable.not_not] at hne1
        obtain ⟨t2, ht2, h⟩ := bind_ok_iff.mp h
        split at h
        · cases h
        · rename_i hne2
          simp only [bne_iff_ne, ne_eq, Decidable.not_not] at hne2
          exact ⟨t, _, _, _, rfl, ht, htt, by rw [ht1, hne1], by rw [ht2, hne2]⟩
  · cases h

/-- well-kinded, and the kind is the static type -/
def Kinded (a : Expr) : Prop := ∃ k, kindOf a = some k ∧ k.code = a.retType

theorem Kinded.text {a : Expr} (h : Kinded a) (ht : a.retType = tyTSTR) : kindOf a = some .text := by
  obtain ⟨k, hk, hc⟩ := h
  rw [hk, kind_of_code_str (hc.trans ht)]

theorem Kinded.num {a : Expr} (h : Kinded a) (ht : a.retType = tyTNUMBER) : kindOf a = some .num := by
  obtain ⟨k, hk, hc⟩ := h
  rw [hk, kind_of_code_num (hc.trans ht)]

theorem Kinded.bool {a : Expr} (h : Kinded a) (ht : a.retType = tyTBOOL) : kindOf a = some .bool := by
  obtain ⟨k, hk, hc⟩ := h
  rw [hk, kind_of_code_bool (hc.trans ht)]

theorem Kinded.scalar {a : Expr} (h : Kinded a) (ht : isScalarTy a.retType = true) : isScalar (kindOf a) = true := by
  simp only [isScalarTy, Bool.or_eq_true, beq_iff_eq] at ht
  rcases ht with (ht | ht) | ht
  · simp [isScalar, h.text ht]
  · simp [isScalar, h.num ht]
  · simp [isScalar, h.bool ht]

theorem Kinded.list {a : Expr} (h : Kinded a) (ht : a.retType = tyTLIST) : isList (kindOf a) = true := by
  obtain ⟨k, hk, hc⟩ := h
  rcases kind_of_code_list (hc.trans ht) with rfl | rfl <;> simp [isList, hk]

theorem allScalar_of_types : ∀ (rest : List Expr), (∀ a ∈ rest, Kinded a) →
    (retTypes rest).all isScalarTy = true → allScalar rest = true
  | [], _, _ => by simp [allScalar]
  | a :: as, hk, ht => by
    simp only [retTypes, List.all_cons, Bool.and_eq_true] at ht
    simp only [allScalar, Bool.and_eq_true]
    exact ⟨(hk a (by simp)).scalar ht.1, allScalar_of_types as (fun x hx => hk x (by simp [hx])) ht.2⟩


theorem argsOk_of_types (b : Body) (args : List Expr) (hk : ∀ a ∈ args, Kinded a)
    (ht : argTypesOk b (retTypes args) = true) : argsOk b args = true := by
  cases b
  -- lower upper toInt toFloat toStr isInt isFloat subStr json split toList floatList intList len join strlen cosine l2
  case lower | upper | json =>
    rcases args with _ | ⟨a, _ | ⟨a1, r⟩⟩ <;> simp [argTypesOk, retTypes] at ht
    simp [argsOk, (hk a (by simp)).text ht]
  case toInt | toFloat | toStr | strlen | isInt | isFloat =>
    rcases args with _ | ⟨a, _ | ⟨a1, r⟩⟩ <;> simp [argTypesOk, retTypes] at ht
    simpa [argsOk] using (hk a (by simp)).scalar ht
  case subStr =>
    rcases args with _ | ⟨a0, _ | ⟨a1, _ | ⟨a2, _ | ⟨a3, r⟩⟩⟩⟩ <;> simp [argTypesOk, retTypes] at ht
    simp [argsOk, (hk a0 (by simp)).text ht.1.1, (hk a1 (by simp)).num ht.1.2, (hk a2 (by simp)).num ht.2]
  case split =>
    rcases args with _ | ⟨a0, _ | ⟨a1, _ | ⟨a2, r⟩⟩⟩ <;> simp [argTypesOk, retTypes] at ht
    simp [argsOk, (hk a0 (by simp)).text ht.1, (hk a1 (by simp)).text ht.2]
  case join =>
    rcases args with _ | ⟨a0, rest⟩ <;> simp only [argTypesOk, retTypes, Bool.and_eq_true, beq_iff_eq] at ht
    · simp at ht
    · simp only [argsOk, Bool.and_eq_true, beq_iff_eq]
      exact ⟨(hk a0 (by simp)).text ht.1, allScalar_of_types rest (fun x hx => hk x (by simp [hx])) ht.2⟩
  case len =>
    rcases args with _ | ⟨a, _ | ⟨a1, r⟩⟩ <;> simp [argTypesOk, retTypes] at ht
    rcases ht with ht | ht
    · simp [argsOk, (hk a (by simp)).list ht]
    · simp [argsOk, (hk a (by simp)).text ht]
  case cosine | l2 =>
    rcases args with _ | ⟨a0, _ | ⟨a1, _ | ⟨a2, r⟩⟩⟩ <;> simp [argTypesOk, retTypes] at ht
    simp [argsOk, (hk a0 (by simp)).list ht.1, (hk a1 (by simp)).list ht.2]
  case toList | intList | floatList =>
    rcases args with _ | ⟨a0, rest⟩ <;> simp only [argTypesOk, retTypes, Bool.and_eq_true] at ht
    · simp at ht
    · simp only [argsOk, Bool.and_eq_true]
      exact ⟨(hk a0 (by simp)).scalar ht.1, allScalar_of_types rest (fun x hx => hk x (by simp [hx])) ht.2⟩

/-! ### what the plan-time validation says about a call -/

theorem callsOk_binop {p : Nat} {op : Op} {l r : Expr} (h : callsOk (.binop p op l r)) : callsOk l ∧ callsOk r := by
  unfold callsOk at h ⊢
  simp only [walkCalls] at h
  obtain ⟨u, h1, h2⟩ := bind_ok_iff.mp h
  exact ⟨h1, h2⟩

theorem callsOk_not {p : Nat} {r : Expr} (h : callsOk (.not p r)) : callsOk r := by
  unfold callsOk at h ⊢
  simpa only [walkCalls] using h

theorem walkCallsList_ok : ∀ {xs : List Expr}, walkCallsList xs = .ok () → ∀ x ∈ xs, callsOk x
  | [], _, x, hx => by simp at hx
  | y :: ys, h, x, hx => by
    simp only [walkCallsList] at h
    obtain ⟨u, h1, h2⟩ := bind_ok_iff.mp h
    rcases List.mem_cons.mp hx with rfl | hx'
    · exact h1
    · exact walkCallsList_ok h2 x hx'

theorem callsOk_list {p : Nat} {items : List Expr} (h : callsOk (.list p items)) : ∀ x ∈ items, callsOk x := by
  unfold callsOk at h
  simp only [walkCalls] at h
  exact walkCallsList_ok h

theorem callsOk_call {p : Nat} {nm : Expr} {args : List Expr} (h : callsOk (.call p nm args)) :
    (∃ q d fo, nm = .name q d ∧ lookupFunc (toLower d) = some fo ∧
      ¬ (!fo.varArgs && args.length != fo.numArgs) = true ∧ ¬ (fo.varArgs && args.length < fo.numArgs) = true) ∧
    ∀ x ∈ args, callsOk x := by
  unfold callsOk at h
  simp only [walkCalls] at h
  obtain ⟨u, h1, h⟩ := bind_ok_iff.mp h
  obtain ⟨u', _, h3⟩ := bind_ok_iff.mp h
  refine ⟨?_, walkCallsList_ok h3⟩
  cases nm with
  | name q d =>
    simp only [callCheck] at h1
    cases hf : lookupFunc (toLower d) with
    | none => simp [findSig, scalarSig, hf, synErr] at h1
    | some fo =>
      simp only [findSig, scalarSig, hf, Option.map_some] at h1
      split at h1
      · rename_i ha
        simp only [arityOk, Bool.and_eq_true, Bool.not_eq_true'] at ha
        refine ⟨q, d, fo, rfl, hf, ?_, ?_⟩
        · simpa using ha.1
        · simpa using ha.2
      · cases h1
  | _ => simp [callCheck, synErr] at h1

theorem bodies_known : ∀ e ∈ funcTable, (FuncInfo.ofEntry e).body.isSome = true := by decide

theorem kind_call {p : Nat} {nm : Expr} {args : List Expr} (hc : callsOk (.call p nm args))
    (hs : sideOk (.call p nm args) = true) (hk : ∀ a ∈ args, Kinded a) : Kinded (.call p nm args) := by
  obtain ⟨⟨q, d, fo, rfl, hf, ha1, ha2⟩, _⟩ := callsOk_call hc
  simp only [sideOk, bodyOf, hf, Option.bind_some, Bool.and_eq_true] at hs
  cases hb : fo.body with
  | none => simp [hb] at hs
  | some b =>
    simp only [hb] at hs
    have hargs := argsOk_of_types b args hk hs.1
    have : kindOf (.call p (.name q d) args) = some b.res := by
      simp only [kindOf, funcNameOf, hf, hb, hargs, if_true]
      simp only [ha1, ha2]
      trivial
    refine ⟨b.res, this, ?_⟩
    rw [code_of_kind this]

/-! ### from a kind to soundness -/

theorem sound_of_kind {ctx : CheckCtx} {e : Expr} {k : Kind} (hk : kindOf e = some k) (hs : selfTyped e = true) :
    Sound ctx e :=
  ⟨k, hk, (code_of_kind hk).symm, by rw [← code_of_kind hk]; exact rt_selfTyped ctx hs⟩

theorem sound_add {ctx : CheckCtx} {p : Nat} {l r : Expr} {k : Kind} (hk : kindOf (.binop p .add l r) = some k)
    (hl : Sound ctx l) : Sound ctx (.binop p .add l r) := by
  refine ⟨k, hk, (code_of_kind hk).symm, ?_⟩
  rw [← code_of_kind hk]
  have := rt_add ctx p l r hl.rt_eq
  simpa [Expr.retType, Expr.opRetType] using this

theorem Sound.kind_of_rt {ctx : CheckCtx} {e : Expr} {t : Nat} (h : Sound ctx e) (ht : ctx.rt e = .ok t) :
    ∃ k, kindOf e = some k ∧ k.code = t := by
  obtain ⟨k, hk, _, hr⟩ := h
  rw [hr] at ht
  cases ht
  exact ⟨k, hk, rfl⟩

theorem Sound.kinded {ctx : CheckCtx} {e : Expr} (h : Sound ctx e) : Kinded e := by
  obtain ⟨k, hk, hc, _⟩ := h
  exact ⟨k, hk, hc⟩

theorem allKind_of {k : Kind} : ∀ {items : List Expr}, (∀ x ∈ items, kindOf x = some k) → allKind k items = true
  | [], _ => by simp [allKind]
  | y :: ys, h => by
    simp only [allKind, Bool.and_eq_true, beq_iff_eq]
    exact ⟨h y (by simp), allKind_of (fun x hx => h x (by simp [hx]))⟩

theorem sideOkList_mem : ∀ {xs : List Expr}, sideOkList xs = true → ∀ x ∈ xs, sideOk x = true
  | [], _, x, hx => by simp at hx
  | y :: ys, h, x, hx => by
    simp only [sideOkList, Bool.and_eq_true] at h
    rcases List.mem_cons.mp hx with rfl | hx'
    · exact h.1
    · exact sideOkList_mem h.2 x hx'

theorem refFreeList_mem : ∀ {xs : List Expr}, refFree.refFreeList xs = true → ∀ x ∈ xs, refFree x = true
  | [], _, x, hx => by simp at hx
  | y :: ys, h, x, hx => by
    simp only [refFree.refFreeList, Bool.and_eq_true] at h
    rcases List.mem_cons.mp hx with rfl | hx'
    · exact h.1
    · exact refFreeList_mem h.2 x hx'

/-- why the alias references of a tree are sound: the select fields of the context are, or the
    tree has none -/
def Just (ctx : CheckCtx) (e : Expr) : Prop := TblSound ctx ∨ refFree e = true

theorem Just.binop {ctx : CheckCtx} {p : Nat} {op : Op} {l r : Expr} (h : Just ctx (.binop p op l r)) :
    Just ctx l ∧ Just ctx r := by
  rcases h with h | h
  · exact ⟨.inl h, .inl h⟩
  · simp only [refFree, Bool.and_eq_true] at h
    exact ⟨.inr h.1, .inr h.2⟩

theorem Just.not {ctx : CheckCtx} {p : Nat} {r : Expr} (h : Just ctx (.not p r)) : Just ctx r := by
  rcases h with h | h
  · exact .inl h
  · simp only [refFree] at h; exact .inr h

theorem Just.args {ctx : CheckCtx} {p : Nat} {nm : Expr} {args : List Expr} (h : Just ctx (.call p nm args)) :
    ∀ a ∈ args, Just ctx a := by
  intro a ha
  rcases h with h | h
  · exact .inl h
  · simp only [refFree, Bool.and_eq_true] at h
    exact .inr (refFreeList_mem h.2 a ha)

theorem Just.items {ctx : CheckCtx} {p : Nat} {items : List Expr} (h : Just ctx (.list p items)) :
    ∀ a ∈ items, Just ctx a := by
  intro a ha
  rcases h with h | h
  · exact .inl h
  · simp only [refFree] at h
    exact .inr (refFreeList_mem h a ha)

/-- what soundness of an output of `check` means, also for a list (which has no kind itself) -/
def OutSound (ctx : CheckCtx) (e' : Expr) : Prop :=
  (sideOk e' = true → callsOk e' → Just ctx e' → Sound ctx e') ∧
  (∀ p items, e' = .list p items → ∀ x ∈ items, sideOk x = true → callsOk x → Just ctx x → Sound ctx x)

theorem outSound_rewrite {ctx : CheckCtx} {x y : Expr} (hx : OutSound ctx x)
    (h : ctx.rewrite x = .ok y) : OutSound ctx y := by
  rcases rewrite_cases h with rfl | ⟨p, d, j, tgt, _, hf, rfl⟩
  · exact hx
  · refine ⟨fun _ _ hj => ?_, fun _ _ hh => by cases hh⟩
    rcases hj with ht | hr
    · exact sound_ref ht hf
    · simp [refFree] at hr

theorem kind_code_eq_scalar {k1 k2 : Kind} {t : Nat} (h1 : k1.code = t) (h2 : k2.code = t)
    (ht : t = tyTNUMBER ∨ t = tyTSTR ∨ t = tyTBOOL) : k1 = k2 ∧ k1.scalar = true := by
  rcases ht with rfl | rfl | rfl
  · rw [kind_of_code_num h1, kind_of_code_num h2]; exact ⟨rfl, rfl⟩
  · rw [kind_of_code_str h1, kind_of_code_str h2]; exact ⟨rfl, rfl⟩
  · rw [kind_of_code_bool h1, kind_of_code_bool h2]; exact ⟨rfl, rfl⟩

/-! ### one binary node -/

theorem logic_sound {ctx : CheckCtx} {pos : Nat} {op : Op} {l r : Expr}
    (hop : op = .and ∨ op = .or ∨ op = .kwAnd ∨ op = .kwOr)
    (hl : Sound ctx l) (hr : Sound ctx r) (h : ctx.checkWithAndOr l r = .ok ()) :
    Sound ctx (.binop pos op l r) := by
  unfold CheckCtx.checkWithAndOr at h
  obtain ⟨u, h1, h2⟩ := bind_ok_iff.mp h
  obtain ⟨kl, hkl, hcl⟩ := hl.kind_of_rt (checkAndOrSide_ok h1)
  obtain ⟨kr, hkr, hcr⟩ := hr.kind_of_rt (checkAndOrSide_ok h2)
  rw [kind_of_code_bool hcl] at hkl
  rw [kind_of_code_bool hcr] at hkr
  rcases hop with rfl | rfl | rfl | rfl <;>
    exact sound_of_kind (k := .bool) (by simp [kindOf, hkl, hkr]) rfl

theorem math_sound {ctx : CheckCtx} {pos : Nat} {op : Op} {l r : Expr}
    (hop : op = .add ∨ op = .sub ∨ op = .mul ∨ op = .div)
    (hl : Sound ctx l) (hr : Sound ctx r) (h : ctx.checkWithMath op l r = .ok ()) :
    Sound ctx (.binop pos op l r) := by
  rcases checkWithMath_ok h with ⟨rfl, h1, h2⟩ | ⟨h1, h2⟩
  · obtain ⟨kl, hkl, hcl⟩ := hl.kind_of_rt h1
    obtain ⟨kr, hkr, hcr⟩ := hr.kind_of_rt h2
    rw [kind_of_code_str hcl] at hkl
    rw [kind_of_code_str hcr] at hkr
    exact sound_add (k := .text) (by simp [kindOf, hkl, hkr]) hl
  · obtain ⟨kl, hkl, hcl⟩ := hl.kind_of_rt h1
    obtain ⟨kr, hkr, hcr⟩ := hr.kind_of_rt h2
    rw [kind_of_code_num hcl] at hkl
    rw [kind_of_code_num hcr] at hkr
    rcases hop with rfl | rfl | rfl | rfl
    · exact sound_add (k := .num) (by simp [kindOf, hkl, hkr]) hl
    all_goals exact sound_of_kind (k := .num) (by simp [kindOf, hkl, hkr]) rfl

theorem compare_sound {ctx : CheckCtx} {pos : Nat} {op : Op} {l r : Expr}
    (hop : op = .eq ∨ op = .neq ∨ op = .gt ∨ op = .gte ∨ op = .lt ∨ op = .lte ∨ op = .prefixMatch ∨ op = .regexMatch)
    (hl : Sound ctx l) (hr : Sound ctx r) (h : ctx.checkWithCompares pos op l r = .ok ()) :
    Sound ctx (.binop pos op l r) := by
  obtain ⟨t, h1, h2, he, hg, hp⟩ := checkWithCompares_ok h
  obtain ⟨kl, hkl, hcl⟩ := hl.kind_of_rt h1
  obtain ⟨kr, hkr, hcr⟩ := hr.kind_of_rt h2
  rcases hop with rfl | rfl | rfl | rfl | rfl | rfl | rfl | rfl
  · obtain ⟨rfl, hsc⟩ := kind_code_eq_scalar hcl hcr (he (.inl rfl))
    refine sound_of_kind (k := .bool) ?_ rfl
    cases kl <;> simp [Kind.scalar] at hsc <;> simp [kindOf, hkl, hkr, isScalar]
  · obtain ⟨rfl, hsc⟩ := kind_code_eq_scalar hcl hcr (he (.inr rfl))
    refine sound_of_kind (k := .bool) ?_ rfl
    cases kl <;> simp [Kind.scalar] at hsc <;> simp [kindOf, hkl, hkr, isScalar]
  case' inr.inr.inl | inr.inr.inr.inl | inr.inr.inr.inr.inl | inr.inr.inr.inr.inr.inl =>
    have hh : t = tyTNUMBER ∨ t = tyTSTR := hg (by decide)
    rcases hh with rfl | rfl
    · rw [kind_of_code_num hcl] at hkl; rw [kind_of_code_num hcr] at hkr
      exact sound_of_kind (k := .bool) (by simp [kindOf, hkl, hkr]) rfl
    · rw [kind_of_code_str hcl] at hkl; rw [kind_of_code_str hcr] at hkr
      exact sound_of_kind (k := .bool) (by simp [kindOf, hkl, hkr]) rfl
  all_goals
    have hh : t = tyTSTR := hp (by decide)
    subst hh
    rw [kind_of_code_str hcl] at hkl; rw [kind_of_code_str hcr] at hkr
    exact sound_of_kind (k := .bool) (by simp [kindOf, hkl, hkr]) rfl

theorem kind_text_or_num {k : Kind} {t : Nat} (hc : k.code = t) (ht : t = tyTSTR ∨ t = tyTNUMBER) :
    k = .text ∨ k = .num := by
  rcases ht with rfl | rfl
  · exact .inl (kind_of_code_str hc)
  · exact .inr (kind_of_code_num hc)

theorem in_sound {ctx : CheckCtx} {pos : Nat} {l r : Expr}
    (hl : Sound ctx l) (hr : OutSound ctx r) (h : ctx.checkWithIn l r = .ok ())
    (hs : sideOk (.binop pos .in_ l r) = true) (hc : callsOk r) (hj : Just ctx r) :
    Sound ctx (.binop pos .in_ l r) := by
  obtain ⟨t, h1, htt, hcase⟩ := checkWithIn_ok h
  obtain ⟨kl, hkl, hcl⟩ := hl.kind_of_rt h1
  rcases hcase with ⟨q, items, rfl, hit⟩ | ⟨hshape, hrl⟩
  · -- a literal list: every item has the static type of the left operand
    simp only [sideOk, Bool.and_eq_true] at hs
    have hitems : ∀ x ∈ items, kindOf x = some kl := by
      intro x hx
      have hsx := hr.2 q items rfl x hx (sideOkList_mem hs.2 x hx) (callsOk_list hc x hx) (hj.items x hx)
      obtain ⟨kx, hkx, hcx⟩ := hsx.kind_of_rt (hit x hx)
      have : kx = kl := by
        rcases htt with rfl | rfl
        · rw [kind_of_code_str hcx, kind_of_code_str hcl]
        · rw [kind_of_code_num hcx, kind_of_code_num hcl]
      rw [hkx, this]
    refine sound_of_kind (k := .bool) ?_ rfl
    rcases kind_text_or_num hcl htt with rfl | rfl
    · simp [kindOf, hkl, allKind_of hitems]
    · simp [kindOf, hkl, allKind_of hitems]
  · -- a list-valued call or alias
    have hs' : sideOk l = true ∧ sideOk r = true ∧ inElemOk l r = true := by
      rcases hshape with ⟨q, n, a, rfl⟩ | ⟨q, n, tg, rfl⟩ <;>
        simpa only [sideOk, Bool.and_eq_true, and_assoc] using hs
    have he := hs'.2.2
    refine sound_of_kind (k := .bool) ?_ rfl
    simp only [inElemOk, Bool.or_eq_true, Bool.and_eq_true, beq_iff_eq] at he
    rcases hshape with ⟨q, n, a, rfl⟩ | ⟨q, n, tg, rfl⟩ <;>
      rcases he with ⟨e1, e2⟩ | ⟨e1, e2⟩ <;> (rw [kindOf]; simp [e1, e2])

theorem between_sound {ctx : CheckCtx} {pos : Nat} {l r : Expr}
    (hl : Sound ctx l) (hr : OutSound ctx r) (h : ctx.checkWithBetween l r = .ok ())
    (hs : sideOk (.binop pos .between l r) = true) (hc : callsOk r) (hj : Just ctx r) :
    Sound ctx (.binop pos .between l r) := by
  obtain ⟨t, q, lo, hi, rfl, h1, htt, hlo, hhi⟩ := checkWithBetween_ok h
  obtain ⟨kl, hkl, hcl⟩ := hl.kind_of_rt h1
  simp only [sideOk, Bool.and_eq_true] at hs
  have hbound : ∀ x ∈ [lo, hi], ctx.rt x = .ok t → kindOf x = some kl := by
    intro x hx hrx
    have hsx := hr.2 q [lo, hi] rfl x hx (sideOkList_mem hs.2 x hx) (callsOk_list hc x hx) (hj.items x hx)
    obtain ⟨kx, hkx, hcx⟩ := hsx.kind_of_rt hrx
    have : kx = kl := by
      rcases htt with rfl | rfl
      · rw [kind_of_code_str hcx, kind_of_code_str hcl]
      · rw [kind_of_code_num hcx, kind_of_code_num hcl]
    rw [hkx, this]
  have klo := hbound lo (by simp) hlo
  have khi := hbound hi (by simp) hhi
  refine sound_of_kind (k := .bool) ?_ rfl
  rcases kind_text_or_num hcl htt with rfl | rfl <;> simp [kindOf, hkl, klo, khi]

theorem binop_out {ctx : CheckCtx} {pos : Nat} {op : Op} {l r : Expr}
    (hl : OutSound ctx l) (hr : OutSound ctx r) (hop : ctx.checkOp pos op l r = .ok ()) :
    OutSound ctx (.binop pos op l r) := by
  refine ⟨fun hs hc hj => ?_, fun _ _ hh => by cases hh⟩
  obtain ⟨hcl, hcr⟩ := callsOk_binop hc
  obtain ⟨hjl, hjr⟩ := hj.binop
  cases op
  case in_ =>
    have hsl : sideOk l = true := by
      cases r <;> simp only [sideOk, Bool.and_eq_true] at hs <;> first | exact hs.1 | exact hs.1.1
    exact in_sound (hl.1 hsl hcl hjl) hr (by simpa only [CheckCtx.checkOp] using hop) hs hcr hjr
  case between =>
    have hsl : sideOk l = true := by
      cases r <;> simp only [sideOk, Bool.and_eq_true] at hs <;> exact hs.1
    exact between_sound (hl.1 hsl hcl hjl) hr (by simpa only [CheckCtx.checkOp] using hop) hs hcr hjr
  case not => simp [CheckCtx.checkOp, synErr] at hop
  all_goals
    simp only [sideOk, Bool.and_eq_true] at hs
    simp only [CheckCtx.checkOp] at hop
    have sl := hl.1 hs.1 hcl hjl
    have sr := hr.1 hs.2 hcr hjr
    first
      | exact logic_sound (by simp) sl sr hop
      | exact math_sound (by simp) sl sr hop
      | exact compare_sound (by simp) sl sr hop

theorem outSound_leaf {ctx : CheckCtx} {e : Expr} {k : Kind} (hk : kindOf e = some k) (hs : selfTyped e = true)
    (hl : ∀ p items, e ≠ .list p items) : OutSound ctx e :=
  ⟨fun _ _ _ => sound_of_kind hk hs, fun p items hh => absurd hh (hl p items)⟩

theorem outSound_vacuous {ctx : CheckCtx} {e : Expr} (hs : sideOk e = false) (hl : ∀ p items, e ≠ .list p items) :
    OutSound ctx e :=
  ⟨fun h _ _ => (by rw [hs] at h; cases h), fun p items hh => absurd hh (hl p items)⟩

/-! ### the checker, node by node -/

mutual
  theorem check_out (ctx : CheckCtx) : ∀ (e : Expr), refFree e = true →
      ∀ e', ctx.check e = .ok e' → OutSound ctx e'
    | .binop pos op l r, hrf, e', h => by
      simp only [refFree, Bool.and_eq_true] at hrf
      simp only [CheckCtx.check] at h
      obtain ⟨l1, hl1, h⟩ := bind_ok_iff.mp h
      obtain ⟨r1, hr1, h⟩ := bind_ok_iff.mp h
      obtain ⟨l2, hl2, h⟩ := bind_ok_iff.mp h
      obtain ⟨r2, hr2, h⟩ := bind_ok_iff.mp h
      obtain ⟨u, hop, h⟩ := bind_ok_iff.mp h
      cases h
      exact binop_out (outSound_rewrite (check_out ctx l hrf.1 l1 hl1) hl2)
        (outSound_rewrite (check_out ctx r hrf.2 r1 hr1) hr2) hop
    | .field pos kw, _, e', h => by
      simp only [CheckCtx.check] at h
      split at h
      · cases h
      · split at h
        · cases h
        · cases h
          exact outSound_leaf (k := .text) (by simp [kindOf]) rfl (by intro _ _ hh; cases hh)
    | .not pos r, hrf, e', h => by
      simp only [refFree] at hrf
      simp only [CheckCtx.check] at h
      obtain ⟨r', hr', h⟩ := bind_ok_iff.mp h
      obtain ⟨t, hrt, h⟩ := bind_ok_iff.mp h
      split at h
      · cases h
      · rename_i hne
        simp only [bne_iff_ne, ne_eq, Decidable.not_not] at hne
        cases h
        refine ⟨fun hs hc hj => ?_, fun _ _ hh => by cases hh⟩
        simp only [sideOk] at hs
        have sr := (check_out ctx r hrf r' hr').1 hs (callsOk_not hc) hj.not
        obtain ⟨k, hk, hkc⟩ := sr.kind_of_rt hrt
        rw [hne] at hkc
        rw [kind_of_code_bool hkc] at hk
        exact sound_of_kind (k := .bool) (by simp [kindOf, hk]) rfl
    | .call pos nm args, hrf, e', h => by
      simp only [refFree, Bool.and_eq_true] at hrf
      simp only [CheckCtx.check] at h
      split at h
      · obtain ⟨args', ha, h⟩ := bind_ok_iff.mp h
        cases h
        refine ⟨fun hs hc hj => ?_, fun _ _ hh => by cases hh⟩
        have hargs := checkArgs_out ctx args hrf.2 args' ha
        have hsl : sideOkList args' = true := by
          simp only [sideOk, Bool.and_eq_true] at hs; exact hs.2
        have hk : ∀ a ∈ args', Kinded a := fun a ha' =>
          ((hargs a ha').1 (sideOkList_mem hsl a ha') ((callsOk_call hc).2 a ha') (hj.args a ha')).kinded
        obtain ⟨k, hk1, _⟩ := kind_call hc hs hk
        exact sound_of_kind hk1 rfl
      · cases h
    | .list pos items, hrf, e', h => by
      simp only [refFree] at hrf
      simp only [CheckCtx.check] at h
      split at h
      · cases h
      · obtain ⟨items', hi, h⟩ := bind_ok_iff.mp h
        obtain ⟨u, _, h⟩ := bind_ok_iff.mp h
        cases h
        refine ⟨fun hs _ _ => by simp [sideOk] at hs, fun p its hh x hx hsx hcx hjx => ?_⟩
        cases hh
        exact (checkItems_out ctx _ hrf items' hi x hx).1 hsx hcx hjx
    | .access pos l f, _, e', h => by
      simp only [CheckCtx.check] at h
      obtain ⟨l', _, h⟩ := bind_ok_iff.mp h
      obtain ⟨f', _, h⟩ := bind_ok_iff.mp h
      obtain ⟨u, _, h⟩ := bind_ok_iff.mp h
      cases h
      exact outSound_vacuous (by simp [sideOk]) (by intro _ _ hh; cases hh)
    | .str .., _, e', h => by
      simp only [CheckCtx.check] at h; cases h
      exact outSound_leaf (k := .text) (by simp [kindOf]) rfl (by intro _ _ hh; cases hh)
    | .num .., _, e', h => by
      simp only [CheckCtx.check] at h; cases h
      exact outSound_leaf (k := .num) (by simp [kindOf]) rfl (by intro _ _ hh; cases hh)
    | .float .., _, e', h => by
      simp only [CheckCtx.check] at h; cases h
      exact outSound_leaf (k := .num) (by simp [kindOf]) rfl (by intro _ _ hh; cases hh)
    | .bool .., _, e', h => by
      simp only [CheckCtx.check] at h; cases h
      exact outSound_leaf (k := .bool) (by simp [kindOf]) rfl (by intro _ _ hh; cases hh)
    | .name .., _, e', h => by
      simp only [CheckCtx.check] at h; cases h
      exact outSound_vacuous (by simp [sideOk]) (by intro _ _ hh; cases hh)
    | .cycle, _, e', h => by
      simp only [CheckCtx.check] at h; cases h
      exact outSound_vacuous (by simp [sideOk]) (by intro _ _ hh; cases hh)
    | .ref .., hrf, _, _ => by simp [refFree] at hrf
  theorem checkArgs_out (ctx : CheckCtx) : ∀ (args : List Expr), refFree.refFreeList args = true →
      ∀ args', ctx.checkArgs args = .ok args' → ∀ x ∈ args', OutSound ctx x
    | [], _, args', h, x, hx => by
      simp only [CheckCtx.checkArgs] at h; cases h; simp at hx
    | a :: as, hrf, args', h, x, hx => by
      simp only [refFree.refFreeList, Bool.and_eq_true] at hrf
      unfold CheckCtx.checkArgs at h
      obtain ⟨a', ha, h⟩ := bind_ok_iff.mp h
      obtain ⟨as', has, h⟩ := bind_ok_iff.mp h
      cases h
      rcases List.mem_cons.mp hx with rfl | hx'
      · split at ha
        · exact outSound_rewrite (outSound_vacuous (by simp [sideOk]) (by intro _ _ hh; cases hh)) ha
        · exact check_out ctx a hrf.1 _ ha
      · exact checkArgs_out ctx as hrf.2 as' has x hx'
  theorem checkItems_out (ctx : CheckCtx) : ∀ (items : List Expr), refFree.refFreeList items = true →
      ∀ items', ctx.checkItems items = .ok items' → ∀ x ∈ items', OutSound ctx x
    | [], _, items', h, x, hx => by
      simp only [CheckCtx.checkItems] at h; cases h; simp at hx
    | a :: as, hrf, items', h, x, hx => by
      simp only [refFree.refFreeList, Bool.and_eq_true] at hrf
      unfold CheckCtx.checkItems at h
      obtain ⟨a', ha, h⟩ := bind_ok_iff.mp h
      obtain ⟨as', has, h⟩ := bind_ok_iff.mp h
      cases h
      rcases List.mem_cons.mp hx with rfl | hx'
      · exact check_out ctx a hrf.1 _ ha
      · exact checkItems_out ctx as hrf.2 as' has x hx'
end


/-! ### C14 (a) -/

/-- SOUNDNESS of the engine's checker for the README typing.  If `Check` accepts `e` (a tree of the
    parser: no alias references yet) in a context whose select fields are sound, every call of the
    result `e'` passes the plan-time function validation as a scalar call, and `e'` stays within the
    side condition `sideOk` (no dynamically typed field access, documented argument types, elements of
    list-valued calls of the kind looked up, no unresolved names), then `e'` is well-kinded, its kind
    is the engine's static `ReturnType()`, and the checker's own type computation (alias references
    resolved through the table) yields that type. -/
theorem check_sound (ctx : CheckCtx) (ht : TblSound ctx) (e e' : Expr) (hrf : refFree e = true)
    (h : ctx.check e = .ok e') (hc : callsOk e') (hs : sideOk e' = true) :
    ∃ k, kindOf e' = some k ∧ k.code = e'.retType ∧ ctx.rt e' = .ok k.code :=
  (check_out ctx e hrf e' h).1 hs hc (.inl ht)

/-- … when the accepted tree uses no alias (no reference was created), whatever the select list is -/
theorem check_sound_refFree (ctx : CheckCtx) (e e' : Expr) (hrf : refFree e = true)
    (h : ctx.check e = .ok e') (hc : callsOk e') (hs : sideOk e' = true) (hrf' : refFree e' = true) :
    ∃ k, kindOf e' = some k ∧ k.code = e'.retType ∧ ctx.rt e' = .ok k.code :=
  (check_out ctx e hrf e' h).1 hs hc (.inr hrf')

/-- … in a context without select fields (bare `where …`, DELETE, PUT, REMOVE) no hypothesis on the
    table is needed -/
theorem check_sound_nil (ctx : CheckCtx) (h0 : ctx.tbl = []) (e e' : Expr) (hrf : refFree e = true)
    (h : ctx.check e = .ok e') (hc : callsOk e') (hs : sideOk e' = true) :
    ∃ k, kindOf e' = some k ∧ k.code = e'.retType ∧ ctx.rt e' = .ok k.code :=
  check_sound ctx (tblSound_nil ctx h0) e e' hrf h hc hs

/-- instance: `strlen(key) + 2 > 1 & !(value ^= 'a')` -/
def exampleExpr : Expr := .binop 20 .and
  (.binop 16 .gt (.binop 12 .add (.call 0 (.name 0 (asciiBytes "strlen")) [.field 7 .key]) (.num 14 [50] 2)) (.num 18 [49] 1))
  (.not 22 (.binop 30 .prefixMatch (.field 24 .value) (.str 33 [97])))

/-- … is accepted, validated and within the side condition (the hypotheses of `check_sound` hold) —
    and is therefore Boolean -/
example : ({} : CheckCtx).check exampleExpr = .ok exampleExpr := by rfl
example : callsOk exampleExpr := by unfold callsOk; rfl
example : refFree exampleExpr = true ∧ sideOk exampleExpr = true ∧ kindOf exampleExpr = some .bool := by decide

end Kvql.Proofs.Typing
