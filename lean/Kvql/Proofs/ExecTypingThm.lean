import Kvql.Proofs.ExecTyping

namespace Kvql
open Generated

theorem funcNameOf_ok {nm : Expr} {fname : Bytes} (h : funcNameOf nm = .ok fname) :
    ∃ q d, nm = .name q d ∧ fname = toLower d := by
  cases nm <;> simp [funcNameOf] at h
  exact ⟨_, _, rfl, h.symm⟩

/-- the inferred kind agrees with the engine's static `ReturnType()` -/
theorem retType_of_kind : ∀ (e : Expr) (k : Kind), kindOf e = some k → retType e = k.code
  | .str .., k, h => by simp [kindOf] at h; subst h; rfl
  | .field .., k, h => by simp [kindOf] at h; subst h; rfl
  | .num .., k, h => by simp [kindOf] at h; subst h; rfl
  | .float .., k, h => by simp [kindOf] at h; subst h; rfl
  | .bool .., k, h => by simp [kindOf] at h; subst h; rfl
  | .not _ r, k, h => by
    simp only [kindOf] at h
    split at h <;> simp at h
    subst h; rfl
  | .ref _ _ t, k, h => by
    simp only [kindOf] at h
    simp only [retType]
    exact retType_of_kind t k h
  | .name .., k, h => by simp [kindOf] at h
  | .cycle, k, h => by simp [kindOf] at h
  | .list .., k, h => by simp [kindOf] at h
  | .access .., k, h => by simp [kindOf] at h
  | .call p nm args, k, h => by
    simp only [kindOf] at h
    cases hn : funcNameOf nm with
    | error e => simp [hn] at h
    | ok fname =>
      obtain ⟨q, d, rfl, rfl⟩ := funcNameOf_ok hn
      simp only [hn] at h
      cases hf : lookupFunc (toLower d) with
      | none => simp [hf] at h
      | some fo =>
        simp only [hf] at h
        split at h
        · cases h
        · split at h
          · cases h
          · cases hb : fo.body with
            | none => simp [hb] at h
            | some b =>
              simp only [hb] at h
              split at h
              · cases h
                simp only [retType, hf]
                obtain ⟨e, he, rfl⟩ := lookupFunc_mem hf
                exact funcTable_res e he b hb
              · cases h
  | .binop p op l r, k, h => by
    have one_if : ∀ {c : Bool} {k0 : Kind}, (if c = true then some k0 else none) = some k → k = k0 := by
      intro c k0 h; split at h <;> simp at h; exact h.symm
    cases op with
    | and => simp only [kindOf] at h; rw [one_if h]; rfl
    | or => simp only [kindOf] at h; rw [one_if h]; rfl
    | kwAnd => simp only [kindOf] at h; rw [one_if h]; rfl
    | kwOr => simp only [kindOf] at h; rw [one_if h]; rfl
    | eq => simp only [kindOf] at h; rw [one_if h]; rfl
    | neq => simp only [kindOf] at h; rw [one_if h]; rfl
    | prefixMatch => simp only [kindOf] at h; rw [one_if h]; rfl
    | regexMatch => simp only [kindOf] at h; rw [one_if h]; rfl
    | gt => simp only [kindOf] at h; rw [one_if h]; rfl
    | gte => simp only [kindOf] at h; rw [one_if h]; rfl
    | lt => simp only [kindOf] at h; rw [one_if h]; rfl
    | lte => simp only [kindOf] at h; rw [one_if h]; rfl
    | sub => simp only [kindOf] at h; rw [one_if h]; rfl
    | mul => simp only [kindOf] at h; rw [one_if h]; rfl
    | div => simp only [kindOf] at h; rw [one_if h]; rfl
    | not => rw [kindOf] at h; cases h
    | add =>
      simp only [kindOf] at h
      simp only [retType]
      split at h
      · rename_i hc
        cases h
        simp only [Bool.and_eq_true, beq_iff_eq] at hc
        rw [retType_of_kind l .text hc.1]; rfl
      · split at h
        · rename_i hc
          cases h
          simp only [Bool.and_eq_true, beq_iff_eq] at hc
          rw [retType_of_kind l .num hc.1]; rfl
        · cases h
    | in_ =>
      have : k = .bool := by
        cases r with
        | list q items =>
          simp only [kindOf] at h
          split at h
          · exact one_if h
          · split at h
            · exact one_if h
            · cases h
        | call q nm args => simp only [kindOf] at h; exact one_if h
        | ref q nm t => simp only [kindOf] at h; exact one_if h
        | _ => simp [kindOf] at h
      subst this; rfl
    | between =>
      have : k = .bool := by
        cases r with
        | list q items =>
          match items, h with
          | [lo, hi], h => simp only [kindOf] at h; exact one_if h
          | [], h => simp [kindOf] at h
          | [_], h => simp [kindOf] at h
          | _ :: _ :: _ :: _, h => simp [kindOf] at h
        | _ => simp [kindOf] at h
      subst this; rfl

/-! ### soundness combinators -/

/-- at context `c`: a successful outcome satisfies `P`, a failure is not an operand-type error -/
def SndP {α} (P : α → Prop) (y : M α) (c : Ctx) : Prop :=
  (∀ a c', y c = (.ok a, c') → P a) ∧ (∀ e c', y c = (.error e, c') → e ≠ .operandType)

namespace SndP

theorem pure {α} {P : α → Prop} {a : α} (h : P a) (c : Ctx) : SndP P (Pure.pure a : M α) c :=
  ⟨fun b c' hb => by simp at hb; rw [← hb.1]; exact h, fun e c' he => by simp at he⟩

theorem throw {α} {P : α → Prop} {e : Err} (h : e ≠ .operandType) (c : Ctx) : SndP P (M.throw e : M α) c :=
  ⟨fun b c' hb => by simp at hb, fun e' c' he => by simp at he; rw [← he.1]; exact h⟩

theorem lift {α} {P : α → Prop} {x : Except Err α} (h1 : ∀ a, x = .ok a → P a) (h2 : x ≠ .error .operandType)
    (c : Ctx) : SndP P (M.lift x) c :=
  ⟨fun b c' hb => by simp at hb; exact h1 b hb.1, fun e c' he => by simp at he; intro h; rw [h] at he; exact h2 he.1⟩

theorem liftK {k : Kind} {x : Except Err Value} (h : KSound k x) (c : Ctx) :
    SndP (fun v => v.hasKind k = true) (M.lift x) c := lift h.1 h.2 c

theorem bind {α β} {Q : α → Prop} {P : β → Prop} {x : M α} {f : α → M β} {c : Ctx} (hx : SndP Q x c)
    (hin : ∀ a c1, x c = (.ok a, c1) → c1 = c) (hf : ∀ a, Q a → SndP P (f a) c) : SndP P (x >>= f) c := by
  constructor
  · intro b c' h
    obtain ⟨a, c0, ha, hb⟩ := bind_ok_inv h
    rw [hin a c0 ha] at hb
    exact (hf a (hx.1 a c0 ha)).1 b c' hb
  · intro e c' h
    rw [M.bind_run] at h
    split at h
    · rename_i a c0 ha
      rw [hin a c0 ha] at h
      exact (hf a (hx.1 a c0 ha)).2 e c' h
    · rename_i e0 c0 he
      simp at h; rw [← h.1]; exact hx.2 e0 c0 he

theorem ite {α} {P : α → Prop} {p : Prop} [Decidable p] {x y : M α} {c : Ctx} (hx : SndP P x c) (hy : SndP P y c) :
    SndP P (if p then x else y) c := by split <;> assumption

theorem weaken {α} {P Q : α → Prop} {x : M α} {c : Ctx} (h : SndP P x c) (hpq : ∀ a, P a → Q a) : SndP Q x c :=
  ⟨fun a c' ha => hpq a (h.1 a c' ha), h.2⟩

end SndP

theorem ne_ot_data : Err.data ≠ .operandType := by simp
theorem ne_ot_arity : Err.arity ≠ .operandType := by simp
theorem ne_ot_fuel : Err.outOfFuel ≠ .operandType := by simp

/-- the static dispatch flag `retType l != TSTR` agrees with the kind of the left operand -/
theorem number_flag {l : Expr} {k : Kind} (h : kindOf l = some k) :
    (k = .text → (retType l == tyTSTR) = true) ∧ (k = .num → (retType l == tyTSTR) = false) := by
  have := retType_of_kind l k h
  constructor
  · rintro rfl; rw [this]; rfl
  · rintro rfl; rw [this]; rfl

theorem hk_of {l : Expr} {k : Kind} (h : kindOf l = some k) (hk : k = .text ∨ k = .num) :
    ((!(retType l == tyTSTR)) = true ∧ k = .num) ∨ ((!(retType l == tyTSTR)) = false ∧ k = .text) := by
  rcases hk with rfl | rfl
  · exact .inr ⟨by rw [(number_flag h).1 rfl]; rfl, rfl⟩
  · exact .inl ⟨by rw [(number_flag h).2 rfl]; rfl, rfl⟩

theorem unpackArray_of_list {v : Value} (h : v.hasKind .listText = true ∨ v.hasKind .listNum = true) :
    ∃ vals, unpackArray v = some vals := by
  cases v <;> simp [Value.hasKind] at h <;> simp [unpackArray]

theorem getListLength_of {v : Value}
    (h : v.hasKind .listText = true ∨ v.hasKind .listNum = true ∨ v.hasKind .text = true) :
    ∃ n, getListLength v = .ok n := by
  cases v <;> simp [Value.hasKind] at h <;> simp [getListLength]

theorem parseFloatAll_ne_ot : ∀ (l : List Bytes), parseFloatAll l ≠ .error .operandType
  | [] => by simp [parseFloatAll]
  | b :: bs => by
    unfold parseFloatAll
    split
    · simp
    · have ih := parseFloatAll_ne_ot bs
      cases hb : parseFloatAll bs with
      | error e => simp [Except.map]; intro he; subst he; exact ih hb
      | ok fs => simp [Except.map]

theorem toFloatList_of {v : Value} (h : v.hasKind .listText = true ∨ v.hasKind .listNum = true) :
    toFloatList v ≠ .error .operandType := by
  cases v <;> simp [Value.hasKind] at h <;> simp [toFloatList]
  exact parseFloatAll_ne_ot _

end Kvql
