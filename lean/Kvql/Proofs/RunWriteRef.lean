/-
  DELETE judged by the reference evaluator alone: the two hypotheses of `runStmt_delete_correct` about
  the engine's VECTOR evaluator (`fw.vecOk`, `ExecuteBatch` defined on every stored pair) follow from
  `batch_refines_spec` (Proofs/RunWriteBatchSpec.lean: reference ⇒ batch on the core language) once the
  folded WHERE `fw` is itself in the core language and reference-evaluable on every stored pair — and
  that is what `coreLang_fold` (Proofs/RunWriteFoldSpec.lean: constant folding against the reference)
  provides for the tree `Optimize()` returns.  The same for batch-mode `select *`.
-/
import Kvql.Proofs.RunWriteBatchSpec
import Kvql.Proofs.RunWriteFoldSpec
import Kvql.Proofs.RunWriteDelete
import Kvql.Proofs.RunWriteCompose

namespace Kvql.Proofs.RunWrite
open Kvql Kvql.Run Kvql.Plans Kvql.Proofs.Typing Kvql.Refine
open Kvql.PlanCheck (planStage finalPlanCheck)

/-- the vector evaluator is defined (and `vecOk` holds) wherever the reference evaluator is, on the
    core language -/
theorem batch_hyps_of_spec {fw : Expr} (hc : CoreLang fw) {store : Storage.Store}
    (hev : ∀ p ∈ store, Spec.evaluable fw ⟨p.1, p.2⟩ = true) :
    fw.vecOk = true ∧ ∀ p ∈ store, ∃ v, (execBatch fw [⟨p.1, p.2⟩] Ctx.off).1 = .ok [v] := by
  refine ⟨vecOk_of_coreLang hc, fun p hp => ?_⟩
  obtain ⟨b, hb⟩ := evaluable_iff.mp (hev p hp)
  exact ⟨.bool b, by rw [batch_refines_spec_bool fw hc _ hb]⟩

/-- DELETE without LIMIT, hypotheses on the reference evaluator only -/
theorem runStmt_delete_correct_ref {pos wpos : Nat} {w : Expr} (hk : kindOf w = some .bool)
    (haf : aliasFree w = true) (hcore : Refine.core w = true)
    (store : Storage.Store) (hs : store.Sorted)
    (hev : ∀ p ∈ store, Spec.evaluable w ⟨p.1, p.2⟩ = true)
    (fw : Expr) (hfw : Fold.optimize w = .ok fw) (hcfw : CoreLang fw)
    (hevfw : ∀ p ∈ store, Spec.evaluable fw ⟨p.1, p.2⟩ = true)
    (kind : PollKind) (bs : Nat) (hbs : 1 ≤ bs) (cache : Bool) :
    (runStmt (.delete pos wpos w none) store kind bs cache).fail = none ∧
    (runStmt (.delete pos wpos w none) store kind bs cache).rows =
      [[Value.goInt (Int64.ofNat (reported (nodeOf (Scan.optimize fw)) (Scan.hasAndOp fw)
        (store.filter (fun p => Spec.holds w ⟨p.1, p.2⟩)).length))]] ∧
    (runStmt (.delete pos wpos w none) store kind bs cache).world.store =
      store.filter (fun p => !Spec.holds w ⟨p.1, p.2⟩) ∧
    (∀ e ∈ (runStmt (.delete pos wpos w none) store kind bs cache).world.log, e.call.isPut = false) := by
  obtain ⟨hok, hbatch⟩ := batch_hyps_of_spec hcfw hevfw
  exact runStmt_delete_correct hk haf hcore store hs hev fw hfw hok hbatch kind bs hbs cache

theorem runStmt_delete_limit_correct_ref {pos wpos : Nat} {w : Expr} (l : LimitS) (hk : kindOf w = some .bool)
    (haf : aliasFree w = true) (hcore : Refine.core w = true)
    (store : Storage.Store) (hs : store.Sorted)
    (hev : ∀ p ∈ store, Spec.evaluable w ⟨p.1, p.2⟩ = true)
    (fw : Expr) (hfw : Fold.optimize w = .ok fw) (hcfw : CoreLang fw)
    (hevfw : ∀ p ∈ store, Spec.evaluable fw ⟨p.1, p.2⟩ = true)
    (kind : PollKind) (bs : Nat) (hbs : 1 ≤ bs) (cache : Bool) :
    (runStmt (.delete pos wpos w (some l)) store kind bs cache).fail = none ∧
    (runStmt (.delete pos wpos w (some l)) store kind bs cache).rows =
      [[Value.goInt (Int64.ofNat (((store.filter (fun p => Spec.holds w ⟨p.1, p.2⟩)).drop l.start.toInt.toNat).take
        l.count.toInt.toNat).length)]] ∧
    (runStmt (.delete pos wpos w (some l)) store kind bs cache).world.store =
      store.filter (fun p => decide (p ∉ ((store.filter (fun p => Spec.holds w ⟨p.1, p.2⟩)).drop l.start.toInt.toNat).take
        l.count.toInt.toNat)) ∧
    (∀ e ∈ (runStmt (.delete pos wpos w (some l)) store kind bs cache).world.log, e.call.isPut = false) := by
  obtain ⟨hok, hbatch⟩ := batch_hyps_of_spec hcfw hevfw
  exact runStmt_delete_limit_correct l hk haf hcore store hs hev fw hfw hok hbatch kind bs hbs cache

/-- batch-mode `select *` judged by the reference evaluator alone (E2E (a), batch mode, without the two
    hypotheses about the vector evaluator) -/
theorem run_select_star_correct_batch_ref (query : Bytes) (pf : Bytes → F64) (s : SelectS)
    (hplan : planStage pf (Lexer.split query) = .ok (.select s))
    (hstar : s.allFields = true) (hord : s.order = none) (hlim : s.limit = none)
    (hnoaggr : finalPlanCheck s = .ok false)
    (haf : aliasFree s.where_ = true) (hside : sideOk s.where_ = true) (hcore : Refine.core s.where_ = true)
    (store : Storage.Store) (hs : store.Sorted)
    (hev : ∀ p ∈ store, Spec.evaluable s.where_ ⟨p.1, p.2⟩ = true)
    (fw : Expr) (hfw : Fold.optimize s.where_ = .ok fw) (hcfw : CoreLang fw)
    (hevfw : ∀ p ∈ store, Spec.evaluable fw ⟨p.1, p.2⟩ = true)
    (bs : Nat) (hbs : 1 ≤ bs) (cache : Bool) :
    (runQuery query pf store .batch bs cache).fail = none ∧
    (runQuery query pf store .batch bs cache).rows =
      (store.filter (fun p => Spec.holds s.where_ ⟨p.1, p.2⟩)).map pairRow ∧
    (runQuery query pf store .batch bs cache).world.store = store := by
  obtain ⟨hok, hbatch⟩ := batch_hyps_of_spec hcfw hevfw
  exact Kvql.Proofs.Run.run_select_star_correct_batch_partial query pf s hplan hstar hord hlim hnoaggr haf hside hcore
    store hs hev fw hfw hok hbatch bs hbs cache

/-- nothing to fold in `key = 'k'` -/
theorem fold_key_eq (p p1 p2 : Nat) (k : Bytes) :
    Fold.optimize (.binop p .eq (.field p1 .key) (.str p2 k)) = .ok (.binop p .eq (.field p1 .key) (.str p2 k)) := by
  simp [Fold.optimize, Fold.optimizeBoth, Fold.pass, Fold.reorder, Fold.binExec, Fold.operand, Fold.andOr,
    bind, Except.bind, Except.map, pure, Except.pure]

/-- `select * where key = 'k'` in BATCH mode on a sorted store that holds `v` under `k` -/
theorem run_select_key_eq_batch (query : Bytes) (pf : Bytes → F64) (s : SelectS)
    (hplan : planStage pf (Lexer.split query) = .ok (.select s))
    (hstar : s.allFields = true) (hord : s.order = none) (hlim : s.limit = none)
    (hnoaggr : finalPlanCheck s = .ok false)
    {p p1 p2 : Nat} {k : Bytes} (hw : s.where_ = .binop p .eq (.field p1 .key) (.str p2 k))
    (store : Storage.Store) (hs : store.Sorted) {v : Bytes} (hl : store.lookup k = some v)
    (bs : Nat) (hbs : 1 ≤ bs) (cache : Bool) :
    (runQuery query pf store .batch bs cache).fail = none ∧
    (runQuery query pf store .batch bs cache).rows = [pairRow (k, v)] ∧
    (runQuery query pf store .batch bs cache).world.store = store := by
  have haf : aliasFree s.where_ = true := by rw [hw]; rfl
  have hside : sideOk s.where_ = true := by rw [hw]; rfl
  have hcore : Refine.core s.where_ = true := by rw [hw]; rfl
  have hcl : CoreLang s.where_ := by rw [hw]; exact ⟨rfl, rfl⟩
  have hev : ∀ q ∈ store, Spec.evaluable s.where_ ⟨q.1, q.2⟩ = true := by
    intro q _
    rw [hw]
    unfold Spec.evaluable
    rw [spec_key_eq]
  have hfw : Fold.optimize s.where_ = .ok s.where_ := by rw [hw]; exact fold_key_eq p p1 p2 k
  obtain ⟨r1, r2, r3⟩ := run_select_star_correct_batch_ref query pf s hplan hstar hord hlim hnoaggr haf hside hcore
    store hs hev s.where_ hfw hcl hev bs hbs cache
  refine ⟨r1, ?_, r3⟩
  rw [r2]
  have : (store.filter (fun q => Spec.holds s.where_ ⟨q.1, q.2⟩)) = store.filter (fun q => decide (q.1 = k)) := by
    apply List.filter_congr
    intro q _
    rw [hw]
    unfold Spec.holds
    rw [spec_key_eq]
    by_cases e : q.1 = k <;> simp [e]
  rw [this, filter_key_eq hs hl]
  rfl

/-! ### no hypothesis about the folded tree -/

/-- the folded WHERE of a typed core-language filter that the reference evaluates on every stored pair:
    it exists (C04 `fold_total`), is in the core language, and the reference evaluates it too -/
theorem fold_facts {w : Expr} (hk : kindOf w = some .bool) (hcore : Refine.core w = true) {store : Storage.Store}
    (hev : ∀ p ∈ store, Spec.evaluable w ⟨p.1, p.2⟩ = true) :
    ∃ fw, Fold.optimize w = .ok fw ∧ CoreLang fw ∧ ∀ p ∈ store, Spec.evaluable fw ⟨p.1, p.2⟩ = true := by
  obtain ⟨fw, n, hfold⟩ := Fold.optimizeBoth_total w
  have hfw := Kvql.Proofs.Run.optimize_of_both hfold
  have hw : CoreLang w := ⟨hcore, by rw [hk]; rfl⟩
  obtain ⟨h1, h2⟩ := Kvql.Fold.Ref.coreLang_fold hw hfw
  exact ⟨fw, hfw, h1, fun p hp => h2 _ (hev p hp)⟩

/-- **DELETE without LIMIT**, `runStmt` level, every hypothesis on the parsed WHERE and the reference -/
theorem runStmt_delete_correct_full {pos wpos : Nat} {w : Expr} (hk : kindOf w = some .bool)
    (haf : aliasFree w = true) (hcore : Refine.core w = true)
    (store : Storage.Store) (hs : store.Sorted)
    (hev : ∀ p ∈ store, Spec.evaluable w ⟨p.1, p.2⟩ = true)
    (kind : PollKind) (bs : Nat) (hbs : 1 ≤ bs) (cache : Bool) :
    (runStmt (.delete pos wpos w none) store kind bs cache).fail = none ∧
    (∃ fw, Fold.optimize w = .ok fw ∧ (runStmt (.delete pos wpos w none) store kind bs cache).rows =
      [[Value.goInt (Int64.ofNat (reported (nodeOf (Scan.optimize fw)) (Scan.hasAndOp fw)
        (store.filter (fun p => Spec.holds w ⟨p.1, p.2⟩)).length))]]) ∧
    (runStmt (.delete pos wpos w none) store kind bs cache).world.store =
      store.filter (fun p => !Spec.holds w ⟨p.1, p.2⟩) ∧
    (∀ e ∈ (runStmt (.delete pos wpos w none) store kind bs cache).world.log, e.call.isPut = false) := by
  obtain ⟨fw, hfw, hcfw, hevfw⟩ := fold_facts hk hcore hev
  obtain ⟨r1, r2, r3, r4⟩ := runStmt_delete_correct_ref (pos := pos) (wpos := wpos) hk haf hcore store hs hev fw hfw hcfw
    hevfw kind bs hbs cache
  exact ⟨r1, ⟨fw, hfw, r2⟩, r3, r4⟩

theorem runStmt_delete_limit_correct_full {pos wpos : Nat} {w : Expr} (l : LimitS) (hk : kindOf w = some .bool)
    (haf : aliasFree w = true) (hcore : Refine.core w = true)
    (store : Storage.Store) (hs : store.Sorted)
    (hev : ∀ p ∈ store, Spec.evaluable w ⟨p.1, p.2⟩ = true)
    (kind : PollKind) (bs : Nat) (hbs : 1 ≤ bs) (cache : Bool) :
    (runStmt (.delete pos wpos w (some l)) store kind bs cache).fail = none ∧
    (runStmt (.delete pos wpos w (some l)) store kind bs cache).rows =
      [[Value.goInt (Int64.ofNat (((store.filter (fun p => Spec.holds w ⟨p.1, p.2⟩)).drop l.start.toInt.toNat).take
        l.count.toInt.toNat).length)]] ∧
    (runStmt (.delete pos wpos w (some l)) store kind bs cache).world.store =
      store.filter (fun p => decide (p ∉ ((store.filter (fun p => Spec.holds w ⟨p.1, p.2⟩)).drop l.start.toInt.toNat).take
        l.count.toInt.toNat)) ∧
    (∀ e ∈ (runStmt (.delete pos wpos w (some l)) store kind bs cache).world.log, e.call.isPut = false) := by
  obtain ⟨fw, hfw, hcfw, hevfw⟩ := fold_facts hk hcore hev
  exact runStmt_delete_limit_correct_ref l hk haf hcore store hs hev fw hfw hcfw hevfw kind bs hbs cache

/-- **batch-mode `select *`** under exactly the hypotheses of the row-mode theorem (E2E (a)) -/
theorem run_select_star_correct_batch (query : Bytes) (pf : Bytes → F64) (s : SelectS)
    (hplan : planStage pf (Lexer.split query) = .ok (.select s))
    (hstar : s.allFields = true) (hord : s.order = none) (hlim : s.limit = none)
    (hnoaggr : finalPlanCheck s = .ok false)
    (haf : aliasFree s.where_ = true) (hside : sideOk s.where_ = true) (hcore : Refine.core s.where_ = true)
    (store : Storage.Store) (hs : store.Sorted)
    (hev : ∀ p ∈ store, Spec.evaluable s.where_ ⟨p.1, p.2⟩ = true)
    (bs : Nat) (hbs : 1 ≤ bs) (cache : Bool) :
    (runQuery query pf store .batch bs cache).fail = none ∧
    (runQuery query pf store .batch bs cache).rows =
      (store.filter (fun p => Spec.holds s.where_ ⟨p.1, p.2⟩)).map pairRow ∧
    (runQuery query pf store .batch bs cache).world.store = store := by
  obtain ⟨fw, hfw, hcfw, hevfw⟩ := fold_facts (accepted_select_where_kind hplan haf hside) hcore hev
  exact run_select_star_correct_batch_ref query pf s hplan hstar hord hlim hnoaggr haf hside hcore store hs hev fw hfw
    hcfw hevfw bs hbs cache

end Kvql.Proofs.RunWrite
