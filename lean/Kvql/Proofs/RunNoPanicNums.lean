/-
  RunNoPanic, part 2: integer literals are non-negative.
    * `split_numToksOK`   the NUMBER tokens of `Lexer.split` carry no sign (a `-` ends a word);
    * `parseExpr_numsOK`  over such tokens the expression parser builds trees without negative literal.
-/
import Kvql.Proofs.RunNoPanicBase
import Kvql.Proofs.LexRefine
import Kvql.Proofs.LexSpec

namespace Kvql.Proofs.RunNoPanic

open Kvql Kvql.Parser Kvql.Proofs.Typing Kvql.Generated

/-! ### `parseInt?` -/

theorem parseInt_some {s : Bytes} {v : Int} (h : parseInt? s = some v) :
    v ≤ 9223372036854775807 ∧ (s.head? ≠ some 45 → 0 ≤ v) := by
  unfold parseInt? at h
  split at h
  rename_i neg ds hm
  split at h
  · cases h
  · dsimp only at h
    split at h
    · rename_i hneg
      split at h
      · cases h
        refine ⟨by omega, fun hh => ?_⟩
        split at hm
        · cases hm; cases hneg
        · simp at hh
        · cases hm; cases hneg
      · cases h
    · split at h
      · cases h; exact ⟨by omega, fun _ => by omega⟩
      · cases h

theorem parseInt_le {s : Bytes} {v : Int} (h : parseInt? s = some v) : v ≤ 9223372036854775807 :=
  (parseInt_some h).1

/-- a text that does not start with `-` has a non-negative value -/
theorem parseInt_getD_nonneg {s : Bytes} (hs : s.head? ≠ some 45) : 0 ≤ (parseInt? s).getD 0 := by
  cases h : parseInt? s with
  | none => simp
  | some v => simpa using (parseInt_some h).2 hs

theorem parseInt_getD_le (s : Bytes) : (parseInt? s).getD 0 ≤ 9223372036854775807 := by
  cases h : parseInt? s with
  | none => simp
  | some v => simpa using parseInt_le h

/-! ### the lexer -/

section lexer
open Kvql.Lexer Kvql.Spec Kvql.Proofs.LexSpec

/-- what `NumToksOK` says of one token -/
def NumTokOK (t : Token) : Prop := t.tp = tkNUMBER → 0 ≤ (parseInt? t.data).getD 0

/-- the lower-cased pending word does not start with `-` -/
def NoSign (w : Bytes) : Prop := (toLower w).head? ≠ some 45

theorem wordByte_lower_ne : ∀ c : UInt8, wordByte c = true → lowerByte c ≠ 45 := by
  apply byte_all; decide +kernel

theorem quote_lower_ne : ∀ c : UInt8, (isQuote c || isBackquote c) = true → lowerByte c ≠ 45 := by
  apply byte_all; decide +kernel

theorem punctTp_ne : ∀ c : UInt8, punctTp c ≠ tkNUMBER := by
  apply byte_all; decide +kernel

theorem NoSign.nil : NoSign [] := by simp [NoSign, toLower]

theorem NoSign.cons {c : UInt8} (rest : Bytes) (h : lowerByte c ≠ 45) : NoSign (c :: rest) := by
  simpa [NoSign, toLower] using h

theorem NoSign.snoc {w : Bytes} {c : UInt8} (hw : NoSign w) (hc : wordByte c = true) :
    NoSign (w ++ [c]) := by
  cases w with
  | nil => exact NoSign.cons [] (wordByte_lower_ne c hc)
  | cons a r => simpa [NoSign, toLower] using hw

theorem numTokOK_word {w : Bytes} {p : Nat} {t : Token} (hw : NoSign w) (h : t ∈ wordTok w p) :
    NumTokOK t := by
  obtain ⟨_, rfl⟩ := mem_wordTok h
  intro _
  exact parseInt_getD_nonneg hw

theorem stepOf_emit_ne {c : UInt8} {rest : Bytes} {e k next} {tp : Nat} {d : Bytes}
    (h : stepOf c rest = .brk e k next) (he : e = some (tp, d)) : tp ≠ tkNUMBER := by
  subst he
  unfold stepOf at h
  split at h
  · cases h
  · split at h
    · split at h
      · cases h
        split <;> decide
      · cases h
    · split at h
      · split at h
        · split at h
          · cases h; decide
          · split at h
            · cases h; decide
            · cases h
        · split at h
          · cases h; decide
          · cases h
      · split at h
        · cases h; exact punctTp_ne c
        · cases h

theorem numTokOK_gen (rest : Bytes) : ∀ (w : Bytes) (i p : Nat), NoSign w →
    ∀ t ∈ L rest i w p, NumTokOK t := by
  induction rest using step_induction with
  | nil =>
    intro w i p hw t ht
    exact numTokOK_word hw ht
  | word c rest hs ih =>
    intro w i p hw t ht
    rw [L_word hs] at ht
    exact ih (w ++ [c]) (i + 1) p (hw.snoc ((stepOf_word_iff c rest).mp hs)) t ht
  | unterm c rest hs =>
    intro w i p hw t ht
    rw [L_unterm hs] at ht
    rcases List.mem_append.mp ht with ht1 | ht2
    · exact numTokOK_word hw ht1
    · clear ht
      have hq : (isQuote c || isBackquote c) = true ∧ isSpaceByte c = false := by
        unfold stepOf at hs
        split at hs
        · cases hs
        · rename_i hb
          split at hs
          · rename_i hq; exact ⟨hq, by simpa [specBlank_eq] using hb⟩
          · split at hs
            · split at hs
              · split at hs
                · cases hs
                · split at hs <;> cases hs
              · split at hs <;> cases hs
            · split at hs <;> cases hs
      obtain ⟨z, hz⟩ := trimSpace_prefix rest hq.2
      generalize trimSpace (c :: rest) = T at hz ht2
      have hne := (mem_wordTok ht2).1
      cases T with
      | nil => exact absurd rfl hne
      | cons a r =>
        simp only [List.cons_append, List.cons.injEq] at hz
        obtain ⟨rfl, _⟩ := hz
        exact numTokOK_word (NoSign.cons r (quote_lower_ne a hq.1)) ht2
  | brk c rest e k next hs ih =>
    intro w i p hw t ht
    rw [L_brk hs] at ht
    rcases List.mem_append.mp ht with ht1 | ht
    · rcases List.mem_append.mp ht1 with ht2 | ht2
      · exact numTokOK_word hw ht2
      · obtain ⟨he, _⟩ := mem_emitToks ht2
        intro htp
        exact absurd htp (stepOf_emit_ne hs he)
    · exact ih [] (i + k) (i + k) NoSign.nil t ht

end lexer

/-- a NUMBER token of the lexer has a non-negative value: its text is a word, and `+` / `-` end a word -/
theorem split_numToksOK (q : Bytes) : NumToksOK (Lexer.split q) := by
  intro t ht
  rw [Kvql.Proofs.LexRefine.split_eq_spec, Kvql.Proofs.LexSpec.lex_eq_L] at ht
  exact numTokOK_gen q [] 0 0 NoSign.nil t ht

theorem numToksOK_of_subset {ts ts' : Toks} (h : NumToksOK ts) (hsub : ∀ t ∈ ts', t ∈ ts) : NumToksOK ts' :=
  fun t ht => h t (hsub t ht)

/-! ### the expression parser -/

theorem int64_ofInt_nonneg {v : Int} (h0 : 0 ≤ v) (h1 : v ≤ 9223372036854775807) :
    0 ≤ (Int64.ofInt v).toInt := by
  rw [Int64.toInt_ofInt_of_le (by omega) (by omega)]; exact h0

theorem numsOK_newNumber {t : Token} (h : 0 ≤ (parseInt? t.data).getD 0) :
    numsOK (Expr.newNumber t.pos t.data) = true := by
  simp only [Expr.newNumber, numsOK, decide_eq_true_eq]
  exact int64_ofInt_nonneg h (parseInt_getD_le _)

theorem numsOKList_append {a b : List Expr} (ha : numsOKList a = true)
    (hb : numsOKList b = true) : numsOKList (a ++ b) = true := by
  induction a with
  | nil => simpa using hb
  | cons x xs ih =>
    simp only [numsOKList, Bool.and_eq_true, List.cons_append] at ha ⊢
    exact ⟨ha.1, ih ha.2⟩

/-- the tokens of `ts` are tokens of `T` -/
def Sub (T ts : Toks) : Prop := ∀ t ∈ ts, t ∈ T

theorem Sub.tail {T : Toks} {t : Token} {ts : Toks} (h : Sub T (t :: ts)) : Sub T ts :=
  fun x hx => h x (List.mem_cons_of_mem _ hx)

theorem Sub.head {T : Toks} {t : Token} {ts : Toks} (h : Sub T (t :: ts)) : t ∈ T :=
  h t List.mem_cons_self

theorem Sub.nil {T : Toks} : Sub T [] := fun _ h => nomatch h

section
variable (pf : Bytes → F64) (T : Toks)

def NK (p : Expr × Toks) : Prop := numsOK p.1 = true ∧ Sub T p.2
def NKs (p : List Expr × Toks) : Prop := numsOKList p.1 = true ∧ Sub T p.2

structure NumIH (fuel : Nat) : Prop where
  binary : ∀ lev prec ts, Sub T ts → Shp (parseBinaryExpr pf fuel lev prec ts) (NK T)
  bloop : ∀ lev prec x ts, numsOK x = true → Sub T ts → Shp (binaryLoop pf fuel lev prec x ts) (NK T)
  unary : ∀ lev ts, Sub T ts → Shp (parseUnaryExpr pf fuel lev ts) (NK T)
  primary : ∀ lev ts, Sub T ts → Shp (parsePrimaryExpr pf fuel lev ts) (NK T)
  ploop : ∀ lev x ts, numsOK x = true → Sub T ts → Shp (primaryLoop pf fuel lev x ts) (NK T)
  operand : ∀ lev ts, Sub T ts → Shp (parseOperand pf fuel lev ts) (NK T)
  items : ∀ lev close strict acc ts, numsOKList acc = true → Sub T ts →
    Shp (parseItems pf fuel lev close strict acc ts) (NKs T)
  call : ∀ lev fn ts, numsOK fn = true → Sub T ts → Shp (parseFuncCall pf fuel lev fn ts) (NK T)
  access : ∀ lev pos l ts, numsOK l = true → Sub T ts →
    Shp (parseFieldAccess pf fuel lev pos l ts) (NK T)
  list : ∀ lev pos ts, Sub T ts → Shp (parseList pf fuel lev pos ts) (NK T)
  between : ∀ lev pos oprec ts, Sub T ts → Shp (parseBetween pf fuel lev pos oprec ts) (NK T)

theorem num_zero : NumIH pf T 0 := by
  constructor <;> intros <;>
    simp [parseBinaryExpr, binaryLoop, parseUnaryExpr, parsePrimaryExpr, primaryLoop, parseOperand,
      parseItems, parseFuncCall, parseFieldAccess, parseList, parseBetween]

theorem expect_sub (tp : Nat) {ts : Toks} (h : Sub T ts) : Shp (expect tp ts) (Sub T) := by
  unfold expect; split
  · simp [eofErr]
  · split
    · simp [synErr]
    · simpa using h.tail

theorem num_step (hT : NumToksOK T) {fuel : Nat} (ih : NumIH pf T fuel) : NumIH pf T (fuel + 1) := by
  constructor
  · -- binary
    intro lev prec ts hs
    unfold parseBinaryExpr
    apply Res.Holds.bind (ih.unary lev ts hs)
    rintro ⟨x, ts'⟩ hx
    exact ih.bloop _ _ _ _ hx.1 hx.2
  · -- bloop
    intro lev prec x ts hx hs
    unfold binaryLoop
    split
    · simp
    · split
      · exact ⟨hx, Sub.nil⟩
      · rename_i t rest
        dsimp only
        by_cases hp : t.prec < prec
        · rw [if_pos hp]; exact ⟨hx, hs⟩
        · rw [if_neg hp]
          apply Res.Holds.bind (R := NK T)
          · split
            · split
              · simp [eofErr]
              · split
                · exact ih.list _ _ _ hs.tail
                · exact ih.binary _ _ _ hs.tail
            · split
              · exact ih.between _ _ _ _ hs.tail
              · exact ih.binary _ _ _ hs.tail
          · rintro ⟨y, ts'⟩ hy
            apply Res.Holds.bind (buildOp_shp _ _)
            intro op _
            refine ih.bloop _ _ _ _ ?_ hy.2
            simp only [numsOK, Bool.and_eq_true]
            exact ⟨hx, hy.1⟩
  · -- unary
    intro lev ts hs
    unfold parseUnaryExpr
    split
    · simp [eofErr]
    · split
      · apply Res.Holds.bind (ih.unary _ _ hs.tail)
        rintro ⟨y, ts'⟩ hy
        simpa [NK, numsOK] using hy
      · exact ih.primary _ _ hs
  · -- primary
    intro lev ts hs
    unfold parsePrimaryExpr
    apply Res.Holds.bind (ih.operand lev ts hs)
    rintro ⟨x, ts'⟩ hx
    exact ih.ploop _ _ _ hx.1 hx.2
  · -- ploop
    intro lev x ts hx hs
    unfold primaryLoop
    split
    · exact ⟨hx, Sub.nil⟩
    · split
      · split
        · simp
        · apply Res.Holds.bind (ih.call _ _ _ hx hs)
          rintro ⟨y, ts'⟩ hy
          exact ih.ploop _ _ _ hy.1 hy.2
      · split
        · apply Res.Holds.bind (ih.access _ _ _ _ hx hs)
          rintro ⟨y, ts'⟩ hy
          exact ih.ploop _ _ _ hy.1 hy.2
        · exact ⟨hx, hs⟩
  · -- operand
    intro lev ts hs
    unfold parseOperand
    split
    · simp
    · rename_i t rest
      have hr : Sub T rest := hs.tail
      split
      · exact ⟨by simp [numsOK], hr⟩
      split
      · exact ⟨by simp [numsOK], hr⟩
      split
      · exact ⟨by simp [numsOK], hr⟩
      split
      · apply Res.Holds.bind (ih.binary _ _ rest hr)
        rintro ⟨y, ts'⟩ hy
        apply Res.Holds.bind (expect_sub T _ hy.2)
        intro ts'' hs''
        exact ⟨hy.1, hs''⟩
      split
      · exact ⟨by simp [numsOK], hr⟩
      split
      · rename_i hnum
        refine ⟨numsOK_newNumber (hT t hs.head ?_), hr⟩
        simpa using hnum
      split
      · exact ⟨by simp [numsOK], hr⟩
      split
      · exact ⟨by simp [numsOK], hr⟩
      split
      · exact ⟨by simp [numsOK], hr⟩
      · simp [synErr]
  · -- items
    intro lev close strict acc ts hacc hs
    unfold parseItems
    split
    · exact ⟨hacc, Sub.nil⟩
    · split
      · exact ⟨hacc, hs⟩
      · apply Res.Holds.bind (ih.binary _ _ _ hs)
        rintro ⟨y, ts'⟩ hy
        dsimp only
        have hacc' : numsOKList (acc ++ [y]) = true :=
          numsOKList_append hacc (by simp only [numsOKList, Bool.and_true]; exact hy.1)
        split
        · exact ⟨hacc', Sub.nil⟩
        · split
          · exact ⟨hacc', hy.2⟩
          · split
            · simp [synErr]
            · exact ih.items _ _ _ _ _ hacc' (Sub.tail hy.2)
  · -- call
    intro lev fn ts hfn hs
    unfold parseFuncCall
    apply Res.Holds.bind (expect_sub T _ hs)
    intro ts1 h1
    apply Res.Holds.bind (ih.items _ _ _ [] ts1 (by simp [numsOKList]) h1)
    rintro ⟨args, ts2⟩ ha
    apply Res.Holds.bind (expect_sub T _ ha.2)
    intro ts3 h3
    simp only [Res.holds_pure, NK, numsOK, Bool.and_eq_true]
    exact ⟨⟨hfn, ha.1⟩, h3⟩
  · -- access
    intro lev pos l ts hl hs
    unfold parseFieldAccess
    apply Res.Holds.bind (expect_sub T _ hs)
    intro ts1 h1
    apply Res.Holds.bind (ih.items _ _ _ [] ts1 (by simp [numsOKList]) h1)
    rintro ⟨args, ts2⟩ ha
    apply Res.Holds.bind (expect_sub T _ ha.2)
    intro ts3 h3
    split
    · rename_i f
      have ha1 := ha.1
      simp only [numsOKList, Bool.and_eq_true] at ha1
      simp only [Res.holds_pure, NK, numsOK, Bool.and_eq_true]
      exact ⟨⟨hl, ha1.1⟩, h3⟩
    · simp [synErr]
  · -- list
    intro lev pos ts hs
    unfold parseList
    apply Res.Holds.bind (expect_sub T _ hs)
    intro ts1 h1
    apply Res.Holds.bind (ih.items _ _ _ [] ts1 (by simp [numsOKList]) h1)
    rintro ⟨args, ts2⟩ ha
    apply Res.Holds.bind (expect_sub T _ ha.2)
    intro ts3 h3
    simp only [Res.holds_pure, NK, numsOK]
    exact ⟨ha.1, h3⟩
  · -- between
    intro lev pos oprec ts hs
    unfold parseBetween
    apply Res.Holds.bind (ih.binary _ _ ts hs)
    rintro ⟨lo, ts1⟩ hlo
    apply Res.Holds.bind (expect_sub T _ hlo.2)
    intro ts2 h2
    apply Res.Holds.bind (ih.binary _ _ ts2 h2)
    rintro ⟨hi, ts3⟩ hhi
    simp only [Res.holds_pure, NK, numsOK, numsOKList, Bool.and_eq_true]
    exact ⟨⟨hlo.1, hhi.1, trivial⟩, hhi.2⟩

theorem num_all (hT : NumToksOK T) : ∀ fuel, NumIH pf T fuel
  | 0 => num_zero pf T
  | n + 1 => num_step pf T hT (num_all hT n)

end

/-- the expression parser: no negative literal in the tree, and the remaining tokens are tokens of the input -/
theorem parseExpr_numsOK {pf : Bytes → F64} {efuel : Nat} {ts rest : Toks} {x : Expr} (hts : NumToksOK ts)
    (h : parseExpr pf efuel ts = .ok (x, rest)) : numsOK x = true ∧ (∀ t ∈ rest, t ∈ ts) := by
  have := (num_all pf ts hts efuel).binary 0 1 ts (fun _ h => h)
  unfold parseExpr at h
  rw [h] at this
  exact this

end Kvql.Proofs.RunNoPanic
