/-
  C17, positions in the tree: the expression parser.  Every node `parseExpr` builds takes its `Pos`
  from a token of the input (never a synthesised value): on success the tree satisfies
  `NodeOK T T` for every `T` that holds of the offsets of the input tokens.  Unlike
  `ParserPos.expr_pos` there is no hypothesis `T 0`.
-/
import Kvql.Proofs.ErrPosDefs

namespace Kvql.Proofs.ErrPos

open Kvql Kvql.Parser Kvql.Generated

section
variable (T : Nat → Prop)

/-- a tree the parser built: every position from a token, the root's included -/
def Good (e : Expr) : Prop := NodeOK T T e ∧ T e.pos

def Goods (es : List Expr) : Prop := NodeOKs T T es

def XT (p : Expr × Toks) : Prop := Good T p.1 ∧ TokS T p.2

theorem expect_ok (tp : Nat) {ts : Toks} (h : TokS T ts) : Suc (expect tp ts) (TokS T) := by
  unfold expect
  split
  · simp
  · split
    · simp
    · simpa using h.tail

variable (pf : Bytes → F64)

structure IH (fuel : Nat) : Prop where
  binary : ∀ lev prec ts, TokS T ts → Suc (parseBinaryExpr pf fuel lev prec ts) (XT T)
  bloop : ∀ lev prec x ts, Good T x → TokS T ts → Suc (binaryLoop pf fuel lev prec x ts) (XT T)
  unary : ∀ lev ts, TokS T ts → Suc (parseUnaryExpr pf fuel lev ts) (XT T)
  primary : ∀ lev ts, TokS T ts → Suc (parsePrimaryExpr pf fuel lev ts) (XT T)
  ploop : ∀ lev x ts, Good T x → TokS T ts → Suc (primaryLoop pf fuel lev x ts) (XT T)
  operand : ∀ lev ts, TokS T ts → Suc (parseOperand pf fuel lev ts) (XT T)
  items : ∀ lev close strict acc ts, Goods T acc → TokS T ts →
    Suc (parseItems pf fuel lev close strict acc ts) (fun p => Goods T p.1 ∧ TokS T p.2)
  call : ∀ lev fn ts, Good T fn → TokS T ts → Suc (parseFuncCall pf fuel lev fn ts) (XT T)
  access : ∀ lev pos l ts, T pos → Good T l → TokS T ts →
    Suc (parseFieldAccess pf fuel lev pos l ts) (XT T)
  list : ∀ lev pos ts, T pos → TokS T ts → Suc (parseList pf fuel lev pos ts) (XT T)
  between : ∀ lev pos oprec ts, T pos → TokS T ts → Suc (parseBetween pf fuel lev pos oprec ts) (XT T)

theorem ih_zero : IH T pf 0 := by
  constructor <;> intros <;>
    simp [parseBinaryExpr, binaryLoop, parseUnaryExpr, parsePrimaryExpr, primaryLoop, parseOperand,
      parseItems, parseFuncCall, parseFieldAccess, parseList, parseBetween]

theorem step_binary {fuel : Nat} (ih : IH T pf fuel) (lev prec : Nat) (ts : Toks) (h : TokS T ts) :
    Suc (parseBinaryExpr pf (fuel + 1) lev prec ts) (XT T) := by
  unfold parseBinaryExpr
  apply Res.Holds.bind (ih.unary lev ts h)
  rintro ⟨x, ts'⟩ ⟨hx, ht⟩
  exact ih.bloop _ _ _ _ hx ht

theorem step_bloop {fuel : Nat} (ih : IH T pf fuel) (lev prec : Nat) (x : Expr) (ts : Toks)
    (hx : Good T x) (h : TokS T ts) : Suc (binaryLoop pf (fuel + 1) lev prec x ts) (XT T) := by
  unfold binaryLoop
  split
  · simp
  · split
    · exact ⟨hx, TokS.nil⟩
    · rename_i t rest
      dsimp only
      by_cases hp : t.prec < prec
      · rw [if_pos hp]; exact ⟨hx, h⟩
      · rw [if_neg hp]
        apply Res.Holds.bind (R := XT T)
        · split
          · split
            · simp
            · split
              · exact ih.list _ _ _ h.head h.tail
              · exact ih.binary _ _ _ h.tail
          · split
            · exact ih.between _ _ _ _ h.head h.tail
            · exact ih.binary _ _ _ h.tail
        · rintro ⟨y, ts'⟩ ⟨hy, ht⟩
          apply Res.Holds.bind (Suc.triv _)
          intro op _
          exact ih.bloop _ _ _ _ ⟨⟨h.head, hx.1, hy.1⟩, h.head⟩ ht

theorem step_unary {fuel : Nat} (ih : IH T pf fuel) (lev : Nat) (ts : Toks) (h : TokS T ts) :
    Suc (parseUnaryExpr pf (fuel + 1) lev ts) (XT T) := by
  unfold parseUnaryExpr
  split
  · simp
  · rename_i t rest
    split
    · apply Res.Holds.bind (ih.unary _ rest h.tail)
      rintro ⟨y, ts'⟩ ⟨hy, ht⟩
      exact ⟨⟨⟨h.head, hy.1⟩, h.head⟩, ht⟩
    · exact ih.primary _ _ h

theorem step_primary {fuel : Nat} (ih : IH T pf fuel) (lev : Nat) (ts : Toks) (h : TokS T ts) :
    Suc (parsePrimaryExpr pf (fuel + 1) lev ts) (XT T) := by
  unfold parsePrimaryExpr
  apply Res.Holds.bind (ih.operand lev ts h)
  rintro ⟨x, ts'⟩ ⟨hx, ht⟩
  exact ih.ploop _ _ _ hx ht

theorem step_ploop {fuel : Nat} (ih : IH T pf fuel) (lev : Nat) (x : Expr) (ts : Toks)
    (hx : Good T x) (h : TokS T ts) : Suc (primaryLoop pf (fuel + 1) lev x ts) (XT T) := by
  unfold primaryLoop
  split
  · exact ⟨hx, TokS.nil⟩
  · rename_i t rest
    split
    · split
      · simp
      · apply Res.Holds.bind (ih.call _ _ _ hx h)
        rintro ⟨y, ts'⟩ ⟨hy, ht⟩
        exact ih.ploop _ _ _ hy ht
    · split
      · apply Res.Holds.bind (ih.access _ _ _ _ h.head hx h)
        rintro ⟨y, ts'⟩ ⟨hy, ht⟩
        exact ih.ploop _ _ _ hy ht
      · exact ⟨hx, h⟩

theorem step_operand {fuel : Nat} (ih : IH T pf fuel) (lev : Nat) (ts : Toks) (h : TokS T ts) :
    Suc (parseOperand pf (fuel + 1) lev ts) (XT T) := by
  unfold parseOperand
  split
  · simp
  · rename_i t rest
    have hh := h.head
    have ht := h.tail
    repeat' split
    all_goals try (first
      | exact ⟨⟨hh, hh⟩, ht⟩
      | (simp; done))
    apply Res.Holds.bind (ih.binary _ _ rest ht)
    rintro ⟨y, ts'⟩ ⟨hy, ht'⟩
    apply Res.Holds.bind (expect_ok T _ ht')
    intro ts'' h2
    exact ⟨hy, h2⟩

theorem step_items {fuel : Nat} (ih : IH T pf fuel) (lev close : Nat) (strict : Bool) (acc : List Expr)
    (ts : Toks) (hacc : Goods T acc) (h : TokS T ts) :
    Suc (parseItems pf (fuel + 1) lev close strict acc ts) (fun p => Goods T p.1 ∧ TokS T p.2) := by
  unfold parseItems
  split
  · exact ⟨hacc, TokS.nil⟩
  · rename_i t rest
    split
    · exact ⟨hacc, h⟩
    · apply Res.Holds.bind (ih.binary _ _ _ h)
      rintro ⟨y, ts'⟩ ⟨hy, ht⟩
      dsimp only
      have hacc' : Goods T (acc ++ [y]) := nodeOKs_append T T hacc ⟨hy.1, trivial⟩
      split
      · exact ⟨hacc', TokS.nil⟩
      · rename_i t1 rest1
        split
        · exact ⟨hacc', ht⟩
        · split
          · simp
          · exact ih.items _ _ _ _ rest1 hacc' ht.tail

theorem step_call {fuel : Nat} (ih : IH T pf fuel) (lev : Nat) (fn : Expr) (ts : Toks)
    (hfn : Good T fn) (h : TokS T ts) :
    Suc (parseFuncCall pf (fuel + 1) lev fn ts) (XT T) := by
  unfold parseFuncCall
  apply Res.Holds.bind (expect_ok T _ h)
  intro ts1 h1
  apply Res.Holds.bind (ih.items _ _ _ [] ts1 (by simp [Goods, NodeOKs]) h1)
  rintro ⟨args, ts2⟩ ⟨ha, h2⟩
  apply Res.Holds.bind (expect_ok T _ h2)
  intro ts3 h3
  exact ⟨⟨⟨hfn.2, hfn.1, ha⟩, hfn.2⟩, h3⟩

theorem step_access {fuel : Nat} (ih : IH T pf fuel) (lev pos : Nat) (l : Expr) (ts : Toks)
    (hp : T pos) (hl : Good T l) (h : TokS T ts) :
    Suc (parseFieldAccess pf (fuel + 1) lev pos l ts) (XT T) := by
  unfold parseFieldAccess
  apply Res.Holds.bind (expect_ok T _ h)
  intro ts1 h1
  apply Res.Holds.bind (ih.items _ _ _ [] ts1 (by simp [Goods, NodeOKs]) h1)
  rintro ⟨args, ts2⟩ ⟨ha, h2⟩
  apply Res.Holds.bind (expect_ok T _ h2)
  intro ts3 h3
  split
  · exact ⟨⟨⟨hp, hl.1, ha.1⟩, hp⟩, h3⟩
  · simp

theorem step_list {fuel : Nat} (ih : IH T pf fuel) (lev pos : Nat) (ts : Toks) (hp : T pos)
    (h : TokS T ts) : Suc (parseList pf (fuel + 1) lev pos ts) (XT T) := by
  unfold parseList
  apply Res.Holds.bind (expect_ok T _ h)
  intro ts1 h1
  apply Res.Holds.bind (ih.items _ _ _ [] ts1 (by simp [Goods, NodeOKs]) h1)
  rintro ⟨args, ts2⟩ ⟨ha, h2⟩
  apply Res.Holds.bind (expect_ok T _ h2)
  intro ts3 h3
  exact ⟨⟨⟨hp, ha⟩, hp⟩, h3⟩

theorem step_between {fuel : Nat} (ih : IH T pf fuel) (lev pos oprec : Nat) (ts : Toks) (hp : T pos)
    (h : TokS T ts) : Suc (parseBetween pf (fuel + 1) lev pos oprec ts) (XT T) := by
  unfold parseBetween
  apply Res.Holds.bind (ih.binary _ _ ts h)
  rintro ⟨lo, ts1⟩ ⟨hlo, h1⟩
  apply Res.Holds.bind (expect_ok T _ h1)
  intro ts2 h2
  apply Res.Holds.bind (ih.binary _ _ ts2 h2)
  rintro ⟨hi, ts3⟩ ⟨hhi, h3⟩
  exact ⟨⟨⟨hp, hlo.1, hhi.1, trivial⟩, hp⟩, h3⟩

theorem expr_ok : ∀ fuel, IH T pf fuel := by
  intro fuel
  induction fuel with
  | zero => exact ih_zero T pf
  | succ n ih =>
    exact {
      binary := step_binary T pf ih, bloop := step_bloop T pf ih, unary := step_unary T pf ih,
      primary := step_primary T pf ih, ploop := step_ploop T pf ih,
      operand := step_operand T pf ih, items := step_items T pf ih,
      call := step_call T pf ih,
      access := step_access T pf ih, list := step_list T pf ih, between := step_between T pf ih }

/-- `parseExpr`: the tree it returns is built from token positions only -/
theorem parseExpr_ok (efuel : Nat) {ts : Toks} (h : TokS T ts) :
    Suc (parseExpr pf efuel ts) (XT T) := (expr_ok T pf efuel).binary 0 1 ts h

end

end Kvql.Proofs.ErrPos
