/-
  RunNoPanic, part 9a (helper of RunNoPanicLockRow): the row evaluator never switches the
  `ExecuteCtx` on or off (`present`, `enable` are read-only), the shape of the EVALUATION side of
  `Run.projTrace` in row mode: `Project.drainRowFuel` over the pairs the scan yields, in terms of
  the verdict of `FilterExec.Filter` on each pair from the statement's fresh context.
-/
import Kvql.Proofs.RunNoPanicBase
import Kvql.Proofs.RunNoPanicHit
import Kvql.Proofs.RunFieldsTrace

namespace Kvql.Proofs.RunNoPanic
namespace LockRowNP

open Kvql Kvql.Run Kvql.Project

/-! ### `present` and `enable` are read-only -/

/-- an `M`-computation that leaves `present` and `enable` of the context as they are -/
def Keeps {α} (x : M α) : Prop := ∀ c, (x c).2.present = c.present ∧ (x c).2.enable = c.enable

namespace Keeps

theorem pure {α} (a : α) : Keeps (Pure.pure a : M α) := fun _ => ⟨rfl, rfl⟩
theorem throw {α} (e : Err) : Keeps (M.throw e : M α) := fun _ => ⟨rfl, rfl⟩
theorem lift {α} (x : Except Err α) : Keeps (M.lift x) := fun _ => ⟨rfl, rfl⟩

theorem bind {α β} {x : M α} {f : α → M β} (hx : Keeps x) (hf : ∀ a, Keeps (f a)) : Keeps (x >>= f) := by
  intro c
  obtain ⟨h1, h2⟩ := hx c
  rw [M.bind_run]
  rcases hc : x c with ⟨r, d⟩
  rw [hc] at h1 h2
  dsimp only at h1 h2
  cases r with
  | ok a =>
    obtain ⟨h3, h4⟩ := hf a d
    exact ⟨h3.trans h1, h4.trans h2⟩
  | error e => exact ⟨h1, h2⟩

theorem ite {α} {p : Prop} [Decidable p] {x y : M α} (hx : Keeps x) (hy : Keeps y) :
    Keeps (if p then x else y) := by split <;> assumption

end Keeps

theorem setFieldResult_present (c : Ctx) (n : Bytes) (v : Value) : (c.setFieldResult n v).present = c.present := by
  unfold Ctx.setFieldResult; split <;> rfl

theorem setFieldResult_enable (c : Ctx) (n : Bytes) (v : Value) : (c.setFieldResult n v).enable = c.enable := by
  unfold Ctx.setFieldResult; split <;> rfl

mutual
  theorem exec_keeps : ∀ (e : Expr) (kv : Pair), Keeps (exec e kv)
    | .str .., kv => by rw [exec]; exact .pure _
    | .field _ k, kv => by cases k <;> rw [exec] <;> exact .pure _
    | .name .., kv => by rw [exec]; exact .pure _
    | .num .., kv => by rw [exec]; exact .pure _
    | .float .., kv => by rw [exec]; exact .pure _
    | .bool .., kv => by rw [exec]; exact .pure _
    | .list .., kv => by rw [exec]; exact .pure _
    | .cycle, kv => by rw [exec]; exact .throw _
    | .not _ r, kv => by
      rw [exec]
      exact .bind (exec_keeps r kv) (fun v => .bind (.lift _) (fun _ => .pure _))
    | .ref _ name target, kv => by
      rw [exec]
      have ht := exec_keeps target kv
      intro c
      dsimp only
      split
      · exact ⟨rfl, rfl⟩
      · obtain ⟨h1, h2⟩ := ht c
        rcases hc : exec target kv c with ⟨r, d⟩
        rw [hc] at h1 h2
        dsimp only at h1 h2
        cases r with
        | error e => exact ⟨h1, h2⟩
        | ok v =>
          dsimp only
          split
          · exact ⟨(setFieldResult_present d name v).trans h1, (setFieldResult_enable d name v).trans h2⟩
          · exact ⟨h1, h2⟩
    | .access _ l f, kv => by
      rw [exec]
      refine .bind (exec_keeps l kv) (fun left => ?_)
      split
      · exact .lift _
      · exact .lift _
      · exact .throw _
    | .call _ nm args, kv => by
      rw [exec]
      split
      · exact .throw _
      · split
        · exact .throw _
        · exact .ite (.throw _) (.ite (.throw _) (by
            split
            · exact .throw _
            · exact rowBody_keeps _ args kv))
    | .binop _ op l r, kv => by
      have hl := exec_keeps l kv
      have hr := exec_keeps r kv
      cases op <;> rw [exec] <;> (try dsimp only)
      -- and
      · exact .bind hl fun a => .bind (.lift _) fun x => .ite (.pure _) (.bind hr fun b => .bind (.lift _) fun _ => .pure _)
      -- or
      · exact .bind hl fun a => .bind (.lift _) fun x => .ite (.pure _) (.bind hr fun b => .bind (.lift _) fun _ => .pure _)
      -- not
      · exact .throw _
      -- eq, neq
      · exact .bind hl fun a => .bind hr fun b => .bind (.lift _) fun _ => .pure _
      · exact .bind hl fun a => .bind hr fun b => .bind (.lift _) fun _ => .pure _
      -- prefixMatch
      · refine .bind hl fun a => .bind hr fun b => ?_
        split <;> first | exact .pure _ | exact .throw _
      -- regexMatch
      · refine .bind hl fun a => .bind hr fun b => ?_
        split
        · split <;> first | exact .pure _ | exact .throw _
        · exact .throw _
      -- add
      · split
        · exact .bind hl fun a => .bind hr fun b => .pure _
        · exact .bind hl fun a => .bind hr fun b => .lift _
      -- sub mul div
      · exact .bind hl fun a => .bind hr fun b => .lift _
      · exact .bind hl fun a => .bind hr fun b => .lift _
      · exact .bind hl fun a => .bind hr fun b => .lift _
      -- gt gte lt lte
      · exact .bind hl fun a => .bind hr fun b => .bind (.lift _) fun _ => .pure _
      · exact .bind hl fun a => .bind hr fun b => .bind (.lift _) fun _ => .pure _
      · exact .bind hl fun a => .bind hr fun b => .bind (.lift _) fun _ => .pure _
      · exact .bind hl fun a => .bind hr fun b => .bind (.lift _) fun _ => .pure _
      -- in
      · refine .bind hl fun left => ?_
        split
        · rename_i p items
          exact execInItems_keeps _ left items kv
        · exact .ite (.throw _) (.bind hr fun fret => by
            split <;> first | exact .pure _ | exact .throw _)
        · exact .ite (.throw _) (.bind hr fun fret => by
            split <;> first | exact .pure _ | exact .throw _)
        · exact .throw _
      -- between
      · refine .bind hl fun left => ?_
        split
        · rename_i p lo hi
          exact .ite (.throw _) (.ite (.throw _)
            (.bind (exec_keeps lo kv) fun lv => .bind (exec_keeps hi kv) fun uv => .lift _))
        · exact .throw _
      -- kwAnd kwOr
      · exact .bind hl fun a => .bind (.lift _) fun x => .ite (.pure _) (.bind hr fun b => .bind (.lift _) fun _ => .pure _)
      · exact .bind hl fun a => .bind (.lift _) fun x => .ite (.pure _) (.bind hr fun b => .bind (.lift _) fun _ => .pure _)

  theorem execInItems_keeps : ∀ (number : Bool) (left : Value) (es : List Expr) (kv : Pair),
      Keeps (execInItems number left es kv)
    | _, _, [], kv => by rw [execInItems]; exact .pure _
    | number, left, e :: es, kv => by
      rw [execInItems]
      exact .ite (.throw _) (.bind (exec_keeps e kv) fun lv =>
        .bind (.lift _) fun c => .ite (.pure _) (execInItems_keeps number left es kv))

  theorem execArgs_keeps : ∀ (es : List Expr) (kv : Pair), Keeps (execArgs es kv)
    | [], kv => by rw [execArgs]; exact .pure _
    | e :: es, kv => by
      rw [execArgs]
      exact .bind (exec_keeps e kv) fun v => .bind (execArgs_keeps es kv) fun vs => .pure _

  theorem rowBody_keeps : ∀ (b : Body) (args : List Expr) (kv : Pair), Keeps (rowBody b args kv)
    | .lower, a0 :: _, kv => by rw [rowBody]; exact .bind (exec_keeps a0 kv) fun v => .pure _
    | .upper, a0 :: _, kv => by rw [rowBody]; exact .bind (exec_keeps a0 kv) fun v => .pure _
    | .toInt, a0 :: _, kv => by rw [rowBody]; exact .bind (exec_keeps a0 kv) fun v => .pure _
    | .toFloat, a0 :: _, kv => by rw [rowBody]; exact .bind (exec_keeps a0 kv) fun v => .pure _
    | .toStr, a0 :: _, kv => by rw [rowBody]; exact .bind (exec_keeps a0 kv) fun v => .pure _
    | .isInt, a0 :: _, kv => by rw [rowBody]; exact .bind (exec_keeps a0 kv) fun v => .pure _
    | .isFloat, a0 :: _, kv => by rw [rowBody]; exact .bind (exec_keeps a0 kv) fun v => .pure _
    | .strlen, a0 :: _, kv => by rw [rowBody]; exact .bind (exec_keeps a0 kv) fun v => .pure _
    | .len, a0 :: _, kv => by
      rw [rowBody]
      exact .bind (exec_keeps a0 kv) fun v => .bind (.lift _) fun _ => .pure _
    | .json, a0 :: _, kv => by
      rw [rowBody]
      refine .bind (exec_keeps a0 kv) fun v => ?_
      split <;> first | exact .pure _ | exact .throw _
    | .subStr, a0 :: a1 :: a2 :: _, kv => by
      rw [rowBody]
      exact .bind (exec_keeps a0 kv) fun v => .ite (.throw _) (.ite (.throw _)
        (.bind (exec_keeps a1 kv) fun s => .bind (exec_keeps a2 kv) fun l => .lift _))
    | .split, a0 :: a1 :: _, kv => by
      rw [rowBody]
      exact .bind (exec_keeps a0 kv) fun v => .ite (.throw _)
        (.bind (exec_keeps a1 kv) fun _ => .pure _)
    | .join, a0 :: rest, kv => by
      rw [rowBody]
      exact .ite (.throw _)
        (.bind (exec_keeps a0 kv) fun _ => .bind (execArgs_keeps rest kv) fun _ => .pure _)
    | .cosine, a0 :: a1 :: _, kv => by
      rw [rowBody]
      exact .bind (exec_keeps a0 kv) fun l => .bind (exec_keeps a1 kv) fun r =>
        .bind (.lift _) fun _ => .bind (.lift _) fun _ =>
          .bind (.lift _) fun _ => .pure _
    | .l2, a0 :: a1 :: _, kv => by
      rw [rowBody]
      exact .bind (exec_keeps a0 kv) fun l => .bind (exec_keeps a1 kv) fun r =>
        .bind (.lift _) fun _ => .bind (.lift _) fun _ =>
          .bind (.lift _) fun _ => .pure _
    | .floatList, [], kv => by rw [rowBody]; exact .pure _
    | .floatList, a0 :: rest, kv => by
      rw [rowBody]
      exact .bind (exec_keeps a0 kv) fun _ => .bind (execArgs_keeps rest kv) fun _ => .pure _
    | .intList, [], kv => by rw [rowBody]; exact .pure _
    | .intList, a0 :: rest, kv => by
      rw [rowBody]
      exact .bind (exec_keeps a0 kv) fun _ => .bind (execArgs_keeps rest kv) fun _ => .pure _
    | .toList, [], kv => by rw [rowBody]; exact .pure _
    | .toList, a0 :: rest, kv => by
      rw [rowBody]
      exact .bind (exec_keeps a0 kv) fun _ => .bind (exec_keeps a0 kv) fun _ =>
        .bind (execArgs_keeps rest kv) fun _ => .ite (.pure _) (.pure _)
    -- fewer arguments than the body indexes: the Go panic, whatever the context
    | .lower, [], _ | .upper, [], _ | .toInt, [], _ | .toFloat, [], _
    | .toStr, [], _ | .isInt, [], _ | .isFloat, [], _ | .strlen, [], _
    | .len, [], _ | .json, [], _ | .join, [], _
    | .subStr, [], _ | .subStr, [_], _ | .subStr, [_, _], _
    | .split, [], _ | .split, [_], _
    | .cosine, [], _ | .cosine, [_], _
    | .l2, [], _ | .l2, [_], _ => by
      rw [rowBody]
      · exact .throw _
      all_goals (intros; simp_all)
end

/-! ### the invariant of the context threaded through a row-mode drain -/

/-- the context is non-nil, its cache switch is the statement's, and with the cache off it still is the
    fresh context -/
def Inv (cache : Bool) (c : Ctx) : Prop :=
  c.present = true ∧ c.enable = cache ∧ (cache = false → c = Ctx.new false)

theorem inv_new (cache : Bool) : Inv cache (Ctx.new cache) :=
  ⟨rfl, rfl, fun h => by subst h; rfl⟩

theorem Inv.exec {cache : Bool} {c : Ctx} (h : Inv cache c) (e : Expr) (kv : Pair) :
    Inv cache (exec e kv c).2 := by
  obtain ⟨h1, h2, h3⟩ := h
  cases cache with
  | false =>
    have := exec_inert e kv c h2
    rw [this]
    exact ⟨h1, h2, h3⟩
  | true =>
    obtain ⟨k1, k2⟩ := exec_keeps e kv c
    exact ⟨k1.trans h1, k2.trans h2, fun h => by cases h⟩

theorem Inv.clear {cache : Bool} {c : Ctx} (h : Inv cache c) : Inv cache c.clear := by
  obtain ⟨h1, h2, h3⟩ := h
  cases cache with
  | false => rw [Kvql.Cache.clear_off h2]; exact ⟨h1, h2, h3⟩
  | true =>
    refine ⟨?_, ?_, fun h => by cases h⟩
    · simp [Ctx.clear, h2, h1]
    · simp [Ctx.clear, h2]

theorem Inv.updateHit {cache : Bool} {c : Ctx} (h : Inv cache c) {n : Bytes} {v : Value}
    (hg : c.getFieldResult n = some v) : Inv cache c.updateHit := by
  obtain ⟨h1, h2, h3⟩ := h
  cases cache with
  | false => simp [Ctx.getFieldResult, h2] at hg
  | true => exact ⟨h1, h2, fun h => by cases h⟩

/-- cleared, the threaded context is the cleared fresh one, up to the hit counter -/
theorem Inv.sameClear {cache : Bool} {c : Ctx} (h : Inv cache c) : SameButHit c.clear (Ctx.new cache).clear := by
  obtain ⟨h1, h2, h3⟩ := h
  cases cache with
  | false => rw [h3 rfl]; exact SameButHit.rfl' _
  | true => simp [SameButHit, Ctx.clear, h2, h1, Ctx.new]

theorem filterRowG_snd (b : Bool) (w : Expr) (kv : Pair) (c : Ctx) :
    (filterRowG b w kv c).2 = (exec w kv (if b then c.clear else c)).2 := by
  unfold filterRowG
  split <;> simp_all

/-- `FilterExec.Filter` from the threaded context says what it says from the fresh one -/
theorem filterRowG_inv {cache : Bool} {c : Ctx} (h : Inv cache c) (w : Expr) (kv : Pair) :
    (filterRowG true w kv c).1 = (filterRowG true w kv (Ctx.new cache)).1 ∧
    Inv cache (filterRowG true w kv c).2 := by
  refine ⟨?_, ?_⟩
  · have := (exec_hit w kv h.sameClear).1
    unfold filterRowG
    simp only [if_true]
    rcases h1 : exec w kv c.clear with ⟨r, d⟩
    rcases h2 : exec w kv (Ctx.new cache).clear with ⟨r', d'⟩
    rw [h1, h2] at this
    dsimp only at this
    subst this
    cases r with
    | error e => rfl
    | ok v => cases v <;> rfl
  · rw [filterRowG_snd]
    exact h.clear.exec w kv

/-! ### evaluation failures are error values -/

theorem mild_eval {e : Err} (h1 : e.isPanic = false) (h2 : e ≠ .outOfFuel) : mild (perrFail (.eval e)) = true := by
  cases e <;> simp_all [Err.isPanic, perrFail, mild]

theorem mild_exec {e : Expr} (hw : e.wf = true) {kv : Pair} {c c' : Ctx} {err : Err}
    (h : exec e kv c = (.error err, c')) : mild (perrFail (.eval err)) = true := by
  obtain ⟨h1, h2⟩ := Kvql.exec_total e kv hw c err c' h
  exact mild_eval h1 h2

theorem mild_verdict {w : Expr} (hw : w.wf = true) {kv : Pair} {c : Ctx} {e : Project.PErr}
    (h : (filterRowG true w kv c).1 = .error e) : mild (perrFail e) = true := by
  unfold filterRowG at h
  simp only [if_true] at h
  rcases h1 : exec w kv c.clear with ⟨r, d⟩
  rw [h1] at h
  cases r with
  | error x =>
    simp only [Except.error.injEq] at h
    subst h
    exact mild_exec hw h1
  | ok v =>
    cases v <;> simp only [Except.error.injEq, reduceCtorEq] at h <;> subst h <;> rfl

/-! ### `processProjection` -/

theorem projectRowFrom_props {cache : Bool} : ∀ (seen : List Bytes) (fields : List Field) (kv : Pair) (c : Ctx),
    (∀ f ∈ fields, f.expr.wf = true) → Inv cache c →
    (∀ e, (projectRowFrom seen fields kv c).1 = .error e → mild (perrFail e) = true) ∧
    (∀ row, (projectRowFrom seen fields kv c).1 = .ok row → row.length = fields.length ∧
      Inv cache (projectRowFrom seen fields kv c).2)
  | _, [], _, c, _, hc => by
    simp only [projectRowFrom]
    refine ⟨fun e h => (by cases h), fun row h => ?_⟩
    simp only [Except.ok.injEq] at h
    subst h
    exact ⟨rfl, hc⟩
  | seen, f :: fs, kv, c, hf, hc => by
    rw [projectRowFrom]
    have hfr : (∀ e c1, fieldRow seen f kv c = (.error e, c1) → mild (perrFail (.eval e)) = true) ∧
        Inv cache (fieldRow seen f kv c).2 := by
      unfold fieldRow
      split
      · rename_i v hv
        refine ⟨fun e c1 h => (by cases h), ?_⟩
        split at hv
        · cases hv
        · exact hc.updateHit hv
      · exact ⟨fun e c1 h => mild_exec (hf f List.mem_cons_self) h, hc.exec _ _⟩
    rcases h1 : fieldRow seen f kv c with ⟨r, c1⟩
    rw [h1] at hfr
    cases r with
    | error e =>
      refine ⟨fun e' h => ?_, fun row h => by cases h⟩
      simp only [Except.error.injEq] at h
      subst h
      exact hfr.1 e c1 rfl
    | ok v =>
      dsimp only
      split
      · refine ⟨fun e' h => ?_, fun row h => by cases h⟩
        simp only [Except.error.injEq] at h
        subst h
        rfl
      · obtain ⟨i1, i2⟩ := projectRowFrom_props (seen ++ [f.name]) fs kv c1
          (fun g hg => hf g (List.mem_cons_of_mem _ hg)) hfr.2
        rcases h2 : projectRowFrom (seen ++ [f.name]) fs kv c1 with ⟨r2, c2⟩
        rw [h2] at i1 i2
        cases r2 with
        | error e => exact ⟨fun e' h => i1 e' h, fun row h => by cases h⟩
        | ok vs =>
          refine ⟨fun e' h => (by cases h), fun row h => ?_⟩
          simp only [Except.ok.injEq] at h
          subst h
          obtain ⟨j1, j2⟩ := i2 vs rfl
          exact ⟨by simp only [List.length_cons, j1], j2⟩

/-! ### the evaluation side, pair by pair -/

/-- what the drain of the projection may hand out over the pairs `l` still to come: it stops at the first
    pair whose verdict is a failure (with that failure), skips a rejected pair, and on an accepted pair
    either fails with an error value or hands out a row of `n` columns -/
def EOut (vd : SPair → Except Project.PErr Bool) (n : Nat) : List SPair → List Project.Row → Option Project.PErr → Prop
  | [], rows, err => rows = [] ∧ err = none
  | p :: r, rows, err =>
    match vd p with
    | .error e => rows = [] ∧ err = some e
    | .ok false => EOut vd n r rows err
    | .ok true =>
      (rows = [] ∧ ∃ e, err = some e ∧ mild (perrFail e) = true) ∨
      (∃ row rows', rows = row :: rows' ∧ row.length = n ∧ EOut vd n r rows' err)

/-- the verdict of `FilterExec.Filter` on a pair, from the statement's fresh context -/
def verdict (w : Expr) (cache : Bool) (p : SPair) : Except Project.PErr Bool :=
  (filterRowG true w (toKv p) (Ctx.new cache)).1

/-- the scan's `Next` over the pairs still to come -/
theorem scanNext_EOut (w : Expr) (cache : Bool) (n : Nat) : ∀ (l : List SPair) (c : Ctx), Inv cache c →
    match scanNextG true w (l.map toKv) c with
    | (.error e, _) => EOut (verdict w cache) n l [] (some e)
    | (.ok (none, _), _) => EOut (verdict w cache) n l [] none
    | (.ok (some kv, rest), c1) => ∃ p r, kv = toKv p ∧ rest = r.map toKv ∧ r.length < l.length ∧ Inv cache c1 ∧
        ∀ rows err,
          ((rows = [] ∧ ∃ e, err = some e ∧ mild (perrFail e) = true) ∨
            (∃ row rows', rows = row :: rows' ∧ row.length = n ∧ EOut (verdict w cache) n r rows' err)) →
          EOut (verdict w cache) n l rows err
  | [], c, _ => by simp [scanNextG, EOut]
  | p :: l, c, hc => by
    obtain ⟨h1, h2⟩ := filterRowG_inv hc w (toKv p)
    simp only [List.map_cons, scanNextG]
    rcases hf : filterRowG true w (toKv p) c with ⟨r, c1⟩
    rw [hf] at h1 h2
    dsimp only at h1 h2
    have hv : verdict w cache p = r := h1.symm
    cases r with
    | error e =>
      dsimp only
      simp only [EOut, hv]
      exact ⟨trivial, trivial⟩
    | ok b =>
      cases b with
      | true =>
        dsimp only
        refine ⟨p, l, rfl, rfl, by simp, h2, fun rows err h => ?_⟩
        simp only [EOut, hv]
        exact h
      | false =>
        dsimp only
        have ih := scanNext_EOut w cache n l c1 h2
        rcases hs : scanNextG true w (l.map toKv) c1 with ⟨r2, c2⟩
        rw [hs] at ih
        cases r2 with
        | error e =>
          dsimp only at ih ⊢
          simp only [EOut, hv]
          exact ih
        | ok x =>
          obtain ⟨o, rest⟩ := x
          cases o with
          | none =>
            dsimp only at ih ⊢
            simp only [EOut, hv]
            exact ih
          | some kv =>
            dsimp only at ih ⊢
            obtain ⟨q, r, e1, e2, e3, e4, e5⟩ := ih
            refine ⟨q, r, e1, e2, by simp only [List.length_cons]; omega, e4, fun rows err h => ?_⟩
            simp only [EOut, hv]
            exact e5 rows err h

/-- **the evaluation side**: the drain of `select <fields> where <w>` over the pairs a scan yields, from a
    context that satisfies the invariant, with enough fuel -/
theorem drainRow_EOut (w : Expr) (fields : List Field) (hf : ∀ f ∈ fields, f.expr.wf = true) (cache : Bool) :
    ∀ (fuel : Nat) (l : List SPair) (c : Ctx), l.length < fuel → Inv cache c →
    EOut (verdict w cache) fields.length l (drainRowFuel true w fields fuel (l.map toKv) c).1.rows
      (drainRowFuel true w fields fuel (l.map toKv) c).1.err
  | 0, _, _, h, _ => by omega
  | fuel + 1, l, c, hfuel, hc => by
    rw [drainRowFuel, nextRowG]
    have hs := scanNext_EOut w cache fields.length l c.clear hc.clear
    rcases hsc : scanNextG true w (l.map toKv) c.clear with ⟨r, c1⟩
    rw [hsc] at hs
    cases r with
    | error e => exact hs
    | ok x =>
      obtain ⟨o, rest⟩ := x
      cases o with
      | none => exact hs
      | some kv =>
        dsimp only at hs ⊢
        obtain ⟨p, r, e1, e2, e3, e4, e5⟩ := hs
        subst e1 e2
        obtain ⟨i1, i2⟩ := projectRowFrom_props (cache := cache) [] fields (toKv p) c1 hf e4
        unfold projectRow
        rcases hp : projectRowFrom [] fields (toKv p) c1 with ⟨r2, c2⟩
        rw [hp] at i1 i2
        cases r2 with
        | error e =>
          dsimp only
          exact e5 [] (some e) (Or.inl ⟨rfl, e, rfl, i1 e rfl⟩)
        | ok row =>
          dsimp only
          obtain ⟨j1, j2⟩ := i2 row rfl
          have ih := drainRow_EOut w fields hf cache fuel r c2 (by omega) j2
          exact e5 _ _ (Or.inr ⟨row, _, rfl, j1, ih⟩)

end LockRowNP
end Kvql.Proofs.RunNoPanic
