/-
  C10 lemmas: what each row body (`rowBody`, Go `Body`) and each vector body (`vecBody`, Go
  `BodyVec`) computes once its arguments are evaluated, and the value-level facts behind the
  documented values (decimal round trip, split/join laws, distances, indexing, JSON members).
-/
import Kvql.Proofs.ExecBasics

namespace Kvql
open Generated

/-! ### loops of the vector bodies on a result of the right length -/

theorem mapRowsFresh_eq (f : Value → Value) : ∀ (n : Nat) (xs : List Value), xs.length = n →
    mapRowsFresh f n xs = .ok (xs.map f)
  | 0, [], _ => rfl
  | n + 1, x :: xs, h => by
    have ih := mapRowsFresh_eq f n xs (by simpa using h)
    simp [mapRowsFresh, ih]
    rfl

/-- an in-place loop whose step never fails -/
theorem mapRows_ok (f : Value → Except Err Value) (g : Value → Value) (hf : ∀ v, f v = .ok (g v)) :
    ∀ (n : Nat) (xs : List Value), xs.length = n → mapRows f n xs = .ok (xs.map g)
  | 0, [], _ => rfl
  | n + 1, x :: xs, h => by
    have ih := mapRows_ok f g hf n xs (by simpa using h)
    simp [mapRows, ih, hf]
    rfl

theorem zipRows_ok (f : Value → Value → Except Err Value) (g : Value → Value → Value)
    (hf : ∀ a b, f a b = .ok (g a b)) :
    ∀ (n : Nat) (xs ys : List Value), xs.length = n → ys.length = n →
      zipRows f n xs ys = .ok (List.zipWith g xs ys)
  | 0, [], [], _, _ => rfl
  | n + 1, x :: xs, y :: ys, hx, hy => by
    have ih := zipRows_ok f g hf n xs ys (by simpa using hx) (by simpa using hy)
    simp [zipRows, ih, hf]
    rfl

/-! ### unary functions: lower upper int float str is_int is_float strlen -/

/-- the function of the evaluated argument that a one-argument body returns -/
def unaryOf : Body → Option (Value → Value)
  | .lower => some fun v => .str (toLower (toStringV v))
  | .upper => some fun v => .str (toUpper (toStringV v))
  | .toInt => some fun v => .int (toIntV v 0)
  | .toFloat => some fun v => .float (toFloatV v F64.zero)
  | .toStr => some fun v => .str (toStringV v)
  | .isInt => some fun v => .bool (isIntV v)
  | .isFloat => some fun v => .bool (isFloatV v)
  | .strlen => some fun v => .int (Int64.ofNat (toStringV v).length)
  | _ => none

/-- `Body` of a unary function: the value of the argument, mapped -/
theorem row_unary {b : Body} {f : Value → Value} {a : Expr} {rest : List Expr} {kv : Pair} {c c' : Ctx} {v : Value}
    (hb : unaryOf b = some f) (ha : exec a kv c = (.ok v, c')) :
    rowBody b (a :: rest) kv c = (.ok (f v), c') := by
  cases b <;> simp [unaryOf] at hb <;> subst hb <;> rw [rowBody] <;> simp [M.bind_ok ha]

/-- `BodyVec` of a unary function: the values of the argument, mapped pair by pair -/
theorem vec_unary {b : Body} {f : Value → Value} {a : Expr} {rest : List Expr} {chunk : List Pair} {c c' : Ctx}
    {vs : List Value} (hb : unaryOf b = some f) (ha : execBatch a chunk c = (.ok vs, c'))
    (hl : vs.length = chunk.length) :
    vecBody b (a :: rest) chunk c = (.ok (vs.map f), c') := by
  cases b <;> simp [unaryOf] at hb <;> subst hb <;> rw [vecBody] <;>
    simp [M.bind_ok ha, mapRowsFresh_eq _ _ _ hl]

/-! ### value-level facts: the documented values -/

/-- upper / lower are the ASCII case maps, byte by byte -/
theorem toUpper_ascii (b : Bytes) : toUpper b = b.map upperByte := rfl
theorem toLower_ascii (b : Bytes) : toLower b = b.map lowerByte := rfl
theorem upperByte_spec (c : UInt8) : upperByte c = if 97 ≤ c ∧ c ≤ 122 then c - 32 else c := rfl
theorem lowerByte_spec (c : UInt8) : lowerByte c = if 65 ≤ c ∧ c ≤ 90 then c + 32 else c := rfl

theorem toStringV_text (b : Bytes) : toStringV (.bytes b) = b ∧ toStringV (.str b) = b := ⟨rfl, rfl⟩

/-- is_int tells whether `strconv.ParseInt` (the reading `int()` tries first) succeeds -/
theorem isIntV_text (b : Bytes) : isIntV (.bytes b) = (parseInt? b).isSome ∧ isIntV (.str b) = (parseInt? b).isSome :=
  ⟨rfl, rfl⟩
theorem isFloatV_text (b : Bytes) :
    isFloatV (.bytes b) = (parseFloat? b).isSome ∧ isFloatV (.str b) = (parseFloat? b).isSome := ⟨rfl, rfl⟩

/-- when is_int holds, `int()` returns the number read -/
theorem toIntV_of_parseInt {b : Bytes} {n : Int} (h : parseInt? b = some n) (d : Int64) :
    toIntV (.bytes b) d = Int64.ofInt n ∧ toIntV (.str b) d = Int64.ofInt n := by
  simp [toIntV, textToInt, parseInt64?, h]

theorem toFloatV_of_parseFloat {b : Bytes} {f : F64} (h : parseFloat? b = some f) (d : F64) :
    toFloatV (.bytes b) d = f ∧ toFloatV (.str b) d = f := by
  simp [toFloatV, h]

/-! #### `int(str(n)) = n`: `parseInt? (formatInt n) = some n` -/

theorem natDigits_lt10 {n : Nat} (h : n < 10) : natDigits n = [digitByte n] := by
  rw [natDigits]; simp [h]

theorem natDigits_ge10 {n : Nat} (h : ¬ n < 10) :
    natDigits n = natDigits (n / 10) ++ [digitByte (n % 10)] := by
  rw [natDigits]; simp [h]

theorem isDigit_digitByte {d : Nat} (h : d < 10) : isDigit (digitByte d) = true := by
  have : d = 0 ∨ d = 1 ∨ d = 2 ∨ d = 3 ∨ d = 4 ∨ d = 5 ∨ d = 6 ∨ d = 7 ∨ d = 8 ∨ d = 9 := by omega
  rcases this with h | h | h | h | h | h | h | h | h | h <;> subst h <;> decide

theorem digitByte_val {d : Nat} (h : d < 10) : (digitByte d).toNat - 48 = d := by
  have : d = 0 ∨ d = 1 ∨ d = 2 ∨ d = 3 ∨ d = 4 ∨ d = 5 ∨ d = 6 ∨ d = 7 ∨ d = 8 ∨ d = 9 := by omega
  rcases this with h | h | h | h | h | h | h | h | h | h <;> subst h <;> decide

theorem natDigits_spec (n : Nat) :
    (natDigits n).all isDigit = true ∧ natDigits n ≠ [] ∧ digitsVal (natDigits n) = n := by
  induction n using Nat.strongRecOn with
  | _ n ih =>
    by_cases h : n < 10
    · rw [natDigits_lt10 h]
      refine ⟨by simp [isDigit_digitByte h], by simp, ?_⟩
      simp [digitsVal, digitByte_val h]
    · rw [natDigits_ge10 h]
      have hd : n % 10 < 10 := Nat.mod_lt _ (by omega)
      obtain ⟨h1, h2, h3⟩ := ih (n / 10) (by omega)
      refine ⟨by simp [List.all_append, h1, isDigit_digitByte hd], by simp, ?_⟩
      unfold digitsVal at h3 ⊢
      rw [List.foldl_append, h3]
      simp [digitByte_val hd]
      omega

theorem isDigit_ne_sign {c : UInt8} (h : isDigit c = true) : c ≠ 43 ∧ c ≠ 45 := by
  unfold isDigit at h
  simp only [Bool.and_eq_true, decide_eq_true_eq] at h
  constructor <;> intro heq <;> subst heq <;> simp at h

theorem parseInt_unsigned {c : UInt8} {r : Bytes} (hall : (c :: r).all isDigit = true) :
    parseInt? (c :: r) =
      if digitsVal (c :: r) ≤ 9223372036854775807 then some (digitsVal (c :: r) : Int) else none := by
  have hc : isDigit c = true := by simp only [List.all_cons, Bool.and_eq_true] at hall; exact hall.1
  obtain ⟨h43, h45⟩ := isDigit_ne_sign hc
  unfold parseInt?
  split
  · rename_i neg ds heq
    split at heq
    · rename_i r' h; cases h; exact absurd rfl h43
    · rename_i r' h; cases h; exact absurd rfl h45
    · cases heq
      simp [hall]

theorem parseInt_natDigits {n : Nat} (h : n ≤ 9223372036854775807) : parseInt? (natDigits n) = some (n : Int) := by
  obtain ⟨h1, h2, h3⟩ := natDigits_spec n
  cases hd : natDigits n with
  | nil => exact absurd hd h2
  | cons c r =>
    rw [hd] at h1 h3
    rw [parseInt_unsigned h1, h3]
    simp [h]

theorem parseInt_neg_natDigits {n : Nat} (h : n ≤ 9223372036854775808) :
    parseInt? (45 :: natDigits n) = some (-(n : Int)) := by
  obtain ⟨h1, h2, h3⟩ := natDigits_spec n
  unfold parseInt?
  simp [h1, h2, h3, h]

/-- `strconv.ParseInt(fmt.Sprintf("%d", n), 10, 64) = n` for every int64 -/
theorem parseInt_formatInt (n : Int64) : parseInt? (formatInt n) = some n.toInt := by
  unfold formatInt
  have hlo := Int64.le_toInt n
  have hhi := Int64.toInt_lt n
  split
  · rename_i hneg
    have : n.toInt.natAbs ≤ 9223372036854775808 := by omega
    rw [parseInt_neg_natDigits this]
    congr 1; omega
  · rename_i hpos
    have : n.toInt.toNat ≤ 9223372036854775807 := by omega
    rw [parseInt_natDigits this]
    congr 1; omega

/-- str renders an integer in decimal and int reads it back -/
theorem int_str_roundtrip (n d : Int64) : toIntV (.str (toStringV (.int n))) d = n := by
  simp [toIntV, toStringV, textToInt, parseInt64?, parseInt_formatInt, Int64.ofInt_toInt]

/-! ### len -/

/-- `len` counts the elements of every list value (and the bytes of a text) -/
theorem getListLength_lists :
    (∀ l, getListLength (.strList l) = .ok (Int64.ofNat l.length)) ∧
    (∀ l, getListLength (.intList l) = .ok (Int64.ofNat l.length)) ∧
    (∀ l, getListLength (.floatList l) = .ok (Int64.ofNat l.length)) ∧
    (∀ l, getListLength (.anyList l) = .ok (Int64.ofNat l.length)) :=
  ⟨fun _ => rfl, fun _ => rfl, fun _ => rfl, fun _ => rfl⟩

theorem row_len {a : Expr} {rest : List Expr} {kv : Pair} {c c' : Ctx} {v : Value} {n : Int64}
    (ha : exec a kv c = (.ok v, c')) (hn : getListLength v = .ok n) :
    rowBody .len (a :: rest) kv c = (.ok (.goInt n), c') := by
  rw [rowBody]; simp [M.bind_ok ha, hn]; rfl

theorem mapRows_forall (f : Value → Except Err Value) (g : Value → Value) :
    ∀ (n : Nat) (xs : List Value), xs.length = n → (∀ v ∈ xs, f v = .ok (g v)) →
      mapRows f n xs = .ok (xs.map g)
  | 0, [], _, _ => rfl
  | n + 1, x :: xs, h, hf => by
    have ih := mapRows_forall f g n xs (by simpa using h) (fun v hv => hf v (by simp [hv]))
    simp [mapRows, ih, hf x (by simp)]
    rfl

theorem vec_len {a : Expr} {rest : List Expr} {chunk : List Pair} {c c' : Ctx} {vs : List Value} {g : Value → Int64}
    (ha : execBatch a chunk c = (.ok vs, c')) (hl : vs.length = chunk.length)
    (hn : ∀ v ∈ vs, getListLength v = .ok (g v)) :
    vecBody .len (a :: rest) chunk c = (.ok (vs.map fun v => .goInt (g v)), c') := by
  rw [vecBody]
  simp only [M.bind_ok ha]
  rw [M.lift_run, mapRows_forall _ (fun v => .goInt (g v)) _ _ hl]
  intro v hv; simp [hn v hv]; rfl

/-! ### json and navigation -/

theorem row_json {a : Expr} {rest : List Expr} {kv : Pair} {c c' : Ctx} {v : Value} {b : Bytes}
    (ha : exec a kv c = (.ok v, c')) (hb : convertToByteArray v = some b) :
    rowBody .json (a :: rest) kv c = (.ok (.json (parseJsonObject b)), c') := by
  rw [rowBody]; simp [M.bind_ok ha, hb]

theorem vec_json {a : Expr} {rest : List Expr} {chunk : List Pair} {c c' : Ctx} {vs : List Value} {g : Value → Bytes}
    (ha : execBatch a chunk c = (.ok vs, c')) (hl : vs.length = chunk.length)
    (hb : ∀ v ∈ vs, convertToByteArray v = some (g v)) :
    vecBody .json (a :: rest) chunk c = (.ok (vs.map fun v => .json (parseJsonObject (g v))), c') := by
  rw [vecBody]
  simp only [M.bind_ok ha]
  rw [M.lift_run, mapRows_forall _ (fun v => .json (parseJsonObject (g v))) _ _ hl]
  intro v hv; simp [hb v hv]

/-- `json(text)['name']` returns the addressed member -/
theorem dictAccess_member {m : List (Bytes × Value)} {k : Bytes} {v : Value} (h : assocGet m k = some v) :
    dictAccess k (.json m) = .ok v := by
  simp [dictAccess, h]

/-- a missing member reads as the empty text -/
theorem dictAccess_missing {m : List (Bytes × Value)} {k : Bytes} (h : assocGet m k = none) :
    dictAccess k (.json m) = .ok (.str []) := by
  simp [dictAccess, h]

theorem row_dictAccess {l : Expr} {p q : Nat} {d : Bytes} {kv : Pair} {c c' : Ctx} {v : Value}
    (hl : exec l kv c = (.ok v, c')) :
    exec (.access p l (.str q d)) kv c = (dictAccess d v, c') := by
  rw [exec]; simp [M.bind_ok hl]

theorem vec_dictAccess {l : Expr} {p q : Nat} {d : Bytes} {chunk : List Pair} {c c' : Ctx} {vs : List Value}
    (hl : execBatch l chunk c = (.ok vs, c')) :
    execBatch (.access p l (.str q d)) chunk c = (mapRows (dictAccess d) vs.length vs, c') := by
  rw [execBatch]; simp [M.bind_ok hl]

/-! ### `[n]` on every list kind, in both modes -/

/-- element n (counting from 0) of ANY list value -/
theorem listAccess_nth {n : Int64} (h0 : 0 ≤ n.toInt) :
    (∀ l : List Value, n.toInt.toNat < l.length → listAccess n (.anyList l) = .ok ((l[n.toInt.toNat]?).getD (.str []))) ∧
    (∀ l : List Bytes, n.toInt.toNat < l.length → listAccess n (.strList l) = .ok (((l[n.toInt.toNat]?).map .str).getD (.str []))) ∧
    (∀ l : List Int64, n.toInt.toNat < l.length → listAccess n (.intList l) = .ok (((l[n.toInt.toNat]?).map .int).getD (.str []))) ∧
    (∀ l : List F64, n.toInt.toNat < l.length → listAccess n (.floatList l) = .ok (((l[n.toInt.toNat]?).map .float).getD (.str []))) := by
  refine ⟨?_, ?_, ?_, ?_⟩ <;> intro l hl <;> simp only [listAccess, indexGuarded] <;>
    (have : n.toInt < l.length := by omega) <;> simp [this] <;> omega

theorem indexGuarded_get {α} (l : List α) (n : Int64) (w : α → Value) (h0 : 0 ≤ n.toInt) (x : α)
    (hx : l[n.toInt.toNat]? = some x) : indexGuarded l n w = .ok (w x) := by
  have hlt : n.toInt.toNat < l.length := by
    rcases List.getElem?_eq_some_iff.mp hx with ⟨h, _⟩; exact h
  have h1 : n.toInt < l.length := by omega
  have h2 : ¬ n.toInt < 0 := by omega
  unfold indexGuarded
  rw [if_pos h1, if_neg h2, hx]
  rfl

theorem row_listAccess {l : Expr} {p q : Nat} {d : Bytes} {n : Int64} {kv : Pair} {c c' : Ctx} {v : Value}
    (hl : exec l kv c = (.ok v, c')) :
    exec (.access p l (.num q d n)) kv c = (listAccess n v, c') := by
  rw [exec]; simp [M.bind_ok hl]

theorem vec_listAccess {l : Expr} {p q : Nat} {d : Bytes} {n : Int64} {chunk : List Pair} {c c' : Ctx} {vs : List Value}
    (hl : execBatch l chunk c = (.ok vs, c')) :
    execBatch (.access p l (.num q d n)) chunk c = (mapRows (listAccess n) vs.length vs, c') := by
  rw [execBatch]; simp [M.bind_ok hl]

/-! ### substr -/

/-- `substr(v, s, e)` = bytes [s, min(e, len v)), empty when s is not below that bound -/
theorem subString_spec (val : Bytes) (s e : Int64) (hs : 0 ≤ s.toInt) :
    subString val s e =
      if s.toInt < min e.toInt val.length then (val.take (min e.toInt val.length).toNat).drop s.toInt.toNat else [] := by
  unfold subString Bytes.slice
  have : ¬ s.toInt < 0 := by omega
  simp only [this, if_false]
  split <;> split <;> first | rfl | omega

theorem row_substr {a0 a1 a2 : Expr} {rest : List Expr} {kv : Pair} {c c0 c1 c2 : Ctx} {v s l : Value}
    (h0 : exec a0 kv c = (.ok v, c0)) (t1 : retType a1 = tyTNUMBER) (t2 : retType a2 = tyTNUMBER)
    (h1 : exec a1 kv c0 = (.ok s, c1)) (h2 : exec a2 kv c1 = (.ok l, c2)) :
    rowBody .subStr (a0 :: a1 :: a2 :: rest) kv c = (.ok (.str (subString (toStringV v) (toIntV s 0) (toIntV l 0))), c2) := by
  rw [rowBody]; simp [M.bind_ok h0, t1, t2, M.bind_ok h1, M.bind_ok h2, substrKernel]

def zipWith3V (g : Value → Value → Value → Value) : List Value → List Value → List Value → List Value
  | x :: xs, y :: ys, z :: zs => g x y z :: zipWith3V g xs ys zs
  | _, _, _ => []

theorem zip3Rows_ok (f : Value → Value → Value → Except Err Value) (g : Value → Value → Value → Value)
    (hf : ∀ a b c, f a b c = .ok (g a b c)) :
    ∀ (n : Nat) (xs ys zs : List Value), xs.length = n → ys.length = n → zs.length = n →
      zip3Rows f n xs ys zs = .ok (zipWith3V g xs ys zs)
  | 0, [], [], [], _, _, _ => rfl
  | n + 1, x :: xs, y :: ys, z :: zs, hx, hy, hz => by
    have ih := zip3Rows_ok f g hf n xs ys zs (by simpa using hx) (by simpa using hy) (by simpa using hz)
    simp [zip3Rows, ih, hf]
    rfl

theorem vec_substr {a0 a1 a2 : Expr} {rest : List Expr} {chunk : List Pair} {c c0 c1 c2 : Ctx} {vs ss ls : List Value}
    (t1 : retType a1 = tyTNUMBER) (t2 : retType a2 = tyTNUMBER)
    (h0 : execBatch a0 chunk c = (.ok vs, c0)) (h1 : execBatch a1 chunk c0 = (.ok ss, c1))
    (h2 : execBatch a2 chunk c1 = (.ok ls, c2))
    (l0 : vs.length = chunk.length) (l1 : ss.length = chunk.length) (l2 : ls.length = chunk.length) :
    vecBody .subStr (a0 :: a1 :: a2 :: rest) chunk c =
      (.ok (zipWith3V (fun v s l => .str (subString (toStringV v) (toIntV s 0) (toIntV l 0))) vs ss ls), c2) := by
  rw [vecBody]
  simp [t1, t2, M.bind_ok h0, M.bind_ok h1, M.bind_ok h2, zip3Rows_ok substrRow (fun v s l => .str (subString (toStringV v) (toIntV s 0) (toIntV l 0)))
    (fun _ _ _ => rfl) _ _ _ _ l0 l1 l2]

/-! ### split / join -/

theorem vec_split {a0 a1 : Expr} {rest : List Expr} {chunk : List Pair} {c c0 c1 : Ctx} {vs sps : List Value}
    (t1 : retType a1 = tyTSTR) (h0 : execBatch a0 chunk c = (.ok vs, c0)) (h1 : execBatch a1 chunk c0 = (.ok sps, c1))
    (l0 : vs.length = chunk.length) (l1 : sps.length = chunk.length) :
    vecBody .split (a0 :: a1 :: rest) chunk c =
      (.ok (List.zipWith (fun v sp => .strList (splitBytes (toStringV v) (toStringV sp))) vs sps), c1) := by
  rw [vecBody]
  simp [t1, M.bind_ok h0, M.bind_ok h1, zipRows_ok _ (fun v sp => .strList (splitBytes (toStringV v) (toStringV sp))) (fun _ _ => rfl) _ _ _ l0 l1]

theorem row_split {a0 a1 : Expr} {rest : List Expr} {kv : Pair} {c c0 c1 : Ctx} {v sp : Value}
    (h0 : exec a0 kv c = (.ok v, c0)) (t1 : retType a1 = tyTSTR) (h1 : exec a1 kv c0 = (.ok sp, c1)) :
    rowBody .split (a0 :: a1 :: rest) kv c = (.ok (.strList (splitBytes (toStringV v) (toStringV sp))), c1) := by
  rw [rowBody]; simp [M.bind_ok h0, t1, M.bind_ok h1]

theorem row_join {a0 : Expr} {rest : List Expr} {kv : Pair} {c c0 c1 : Ctx} {sep : Value} {vals : List Value}
    (t0 : retType a0 = tyTSTR) (h0 : exec a0 kv c = (.ok sep, c0)) (h1 : execArgs rest kv c0 = (.ok vals, c1)) :
    rowBody .join (a0 :: rest) kv c = (.ok (.str (joinBytes (toStringV sep) (vals.map toStringV))), c1) := by
  rw [rowBody]; simp [t0, M.bind_ok h0, M.bind_ok h1]

theorem splitAux_ne_nil (sep : Bytes) : ∀ (s acc : Bytes) (k : Nat), splitAux sep s acc k ≠ []
  | [], acc, k => by simp [splitAux]
  | c :: cs, acc, k + 1 => by rw [splitAux]; exact splitAux_ne_nil sep cs acc k
  | c :: cs, acc, 0 => by
    rw [splitAux]
    split
    · simp
    · exact splitAux_ne_nil sep cs (c :: acc) 0

theorem joinBytes_cons {sep p : Bytes} {ps : List Bytes} (h : ps ≠ []) :
    joinBytes sep (p :: ps) = p ++ sep ++ joinBytes sep ps := by
  cases ps with
  | nil => exact absurd rfl h
  | cons q qs => rfl

/-- joining what `splitAux` produced gives back the pending segment and the unread input -/
theorem join_splitAux (sep : Bytes) (hsep : sep ≠ []) :
    ∀ (s acc : Bytes) (k : Nat), joinBytes sep (splitAux sep s acc k) = acc.reverse ++ s.drop k
  | [], acc, k => by simp [splitAux, joinBytes]
  | c :: cs, acc, k + 1 => by
    rw [splitAux, join_splitAux sep hsep cs acc k]; simp
  | c :: cs, acc, 0 => by
    rw [splitAux]
    split
    · rename_i hp
      rw [joinBytes_cons (splitAux_ne_nil sep cs [] _), join_splitAux sep hsep cs [] (sep.length - 1)]
      have hpre : sep <+: (c :: cs) := List.isPrefixOf_iff_prefix.mp hp
      obtain ⟨t, ht⟩ := hpre
      have hlen : sep.length - 1 + 1 = sep.length := by
        cases sep with
        | nil => exact absurd rfl hsep
        | cons x xs => simp
      have hdrop : cs.drop (sep.length - 1) = t := by
        have : (c :: cs).drop sep.length = t := by rw [← ht]; simp
        rw [← hlen] at this
        simpa using this
      rw [hdrop]
      simp [← ht]
    · rw [join_splitAux sep hsep cs (c :: acc) 0]; simp

/-- `join(sep, split(s, sep)) = s` for every non-empty separator -/
theorem join_split (s sep : Bytes) (hsep : sep ≠ []) : joinBytes sep (splitBytes s sep) = s := by
  unfold splitBytes
  have : sep.isEmpty = false := by cases sep <;> simp_all
  simp [this, join_splitAux sep hsep]

theorem splitAux_single_skip (c : UInt8) : ∀ (p rest acc : Bytes), c ∉ p →
    splitAux [c] (p ++ rest) acc 0 = splitAux [c] rest (p.reverse ++ acc) 0
  | [], rest, acc, _ => by simp
  | x :: p, rest, acc, h => by
    have hx : x ≠ c := fun e => h (by simp [e])
    have hp : c ∉ p := fun e => h (by simp [e])
    have : List.isPrefixOf [c] (x :: (p ++ rest)) = false := by
      simp [List.isPrefixOf, Ne.symm hx]
    rw [List.cons_append, splitAux, this]
    simp only [Bool.false_eq_true, if_false]
    rw [splitAux_single_skip c p rest (x :: acc) hp]
    simp

theorem splitAux_single_sep (c : UInt8) (rest acc : Bytes) :
    splitAux [c] (c :: rest) acc 0 = acc.reverse :: splitAux [c] rest [] 0 := by
  rw [splitAux]; simp [List.isPrefixOf]

/-- `split(join(c, parts), c) = parts` for a one-byte separator that does not occur in the parts -/
theorem split_join_single (c : UInt8) : ∀ (ps : List Bytes), ps ≠ [] → (∀ p ∈ ps, c ∉ p) →
    splitBytes (joinBytes [c] ps) [c] = ps
  | [p], _, h => by
    have hp := h p (by simp)
    unfold splitBytes
    have := splitAux_single_skip c p [] [] hp
    simp at this
    simp [joinBytes, this, splitAux]
  | p :: q :: ps, _, h => by
    have hp := h p (by simp)
    have ih := split_join_single c (q :: ps) (by simp) (fun x hx => h x (by simp [hx]))
    unfold splitBytes at ih ⊢
    simp only [List.isEmpty_cons, Bool.false_eq_true, if_false] at ih ⊢
    rw [joinBytes_cons (by simp), List.append_assoc, splitAux_single_skip c p _ [] hp]
    simp only [List.singleton_append, List.append_nil]
    rw [splitAux_single_sep, ih]
    simp

/-! ### list builders hold their arguments in order -/

theorem execArgs_cons {a : Expr} {rest : List Expr} {kv : Pair} {c c0 c1 : Ctx} {v : Value} {vs : List Value}
    (h0 : exec a kv c = (.ok v, c0)) (h1 : execArgs rest kv c0 = (.ok vs, c1)) :
    execArgs (a :: rest) kv c = (.ok (v :: vs), c1) := by
  rw [execArgs]; simp [M.bind_ok h0, M.bind_ok h1]

theorem execArgs_cons_inv {a : Expr} {rest : List Expr} {kv : Pair} {c c' : Ctx} {vals : List Value}
    (h : execArgs (a :: rest) kv c = (.ok vals, c')) :
    ∃ v vs c0, exec a kv c = (.ok v, c0) ∧ execArgs rest kv c0 = (.ok vs, c') ∧ vals = v :: vs := by
  rw [execArgs] at h
  obtain ⟨v, c0, hv, h⟩ := bind_ok_inv h
  obtain ⟨vs, c1, hvs, h⟩ := bind_ok_inv h
  simp at h
  exact ⟨v, vs, c0, hv, by rw [hvs, h.2], h.1.symm⟩

theorem row_intList {args : List Expr} {kv : Pair} {c c' : Ctx} {vals : List Value}
    (h : execArgs args kv c = (.ok vals, c')) :
    rowBody .intList args kv c = (.ok (.intList (vals.map (toIntV · 0))), c') := by
  cases args with
  | nil => rw [execArgs] at h; cases h; rw [rowBody]; rfl
  | cons a rest =>
    obtain ⟨v, vs, c0, hv, hvs, rfl⟩ := execArgs_cons_inv h
    rw [rowBody]; simp [M.bind_ok hv, M.bind_ok hvs]

theorem row_floatList {args : List Expr} {kv : Pair} {c c' : Ctx} {vals : List Value}
    (h : execArgs args kv c = (.ok vals, c')) :
    rowBody .floatList args kv c = (.ok (.floatList (vals.map (toFloatV · F64.zero))), c') := by
  cases args with
  | nil => rw [execArgs] at h; cases h; rw [rowBody]; rfl
  | cons a rest =>
    obtain ⟨v, vs, c0, hv, hvs, rfl⟩ := execArgs_cons_inv h
    rw [rowBody]; simp [M.bind_ok hv, M.bind_ok hvs]

/-- integer arguments are held as they are, float arguments as they are -/
theorem toIntV_int (i d : Int64) : toIntV (.int i) d = i := rfl
theorem toFloatV_float (f d : F64) : toFloatV (.float f) d = f := rfl
theorem toFloatV_int (i : Int64) (d : F64) : toFloatV (.int i) d = F64.ofInt i := rfl

/-- `list(e1, …)`: an integer list when the first element is an integer, held in order -/
theorem row_toList_int {a : Expr} {rest : List Expr} {kv : Pair} {c c0 c1 c2 : Ctx} {first v : Value} {vs : List Value}
    (hf : exec a kv c = (.ok first, c0)) (hi : listUseInt first = true)
    (h0 : exec a kv c0 = (.ok v, c1)) (h1 : execArgs rest kv c1 = (.ok vs, c2)) :
    rowBody .toList (a :: rest) kv c = (.ok (.intList ((v :: vs).map (toIntV · 0))), c2) := by
  rw [rowBody]; simp [M.bind_ok hf, M.bind_ok h0, M.bind_ok h1, hi]

theorem row_toList_float {a : Expr} {rest : List Expr} {kv : Pair} {c c0 c1 c2 : Ctx} {first v : Value} {vs : List Value}
    (hf : exec a kv c = (.ok first, c0)) (hi : listUseInt first = false)
    (h0 : exec a kv c0 = (.ok v, c1)) (h1 : execArgs rest kv c1 = (.ok vs, c2)) :
    rowBody .toList (a :: rest) kv c = (.ok (.floatList ((v :: vs).map (toFloatV · F64.zero))), c2) := by
  rw [rowBody]; simp [M.bind_ok hf, M.bind_ok h0, M.bind_ok h1, hi]

/-- the vector bodies of join / list / int_list / float_list ARE the row body, pair by pair, run
    with a nil context; the chunk's context is left alone -/
theorem vec_rowwise (b : Body) (hb : b = .join ∨ b = .toList ∨ b = .intList ∨ b = .floatList)
    (args : List Expr) (chunk : List Pair) :
    vecBody b args chunk = rowWiseNoCtx (rowBody b args) chunk := by
  rcases hb with rfl | rfl | rfl | rfl <;> rw [vecBody]

/-! ### distances -/

def sumSq (l r : List F64) : F64 :=
  (List.zip l r).foldl (fun acc (p : F64 × F64) => acc.add (((p.1.sub p.2).abs).mul ((p.1.sub p.2).abs))) F64.zero

theorem l2Loop_eq : ∀ (l r : List F64) (t : F64),
    l2Loop l r t = (List.zip l r).foldl (fun acc (p : F64 × F64) => acc.add (((p.1.sub p.2).abs).mul ((p.1.sub p.2).abs))) t
  | [], _, t => by simp [l2Loop]
  | _ :: _, [], t => by simp [l2Loop]
  | a :: l, b :: r, t => by simp [l2Loop, l2Loop_eq l r]

/-- `l2_distance` = √Σ|aᵢ−bᵢ|² (left to right), and refuses different lengths -/
theorem l2Distance_spec (l r : List F64) :
    l2Distance l r = if l.length ≠ r.length then .error .data else .ok (sumSq l r).sqrt := by
  unfold l2Distance sumSq
  split
  · rename_i h; simp at h; simp [h]
  · rename_i h; simp at h; simp [h, l2Loop_eq]

def dot3 (l r : List F64) : F64 × F64 × F64 :=
  (List.zip l r).foldl (fun (acc : F64 × F64 × F64) (p : F64 × F64) =>
    (acc.1.add (p.1.mul p.2), acc.2.1.add (p.1.mul p.1), acc.2.2.add (p.2.mul p.2))) (F64.zero, F64.zero, F64.zero)

theorem cosineLoop_eq : ∀ (l r : List F64) (t1 t2 t3 : F64),
    cosineLoop l r t1 t2 t3 = (List.zip l r).foldl (fun (acc : F64 × F64 × F64) (p : F64 × F64) =>
      (acc.1.add (p.1.mul p.2), acc.2.1.add (p.1.mul p.1), acc.2.2.add (p.2.mul p.2))) (t1, t2, t3)
  | [], _, _, _, _ => by simp [cosineLoop]
  | _ :: _, [], _, _, _ => by simp [cosineLoop]
  | a :: l, b :: r, t1, t2, t3 => by simp [cosineLoop, cosineLoop_eq l r]

/-- `cosine_distance` = 1 − a·b / (√(a·a) · √(b·b)), and refuses different lengths -/
theorem cosineDistance_spec (l r : List F64) :
    cosineDistance l r = if l.length ≠ r.length then .error .data else
      .ok (F64.one.sub ((dot3 l r).1.div ((dot3 l r).2.1.sqrt.mul (dot3 l r).2.2.sqrt))) := by
  unfold cosineDistance dot3
  split
  · rename_i h; simp at h; simp [h]
  · rename_i h; simp at h; simp [h, cosineLoop_eq]

theorem row_l2 {a0 a1 : Expr} {rest : List Expr} {kv : Pair} {c c0 c1 : Ctx} {l r : Value} {lv rv : List F64}
    (h0 : exec a0 kv c = (.ok l, c0)) (h1 : exec a1 kv c0 = (.ok r, c1))
    (hl : toFloatList l = .ok lv) (hr : toFloatList r = .ok rv) :
    rowBody .l2 (a0 :: a1 :: rest) kv c = ((l2Distance lv rv).map Value.float, c1) := by
  rw [rowBody]
  simp only [M.bind_ok h0, M.bind_ok h1, hl, hr]
  cases hd : l2Distance lv rv <;> simp [M.bind_run, hd, Except.map]

theorem row_cosine {a0 a1 : Expr} {rest : List Expr} {kv : Pair} {c c0 c1 : Ctx} {l r : Value} {lv rv : List F64}
    (h0 : exec a0 kv c = (.ok l, c0)) (h1 : exec a1 kv c0 = (.ok r, c1))
    (hl : toFloatList l = .ok lv) (hr : toFloatList r = .ok rv) :
    rowBody .cosine (a0 :: a1 :: rest) kv c = ((cosineDistance lv rv).map Value.float, c1) := by
  rw [rowBody]
  simp only [M.bind_ok h0, M.bind_ok h1, hl, hr]
  cases hd : cosineDistance lv rv <;> simp [M.bind_run, hd, Except.map]

/-- with an operand of the chunk's length the lazily indexed loop is the plain pairwise loop -/
theorem zipRowsLazy_eq (f : Value → Option Value → Except Err Value) :
    ∀ (n : Nat) (ls rs : List Value), rs.length = n →
      zipRowsLazy f n ls rs = zipRows (fun l r => f l (some r)) n ls rs
  | 0, ls, [], _ => by simp [zipRowsLazy, zipRows]
  | n + 1, [], r :: rs, _ => by simp [zipRowsLazy, zipRows]
  | n + 1, l :: ls, r :: rs, h => by
    have ih := zipRowsLazy_eq f n ls rs (by simpa using h)
    simp [zipRowsLazy, zipRows, ih]

/-- one pair of the vector distance bodies = the row computation on that pair's operands -/
theorem distanceRow_some (dist : List F64 → List F64 → Except Err F64) (l r : Value) :
    distanceRow dist l (some r) = (do
      let lv ← toFloatList l
      let rv ← toFloatList r
      let d ← dist lv rv
      pure (.float d)) := rfl

theorem vec_l2 {a0 a1 : Expr} {rest : List Expr} {chunk : List Pair} {c c0 c1 : Ctx} {ls rs : List Value}
    (h0 : execBatch a0 chunk c = (.ok ls, c0)) (h1 : execBatch a1 chunk c0 = (.ok rs, c1))
    (hr : rs.length = chunk.length) :
    vecBody .l2 (a0 :: a1 :: rest) chunk c =
      (zipRows (fun l r => distanceRow l2Distance l (some r)) chunk.length ls rs, c1) := by
  rw [vecBody]; simp [M.bind_ok h0, M.bind_ok h1, zipRowsLazy_eq _ _ _ _ hr]

theorem vec_cosine {a0 a1 : Expr} {rest : List Expr} {chunk : List Pair} {c c0 c1 : Ctx} {ls rs : List Value}
    (h0 : execBatch a0 chunk c = (.ok ls, c0)) (h1 : execBatch a1 chunk c0 = (.ok rs, c1))
    (hr : rs.length = chunk.length) :
    vecBody .cosine (a0 :: a1 :: rest) chunk c =
      (zipRows (fun l r => distanceRow cosineDistance l (some r)) chunk.length ls rs, c1) := by
  rw [vecBody]; simp [M.bind_ok h0, M.bind_ok h1, zipRowsLazy_eq _ _ _ _ hr]

/-- a list of integers / floats is read as the floats of its elements -/
theorem toFloatList_lists :
    (∀ l, toFloatList (.intList l) = .ok (l.map F64.ofInt)) ∧ (∀ l, toFloatList (.floatList l) = .ok l) :=
  ⟨fun _ => rfl, fun _ => rfl⟩

/-! ### every registered function has its lemmas -/

/-- the names whose row and vector bodies are described above -/
def coveredNames : List String :=
  ["lower", "upper", "int", "float", "str", "is_int", "is_float", "substr", "json", "split", "list",
   "float_list", "int_list", "flist", "ilist", "len", "join", "strlen", "cosine_distance", "l2_distance"]

/-- the bodies described above: unary (`row_unary`/`vec_unary`), `len`, `json`, `substr`, `split`, `join`,
    the list builders, the distances -/
def coveredBodies : List Body :=
  [.lower, .upper, .toInt, .toFloat, .toStr, .isInt, .isFloat, .strlen, .len, .json, .subStr, .split, .join,
   .toList, .intList, .floatList, .cosine, .l2]

/-- a function added to `funcMap` without a model (and lemmas) breaks the build here -/
theorem funcTable_covered : ∀ f ∈ funcTable, f.1 ∈ coveredNames := by decide

theorem funcTable_bodies_covered :
    ∀ f ∈ funcTable, ∃ b ∈ coveredBodies, (FuncInfo.ofEntry f).body = some b ∧ (FuncInfo.ofEntry f).vecIsTwin = true := by
  decide

end Kvql
