/-
  The DELETE shortcut (optimizer.go: canOptimizeDeletePlanToRemovePlan): when the filter has no
  `&`/`and` and the inferred scan type is MGET, the key list is *exactly* the set of keys on
  which the filter holds — so removing those keys without reading them is what DELETE means.
-/
import Kvql.Proofs.ScanSound

namespace Kvql.Scan
open Kvql.Bytes (Pre)

/-- exactness of a scan type for a key predicate `P`: an MGET lists exactly the keys of `P`,
    EMPTY means `P` never holds, a one-point RANGE [a, a] means `P` is "the key is a".
    (Nothing is claimed of PREFIX, other RANGEs and FULL: they are re-filtered pair by pair.) -/
def ExactP (P : Bytes → Prop) : Scan → Prop
  | .mget ks => ∀ k, P k ↔ k ∈ ks
  | .empty => ∀ k, ¬ P k
  | .range (some a) (some b) => a = b → ∀ k, P k ↔ k = a
  | _ => True

theorem mget_like_exact {P : Bytes → Prop} {ks : List Bytes} (h : ∀ k, P k ↔ k ∈ ks) :
    ExactP P (if ks.isEmpty then .empty else .mget ks) := by
  split
  · rename_i he
    simp only [List.isEmpty_iff] at he
    subst he
    intro k; simp [h k]
  · exact h

theorem unionMget_exact {P Q : Bytes → Prop} {a b : List Bytes}
    (hl : ExactP P (.mget a)) (hr : ExactP Q (.mget b)) :
    ExactP (fun k => P k ∨ Q k) (unionMget a b) := by
  unfold unionMget
  apply mget_like_exact
  intro k
  simp only [mem_sort, mem_dedup, List.mem_append]
  exact or_congr (hl k) (hr k)

theorem unionRange_exact {P Q : Bytes → Prop} {a b c d : OB}
    (wl : WF (.range a b)) (wr : WF (.range c d))
    (hl : ExactP P (.range a b)) (hr : ExactP Q (.range c d)) :
    ExactP (fun k => P k ∨ Q k) (unionRange a b c d) := by
  unfold unionRange
  rw [swap_wf wl, swap_wf wr]
  unfold unionBounds
  cases a <;> cases b <;> cases c <;> cases d <;>
    simp [WF, ExactP, bv, Bytes.lt_iff, Bytes.eq_iff] at * <;>
    (repeat' split) <;> simp_all <;> grind

theorem unionMgetAndRange_exact {P Q : Bytes → Prop} {ks : List Bytes} {rs re : OB}
    (wr : WF (.range rs re)) (hl : ExactP P (.mget ks)) (hr : ExactP Q (.range rs re)) :
    ExactP (fun k => P k ∨ Q k) (unionMgetAndRange ks rs re) := by
  unfold unionMgetAndRange
  split
  · split
    · cases rs <;> cases re <;>
        simp [WF, ExactP, bv, Bytes.lt_iff] at * <;> (repeat' split) <;> simp_all <;> grind
    · trivial
  · rename_i hall
    simp only [List.any_eq_true, Bool.not_eq_eq_eq_not, Bool.not_true, not_exists, not_and,
      Bool.not_eq_false] at hall
    cases rs <;> cases re <;> simp [ExactP] at hl hr ⊢
    rename_i x y
    intro hxy
    subst hxy
    intro k
    rw [hl k, hr rfl k]
    constructor
    · rintro (h | h)
      · have := (inRange_some wr).mp (hall k h)
        simp [region] at this
        exact List.le_antisymm this.2 this.1
      · exact h
    · exact Or.inr

/-- PREFIX ∪ RANGE never yields a point read or a one-point range (its two `MGET` exits need
    `prefix == range end` together with conditions that exclude it when start ≤ end) -/
theorem unionPrefixAndRange_ne_mget {p : Bytes} {rs re : OB} (wr : WF (.range rs re)) (ks : List Bytes) :
    unionPrefixAndRange p rs re ≠ .mget ks := by
  scan_laws
  unfold unionPrefixAndRange
  cases rs <;> cases re <;>
    simp [WF, inRange, bv, Bytes.le_iff, Bytes.lt_iff, Bytes.eq_iff, Bytes.isPrefix_iff,
      Bytes.isPrefix_false_iff] at * <;>
    (repeat' split) <;> simp <;> grind

theorem unionPrefixAndRange_ne_empty {p : Bytes} {rs re : OB} :
    unionPrefixAndRange p rs re ≠ .empty := by
  unfold unionPrefixAndRange
  (repeat' split) <;> simp

theorem unionPrefixAndRange_ne_point {p : Bytes} {rs re : OB} (wr : WF (.range rs re)) (a : Bytes) :
    unionPrefixAndRange p rs re ≠ .range (some a) (some a) := by
  scan_laws
  unfold unionPrefixAndRange
  cases rs <;> cases re <;>
    simp [WF, inRange, bv, Bytes.le_iff, Bytes.lt_iff, Bytes.eq_iff, Bytes.isPrefix_iff,
      Bytes.isPrefix_false_iff] at * <;>
    (repeat' split) <;> simp <;> grind

theorem unionPrefixAndRange_exact {P : Bytes → Prop} {p : Bytes} {rs re : OB}
    (wr : WF (.range rs re)) : ExactP P (unionPrefixAndRange p rs re) := by
  have h1 := unionPrefixAndRange_ne_mget (p := p) wr
  have h2 := unionPrefixAndRange_ne_empty (p := p) (rs := rs) (re := re)
  have h3 := unionPrefixAndRange_ne_point (p := p) wr
  revert h1 h2 h3
  cases unionPrefixAndRange p rs re with
  | range a b =>
    cases a <;> cases b <;> simp [ExactP]
    intro h e; subst e; exact absurd rfl h
  | _ => simp [ExactP]

theorem exact_or_empty_left {P Q : Bytes → Prop} {s : Scan} (hl : ∀ k, ¬ P k) (hr : ExactP Q s) :
    ExactP (fun k => P k ∨ Q k) s := by
  have : (fun k => P k ∨ Q k) = Q := by funext k; simp [hl k]
  rw [this]; exact hr

theorem exact_or_empty_right {P Q : Bytes → Prop} {s : Scan} (hl : ExactP P s) (hr : ∀ k, ¬ Q k) :
    ExactP (fun k => P k ∨ Q k) s := by
  have : (fun k => P k ∨ Q k) = P := by funext k; simp [hr k]
  rw [this]; exact hl

/-- OR keeps exactness -/
theorem orScan_exact {P Q : Bytes → Prop} {l r : Scan} (wl : WF l) (wr : WF r)
    (hl : ExactP P l) (hr : ExactP Q r) : ExactP (fun k => P k ∨ Q k) (orScan l r) := by
  cases l <;> cases r <;> scan_kinds <;>
    first
    | trivial
    | exact exact_or_empty_left hl hr
    | exact exact_or_empty_right hl hr
    | exact unionMget_exact hl hr
    | exact unionRange_exact wl wr hl hr
    | exact unionMgetAndRange_exact wr hl hr
    | (have : (fun k => P k ∨ Q k) = (fun k => Q k ∨ P k) := by funext k; exact propext or_comm
       rw [this]; exact unionMgetAndRange_exact wl hr hl)
    | exact unionPrefixAndRange_exact wr
    | exact unionPrefixAndRange_exact wl
    | (unfold unionPrefix; (repeat' split) <;> trivial)
    | (unfold unionMgetAndPrefix; split <;> trivial)

/-! ### the evaluator, both directions, for the shapes that can yield MGET without AND -/

/-- `Sem` plus the converse directions for `|`/`or`, key equality, IN, `<=` and BETWEEN: on these
    the evaluator says "true" exactly when the documented meaning holds -/
structure SemExact (ev : Expr → Bytes → Bool) : Prop extends Sem ev where
  or_conv : ∀ p l r k, ev l k = true ∨ ev r k = true → ev (.binop p .or l r) k = true
  kwOr_conv : ∀ p l r k, ev l k = true ∨ ev r k = true → ev (.binop p .kwOr l r) k = true
  eq_r_conv : ∀ p p1 p2 lit, ev (.binop p .eq (.field p1 .key) (.str p2 lit)) lit = true
  eq_l_conv : ∀ p p1 p2 lit, ev (.binop p .eq (.str p1 lit) (.field p2 .key)) lit = true
  lte_r_conv : ∀ p p1 p2 lit k, k ≤ lit → ev (.binop p .lte (.field p1 .key) (.str p2 lit)) k = true
  gte_l_conv : ∀ p p1 p2 lit k, k ≤ lit → ev (.binop p .gte (.str p1 lit) (.field p2 .key)) k = true
  in_conv : ∀ p p1 p2 items k, (stringItems items).2 = true → k ∈ (stringItems items).1 →
    ev (.binop p .in_ (.field p1 .key) (.list p2 items)) k = true
  between_conv : ∀ p p1 p2 p3 p4 lo hi k, lo ≤ k → k ≤ hi →
    ev (.binop p .between (.field p1 .key) (.list p2 [.str p3 lo, .str p4 hi])) k = true

/-- no `&`/`and` where `optimizeExpr` recurses (implied by `hasAndOp e = false`, which looks at
    every node) -/
def noAndSpine : Expr → Bool
  | .binop _ .and _ _ => false
  | .binop _ .kwAnd _ _ => false
  | .binop _ .or l r => noAndSpine l && noAndSpine r
  | .binop _ .kwOr l r => noAndSpine l && noAndSpine r
  | _ => true

theorem noAndSpine_of_hasAndOp {e : Expr} (h : hasAndOp e = false) : noAndSpine e = true := by
  fun_induction noAndSpine e <;> simp_all [hasAndOp]

theorem gtgte_exact {P : Bytes → Prop} (l r : Expr) : ExactP P (optimizeGtGteExpr l r) := by
  unfold optimizeGtGteExpr; (repeat' split) <;> simp [ExactP]

theorem prefix_exact {P : Bytes → Prop} (l r : Expr) : ExactP P (optimizePrefixMatchExpr l r) := by
  unfold optimizePrefixMatchExpr; (repeat' split) <;> simp [ExactP]

theorem ltlte_exact {P : Bytes → Prop} {op : Op} {l r : Expr}
    (hs : operands l r = (.key, some []) → (op = .lt ∨ op = .gt) → ∀ k, ¬ P k)
    (hn : operands l r = (.key, some []) → ¬ (op = .lt ∨ op = .gt) → ∀ k, P k ↔ k = []) :
    ExactP P (optimizeLtLteExpr op l r) := by
  unfold optimizeLtLteExpr
  split
  · rename_i d hd
    split
    · rename_i he
      have hd0 : d = [] := by simpa using he
      subst hd0
      split
      · rename_i hop; exact hs hd (by simpa using hop)
      · rename_i hop
        intro k
        rw [hn hd (by simpa using hop) k]; simp
    · simp [ExactP]
  · trivial

section exact
variable {ev : Expr → Bytes → Bool} (S : SemExact ev)
include S

theorem exact_optimizeExpr (e : Expr) (h : noAndSpine e = true) :
    ExactP (fun k => ev e k = true) (optimizeExpr e) := by
  unfold optimizeExpr
  fun_induction infer e
  case case1 => simp [noAndSpine] at h
  case case2 => simp [noAndSpine] at h
  case case3 p l r ihl ihr =>
    simp only [noAndSpine, Bool.and_eq_true] at h
    have := orScan_exact (wf_optimizeExpr l) (wf_optimizeExpr r) (ihl h.1) (ihr h.2)
    have e : (fun k => ev (.binop p .or l r) k = true) = (fun k => ev l k = true ∨ ev r k = true) := by
      funext k; exact propext ⟨S.or_ _ _ _ _, S.or_conv _ _ _ _⟩
    rw [e]; exact this
  case case4 p l r ihl ihr =>
    simp only [noAndSpine, Bool.and_eq_true] at h
    have := orScan_exact (wf_optimizeExpr l) (wf_optimizeExpr r) (ihl h.1) (ihr h.2)
    have e : (fun k => ev (.binop p .kwOr l r) k = true) = (fun k => ev l k = true ∨ ev r k = true) := by
      funext k; exact propext ⟨S.kwOr _ _ _ _, S.kwOr_conv _ _ _ _⟩
    rw [e]; exact this
  case case5 => exact prefix_exact _ _
  case case6 p l r =>
    show ExactP _ (optimizeEqualExpr l r)
    unfold optimizeEqualExpr
    split
    · rename_i d hd
      intro k
      rcases operands_key hd with ⟨p1, p2, rfl, rfl⟩ | ⟨p1, p2, rfl, rfl⟩
      · constructor
        · intro hk; simp [S.eq_r _ _ _ _ _ hk]
        · intro hk; simp only [List.mem_singleton] at hk; subst hk; exact S.eq_r_conv _ _ _ _
      · constructor
        · intro hk; simp [S.eq_l _ _ _ _ _ hk]
        · intro hk; simp only [List.mem_singleton] at hk; subst hk; exact S.eq_l_conv _ _ _ _
    · trivial
  case case7 p l r =>
    show ExactP _ (if isStr l = true then _ else _)
    split
    · rename_i hs   -- 'lit' > key
      refine ltlte_exact ?_ (by intro _ hop; simp at hop)
      intro hd _ k hk
      rcases operands_key hd with ⟨p1, p2, rfl, rfl⟩ | ⟨p1, p2, rfl, rfl⟩
      · simp [isStr] at hs
      · exact absurd (S.gt_l _ _ _ _ _ hk) (List.not_lt_nil k)
    · exact gtgte_exact _ _
  case case8 p l r =>
    show ExactP _ (if isStr l = true then _ else _)
    split
    · rename_i hs   -- 'lit' >= key
      refine ltlte_exact (by intro _ hop; simp at hop) ?_
      intro hd _ k
      rcases operands_key hd with ⟨p1, p2, rfl, rfl⟩ | ⟨p1, p2, rfl, rfl⟩
      · simp [isStr] at hs
      · constructor
        · intro hk
          have h1 := S.gte_l _ _ _ _ _ hk
          have h2 := Bytes.nil_le k
          exact List.le_antisymm h1 h2
        · intro hk; subst hk; exact S.gte_l_conv _ _ _ _ _ (List.le_refl _)
    · exact gtgte_exact _ _
  case case9 p l r =>
    show ExactP _ (if isStr l = true then _ else _)
    split
    · exact gtgte_exact _ _
    · rename_i hs  -- key < 'lit'
      refine ltlte_exact ?_ (by intro _ hop; simp at hop)
      intro hd _ k hk
      rcases operands_key hd with ⟨p1, p2, rfl, rfl⟩ | ⟨p1, p2, rfl, rfl⟩
      · exact absurd (S.lt_r _ _ _ _ _ hk) (List.not_lt_nil k)
      · simp [isStr] at hs
  case case10 p l r =>
    show ExactP _ (if isStr l = true then _ else _)
    split
    · exact gtgte_exact _ _
    · rename_i hs  -- key <= 'lit'
      refine ltlte_exact (by intro _ hop; simp at hop) ?_
      intro hd _ k
      rcases operands_key hd with ⟨p1, p2, rfl, rfl⟩ | ⟨p1, p2, rfl, rfl⟩
      · constructor
        · intro hk
          have h1 := S.lte_r _ _ _ _ _ hk
          have h2 := Bytes.nil_le k
          exact List.le_antisymm h1 h2
        · intro hk; subst hk; exact S.lte_r_conv _ _ _ _ _ (List.le_refl _)
      · simp [isStr] at hs
  case case11 p l r =>
    show ExactP _ (optimizeInExpr l r)
    unfold optimizeInExpr
    dsimp only
    split
    · rename_i p2 items
      split
      · rename_i hc
        simp only [Bool.and_eq_true, beq_iff_eq] at hc
        obtain ⟨⟨hf, _⟩, hcan⟩ := hc
        obtain ⟨p1, rfl⟩ := leftField_key hf
        intro k
        exact ⟨S.in_ _ _ _ items k hcan, S.in_conv _ _ _ items k hcan⟩
      · trivial
    · simp [ExactP]
  case case12 p l r =>
    show ExactP _ (optimizeBetweenExpr l r)
    unfold optimizeBetweenExpr
    dsimp only
    split
    · rename_i p2 p3 lo p4 hi
      split
      · rename_i hf
        obtain ⟨p1, rfl⟩ := leftField_key (by simpa using hf)
        split
        · rename_i hlt
          intro e; subst e
          exact absurd ((Bytes.lt_iff _ _).mp hlt) (List.lt_irrefl _)
        · intro e; subst e
          intro k
          constructor
          · intro hk
            have := S.between_ _ _ _ _ _ _ _ _ hk
            exact List.le_antisymm this.2 this.1
          · intro hk; subst hk
            exact S.between_conv _ _ _ _ _ _ _ _ (List.le_refl _) (List.le_refl _)
      · trivial
    · trivial
  case case13 => trivial
  case case14 pos data b =>
    show ExactP _ (if b = true then Scan.full else Scan.empty)
    cases b
    · intro k; simp [S.false_]
    · trivial
  case case15 => trivial

/-- `delete_shortcut_exact`: no `&`/`and` on the way down and an MGET inferred — then the filter
    holds on a key if and only if the key is in the list (for every pair with that key: the
    evaluator of such a filter does not look at the value).  This is what makes replacing
    `delete where …` by the removal of the listed keys correct. -/
theorem delete_shortcut_exact (e : Expr) (h : noAndSpine e = true) (ks : List Bytes)
    (hm : optimizeExpr e = .mget ks) (k : Bytes) : ev e k = true ↔ k ∈ ks := by
  have := exact_optimizeExpr S e h
  rw [hm] at this
  exact this k

/-- the same for the plan `buildDeletePlan` hands over: a RemovePlan's keys are exactly the keys
    on which the filter holds -/
theorem removePlan_exact (e : Expr) (ks : List Bytes) (h : buildDeletePlan e = .remove ks)
    (k : Bytes) : ev e k = true ↔ k ∈ ks := by
  unfold buildDeletePlan optimize at h
  cases hm : optimizeExpr e with
  | mget ks' =>
    rw [hm] at h
    simp only [plan] at h
    split at h
    · cases h
    · rename_i hna
      cases h
      rw [mem_sort, mem_dedup]
      exact delete_shortcut_exact S e (noAndSpine_of_hasAndOp (by simpa using hna)) ks' hm k
  | _ => rw [hm] at h; simp [plan] at h

end exact

end Kvql.Scan
