/-
  C13 (1): a SELECT issues read calls only (and leaves the store as it was).
-/
import Kvql.Proofs.PlanProofsEmits

namespace Kvql.Proofs.Plan

open Kvql Kvql.Storage Kvql.Plans

/-- the entry is a read call -/
def IsRead (e : Entry) : Prop := e.call.isRead = true

theorem allowsReads_isRead : AllowsReads IsRead := fun _ _ h => h

theorem Emits.const' {P : Entry → Prop} (r : ρ) : Emits P (fun _ w => (r, w)) :=
  Emits.nothing (fun _ _ => rfl)

/-- polling a `select *` plan yields a `select *` plan over the same node and filter -/
theorem poll_select_plan (node : ScanNode) (filter : Filter) (st : ScanSt) (kind : PollKind) (bs : Nat)
    (f : Option Nat) (w : World) :
    ∃ st', ((Plan.select node filter st).poll kind bs f w).1.plan = .select node filter st' := by
  cases kind with
  | next =>
    simp only [Plan.poll]
    rcases node.next filter st f w with ⟨r, w'⟩
    cases r with
    | error e => exact ⟨st, rfl⟩
    | ok x => obtain ⟨r, st'⟩ := x; cases r <;> exact ⟨st', rfl⟩
  | batch =>
    simp only [Plan.poll]
    rcases node.batch filter bs st f w with ⟨r, w'⟩
    cases r with
    | error e => exact ⟨st, rfl⟩
    | ok x => exact ⟨x.2, rfl⟩

theorem em_pollSelect {P : Entry → Prop} (hP : AllowsReads P) (node : ScanNode) (filter : Filter) (st : ScanSt)
    (kind : PollKind) (bs : Nat) : Emits P ((Plan.select node filter st).poll kind bs) := by
  cases kind with
  | next =>
    refine Emits.seq (g1 := node.next filter st)
      (fun r => match r with
        | .ok (none, st') => fun _ w => (⟨[], none, .select node filter st'⟩, w)
        | .ok (some p, st') => fun _ w => (⟨[.pair p], none, .select node filter st'⟩, w)
        | .error e => fun _ w => (⟨[], some e, .select node filter st⟩, w)) ?_ (em_scanNext hP _ _ _) ?_
    · intro f w
      simp only [Plan.poll]
      rcases h : node.next filter st f w with ⟨r, w'⟩
      cases r with
      | error e => rfl
      | ok x => obtain ⟨r, st'⟩ := x; cases r <;> rfl
    · intro r
      cases r with
      | error e => exact Emits.const' _
      | ok x => obtain ⟨r, st'⟩ := x; cases r <;> exact Emits.const' _
  | batch =>
    refine Emits.seq (g1 := node.batch filter bs st)
      (fun r => match r with
        | .ok (rows, st') => fun _ w => (⟨rows.map .pair, none, .select node filter st'⟩, w)
        | .error e => fun _ w => (⟨[], some e, .select node filter st⟩, w)) ?_ (em_scanBatch hP _ _ _ _) ?_
    · intro f w
      simp only [Plan.poll]
      rcases h : node.batch filter bs st f w with ⟨r, w'⟩
      cases r <;> rfl
    · intro r
      cases r <;> exact Emits.const' _

theorem em_drainSelect {P : Entry → Prop} (hP : AllowsReads P) (node : ScanNode) (filter : Filter)
    (kind : PollKind) (bs fuel : Nat) :
    ∀ st acc, Emits P (drain kind bs fuel (.select node filter st) acc) := by
  induction fuel with
  | zero => intro st acc; exact Emits.const' _
  | succ fuel ih =>
    intro st acc
    refine Emits.seq' (g1 := (Plan.select node filter st).poll kind bs)
      (fun r => match r with
        | ⟨rows, some e, _⟩ => fun _ w => (⟨.execErr e, if rows.isEmpty then acc else acc ++ [rows]⟩, w)
        | ⟨[], none, _⟩ => fun _ w => (⟨.ok, acc⟩, w)
        | ⟨rows, none, plan'⟩ => drain kind bs fuel plan' (acc ++ [rows])) ?_ (em_pollSelect hP _ _ _ _ _) ?_
    · intro f w
      simp only [drain]
      rcases h : (Plan.select node filter st).poll kind bs f w with ⟨⟨rows, e, p'⟩, w'⟩
      cases e with
      | some e => rfl
      | none => cases rows <;> rfl
    · intro f w
      obtain ⟨st', hst⟩ := poll_select_plan node filter st kind bs f w
      rcases h : (Plan.select node filter st).poll kind bs f w with ⟨⟨rows, e, p'⟩, w'⟩
      rw [h] at hst
      simp only at hst
      subst hst
      cases e with
      | some e => exact Emits.const' _
      | none =>
        cases rows with
        | nil => exact Emits.const' _
        | cons r rs => exact ih _ _

/-- `BuildPlan` of `select *`: two `Init`s of the scan -/
theorem buildPlan_select (node : ScanNode) (filter : Filter) :
    buildPlan (.select node filter) = (do
      let st ← node.init node.newState
      let st' ← node.init st
      pure (Plan.select node filter st')) := by
  funext f w
  simp only [buildPlan, buildPlan1, Plan.init, run_bind, run_pure]
  rcases node.init node.newState f w with ⟨r, w'⟩
  cases r with
  | error e => rfl
  | ok st =>
    simp only [run_bind, run_pure]

theorem em_runSelect {P : Entry → Prop} (hP : AllowsReads P) (node : ScanNode) (filter : Filter)
    (kind : PollKind) (bs : Nat) : Emits P (runG (.select node filter) kind bs) := by
  refine Emits.seq' (g1 := buildPlan (.select node filter))
    (fun r => match r with
      | .error e => fun _ w => (⟨.planErr e, []⟩, w)
      | .ok plan => drain kind bs (plan.size + 2) plan []) ?_ ?_ ?_
  · intro f w
    simp only [runG]
    rcases h : buildPlan (.select node filter) f w with ⟨r, w'⟩
    cases r <;> rfl
  · rw [buildPlan_select]
    exact Emits.bind (em_scanInit hP _ _) (fun st => Emits.bind (em_scanInit hP _ _) (fun _ => Emits.pure _))
  · intro f w
    rw [buildPlan_select]
    simp only [run_bind, run_pure]
    rcases node.init node.newState f w with ⟨r, w'⟩
    cases r with
    | error e => exact Emits.const' _
    | ok st =>
      simp only []
      rcases node.init st f w' with ⟨r, w''⟩
      cases r with
      | error e => exact Emits.const' _
      | ok st' => exact em_drainSelect hP _ _ _ _ _ _ _

end Kvql.Proofs.Plan
