/-
  Statement level WITH ALIAS REFERENCES: what `foldSelect_rel` (Proofs/FoldVecResStmt.lean) gives for the
  whole-statement theorems.  For a SELECT `planStage` accepts whose alias references sit in `plain` places:
  * the folded, re-pointed statement evaluates (row and batch evaluator, cache off) to the values of the
    parsed one, is `vecOk` where the parsed one is, and keeps its kinds (`folded_refines_parsed`);
  * hence `EvalOK` / `BatchEvalOK` on the folded statement follow from `ExecOK` / `BatchExecOK` on the
    parsed one, and the kinds C14 proves for the parsed trees hold for the folded ones.
  The alias hypotheses of C05 on the folded statement (`AliasOK s f`: decidable `aliasOKb`) are NOT derived:
  they can fail for an accepted statement (`select 'a'+'b' as x, x`: the field is folded to a `[]byte`
  literal, the node the reference points at still yields a Go string).
-/
import Kvql.Proofs.FoldVecResStmt
import Kvql.Proofs.FoldVecRun

namespace Kvql.Proofs.FoldVecRun
open Kvql Kvql.Run Kvql.Plans Kvql.Storage Kvql.Project Kvql.Cache Kvql.Proofs.Typing Kvql.Proofs.RunFields
open Kvql.Proofs.RunFold Kvql.Proofs.RunTables Kvql.Fold
open Kvql.PlanCheck (planStage finalPlanCheck)

/-- the decidable side condition of the alias theorems: every field has a name, and alias references sit
    where `Fold.plain` allows them (not inside an IN / BETWEEN list, not under a field access) -/
def plainStmt (s : SelectS) : Bool :=
  (s.fieldNames.length == s.fields.length) && Fold.plain s.where_ && s.fields.all Fold.plain

theorem plainStmt_sound {s : SelectS} (h : plainStmt s = true) :
    s.fieldNames.length = s.fields.length ∧ Fold.plain s.where_ = true ∧ ∀ e ∈ s.fields, Fold.plain e = true := by
  simp only [plainStmt, Bool.and_eq_true, beq_iff_eq, List.all_eq_true] at h
  exact ⟨h.1.1, h.1.2, h.2⟩

mutual
  theorem plain_of_aliasFree : ∀ e : Expr, aliasFree e = true → Fold.plain e = true
    | .binop _ _ l r, h => by
      simp only [aliasFree, Bool.and_eq_true] at h
      simp [Fold.plain, plain_of_aliasFree l h.1, plain_of_aliasFree r h.2]
    | .not _ r, h => by
      simp only [aliasFree] at h
      simp [Fold.plain, plain_of_aliasFree r h]
    | .call _ n args, h => by
      simp only [aliasFree, Bool.and_eq_true] at h
      simp [Fold.plain, h.1, plainList_of_aliasFree args h.2]
    | .list _ items, h => by
      simp only [aliasFree] at h
      simp [Fold.plain, h]
    | .access _ l f, h => by
      simp only [aliasFree, Bool.and_eq_true] at h
      simp [Fold.plain, h.1, h.2]
    | .ref .., h => by simp [aliasFree] at h
    | .cycle, h => by simp [aliasFree] at h
    | .field .., _ | .str .., _ | .name .., _ | .num .., _ | .float .., _ | .bool .., _ => rfl
  theorem plainList_of_aliasFree : ∀ es : List Expr, aliasFree.aliasFreeList es = true → Fold.plainList es = true
    | [], _ => rfl
    | e :: es, h => by
      simp only [aliasFree.aliasFreeList, Bool.and_eq_true] at h
      simp [Fold.plainList, plain_of_aliasFree e h.1, plainList_of_aliasFree es h.2]
end

theorem rows_mem_right {α β : Type} {P : α → β → Prop} : ∀ {as : List α} {bs : List β}, Rows P as bs →
    ∀ b ∈ bs, ∃ a ∈ as, P a b
  | _, _, .nil, b, h => by simp at h
  | _, _, .cons hp hr, b, h => by
    rcases List.mem_cons.mp h with rfl | h
    · exact ⟨_, by simp, hp⟩
    · obtain ⟨a, ha, hp'⟩ := rows_mem_right hr b h
      exact ⟨a, List.mem_cons_of_mem _ ha, hp'⟩

theorem rows_and3 {α β : Type} {P Q R : α → β → Prop} : ∀ {as : List α} {bs : List β}, Rows P as bs → Rows Q as bs →
    Rows R as bs → Rows (fun a b => P a b ∧ Q a b ∧ R a b) as bs
  | _, _, .nil, _, _ => .nil
  | _, _, .cons hp hr, .cons hq hs, .cons hx ht => .cons ⟨hp, hq, hx⟩ (rows_and3 hr hs ht)

/-- the relation of `folded_refines_parsed`: row values and static type are always part of it -/
structure FoldedOf (e e' : Expr) : Prop where
  row : Sem e e'
  batch : SemB e e'
  kind : ∀ k, kindOf e = some k → kindOf e' = some k
  vec : e.vecOk = true → e'.vecOk = true

/-- **THE FOLDED, RE-POINTED STATEMENT AGAINST THE PARSED ONE** (`Parser.resolveTop` after `Fold`): WHERE
    against WHERE, field against field — row values, batch values, kinds, `vecOk` -/
theorem folded_refines_parsed {pf : Bytes → F64} {toks : Toks} {s : SelectS} (hplan : planStage pf toks = .ok (.select s))
    (hpl : plainStmt s = true) {f : FoldedSelect} (hf : foldSelect s = .ok f) :
    FoldedOf s.where_ f.where_ ∧ Rows FoldedOf s.fields f.fields := by
  obtain ⟨hnames, hpw, hpf⟩ := plainStmt_sound hpl
  obtain ⟨b1, b2, _⟩ := foldSelect_rel batchRSys hplan hnames hpw hpf hf
  obtain ⟨k1, k2, _⟩ := foldSelect_rel kindRSys hplan hnames hpw hpf hf
  obtain ⟨v1, v2, _⟩ := foldSelect_rel vecRSys hplan hnames hpw hpf hf
  exact ⟨⟨b1.1, b1.2, k1.2, v1.2⟩, (rows_and3 b2 k2 v2).imp fun _ _ ⟨hb, hk, hv⟩ => ⟨hb.1, hb.2, hk.2, hv.2⟩⟩

section alias
variable {pf : Bytes → F64} {toks : Toks} {s : SelectS} {f : FoldedSelect}

/-- the kinds of the folded trees of an accepted SELECT, alias references allowed -/
theorem folded_kinds_alias (hplan : planStage pf toks = .ok (.select s)) (hpl : plainStmt s = true)
    (hsw : sideOkD s.where_ = true) (hsf : ∀ e ∈ s.fields, sideOkD e = true ∧ noSiteAggr e = true)
    (hf : foldSelect s = .ok f) :
    kindOf f.where_ = some .bool ∧ ∀ g ∈ selFields s f, ∃ k, kindOf g.expr = some k := by
  obtain ⟨hw, hfs⟩ := folded_refines_parsed hplan hpl hf
  refine ⟨hw.kind _ (accepted_select_where_kind_alias hplan hsw), fun g hg => ?_⟩
  unfold selFields at hg
  obtain ⟨⟨nm, e'⟩, hp, rfl⟩ := List.mem_map.mp hg
  obtain ⟨e, he, hrel⟩ := rows_mem_right hfs e' (List.of_mem_zip hp).2
  obtain ⟨k, hk, _⟩ := accepted_select_field_kind_alias hplan e he (hsf e he).1 (hsf e he).2
  exact ⟨k, hrel.kind k hk⟩

theorem runStmt_no_ot_alias (hplan : planStage pf toks = .ok (.select s)) (hnoaggr : finalPlanCheck s = .ok false)
    (hpl : plainStmt s = true) (hsw : sideOkD s.where_ = true)
    (hsf : ∀ e ∈ s.fields, sideOkD e = true ∧ noSiteAggr e = true) (hf : foldSelect s = .ok f) (hA : AliasOK s f)
    (store : Store) (kind : PollKind) (hk : kind = .next ∨ store.Sorted) (bs : Nat) (hbs : 1 ≤ bs) (cache : Bool)
    (fl : Fail) (h : (runStmt (.select s) store kind bs cache).fail = some fl) : ¬ OpFail fl := by
  obtain ⟨hkw, hkf⟩ := folded_kinds_alias hplan hpl hsw hsf hf
  exact runStmt_no_ot_of_kinds hnoaggr hf hA hkw hkf store kind hk bs hbs cache fl h

/-- **row mode: from the parsed statement to the folded one, alias references allowed** -/
theorem folded_of_execOK_alias (hplan : planStage pf toks = .ok (.select s)) (hpl : plainStmt s = true)
    (hf : foldSelect s = .ok f) {store : Store} (h : ExecOK s store) :
    EvalOK s f store ∧
    (∀ p ∈ store, Select.accepted f.where_ p = Select.accepted s.where_ p) ∧
    (∀ p ∈ store, Select.accepted s.where_ p = true →
      Rows (fun col e => ∃ v, exec e (toKv p) Ctx.off = (.ok v, Ctx.off) ∧ Kvql.Rel col v)
        ((selFields s f).map (fun g => colVal g.expr p)) s.fields) := by
  obtain ⟨hnames, _, _⟩ := plainStmt_sound hpl
  obtain ⟨hw, hfs⟩ := folded_refines_parsed hplan hpl hf
  have hlen : s.fields.length = f.fields.length := hfs.length_eq
  have hexprs : (selFields s f).map (·.expr) = f.fields := selFields_exprs (by omega)
  have hwhere : ∀ p ∈ store, ∀ b, exec s.where_ (toKv p) Ctx.off = (.ok (.bool b), Ctx.off) →
      exec f.where_ (toKv p) Ctx.off = (.ok (.bool b), Ctx.off) := by
    intro p _ b hb
    obtain ⟨v', hv', hrel⟩ := sem_exec hw.row rfl hb
    have : v' = .bool b := by
      rcases hrel with rfl | ⟨x, _, hx⟩
      · rfl
      · cases hx
    rw [← this]; exact hv'
  have hacc : ∀ p ∈ store, Select.accepted f.where_ p = Select.accepted s.where_ p := by
    intro p hp
    obtain ⟨b, hb⟩ := h.filter p hp
    rw [accepted_of_exec hb, accepted_of_exec (hwhere p hp b hb)]
  have hcol : ∀ p ∈ store, Select.accepted s.where_ p = true → ∀ e e', e ∈ s.fields → FoldedOf e e' →
      ∃ v v', exec e (toKv p) Ctx.off = (.ok v, Ctx.off) ∧ rowSupported v = true ∧
        nocache e' (toKv p) = .ok v' ∧ Kvql.Rel v' v := by
    intro p hp ha e e' he hrel
    obtain ⟨v, hv, hsup⟩ := h.fields p hp ha e he
    obtain ⟨v', hv', hr⟩ := sem_exec hrel.row rfl hv
    exact ⟨v, v', hv, hsup, nocache_of_exec hv', hr⟩
  refine ⟨⟨fun p hp => ?_, fun p hp ha g hg => ?_⟩, hacc, fun p hp ha => ?_⟩
  · obtain ⟨b, hb⟩ := h.filter p hp
    exact ⟨b, nocache_of_exec (hwhere p hp b hb)⟩
  · rw [hacc p hp] at ha
    have hge : g.expr ∈ f.fields := by rw [← hexprs]; exact List.mem_map.mpr ⟨g, hg, rfl⟩
    obtain ⟨e, he, hrel⟩ := rows_mem_right hfs g.expr hge
    obtain ⟨v, v', _, hsup, hv', hr⟩ := hcol p hp ha e g.expr he hrel
    exact ⟨v', hv', rowSupported_rel hr hsup⟩
  · have hmap : (selFields s f).map (fun g => colVal g.expr p) = f.fields.map (colVal · p) := by
      rw [← hexprs, List.map_map]; rfl
    rw [hmap]
    apply rows_map_left
    refine Fold.rows_weaken' (Fold.rows_flip hfs) fun e' e he hrel => ?_
    obtain ⟨v, v', hv, _, hv', hr⟩ := hcol p hp ha e e' he hrel
    refine ⟨v, hv, ?_⟩
    unfold colVal
    rw [hv']
    exact hr

/-- the ORDER BY hypothesis, from the parsed statement to the folded one -/
theorem orderHyp_of_parsed_alias (hplan : planStage pf toks = .ok (.select s)) (hpl : plainStmt s = true)
    (hf : foldSelect s = .ok f) {store : Store} (hev : ExecOK s store) (ho : OrderHypParsed s store) :
    OrderHyp s (specRows s f store) := by
  obtain ⟨_, hacc, hrows⟩ := folded_of_execOK_alias hplan hpl hf hev
  unfold OrderHypParsed at ho
  unfold OrderHyp
  cases hord : s.order with
  | none => trivial
  | some o =>
    rw [hord] at ho
    simp only at ho ⊢
    rcases ho with ho | ⟨keys, kinds, hk, hst, hR⟩
    · exact .inl ho
    · refine .inr ⟨keys, kinds, hk, fun r hr => ?_⟩
      unfold specRows at hr
      obtain ⟨p, hp, rfl⟩ := List.mem_map.mp hr
      obtain ⟨hps, hpa⟩ := List.mem_filter.mp hp
      rw [hacc p hps] at hpa
      have hrel : Rows Kvql.Rel ((selFields s f).map (fun g => colVal g.expr p)) (s.fields.map (colVal · p)) := by
        apply rows_map_right
        refine Rows.imp ?_ (hrows p hps hpa)
        intro col e ⟨v, hv, hr⟩
        unfold colVal
        rw [nocache_of_exec hv]
        exact hr
      exact rowOK_of_rel keys kinds hst hrel (hR p hps hpa)

/-- **batch mode: from the parsed statement to the folded one, alias references allowed** -/
theorem folded_of_batchExecOK_alias (hplan : planStage pf toks = .ok (.select s)) (hpl : plainStmt s = true)
    (hf : foldSelect s = .ok f) (hok : s.where_.vecOk = true) {store : Store} (h : BatchExecOK s store) :
    f.where_.vecOk = true ∧ BatchEvalOK s f store ∧
    (∀ p ∈ store, Select.accepted f.where_ p = Select.accepted s.where_ p) ∧
    (∀ p ∈ store, Select.accepted s.where_ p = true → RowOfB s p (batchRow (selFields s f) p)) := by
  obtain ⟨hnames, _, _⟩ := plainStmt_sound hpl
  obtain ⟨hw, hfs⟩ := folded_refines_parsed hplan hpl hf
  have hlen : s.fields.length = f.fields.length := hfs.length_eq
  have hexprs : (selFields s f).map (·.expr) = f.fields := selFields_exprs (by omega)
  have hok' := hw.vec hok
  have hbool : ∀ p ∈ store, ∀ b, PairVal s.where_ (.bool b) (toKv p) → PairVal f.where_ (.bool b) (toKv p) := by
    intro p _ b hb
    obtain ⟨v', hv', hrel⟩ := hw.batch (toKv p) Ctx.off rfl _ hb
    have : v' = .bool b := by
      rcases hrel with rfl | ⟨x, _, hx⟩
      · rfl
      · cases hx
    rw [← this]; exact hv'
  have hacc : ∀ p ∈ store, Select.accepted f.where_ p = Select.accepted s.where_ p := by
    intro p hp
    obtain ⟨b, hb⟩ := h.filter p hp
    rw [accepted_of_pairVal hok hb, accepted_of_pairVal hok' (hbool p hp b hb)]
  refine ⟨hok', ⟨fun p hp => ?_, fun p hp ha g hg => ?_⟩, hacc, fun p hp ha => ?_⟩
  · obtain ⟨b, hb⟩ := h.filter p hp
    exact ⟨b, hbool p hp b hb⟩
  · rw [hacc p hp] at ha
    have hge : g.expr ∈ f.fields := by rw [← hexprs]; exact List.mem_map.mpr ⟨g, hg, rfl⟩
    obtain ⟨e, he, hrel⟩ := rows_mem_right hfs g.expr hge
    obtain ⟨v, hv⟩ := h.fields p hp ha e he
    obtain ⟨v', hv', _⟩ := hrel.batch (toKv p) Ctx.off rfl v hv
    exact ⟨v', hv'⟩
  · have hmap : batchRow (selFields s f) p = f.fields.map (batchVal · p) := by
      unfold batchRow
      rw [← hexprs, List.map_map]; rfl
    unfold RowOfB
    rw [hmap]
    apply rows_map_left
    refine Fold.rows_weaken' (Fold.rows_flip hfs) fun e' e he hrel => ?_
    obtain ⟨v, hv⟩ := h.fields p hp ha e he
    obtain ⟨v', hv', hr⟩ := hrel.batch (toKv p) Ctx.off rfl v hv
    refine ⟨v, hv, ?_⟩
    unfold batchVal
    rw [batchValKv_of_pairVal hv']
    exact hr

/-- the folded fields are `vecOk` when the parsed ones are -/
theorem selFields_vecOk_alias (hplan : planStage pf toks = .ok (.select s)) (hpl : plainStmt s = true)
    (hf : foldSelect s = .ok f) (hvf : ∀ e ∈ s.fields, e.vecOk = true) : ∀ g ∈ selFields s f, g.expr.vecOk = true := by
  obtain ⟨_, hfs⟩ := folded_refines_parsed hplan hpl hf
  intro g hg
  unfold selFields at hg
  obtain ⟨⟨nm, e'⟩, hp, rfl⟩ := List.mem_map.mp hg
  obtain ⟨e, he, hrel⟩ := rows_mem_right hfs e' (List.of_mem_zip hp).2
  exact hrel.vec (hvf e he)

end alias

end Kvql.Proofs.FoldVecRun
