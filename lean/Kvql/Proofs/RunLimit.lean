/-
  End-to-end proofs, LIMIT: the consumer loops of Model/Run.lean (`limitNextLoop`, `limitBatchLoop`:
  the `Kvql.Limit` model run over the child's answers plus a SENTINEL for the child's terminal poll)
  hand out exactly `take count ∘ drop start` of the child's rows — by the lemmas of C08
  (Proofs/LimitProofs.lean: `next_some`, `next_none`, `batch_spec`), which hold for every element
  type, in particular for the sentinel-extended lists.
-/
import Kvql.Model.Run
import Kvql.Proofs.LimitProofs

namespace Kvql.Proofs.RunLimit
open Kvql Kvql.Run Kvql.Limit Kvql.Proofs.Limit

/-! ### row mode -/

/-- the real rows in front of the first sentinel -/
def realPrefix {α : Type} (l : List (Option α)) : List α := (l.takeWhile Option.isSome).filterMap id

theorem realPrefix_slice {α : Type} : ∀ (l : List α) (s c : Nat),
    realPrefix (((l.map some ++ [none]).drop s).take c) = (l.drop s).take c
  | [], s, c => by
    cases s with
    | zero => cases c <;> simp [realPrefix]
    | succ s => simp [realPrefix]
  | x :: xs, 0, c => by
    cases c with
    | zero => simp [realPrefix]
    | succ c =>
      have ih := realPrefix_slice xs 0 c
      simp only [List.drop_zero] at ih
      simp only [List.map_cons, List.cons_append, List.drop_zero, List.take_succ_cons, realPrefix,
        List.takeWhile_cons, Option.isSome_some, if_true, List.filterMap_cons, id]
      unfold realPrefix at ih
      rw [ih]
  | x :: xs, s + 1, c => by
    have ih := realPrefix_slice xs s c
    simpa using ih

/-- `FinalLimitPlan.Next` drained over a sentinel-extended child: the rows handed out are the real
    rows of the slice `take (count - current) ∘ drop (start - skips)` in front of the sentinel -/
theorem limitNextLoop_gen {α : Type} (start count : Nat) : ∀ (fuel : Nat) (st : St) (child : List (Option α)) (acc : List α),
    child.length + 1 ≤ fuel →
    (limitNextLoop start count fuel st child acc).1 =
      acc ++ realPrefix ((child.drop (start - st.skips)).take (count - st.current))
  | 0, _, child, _, h => by omega
  | fuel + 1, st, child, acc, h => by
    rcases hn : Limit.next start count st child with ⟨o, st', child'⟩
    cases o with
    | none =>
      have := next_none _ _ _ _ _ _ hn
      simp [limitNextLoop, hn, this, realPrefix]
    | some x =>
      obtain ⟨h1, h2, h3, h4⟩ := next_some _ _ _ _ _ _ _ hn
      have hc : count - st.current = (count - (st.current + 1)) + 1 := by omega
      cases x with
      | none =>
        simp [limitNextLoop, hn, h1, hc, realPrefix]
      | some r =>
        have hlen : child'.length + 1 ≤ fuel := by
          have := congrArg List.length h1
          simp at this; omega
        have ih := limitNextLoop_gen start count fuel st' child' (acc ++ [r]) hlen
        simp only [limitNextLoop, hn]
        rw [ih, h1, h3, h4, hc]
        simp [realPrefix]

theorem limitNextLoop_rows {α : Type} (start count : Nat) (rows : List α) (fuel : Nat)
    (h : rows.length + 2 ≤ fuel) :
    (limitNextLoop start count fuel {} (rows.map some ++ [none]) []).1 = (rows.drop start).take count := by
  rw [limitNextLoop_gen start count fuel {} _ [] (by simp; omega)]
  simpa using realPrefix_slice rows start count

/-! ### batch mode -/

/-- `skipPhase` over a child with the sentinel `[]` behind it -/
theorem skipPhase_sentinel {α : Type} (start : Nat) : ∀ (skips : Nat) (cs : List (List α)),
    skipPhase start skips (cs ++ [[]]) =
      match skipPhase start skips cs with
      | .exhausted k => .exhausted k
      | .done k rows child => .done k rows (child ++ [[]])
  | skips, [] => by
    by_cases h : skips < start
    · simp [skipPhase, h]
    · simp [skipPhase, h]
  | skips, rows :: child => by
    by_cases h : skips < start
    · by_cases hle : rows.length ≤ start - skips
      · simp only [List.cons_append, skipPhase, h, if_true, hle]
        exact skipPhase_sentinel start (skips + rows.length) child
      · simp [skipPhase, h, hle]
    · simp [skipPhase, h]

/-- `fillPhase` over a child of non-empty chunks with the sentinel behind it: the same rows and
    counter; what is left is either what the plain run leaves plus the sentinel, or nothing — the
    sentinel was used up, and then the plain run has used up its child too -/
theorem fillPhase_sentinel {α : Type} (count bs : Nat) : ∀ (cs : List (List α)), (∀ c ∈ cs, c ≠ []) →
    ∀ (current cnt : Nat) (acc : List α),
    (fillPhase count bs current cnt acc (cs ++ [[]])).1 = (fillPhase count bs current cnt acc cs).1 ∧
    (fillPhase count bs current cnt acc (cs ++ [[]])).2.1 = (fillPhase count bs current cnt acc cs).2.1 ∧
    (((fillPhase count bs current cnt acc (cs ++ [[]])).2.2 = [] ∧ (fillPhase count bs current cnt acc cs).2.2 = []) ∨
     (fillPhase count bs current cnt acc (cs ++ [[]])).2.2 = (fillPhase count bs current cnt acc cs).2.2 ++ [[]])
  | [], _, current, cnt, acc => by simp [fillPhase]
  | rows :: child, hne, current, cnt, acc => by
    have hr : rows.isEmpty = false := by
      have := hne rows List.mem_cons_self
      cases rows with
      | nil => exact absurd rfl this
      | cons _ _ => rfl
    have ih := fillPhase_sentinel count bs child (fun c hc => hne c (List.mem_cons_of_mem _ hc))
    simp only [List.cons_append, fillPhase, hr, Bool.false_eq_true, if_false]
    split
    · simp
    · split
      · simp
      · exact ih _ _ _

theorem batch_nil {α : Type} (start count bs : Nat) (st : St) :
    (Limit.batch start count bs st ([] : List (List α))).1 = [] := by
  unfold Limit.batch
  by_cases h : st.skips < start
  · simp [skipPhase, h]
  · simp only [skipPhase, h, if_false, List.take_nil, List.length_nil, Nat.add_zero]
    split <;> simp [fillPhase]

/-- one `Batch` call over a child with the sentinel behind it -/
theorem batch_sentinel {α : Type} (start count bs : Nat) (st : St) (cs : List (List α)) (hne : ∀ c ∈ cs, c ≠ []) :
    (Limit.batch start count bs st (cs ++ [[]])).1 = (Limit.batch start count bs st cs).1 ∧
    (Limit.batch start count bs st (cs ++ [[]])).2.1 = (Limit.batch start count bs st cs).2.1 ∧
    (((Limit.batch start count bs st (cs ++ [[]])).2.2 = [] ∧ (Limit.batch start count bs st cs).2.2 = []) ∨
     (Limit.batch start count bs st (cs ++ [[]])).2.2 = (Limit.batch start count bs st cs).2.2 ++ [[]]) := by
  unfold Limit.batch
  rw [skipPhase_sentinel]
  rcases hs : skipPhase start st.skips cs with k | ⟨k, rows, child⟩
  · simp
  · simp only
    obtain ⟨_, _, hsub, _⟩ := skipPhase_done _ _ _ _ _ _ hs
    split
    · simp
    · have := fillPhase_sentinel count bs child (fun c hc => hne c (hsub c hc))
        (st.current + (List.take (count - st.current) rows).length) (List.take (count - st.current) rows).length
        (List.take (count - st.current) rows)
      obtain ⟨f1, f2, f3⟩ := this
      refine ⟨f1, ?_, f3⟩
      simp only [f2]

/-- the slice a limit plan in state `st` still has to hand out of a child -/
def slice {α : Type} (start count : Nat) (st : St) (cs : List (List α)) : List α :=
  (cs.flatten.drop (start - st.skips)).take (count - st.current)

/-- `FinalLimitPlan.Batch` drained over a sentinel-extended child of non-empty chunks: the batches
    handed out, and — when the sentinel was used up — the batch of that call, are the slice -/
theorem limitBatchLoop_gen {α : Type} (start count bs : Nat) : ∀ (fuel : Nat) (st : St) (cs : List (List α))
    (acc : List (List α)), (∀ c ∈ cs, c ≠ []) → cs.length + 2 ≤ fuel →
    (limitBatchLoop start count bs fuel st (cs ++ [[]]) acc).1.flatten ++
      (if (limitBatchLoop start count bs fuel st (cs ++ [[]]) acc).2.2.isEmpty
        then (limitBatchLoop start count bs fuel st (cs ++ [[]]) acc).2.1 else []) =
      acc.flatten ++ slice start count st cs
  | 0, _, cs, _, _, h => by omega
  | fuel + 1, st, cs, acc, hne, h => by
    obtain ⟨b1, b2, b3⟩ := batch_sentinel start count bs st cs hne
    rcases hb : Limit.batch start count bs st cs with ⟨out, st', child'⟩
    rcases hbs : Limit.batch start count bs st (cs ++ [[]]) with ⟨out2, st2, child2⟩
    rw [hb, hbs] at b1 b2 b3
    simp only at b1 b2 b3
    subst b1 b2
    have spec := batch_spec start count bs st cs hne out2 st2 child' hb
    unfold limitBatchLoop
    simp only [hbs]
    rcases b3 with ⟨e1, e2⟩ | e1
    · -- the sentinel was used up in this call
      subst e1 e2
      simp only [List.isEmpty_nil, if_true]
      by_cases ho : out2 = []
      · subst ho; simp [slice, spec.1 rfl]
      · obtain ⟨s1, _, _⟩ := spec.2 ho
        simp only [List.flatten_nil, List.drop_nil, List.take_nil, List.append_nil] at s1
        simp [slice, ← s1]
    · subst e1
      have hne2 : (child' ++ [[]]).isEmpty = false := by
        cases child' <;> rfl
      simp only [hne2, Bool.false_eq_true, if_false]
      by_cases ho : out2 = []
      · subst ho
        simp only [List.isEmpty_nil, if_true, hne2, Bool.false_eq_true, if_false, List.append_nil]
        simp [slice, spec.1 rfl]
      · have hoe : out2.isEmpty = false := by
          cases out2 with
          | nil => exact absurd rfl ho
          | cons _ _ => rfl
        obtain ⟨s1, s2, s3⟩ := spec.2 ho
        simp only [hoe, Bool.false_eq_true, if_false]
        rw [limitBatchLoop_gen start count bs fuel st2 child' (acc ++ [out2]) (fun c hc => hne c (s2 c hc)) (by omega)]
        simp only [List.flatten_append, List.flatten_cons, List.flatten_nil, List.append_nil, List.append_assoc, slice]
        rw [s1]

theorem limitBatchLoop_rows {α : Type} (start count bs : Nat) (cs : List (List α)) (hne : ∀ c ∈ cs, c ≠ [])
    (fuel : Nat) (h : cs.length + 2 ≤ fuel) :
    (limitBatchLoop start count bs fuel {} (cs ++ [[]]) []).1.flatten ++
      (if (limitBatchLoop start count bs fuel {} (cs ++ [[]]) []).2.2.isEmpty
        then (limitBatchLoop start count bs fuel {} (cs ++ [[]]) []).2.1 else []) =
      (cs.flatten.drop start).take count := by
  simpa [slice] using limitBatchLoop_gen start count bs fuel {} cs [] hne h

/-! ### LIMIT over a trace -/

theorem flatten_single {α : Type} : ∀ l : List α, (l.map (fun x => [x])).flatten = l
  | [] => rfl
  | x :: xs => by simp [flatten_single xs]

/-- all rows of a trace -/
def allRows {α : Type} (t : Trace α) : List α := t.polls.flatMap (·.1)

theorem outcome_rows (t : Trace (List Value)) : t.outcome.rows = allRows t := by
  simp [Trace.outcome, allRows, List.flatMap_def]

/-- **C08 over traces.**  LIMIT over a child that ends without failure and hands out non-empty
    batches: no failure, and the rows are `take count (drop start rows)` of the child's rows — in
    row mode and in batch mode, every batch size. -/
theorem limitTrace_rows (start count : Nat) (kind : Plans.PollKind) (bs : Nat) (t : Trace (List Value))
    (hfin : t.fin.1 = none) (hne : ∀ p ∈ t.polls, p.1 ≠ []) :
    (limitTrace start count kind bs t).outcome.fail = none ∧
    (limitTrace start count kind bs t).outcome.rows = ((allRows t).drop start).take count := by
  cases kind with
  | next =>
    have hrows := limitNextLoop_rows start count (allRows t) (((allRows t).map some ++ [none]).length + 2) (by simp)
    have hdef : (limitTrace start count .next bs t) =
        (let child : List (Option (List Value)) := (allRows t).map some ++ [none]
         let r := limitNextLoop start count (child.length + 2) {} child []
         let w := t.worldAfter (child.length - r.2.length)
         let polls := r.1.map (fun x => ([x], w))
         if r.2.isEmpty then { w0 := t.w0, polls := polls, fin := (t.fin.1, w) }
         else { w0 := t.w0, polls := polls, fin := (none, w) }) := rfl
    rw [hdef]
    simp only
    rw [hrows]
    constructor
    · split <;> simp [Trace.outcome, hfin]
    · have key : ((List.take count (List.drop start (allRows t))).map (fun x => [x])).flatten =
          List.take count (List.drop start (allRows t)) := flatten_single _
      split <;> (simp only [Trace.outcome, List.map_map, Function.comp_def]; exact key)
  | batch =>
    have hne' : ∀ c ∈ t.polls.map (fun (x : List (List Value) × World) => x.1), c ≠ [] := by
      intro c hc
      obtain ⟨p, hp, rfl⟩ := List.mem_map.mp hc
      exact hne p hp
    have hrows := limitBatchLoop_rows start count bs (t.polls.map (fun (x : List (List Value) × World) => x.1)) hne'
      ((t.polls.map (fun (x : List (List Value) × World) => x.1) ++ [[]]).length + 2) (by simp)
    have hall : (t.polls.map (fun (x : List (List Value) × World) => x.1)).flatten = allRows t := by
      simp [allRows, List.flatMap_def]
    rw [hall] at hrows
    have hdef : (limitTrace start count .batch bs t) =
        (let child : List (List (List Value)) := t.polls.map (fun (x : List (List Value) × World) => x.1) ++ [[]]
         let r := limitBatchLoop start count bs (child.length + 2) {} child []
         let w := t.worldAfter (t.polls.length + 1 - r.2.2.length)
         if r.2.2.isEmpty then
           match t.fin.1 with
           | some f => { w0 := t.w0, polls := r.1.map (fun b => (b, w)), fin := (some f, w) }
           | none => { w0 := t.w0, polls := (r.1 ++ (if r.2.1.isEmpty then [] else [r.2.1])).map (fun b => (b, w)), fin := (none, w) }
         else { w0 := t.w0, polls := r.1.map (fun b => (b, w)), fin := (none, w) }) := rfl
    rw [hdef]
    simp only
    generalize limitBatchLoop start count bs ((t.polls.map (fun (x : List (List Value) × World) => x.1) ++ [[]]).length + 2) {}
      (t.polls.map (fun (x : List (List Value) × World) => x.1) ++ [[]]) [] = r at hrows ⊢
    obtain ⟨batches, last, rest⟩ := r
    simp only at hrows ⊢
    by_cases hr : rest.isEmpty = true
    · simp only [hr, if_true] at hrows ⊢
      rw [hfin]
      simp only
      constructor
      · simp [Trace.outcome]
      · rw [← hrows]
        by_cases hlast : last.isEmpty = true
        · have : last = [] := List.isEmpty_iff.mp hlast
          simp [Trace.outcome, List.map_map, Function.comp_def, this]
        · simp [Trace.outcome, List.map_map, Function.comp_def, hlast]
    · simp only [hr, Bool.false_eq_true, if_false, List.append_nil] at hrows ⊢
      constructor
      · simp [Trace.outcome]
      · rw [← hrows]
        simp [Trace.outcome, List.map_map, Function.comp_def]

end Kvql.Proofs.RunLimit
