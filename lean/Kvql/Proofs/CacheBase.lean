/-
  C05, foundations: the alias table of a statement, the cache-free value of an expression, the
  invariant `CacheOK` of the per-pair field cache, and association-list lemmas.
-/
import Kvql.Model.Project
import Kvql.Proofs.ExecOffConst

namespace Kvql.Cache
open Kvql Kvql.Project

/-! ### association lists -/

theorem assocGet_assocSet {α} (m : List (Bytes × α)) (k k' : Bytes) (v : α) :
    assocGet (assocSet m k v) k' = if k == k' then some v else assocGet m k' := by
  induction m with
  | nil => simp [assocSet, assocGet]
  | cons p r ih =>
    obtain ⟨k0, v0⟩ := p
    unfold assocSet
    by_cases h0 : (k0 == k) = true
    · have e0 : k0 = k := by simpa using h0
      subst e0
      simp only [h0, ↓reduceIte]
      by_cases h1 : (k0 == k') = true
      · simp [assocGet, h1]
      · simp [assocGet, h1]
    · simp only [h0, Bool.false_eq_true, ↓reduceIte]
      split
      · by_cases h1 : (k == k') = true
        · simp [assocGet, h1]
        · simp [assocGet, h1]
      · by_cases h2 : (k0 == k') = true
        · have e2 : k0 = k' := by simpa using h2
          subst e2
          have : (k == k0) = false := by
            cases hh : (k == k0)
            · rfl
            · have : k = k0 := by simpa using hh
              subst this; simp at h0
          simp [assocGet, this]
        · simp only [assocGet, h2, Bool.false_eq_true, ↓reduceIte, ih]

theorem assocGet_assocSet_self {α} (m : List (Bytes × α)) (k : Bytes) (v : α) :
    assocGet (assocSet m k v) k = some v := by simp [assocGet_assocSet]

theorem assocGet_assocSet_ne {α} (m : List (Bytes × α)) {k k' : Bytes} (v : α) (h : k ≠ k') :
    assocGet (assocSet m k v) k' = assocGet m k' := by
  have : (k == k') = false := by
    cases hh : (k == k')
    · rfl
    · exact absurd (by simpa using hh) h
  simp [assocGet_assocSet, this]

theorem assocGet_map_snd {α β} (f : α → β) (m : List (Bytes × α)) (k : Bytes) :
    assocGet (m.map (fun (p : Bytes × α) => (p.1, f p.2))) k = (assocGet m k).map f := by
  induction m with
  | nil => simp [assocGet]
  | cons p r ih =>
    obtain ⟨k0, v0⟩ := p
    simp only [List.map_cons, assocGet]
    split <;> simp [ih]

/-! ### the alias table -/

/-- an alias table: the (name, target) pairs the checker resolved.  `GetNamedExpr` returns the FIRST
    select field of a name, so every reference to a name carries the same target -/
abbrev Aliases := List (Bytes × Expr)

/-- every reference in `e` (deep) is an entry of the table -/
def WF (A : Aliases) (e : Expr) : Prop := ∀ p ∈ refs e, p ∈ A
def WFList (A : Aliases) (es : List Expr) : Prop := ∀ p ∈ refsList es, p ∈ A

/-- a name has one target -/
def Functional (A : Aliases) : Prop := ∀ n t t', (n, t) ∈ A → (n, t') ∈ A → t = t'

/-- the value of an expression on a pair with the cache switched off -/
def nocache (e : Expr) (kv : Pair) : Except Err Value := (exec e kv Ctx.off).1

/-- the batch value of an expression on a chunk with the cache switched off -/
def nocacheB (e : Expr) (chunk : List Pair) : Except Err (List Value) := (execBatch e chunk Ctx.off).1

/-- a non-nil context with the cache switched on -/
def CtxOn (c : Ctx) : Prop := c.present = true ∧ c.enable = true

/-- the invariant of the per-pair cache: whatever is cached under a name is the cache-free value, on
    the CURRENT pair, of a target the alias table has for that name -/
def CacheOK (A : Aliases) (c : Ctx) (kv : Pair) : Prop :=
  ∀ name v, assocGet c.fieldCache name = some v → ∃ target, (name, target) ∈ A ∧ nocache target kv = .ok v

theorem CacheOK.of_empty {A : Aliases} {c : Ctx} {kv : Pair} (h : c.fieldCache = []) : CacheOK A c kv := by
  intro name v hv; rw [h] at hv; simp [assocGet] at hv

theorem CtxOn.clear {c : Ctx} (h : CtxOn c) : CtxOn c.clear := by
  obtain ⟨hp, he⟩ := h
  simp [Ctx.clear, he, CtxOn, hp]

theorem clear_fieldCache {c : Ctx} (h : CtxOn c) : c.clear.fieldCache = [] := by
  simp [Ctx.clear, h.2]

theorem clear_off {c : Ctx} (h : c.enable = false) : c.clear = c := by
  simp [Ctx.clear, h]

theorem nocache_eq {e : Expr} {kv : Pair} {c : Ctx} (hc : c.enable = false) :
    exec e kv c = (nocache e kv, c) := by
  have h := (exec_off e kv).run_eq (c := Ctx.off) (c' := c) rfl hc (r := (exec e kv Ctx.off).1)
    (d := (exec e kv Ctx.off).2) rfl
  exact h

end Kvql.Cache
