/-
  RunNoPanic, part 8: `FinalOrderPlan` (Model/Order.lean: container/heap on a slice) never panics when
  the row comparison does not — no ordering property of the comparison is needed, only index safety:
  `up`/`down` stay inside the slice, `Pop` is only called on a non-empty heap (`pos < total`).
-/
import Kvql.Proofs.RunNoPanicBase
import Kvql.Model.Order

namespace Kvql.Proofs.RunNoPanic

open Kvql Kvql.Order

namespace OrderNP

variable {α : Type} {lessR : α → α → Order.Res Bool} {P : α → Prop}

/-- the comparison never panics on `P` -/
def Total (P : α → Prop) (lessR : α → α → Order.Res Bool) : Prop :=
  ∀ a b, P a → P b → ∃ r, lessR a b = .ok r

theorem lessAt_ok (hl : Total P lessR) {h : Array α} (hP : ∀ x ∈ h, P x) {i j : Nat}
    (hi : i < h.size) (hj : j < h.size) : ∃ r, lessAt lessR h i j = .ok r := by
  obtain ⟨r, e⟩ := hl _ _ (hP _ (Array.getElem_mem hi)) (hP _ (Array.getElem_mem hj))
  exact ⟨r, by simp [lessAt, hi, hj, e]⟩

theorem swapAt_ok {h : Array α} {i j : Nat} (hi : i < h.size) (hj : j < h.size) :
    swapAt h i j = .ok (h.swap i j) := by
  simp [swapAt, hi, hj]

theorem swap_all {h : Array α} (hP : ∀ x ∈ h, P x) {i j : Nat} (hi : i < h.size) (hj : j < h.size) :
    ∀ x ∈ h.swap i j hi hj, P x :=
  fun x hx => hP x ((Array.swap_perm hi hj).mem_iff.mp hx)

theorem up_ok (hl : Total P lessR) :
    ∀ (j : Nat) (h : Array α), (∀ x ∈ h, P x) → j < h.size →
      ∃ h', up lessR h j = .ok h' ∧ h'.size = h.size ∧ ∀ x ∈ h', P x := by
  intro j
  induction j using Nat.strongRecOn with
  | _ j ih =>
    intro h hP hj
    unfold up
    by_cases hij : (j - 1) / 2 = j
    · exact ⟨h, by simp [hij], rfl, hP⟩
    · have hi : (j - 1) / 2 < h.size := by omega
      obtain ⟨r, er⟩ := lessAt_ok hl hP hj hi
      simp only [hij, ↓reduceIte, er]
      cases r
      · exact ⟨h, rfl, rfl, hP⟩
      · simp only [swapAt_ok hi hj]
        obtain ⟨h', e, hs, hP'⟩ := ih ((j - 1) / 2) (by omega) (h.swap ((j - 1) / 2) j hi hj)
          (swap_all hP hi hj) (by simpa using hi)
        exact ⟨h', e, by simpa using hs, hP'⟩

theorem down_ok (hl : Total P lessR) (n : Nat) :
    ∀ (d : Nat) (i : Nat) (h : Array α), n - i ≤ d → (∀ x ∈ h, P x) → n ≤ h.size →
      ∃ h', down lessR h i n = .ok h' ∧ h'.size = h.size ∧ ∀ x ∈ h', P x := by
  intro d
  induction d with
  | zero =>
    intro i h hd hP hn
    unfold down
    have : 2 * i + 1 ≥ n := by omega
    exact ⟨h, by simp [this], rfl, hP⟩
  | succ d ih =>
    intro i h hd hP hn
    unfold down
    by_cases hj1 : 2 * i + 1 ≥ n
    · exact ⟨h, by simp [hj1], rfl, hP⟩
    · simp only [hj1, ↓reduceIte]
      have hi : i < h.size := by omega
      have h1 : 2 * i + 1 < h.size := by omega
      have hb : ∃ b, (if 2 * i + 1 + 1 < n then lessAt lessR h (2 * i + 1 + 1) (2 * i + 1) else .ok false)
          = Order.Res.ok b := by
        by_cases h2 : 2 * i + 1 + 1 < n
        · simp only [h2, ↓reduceIte]
          exact lessAt_ok hl hP (by omega) h1
        · exact ⟨false, by simp [h2]⟩
      obtain ⟨b, eb⟩ := hb
      simp only [eb]
      have hjn : (if b = true then 2 * i + 1 + 1 else 2 * i + 1) < n := by
        cases b
        · simp; omega
        · by_cases h2 : 2 * i + 1 + 1 < n
          · simpa using h2
          · simp [h2] at eb
      generalize hjdef : (if b = true then 2 * i + 1 + 1 else 2 * i + 1) = j at hjn
      have hji : i < j := by cases b <;> simp at hjdef <;> omega
      have hj : j < h.size := by omega
      obtain ⟨r, er⟩ := lessAt_ok hl hP hj hi
      simp only [er]
      cases r
      · exact ⟨h, rfl, rfl, hP⟩
      · simp only [swapAt_ok hi hj]
        obtain ⟨h', e, hs, hP'⟩ := ih j (h.swap i j hi hj) (by omega)
          (swap_all hP hi hj) (by simpa using hn)
        exact ⟨h', e, by simpa using hs, hP'⟩

theorem push_ok (hl : Total P lessR) {h : Array α} (hP : ∀ x ∈ h, P x) {x : α} (hx : P x) :
    ∃ h', push lessR h x = .ok h' ∧ h'.size = h.size + 1 ∧ ∀ y ∈ h', P y := by
  unfold push
  have hP1 : ∀ y ∈ h.push x, P y := by
    intro y hy
    rcases Array.mem_push.mp hy with hy | hy
    · exact hP y hy
    · exact hy ▸ hx
  obtain ⟨h', e, hs, hP'⟩ := up_ok hl ((h.push x).size - 1) (h.push x) hP1 (by simp)
  exact ⟨h', e, by simpa using hs, hP'⟩

theorem pop_ok (hl : Total P lessR) {h : Array α} (hP : ∀ x ∈ h, P x) (hne : 0 < h.size) :
    ∃ x h', pop lessR h = .ok (x, h') ∧ h'.size = h.size - 1 ∧ ∀ y ∈ h', P y := by
  unfold pop
  have h0 : ¬ h.size = 0 := by omega
  have hn : h.size - 1 < h.size := by omega
  simp only [h0, ↓reduceIte, swapAt_ok hne hn]
  obtain ⟨h2, e, hs, hP2⟩ := down_ok hl (h.size - 1) (h.size - 1) 0 (h.swap 0 (h.size - 1) hne hn)
    (by omega) (swap_all hP hne hn) (by simp)
  simp only [e]
  have hs2 : h2.size = h.size := by simpa using hs
  have hb : h2.back? = some (h2[h2.size - 1]'(by omega)) := by
    simp [Array.back?, hs2]
  simp only [hb]
  refine ⟨_, _, rfl, by simp [hs2], ?_⟩
  intro y hy
  obtain ⟨i, hi, rfl⟩ := Array.getElem_of_mem hy
  rw [Array.getElem_pop]
  exact hP2 _ (Array.getElem_mem _)

/-- the invariant of the plan state -/
def Inv (P : α → Prop) (st : St α) : Prop :=
  (∀ x ∈ st.sorted, P x) ∧ st.sorted.size + st.pos = st.total

theorem inv_init : Inv P ({} : St α) := by
  constructor
  · intro x hx; simp at hx
  · rfl

theorem pushAll_ok (hl : Total P lessR) : ∀ (rows : List α) (st : St α), Inv P st → (∀ x ∈ rows, P x) →
    ∃ st', pushAll lessR st rows = .ok st' ∧ Inv P st' ∧ st'.pos = st.pos
  | [], st, hi, _ => ⟨st, rfl, hi, rfl⟩
  | r :: rows, st, hi, hr => by
    obtain ⟨h', e, hs, hP'⟩ := push_ok hl hi.1 (hr r (by simp))
    simp only [pushAll, e]
    have := hi.2
    obtain ⟨st', e', hi', hp'⟩ := pushAll_ok hl rows { st with sorted := h', total := st.total + 1 }
      ⟨hP', by simp only [hs]; omega⟩ (fun x hx => hr x (by simp [hx]))
    exact ⟨st', e', hi', hp'⟩

theorem prepare_ok (hl : Total P lessR) (st : St α) (child : List α) (hi : Inv P st) (hc : ∀ x ∈ child, P x) :
    ∃ st', prepare lessR st child = .ok (st', []) ∧ Inv P st' := by
  obtain ⟨st', e, hi', _⟩ := pushAll_ok hl child st hi hc
  exact ⟨st', by simp [prepare, e], hi'⟩

theorem prepareBatch_ok (hl : Total P lessR) : ∀ (child : List (List α)) (st : St α), Inv P st →
    (∀ c ∈ child, ∀ x ∈ c, P x) →
    ∃ st' child', prepareBatch lessR st child = .ok (st', child') ∧ Inv P st' ∧ (∀ c ∈ child', ∀ x ∈ c, P x)
  | [], st, hi, _ => ⟨st, [], rfl, hi, by simp⟩
  | rows :: child, st, hi, hc => by
    unfold prepareBatch
    by_cases he : rows.isEmpty
    · exact ⟨st, child, by simp [he], hi, fun c hc' => hc c (by simp [hc'])⟩
    · obtain ⟨st1, e, hi1, _⟩ := pushAll_ok hl rows st hi (hc rows (by simp))
      simp only [he, e]
      exact prepareBatch_ok hl child st1 hi1 (fun c hc' => hc c (by simp [hc']))

theorem popStep_ok (hl : Total P lessR) {st : St α} (hi : Inv P st) (hlt : st.pos < st.total) :
    ∃ row h, pop lessR st.sorted = .ok (row, h) ∧ Inv P { st with sorted := h, pos := st.pos + 1 } := by
  have := hi.2
  obtain ⟨x, h', e, hs, hP'⟩ := pop_ok hl hi.1 (by omega)
  exact ⟨x, h', e, hP', by simp only [hs]; omega⟩

theorem next_ok (hl : Total P lessR) (st : St α) (child : List α) (hi : Inv P st) (hc : ∀ x ∈ child, P x) :
    ∃ o st' child', next lessR st child = .ok (o, st', child') ∧ Inv P st' ∧ (∀ x ∈ child', P x) := by
  unfold next
  have hpre : ∃ st1 child1, (if st.total == 0 then prepare lessR st child else .ok (st, child))
      = Order.Res.ok (st1, child1) ∧ Inv P st1 ∧ (∀ x ∈ child1, P x) := by
    by_cases h0 : (st.total == 0) = true
    · obtain ⟨st', e, hi'⟩ := prepare_ok hl st child hi hc
      exact ⟨st', [], by simp only [h0, ↓reduceIte, e], hi', by simp⟩
    · exact ⟨st, child, by simp only [h0]; rfl, hi, hc⟩
  obtain ⟨st1, child1, e, hi1, hc1⟩ := hpre
  simp only [e]
  by_cases hlt : st1.pos < st1.total
  · obtain ⟨row, h, ep, hi2⟩ := popStep_ok hl hi1 hlt
    simp only [hlt, ↓reduceIte, ep]
    exact ⟨_, _, _, rfl, hi2, hc1⟩
  · simp only [hlt, ↓reduceIte]
    exact ⟨_, _, _, rfl, hi1, hc1⟩

theorem drainNext_ok (hl : Total P lessR) : ∀ (fuel : Nat) (st : St α) (child : List α), Inv P st →
    (∀ x ∈ child, P x) → ∃ out, drainNext lessR fuel st child = .ok out
  | 0, _, _, _, _ => ⟨[], rfl⟩
  | fuel + 1, st, child, hi, hc => by
    obtain ⟨o, st', child', e, hi', hc'⟩ := next_ok hl st child hi hc
    unfold drainNext
    simp only [e]
    cases o with
    | none => exact ⟨[], rfl⟩
    | some r =>
      obtain ⟨rs, e'⟩ := drainNext_ok hl fuel st' child' hi' hc'
      exact ⟨r :: rs, by simp only [e']⟩

theorem batchLoop_ok (hl : Total P lessR) (bs : Nat) : ∀ (fuel : Nat) (st : St α) (count : Nat) (acc : List α),
    Inv P st → ∃ out st', batchLoop lessR bs fuel st count acc = .ok (out, st') ∧ Inv P st'
  | 0, st, _, acc, hi => ⟨acc, st, rfl, hi⟩
  | fuel + 1, st, count, acc, hi => by
    unfold batchLoop
    by_cases hlt : st.pos < st.total
    · obtain ⟨row, h, ep, hi2⟩ := popStep_ok hl hi hlt
      simp only [hlt, ↓reduceIte, ep]
      by_cases hb : count + 1 ≥ bs
      · simp only [hb, ↓reduceIte]
        exact ⟨_, _, rfl, hi2⟩
      · simp only [hb, ↓reduceIte]
        exact batchLoop_ok hl bs fuel _ _ _ hi2
    · simp only [hlt, ↓reduceIte]
      exact ⟨_, _, rfl, hi⟩

theorem batch_ok (hl : Total P lessR) (bs : Nat) (st : St α) (child : List (List α)) (hi : Inv P st)
    (hc : ∀ c ∈ child, ∀ x ∈ c, P x) :
    ∃ out st' child', batch lessR bs st child = .ok (out, st', child') ∧ Inv P st' ∧
      (∀ c ∈ child', ∀ x ∈ c, P x) := by
  unfold batch
  have hpre : ∃ st1 child1, (if st.total == 0 then prepareBatch lessR st child else .ok (st, child))
      = Order.Res.ok (st1, child1) ∧ Inv P st1 ∧ (∀ c ∈ child1, ∀ x ∈ c, P x) := by
    by_cases h0 : (st.total == 0) = true
    · obtain ⟨st', child', e, hi', hc'⟩ := prepareBatch_ok hl child st hi hc
      exact ⟨st', child', by simp only [h0, ↓reduceIte, e], hi', hc'⟩
    · exact ⟨st, child, by simp only [h0]; rfl, hi, hc⟩
  obtain ⟨st1, child1, e, hi1, hc1⟩ := hpre
  simp only [e]
  unfold batchBody
  obtain ⟨out, st2, e2, hi2⟩ := batchLoop_ok hl bs (st1.total - st1.pos) st1 0 [] hi1
  simp only [e2]
  exact ⟨_, _, _, rfl, hi2, hc1⟩

theorem drainBatch_ok (hl : Total P lessR) (bs : Nat) : ∀ (fuel : Nat) (st : St α) (child : List (List α)),
    Inv P st → (∀ c ∈ child, ∀ x ∈ c, P x) → ∃ out, drainBatch lessR bs fuel st child = .ok out
  | 0, _, _, _, _ => ⟨[], rfl⟩
  | fuel + 1, st, child, hi, hc => by
    obtain ⟨o, st', child', e, hi', hc'⟩ := batch_ok hl bs st child hi hc
    unfold drainBatch
    simp only [e]
    cases o with
    | nil => exact ⟨[], rfl⟩
    | cons r o =>
      obtain ⟨rs, e'⟩ := drainBatch_ok hl bs fuel st' child' hi' hc'
      exact ⟨(r :: o) :: rs, by simp only [e']⟩

end OrderNP

open OrderNP in
/-- drained row by row: no panic if the comparison is total on the rows -/
theorem order_drainNext_no_panic {α : Type} (lessR : α → α → Order.Res Bool) (rows : List α)
    (hless : ∀ a ∈ rows, ∀ b ∈ rows, ∃ r, lessR a b = .ok r) (fuel : Nat) :
    ∃ out, Order.drainNext lessR fuel {} rows = .ok out :=
  drainNext_ok (P := fun x => x ∈ rows) (fun a b ha hb => hless a ha b hb) fuel {} rows inv_init
    (fun _ hx => hx)

open OrderNP in
/-- drained batch by batch -/
theorem order_drainBatch_no_panic {α : Type} (lessR : α → α → Order.Res Bool) (chunks : List (List α))
    (hless : ∀ a ∈ chunks.flatten, ∀ b ∈ chunks.flatten, ∃ r, lessR a b = .ok r) (bs fuel : Nat) :
    ∃ out, Order.drainBatch lessR bs fuel {} chunks = .ok out :=
  drainBatch_ok (P := fun x => x ∈ chunks.flatten) (fun a b ha hb => hless a ha b hb) bs fuel {} chunks
    inv_init (fun c hc _ hx => List.mem_flatten.mpr ⟨c, hc, hx⟩)

end Kvql.Proofs.RunNoPanic

