/-
  C01 (plan half) / C03 for scans: what a `select *` over a scan node returns.

  For every scan node, store, batch size ≥ 1 and filter that evaluates on the stored pairs of the
  node's region, draining the plan with `Next` and draining it with `Batch` both return exactly
  `(store ∩ region).filter (filter = true)`, in store (= key) order.
-/
import Kvql.Proofs.PlanMonad
import Kvql.Proofs.ScanRegion

namespace Kvql.Proofs.Scan

open Kvql Kvql.Storage Kvql.Plans Kvql.Proofs.Plan Kvql.Proofs.Store

/-- the filter says `true` -/
def accepts (filter : Filter) (p : Pair) : Bool :=
  match filter p with
  | .ok true => true
  | _ => false

/-- the filter evaluates on the pair -/
def Evaluable (filter : Filter) (p : Pair) : Prop := ∃ b, filter p = .ok b

/-- what a cursor scan standing at `rest` still has to return -/
def scanRows (stop : Bytes → Bool) (filter : Filter) (rest : List Pair) : List Pair :=
  (rest.takeWhile (fun p => !stop p.1)).filter (accepts filter)

theorem scanRows_nil (stop : Bytes → Bool) (filter : Filter) : scanRows stop filter [] = [] := rfl

theorem scanRows_cons (stop : Bytes → Bool) (filter : Filter) (p : Pair) (r : List Pair) :
    scanRows stop filter (p :: r) =
      if stop p.1 then [] else if accepts filter p then p :: scanRows stop filter r else scanRows stop filter r := by
  simp only [scanRows, List.takeWhile_cons]
  cases stop p.1 <;> simp [List.filter_cons]

/-! ### row mode, cursor scans -/

/-- `cursorNext` without the storage -/
def pureNext (stop : Bytes → Bool) (filter : Filter) : List Pair → Option Pair × List Pair × Bool
  | [] => (none, [], true)
  | p :: r =>
    if stop p.1 then (none, r, true)
    else if accepts filter p then (some p, r, false)
    else pureNext stop filter r

theorem cursorNext_spec (stop : Bytes → Bool) (filter : Filter) : ∀ (rest : List Pair),
    (∀ p ∈ rest, stop p.1 = false → Evaluable filter p) →
    ∀ w, ∃ w', cursorNext stop filter rest none w = (.ok (pureNext stop filter rest), w') ∧ w'.store = w.store := by
  intro rest
  induction rest with
  | nil => intro _ w; simp [cursorNext, pureNext, run_call_none]
  | cons p r ih =>
    intro hev w
    simp only [cursorNext, pureNext, run_bind, run_call_none]
    cases hs : stop p.1 with
    | true => simp
    | false =>
      obtain ⟨b, hb⟩ := hev p List.mem_cons_self hs
      simp only [Bool.false_eq_true, if_false, hb, accepts]
      cases b with
      | true => simp
      | false =>
        simp only [Bool.false_eq_true, if_false]
        exact ih (fun q hq => hev q (List.mem_cons_of_mem _ hq)) _

theorem pureNext_some (stop : Bytes → Bool) (filter : Filter) : ∀ (rest : List Pair) p r' d,
    pureNext stop filter rest = (some p, r', d) →
    scanRows stop filter rest = p :: scanRows stop filter r' ∧ d = false ∧ r'.length < rest.length ∧
      (∀ q ∈ r', q ∈ rest) := by
  intro rest
  induction rest with
  | nil => intro p r' d h; simp [pureNext] at h
  | cons x r ih =>
    intro p r' d h
    simp only [pureNext] at h
    rw [scanRows_cons]
    split at h
    · simp at h
    · split at h
      · rename_i hs ha
        simp only [Prod.mk.injEq, Option.some.injEq] at h
        obtain ⟨h1, h2, h3⟩ := h
        subst h1 h2 h3
        exact ⟨by simp [hs, ha], rfl, by simp, fun q hq => List.mem_cons_of_mem _ hq⟩
      · rename_i hs ha
        obtain ⟨h1, h2, h3, h4⟩ := ih p r' d h
        simp only [hs, ha, Bool.false_eq_true, if_false]
        refine ⟨h1, h2, ?_, fun q hq => List.mem_cons_of_mem _ (h4 q hq)⟩
        simp only [List.length_cons]; omega

theorem pureNext_none (stop : Bytes → Bool) (filter : Filter) : ∀ (rest : List Pair) r' d,
    pureNext stop filter rest = (none, r', d) → scanRows stop filter rest = [] ∧ d = true := by
  intro rest
  induction rest with
  | nil => intro r' d h; simp [pureNext] at h; exact ⟨rfl, h.2⟩
  | cons x r ih =>
    intro r' d h
    simp only [pureNext] at h
    rw [scanRows_cons]
    split at h
    · rename_i hs
      simp only [Prod.mk.injEq, true_and] at h
      simp [hs, h.2.symm]
    · split at h
      · simp at h
      · rename_i hs ha
        simp only [hs, ha, Bool.false_eq_true, if_false]
        exact ih r' d h

/-- the state of a cursor scan: cursor over `snap` standing at `rest` -/
abbrev cursorSt (snap rest : List Pair) (kl : List Bytes) (done : Bool) : ScanSt :=
  { iter := some ⟨snap, rest⟩, keysLeft := kl, done := done }

theorem scanNext_cursor (node : ScanNode) (hc : node.isCursorScan = true) (filter : Filter)
    (snap rest : List Pair) (kl : List Bytes) :
    node.next filter (cursorSt snap rest kl false) = (do
      let (r, rest', done) ← cursorNext node.stop filter rest
      pure (r, cursorSt snap rest' kl done)) := by
  cases node <;> simp [ScanNode.isCursorScan] at hc <;> rfl

theorem scanBatch_cursor (node : ScanNode) (hc : node.isCursorScan = true) (filter : Filter) (bs : Nat)
    (snap rest : List Pair) (kl : List Bytes) :
    node.batch filter bs (cursorSt snap rest kl false) = (do
      let (rows, rest', done) ← cursorBatchLoop node.stop filter bs (rest.length + 1) rest []
      pure (rows, cursorSt snap rest' kl done)) := by
  cases node <;> simp [ScanNode.isCursorScan] at hc <;> rfl

theorem scan_done (node : ScanNode) (hc : node.isCursorScan = true) (filter : Filter) (bs : Nat)
    (snap rest : List Pair) (kl : List Bytes) :
    node.next filter (cursorSt snap rest kl true) = pure (none, cursorSt snap rest kl true) ∧
    node.batch filter bs (cursorSt snap rest kl true) = pure ([], cursorSt snap rest kl true) := by
  cases node <;> simp [ScanNode.isCursorScan] at hc <;> exact ⟨rfl, rfl⟩

theorem drain_next_cursor (node : ScanNode) (hc : node.isCursorScan = true) (filter : Filter) (bs : Nat)
    (snap : List Pair) (kl : List Bytes) : ∀ (fuel : Nat) (rest : List Pair) (acc : List (List Row)),
    rest.length + 1 ≤ fuel → (∀ p ∈ rest, node.stop p.1 = false → Evaluable filter p) →
    ∀ w, ∃ w', drain .next bs fuel (.select node filter (cursorSt snap rest kl false)) acc none w =
        (⟨.ok, acc ++ (scanRows node.stop filter rest).map (fun p => [Row.pair p])⟩, w') ∧
      w'.store = w.store := by
  intro fuel
  induction fuel with
  | zero => intro rest acc h; omega
  | succ fuel ih =>
    intro rest acc hfuel hev w
    obtain ⟨w1, h1, hs1⟩ := cursorNext_spec node.stop filter rest hev w
    simp only [drain, Plan.poll, scanNext_cursor node hc, run_bind, h1, run_pure]
    rcases hp : pureNext node.stop filter rest with ⟨r, rest', d⟩
    cases r with
    | none =>
      obtain ⟨e1, _⟩ := pureNext_none _ _ _ _ _ hp
      simp [e1, hs1]
    | some p =>
      obtain ⟨e1, e2, e3, e4⟩ := pureNext_some _ _ _ _ _ _ hp
      subst e2
      simp only []
      obtain ⟨w2, h2, hs2⟩ := ih rest' (acc ++ [[Row.pair p]]) (by omega)
        (fun q hq => hev q (e4 q hq)) w1
      refine ⟨w2, ?_, by rw [hs2, hs1]⟩
      rw [h2, e1]
      simp

/-! ### batch mode, cursor scans -/

/-- `readChunk` without the storage: (chunk, end of the scan seen, what is left) -/
def pureChunk (stop : Bytes → Bool) : Nat → List Pair → List Pair × Bool × List Pair
  | 0, rest => ([], false, rest)
  | _ + 1, [] => ([], true, [])
  | i + 1, p :: r =>
    if stop p.1 then ([], true, r)
    else ((p :: (pureChunk stop i r).1), (pureChunk stop i r).2.1, (pureChunk stop i r).2.2)

theorem readChunk_spec (stop : Bytes → Bool) : ∀ (i : Nat) (rest acc : List Pair) w,
    ∃ w', readChunk stop i rest acc none w =
        (.ok (acc ++ (pureChunk stop i rest).1, (pureChunk stop i rest).2.1, (pureChunk stop i rest).2.2), w') ∧
      w'.store = w.store := by
  intro i
  induction i with
  | zero => intro rest acc w; simp [readChunk, pureChunk]
  | succ i ih =>
    intro rest acc w
    cases rest with
    | nil => simp [readChunk, pureChunk, run_call_none]
    | cons p r =>
      simp only [readChunk, pureChunk, run_bind, run_call_none]
      cases hs : stop p.1 with
      | true => simp
      | false =>
        simp only [Bool.false_eq_true, if_false]
        obtain ⟨w', h, hs'⟩ := ih r (acc ++ [p]) { store := w.store, log := w.log ++ [⟨.next (some p.1), false⟩] }
        exact ⟨w', by rw [h]; simp, hs'⟩

theorem pureChunk_spec (stop : Bytes → Bool) : ∀ (i : Nat) (rest : List Pair),
    rest.takeWhile (fun p => !stop p.1) =
        (pureChunk stop i rest).1 ++
          (if (pureChunk stop i rest).2.1 then [] else (pureChunk stop i rest).2.2.takeWhile (fun p => !stop p.1)) ∧
      (pureChunk stop i rest).2.2.length + (pureChunk stop i rest).1.length ≤ rest.length ∧
      ((pureChunk stop i rest).2.1 = false → (pureChunk stop i rest).1.length = i) ∧
      (∀ q ∈ (pureChunk stop i rest).2.2, q ∈ rest) ∧
      (∀ q ∈ (pureChunk stop i rest).1, q ∈ rest ∧ stop q.1 = false) := by
  intro i
  induction i with
  | zero => intro rest; simp [pureChunk]
  | succ i ih =>
    intro rest
    cases rest with
    | nil => simp [pureChunk]
    | cons p r =>
      simp only [pureChunk]
      by_cases hs : stop p.1 = true
      · simp only [hs, if_true, List.takeWhile_cons, Bool.not_true, Bool.false_eq_true, if_false, List.nil_append,
          List.length_nil, List.length_cons, true_and]
        exact ⟨by omega, by simp, fun q hq => List.mem_cons_of_mem _ hq, by simp⟩
      · have hs : stop p.1 = false := by simpa using hs
        obtain ⟨h1, h2, h3, h4, h5⟩ := ih r
        simp only [Bool.false_eq_true, if_false, List.takeWhile_cons, hs, Bool.not_false, if_true,
          List.cons_append, List.length_cons]
        refine ⟨by rw [h1], by omega, fun h => by rw [h3 h], fun q hq => List.mem_cons_of_mem _ (h4 q hq), ?_⟩
        intro q hq
        rcases List.mem_cons.mp hq with e | hq
        · subst e; exact ⟨List.mem_cons_self, hs⟩
        · exact ⟨List.mem_cons_of_mem _ (h5 q hq).1, (h5 q hq).2⟩

theorem filterChunk_spec (filter : Filter) : ∀ (chunk : List Pair), (∀ p ∈ chunk, Evaluable filter p) →
    filterChunk filter chunk = .ok (chunk.map (accepts filter)) := by
  intro chunk
  induction chunk with
  | nil => intro _; rfl
  | cons p r ih =>
    intro h
    obtain ⟨b, hb⟩ := h p List.mem_cons_self
    simp only [filterChunk, hb, ih (fun q hq => h q (List.mem_cons_of_mem _ hq)), List.map_cons, accepts]
    cases b <;> rfl

theorem selectMatches_map (f : Pair → Bool) : ∀ (chunk : List Pair),
    selectMatches chunk (chunk.map f) = chunk.filter f := by
  intro chunk
  induction chunk with
  | nil => rfl
  | cons p r ih =>
    simp only [List.map_cons, selectMatches, List.filter_cons, ih]

theorem cursorBatchLoop_spec (stop : Bytes → Bool) (filter : Filter) (bs : Nat) (hbs : 1 ≤ bs) :
    ∀ (fuel : Nat) (rest ret : List Pair), rest.length < fuel → ret.length < bs →
    (∀ p ∈ rest, stop p.1 = false → Evaluable filter p) →
    ∀ w, ∃ w' X r' d, cursorBatchLoop stop filter bs fuel rest ret none w = (.ok (ret ++ X, r', d), w') ∧
      w'.store = w.store ∧
      scanRows stop filter rest = X ++ (if d then [] else scanRows stop filter r') ∧
      (d = false → X ≠ []) ∧ r'.length ≤ rest.length ∧ (X ≠ [] → r'.length < rest.length) ∧
      (∀ q ∈ r', q ∈ rest) := by
  intro fuel
  induction fuel with
  | zero => intro rest ret h; omega
  | succ fuel ih =>
    intro rest ret hfuel hret hev w
    obtain ⟨w1, h1, hs1⟩ := readChunk_spec stop bs rest [] w
    obtain ⟨c1, c2, c3, c4, c5⟩ := pureChunk_spec stop bs rest
    simp only [cursorBatchLoop, run_bind, h1, List.nil_append]
    generalize pureChunk stop bs rest = x at *
    obtain ⟨chunk, fin, r1⟩ := x
    simp only at c1 c2 c3 c4 c5 ⊢
    have hrows : scanRows stop filter rest =
        chunk.filter (accepts filter) ++ (if fin then [] else scanRows stop filter r1) := by
      simp only [scanRows, c1, List.filter_append]
      cases fin <;> simp
    cases hce : chunk.isEmpty with
    | true =>
      have hc : chunk = [] := List.isEmpty_iff.mp hce
      subst hc
      have hfin : fin = true := by
        cases fin with
        | true => rfl
        | false => have := c3 rfl; simp at this; omega
      subst hfin
      simp only [if_true, run_pure]
      refine ⟨w1, [], r1, true, by simp, hs1, ?_, by simp, by simpa using c2, by simp, c4⟩
      simpa using hrows
    | false =>
      have hne : chunk ≠ [] := by intro h; subst h; simp at hce
      have hfc := filterChunk_spec filter chunk (fun p hp => hev p (c5 p hp).1 (c5 p hp).2)
      simp only [Bool.false_eq_true, if_false, hfc, run_ofExcept_ok, run_bind, run_pure, selectMatches_map]
      have hlen : r1.length < rest.length := by
        have : 0 < chunk.length := List.length_pos_iff.mpr hne
        omega
      cases fin with
      | true =>
        simp only [if_true, run_pure]
        exact ⟨w1, chunk.filter (accepts filter), r1, true, rfl, hs1, by simpa using hrows, by simp,
          by omega, fun _ => hlen, c4⟩
      | false =>
        simp only [Bool.false_eq_true, if_false]
        by_cases hfull : (ret ++ chunk.filter (accepts filter)).length ≥ bs
        · simp only [hfull, if_true, run_pure]
          refine ⟨w1, chunk.filter (accepts filter), r1, false, rfl, hs1, by simpa using hrows, ?_, by omega,
            fun _ => hlen, c4⟩
          intro _ hX
          rw [hX] at hfull
          simp at hfull
          omega
        · simp only [hfull, if_false]
          obtain ⟨w2, X, r2, d, h2, hs2, hr2, hd2, hle2, hl2, hm2⟩ :=
            ih r1 (ret ++ chunk.filter (accepts filter)) (by omega) (by omega)
              (fun q hq => hev q (c4 q hq)) w1
          refine ⟨w2, chunk.filter (accepts filter) ++ X, r2, d, ?_, by rw [hs2, hs1], ?_, ?_, by omega, ?_, ?_⟩
          · rw [h2, List.append_assoc]
          · rw [hrows]
            simp only [Bool.false_eq_true, if_false, hr2, List.append_assoc]
          · intro hd hX
            have := List.append_eq_nil_iff.mp hX
            exact hd2 hd this.2
          · intro _; omega
          · exact fun q hq => c4 q (hm2 q hq)

theorem drain_done_cursor (node : ScanNode) (hc : node.isCursorScan = true) (filter : Filter) (kind : PollKind)
    (bs fuel : Nat) (snap rest : List Pair) (kl : List Bytes) (acc : List (List Row)) (w : World) :
    drain kind bs (fuel + 1) (.select node filter (cursorSt snap rest kl true)) acc none w = (⟨.ok, acc⟩, w) := by
  obtain ⟨h1, h2⟩ := scan_done node hc filter bs snap rest kl
  cases kind <;> simp [drain, Plan.poll, h1, h2]

theorem drain_batch_cursor (node : ScanNode) (hc : node.isCursorScan = true) (filter : Filter) (bs : Nat)
    (hbs : 1 ≤ bs) (snap : List Pair) (kl : List Bytes) : ∀ (fuel : Nat) (rest : List Pair) (acc : List (List Row)),
    rest.length + 2 ≤ fuel → (∀ p ∈ rest, node.stop p.1 = false → Evaluable filter p) →
    ∀ w, ∃ w' polls, drain .batch bs fuel (.select node filter (cursorSt snap rest kl false)) acc none w =
        (⟨.ok, acc ++ polls⟩, w') ∧ w'.store = w.store ∧
      polls.flatten = (scanRows node.stop filter rest).map Row.pair := by
  intro fuel
  induction fuel with
  | zero => intro rest acc h; omega
  | succ fuel ih =>
    intro rest acc hfuel hev w
    obtain ⟨w1, X, r1, d, h1, hs1, hr1, hd1, hle1, hl1, hm1⟩ :=
      cursorBatchLoop_spec node.stop filter bs hbs (rest.length + 1) rest [] (by omega) (by simp; omega) hev w
    simp only [List.nil_append] at h1
    simp only [drain, Plan.poll, scanBatch_cursor node hc, run_bind, h1, run_pure]
    cases X with
    | nil =>
      have hd : d = true := by
        cases d with
        | true => rfl
        | false => exact absurd rfl (hd1 rfl)
      subst hd
      refine ⟨w1, [], by simp, hs1, ?_⟩
      simpa using hr1.symm ▸ rfl
    | cons x X =>
      simp only [List.map_cons]
      cases d with
      | true =>
        obtain ⟨fuel', hf⟩ : ∃ f', fuel = f' + 1 := ⟨fuel - 1, by omega⟩
        subst hf
        rw [drain_done_cursor node hc]
        refine ⟨w1, [Row.pair x :: X.map Row.pair], rfl, hs1, ?_⟩
        rw [hr1]; simp
      | false =>
        have hlt := hl1 (by simp)
        obtain ⟨w2, polls, h2, hs2, hp2⟩ := ih r1 (acc ++ [Row.pair x :: X.map Row.pair]) (by omega)
          (fun q hq => hev q (hm1 q hq)) w1
        refine ⟨w2, (Row.pair x :: X.map Row.pair) :: polls, ?_, by rw [hs2, hs1], ?_⟩
        · rw [h2]; simp
        · rw [hr1]; simp [hp2]

/-! ### `BuildPlan` of a cursor scan: the cursor stands at the start of the region -/

theorem buildPlan_cursor (node : ScanNode) (hc : node.isCursorScan = true) (filter : Filter) (w : World) :
    ∃ w', buildPlan (.select node filter) none w =
        (.ok (.select node filter (cursorSt w.store (node.startRest w.store) [] false)), w') ∧
      w'.store = w.store := by
  cases node with
  | mget ks => simp [ScanNode.isCursorScan] at hc
  | empty => simp [ScanNode.isCursorScan] at hc
  | full =>
    simp [buildPlan, buildPlan1, Plan.init, ScanNode.init, ScanNode.newState, cursor, Cursor.seek, run_call_none,
      ScanNode.startRest, cursorSt]
  | «prefix» p =>
    simp [buildPlan, buildPlan1, Plan.init, ScanNode.init, ScanNode.newState, cursor, Cursor.seek, run_call_none,
      ScanNode.startRest, cursorSt]
  | range a b =>
    cases a with
    | none =>
      simp [buildPlan, buildPlan1, Plan.init, ScanNode.init, ScanNode.newState, cursor, run_call_none,
        ScanNode.startRest, cursorSt]
    | some a =>
      simp [buildPlan, buildPlan1, Plan.init, ScanNode.init, ScanNode.newState, cursor, Cursor.seek, run_call_none,
        ScanNode.startRest, cursorSt]

/-! ### MultiGet -/

/-- the listed keys that are stored, with their values, in list order -/
def found (s : Store) (ks : List Bytes) : List Pair :=
  ks.filterMap (fun k => (s.lookup k).map (fun v => (k, v)))

/-- what a MultiGet standing at `ks` still has to return -/
def mgetRows (s : Store) (filter : Filter) (ks : List Bytes) : List Pair := (found s ks).filter (accepts filter)

theorem found_cons (s : Store) (k : Bytes) (ks : List Bytes) :
    found s (k :: ks) = match s.lookup k with
      | none => found s ks
      | some v => (k, v) :: found s ks := by
  simp only [found, List.filterMap_cons]
  cases s.lookup k <;> rfl

theorem get_spec (k : Bytes) (w : World) :
    ∃ w', Storage.get k none w = (.ok (w.store.lookup k), w') ∧ w'.store = w.store := by
  simp [Storage.get, run_call_none]

def pureMgetNext (s : Store) (filter : Filter) : List Bytes → Option Pair × List Bytes
  | [] => (none, [])
  | k :: ks =>
    match s.lookup k with
    | none => pureMgetNext s filter ks
    | some v => if accepts filter (k, v) then (some (k, v), ks) else pureMgetNext s filter ks

/-- the filter evaluates on every listed key that is stored -/
def EvaluableOn (s : Store) (filter : Filter) (ks : List Bytes) : Prop :=
  ∀ k ∈ ks, ∀ v, s.lookup k = some v → Evaluable filter (k, v)

theorem EvaluableOn.tail {s : Store} {filter : Filter} {k : Bytes} {ks : List Bytes}
    (h : EvaluableOn s filter (k :: ks)) : EvaluableOn s filter ks :=
  fun k' hk' => h k' (List.mem_cons_of_mem _ hk')

theorem EvaluableOn.sub {s : Store} {filter : Filter} {ks ks' : List Bytes}
    (h : EvaluableOn s filter ks) (hsub : ∀ k ∈ ks', k ∈ ks) : EvaluableOn s filter ks' :=
  fun k' hk' => h k' (hsub k' hk')

theorem mgetNext_spec (s : Store) (filter : Filter) : ∀ (ks : List Bytes), EvaluableOn s filter ks →
    ∀ w, w.store = s → ∃ w', mgetNext filter ks none w = (.ok (pureMgetNext s filter ks), w') ∧ w'.store = s := by
  intro ks
  induction ks with
  | nil => intro _ w hw; exact ⟨w, rfl, hw⟩
  | cons k ks ih =>
    intro hev w hw
    obtain ⟨w1, h1, hs1⟩ := get_spec k w
    simp only [mgetNext, run_bind, h1, pureMgetNext, hw]
    cases hl : s.lookup k with
    | none => exact ih hev.tail w1 (by rw [hs1, hw])
    | some v =>
      obtain ⟨b, hb⟩ := hev k List.mem_cons_self v hl
      simp only [hb, accepts]
      cases b with
      | true => exact ⟨w1, rfl, by rw [hs1, hw]⟩
      | false => exact ih hev.tail w1 (by rw [hs1, hw])

theorem pureMgetNext_some (s : Store) (filter : Filter) : ∀ (ks : List Bytes) p ks',
    pureMgetNext s filter ks = (some p, ks') →
    mgetRows s filter ks = p :: mgetRows s filter ks' ∧ ks'.length < ks.length ∧ (∀ q ∈ ks', q ∈ ks) := by
  intro ks
  induction ks with
  | nil => intro p ks' h; simp [pureMgetNext] at h
  | cons k ks ih =>
    intro p ks' h
    simp only [pureMgetNext] at h
    simp only [mgetRows, found_cons]
    cases hl : s.lookup k with
    | none =>
      rw [hl] at h
      obtain ⟨h1, h2, h3⟩ := ih p ks' h
      exact ⟨h1, by simp only [List.length_cons]; omega, fun q hq => List.mem_cons_of_mem _ (h3 q hq)⟩
    | some v =>
      rw [hl] at h
      simp only at h
      cases ha : accepts filter (k, v) with
      | true =>
        simp only [ha, if_true, Prod.mk.injEq, Option.some.injEq] at h
        obtain ⟨h1, h2⟩ := h
        subst h1 h2
        exact ⟨by simp [ha], by simp, fun q hq => List.mem_cons_of_mem _ hq⟩
      | false =>
        simp only [ha, Bool.false_eq_true, if_false] at h
        obtain ⟨h1, h2, h3⟩ := ih p ks' h
        refine ⟨?_, by simp only [List.length_cons]; omega, fun q hq => List.mem_cons_of_mem _ (h3 q hq)⟩
        simp only [List.filter_cons, ha, Bool.false_eq_true, if_false]
        exact h1

theorem pureMgetNext_none (s : Store) (filter : Filter) : ∀ (ks : List Bytes) ks',
    pureMgetNext s filter ks = (none, ks') → mgetRows s filter ks = [] ∧ ks' = [] := by
  intro ks
  induction ks with
  | nil => intro ks' h; simp [pureMgetNext] at h; exact ⟨rfl, h⟩
  | cons k ks ih =>
    intro ks' h
    simp only [pureMgetNext] at h
    simp only [mgetRows, found_cons]
    cases hl : s.lookup k with
    | none => rw [hl] at h; exact ih ks' h
    | some v =>
      rw [hl] at h
      simp only at h
      cases ha : accepts filter (k, v) with
      | true => simp [ha] at h
      | false =>
        simp only [ha, Bool.false_eq_true, if_false] at h
        simp only [List.filter_cons, ha, Bool.false_eq_true, if_false]
        exact ih ks' h

/-- the state of a MultiGet plan standing at `ks` -/
abbrev mgetSt (ks : List Bytes) : ScanSt := { keysLeft := ks }

theorem drain_next_mget (s : Store) (K : List Bytes) (filter : Filter) (bs : Nat) :
    ∀ (fuel : Nat) (ks : List Bytes) (acc : List (List Row)), ks.length + 1 ≤ fuel → EvaluableOn s filter ks →
    ∀ w, w.store = s → ∃ w', drain .next bs fuel (.select (.mget K) filter (mgetSt ks)) acc none w =
        (⟨.ok, acc ++ (mgetRows s filter ks).map (fun p => [Row.pair p])⟩, w') ∧ w'.store = s := by
  intro fuel
  induction fuel with
  | zero => intro ks acc h; omega
  | succ fuel ih =>
    intro ks acc hfuel hev w hw
    obtain ⟨w1, h1, hs1⟩ := mgetNext_spec s filter ks hev w hw
    simp only [drain, Plan.poll, ScanNode.next, run_bind, h1, run_pure]
    rcases hp : pureMgetNext s filter ks with ⟨r, ks'⟩
    cases r with
    | none =>
      obtain ⟨e1, _⟩ := pureMgetNext_none _ _ _ _ hp
      simp [e1, hs1]
    | some p =>
      obtain ⟨e1, e3, e4⟩ := pureMgetNext_some _ _ _ _ _ hp
      simp only []
      obtain ⟨w2, h2, hs2⟩ := ih ks' (acc ++ [[Row.pair p]]) (by omega) (hev.sub e4) w1 hs1
      refine ⟨w2, ?_, hs2⟩
      rw [h2, e1]
      simp

/-- `mgetReadChunk` without the storage calls -/
def pureMgetChunk (s : Store) : Nat → List Bytes → List Pair × Bool × List Bytes
  | 0, ks => ([], false, ks)
  | _ + 1, [] => ([], true, [])
  | i + 1, k :: ks =>
    match s.lookup k with
    | none => pureMgetChunk s i ks
    | some v => ((k, v) :: (pureMgetChunk s i ks).1, (pureMgetChunk s i ks).2.1, (pureMgetChunk s i ks).2.2)

theorem mgetReadChunk_spec (s : Store) : ∀ (i : Nat) (ks : List Bytes) (acc : List Pair) w, w.store = s →
    ∃ w', mgetReadChunk i ks acc none w =
        (.ok (acc ++ (pureMgetChunk s i ks).1, (pureMgetChunk s i ks).2.1, (pureMgetChunk s i ks).2.2), w') ∧
      w'.store = s := by
  intro i
  induction i with
  | zero => intro ks acc w hw; exact ⟨w, by simp [mgetReadChunk, pureMgetChunk], hw⟩
  | succ i ih =>
    intro ks acc w hw
    cases ks with
    | nil => exact ⟨w, by simp [mgetReadChunk, pureMgetChunk], hw⟩
    | cons k ks =>
      obtain ⟨w1, h1, hs1⟩ := get_spec k w
      simp only [mgetReadChunk, run_bind, h1, pureMgetChunk, hw]
      cases hl : s.lookup k with
      | none => exact ih ks acc w1 (by rw [hs1, hw])
      | some v =>
        obtain ⟨w2, h2, hs2⟩ := ih ks (acc ++ [(k, v)]) w1 (by rw [hs1, hw])
        exact ⟨w2, by simp only []; rw [h2]; simp, hs2⟩

theorem pureMgetChunk_spec (s : Store) : ∀ (i : Nat) (ks : List Bytes),
    found s ks = (pureMgetChunk s i ks).1 ++ found s (pureMgetChunk s i ks).2.2 ∧
      ((pureMgetChunk s i ks).2.1 = true → (pureMgetChunk s i ks).2.2 = []) ∧
      ((pureMgetChunk s i ks).2.1 = false → (pureMgetChunk s i ks).2.2.length + i = ks.length) ∧
      (pureMgetChunk s i ks).2.2.length ≤ ks.length ∧
      (∀ q ∈ (pureMgetChunk s i ks).2.2, q ∈ ks) ∧
      (∀ q ∈ (pureMgetChunk s i ks).1, q.1 ∈ ks ∧ s.lookup q.1 = some q.2) := by
  intro i
  induction i with
  | zero => intro ks; simp [pureMgetChunk]
  | succ i ih =>
    intro ks
    cases ks with
    | nil => simp [pureMgetChunk, found]
    | cons k ks =>
      obtain ⟨h1, h2, h3, h4, h5, h6⟩ := ih ks
      simp only [pureMgetChunk, found_cons]
      cases hl : s.lookup k with
      | none =>
        simp only []
        exact ⟨h1, h2, fun h => by have := h3 h; simp only [List.length_cons]; omega,
          by simp only [List.length_cons]; omega, fun q hq => List.mem_cons_of_mem _ (h5 q hq),
          fun q hq => ⟨List.mem_cons_of_mem _ (h6 q hq).1, (h6 q hq).2⟩⟩
      | some v =>
        simp only [List.cons_append]
        refine ⟨by rw [h1], h2, fun h => by have := h3 h; simp only [List.length_cons]; omega,
          by simp only [List.length_cons]; omega, fun q hq => List.mem_cons_of_mem _ (h5 q hq), ?_⟩
        intro q hq
        rcases List.mem_cons.mp hq with e | hq
        · subst e; exact ⟨List.mem_cons_self, hl⟩
        · exact ⟨List.mem_cons_of_mem _ (h6 q hq).1, (h6 q hq).2⟩

theorem mgetBatchLoop_spec (s : Store) (filter : Filter) (bs : Nat) (hbs : 1 ≤ bs) :
    ∀ (fuel : Nat) (ks : List Bytes) (ret : List Pair), ks.length < fuel → ret.length < bs →
    EvaluableOn s filter ks →
    ∀ w, w.store = s → ∃ w' X ks', mgetBatchLoop filter bs fuel ks ret none w = (.ok (ret ++ X, ks'), w') ∧
      w'.store = s ∧ mgetRows s filter ks = X ++ mgetRows s filter ks' ∧
      (X = [] → ks' = []) ∧ ks'.length ≤ ks.length ∧ (X ≠ [] → ks'.length < ks.length) ∧
      (∀ q ∈ ks', q ∈ ks) := by
  intro fuel
  induction fuel with
  | zero => intro ks ret h; omega
  | succ fuel ih =>
    intro ks ret hfuel hret hev w hw
    obtain ⟨w1, h1, hs1⟩ := mgetReadChunk_spec s bs ks [] w hw
    obtain ⟨c1, c2, c3, c4, c5, c6⟩ := pureMgetChunk_spec s bs ks
    simp only [mgetBatchLoop, run_bind, h1, List.nil_append]
    generalize pureMgetChunk s bs ks = x at *
    obtain ⟨chunk, fin, ks1⟩ := x
    simp only at c1 c2 c3 c4 c5 c6 ⊢
    have hrows : mgetRows s filter ks = chunk.filter (accepts filter) ++ mgetRows s filter ks1 := by
      simp only [mgetRows, c1, List.filter_append]
    have hfc : filterChunk filter chunk = .ok (chunk.map (accepts filter)) :=
      filterChunk_spec filter chunk (fun p hp => hev p.1 (c6 p hp).1 p.2 (c6 p hp).2)
    -- what follows the `if len(filterBatch) > 0 { … }`, with `ret' = ret ++ (accepted pairs of the chunk)`
    have key : ∃ w' X ks', (if (fin || decide ((ret ++ chunk.filter (accepts filter)).length ≥ bs)) = true
          then (pure (ret ++ chunk.filter (accepts filter), ks1) : M (List Pair × List Bytes))
          else mgetBatchLoop filter bs fuel ks1 (ret ++ chunk.filter (accepts filter))) none w1 =
            (.ok (ret ++ X, ks'), w') ∧
        w'.store = s ∧ mgetRows s filter ks = X ++ mgetRows s filter ks' ∧
        (X = [] → ks' = []) ∧ ks'.length ≤ ks.length ∧ (X ≠ [] → ks'.length < ks.length) ∧
        (∀ q ∈ ks', q ∈ ks) := by
      cases fin with
      | true =>
        have hk : ks1 = [] := c2 rfl
        subst hk
        refine ⟨w1, chunk.filter (accepts filter), [], by simp, hs1, hrows, fun _ => rfl, by simp, ?_, by simp⟩
        intro hX
        have hne : chunk ≠ [] := by intro h; subst h; simp at hX
        have : found s ks ≠ [] := by rw [c1]; simp [hne]
        have : ks ≠ [] := by intro h; subst h; simp [found] at this
        exact List.length_pos_iff.mpr this
      | false =>
        have hcons := c3 rfl
        by_cases hfull : (ret ++ chunk.filter (accepts filter)).length ≥ bs
        · simp only [Bool.false_or, hfull, decide_true, if_true, run_pure]
          have hX : chunk.filter (accepts filter) ≠ [] := by
            intro hX; rw [hX] at hfull; simp at hfull; omega
          exact ⟨w1, chunk.filter (accepts filter), ks1, rfl, hs1, hrows, fun h => absurd h hX, c4,
            fun _ => by omega, c5⟩
        · simp only [Bool.false_or, hfull, decide_false, Bool.false_eq_true, if_false]
          obtain ⟨w2, X, ks2, h2, hs2, hr2, hx2, hle2, hl2, hm2⟩ :=
            ih ks1 (ret ++ chunk.filter (accepts filter)) (by omega) (by omega) (hev.sub c5) w1 hs1
          refine ⟨w2, chunk.filter (accepts filter) ++ X, ks2, by rw [h2, List.append_assoc], hs2, ?_, ?_,
            by omega, fun _ => by omega, fun q hq => c5 q (hm2 q hq)⟩
          · rw [hrows, hr2, List.append_assoc]
          · intro hX
            exact hx2 (List.append_eq_nil_iff.mp hX).2
    cases hce : chunk.isEmpty with
    | true =>
      have hc : chunk = [] := List.isEmpty_iff.mp hce
      subst hc
      simp only [if_true, run_bind, run_pure]
      simpa using key
    | false =>
      simp only [Bool.false_eq_true, if_false, hfc, run_ofExcept_ok, run_bind, run_pure, selectMatches_map]
      exact key

theorem drain_batch_mget (s : Store) (K : List Bytes) (filter : Filter) (bs : Nat) (hbs : 1 ≤ bs) :
    ∀ (fuel : Nat) (ks : List Bytes) (acc : List (List Row)), ks.length + 2 ≤ fuel → EvaluableOn s filter ks →
    ∀ w, w.store = s → ∃ w' polls, drain .batch bs fuel (.select (.mget K) filter (mgetSt ks)) acc none w =
        (⟨.ok, acc ++ polls⟩, w') ∧ w'.store = s ∧
      polls.flatten = (mgetRows s filter ks).map Row.pair := by
  intro fuel
  induction fuel with
  | zero => intro ks acc h; omega
  | succ fuel ih =>
    intro ks acc hfuel hev w hw
    obtain ⟨w1, X, ks1, h1, hs1, hr1, hx1, hle1, hl1, hm1⟩ :=
      mgetBatchLoop_spec s filter bs hbs (ks.length + 1) ks [] (by omega) (by simp; omega) hev w hw
    simp only [List.nil_append] at h1
    simp only [drain, Plan.poll, ScanNode.batch, run_bind, h1, run_pure]
    cases X with
    | nil =>
      have := hx1 rfl
      subst this
      refine ⟨w1, [], by simp, hs1, ?_⟩
      rw [hr1]; simp [mgetRows, found]
    | cons x X =>
      simp only [List.map_cons]
      have hlt := hl1 (by simp)
      obtain ⟨w2, polls, h2, hs2, hp2⟩ := ih ks1 (acc ++ [Row.pair x :: X.map Row.pair]) (by omega)
        (hev.sub hm1) w1 hs1
      refine ⟨w2, (Row.pair x :: X.map Row.pair) :: polls, ?_, hs2, ?_⟩
      · rw [h2]; simp
      · rw [hr1]; simp [hp2]

theorem buildPlan_mget (ks : List Bytes) (filter : Filter) (w : World) :
    buildPlan (.select (.mget ks) filter) none w = (.ok (.select (.mget ks) filter (mgetSt ks)), w) := by
  simp [buildPlan, buildPlan1, Plan.init, ScanNode.init, ScanNode.newState]

theorem buildPlan_empty (filter : Filter) (w : World) :
    buildPlan (.select .empty filter) none w = (.ok (.select .empty filter {}), w) := by
  simp [buildPlan, buildPlan1, Plan.init, ScanNode.init, ScanNode.newState]

/-- for a strictly ascending key list over a strictly ordered store, the point reads find exactly
    the stored pairs whose key is listed, in store order -/
theorem found_eq_filter {s : Store} (hs : s.Sorted) {ks : List Bytes} (hks : ks.Pairwise (· < ·)) :
    found s ks = s.filter (fun p => decide (p.1 ∈ ks)) := by
  apply sorted_ext
  · unfold found Store.Sorted
    refine List.Pairwise.filterMap _ ?_ hks
    intro a a' hlt b hb b' hb'
    cases ha : s.lookup a with
    | none => simp [ha] at hb
    | some v =>
      cases ha' : s.lookup a' with
      | none => simp [ha'] at hb'
      | some v' =>
        simp only [ha, ha', Option.map_some, Option.some.injEq] at hb hb'
        subst hb hb'
        exact hlt
  · exact List.Pairwise.filter _ hs
  · intro x
    obtain ⟨k, v⟩ := x
    simp only [found, List.mem_filterMap, List.mem_filter, decide_eq_true_eq]
    constructor
    · rintro ⟨a, ha, hv⟩
      cases hl : s.lookup a with
      | none => simp [hl] at hv
      | some v' =>
        simp only [hl, Option.map_some, Option.some.injEq, Prod.mk.injEq] at hv
        obtain ⟨e1, e2⟩ := hv
        subst e1 e2
        exact ⟨(mem_iff_lookup hs _ _).mpr hl, ha⟩
    · rintro ⟨hm, hk⟩
      exact ⟨k, hk, by rw [(mem_iff_lookup hs k v).mp hm]; rfl⟩

/-! ### the theorem -/

/-- the rows a run handed out, batch boundaries forgotten -/
def rowsOf (r : RunOut × World) : List Row := r.1.polls.flatten

/-- the stored pairs of the node's region on which the filter is true, in key order -/
def expectedRows (node : ScanNode) (filter : Filter) (store : Store) : List Pair :=
  (store.filter (fun p => node.inRegion p.1)).filter (accepts filter)

theorem flatten_singletons (l : List Pair) : (l.map (fun p => [Row.pair p])).flatten = l.map Row.pair := by
  induction l with
  | nil => rfl
  | cons x r ih => simp [ih]

/-- hypotheses on the node: a MultiGet key list is strictly ascending (what `NewMultiGetPlan` hands
    over, see `newMultiGetKeys_sorted`) -/
def ScanNode.WellFormed : ScanNode → Prop
  | .mget ks => ks.Pairwise (· < ·)
  | _ => True

theorem inRegion_of_startRest (node : ScanNode) (hc : node.isCursorScan = true) {s : Store} (hs : s.Sorted)
    (p : Pair) (hp : p ∈ node.startRest s) (hstop : node.stop p.1 = false) : node.inRegion p.1 = true := by
  cases node with
  | mget ks => simp [ScanNode.isCursorScan] at hc
  | empty => simp [ScanNode.isCursorScan] at hc
  | full => rfl
  | «prefix» pre => simpa [ScanNode.stop, ScanNode.inRegion] using hstop
  | range a b =>
    have hb : ScanNode.belowHigh b p.1 = true := by
      cases b with
      | none => rfl
      | some e =>
        simp only [ScanNode.stop, decide_eq_false_iff_not] at hstop
        simpa [ScanNode.belowHigh] using List.not_lt.mp hstop
    cases a with
    | none => simp [ScanNode.inRegion, ScanNode.aboveLow, hb]
    | some a =>
      simp only [ScanNode.startRest] at hp
      rw [seek_eq_filter hs] at hp
      have := (List.mem_filter.mp hp).2
      simp [ScanNode.inRegion, ScanNode.aboveLow, hb, this]

theorem scan_rows (node : ScanNode) (hwf : ScanNode.WellFormed node) (filter : Filter) (store : Store)
    (hs : store.Sorted) (hev : ∀ p ∈ store, node.inRegion p.1 = true → Evaluable filter p)
    (kind : PollKind) (bs : Nat) (hbs : 1 ≤ bs) :
    (run (.select node filter) kind bs none store).1.outcome = .ok ∧
    rowsOf (run (.select node filter) kind bs none store) = (expectedRows node filter store).map Row.pair ∧
    (run (.select node filter) kind bs none store).2.store = store := by
  by_cases hc : node.isCursorScan = true
  · -- Full / Prefix / Range
    obtain ⟨w0, hb, hs0⟩ := buildPlan_cursor node hc filter { store := store }
    have hreg := region_of_cursor_scan node hc hs
    have hsub : ∀ p ∈ node.startRest store, p ∈ store := by
      intro p hp
      cases node with
      | mget ks => simp [ScanNode.isCursorScan] at hc
      | empty => simp [ScanNode.isCursorScan] at hc
      | full => exact (List.dropWhile_sublist _).subset hp
      | «prefix» pre => exact (List.dropWhile_sublist _).subset hp
      | range a b =>
        cases a with
        | none => exact hp
        | some a => exact (List.dropWhile_sublist _).subset hp
    have hev' : ∀ p ∈ node.startRest store, node.stop p.1 = false → Evaluable filter p :=
      fun p hp hstop => hev p (hsub p hp) (inRegion_of_startRest node hc hs p hp hstop)
    have hrows : scanRows node.stop filter (node.startRest store) = expectedRows node filter store := by
      simp only [scanRows, expectedRows, hreg]
    simp only [run, runG, hb, rowsOf, Plan.size, ScanSt.size, List.length_nil, Nat.add_zero]
    cases kind with
    | next =>
      obtain ⟨w1, h1, hs1⟩ := drain_next_cursor node hc filter bs store [] ((node.startRest store).length + 2)
        (node.startRest store) [] (by omega) hev' w0
      rw [h1]
      simp only [List.nil_append, flatten_singletons, hrows]
      exact ⟨trivial, trivial, by rw [hs1, hs0]⟩
    | batch =>
      obtain ⟨w1, polls, h1, hs1, hp1⟩ := drain_batch_cursor node hc filter bs hbs store []
        ((node.startRest store).length + 2) (node.startRest store) [] (by omega) hev' w0
      rw [h1]
      simp only [List.nil_append, hp1, hrows]
      exact ⟨trivial, trivial, by rw [hs1, hs0]⟩
  · cases node with
    | full => simp [ScanNode.isCursorScan] at hc
    | «prefix» pre => simp [ScanNode.isCursorScan] at hc
    | range a b => simp [ScanNode.isCursorScan] at hc
    | empty =>
      have : expectedRows .empty filter store = [] := by
        simp [expectedRows, ScanNode.inRegion]
      rw [this]
      cases kind <;>
        simp [run, runG, buildPlan_empty, rowsOf, drain, Plan.poll, ScanNode.next, ScanNode.batch]
    | mget ks =>
      have hks : ks.Pairwise (· < ·) := hwf
      have hevon : EvaluableOn store filter ks := by
        intro k hk v hl
        exact hev (k, v) ((mem_iff_lookup hs k v).mpr hl) (by simpa [ScanNode.inRegion] using hk)
      have hrows : mgetRows store filter ks = expectedRows (.mget ks) filter store := by
        simp only [mgetRows, expectedRows, found_eq_filter hs hks, ScanNode.inRegion]
      simp only [run, runG, buildPlan_mget, rowsOf, Plan.size, ScanSt.size, Nat.zero_add]
      cases kind with
      | next =>
        obtain ⟨w1, h1, hs1⟩ := drain_next_mget store ks filter bs (ks.length + 2) ks [] (by omega) hevon
          { store := store } rfl
        rw [h1]
        simp only [List.nil_append, flatten_singletons, hrows]
        exact ⟨trivial, trivial, hs1⟩
      | batch =>
        obtain ⟨w1, polls, h1, hs1, hp1⟩ := drain_batch_mget store ks filter bs hbs (ks.length + 2) ks []
          (by omega) hevon { store := store } rfl
        rw [h1]
        simp only [List.nil_append, hp1, hrows]
        exact ⟨trivial, trivial, hs1⟩

end Kvql.Proofs.Scan
