/-
  C14(4), row mode: a well-kinded expression (README typing, `kindOf`) evaluated with the cache
  off never fails with an operand-type error, and its value has the inferred kind.
-/
import Kvql.Proofs.ExecTypingThm

namespace Kvql
open Generated

/-- the statement, for one expression -/
def RowSound (e : Expr) (k : Kind) : Prop :=
  ∀ (kv : Pair) (c : Ctx), c.enable = false → SndP (fun v => v.hasKind k = true) (exec e kv) c

theorem inertAt {e : Expr} {kv : Pair} {c : Ctx} (hc : c.enable = false) :
    ∀ a c1, exec e kv c = (.ok a, c1) → c1 = c := fun _ _ h => (exec_inert e kv).ctx_eq hc h

theorem beq_some {a : Option Kind} {k : Kind} (h : (a == some k) = true) : a = some k := by simpa using h

/-- strict binary operator with a kernel sound on the operand kinds -/
theorem binop_sound {e l r : Expr} {kl kr k : Kind} {K : Value → Value → M Value}
    (he : ∀ kv, exec e kv = (do let a ← exec l kv; let b ← exec r kv; K a b))
    (hl : RowSound l kl) (hr : RowSound r kr)
    (hK : ∀ a b c, a.hasKind kl = true → b.hasKind kr = true → SndP (fun v => v.hasKind k = true) (K a b) c) :
    RowSound e k := by
  intro kv c hc
  rw [he]
  exact .bind (hl kv c hc) (inertAt hc) fun a ha => .bind (hr kv c hc) (inertAt hc) fun b hb => hK a b c ha hb

theorem exec_call_eq' {p : Nat} {nm : Expr} {args : List Expr} {kv : Pair} {fname : Bytes} {fo : FuncInfo} {b : Body}
    (hn : funcNameOf nm = .ok fname) (hf : lookupFunc fname = some fo)
    (h1 : ¬ (!fo.varArgs && args.length != fo.numArgs) = true)
    (h2 : ¬ (fo.varArgs && decide (args.length < fo.numArgs)) = true) (hb : fo.body = some b) :
    exec (.call p nm args) kv = rowBody b args kv := by
  rw [exec]; simp only [hn, hf, hb]; simp [h1, h2]

theorem asBool_of {v : Value} (h : v.hasKind .bool = true) : ∃ b, v = .bool b ∧ asBool v = .ok b := by
  obtain ⟨b, rfl⟩ := Value.bool_cases h; exact ⟨b, rfl, rfl⟩

theorem text_conv {v : Value} (h : v.hasKind .text = true) : ∃ b, convertToByteArray v = some b := by
  obtain ⟨b, rfl | rfl⟩ := Value.text_cases h <;> exact ⟨b, rfl⟩

theorem SndP.pureK {k : Kind} {v : Value} (h : v.hasKind k = true) (c : Ctx) :
    SndP (fun (w : Value) => w.hasKind k = true) (Pure.pure v : M Value) c :=
  SndP.pure (P := fun (w : Value) => w.hasKind k = true) h c

/-- one `if cond then some k0 else none = some k` -/
theorem if_some {c : Bool} {k0 k : Kind} (h : (if c = true then some k0 else none) = some k) : c = true ∧ k = k0 := by
  split at h <;> simp at h
  exact ⟨by assumption, h.symm⟩

theorem logic_sound {p : Nat} {op : Op} {l r : Expr} (hop : op = .and ∨ op = .kwAnd ∨ op = .or ∨ op = .kwOr)
    (hl : RowSound l .bool) (hr : RowSound r .bool) : RowSound (.binop p op l r) .bool := by
  intro kv c hc
  have key : ∀ (short : Bool), SndP (fun (v : Value) => v.hasKind .bool = true) ((do
      let a ← exec l kv
      let x ← M.lift (asBool a)
      if (x == short) = true then Pure.pure (Value.bool short)
      else
        let b ← exec r kv
        let y ← M.lift (asBool b)
        Pure.pure (Value.bool y)) : M Value) c := by
    intro short
    refine .bind (hl kv c hc) (inertAt hc) fun a ha => ?_
    obtain ⟨x, rfl, hx⟩ := asBool_of ha
    refine .bind (Q := fun _ => True) (.lift (fun _ _ => trivial) (by rw [hx]; simp) c) (fun _ _ h => by simp at h; exact h.2.symm) fun x' _ => ?_
    refine .ite (.pureK rfl c) ?_
    refine .bind (hr kv c hc) (inertAt hc) fun b hb => ?_
    obtain ⟨y, rfl, hy⟩ := asBool_of hb
    exact .bind (Q := fun _ => True) (.lift (fun _ _ => trivial) (by rw [hy]; simp) c) (fun _ _ h => by simp at h; exact h.2.symm) fun _ _ => .pureK rfl c
  rcases hop with rfl | rfl | rfl | rfl <;> rw [exec]
  · have := key false
    simpa using this
  · have := key false
    simpa using this
  · have := key true
    simpa using this
  · have := key true
    simpa using this

theorem SndP.liftBool {x : Except Err Bool} (h : ∃ b, x = .ok b) (c : Ctx) :
    SndP (fun (_ : Bool) => True) (M.lift x) c := by
  obtain ⟨b, rfl⟩ := h
  exact .lift (fun _ _ => trivial) (by simp) c

theorem liftInert {α} {x : Except Err α} {c : Ctx} : ∀ a c1, M.lift x c = (.ok a, c1) → c1 = c :=
  fun _ _ h => by simp at h; exact h.2.symm

theorem eq_sound {p : Nat} {op : Op} {l r : Expr} {k : Kind} (hop : op = .eq ∨ op = .neq) (hs : k.scalar = true)
    (hl : RowSound l k) (hr : RowSound r k) : RowSound (.binop p op l r) .bool := by
  intro kv c hc
  rcases hop with rfl | rfl <;> rw [exec] <;>
    exact .bind (hl kv c hc) (inertAt hc) fun a ha => .bind (hr kv c hc) (inertAt hc) fun b hb =>
      .bind (.liftBool (equalRow_ok hs ha hb) c) liftInert fun _ _ => .pureK rfl c

theorem match_sound {p : Nat} {op : Op} {l r : Expr} (hop : op = .prefixMatch ∨ op = .regexMatch)
    (hl : RowSound l .text) (hr : RowSound r .text) : RowSound (.binop p op l r) .bool := by
  intro kv c hc
  rcases hop with rfl | rfl <;> rw [exec] <;>
    refine .bind (hl kv c hc) (inertAt hc) fun a ha => .bind (hr kv c hc) (inertAt hc) fun b hb => ?_
  · obtain ⟨x, hx⟩ := text_conv ha
    obtain ⟨y, hy⟩ := text_conv hb
    rw [hx, hy]; exact .pureK rfl c
  · obtain ⟨x, hx⟩ := text_conv ha
    obtain ⟨y, hy⟩ := text_conv hb
    rw [hx, hy]; dsimp only
    split
    · exact .throw ne_ot_data c
    · exact .pureK rfl c

theorem compare_sound {p : Nat} {op : Op} {l r : Expr} {k : Kind} (hop : op = .gt ∨ op = .gte ∨ op = .lt ∨ op = .lte)
    (hk : k = .text ∨ k = .num) (hkl : kindOf l = some k)
    (hl : RowSound l k) (hr : RowSound r k) : RowSound (.binop p op l r) .bool := by
  intro kv c hc
  have hflag := hk_of hkl hk
  rcases hop with rfl | rfl | rfl | rfl <;> rw [exec] <;>
    exact .bind (hl kv c hc) (inertAt hc) fun a ha => .bind (hr kv c hc) (inertAt hc) fun b hb =>
      .bind (.liftBool (compareBy_ok hflag ha hb _) c) liftInert fun _ _ => .pureK rfl c

theorem arith_sound {p : Nat} {op : Op} {l r : Expr} (hop : op = .sub ∨ op = .mul ∨ op = .div ∨ op = .add)
    (hkl : kindOf l = some .num) (hl : RowSound l .num) (hr : RowSound r .num) : RowSound (.binop p op l r) .num := by
  intro kv c hc
  have hns : (retType l == tyTSTR) = false := (number_flag hkl).2 rfl
  rcases hop with rfl | rfl | rfl | rfl <;> rw [exec] <;> (try simp only [hns, Bool.false_eq_true, if_false]) <;>
    exact .bind (hl kv c hc) (inertAt hc) fun a ha => .bind (hr kv c hc) (inertAt hc) fun b hb =>
      .liftK (ks_executeMathOp ha hb _) c

theorem concat_sound {p : Nat} {l r : Expr} (hkl : kindOf l = some .text)
    (hl : RowSound l .text) (hr : RowSound r .text) : RowSound (.binop p .add l r) .text := by
  intro kv c hc
  have hs : (retType l == tyTSTR) = true := (number_flag hkl).1 rfl
  rw [exec]; simp only [hs, if_true]
  exact .bind (hl kv c hc) (inertAt hc) fun a ha => .bind (hr kv c hc) (inertAt hc) fun b hb => .pureK rfl c

theorem between_sound {p q : Nat} {l lo hi : Expr} {k : Kind} (hk : k = .text ∨ k = .num)
    (hkl : kindOf l = some k) (hklo : kindOf lo = some k) (hkhi : kindOf hi = some k)
    (hl : RowSound l k) (hlo : RowSound lo k) (hhi : RowSound hi k) :
    RowSound (.binop p .between l (.list q [lo, hi])) .bool := by
  intro kv c hc
  have hflag := hk_of hkl hk
  have tlo := retType_of_kind lo k hklo
  have thi := retType_of_kind hi k hkhi
  rw [exec]
  refine .bind (hl kv c hc) (inertAt hc) fun a ha => ?_
  dsimp only
  have hw : (if (retType l == tyTSTR) = true then tyTSTR else tyTNUMBER) = k.code := by
    rcases hk with rfl | rfl
    · rw [(number_flag hkl).1 rfl]; rfl
    · rw [(number_flag hkl).2 rfl]; rfl
  rw [hw, tlo, thi]
  simp only [bne_self_eq_false, Bool.false_eq_true, if_false]
  exact .bind (hlo kv c hc) (inertAt hc) fun lv hlv => .bind (hhi kv c hc) (inertAt hc) fun uv huv =>
    .liftK (betweenKernel_sound hflag ha hlv huv) c

theorem in_list_sound {p : Nat} {l r : Expr} {k kr : Kind} (hr' : (∃ q nm args, r = .call q nm args) ∨ (∃ q nm t, r = .ref q nm t))
    (hk : (k = .text ∧ kr = .listText) ∨ (k = .num ∧ kr = .listNum))
    (hkr : kindOf r = some kr) (hl : RowSound l k) (hr : RowSound r kr) : RowSound (.binop p .in_ l r) .bool := by
  intro kv c hc
  have tr : retType r = tyTLIST := by
    rw [retType_of_kind r kr hkr]; rcases hk with ⟨_, rfl⟩ | ⟨_, rfl⟩ <;> rfl
  have body : SndP (fun (v : Value) => v.hasKind .bool = true) ((do
      let left ← exec l kv
      if (retType r != tyTLIST) = true then M.throw Err.operandType
      else
        let fret ← exec r kv
        match unpackArray fret with
        | some vals => Pure.pure (Value.bool (inAnyList (!(retType l == tyTSTR)) left vals))
        | none => M.throw Err.operandType) : M Value) c := by
    refine .bind (hl kv c hc) (inertAt hc) fun a ha => ?_
    rw [tr]; simp only [bne_self_eq_false, Bool.false_eq_true, if_false]
    refine .bind (hr kv c hc) (inertAt hc) fun fret hf => ?_
    obtain ⟨vals, hv⟩ := unpackArray_of_list (v := fret) (by rcases hk with ⟨_, rfl⟩ | ⟨_, rfl⟩ <;> simp [hf])
    rw [hv]; exact .pureK rfl c
  rcases hr' with ⟨q, nm, args, rfl⟩ | ⟨q, nm, t, rfl⟩ <;> rw [exec] <;> exact body

end Kvql
