/-
  End-to-end proofs for SELECT statements WITH A FIELD LIST, part 11: the storage side of batch mode,
  poll by poll.  A scan's `Batch` over the storage machine (`Plans.cursorBatchLoop`,
  `Plans.mgetBatchLoop`) with a filter that is `g` on the pairs it reads returns what `pollLoop` takes
  from the inner chunks `Run.innerChunks` forms; hence the polls of `Run.scanTrace` in batch mode are
  `pollsOf` of the inner chunks (`scanTrace_batch_polls`).
-/
import Kvql.Proofs.RunFieldsLock

namespace Kvql.Proofs.RunFields
open Kvql Kvql.Run Kvql.Plans Kvql.Storage Kvql.Proofs.Scan Kvql.Proofs.Plan Kvql.Proofs.Store
open Kvql.Proofs.RunTables Kvql.Proofs.RunScan Kvql.Proofs.RunLimit

theorem pureChunk_length_le (stop : Bytes → Bool) : ∀ (i : Nat) (rest : List SPair),
    (pureChunk stop i rest).1.length ≤ i
  | 0, rest => by simp [pureChunk]
  | i + 1, [] => by simp [pureChunk]
  | i + 1, p :: r => by
    simp only [pureChunk]
    split
    · simp
    · have := pureChunk_length_le stop i r
      simp only [List.length_cons]; omega

theorem accepts_of_ok {filter : Filter} {p : SPair} {b : Bool} (h : filter p = .ok b) : accepts filter p = b := by
  unfold accepts; rw [h]; cases b <;> rfl

/-- a cursor scan's `Batch` (not `done`): what `pollLoop` takes from the inner chunks of what is left -/
theorem cursorBatchLoop_poll (stop : Bytes → Bool) (filter : Filter) (g : SPair → Bool) (bs : Nat) (hbs : 1 ≤ bs) :
    ∀ (fuel : Nat) (rest ret : List SPair), rest.length < fuel → ret.length < bs →
    (∀ p ∈ rest, stop p.1 = false → filter p = .ok (g p)) →
    ∀ w, ∃ w' r' d,
      cursorBatchLoop stop filter bs fuel rest ret none w =
        (.ok ((pollLoop bs g (Run.chunksOf bs (rest.takeWhile (fun p => !stop p.1))) ret).1, r', d), w') ∧
      w'.store = w.store ∧
      (pollLoop bs g (Run.chunksOf bs (rest.takeWhile (fun p => !stop p.1))) ret).2 =
        (if d then [] else Run.chunksOf bs (r'.takeWhile (fun p => !stop p.1))) ∧
      (d = false → r'.length < rest.length) ∧ (∀ q ∈ r', q ∈ rest) := by
  intro fuel
  induction fuel with
  | zero => intro rest ret h; omega
  | succ fuel ih =>
    intro rest ret hfuel hret hev w
    obtain ⟨w1, h1, hs1⟩ := readChunk_spec stop bs rest [] w
    obtain ⟨c1, c2, c3, c4, c5⟩ := pureChunk_spec stop bs rest
    have c6 := pureChunk_length_le stop bs rest
    simp only [cursorBatchLoop, run_bind, h1, List.nil_append]
    generalize pureChunk stop bs rest = x at *
    obtain ⟨chunk, fin, r1⟩ := x
    simp only at c1 c2 c3 c4 c5 c6 ⊢
    have hacc : chunk.filter (accepts filter) = chunk.filter g := by
      apply List.filter_congr
      intro p hp
      exact accepts_of_ok (hev p (c5 p hp).1 (c5 p hp).2)
    cases hce : chunk.isEmpty with
    | true =>
      have hc : chunk = [] := List.isEmpty_iff.mp hce
      subst hc
      have hfin : fin = true := by
        cases fin with
        | true => rfl
        | false => have := c3 rfl; simp at this; omega
      subst hfin
      simp only [if_true, List.nil_append] at c1
      simp only [if_true, run_pure, c1, chunksOf_nil, pollLoop]
      exact ⟨w1, r1, true, rfl, hs1, rfl, fun h => (by cases h), c4⟩
    | false =>
      have hne : chunk ≠ [] := by intro h; subst h; simp at hce
      have hfc := filterChunk_spec filter chunk (fun p hp => ⟨_, hev p (c5 p hp).1 (c5 p hp).2⟩)
      simp only [Bool.false_eq_true, if_false, hfc, run_ofExcept_ok, run_bind, run_pure, selectMatches_map, hacc]
      have hlen : r1.length < rest.length := by
        have : 0 < chunk.length := List.length_pos_iff.mpr hne
        omega
      cases fin with
      | true =>
        simp only [if_true, List.append_nil] at c1
        have hch : Run.chunksOf bs (rest.takeWhile (fun p => !stop p.1)) = [chunk] := by
          rw [c1]; exact chunksOf_short bs chunk hne c6
        have hpl : pollLoop bs g [chunk] ret = (ret ++ chunk.filter g, []) := by
          rw [pollLoop]; split <;> simp [pollLoop]
        simp only [if_true, run_pure, hch, hpl]
        exact ⟨w1, r1, true, rfl, hs1, rfl, fun h => (by cases h), c4⟩
      | false =>
        simp only [Bool.false_eq_true, if_false] at c1
        have hcl : chunk.length = bs := c3 rfl
        have hch : Run.chunksOf bs (rest.takeWhile (fun p => !stop p.1)) =
            chunk :: Run.chunksOf bs (r1.takeWhile (fun p => !stop p.1)) := by
          rw [c1]; exact chunksOf_append bs hbs chunk _ hcl
        simp only [Bool.false_eq_true, if_false, hch]
        rw [pollLoop]
        by_cases hfull : (ret ++ chunk.filter g).length ≥ bs
        · simp only [hfull, if_true, run_pure]
          exact ⟨w1, r1, false, rfl, hs1, by simp, fun _ => hlen, c4⟩
        · simp only [hfull, if_false]
          obtain ⟨w2, r2, d, h2, hs2, hr2, hl2, hm2⟩ :=
            ih r1 (ret ++ chunk.filter g) (by omega) (by omega) (fun q hq => hev q (c4 q hq)) w1
          refine ⟨w2, r2, d, h2, by rw [hs2, hs1], hr2, fun hd => ?_, fun q hq => c4 q (hm2 q hq)⟩
          have := hl2 hd
          omega

theorem pollsOf_nil (bs : Nat) (g : SPair → Bool) : ∀ n, pollsOf bs g n [] = []
  | 0 => rfl
  | n + 1 => by simp [pollsOf, pollLoop]

/-- the batch drain of a cursor scan, poll by poll -/
theorem drain_batch_cursor_polls (node : ScanNode) (hc : node.isCursorScan = true) (filter : Filter) (g : SPair → Bool)
    (bs : Nat) (hbs : 1 ≤ bs) (snap : List SPair) (kl : List Bytes) :
    ∀ (fuel : Nat) (rest : List SPair) (acc : List (List Row)), rest.length + 2 ≤ fuel →
    (∀ p ∈ rest, node.stop p.1 = false → filter p = .ok (g p)) →
    ∀ w, ∃ w', drain .batch bs fuel (.select node filter (cursorSt snap rest kl false)) acc none w =
        (⟨.ok, acc ++ (pollsOf bs g fuel (Run.chunksOf bs (rest.takeWhile (fun p => !node.stop p.1)))).map
          (·.map Row.pair)⟩, w') ∧ w'.store = w.store := by
  intro fuel
  induction fuel with
  | zero => intro rest acc h; omega
  | succ fuel ih =>
    intro rest acc hfuel hev w
    obtain ⟨w1, r1, d, h1, hs1, hr1, hl1, hm1⟩ :=
      cursorBatchLoop_poll node.stop filter g bs hbs (rest.length + 1) rest [] (by omega) (by simp; omega) hev w
    simp only [drain, Plan.poll, scanBatch_cursor node hc, run_bind, h1, run_pure, pollsOf]
    rcases hp : pollLoop bs g (Run.chunksOf bs (rest.takeWhile (fun p => !node.stop p.1))) [] with ⟨X, rest'⟩
    rw [hp] at hr1
    simp only at hr1 ⊢
    cases X with
    | nil => exact ⟨w1, by simp, hs1⟩
    | cons x xs =>
      simp only [List.map_cons]
      cases d with
      | true =>
        obtain ⟨fuel', hf⟩ : ∃ f', fuel = f' + 1 := ⟨fuel - 1, by omega⟩
        subst hf
        simp only [if_true] at hr1
        subst hr1
        rw [drain_done_cursor node hc, pollsOf_nil]
        exact ⟨w1, by simp, hs1⟩
      | false =>
        simp only [Bool.false_eq_true, if_false] at hr1
        subst hr1
        have hlt := hl1 rfl
        obtain ⟨w2, h2, hs2⟩ := ih r1 (acc ++ [Row.pair x :: xs.map Row.pair]) (by omega)
          (fun q hq => hev q (hm1 q hq)) w1
        refine ⟨w2, ?_, by rw [hs2, hs1]⟩
        rw [h2]; simp

/-! ### MultiGet -/

/-- the stored pair of a listed key -/
def lk (s : Store) (k : Bytes) : Option SPair := (s.lookup k).map (fun v => (k, v))

/-- the inner chunks `MultiGetPlan.Batch` forms from the keys `ks`: `bs` keys at a time, the pairs that exist -/
def mgetChunks (s : Store) (bs : Nat) (ks : List Bytes) : List (List SPair) :=
  (Run.chunksOf bs ks).map (fun c => c.filterMap (lk s))

theorem pureMgetChunk_eq (s : Store) : ∀ (i : Nat) (ks : List Bytes),
    pureMgetChunk s i ks = ((ks.take i).filterMap (lk s), decide (ks.length < i), ks.drop i)
  | 0, ks => by simp [pureMgetChunk]
  | i + 1, [] => by simp [pureMgetChunk]
  | i + 1, k :: ks => by
    simp only [pureMgetChunk, pureMgetChunk_eq s i ks, List.take_succ_cons, List.filterMap_cons, lk, List.drop_succ_cons,
      List.length_cons, Nat.add_lt_add_iff_right]
    cases s.lookup k <;> rfl

theorem pollLoop_single (bs : Nat) (g : SPair → Bool) (c ret : List SPair) :
    pollLoop bs g [c] ret = (ret ++ c.filter g, []) := by
  rw [pollLoop]; split <;> simp [pollLoop]

/-- `MultiGetPlan.Batch`: what `pollLoop` takes from the inner chunks of the keys left -/
theorem mgetBatchLoop_poll (s : Store) (filter : Filter) (g : SPair → Bool) (bs : Nat) (hbs : 1 ≤ bs) :
    ∀ (fuel : Nat) (ks : List Bytes) (ret : List SPair), ks.length < fuel → ret.length < bs →
    (∀ k ∈ ks, ∀ v, s.lookup k = some v → filter (k, v) = .ok (g (k, v))) →
    ∀ w, w.store = s → ∃ w' ks',
      mgetBatchLoop filter bs fuel ks ret none w = (.ok ((pollLoop bs g (mgetChunks s bs ks) ret).1, ks'), w') ∧
      w'.store = s ∧ (pollLoop bs g (mgetChunks s bs ks) ret).2 = mgetChunks s bs ks' ∧
      (ks ≠ [] → ks'.length < ks.length) ∧ (∀ q ∈ ks', q ∈ ks) := by
  intro fuel
  induction fuel with
  | zero => intro ks ret h; omega
  | succ fuel ih =>
    intro ks ret hfuel hret hev w hw
    obtain ⟨w1, h1, hs1⟩ := mgetReadChunk_spec s bs ks [] w hw
    simp only [mgetBatchLoop, run_bind, h1, List.nil_append, pureMgetChunk_eq]
    have hsub : ∀ p ∈ (ks.take bs).filterMap (lk s), filter p = .ok (g p) := by
      intro p hp
      obtain ⟨k, hk, hlk⟩ := List.mem_filterMap.mp hp
      unfold lk at hlk
      cases hl : s.lookup k with
      | none => rw [hl] at hlk; cases hlk
      | some v =>
        rw [hl] at hlk
        simp only [Option.map_some, Option.some.injEq] at hlk
        subst hlk
        exact hev k (List.mem_of_mem_take hk) v hl
    have hacc : ((ks.take bs).filterMap (lk s)).filter (accepts filter) = ((ks.take bs).filterMap (lk s)).filter g :=
      List.filter_congr (fun p hp => accepts_of_ok (hsub p hp))
    have hfc := filterChunk_spec filter ((ks.take bs).filterMap (lk s)) (fun p hp => ⟨_, hsub p hp⟩)
    -- what follows the `if len(filterBatch) > 0 { … }`, with `ret' = ret ++ (accepted pairs of the chunk)`
    have key : ∃ w' ks', (if (decide (ks.length < bs) ||
            decide ((ret ++ ((ks.take bs).filterMap (lk s)).filter g).length ≥ bs)) = true
          then (pure (ret ++ ((ks.take bs).filterMap (lk s)).filter g, ks.drop bs) : Storage.M (List SPair × List Bytes))
          else mgetBatchLoop filter bs fuel (ks.drop bs) (ret ++ ((ks.take bs).filterMap (lk s)).filter g)) none w1 =
            (.ok ((pollLoop bs g (mgetChunks s bs ks) ret).1, ks'), w') ∧
        w'.store = s ∧ (pollLoop bs g (mgetChunks s bs ks) ret).2 = mgetChunks s bs ks' ∧
        (ks ≠ [] → ks'.length < ks.length) ∧ (∀ q ∈ ks', q ∈ ks) := by
      by_cases hlen : ks.length < bs
      · -- the keys run out within this chunk
        have htake : ks.take bs = ks := List.take_of_length_le (by omega)
        have hdrop : ks.drop bs = [] := List.drop_of_length_le (by omega)
        simp only [hlen, decide_true, Bool.true_or, if_true, run_pure, htake, hdrop]
        cases hks : ks with
        | nil =>
          simp only [mgetChunks, chunksOf_nil, List.map_nil, pollLoop, List.filterMap_nil, List.filter_nil,
            List.append_nil]
          exact ⟨w1, [], rfl, hs1, rfl, fun h => absurd rfl h, by simp⟩
        | cons k ks0 =>
          have hch : mgetChunks s bs (k :: ks0) = [(k :: ks0).filterMap (lk s)] := by
            unfold mgetChunks
            rw [chunksOf_short bs (k :: ks0) (by simp) (by rw [← hks]; omega)]
            rfl
          rw [hch, pollLoop_single]
          exact ⟨w1, [], rfl, hs1, by simp [mgetChunks, chunksOf_nil], fun _ => by simp, by simp⟩
      · -- a full chunk of `bs` keys
        have hge : bs ≤ ks.length := by omega
        have hsplit : ks = ks.take bs ++ ks.drop bs := (List.take_append_drop bs ks).symm
        have htl : (ks.take bs).length = bs := by rw [List.length_take]; omega
        have hch : mgetChunks s bs ks = (ks.take bs).filterMap (lk s) :: mgetChunks s bs (ks.drop bs) := by
          unfold mgetChunks
          conv => lhs; rw [hsplit]
          rw [chunksOf_append bs hbs _ _ htl]
          rfl
        have hdl : (ks.drop bs).length < ks.length := by rw [List.length_drop]; omega
        have hne : ks ≠ [] := by intro h; subst h; simp at hge; omega
        simp only [hlen, decide_false, Bool.false_or, hch]
        rw [pollLoop]
        by_cases hfull : (ret ++ ((ks.take bs).filterMap (lk s)).filter g).length ≥ bs
        · simp only [hfull, decide_true, if_true, run_pure]
          exact ⟨w1, ks.drop bs, rfl, hs1, rfl, fun _ => hdl, fun q hq => List.mem_of_mem_drop hq⟩
        · simp only [hfull, decide_false, Bool.false_eq_true, if_false]
          obtain ⟨w2, ks2, h2, hs2, hr2, hl2, hm2⟩ := ih (ks.drop bs)
            (ret ++ ((ks.take bs).filterMap (lk s)).filter g) (by omega) (by omega)
            (fun k hk v hv => hev k (List.mem_of_mem_drop hk) v hv) w1 hs1
          refine ⟨w2, ks2, h2, hs2, hr2, fun _ => ?_, fun q hq => List.mem_of_mem_drop (hm2 q hq)⟩
          by_cases hd : ks.drop bs = []
          · have : ks2 = [] := by
              cases ks2 with
              | nil => rfl
              | cons q qs => have := hm2 q List.mem_cons_self; rw [hd] at this; cases this
            rw [this]
            exact List.length_pos_iff.mpr hne
          · have := hl2 hd
            omega
    cases hce : ((ks.take bs).filterMap (lk s)).isEmpty with
    | true =>
      have hc : (ks.take bs).filterMap (lk s) = [] := List.isEmpty_iff.mp hce
      rw [hc] at key
      simp only [List.filter_nil, List.append_nil] at key
      simp only [if_true, run_bind, run_pure]
      simpa [hc] using key
    | false =>
      simp only [Bool.false_eq_true, if_false, hfc, run_ofExcept_ok, run_bind, run_pure, selectMatches_map, hacc]
      exact key

/-- the batch drain of a MultiGet, poll by poll -/
theorem drain_batch_mget_polls (s : Store) (K : List Bytes) (filter : Filter) (g : SPair → Bool) (bs : Nat)
    (hbs : 1 ≤ bs) : ∀ (fuel : Nat) (ks : List Bytes) (acc : List (List Row)), ks.length + 2 ≤ fuel →
    (∀ k ∈ ks, ∀ v, s.lookup k = some v → filter (k, v) = .ok (g (k, v))) →
    ∀ w, w.store = s → ∃ w', drain .batch bs fuel (.select (.mget K) filter (mgetSt ks)) acc none w =
        (⟨.ok, acc ++ (pollsOf bs g fuel (mgetChunks s bs ks)).map (·.map Row.pair)⟩, w') ∧ w'.store = s := by
  intro fuel
  induction fuel with
  | zero => intro ks acc h; omega
  | succ fuel ih =>
    intro ks acc hfuel hev w hw
    obtain ⟨w1, ks1, h1, hs1, hr1, hl1, hm1⟩ :=
      mgetBatchLoop_poll s filter g bs hbs (ks.length + 1) ks [] (by omega) (by simp; omega) hev w hw
    simp only [drain, Plan.poll, ScanNode.batch, run_bind, h1, run_pure, pollsOf]
    rcases hp : pollLoop bs g (mgetChunks s bs ks) [] with ⟨X, rest'⟩
    rw [hp] at hr1
    simp only at hr1 ⊢
    cases X with
    | nil => exact ⟨w1, by simp, hs1⟩
    | cons x xs =>
      simp only [List.map_cons]
      subst hr1
      have hne : ks ≠ [] := by
        intro h
        subst h
        simp [mgetChunks, chunksOf_nil, pollLoop] at hp
      have hlt := hl1 hne
      obtain ⟨w2, h2, hs2⟩ := ih ks1 (acc ++ [Row.pair x :: xs.map Row.pair]) (by omega)
        (fun k hk v hv => hev k (hm1 k hk) v hv) w1 hs1
      refine ⟨w2, ?_, hs2⟩
      rw [h2]; simp

/-! ### the polls of `scanTrace` in batch mode -/

theorem chunksAux_length_le {α : Type} (bs : Nat) (hbs : 1 ≤ bs) : ∀ (n : Nat) (l : List α),
    (Run.chunksAux bs n l).length ≤ l.length
  | 0, _ => by simp [Run.chunksAux]
  | _ + 1, [] => by simp [Run.chunksAux]
  | n + 1, x :: xs => by
    rw [Run.chunksAux, List.length_cons]
    have := chunksAux_length_le bs hbs n ((x :: xs).drop bs)
    simp only [List.length_drop, List.length_cons] at this ⊢
    omega

theorem chunksOf_length_le {α : Type} (bs : Nat) (hbs : 1 ≤ bs) (l : List α) : (Run.chunksOf bs l).length ≤ l.length :=
  chunksAux_length_le bs hbs _ l

theorem filterOfV_ok {v : Verdicts} {p : SPair} {b : Bool} (h : v.lookup p.1 = some (.ok b)) :
    filterOfV v p = .ok b := by
  unfold filterOfV; rw [h]

/-- **the storage side of batch mode, poll by poll**: with a verdict table that gives `g` on the stored pairs
    of the node's region, the `Batch` calls of the scan hand out what `pollsOf` takes from the inner chunks -/
theorem scanTrace_batch_polls (node : ScanNode) (hwf : ScanNode.WellFormed node) (store : Store) (hs : store.Sorted)
    (v : Verdicts) (g : SPair → Bool)
    (hv : ∀ p ∈ store, node.inRegion p.1 = true → v.lookup p.1 = some (.ok (g p))) (bs : Nat) (hbs : 1 ≤ bs) :
    (scanTrace node v .batch bs store).polls.map (·.1) =
      pollsOf bs g ((innerChunks node bs store).length + 1) (innerChunks node bs store) := by
  by_cases hc : node.isCursorScan = true
  · obtain ⟨w0, hb, _⟩ := buildPlan_cursor node hc (filterOfV v) { store := store }
    have hsub : ∀ p ∈ node.startRest store, p ∈ store := by
      intro p hp
      cases node with
      | mget ks => simp [ScanNode.isCursorScan] at hc
      | empty => simp [ScanNode.isCursorScan] at hc
      | full => exact (List.dropWhile_sublist _).subset hp
      | «prefix» pre => exact (List.dropWhile_sublist _).subset hp
      | range a b =>
        cases a with
        | none => exact hp
        | some a => exact (List.dropWhile_sublist _).subset hp
    have hev : ∀ p ∈ node.startRest store, node.stop p.1 = false → filterOfV v p = .ok (g p) :=
      fun p hp hstop => filterOfV_ok (hv p (hsub p hp) (inRegion_of_startRest node hc hs p hp hstop))
    obtain ⟨w1, h1, _⟩ := drain_batch_cursor_polls node hc (filterOfV v) g bs hbs store []
      ((node.startRest store).length + 2) (node.startRest store) [] (by omega) hev w0
    have hchunks : Run.chunksOf bs ((node.startRest store).takeWhile (fun p => !node.stop p.1)) =
        innerChunks node bs store := by
      cases node with
      | mget ks => simp [ScanNode.isCursorScan] at hc
      | empty => simp [ScanNode.isCursorScan] at hc
      | full => simp only [innerChunks, yielded, startRest_eq]
      | «prefix» pre => simp only [innerChunks, yielded, startRest_eq]
      | range a b => simp only [innerChunks, yielded, startRest_eq]
    rw [hchunks] at h1
    unfold scanTrace
    rw [hb]
    simp only [Plan.size, ScanSt.size, List.length_nil, Nat.add_zero]
    obtain ⟨_, t2, _⟩ := scanTraceLoop_ok (firstErr v) .batch bs w0 ((node.startRest store).length + 2) _ w0 [] []
      (by rw [h1]) rfl
    rw [t2, h1]
    simp only [List.nil_append, List.map_map]
    have hpm : (fun (x : List SPair) => pairsOfRows (x.map Row.pair)) = id := by
      funext x; exact pairsOfRows_map x
    rw [Function.comp_def, hpm, List.map_id]
    apply pollsOf_fuel
    · have h1 := chunksOf_length_le bs hbs ((node.startRest store).takeWhile (fun p => !node.stop p.1))
      have h2 : ((node.startRest store).takeWhile (fun p => !node.stop p.1)).length ≤ (node.startRest store).length :=
        (List.takeWhile_sublist _).length_le
      rw [hchunks] at h1
      omega
    · omega
  · cases node with
    | full => simp [ScanNode.isCursorScan] at hc
    | «prefix» pre => simp [ScanNode.isCursorScan] at hc
    | range a b => simp [ScanNode.isCursorScan] at hc
    | empty =>
      have hch : innerChunks .empty bs store = [] := by simp [innerChunks, yielded, chunksOf_nil]
      rw [hch]
      simp [scanTrace, buildPlan_empty, scanTraceLoop, Plan.poll, ScanNode.batch, pollsOf, pollLoop]
    | mget ks =>
      have hev : ∀ k ∈ ks, ∀ val, store.lookup k = some val → filterOfV v (k, val) = .ok (g (k, val)) := by
        intro k hk val hl
        exact filterOfV_ok (hv (k, val) ((mem_iff_lookup hs k val).mpr hl) (by simpa [ScanNode.inRegion] using hk))
      obtain ⟨w1, h1, _⟩ := drain_batch_mget_polls store ks (filterOfV v) g bs hbs (ks.length + 2) ks [] (by omega) hev
        { store := store } rfl
      have hchunks : mgetChunks store bs ks = innerChunks (.mget ks) bs store := rfl
      rw [hchunks] at h1
      unfold scanTrace
      rw [buildPlan_mget]
      simp only [Plan.size, ScanSt.size, Nat.zero_add]
      obtain ⟨_, t2, _⟩ := scanTraceLoop_ok (firstErr v) .batch bs { store := store } (ks.length + 2) _
        { store := store } [] [] (by rw [h1]) rfl
      rw [t2, h1]
      simp only [List.nil_append, List.map_map]
      have hpm : (fun (x : List SPair) => pairsOfRows (x.map Row.pair)) = id := by
        funext x; exact pairsOfRows_map x
      rw [Function.comp_def, hpm, List.map_id]
      apply pollsOf_fuel
      · have : (innerChunks (.mget ks) bs store).length = (Run.chunksOf bs ks).length := by
          simp [innerChunks]
        have h2 := chunksOf_length_le bs hbs ks
        omega
      · omega

end Kvql.Proofs.RunFields
