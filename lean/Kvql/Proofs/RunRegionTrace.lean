/-
  C18 / C13 end to end, part 2: every world of the trace of a scan — the world after `BuildPlan`,
  after each poll, after the terminal poll — has the store unchanged and a call log that is a PREFIX
  of the script of the scan node (`Pre`); when the scan ends without failure the log is the whole
  script (`Full`).  The consumers of a trace (`Trace.map`, `zipProj`, `orderTrace`, `limitTrace`)
  end in one of the worlds of the trace they consume.
-/
import Kvql.Proofs.RunRegionScript
import Kvql.Proofs.PlanProofsSelect
import Kvql.Model.Run

namespace Kvql.Proofs.RunRegion

open Kvql Kvql.Storage Kvql.Plans Kvql.Proofs.Plan
open Kvql.Run (Trace scanTrace scanTraceLoop zipProj orderTrace limitTrace SPair Verdicts Fail)

/-- between polls: the log and what is left of the script make up the script -/
def Good (node : ScanNode) (store : Store) (st : ScanSt) (w : World) : Prop :=
  w.store = store ∧ w.log ++ entries (remaining node st) = entries (scriptI node store)

/-- store unchanged, the log is a prefix of the script -/
def Pre (node : ScanNode) (store : Store) (w : World) : Prop :=
  w.store = store ∧ w.log <+: entries (scriptI node store)

/-- store unchanged, the log is the whole script -/
def Full (node : ScanNode) (store : Store) (w : World) : Prop :=
  w.store = store ∧ w.log = entries (scriptI node store)

theorem Good.pre {node : ScanNode} {store : Store} {st : ScanSt} {w : World} (h : Good node store st w) :
    Pre node store w := ⟨h.1, _, h.2⟩

theorem Full.pre {node : ScanNode} {store : Store} {w : World} (h : Full node store w) : Pre node store w :=
  ⟨h.1, by rw [h.2]; exact List.prefix_refl _⟩

theorem pre_initial (node : ScanNode) (store : Store) : Pre node store { store := store } :=
  ⟨rfl, List.nil_prefix⟩

/-- one poll of the plan of `select *` from a good world -/
theorem poll_good {node : ScanNode} {store : Store} (filter : Filter) (st : ScanSt) (kind : PollKind) (bs : Nat)
    (hbs : 1 ≤ bs) (w : World) (hg : Good node store st w) :
    Pre node store ((Plan.select node filter st).poll kind bs none w).2 ∧
    (((Plan.select node filter st).poll kind bs none w).1.err = none →
      ∃ st', ((Plan.select node filter st).poll kind bs none w).1.plan = .select node filter st' ∧
        Good node store st' ((Plan.select node filter st).poll kind bs none w).2 ∧
        (((Plan.select node filter st).poll kind bs none w).1.rows = [] →
          Full node store ((Plan.select node filter st).poll kind bs none w).2)) := by
  obtain ⟨hst, hlog⟩ := hg
  cases kind with
  | next =>
    obtain ⟨ext, rem, hsplit, hw, hq⟩ := cs_scanNext node filter st w
    simp only [Plan.poll]
    rcases hn : node.next filter st none w with ⟨r, w'⟩
    rw [hn] at hw hq
    simp only at hw hq
    rw [hsplit, entries_append, ← List.append_assoc] at hlog
    have hpre : Pre node store w' := by
      rw [hw]; exact ⟨hst, _, hlog⟩
    cases r with
    | error e => exact ⟨hpre, fun h => by simp at h⟩
    | ok x =>
      obtain ⟨r, st'⟩ := x
      obtain ⟨h1, h2⟩ := hq _ rfl
      simp only at h1 h2
      have hgood : Good node store st' w' := by
        rw [hw]; exact ⟨hst, by rw [← h1]; exact hlog⟩
      cases r with
      | none =>
        refine ⟨hpre, fun _ => ⟨st', rfl, hgood, fun _ => ?_⟩⟩
        have := hgood.2
        rw [h2 rfl] at this
        exact ⟨hgood.1, by simpa using this⟩
      | some p => exact ⟨hpre, fun _ => ⟨st', rfl, hgood, fun h => by simp at h⟩⟩
  | batch =>
    obtain ⟨ext, rem, hsplit, hw, hq⟩ := cs_scanBatch node filter bs st w
    simp only [Plan.poll]
    rcases hn : node.batch filter bs st none w with ⟨r, w'⟩
    rw [hn] at hw hq
    simp only at hw hq
    rw [hsplit, entries_append, ← List.append_assoc] at hlog
    have hpre : Pre node store w' := by
      rw [hw]; exact ⟨hst, _, hlog⟩
    cases r with
    | error e => exact ⟨hpre, fun h => by simp at h⟩
    | ok x =>
      obtain ⟨rows, st'⟩ := x
      obtain ⟨h1, h2⟩ := hq _ rfl
      simp only at h1 h2
      have hgood : Good node store st' w' := by
        rw [hw]; exact ⟨hst, by rw [← h1]; exact hlog⟩
      refine ⟨hpre, fun _ => ⟨st', rfl, hgood, fun hr => ?_⟩⟩
      simp only [List.map_eq_nil_iff] at hr
      have hrem : remaining node st' = [] := by
        rcases h2 with h2 | h2
        · exact h2
        · rw [hr] at h2; simp at h2; omega
      have := hgood.2
      rw [hrem] at this
      exact ⟨hgood.1, by simpa using this⟩

/-! ### traces -/

/-- `P` holds of every world of the trace -/
def AllWorlds {α : Type} (P : World → Prop) (t : Trace α) : Prop :=
  P t.w0 ∧ (∀ p ∈ t.polls, P p.2) ∧ P t.fin.2

theorem scanTraceLoop_worlds {node : ScanNode} {store : Store} (filter : Filter) (cls : Option Project.PErr)
    (kind : PollKind) (bs : Nat) (hbs : 1 ≤ bs) (w0 : World) (hw0 : Pre node store w0) :
    ∀ (fuel : Nat) (st : ScanSt) (w : World) (acc : List (List SPair × World)),
      Good node store st w → (∀ p ∈ acc, Pre node store p.2) →
      AllWorlds (Pre node store) (scanTraceLoop cls kind bs w0 fuel (.select node filter st) w acc) ∧
      ((scanTraceLoop cls kind bs w0 fuel (.select node filter st) w acc).fin.1 = none →
        Full node store (scanTraceLoop cls kind bs w0 fuel (.select node filter st) w acc).fin.2) := by
  intro fuel
  induction fuel with
  | zero =>
    intro st w acc hg hacc
    simp only [scanTraceLoop]
    exact ⟨⟨hw0, hacc, hg.pre⟩, fun h => by simp at h⟩
  | succ fuel ih =>
    intro st w acc hg hacc
    obtain ⟨hpre, hok⟩ := poll_good filter st kind bs hbs w hg
    simp only [scanTraceLoop]
    rcases hp : (Plan.select node filter st).poll kind bs none w with ⟨⟨rows, err, plan'⟩, w'⟩
    rw [hp] at hpre hok
    simp only at hpre hok
    cases err with
    | some e => exact ⟨⟨hw0, hacc, hpre⟩, fun h => by simp at h⟩
    | none =>
      obtain ⟨st', hplan, hgood, hfull⟩ := hok rfl
      subst hplan
      cases rows with
      | nil => exact ⟨⟨hw0, hacc, hpre⟩, fun _ => hfull rfl⟩
      | cons r rs =>
        simp only []
        refine ih st' w' _ hgood ?_
        intro p hp'
        rcases List.mem_append.mp hp' with h | h
        · exact hacc p h
        · simp only [List.mem_singleton] at h; subst h; exact hpre

/-- the scan trace of a node: every world has a prefix of the script as its log; a scan that ends
    without failure has issued the whole script -/
theorem scanTrace_worlds (node : ScanNode) (v : Verdicts) (kind : PollKind) (bs : Nat) (hbs : 1 ≤ bs) (store : Store) :
    AllWorlds (Pre node store) (scanTrace node v kind bs store) ∧
    ((scanTrace node v kind bs store).fin.1 = none → Full node store (scanTrace node v kind bs store).fin.2) := by
  unfold scanTrace
  rw [buildPlan_select]
  simp only [run_bind, init_run, run_pure]
  have hk : ∀ ks, node = .mget ks → (initState node node.newState store).keysLeft = ks := by
    intro ks h; subst h; rfl
  have hg : Good node store (initState node (initState node node.newState store) store)
      { store := store, log := ([] ++ entries (initCalls node)) ++ entries (initCalls node) } := by
    refine ⟨rfl, ?_⟩
    rw [remaining_init node _ store hk]
    simp [scriptI]
  exact scanTraceLoop_worlds _ _ kind bs hbs _ hg.pre _ _ _ [] hg (by simp)

/-! ### the consumers -/

theorem allWorlds_map {α β : Type} {P : World → Prop} (f : α → β) (t : Trace α) :
    AllWorlds P (t.map f) ↔ AllWorlds P t := by
  simp only [AllWorlds, Trace.map]
  constructor
  · rintro ⟨h0, hp, hf⟩
    exact ⟨h0, fun p hp' => hp (p.1.map f, p.2) (List.mem_map.mpr ⟨p, hp', rfl⟩), hf⟩
  · rintro ⟨h0, hp, hf⟩
    refine ⟨h0, fun p hp' => ?_, hf⟩
    obtain ⟨q, hq, rfl⟩ := List.mem_map.mp hp'
    exact hp q hq

theorem zipProj_worlds {P : World → Prop} :
    ∀ (ps : List (List SPair × World)) (fin : Option Fail × World) (rows : List (List Project.Row))
      (err : Option Project.PErr) (w0 : World) (acc : List (List (List Value) × World)),
      P w0 → (∀ p ∈ acc, P p.2) → (∀ p ∈ ps, P p.2) → P fin.2 →
      AllWorlds P (zipProj ps fin rows err w0 acc) ∧
      ((zipProj ps fin rows err w0 acc).fin.1 = none →
        fin.1 = none ∧ (zipProj ps fin rows err w0 acc).fin.2 = fin.2) := by
  intro ps
  induction ps with
  | nil =>
    intro fin rows err w0 acc h0 hacc _ hfin
    cases rows with
    | nil =>
      obtain ⟨f, wf⟩ := fin
      cases err with
      | none =>
        cases f with
        | none => simp only [zipProj]; exact ⟨⟨h0, hacc, hfin⟩, fun _ => by simp⟩
        | some fl =>
          cases fl <;> simp only [zipProj] <;> exact ⟨⟨h0, hacc, hfin⟩, fun h => by simp at h⟩
      | some pe =>
        cases f with
        | none => simp only [zipProj]; exact ⟨⟨h0, hacc, hfin⟩, fun h => by simp at h⟩
        | some fl =>
          cases fl <;> simp only [zipProj] <;> exact ⟨⟨h0, hacc, hfin⟩, fun h => by simp at h⟩
    | cons r rs =>
      simp only [zipProj]
      exact ⟨⟨h0, hacc, hfin⟩, fun h => by simp at h⟩
  | cons p ps ih =>
    intro fin rows err w0 acc h0 hacc hps hfin
    obtain ⟨pairs, w⟩ := p
    have hw : P w := hps (pairs, w) List.mem_cons_self
    cases rows with
    | nil =>
      cases err with
      | none => simp only [zipProj]; exact ⟨⟨h0, hacc, hw⟩, fun h => by simp at h⟩
      | some pe => simp only [zipProj]; exact ⟨⟨h0, hacc, hw⟩, fun h => by simp at h⟩
    | cons r rs =>
      simp only [zipProj]
      split
      · refine ih fin rs err w0 _ h0 ?_ (fun q hq => hps q (List.mem_cons_of_mem _ hq)) hfin
        intro q hq
        rcases List.mem_append.mp hq with h | h
        · exact hacc q h
        · simp only [List.mem_singleton] at h; subst h; exact hw
      · exact ⟨⟨h0, hacc, hw⟩, fun h => by simp at h⟩

theorem orderTrace_worlds {P : World → Prop} (keys : List Order.Key) (kind : PollKind) (bs : Nat)
    (t : Trace (List Value)) (h : AllWorlds P t) :
    AllWorlds P (orderTrace keys kind bs t) ∧ (orderTrace keys kind bs t).fin.2 = t.fin.2 ∧
    ((orderTrace keys kind bs t).fin.1 = none → t.fin.1 = none) := by
  obtain ⟨h0, _, hf⟩ := h
  unfold orderTrace
  simp only
  split
  · rename_i f hfl
    exact ⟨⟨h0, by simp, hf⟩, rfl, fun h => by simp at h⟩
  · rename_i hfl
    cases kind with
    | next =>
      simp only
      split
      · exact ⟨⟨h0, by simp, hf⟩, rfl, fun _ => hfl⟩
      · refine ⟨⟨h0, ?_, hf⟩, rfl, fun _ => hfl⟩
        intro p hp
        simp only [List.mem_map] at hp
        obtain ⟨r, _, rfl⟩ := hp
        exact hf
    | batch =>
      simp only
      split
      · exact ⟨⟨h0, by simp, hf⟩, rfl, fun _ => hfl⟩
      · refine ⟨⟨h0, ?_, hf⟩, rfl, fun _ => hfl⟩
        intro p hp
        simp only [List.mem_map] at hp
        obtain ⟨r, _, rfl⟩ := hp
        exact hf

theorem worldAfter_of_all {α : Type} {P : World → Prop} (t : Trace α) (h : AllWorlds P t) (k : Nat) :
    P (t.worldAfter k) := by
  obtain ⟨h0, hp, hf⟩ := h
  cases k with
  | zero => exact h0
  | succ k =>
    simp only [Trace.worldAfter]
    cases hk : t.polls[k]? with
    | none => exact hf
    | some p => exact hp p (List.mem_of_getElem? hk)

theorem limitTrace_worlds {α : Type} {P : World → Prop} (start count : Nat) (kind : PollKind) (bs : Nat)
    (t : Trace α) (h : AllWorlds P t) : AllWorlds P (limitTrace start count kind bs t) := by
  have h0 := h.1
  unfold limitTrace
  cases kind with
  | next =>
    simp only
    split
    · refine ⟨h0, ?_, worldAfter_of_all t h _⟩
      intro p hp
      simp only [List.mem_map] at hp
      obtain ⟨r, _, rfl⟩ := hp
      exact worldAfter_of_all t h _
    · refine ⟨h0, ?_, worldAfter_of_all t h _⟩
      intro p hp
      simp only [List.mem_map] at hp
      obtain ⟨r, _, rfl⟩ := hp
      exact worldAfter_of_all t h _
  | batch =>
    simp only
    split
    · split
      · refine ⟨h0, ?_, worldAfter_of_all t h _⟩
        intro p hp
        simp only [List.mem_map] at hp
        obtain ⟨r, _, rfl⟩ := hp
        exact worldAfter_of_all t h _
      · refine ⟨h0, ?_, worldAfter_of_all t h _⟩
        intro p hp
        simp only [List.mem_map] at hp
        obtain ⟨r, _, rfl⟩ := hp
        exact worldAfter_of_all t h _
    · refine ⟨h0, ?_, worldAfter_of_all t h _⟩
      intro p hp
      simp only [List.mem_map] at hp
      obtain ⟨r, _, rfl⟩ := hp
      exact worldAfter_of_all t h _

end Kvql.Proofs.RunRegion
