/-
  RunNoPanic, part 15a: the pure aggregation model (`Kvql.Aggr`, Model/Aggregate.lean) for an arbitrary
  evaluation table `Eval P` and plan `Plan`:
    * `GoodErr`   the errors that `Run.aggrFail` maps to `Fail.exec _`;
    * `EvalOK`    the table only reports `GoodErr` errors on the indices the plan uses;
    * `PlanOK`    the call indices of every field expression are below the number of its accumulators and its
                  constant leaves only carry `GoodErr` errors;
    * `RowOK`     a row of the group table has the shape `createAggrRow` gives it.
  Then `prepare`, `prepareBatch`, `drainNext`, `drainBatch` only fail with `GoodErr` errors, the rows keep their
  shape, and every row handed out has `pl.fields.length` values.
-/
import Kvql.Model.Aggregate

namespace Kvql.Proofs.RunNoPanic.AggrNP

open Kvql Kvql.Aggr

/-! ### good errors -/

/-- the errors that are reported as an error value (not `malformed`, not an evaluator panic / runaway) -/
def GoodErr : Aggr.Err → Prop
  | .eval c => c ≠ "panic" ∧ c ≠ "fuel"
  | .malformed => False
  | _ => True

/-- a result whose error, if it is one, is good -/
def GoodRes {α : Type} (x : Except Aggr.Err α) : Prop := ∀ e, x = .error e → GoodErr e

theorem goodRes_ok {α : Type} (a : α) : GoodRes (Except.ok a : Except Aggr.Err α) := by
  intro e h; cases h

theorem goodRes_pure {α : Type} (a : α) : GoodRes (pure a : Except Aggr.Err α) := by
  intro e h; cases h

theorem goodRes_error {α : Type} {e : Aggr.Err} (h : GoodErr e) : GoodRes (Except.error e : Except Aggr.Err α) := by
  intro e' h'; cases h'; exact h

theorem GoodRes.bind {α β : Type} {x : Except Aggr.Err α} {f : α → Except Aggr.Err β} (hx : GoodRes x)
    (hf : ∀ a, x = .ok a → GoodRes (f a)) : GoodRes (x >>= f) := by
  cases x with
  | error e => intro e' h; cases h; exact hx e rfl
  | ok a => exact hf a rfl

theorem GoodRes.map {α β : Type} {x : Except Aggr.Err α} (f : α → β) (hx : GoodRes x) : GoodRes (x.map f) := by
  cases x with
  | error e => intro e' h; cases h; exact hx e rfl
  | ok a => intro e' h; cases h

theorem bind_ok {α β : Type} {x : Except Aggr.Err α} {f : α → Except Aggr.Err β} {b : β} (h : x >>= f = .ok b) :
    ∃ a, x = .ok a ∧ f a = .ok b := by
  cases x with
  | error e => cases h
  | ok a => exact ⟨a, rfl, h⟩

theorem goodRes_mapM {α β : Type} (f : α → Except Aggr.Err β) : ∀ (l : List α), (∀ x ∈ l, GoodRes (f x)) →
    GoodRes (l.mapM f)
  | [], _ => by rw [List.mapM_nil]; exact goodRes_pure _
  | a :: l, h => by
    rw [List.mapM_cons]
    exact (h a List.mem_cons_self).bind fun b _ =>
      (goodRes_mapM f l (fun x hx => h x (List.mem_cons_of_mem _ hx))).bind fun bs _ => goodRes_pure _

theorem mapM_ok_length {α β : Type} (f : α → Except Aggr.Err β) : ∀ (l : List α) (out : List β),
    l.mapM f = .ok out → out.length = l.length
  | [], out, h => by rw [List.mapM_nil] at h; cases h; rfl
  | a :: l, out, h => by
    rw [List.mapM_cons] at h
    obtain ⟨b, _, h⟩ := bind_ok h
    obtain ⟨bs, hbs, h⟩ := bind_ok h
    cases h
    simp [mapM_ok_length f l bs hbs]

theorem convertToBytes_good (v : AVal) : GoodRes (convertToBytes v) := by
  intro e h
  cases v with
  | bool b => cases b <;> cases h
  | other => cases h; trivial
  | _ => cases h

/-! ### well-formed plans and evaluation tables -/

/-- an expression over aggregate results that only refers to the first `n` accumulators -/
def ExprOK (n : Nat) : AggExpr → Prop
  | .call i => i < n
  | .leaf v => GoodRes v
  | .arith _ _ l r => ExprOK n l ∧ ExprOK n r
  | .strcat l r => ExprOK n l ∧ ExprOK n r

theorem ExprOK.mono {n m : Nat} (hnm : n ≤ m) : ∀ {e : AggExpr}, ExprOK n e → ExprOK m e
  | .call i, h => by simp only [ExprOK] at h ⊢; omega
  | .leaf v, h => h
  | .arith _ _ l r, h => ⟨ExprOK.mono hnm h.1, ExprOK.mono hnm h.2⟩
  | .strcat l r, h => ⟨ExprOK.mono hnm h.1, ExprOK.mono hnm h.2⟩

def FieldOK : Field → Prop
  | .key => True
  | .agg calls e => ExprOK calls.length e

/-- the table only reports good errors on the indices the plan uses -/
structure EvalOK {P : Type} (ev : Eval P) (pl : Plan) : Prop where
  group : ∀ j, j < pl.nGroups → ∀ p, GoodRes (ev.group j p)
  keyField : ∀ i, pl.fields[i]? = some .key → ∀ p, GoodRes (ev.keyField i p)
  arg : ∀ i calls e, pl.fields[i]? = some (.agg calls e) → ∀ c, c < calls.length → ∀ p, GoodRes (ev.arg i c p)

def ColOK : Field → Col → Prop
  | .key, .key _ => True
  | .agg calls e, .agg accs e' => accs.length = calls.length ∧ e' = e
  | _, _ => False

/-- the row has one column per field, of the field's kind, with one accumulator per aggregate call -/
def RowOK : List Field → Row → Prop
  | [], [] => True
  | f :: fs, c :: cs => ColOK f c ∧ RowOK fs cs
  | _, _ => False

def GroupsOK (fs : List Field) (gs : Groups) : Prop := ∀ kr ∈ gs, RowOK fs kr.2

/-- `fs` is the part of `all` from index `i` on (as far as it goes) -/
def At (all : List Field) (i : Nat) (fs : List Field) : Prop := ∀ k f, fs[k]? = some f → all[i + k]? = some f

theorem At.head {all : List Field} {i : Nat} {f : Field} {fs : List Field} (h : At all i (f :: fs)) :
    all[i]? = some f := by
  have := h 0 f (by simp)
  simpa using this

theorem At.tail {all : List Field} {i : Nat} {f : Field} {fs : List Field} (h : At all i (f :: fs)) :
    At all (i + 1) fs := by
  intro k g hg
  have := h (k + 1) g (by simpa using hg)
  rw [show i + 1 + k = i + (k + 1) by omega]
  exact this

theorem At.zero (all : List Field) : At all 0 all := by
  intro k f h; simpa using h

/-! ### the group key -/

section
variable {P : Type} {ev : Eval P} {pl : Plan}

theorem getAggrKeyLoop_good (hev : EvalOK ev pl) (p : P) : ∀ (js : List Nat) (gkey : Bytes),
    (∀ j ∈ js, j < pl.nGroups) → GoodRes (getAggrKeyLoop ev p js gkey)
  | [], gkey, _ => by rw [getAggrKeyLoop]; exact goodRes_ok _
  | j :: js, gkey, h => by
    rw [getAggrKeyLoop]
    exact (hev.group j (h j List.mem_cons_self) p).bind fun v _ =>
      (convertToBytes_good v).bind fun b _ =>
        getAggrKeyLoop_good hev p js _ (fun x hx => h x (List.mem_cons_of_mem _ hx))

theorem getAggrKey_good (hev : EvalOK ev pl) (p : P) : GoodRes (getAggrKey ev pl p) := by
  unfold getAggrKey
  split
  · exact goodRes_ok _
  · exact getAggrKeyLoop_good hev p _ _ (fun j hj => List.mem_range.mp hj)

theorem keyOfVals_good : ∀ (vs : List AVal) (k : Bytes), GoodRes (keyOfVals vs k)
  | [], k => by rw [keyOfVals]; exact goodRes_ok _
  | v :: vs, k => by
    rw [keyOfVals]
    exact (convertToBytes_good v).bind fun b _ => keyOfVals_good vs _

theorem keysOfCols_good : ∀ (n : Nat) (cols : List (List AVal)), GoodRes (keysOfCols n cols)
  | 0, cols => by rw [keysOfCols]; exact goodRes_ok _
  | n + 1, cols => by
    rw [keysOfCols]
    exact (keyOfVals_good _ _).bind fun k _ => (keysOfCols_good n _).bind fun ks _ => goodRes_pure _

theorem batchGetAggrKeys_good (hev : EvalOK ev pl) (chunk : List P) : GoodRes (batchGetAggrKeys ev pl chunk) := by
  unfold batchGetAggrKeys
  split
  · exact goodRes_ok _
  · refine GoodRes.bind ?_ fun cols _ => keysOfCols_good _ _
    apply goodRes_mapM
    intro j hj
    apply goodRes_mapM
    intro p _
    exact hev.group j (List.mem_range.mp hj) p

/-! ### creating and updating a row -/

theorem createCols_good (hev : EvalOK ev pl) (p : P) : ∀ (i : Nat) (fs : List Field), At pl.fields i fs →
    GoodRes (createCols ev p i fs) ∧ ∀ row, createCols ev p i fs = .ok row → RowOK fs row
  | i, [], _ => by
    rw [createCols]
    exact ⟨goodRes_ok _, fun row h => by cases h; trivial⟩
  | i, .key :: fs, hat => by
    rw [createCols]
    obtain ⟨ih1, ih2⟩ := createCols_good hev p (i + 1) fs hat.tail
    constructor
    · exact (hev.keyField i hat.head p).bind fun v _ => (convertToBytes_good v).bind fun b _ =>
        ih1.bind fun rest _ => goodRes_pure _
    · intro row h
      obtain ⟨v, _, h⟩ := bind_ok h
      obtain ⟨b, _, h⟩ := bind_ok h
      obtain ⟨rest, hrest, h⟩ := bind_ok h
      cases h
      exact ⟨trivial, ih2 rest hrest⟩
  | i, .agg calls e :: fs, hat => by
    rw [createCols]
    obtain ⟨ih1, ih2⟩ := createCols_good hev p (i + 1) fs hat.tail
    constructor
    · exact ih1.bind fun rest _ => goodRes_pure _
    · intro row h
      obtain ⟨rest, hrest, h⟩ := bind_ok h
      cases h
      exact ⟨⟨by simp, rfl⟩, ih2 rest hrest⟩

theorem step_good (a : Acc) {arg : Except Aggr.Err AVal} (h : GoodRes arg) : GoodRes (a.step arg) := by
  cases a <;> first | exact goodRes_ok _ | exact h.map _

theorem updateAccs_good (i : Nat) (p : P) : ∀ (c : Nat) (accs : List Acc),
    (∀ c', c ≤ c' → c' < c + accs.length → GoodRes (ev.arg i c' p)) →
    GoodRes (updateAccs ev i p c accs) ∧ ∀ accs', updateAccs ev i p c accs = .ok accs' → accs'.length = accs.length
  | c, [], _ => by
    rw [updateAccs]
    exact ⟨goodRes_ok _, fun accs' h => by cases h; rfl⟩
  | c, a :: as, h => by
    rw [updateAccs]
    obtain ⟨ih1, ih2⟩ := updateAccs_good i p (c + 1) as (fun c' h1 h2 => h c' (by omega) (by simp; omega))
    constructor
    · exact (step_good a (h c (Nat.le_refl _) (by simp))).bind fun a' _ => ih1.bind fun as' _ => goodRes_pure _
    · intro accs' h'
      obtain ⟨a', _, h'⟩ := bind_ok h'
      obtain ⟨as', has, h'⟩ := bind_ok h'
      cases h'
      simp [ih2 as' has]

theorem updateCols_good (hev : EvalOK ev pl) (p : P) : ∀ (i : Nat) (fs : List Field) (row : Row),
    At pl.fields i fs → RowOK fs row →
    GoodRes (updateCols ev p i row) ∧ ∀ row', updateCols ev p i row = .ok row' → RowOK fs row'
  | i, [], [], _, _ => by
    rw [updateCols]
    exact ⟨goodRes_ok _, fun row' h => by cases h; trivial⟩
  | i, [], c :: cs, _, hr => by simp [RowOK] at hr
  | i, f :: fs, [], _, hr => by simp [RowOK] at hr
  | i, f :: fs, .key v :: cs, hat, hr => by
    obtain ⟨hc, hr'⟩ := hr
    rw [updateCols]
    obtain ⟨ih1, ih2⟩ := updateCols_good hev p (i + 1) fs cs hat.tail hr'
    constructor
    · exact ih1.bind fun rest _ => goodRes_pure _
    · intro row' h
      obtain ⟨rest, hrest, h⟩ := bind_ok h
      cases h
      exact ⟨hc, ih2 rest hrest⟩
  | i, f :: fs, .agg accs e :: cs, hat, hr => by
    obtain ⟨hc, hr'⟩ := hr
    rw [updateCols]
    obtain ⟨ih1, ih2⟩ := updateCols_good hev p (i + 1) fs cs hat.tail hr'
    cases f with
    | key => simp [ColOK] at hc
    | agg calls e0 =>
      obtain ⟨hlen, he⟩ := hc
      obtain ⟨u1, u2⟩ := updateAccs_good (ev := ev) i p 0 accs
        (fun c' _ h2 => hev.arg i calls e0 hat.head c' (by omega) p)
      constructor
      · exact u1.bind fun accs' _ => ih1.bind fun rest _ => goodRes_pure _
      · intro row' h
        obtain ⟨accs', haccs, h⟩ := bind_ok h
        obtain ⟨rest, hrest, h⟩ := bind_ok h
        cases h
        exact ⟨⟨by rw [u2 accs' haccs, hlen], he⟩, ih2 rest hrest⟩

theorem createAggrRow_good (hev : EvalOK ev pl) (p : P) :
    GoodRes (createAggrRow ev pl p) ∧ ∀ row, createAggrRow ev pl p = .ok row → RowOK pl.fields row :=
  createCols_good hev p 0 pl.fields (At.zero _)

theorem updateRow_good (hev : EvalOK ev pl) (p : P) (row : Row) (hr : RowOK pl.fields row) :
    GoodRes (updateRow ev p row) ∧ ∀ row', updateRow ev p row = .ok row' → RowOK pl.fields row' :=
  updateCols_good hev p 0 pl.fields row (At.zero _) hr

/-! ### `prepare` / `prepareBatch` -/

theorem lookup_mem' {β : Type} : ∀ {l : List (Bytes × β)} {k : Bytes} {x : β}, l.lookup k = some x → (k, x) ∈ l
  | [], _, _, h => by simp at h
  | (k', y) :: rest, k, x, h => by
    simp only [List.lookup] at h
    split at h
    · rename_i heq
      have : k = k' := by simpa using heq
      cases h; subst this; simp
    · exact List.mem_cons_of_mem _ (lookup_mem' h)

theorem setRow_ok (fs : List Field) (key : Bytes) (row : Row) (hrow : RowOK fs row) : ∀ (gs : Groups),
    GroupsOK fs gs → GroupsOK fs (setRow key row gs)
  | [], _ => by intro kr h; cases h
  | (k, r) :: gs, h => by
    rw [setRow]
    split
    · intro kr hkr
      rcases List.mem_cons.mp hkr with rfl | hkr
      · exact hrow
      · exact h kr (List.mem_cons_of_mem _ hkr)
    · intro kr hkr
      rcases List.mem_cons.mp hkr with rfl | hkr
      · exact h _ List.mem_cons_self
      · exact setRow_ok fs key row hrow gs (fun x hx => h x (List.mem_cons_of_mem _ hx)) kr hkr

theorem absorb_good (hev : EvalOK ev pl) (gs : Groups) (hgs : GroupsOK pl.fields gs) (key : Bytes) (p : P) :
    GoodRes (absorb ev pl gs key p) ∧ ∀ gs', absorb ev pl gs key p = .ok gs' → GroupsOK pl.fields gs' := by
  unfold absorb
  split
  · rename_i row hl
    have hrow : RowOK pl.fields row := hgs _ (lookup_mem' hl)
    obtain ⟨u1, u2⟩ := updateRow_good hev p row hrow
    constructor
    · exact u1.bind fun _ _ => goodRes_pure _
    · intro gs' h
      obtain ⟨row', hr', h⟩ := bind_ok h
      cases h
      exact setRow_ok _ _ _ (u2 row' hr') gs hgs
  · obtain ⟨c1, c2⟩ := createAggrRow_good hev p
    constructor
    · exact c1.bind fun row hrow => (updateRow_good hev p row (c2 row hrow)).1.bind fun _ _ => goodRes_pure _
    · intro gs' h
      obtain ⟨row, hrow, h⟩ := bind_ok h
      obtain ⟨row', hr', h⟩ := bind_ok h
      cases h
      intro kr hkr
      rcases List.mem_append.mp hkr with hkr | hkr
      · exact hgs kr hkr
      · simp only [List.mem_singleton] at hkr
        subst hkr
        exact (updateRow_good hev p row (c2 row hrow)).2 row' hr'

theorem prepare_good (hev : EvalOK ev pl) : ∀ (ps : List P) (gs : Groups), GroupsOK pl.fields gs →
    GoodRes (prepare ev pl gs ps) ∧ ∀ gs', prepare ev pl gs ps = .ok gs' → GroupsOK pl.fields gs'
  | [], gs, hgs => by
    rw [prepare]
    exact ⟨goodRes_ok _, fun gs' h => by cases h; exact hgs⟩
  | p :: ps, gs, hgs => by
    rw [prepare]
    constructor
    · exact (getAggrKey_good hev p).bind fun key _ =>
        (absorb_good hev gs hgs key p).1.bind fun gs1 h1 =>
          (prepare_good hev ps gs1 ((absorb_good hev gs hgs key p).2 gs1 h1)).1
    · intro gs' h
      obtain ⟨key, _, h⟩ := bind_ok h
      obtain ⟨gs1, h1, h⟩ := bind_ok h
      exact (prepare_good hev ps gs1 ((absorb_good hev gs hgs key p).2 gs1 h1)).2 gs' h

theorem absorbChunk_good (hev : EvalOK ev pl) : ∀ (kps : List (Bytes × P)) (gs : Groups), GroupsOK pl.fields gs →
    GoodRes (absorbChunk ev pl gs kps) ∧ ∀ gs', absorbChunk ev pl gs kps = .ok gs' → GroupsOK pl.fields gs'
  | [], gs, hgs => by
    rw [absorbChunk]
    exact ⟨goodRes_ok _, fun gs' h => by cases h; exact hgs⟩
  | (key, p) :: rest, gs, hgs => by
    rw [absorbChunk]
    constructor
    · exact (absorb_good hev gs hgs key p).1.bind fun gs1 h1 =>
        (absorbChunk_good hev rest gs1 ((absorb_good hev gs hgs key p).2 gs1 h1)).1
    · intro gs' h
      obtain ⟨gs1, h1, h⟩ := bind_ok h
      exact (absorbChunk_good hev rest gs1 ((absorb_good hev gs hgs key p).2 gs1 h1)).2 gs' h

theorem prepareBatch_good (hev : EvalOK ev pl) : ∀ (chunks : List (List P)) (gs : Groups), GroupsOK pl.fields gs →
    GoodRes (prepareBatch ev pl gs chunks) ∧ ∀ gs', prepareBatch ev pl gs chunks = .ok gs' → GroupsOK pl.fields gs'
  | [], gs, hgs => by
    rw [prepareBatch]
    exact ⟨goodRes_ok _, fun gs' h => by cases h; exact hgs⟩
  | chunk :: rest, gs, hgs => by
    rw [prepareBatch]
    split
    · exact ⟨goodRes_ok _, fun gs' h => by cases h; exact hgs⟩
    · constructor
      · exact (batchGetAggrKeys_good hev chunk).bind fun keys _ =>
          (absorbChunk_good hev _ gs hgs).1.bind fun gs1 h1 =>
            (prepareBatch_good hev rest gs1 ((absorbChunk_good hev _ gs hgs).2 gs1 h1)).1
      · intro gs' h
        obtain ⟨keys, _, h⟩ := bind_ok h
        obtain ⟨gs1, h1, h⟩ := bind_ok h
        exact (prepareBatch_good hev rest gs1 ((absorbChunk_good hev _ gs hgs).2 gs1 h1)).2 gs' h

end

/-! ### handing out the rows -/

theorem complete_good (a : Acc) : GoodRes a.complete := by
  intro e h
  cases a with
  | arrayagg items =>
    simp only [Acc.complete] at h
    split at h
    · cases h
    · cases h; trivial
  | _ => cases h

theorem floatOp_good (op : MathOp) (rpos : Nat) (l r : F64) : GoodRes (floatOp op rpos l r) := by
  intro e h
  cases op with
  | div =>
    simp only [floatOp] at h
    split at h
    · cases h; trivial
    · cases h
  | _ => cases h

theorem executeMathOp_good (op : MathOp) (rpos : Nat) (l r : AVal) : GoodRes (executeMathOp op rpos l r) := by
  intro e h
  unfold executeMathOp at h
  split at h
  · cases op with
    | div =>
      simp only at h
      split at h
      · cases h; trivial
      · cases h
    | _ => cases h
  · exact floatOp_good _ _ _ _ e h
  · exact floatOp_good _ _ _ _ e h
  · exact floatOp_good _ _ _ _ e h
  · cases h; trivial

theorem eval_good (res : List AVal) : ∀ (e : AggExpr), ExprOK res.length e → GoodRes (e.eval res)
  | .call i, h => by
    simp only [ExprOK] at h
    rw [AggExpr.eval, List.getElem?_eq_getElem h]
    exact goodRes_ok _
  | .leaf v, h => by rw [AggExpr.eval]; exact h
  | .arith op rpos l r, h => by
    rw [AggExpr.eval]
    exact (eval_good res l h.1).bind fun lv _ => (eval_good res r h.2).bind fun rv _ => executeMathOp_good _ _ _ _
  | .strcat l r, h => by
    rw [AggExpr.eval]
    exact (eval_good res l h.1).bind fun lv _ => (eval_good res r h.2).bind fun rv _ => goodRes_pure _

theorem finishRow_good : ∀ (fs : List Field) (row : Row), RowOK fs row → (∀ f ∈ fs, FieldOK f) →
    GoodRes (finishRow row) ∧ ∀ out, finishRow row = .ok out → out.length = fs.length
  | [], [], _, _ => by
    rw [finishRow]
    exact ⟨goodRes_ok _, fun out h => by cases h; rfl⟩
  | [], c :: cs, hr, _ => by simp [RowOK] at hr
  | f :: fs, [], hr, _ => by simp [RowOK] at hr
  | f :: fs, .key v :: cs, hr, hf => by
    rw [finishRow]
    obtain ⟨ih1, ih2⟩ := finishRow_good fs cs hr.2 (fun x hx => hf x (List.mem_cons_of_mem _ hx))
    constructor
    · exact ih1.bind fun _ _ => goodRes_pure _
    · intro out h
      obtain ⟨rest, hrest, h⟩ := bind_ok h
      cases h
      simp [ih2 rest hrest]
  | f :: fs, .agg accs e :: cs, hr, hf => by
    rw [finishRow]
    obtain ⟨ih1, ih2⟩ := finishRow_good fs cs hr.2 (fun x hx => hf x (List.mem_cons_of_mem _ hx))
    have hc := hr.1
    have hfo := hf f List.mem_cons_self
    cases f with
    | key => simp [ColOK] at hc
    | agg calls e0 =>
      obtain ⟨hlen, he⟩ := hc
      subst he
      simp only [FieldOK] at hfo
      constructor
      · refine (goodRes_mapM _ _ (fun a _ => complete_good a)).bind fun res hres => ?_
        have hl := mapM_ok_length _ _ _ hres
        refine (eval_good res e ?_).bind fun _ _ => ih1.bind fun _ _ => goodRes_pure _
        rw [hl, hlen]; exact hfo
      · intro out h
        obtain ⟨res, _, h⟩ := bind_ok h
        obtain ⟨v, _, h⟩ := bind_ok h
        obtain ⟨rest, hrest, h⟩ := bind_ok h
        cases h
        simp [ih2 rest hrest]

theorem drainNext_good (fs : List Field) (hf : ∀ f ∈ fs, FieldOK f) : ∀ (rows : List Row), (∀ r ∈ rows, RowOK fs r) →
    (∀ e, (drainNext rows).2 = some e → GoodErr e) ∧ ∀ out ∈ (drainNext rows).1, out.length = fs.length
  | [], _ => by
    rw [drainNext]
    exact ⟨fun e h => (by cases h), fun out h => by cases h⟩
  | r :: rest, h => by
    obtain ⟨f1, f2⟩ := finishRow_good fs r (h r List.mem_cons_self) hf
    obtain ⟨ih1, ih2⟩ := drainNext_good fs hf rest (fun x hx => h x (List.mem_cons_of_mem _ hx))
    rw [drainNext]
    cases hfr : finishRow r with
    | error e =>
      simp only
      exact ⟨fun e' he' => (by cases he'; exact f1 e hfr), fun out ho => by cases ho⟩
    | ok out =>
      simp only
      refine ⟨ih1, fun o ho => ?_⟩
      rcases List.mem_cons.mp ho with rfl | ho
      · exact f2 _ hfr
      · exact ih2 o ho

theorem batchLoop_good (fs : List Field) (hf : ∀ f ∈ fs, FieldOK f) : ∀ (n : Nat) (rows : List Row)
    (acc : List (List AVal)), (∀ r ∈ rows, RowOK fs r) → (∀ out ∈ acc, out.length = fs.length) →
    (∀ e, (batchLoop n rows acc).1 = .error e → GoodErr e) ∧
    (∀ b, (batchLoop n rows acc).1 = .ok b → ∀ out ∈ b, out.length = fs.length) ∧
    (∀ r ∈ (batchLoop n rows acc).2, RowOK fs r)
  | 0, rows, acc, hr, ha => by
    rw [batchLoop]
    exact ⟨fun e h => (by cases h), fun b h => (by cases h; exact ha), hr⟩
  | n + 1, [], acc, hr, ha => by
    rw [batchLoop]
    exact ⟨fun e h => (by cases h), fun b h => (by cases h; exact ha), hr⟩
  | n + 1, r :: rest, acc, hr, ha => by
    obtain ⟨f1, f2⟩ := finishRow_good fs r (hr r List.mem_cons_self) hf
    have hrest : ∀ x ∈ rest, RowOK fs x := fun x hx => hr x (List.mem_cons_of_mem _ hx)
    rw [batchLoop]
    cases hfr : finishRow r with
    | error e =>
      simp only
      exact ⟨fun e' he' => (by cases he'; exact f1 e hfr), fun b h => (by cases h), hrest⟩
    | ok out =>
      simp only
      have ha' : ∀ o ∈ acc ++ [out], o.length = fs.length := by
        intro o ho
        rcases List.mem_append.mp ho with ho | ho
        · exact ha o ho
        · simp only [List.mem_singleton] at ho; subst ho; exact f2 _ hfr
      split
      · exact ⟨fun e h => (by cases h), fun b h => (by cases h; exact ha'), hrest⟩
      · exact batchLoop_good fs hf n rest _ hrest ha'

theorem batch_good (fs : List Field) (hf : ∀ f ∈ fs, FieldOK f) (bs : Nat) (rows : List Row)
    (hr : ∀ r ∈ rows, RowOK fs r) :
    (∀ e, (batch bs rows).1 = .error e → GoodErr e) ∧
    (∀ b, (batch bs rows).1 = .ok b → ∀ out ∈ b, out.length = fs.length) ∧
    (∀ r ∈ (batch bs rows).2, RowOK fs r) := by
  unfold batch
  split
  · exact ⟨fun e h => (by cases h), fun b h => (by cases h; intro o ho; cases ho), fun r h => (by cases h)⟩
  · exact batchLoop_good fs hf bs rows [] hr (fun o ho => by cases ho)

theorem drainBatch_good (fs : List Field) (hf : ∀ f ∈ fs, FieldOK f) (bs : Nat) : ∀ (fuel : Nat) (rows : List Row),
    (∀ r ∈ rows, RowOK fs r) →
    (∀ e, (drainBatch bs fuel rows).2 = some e → GoodErr e) ∧
    ∀ b ∈ (drainBatch bs fuel rows).1, ∀ out ∈ b, out.length = fs.length
  | 0, rows, _ => by
    rw [drainBatch]
    exact ⟨fun e h => (by cases h), fun b h => by cases h⟩
  | fuel + 1, rows, hr => by
    obtain ⟨b1, b2, b3⟩ := batch_good fs hf bs rows hr
    rw [drainBatch]
    rcases hb : batch bs rows with ⟨r, rest⟩
    rw [hb] at b1 b2 b3
    cases r with
    | error e =>
      simp only
      exact ⟨fun e' he' => (by cases he'; exact b1 e rfl), fun b h => by cases h⟩
    | ok b =>
      cases b with
      | nil =>
        simp only
        exact ⟨fun e h => (by cases h), fun b h => by cases h⟩
      | cons o os =>
        simp only
        obtain ⟨ih1, ih2⟩ := drainBatch_good fs hf bs fuel rest b3
        refine ⟨ih1, fun b hb' => ?_⟩
        rcases List.mem_cons.mp hb' with rfl | hb'
        · exact b2 _ rfl
        · exact ih2 b hb'

end Kvql.Proofs.RunNoPanic.AggrNP
