/-
  print_reparse: assembling the lexer half and the parser half by induction on the tree.
-/
import Kvql.Proofs.ParserPrintParse

set_option linter.unusedSimpArgs false

namespace Kvql.Proofs.PrintParse

open Kvql Kvql.Parser Kvql.Lexer Kvql.Generated Kvql.Proofs.PrintLex Kvql.Proofs.LexSpec

variable (pf : Bytes → F64)

/-- what the first token of the text of `e` is not -/
def FirstOK (e : Expr) (t : Token) : Prop :=
  t.tp ≠ tkRPAREN ∧ t.tp ≠ tkRBRACK ∧ (noParen e = true → t.tp ≠ tkLPAREN) ∧
    (primaryKind e = true → notBang t)

/-- the token list `ts` of the text of `e` parses back to `e` at every level of the grammar -/
structure ROK (e : Expr) (ts : Toks) : Prop where
  u : UOK pf e ts
  p : primaryKind e = true → POK pf e ts
  hd : Head (FirstOK e) ts

theorem rok_prim {e : Expr} {t : Token} {r : Toks} (hp : POK pf e (t :: r)) (hk : primaryKind e = true)
    (hf : FirstOK e t) : ROK pf e (t :: r) :=
  { u := uok_of_pok pf (hf.2.2.2 hk) hp, p := fun _ => hp, hd := ⟨t, r, rfl, hf⟩ }

theorem notBang_of_tp {t : Token} (h : t.tp ≠ tkOPERATOR) : notBang t := by
  unfold notBang
  have : (t.tp == tkOPERATOR) = false := by simpa using h
  simp [this]

/-- a single-token operand of kind `tp` (none of the kinds below is an operator or a bracket) -/
theorem rok_atom {e x : Expr} {tp : Nat} {d : Bytes} {i : Nat} (hk : primaryKind e = true)
    (hop : ∀ f lev rest, parseOperand pf (f + 1) lev (tok tp d i :: rest) = .ok (x, rest))
    (he : erasePos x = erasePos e)
    (htp : tp ≠ tkRPAREN ∧ tp ≠ tkRBRACK ∧ tp ≠ tkLPAREN ∧ tp ≠ tkOPERATOR) :
    ROK pf e [tok tp d i] :=
  rok_prim pf (pok_single pf hop he) hk
    ⟨htp.1, htp.2.1, fun _ => htp.2.2.1, fun _ => notBang_of_tp htp.2.2.2⟩

theorem firstOK_tok (e : Expr) {tp : Nat} (d : Bytes) (p : Nat) (h1 : tp ≠ tkRPAREN) (h2 : tp ≠ tkRBRACK)
    (h3 : noParen e = true → tp ≠ tkLPAREN) (h4 : primaryKind e = true → tp ≠ tkOPERATOR) :
    FirstOK e (tok tp d p) :=
  ⟨h1, h2, h3, fun hk => notBang_of_tp (h4 hk)⟩

theorem toString_list (q : Nat) (items : List Expr) : (Expr.list q items).toString =
    Bytes.ofAscii "(" ++ Expr.joinSep (Bytes.ofAscii ", ") (Expr.toStringList items) ++ Bytes.ofAscii ")" := by
  conv => lhs; unfold Expr.toString

theorem primaryKind_of_atomic {n : Expr} (h : n.calleeAtomic = true) : primaryKind n = true ∧ noParen n = true := by
  cases n <;> simp_all [Expr.calleeAtomic, primaryKind, noParen]

theorem head_append {P : Token → Prop} {a : Toks} (h : Head P a) (b : Toks) : Head P (a ++ b) := by
  obtain ⟨t, r, rfl, ht⟩ := h
  exact ⟨t, r ++ b, rfl, ht⟩

theorem head_mono {P Q : Token → Prop} {a : Toks} (h : Head P a) (hpq : ∀ t, P t → Q t) : Head Q a := by
  obtain ⟨t, r, rfl, ht⟩ := h
  exact ⟨t, r, rfl, hpq t ht⟩

theorem Outside_items {es : List Expr} (h : printables pf es = true) :
    Outside (Expr.joinSep (Bytes.ofAscii ", ") (Expr.toStringList es)) :=
  Outside_joinSep _ o_lit1.2.2.2.2.2.2.2.2 _ (Outside_toStrings pf es h)

mutual
  theorem reparse : ∀ (e : Expr), printable pf e = true → ∀ i, ROK pf e (T i e.toString)
    | .name p d, h, i => by
      unfold printable nameOK at h
      simp only [Bool.and_eq_true, beq_iff_eq] at h
      unfold Expr.toString
      rw [T_word h.1, h.2]
      exact rok_atom pf rfl (fun f lev rest => operand_name pf f lev d i rest) (by simp [erasePos])
        (by decide)
    | .field p kw, _, i => by
      cases kw
      · unfold Expr.toString
        rw [T_key]
        exact rok_atom pf rfl (fun f lev rest => operand_key pf f lev _ i rest) (by simp [erasePos])
          (by decide)
      · unfold Expr.toString
        rw [T_value]
        exact rok_atom pf rfl (fun f lev rest => operand_value pf f lev _ i rest) (by simp [erasePos])
          (by decide)
    | .str p d, h, i => by
      unfold printable at h
      unfold Expr.toString
      rw [T_str h]
      exact rok_atom pf rfl (fun f lev rest => operand_str pf f lev d i rest) (by simp [erasePos])
        (by decide)
    | .num p d v, h, i => by
      unfold printable numOK at h
      simp only [Bool.and_eq_true, beq_iff_eq] at h
      unfold Expr.toString
      rw [T_word h.1.1, h.1.2]
      exact rok_atom pf rfl (fun f lev rest => operand_num pf f lev d i rest)
        (by simp [erasePos, Expr.newNumber, h.2]) (by decide)
    | .float p d v, h, i => by
      unfold printable floatOK at h
      simp only [Bool.and_eq_true, beq_iff_eq] at h
      unfold Expr.toString
      rw [T_word h.1.1, h.1.2]
      exact rok_atom pf rfl (fun f lev rest => operand_float pf f lev d i rest)
        (by simp [erasePos, h.2]) (by decide)
    | .bool p d v, h, i => by
      unfold printable at h
      unfold Expr.toString
      rcases boolOK_cases h with ⟨rfl, rfl⟩ | ⟨rfl, rfl⟩
      · rw [T_word (by decide), show classify (Bytes.ofAscii "true") = tkTRUE from by decide]
        exact rok_atom pf rfl (fun f lev rest => operand_true pf f lev _ i rest) (by simp [erasePos])
          (by decide)
      · rw [T_word (by decide), show classify (Bytes.ofAscii "false") = tkFALSE from by decide]
        exact rok_atom pf rfl (fun f lev rest => operand_false pf f lev _ i rest) (by simp [erasePos])
          (by decide)
    | .not p r, h, i => by
      unfold printable at h
      unfold Expr.toString
      obtain ⟨j, q, hT⟩ := T_not (Outside_toString pf r h) i
      rw [hT]
      exact {
        u := uok_not pf p (bok_of_uok pf (reparse r h j).u) i (i + 1) q
        p := fun hk => by simp [primaryKind] at hk
        hd := ⟨_, _, rfl, firstOK_tok _ _ _ (by decide) (by decide) (fun _ => by decide)
          (fun hk => by simp [primaryKind] at hk)⟩ }
    | .call p n args, h, i => by
      unfold printable at h
      simp only [Bool.and_eq_true] at h
      obtain ⟨⟨hat, hn⟩, hargs⟩ := h
      unfold Expr.toString
      obtain ⟨j1, p1, p2, hT⟩ := T_call (Outside_toString pf n hn) (Outside_items pf hargs) i
      rw [hT]
      have hnk := primaryKind_of_atomic hat
      have rn := reparse n hn i
      obtain ⟨t, r, htn, hft⟩ := rn.hd
      have hp : POK pf (.call p n args) (T i n.toString ++ tok tkLPAREN [40] p1 ::
          (T j1 (Expr.joinSep (Bytes.ofAscii ", ") (Expr.toStringList args)) ++ [tok tkRPAREN [41] p2])) :=
        pok_call pf p (rn.p hnk.1) hat (reparse_items args hargs j1) p1 p2
      rw [htn] at hp ⊢
      exact rok_prim pf hp rfl ⟨hft.1, hft.2.1, fun _ => hft.2.2.1 hnk.2, fun _ => hft.2.2.2 hnk.1⟩
    | .access p l f, h, i => by
      unfold printable at h
      simp only [Bool.and_eq_true] at h
      obtain ⟨⟨hlk, hl⟩, hf⟩ := h
      unfold Expr.toString
      obtain ⟨j1, p1, p2, hT⟩ := T_access (Outside_toString pf l hl) (Outside_toString pf f hf) i
      rw [hT]
      have rl := reparse l hl i
      have rf := reparse f hf j1
      obtain ⟨t, r, htl, hft⟩ := rl.hd
      have hp : POK pf (.access p l f) (T i l.toString ++ tok tkLBRACK [91] p1 ::
          (T j1 f.toString ++ [tok tkRBRACK [93] p2])) :=
        pok_access pf p (rl.p hlk) (bok_of_uok pf rf.u) (head_mono rf.hd (fun t ht => ht.2.1)) p1 p2
      rw [htl] at hp ⊢
      exact rok_prim pf hp rfl ⟨hft.1, hft.2.1, fun hnp => hft.2.2.1 (by simpa [noParen] using hnp),
        fun _ => hft.2.2.2 hlk⟩
    | .binop p op l r, h, i => by
      have hp := h
      unfold printable at hp
      have hLP : ∀ q : Nat, FirstOK (.binop p op l r) (tok tkLPAREN [40] q) := fun q =>
        firstOK_tok _ _ _ (by decide) (by decide) (fun hnp => by simp [noParen] at hnp) (fun _ => by decide)
      have key : ∀ op' : Op, op' ≠ .not → op' ≠ .in_ → op' ≠ .between → printable pf l = true →
          printable pf r = true → ROK pf (.binop p op' l r) (T i (Expr.binop p op' l r).toString) := by
        intro op' h1 h2 h3 hl hr
        have hts : (Expr.binop p op' l r).toString = Bytes.ofAscii "(" ++ l.toString ++ Bytes.ofAscii " " ++
            Expr.opText op' ++ Bytes.ofAscii " " ++ r.toString ++ Bytes.ofAscii ")" := by
          conv => lhs; unfold Expr.toString
          cases op' <;> simp_all
        obtain ⟨j1, j2, p2, p3, hT⟩ := T_generic op' h1 (Outside_toString pf l hl) (Outside_toString pf r hr) i
        rw [hts, hT]
        exact rok_prim pf (pok_generic pf op' p h1 h2 h3 (reparse l hl j1).u
          (bok_of_uok pf (reparse r hr j2).u) i p2 p3) rfl
          (firstOK_tok _ _ _ (by decide) (by decide) (fun hnp => by simp [noParen] at hnp) (fun _ => by decide))
      cases op
      case not => simp at hp
      case between =>
        simp only [Bool.and_eq_true] at hp
        obtain ⟨hl, hr⟩ := hp
        cases r
        case list q items =>
          simp only [Bool.and_eq_true, beq_iff_eq] at hr
          match items, hr.1, hr.2 with
          | [lo, hi], _, hitems =>
            unfold printables at hitems
            simp only [Bool.and_eq_true] at hitems
            have hhi : printable pf hi = true := by
              have := hitems.2
              unfold printables at this
              simp only [Bool.and_eq_true] at this
              exact this.1
            unfold Expr.toString
            simp only [Expr.toStringList]
            obtain ⟨j1, j2, j3, p2, p3, p4, hT⟩ := T_between (Outside_toString pf l hl)
              (Outside_toString pf lo hitems.1) (Outside_toString pf hi hhi) i
            rw [hT]
            exact rok_prim pf (pok_between pf p q (reparse l hl j1).u
              (bok_of_uok pf (reparse lo hitems.1 j2).u) (bok_of_uok pf (reparse hi hhi j3).u) i p2 p3 p4)
              rfl (hLP i)
        all_goals simp at hr
      case in_ =>
        simp only [Bool.and_eq_true] at hp
        obtain ⟨hl, hr⟩ := hp
        cases r
        case list q items =>
          simp only at hr
          conv => arg 3; arg 2; unfold Expr.toString
          simp only [toString_list]
          have hJ := Outside_items pf hr
          obtain ⟨j1, j2, p2, p3, hT⟩ := T_generic .in_ (by decide) (Outside_toString pf l hl)
            (Outside_parens hJ) i
          obtain ⟨j3, p4, hT2⟩ := T_parens hJ j2
          rw [hT2] at hT
          rw [hT]
          exact rok_prim pf (pok_in_list pf p q (reparse l hl j1).u (reparse_items items hr j3) i p2 j2 p4 p3)
            rfl (hLP i)
        all_goals
          simp only [Bool.and_eq_true] at hr
          obtain ⟨hnp, hr⟩ := hr
          unfold Expr.toString
          simp only
          obtain ⟨j1, j2, p2, p3, hT⟩ := T_generic .in_ (by decide) (Outside_toString pf l hl)
            (Outside_toString pf _ hr) i
          rw [hT]
          have rr := reparse _ hr j2
          exact rok_prim pf (pok_in_other pf p (reparse l hl j1).u (bok_of_uok pf rr.u)
            (head_mono rr.hd (fun t ht => ht.2.2.1 hnp)) i p2 p3) rfl (hLP i)
      all_goals
        simp only [Bool.and_eq_true] at hp
        exact key _ (by decide) (by decide) (by decide) hp.1 hp.2
    | .ref .., h, _ => by simp [printable] at h
    | .cycle, h, _ => by simp [printable] at h
    | .list .., h, _ => by simp [printable] at h
  theorem reparse_items : ∀ (es : List Expr), printables pf es = true → ∀ i,
      IOK pf es (T i (Expr.joinSep (Bytes.ofAscii ", ") (Expr.toStringList es)))
    | [], _, i => by
      simp only [Expr.toStringList, Expr.joinSep]
      rw [T_nil]
      exact iok_nil pf
    | [e], h, i => by
      unfold printables at h
      simp only [Bool.and_eq_true] at h
      simp only [Expr.toStringList, Expr.joinSep]
      have re := reparse e h.1 i
      exact iok_one pf (bok_of_uok pf re.u) (head_mono re.hd (fun t ht => ht.1))
    | e :: e2 :: es, h, i => by
      unfold printables at h
      simp only [Bool.and_eq_true] at h
      simp only [Expr.toStringList]
      obtain ⟨j, ps, hT⟩ := T_join_cons (Outside_toString pf e h.1) (Expr.toString e2) (Expr.toStringList es) i
      rw [hT]
      have re := reparse e h.1 i
      have := reparse_items (e2 :: es) h.2 j
      simp only [Expr.toStringList] at this
      exact iok_cons pf (bok_of_uok pf re.u) (head_mono re.hd (fun t ht => ht.1)) this ps
end

end Kvql.Proofs.PrintParse

namespace Kvql.Proofs.PrintParse

open Kvql Kvql.Parser Kvql.Lexer Kvql.Generated Kvql.Proofs.PrintLex Kvql.Proofs.LexSpec

/-- print → lex → parse gives the tree back, modulo positions -/
theorem print_reparse (pf : Bytes → F64) (e : Expr) (h : printable pf e = true)
    (hsize : 8 * (Lexer.split e.toString).length + 8 ≤ maxNestLevel) :
    ∃ e', parseExpr pf (exprFuel (Lexer.split e.toString)) (Lexer.split e.toString) = .ok (e', []) ∧
      erasePos e' = erasePos e := by
  have hT : Lexer.split e.toString = T 0 e.toString := by
    rw [Proofs.LexRefine.split_eq_spec, lex_eq_L]
  have hb := bok_of_uok pf (reparse pf e h 0).u
  rw [hT] at hsize ⊢
  have := hb (exprFuel (T 0 e.toString)) 0 1 [] (stopB_nil 1) (by simp [exprFuel])
    (by simp only [exprFuel, maxNest]; omega)
  simpa [parseExpr] using this

end Kvql.Proofs.PrintParse
