/-
  C15, precedence and parentheses — abstract trees.

  `synOf e` is the concrete syntax of `e` with parentheses only where the documented precedence
  table and left associativity require them; `wf e` (decidable) is the class of trees of the
  expression parser's image; `canonPos e` is `e` with the three derived positions set the way the
  parser computes them.  For `wf e`: `synOf e` is `Syn.ok` and strips to `canonPos e`.
-/
import Kvql.Proofs.ParsePrecMain

set_option linter.unusedSimpArgs false
set_option linter.unusedVariables false

namespace Kvql.Proofs.ParsePrec

open Kvql Kvql.Parser Kvql.Generated Kvql.Proofs.PrintLex Kvql.Proofs.PrintParse
open Kvql.Proofs.Prec (atomTok opOK pr opPrec_pos)

def isListE : Expr → Bool
  | .list .. => true
  | _ => false
def isBinE : Expr → Bool
  | .binop .. => true
  | _ => false
def isNotE : Expr → Bool
  | .not .. => true
  | _ => false

/-- `( s )` if `b` -/
def parIf (b : Bool) (s : Syn) : Syn := if b then .paren s else s

/-- a binary node whose right operand is not a list: the left operand is parenthesised when it
    binds less tightly than the operator, the right operand when it does not bind more tightly
    (left associativity); the right operand of `in` cannot take parentheses (they would make it
    a list) -/
def binExpr (p : Nat) (op : Op) (l r : Syn) : Syn :=
  if op == .in_ then .inExpr p (parIf (decide (l.lpr < 3)) l) r
  else .bin p op (parIf (decide (l.lpr < opPrec op)) l) (parIf (decide (r.lpr ≤ opPrec op)) r)

/-- a binary node whose right operand is a list: `in ( … )`, `between … and …` (the bounds are
    read at the level of `+`) -/
def binList (p : Nat) (op : Op) (l : Syn) (items : List Syn) : Syn :=
  if op == .between then
    match items with
    | [lo, hi] =>
      .between p (parIf (decide (l.lpr < 3)) l) (parIf (decide (lo.lpr < 4)) lo) (parIf (decide (hi.lpr < 4)) hi)
    | _ => .inList p (parIf (decide (l.lpr < 3)) l) items
  else .inList p (parIf (decide (l.lpr < 3)) l) items

mutual
  /-- minimal parenthesisation -/
  def synOf : Expr → Syn
    | .binop p op l (.list _ items) => binList p op (synOf l) (synOfList items)
    | .binop p op l r => binExpr p op (synOf l) (synOf r)
    | .not p r => .not p (parIf (synOf r).isBin (synOf r))
    | .call _ n args => .call (synOf n) (synOfList args)
    | .access p l f => .access p (parIf (!(synOf l).isPrimary) (synOf l)) (synOf f)
    | e => .atom e
  def synOfList : List Expr → List Syn
    | [] => []
    | e :: es => synOf e :: synOfList es
end

/-- the minimal text of `e` starts with `(` -/
def headParenE : Expr → Bool
  | .binop _ op l _ => decide (pr l < opPrec op) || headParenE l
  | .call _ n _ => headParenE n
  | .access _ l _ => isBinE l || isNotE l || headParenE l
  | _ => false

mutual
  /-- the positions as the parser computes them: the list to the right of `in` / `between` takes
      the operator's position, a call its callee's -/
  def canonPos : Expr → Expr
    | .binop p op l (.list _ items) => .binop p op (canonPos l) (.list p (canonPosList items))
    | .binop p op l r => .binop p op (canonPos l) (canonPos r)
    | .not p r => .not p (canonPos r)
    | .call _ n args => .call (canonPos n).pos (canonPos n) (canonPosList args)
    | .access p l f => .access p (canonPos l) (canonPos f)
    | e => e
  def canonPosList : List Expr → List Expr
    | [] => []
    | e :: es => canonPos e :: canonPosList es
end

section
variable (pf : Bytes → F64)

mutual
  /-- the trees of the expression parser's image: a list stands only to the right of `in`
      (any number of items) or `between` (two); `!` is not binary; a right operand of `in` that
      is not a list binds more tightly than `in` and its text does not start with `(`; callees are
      single tokens; no alias reference; number and float literals carry the value of their text -/
  def wf : Expr → Bool
    | .binop _ op l (.list _ items) =>
      wf l && wfList items && (op == .in_ || (op == .between && items.length == 2))
    | .binop _ op l r =>
      wf l && wf r && op != .not && op != .between &&
        (op != .in_ || (decide (4 ≤ pr r) && !headParenE r))
    | .not _ r => wf r
    | .call _ n args => n.calleeAtomic && wf n && wfList args
    | .access _ l f => wf l && wf f
    | e => (atomTok pf e).isSome            -- literals, names, `key`, `value`; not: list, ref, cycle
  def wfList : List Expr → Bool
    | [] => true
    | e :: es => wf e && wfList es
end

/-- the tokens of `e`, minimally parenthesised -/
def printMin (e : Expr) : Toks := (synOf e).toks pf

end

/-! ### equations for a binary node by the kind of its right operand -/

theorem synOf_binop_nonlist {p : Nat} {op : Op} {l r : Expr} (h : isListE r = false) :
    synOf (.binop p op l r) = binExpr p op (synOf l) (synOf r) := by
  cases r <;> first | rfl | simp [isListE] at h

theorem canonPos_binop_nonlist {p : Nat} {op : Op} {l r : Expr} (h : isListE r = false) :
    canonPos (.binop p op l r) = .binop p op (canonPos l) (canonPos r) := by
  cases r <;> first | rfl | simp [isListE] at h

theorem wf_binop_nonlist (pf : Bytes → F64) {p : Nat} {op : Op} {l r : Expr} (h : isListE r = false) :
    wf pf (.binop p op l r) = (wf pf l && wf pf r && op != .not && op != .between &&
        (op != .in_ || (decide (4 ≤ pr r) && !headParenE r))) := by
  cases r <;> first | rfl | simp [isListE] at h

/-! ### `parIf` -/

theorem ok_parIf (pf : Bytes → F64) (b : Bool) (s : Syn) : (parIf b s).ok pf = s.ok pf := by
  cases b <;> simp [parIf, Syn.ok]
theorem strip_parIf (b : Bool) (s : Syn) : (parIf b s).strip = s.strip := by
  cases b <;> simp [parIf, Syn.strip]
theorem lpr_parIf (b : Bool) (s : Syn) : (parIf b s).lpr = if b then 7 else s.lpr := by
  cases b <;> simp [parIf, Syn.lpr]
theorem rpr_parIf (b : Bool) (s : Syn) : (parIf b s).rpr = if b then 7 else s.rpr := by
  cases b <;> simp [parIf, Syn.rpr]
theorem headParen_parIf (b : Bool) (s : Syn) : (parIf b s).headParen = (b || s.headParen) := by
  cases b <;> simp [parIf, Syn.headParen]
theorem isPrimary_parIf (b : Bool) (s : Syn) : (parIf b s).isPrimary = (b || s.isPrimary) := by
  cases b <;> simp [parIf, Syn.isPrimary]
theorem isBin_parIf (b : Bool) (s : Syn) : (parIf b s).isBin = (!b && s.isBin) := by
  cases b <;> simp [parIf, Syn.isBin]

/-- a left operand, parenthesised if it is weaker than `c ≤ 5`, is strong enough on both sides -/
theorem left_parIf (s : Syn) {c : Nat} (hc : c ≤ 5) :
    c ≤ (parIf (decide (s.lpr < c)) s).rpr ∧ c ≤ (parIf (decide (s.lpr < c)) s).lpr := by
  rw [rpr_parIf, lpr_parIf]
  have := Syn.lpr_le_rpr s
  by_cases h : s.lpr < c <;> simp [h] <;> omega

/-! ### what `synOf` satisfies -/

section
variable (pf : Bytes → F64)

structure Facts (e : Expr) : Prop where
  ok : (synOf e).ok pf = true
  lp : (synOf e).lpr = pr e
  bin : (synOf e).isBin = isBinE e
  prim : (synOf e).isPrimary = (!isBinE e && !isNotE e)
  hp : (synOf e).headParen = headParenE e
  st : (synOf e).strip = canonPos e

structure FactsList (es : List Expr) : Prop where
  ok : Syn.okList pf (synOfList es) = true
  st : Syn.stripList (synOfList es) = canonPosList es

theorem factsList_of_all : ∀ es : List Expr, (∀ e ∈ es, Facts pf e) → FactsList pf es
  | [], _ => { ok := rfl, st := rfl }
  | e :: es, h => by
    have ie := h e (by simp)
    have ies := factsList_of_all es (fun x hx => h x (by simp [hx]))
    exact {
      ok := by simp only [synOfList, Syn.okList, ie.ok, ies.ok, Bool.and_self]
      st := by simp only [synOfList, Syn.stripList, ie.st, ies.st, canonPosList] }

theorem wf_not_list {e : Expr} (h : wf pf e = true) : isListE e = false := by
  cases e <;> simp_all [isListE, wf, atomTok]

theorem facts_atom {e : Expr} (h : (atomTok pf e).isSome = true) (hs : synOf e = .atom e)
    (hc : canonPos e = e) : Facts pf e := by
  have hk : isBinE e = false ∧ isNotE e = false ∧ pr e = 7 ∧ headParenE e = false := by
    cases e <;> simp_all [isBinE, isNotE, pr, headParenE, atomTok]
  exact { ok := by rw [hs]; simpa [Syn.ok] using h
          lp := by rw [hs, hk.2.2.1]; rfl
          bin := by rw [hs, hk.1]; rfl
          prim := by rw [hs, hk.1, hk.2.1]; rfl
          hp := by rw [hs, hk.2.2.2]; rfl
          st := by rw [hs, hc]; rfl }

theorem facts_binop_nonlist {p : Nat} {op : Op} {l r : Expr} (hnl : isListE r = false)
    (h : wf pf (.binop p op l r) = true) (fl : Facts pf l) (fr : Facts pf r) :
    Facts pf (.binop p op l r) := by
  rw [wf_binop_nonlist pf hnl] at h
  simp only [Bool.and_eq_true, Bool.or_eq_true, bne_iff_ne, ne_eq, decide_eq_true_eq,
    Bool.not_eq_true'] at h
  obtain ⟨⟨⟨⟨hl, hr⟩, hnot⟩, hbt⟩, hin⟩ := h
  have hs := synOf_binop_nonlist (p := p) (op := op) (l := l) hnl
  have hc := canonPos_binop_nonlist (p := p) (op := op) (l := l) hnl
  have h5 := Syn.opPrec_le5 op
  by_cases hop : op = .in_
  · subst hop
    have hin' : 4 ≤ pr r ∧ headParenE r = false := by simpa using hin
    have hL := left_parIf (synOf l) (show 3 ≤ 5 by omega)
    have hsy : synOf (.binop p .in_ l r) = .inExpr p (parIf (decide ((synOf l).lpr < 3)) (synOf l)) (synOf r) := by
      rw [hs]; simp [binExpr]
    exact {
      ok := by
        rw [hsy]
        simp only [Syn.ok, ok_parIf, fl.ok, fr.ok, fr.lp, fr.hp, hin'.2, Bool.and_eq_true, decide_eq_true_eq,
          Bool.not_false, and_true, true_and]
        exact ⟨hL.1, hin'.1⟩
      lp := by rw [hsy]; simp only [Syn.lpr, pr, opPrec_in]; omega
      bin := by rw [hsy]; rfl
      prim := by rw [hsy]; rfl
      hp := by
        rw [hsy]
        simp only [Syn.headParen, headParen_parIf, headParenE, fl.lp, fl.hp, opPrec_in]
        rfl
      st := by rw [hsy, hc]; simp only [Syn.strip, strip_parIf, fl.st, fr.st] }
  · have hopOK : opOK op = true := by
      cases op <;> simp_all [opOK]
    have hP := opPrec_pos hopOK
    have hL := left_parIf (synOf l) h5
    have hsy : synOf (.binop p op l r) = .bin p op (parIf (decide ((synOf l).lpr < opPrec op)) (synOf l))
        (parIf (decide ((synOf r).lpr ≤ opPrec op)) (synOf r)) := by
      rw [hs]; simp [binExpr, hop]
    exact {
      ok := by
        rw [hsy]
        simp only [Syn.ok, ok_parIf, fl.ok, fr.ok, hopOK, Bool.and_eq_true, decide_eq_true_eq, true_and]
        refine ⟨hL.1, ?_⟩
        rw [lpr_parIf]
        by_cases hx : (synOf r).lpr ≤ opPrec op <;> simp [hx] <;> omega
      lp := by rw [hsy]; simp only [Syn.lpr, pr]; omega
      bin := by rw [hsy]; rfl
      prim := by rw [hsy]; rfl
      hp := by
        rw [hsy]
        simp only [Syn.headParen, headParen_parIf, headParenE, fl.lp, fl.hp]
      st := by rw [hsy, hc]; simp only [Syn.strip, strip_parIf, fl.st, fr.st] }

theorem facts_binop_list {p q : Nat} {op : Op} {l : Expr} {items : List Expr}
    (h : wf pf (.binop p op l (.list q items)) = true) (fl : Facts pf l)
    (fa : wfList pf items = true → ∀ e ∈ items, Facts pf e) :
    Facts pf (.binop p op l (.list q items)) := by
  simp only [wf, Bool.and_eq_true, Bool.or_eq_true, beq_iff_eq] at h
  obtain ⟨⟨hl, hi⟩, hop⟩ := h
  have fa := fa hi
  have fi := factsList_of_all pf items fa
  have hL := left_parIf (synOf l) (show 3 ≤ 5 by omega)
  have hc : canonPos (.binop p op l (.list q items)) = .binop p op (canonPos l) (.list p (canonPosList items)) := by
    simp only [canonPos]
  rcases hop with rfl | ⟨rfl, hlen⟩
  · have hsy : synOf (.binop p .in_ l (.list q items)) =
        .inList p (parIf (decide ((synOf l).lpr < 3)) (synOf l)) (synOfList items) := by
      simp [synOf, binList]
    exact {
      ok := by
        rw [hsy]
        simp only [Syn.ok, ok_parIf, fl.ok, fi.ok, Bool.and_eq_true, decide_eq_true_eq, true_and]
        exact hL.1
      lp := by rw [hsy]; simp only [Syn.lpr, pr, opPrec_in]; omega
      bin := by rw [hsy]; rfl
      prim := by rw [hsy]; rfl
      hp := by
        rw [hsy]
        simp only [Syn.headParen, headParen_parIf, headParenE, fl.lp, fl.hp, opPrec_in]
        rfl
      st := by rw [hsy, hc]; simp only [Syn.strip, strip_parIf, fl.st, fi.st] }
  · obtain ⟨lo, hi', rfl⟩ : ∃ lo hi', items = [lo, hi'] := by
      match items, hlen with
      | [a, b], _ => exact ⟨a, b, rfl⟩
    have flo := fa lo (by simp)
    have fhi := fa hi' (by simp)
    have hsy : synOf (.binop p .between l (.list q [lo, hi'])) =
        .between p (parIf (decide ((synOf l).lpr < 3)) (synOf l))
          (parIf (decide ((synOf lo).lpr < 4)) (synOf lo)) (parIf (decide ((synOf hi').lpr < 4)) (synOf hi')) := by
      simp [synOf, synOfList, binList]
    have hlo := left_parIf (synOf lo) (show 4 ≤ 5 by omega)
    have hhi := left_parIf (synOf hi') (show 4 ≤ 5 by omega)
    exact {
      ok := by
        rw [hsy]
        simp only [Syn.ok, ok_parIf, fl.ok, flo.ok, fhi.ok, Bool.and_eq_true, decide_eq_true_eq, true_and]
        exact ⟨⟨hL.1, hlo.2⟩, hhi.2⟩
      lp := by rw [hsy]; simp only [Syn.lpr, pr, opPrec_between]; omega
      bin := by rw [hsy]; rfl
      prim := by rw [hsy]; rfl
      hp := by
        rw [hsy]
        simp only [Syn.headParen, headParen_parIf, headParenE, fl.lp, fl.hp, opPrec_between]
        rfl
      st := by
        rw [hsy, hc]
        simp only [Syn.strip, strip_parIf, fl.st, flo.st, fhi.st, canonPosList] }

theorem calleeAtomic_facts {n : Expr} (h : n.calleeAtomic = true) :
    synOf n = .atom n ∧ canonPos n = n := by
  cases n <;> simp_all [Expr.calleeAtomic, synOf, canonPos]

mutual
  theorem facts : ∀ e : Expr, wf pf e = true → Facts pf e
    | .binop p op l r, h => by
      have ihl := fun hl => facts l hl
      have ihr := fun hr => facts r hr
      cases r with
      | list q items =>
        have hl : wf pf l = true := by
          simp only [wf, Bool.and_eq_true] at h; exact h.1.1
        exact facts_binop_list pf h (ihl hl) (fun hi => factsList items hi)
      | _ =>
        all_goals
          rw [wf_binop_nonlist pf rfl] at h
          have h' := h
          simp only [Bool.and_eq_true] at h'
          refine facts_binop_nonlist pf rfl ?_ (ihl h'.1.1.1.1) (ihr h'.1.1.1.2)
          rw [wf_binop_nonlist pf rfl]
          exact h
    | .not p r, h => by
      simp only [wf] at h
      have ir := facts r h
      exact {
        ok := by simp only [synOf, Syn.ok, ok_parIf, ir.ok, isBin_parIf, Bool.true_and]; cases (synOf r).isBin <;> rfl
        lp := rfl
        bin := rfl
        prim := rfl
        hp := rfl
        st := by simp only [synOf, Syn.strip, strip_parIf, ir.st, canonPos] }
    | .call q n args, h => by
      simp only [wf, Bool.and_eq_true] at h
      obtain ⟨⟨hat, hn⟩, ha⟩ := h
      have ia := factsList_of_all pf args (factsList args ha)
      obtain ⟨hsn, hcn⟩ := calleeAtomic_facts hat
      have hna : (atomTok pf n).isSome = true := by
        cases n <;> simp_all [Expr.calleeAtomic, wf]
      exact {
        ok := by
          simp only [synOf, hsn, Syn.ok, Syn.isPrimary, Syn.strip, hat, hna, ia.ok, Bool.and_self]
        lp := rfl
        bin := rfl
        prim := rfl
        hp := by simp only [synOf, hsn, Syn.headParen, headParenE]; cases n <;> simp_all [Expr.calleeAtomic, headParenE]
        st := by simp only [synOf, hsn, Syn.strip, ia.st, canonPos, hcn] }
    | .access p l f, h => by
      simp only [wf, Bool.and_eq_true] at h
      have il := facts l h.1
      have iff := facts f h.2
      exact {
        ok := by
          simp only [synOf, Syn.ok, ok_parIf, il.ok, iff.ok, isPrimary_parIf, Bool.true_and, Bool.and_true]
          cases (synOf l).isPrimary <;> rfl
        lp := rfl
        bin := rfl
        prim := rfl
        hp := by
          simp only [synOf, Syn.headParen, headParen_parIf, il.prim, il.hp, headParenE]
          cases isBinE l <;> cases isNotE l <;> rfl
        st := by simp only [synOf, Syn.strip, strip_parIf, il.st, iff.st, canonPos] }
    | .field p kw, h => facts_atom pf (by simpa [wf] using h) rfl rfl
    | .str p d, h => facts_atom pf (by simpa [wf] using h) rfl rfl
    | .name p d, h => facts_atom pf (by simpa [wf] using h) rfl rfl
    | .num p d v, h => facts_atom pf (by simpa [wf] using h) rfl rfl
    | .float p d v, h => facts_atom pf (by simpa [wf] using h) rfl rfl
    | .bool p d v, h => facts_atom pf (by simpa [wf] using h) rfl rfl
    | .ref .., h => by simp [wf, atomTok] at h
    | .cycle, h => by simp [wf, atomTok] at h
    | .list .., h => by simp [wf, atomTok] at h
  theorem factsList : ∀ es : List Expr, wfList pf es = true → ∀ e ∈ es, Facts pf e
    | [], _ => by simp
    | e :: es, h => by
      simp only [wfList, Bool.and_eq_true] at h
      have ie := facts e h.1
      have ies := factsList es h.2
      intro x hx
      rcases List.mem_cons.mp hx with rfl | hx
      · exact ie
      · exact ies x hx
end

end

end Kvql.Proofs.ParsePrec
