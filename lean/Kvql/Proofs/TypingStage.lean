/-
  C14 (c): a statement that `BuildPlan` rejects has not touched the storage.

  `PlanCheck.planStage` — Parse, the plan-time function-call validation, the shape errors of
  `buildFinalPlan` and the aggregate constructors — is a function of the token list: the store is
  not among its arguments.  `PlanCheck.runQuery` starts the plan layer (whose `Init` issues the
  first storage call) only from its `ok` result.
-/
import Kvql.Proofs.TypingBasics

namespace Kvql.Proofs.Typing

open Kvql Kvql.PlanCheck Kvql.Storage

/-- the three stages in the order of `Optimizer.init` / `buildPlan` -/
theorem planStage_ok_iff {pf : Bytes → F64} {toks : Toks} {s : Stmt} :
    planStage pf toks = .ok s ↔
      Parser.Parse pf toks = .ok s ∧ checkStmtCalls s = .ok () ∧ buildStage s = .ok () := by
  unfold planStage frontStage
  constructor
  · intro h
    obtain ⟨s1, h1, h2⟩ := bind_ok_iff.mp h
    obtain ⟨s0, hp, h3⟩ := bind_ok_iff.mp h1
    obtain ⟨u, hc, h4⟩ := bind_ok_iff.mp h3
    cases h4
    obtain ⟨u', hb, h5⟩ := bind_ok_iff.mp h2
    cases h5
    exact ⟨hp, hc, hb⟩
  · rintro ⟨hp, hc, hb⟩
    simp [hp, hc, hb]

/-- a statement `Parse` rejects is rejected by `planStage` -/
theorem planStage_rejects_of_parse {pf : Bytes → F64} {toks : Toks} (h : Rejects (Parser.Parse pf toks)) :
    Rejects (planStage pf toks) := by
  intro s hs
  exact h s (planStage_ok_iff.mp hs).1

/-- a statement whose function calls do not pass the validation is rejected by `planStage` -/
theorem planStage_rejects_of_calls {pf : Bytes → F64} {toks : Toks}
    (h : ∀ s, Parser.Parse pf toks = .ok s → Rejects (checkStmtCalls s)) : Rejects (planStage pf toks) := by
  intro s hs
  obtain ⟨hp, hc, _⟩ := planStage_ok_iff.mp hs
  exact h s hp () hc

/-- REJECTED BEFORE ANY STORAGE ACCESS.  Whatever `planStage` does not accept — a syntax error, a
    checker error, an unknown function, a wrong argument count or argument type, a malformed
    GROUP BY — leaves the call log empty and the store as it was, for every store, fault index,
    iteration mode and batch size. -/
theorem reject_before_storage (compile : Stmt → Plans.Stmt) (pf : Bytes → F64) (toks : Toks)
    (kind : Plans.PollKind) (bs : Nat) (fault : Option Nat) (store : Store)
    (h : Rejects (planStage pf toks)) :
    (runQuery compile pf toks kind bs fault store).1 = none ∧
    (runQuery compile pf toks kind bs fault store).2.log = [] ∧
    (runQuery compile pf toks kind bs fault store).2.store = store := by
  unfold runQuery
  cases hp : planStage pf toks with
  | ok s => exact absurd hp (h s)
  | _ => exact ⟨rfl, rfl, rfl⟩

/-- the decision does not depend on the store: `planStage` has no store argument, and whether the
    plan layer is started is decided by it alone -/
theorem decision_store_independent (compile : Stmt → Plans.Stmt) (pf : Bytes → F64) (toks : Toks)
    (kind : Plans.PollKind) (bs : Nat) (fault : Option Nat) (store store' : Store) :
    ((runQuery compile pf toks kind bs fault store).1 = none ↔
     (runQuery compile pf toks kind bs fault store').1 = none) := by
  unfold runQuery
  cases planStage pf toks <;> simp

/-- a statement is run (storage calls become possible) only from an `ok` of `planStage` -/
theorem run_only_if_accepted (compile : Stmt → Plans.Stmt) (pf : Bytes → F64) (toks : Toks)
    (kind : Plans.PollKind) (bs : Nat) (fault : Option Nat) (store : Store)
    (h : (runQuery compile pf toks kind bs fault store).2.log ≠ []) :
    ∃ s, planStage pf toks = .ok s := by
  unfold runQuery at h
  cases hp : planStage pf toks with
  | ok s => exact ⟨s, rfl⟩
  | _ => simp [hp] at h

end Kvql.Proofs.Typing
