/-
  With the cache switched off (a nil context, or `EnableCache = false`) the result of the row
  evaluator does not depend on the context it is given: `exec e kv c` and `exec e kv c'` return the
  same value or the same error for any two contexts whose cache is off.  (Needed since the vector
  bodies of join / list / int_list / float_list run their row body with a nil context.)
  Same induction as `exec_inert`; `Off` packs "leaves the context alone" with "ignores the context".
-/
import Kvql.Proofs.ExecInert

namespace Kvql

/-- with the cache off the computation neither changes nor reads the context -/
def Off {α} (x : M α) : Prop :=
  Inert x ∧ ∀ c c' : Ctx, c.enable = false → c'.enable = false → (x c).1 = (x c').1

namespace Off

theorem pure {α} (a : α) : Off (Pure.pure a : M α) := ⟨.pure a, fun _ _ _ _ => rfl⟩
theorem throw {α} (e : Err) : Off (M.throw e : M α) := ⟨.throw e, fun _ _ _ _ => rfl⟩
theorem lift {α} (x : Except Err α) : Off (M.lift x) := ⟨.lift x, fun _ _ _ _ => rfl⟩

theorem bind {α β} {x : M α} {f : α → M β} (hx : Off x) (hf : ∀ a, Off (f a)) : Off (x >>= f) := by
  refine ⟨.bind hx.1 fun a => (hf a).1, fun c c' hc hc' => ?_⟩
  have h1 := hx.1 c hc
  have h2 := hx.1 c' hc'
  have h3 := hx.2 c c' hc hc'
  rw [M.bind_run, M.bind_run]
  rcases hxc : x c with ⟨r, d⟩
  rcases hxc' : x c' with ⟨r', d'⟩
  rw [hxc] at h1 h3; rw [hxc'] at h2 h3
  simp at h1 h2 h3; subst h1 h2 h3
  cases r with
  | error e => rfl
  | ok a => exact (hf a).2 _ _ hc hc'

theorem ite {α} {p : Prop} [Decidable p] {x y : M α} (hx : Off x) (hy : Off y) :
    Off (if p then x else y) := by split <;> assumption

/-- the whole outcome at a cache-off context, from the outcome at another one -/
theorem run_eq {α} {x : M α} (h : Off x) {c c' : Ctx} (hc : c.enable = false) (hc' : c'.enable = false)
    {r : Except Err α} {d : Ctx} (hr : x c = (r, d)) : x c' = (r, c') := by
  have h1 := h.2 c c' hc hc'
  have h2 := h.1 c' hc'
  rw [hr] at h1
  rcases hx : x c' with ⟨r', d'⟩
  rw [hx] at h1 h2; simp at h1 h2; subst h1 h2; rfl

end Off

mutual
  theorem exec_off : ∀ (e : Expr) (kv : Pair), Off (exec e kv)
    | .str .., kv => by rw [exec]; exact .pure _
    | .field _ k, kv => by cases k <;> rw [exec] <;> exact .pure _
    | .name .., kv => by rw [exec]; exact .pure _
    | .num .., kv => by rw [exec]; exact .pure _
    | .float .., kv => by rw [exec]; exact .pure _
    | .bool .., kv => by rw [exec]; exact .pure _
    | .list .., kv => by rw [exec]; exact .pure _
    | .cycle, kv => by rw [exec]; exact .throw _
    | .not _ r, kv => by
      rw [exec]
      exact .bind (exec_off r kv) fun v => .bind (.lift _) fun _ => .pure _
    | .ref p name target, kv => by
      have ht := exec_off target kv
      refine ⟨fun c hc => ?_, fun c c' hc hc' => ?_⟩
      · rw [exec_ref_off p name target kv hc (ht.1 c hc)]; exact ht.1 c hc
      · rw [exec_ref_off p name target kv hc (ht.1 c hc), exec_ref_off p name target kv hc' (ht.1 c' hc')]
        exact ht.2 c c' hc hc'
    | .access _ l f, kv => by
      rw [exec]
      refine .bind (exec_off l kv) fun left => ?_
      split <;> first | exact .lift _ | exact .throw _
    | .call _ nm args, kv => by
      rw [exec]
      split
      · exact .throw _
      · split
        · exact .throw _
        · split
          · exact .throw _
          · split
            · exact .throw _
            · split
              · exact .throw _
              · exact rowBody_off _ args kv
    | .binop _ op l r, kv => by
      have hl := exec_off l kv
      have hr := exec_off r kv
      cases op <;> rw [exec] <;> (try dsimp only)
      · exact .bind hl fun a => .bind (.lift _) fun x => .ite (.pure _) (.bind hr fun b => .bind (.lift _) fun _ => .pure _)
      · exact .bind hl fun a => .bind (.lift _) fun x => .ite (.pure _) (.bind hr fun b => .bind (.lift _) fun _ => .pure _)
      · exact .throw _
      · exact .bind hl fun a => .bind hr fun b => .bind (.lift _) fun _ => .pure _
      · exact .bind hl fun a => .bind hr fun b => .bind (.lift _) fun _ => .pure _
      · refine .bind hl fun a => .bind hr fun b => ?_
        split <;> first | exact .pure _ | exact .throw _
      · refine .bind hl fun a => .bind hr fun b => ?_
        split
        · split <;> first | exact .pure _ | exact .throw _
        · exact .throw _
      · split
        · exact .bind hl fun a => .bind hr fun b => .pure _
        · exact .bind hl fun a => .bind hr fun b => .lift _
      · exact .bind hl fun a => .bind hr fun b => .lift _
      · exact .bind hl fun a => .bind hr fun b => .lift _
      · exact .bind hl fun a => .bind hr fun b => .lift _
      · exact .bind hl fun a => .bind hr fun b => .bind (.lift _) fun _ => .pure _
      · exact .bind hl fun a => .bind hr fun b => .bind (.lift _) fun _ => .pure _
      · exact .bind hl fun a => .bind hr fun b => .bind (.lift _) fun _ => .pure _
      · exact .bind hl fun a => .bind hr fun b => .bind (.lift _) fun _ => .pure _
      · refine .bind hl fun left => ?_
        split
        · exact execInItems_off _ left _ kv
        · exact .ite (.throw _) (.bind hr fun fret => by
            split <;> first | exact .pure _ | exact .throw _)
        · exact .ite (.throw _) (.bind hr fun fret => by
            split <;> first | exact .pure _ | exact .throw _)
        · exact .throw _
      · refine .bind hl fun left => ?_
        split
        · rename_i p lo hi
          exact .ite (.throw _) (.ite (.throw _)
            (.bind (exec_off lo kv) fun lv => .bind (exec_off hi kv) fun uv => .lift _))
        · exact .throw _
      · exact .bind hl fun a => .bind (.lift _) fun x => .ite (.pure _) (.bind hr fun b => .bind (.lift _) fun _ => .pure _)
      · exact .bind hl fun a => .bind (.lift _) fun x => .ite (.pure _) (.bind hr fun b => .bind (.lift _) fun _ => .pure _)

  theorem execInItems_off : ∀ (number : Bool) (left : Value) (es : List Expr) (kv : Pair),
      Off (execInItems number left es kv)
    | _, _, [], kv => by rw [execInItems]; exact .pure _
    | number, left, e :: es, kv => by
      rw [execInItems]
      exact .ite (.throw _) (.bind (exec_off e kv) fun lv =>
        .bind (.lift _) fun c => .ite (.pure _) (execInItems_off number left es kv))

  theorem execArgs_off : ∀ (es : List Expr) (kv : Pair), Off (execArgs es kv)
    | [], kv => by rw [execArgs]; exact .pure _
    | e :: es, kv => by
      rw [execArgs]
      exact .bind (exec_off e kv) fun v => .bind (execArgs_off es kv) fun vs => .pure _

  theorem rowBody_off : ∀ (b : Body) (args : List Expr) (kv : Pair), Off (rowBody b args kv)
    | .lower, a0 :: _, kv => by rw [rowBody]; exact .bind (exec_off a0 kv) fun v => .pure _
    | .upper, a0 :: _, kv => by rw [rowBody]; exact .bind (exec_off a0 kv) fun v => .pure _
    | .toInt, a0 :: _, kv => by rw [rowBody]; exact .bind (exec_off a0 kv) fun v => .pure _
    | .toFloat, a0 :: _, kv => by rw [rowBody]; exact .bind (exec_off a0 kv) fun v => .pure _
    | .toStr, a0 :: _, kv => by rw [rowBody]; exact .bind (exec_off a0 kv) fun v => .pure _
    | .isInt, a0 :: _, kv => by rw [rowBody]; exact .bind (exec_off a0 kv) fun v => .pure _
    | .isFloat, a0 :: _, kv => by rw [rowBody]; exact .bind (exec_off a0 kv) fun v => .pure _
    | .strlen, a0 :: _, kv => by rw [rowBody]; exact .bind (exec_off a0 kv) fun v => .pure _
    | .len, a0 :: _, kv => by
      rw [rowBody]; exact .bind (exec_off a0 kv) fun v => .bind (.lift _) fun _ => .pure _
    | .json, a0 :: _, kv => by
      rw [rowBody]; refine .bind (exec_off a0 kv) fun v => ?_
      split <;> first | exact .pure _ | exact .throw _
    | .subStr, a0 :: a1 :: a2 :: _, kv => by
      rw [rowBody]
      exact .bind (exec_off a0 kv) fun v => .ite (.throw _) (.ite (.throw _)
        (.bind (exec_off a1 kv) fun s => .bind (exec_off a2 kv) fun l => .lift _))
    | .split, a0 :: a1 :: _, kv => by
      rw [rowBody]
      exact .bind (exec_off a0 kv) fun v => .ite (.throw _) (.bind (exec_off a1 kv) fun _ => .pure _)
    | .join, a0 :: rest, kv => by
      rw [rowBody]
      exact .ite (.throw _) (.bind (exec_off a0 kv) fun _ => .bind (execArgs_off rest kv) fun _ => .pure _)
    | .cosine, a0 :: a1 :: _, kv => by
      rw [rowBody]
      exact .bind (exec_off a0 kv) fun l => .bind (exec_off a1 kv) fun r =>
        .bind (.lift _) fun _ => .bind (.lift _) fun _ => .bind (.lift _) fun _ => .pure _
    | .l2, a0 :: a1 :: _, kv => by
      rw [rowBody]
      exact .bind (exec_off a0 kv) fun l => .bind (exec_off a1 kv) fun r =>
        .bind (.lift _) fun _ => .bind (.lift _) fun _ => .bind (.lift _) fun _ => .pure _
    | .floatList, [], kv => by rw [rowBody]; exact .pure _
    | .floatList, a0 :: rest, kv => by
      rw [rowBody]; exact .bind (exec_off a0 kv) fun _ => .bind (execArgs_off rest kv) fun _ => .pure _
    | .intList, [], kv => by rw [rowBody]; exact .pure _
    | .intList, a0 :: rest, kv => by
      rw [rowBody]; exact .bind (exec_off a0 kv) fun _ => .bind (execArgs_off rest kv) fun _ => .pure _
    | .toList, [], kv => by rw [rowBody]; exact .pure _
    | .toList, a0 :: rest, kv => by
      rw [rowBody]
      exact .bind (exec_off a0 kv) fun _ => .bind (exec_off a0 kv) fun _ =>
        .bind (execArgs_off rest kv) fun _ => .ite (.pure _) (.pure _)
    | .lower, [], _ | .upper, [], _ | .toInt, [], _ | .toFloat, [], _
    | .toStr, [], _ | .isInt, [], _ | .isFloat, [], _ | .strlen, [], _
    | .len, [], _ | .json, [], _ | .join, [], _
    | .subStr, [], _ | .subStr, [_], _ | .subStr, [_, _], _
    | .split, [], _ | .split, [_], _
    | .cosine, [], _ | .cosine, [_], _
    | .l2, [], _ | .l2, [_], _ => by simp only [rowBody]; exact .throw _
end


end Kvql
