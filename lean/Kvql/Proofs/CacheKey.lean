/-
  C05: the key of `FieldChunkKeyCaches`, `chunkCacheKey(name, key) = len(name) "-" name "-" key`, is
  injective in (name, key) — whatever bytes the name contains.  The key before the repair,
  `name "-" key`, is not: `a` with `b-k1` and `a-b` with `k1` (`chunkKeyUnpatched_collision`).
-/
import Kvql.Model.Ctx

namespace Kvql.Cache
open Kvql

theorem decDigits_small {n : Nat} (h : n < 10) : Ctx.decDigits n = [UInt8.ofNat (48 + n)] := by
  rw [Ctx.decDigits]; simp [h]

theorem decDigits_big {n : Nat} (h : ¬ n < 10) :
    Ctx.decDigits n = Ctx.decDigits (n / 10) ++ [UInt8.ofNat (48 + n % 10)] := by
  rw [Ctx.decDigits]; simp [h]

theorem digit_ne_dash {d : Nat} (h : d < 10) : UInt8.ofNat (48 + d) ≠ 45 := by
  have : d = 0 ∨ d = 1 ∨ d = 2 ∨ d = 3 ∨ d = 4 ∨ d = 5 ∨ d = 6 ∨ d = 7 ∨ d = 8 ∨ d = 9 := by omega
  rcases this with rfl | rfl | rfl | rfl | rfl | rfl | rfl | rfl | rfl | rfl <;> decide

theorem digit_inj {d d' : Nat} (h : d < 10) (h' : d' < 10) (e : UInt8.ofNat (48 + d) = UInt8.ofNat (48 + d')) : d = d' := by
  have h1 : d = 0 ∨ d = 1 ∨ d = 2 ∨ d = 3 ∨ d = 4 ∨ d = 5 ∨ d = 6 ∨ d = 7 ∨ d = 8 ∨ d = 9 := by omega
  have h2 : d' = 0 ∨ d' = 1 ∨ d' = 2 ∨ d' = 3 ∨ d' = 4 ∨ d' = 5 ∨ d' = 6 ∨ d' = 7 ∨ d' = 8 ∨ d' = 9 := by omega
  rcases h1 with rfl | rfl | rfl | rfl | rfl | rfl | rfl | rfl | rfl | rfl <;>
    rcases h2 with rfl | rfl | rfl | rfl | rfl | rfl | rfl | rfl | rfl | rfl <;>
    first | rfl | (exact absurd e (by decide))

theorem decDigits_ne_nil (n : Nat) : Ctx.decDigits n ≠ [] := by
  by_cases h : n < 10
  · rw [decDigits_small h]; simp
  · rw [decDigits_big h]; simp

theorem decDigits_no_dash : ∀ (n : Nat), (45 : UInt8) ∉ Ctx.decDigits n := by
  intro n
  induction n using Nat.strongRecOn with
  | _ n ih =>
    by_cases h : n < 10
    · rw [decDigits_small h]; intro hm; exact digit_ne_dash h (List.mem_singleton.mp hm).symm
    · rw [decDigits_big h]
      intro hm
      rcases List.mem_append.mp hm with hm | hm
      · exact ih (n / 10) (by omega) hm
      · exact digit_ne_dash (Nat.mod_lt _ (by omega)) (List.mem_singleton.mp hm).symm

theorem decDigits_inj : ∀ (a b : Nat), Ctx.decDigits a = Ctx.decDigits b → a = b := by
  intro a
  induction a using Nat.strongRecOn with
  | _ a ih =>
    intro b e
    by_cases ha : a < 10 <;> by_cases hb : b < 10
    · rw [decDigits_small ha, decDigits_small hb] at e
      exact digit_inj ha hb (List.cons.inj e).1
    · rw [decDigits_small ha, decDigits_big hb] at e
      have hl := congrArg List.length e
      have := decDigits_ne_nil (b / 10)
      cases hd : Ctx.decDigits (b / 10) with
      | nil => exact absurd hd this
      | cons x xs => rw [hd] at hl; simp at hl
    · rw [decDigits_big ha, decDigits_small hb] at e
      have hl := congrArg List.length e
      have := decDigits_ne_nil (a / 10)
      cases hd : Ctx.decDigits (a / 10) with
      | nil => exact absurd hd this
      | cons x xs => rw [hd] at hl; simp at hl
    · rw [decDigits_big ha, decDigits_big hb] at e
      have e' := List.append_inj' e (by simp)
      have h1 := ih (a / 10) (by omega) (b / 10) e'.1
      have h2 := digit_inj (Nat.mod_lt _ (by omega)) (Nat.mod_lt _ (by omega)) (List.cons.inj e'.2).1
      omega

/-- two lists that end a dash-free prefix at a dash split at the same place -/
theorem split_at_dash : ∀ {l1 l2 r1 r2 : List UInt8}, (45 : UInt8) ∉ l1 → (45 : UInt8) ∉ l2 →
    l1 ++ 45 :: r1 = l2 ++ 45 :: r2 → l1 = l2 ∧ r1 = r2
  | [], [], _, _, _, _, e => by simpa using e
  | [], y :: l2, _, _, _, h2, e => by
    have := (List.cons.inj e).1
    exact absurd (this ▸ List.mem_cons_self) h2
  | x :: l1, [], _, _, h1, _, e => by
    have := (List.cons.inj e).1
    exact absurd (this ▸ List.mem_cons_self) h1
  | x :: l1, y :: l2, r1, r2, h1, h2, e => by
    have e1 : x = y := (List.cons.inj e).1
    have e2 : l1 ++ 45 :: r1 = l2 ++ 45 :: r2 := (List.cons.inj e).2
    obtain ⟨h3, h4⟩ := split_at_dash (l1 := l1) (l2 := l2)
      (fun h => h1 (List.mem_cons_of_mem _ h)) (fun h => h2 (List.mem_cons_of_mem _ h)) e2
    exact ⟨by rw [e1, h3], h4⟩

/-- **chunkKey_inj**: the chunk cache key determines the field name and the first key of the chunk -/
theorem chunkKey_inj {n n' k k' : Bytes} (e : Ctx.chunkKey n k = Ctx.chunkKey n' k') : n = n' ∧ k = k' := by
  unfold Ctx.chunkKey at e
  simp only [List.append_assoc, List.singleton_append] at e
  obtain ⟨hd, hr⟩ := split_at_dash (decDigits_no_dash _) (decDigits_no_dash _) e
  have hlen : n.length = n'.length := decDigits_inj _ _ hd
  obtain ⟨h1, h2⟩ := List.append_inj hr hlen
  simp at h2
  exact ⟨h1, h2⟩

/-- the key before the repair collides: field `a` over a chunk starting at `b-k1`, field `a-b` over a
    chunk starting at `k1` -/
theorem chunkKeyUnpatched_collision :
    Ctx.chunkKeyUnpatched [97] [98, 45, 107, 49] = Ctx.chunkKeyUnpatched [97, 45, 98] [107, 49] := by decide

end Kvql.Cache
