/-
  Aggregated SELECT, end to end — part 1: the SPECIFICATION the whole-statement theorems are stated
  against (the same text as in Kvql/Properties/E2EAggr.lean, which proves the two copies equal), and
  the facts about it that do not involve the plan model:

    * `complete_fold`   every accumulator of aggr_func.go, fed the values `vs` in order and completed,
                        gives `aggDef kind vs` — for ALL argument values (mixed int / float / text),
                        extending the uniformly-typed lemmas of C09 (c);
    * `groups_congr`    grouping by one key function or by another that identifies the same pairs
                        gives the same groups in the same order (used with the length-prefixed group
                        key of `getAggrKey` against the tuple of GROUP BY values).
-/
import Kvql.Model.Run
import Kvql.Proofs.AggrProofs

set_option linter.unusedSimpArgs false

namespace Kvql.Proofs.RunAggr
open Kvql Kvql.Run Kvql.Aggr Kvql.Proofs.Aggr Kvql.Generated

/-! ## the specification (copy of Properties/E2EAggr.lean) -/

/-- the value of an expression on a stored pair: the row evaluator with the field cache off -/
def valueOf (e : Expr) (p : SPair) : AVal :=
  match (exec e ⟨p.1, p.2⟩ Ctx.off).1 with
  | .ok v => toAVal v
  | .error _ => .nil

/-- a value as a GROUP BY key part / key column shows it (`convertToBytes`) -/
def render (v : AVal) : Bytes :=
  match convertToBytes v with
  | .ok b => b
  | .error _ => []

/-- an expression without aggregate call inside an aggregate field: evaluated on the empty pair -/
def constant (e : Expr) : Except Aggr.Err AVal := valA (exec e emptyKv Ctx.off).1

/-- the distinct elements, in order of first occurrence -/
def distinct {α : Type} [DecidableEq α] : List α → List α
  | [] => []
  | a :: as => a :: (distinct as).filter (fun b => decide (b ≠ a))

/-- the tuple of GROUP BY values of a pair -/
def tupleOf (groups : List Expr) (p : SPair) : List Bytes := groups.map (fun e => render (valueOf e p))

/-- one group per distinct tuple, in order of first occurrence; its pairs in key order -/
def groupsOf (groups : List Expr) (sel : List SPair) : List (List SPair) :=
  (distinct (sel.map (tupleOf groups))).map (fun t => sel.filter (fun p => decide (tupleOf groups p = t)))

/-- a number as `convertToNumber` reads a value: (as int64, as float64, is it a float?) -/
abbrev Num := Int64 × F64 × Bool

def numOut (n : Num) : AVal := if n.2.2 then .float n.2.1 else .int n.1

/-- the lesser of the number held so far and the next one: compared as floats if the one held is a
    float, as integers otherwise; the one held stays on a tie -/
def lesser (a b : Num) : Num :=
  if a.2.2 then (if F64.lt b.2.1 a.2.1 then b else a) else (if b.1 < a.1 then b else a)

def greater (a b : Num) : Num :=
  if a.2.2 then (if F64.lt a.2.1 b.2.1 then b else a) else (if a.1 < b.1 then b else a)

/-- the DEFINITION of every aggregate function over the values of its argument on the pairs of a
    group, in key order -/
def aggDef : Kind → List AVal → Except Aggr.Err AVal
  | .count, vs => .ok (.int (Int64.ofNat vs.length))
  | .sum, vs =>
    let ns := vs.map convertToNumber
    .ok (if ns.any (·.2.2) then .float (ns.foldl (fun a n => F64.add a n.2.1) F64.zero)
         else .int (ns.map (·.1)).sum)
  | .avg, vs =>
    let ns := vs.map convertToNumber
    let cnt := F64.ofInt (Int64.ofNat vs.length)
    .ok (.float (if ns.any (·.2.2) then F64.div (ns.foldl (fun a n => F64.add a n.2.1) F64.zero) cnt
                 else F64.div (F64.ofInt (ns.map (·.1)).sum) cnt))
  | .min, vs =>
    match vs.map convertToNumber with
    | [] => .ok (.int 0)
    | n :: ns => .ok (numOut (ns.foldl lesser n))
  | .max, vs =>
    match vs.map convertToNumber with
    | [] => .ok (.int 0)
    | n :: ns => .ok (numOut (ns.foldl greater n))
  | .concat sep, vs => .ok (.str (List.intercalate sep (vs.map toStr)))
  | .arrayagg, vs =>
    match jsonArray (vs.map JItem.ofVal) with
    | some b => .ok (.str b)
    | none => .error .marshal

/-- an aggregate field over the pairs of a group: every aggregate call replaced by its definition,
    `+ - * /` around them as the engine computes them, anything without a call a constant -/
def fieldDef (grp : List SPair) : Expr → Except Aggr.Err AVal
  | .binop p op l r =>
    if (PlanCheck.listAggrCalls (.binop p op l r)).isEmpty then constant (.binop p op l r)
    else
      match mathOpA op with
      | none => .error .malformed
      | some mop => do
        let lv ← fieldDef grp l
        let rv ← fieldDef grp r
        if op == .add && retType l == tyTSTR then pure (.str (toStr lv ++ toStr rv))
        else Aggr.executeMathOp mop r.pos lv rv
  | .call p (.name q d) args =>
    if PlanCheck.isAggr (toLower d) then
      match Run.kindOf (toLower d) args, args with
      | some k, a :: _ => aggDef k (grp.map (valueOf a))
      | _, _ => .error .malformed
    else constant (.call p (.name q d) args)
  | e => constant e

/-- does the select field contain an aggregate call (where `AggregatePlan.Init` looks)? -/
def isAggrField (fe : Expr) : Bool := !(PlanCheck.listAggrCalls fe).isEmpty

/-- the row of a group: an aggregate field by `fieldDef`, any other field as its value on the FIRST
    pair of the group shows -/
def rowOf (fields : List Expr) (grp : List SPair) : Except Aggr.Err (List AVal) :=
  fields.mapM (fun fe =>
    if isAggrField fe then fieldDef grp fe
    else match grp with
      | p :: _ => .ok (.bytes (render (valueOf fe p)))
      | [] => .error .malformed)

/-- **the specification**: the rows of an aggregated SELECT over the selected pairs `sel` -/
def specRows (groups fields : List Expr) (sel : List SPair) : Except Aggr.Err (List (List AVal)) :=
  (groupsOf groups sel).mapM (rowOf fields)

/-! ## unfolding `fieldDef` -/

theorem fieldDef_call (grp : List SPair) (p q : Nat) (d : Bytes) (args : List Expr) :
    fieldDef grp (.call p (.name q d) args) =
      if PlanCheck.isAggr (toLower d) then
        match Run.kindOf (toLower d) args, args with
        | some k, a :: _ => aggDef k (grp.map (valueOf a))
        | _, _ => .error .malformed
      else constant (.call p (.name q d) args) := by
  rw [fieldDef.eq_def]

theorem fieldDef_binop_const (grp : List SPair) (p : Nat) (op : Op) (l r : Expr)
    (hemp : (PlanCheck.listAggrCalls (.binop p op l r)).isEmpty = true) :
    fieldDef grp (.binop p op l r) = constant (.binop p op l r) := by
  rw [fieldDef.eq_def]
  simp only [hemp, if_true]

theorem fieldDef_binop (grp : List SPair) (p : Nat) (op : Op) (l r : Expr)
    (hemp : (PlanCheck.listAggrCalls (.binop p op l r)).isEmpty = false) :
    fieldDef grp (.binop p op l r) =
      match mathOpA op with
      | none => .error .malformed
      | some mop => (fieldDef grp l) >>= fun lv => (fieldDef grp r) >>= fun rv =>
        if op == .add && retType l == tyTSTR then pure (.str (Aggr.toStr lv ++ Aggr.toStr rv))
        else Aggr.executeMathOp mop r.pos lv rv := by
  rw [fieldDef.eq_def]
  simp only [hemp, Bool.false_eq_true, if_false]

/-! ## `distinct` and grouping -/

theorem distinct_eq_firsts {α : Type} [DecidableEq α] (l : List α) : distinct l = firsts l := by
  induction l with
  | nil => rfl
  | cons a as ih => simp only [distinct, firsts, ih]

/-- the first element of every key class, in order -/
def reps {α κ : Type} [DecidableEq κ] (k : α → κ) : List α → List α
  | [] => []
  | x :: xs => x :: (reps k xs).filter (fun y => decide (k y ≠ k x))

theorem reps_sub {α κ : Type} [DecidableEq κ] (k : α → κ) : ∀ (l : List α) x, x ∈ reps k l → x ∈ l
  | [], x, h => by simp [reps] at h
  | a :: as, x, h => by
    simp only [reps, List.mem_cons, List.mem_filter] at h
    rcases h with h | h
    · simp [h]
    · exact List.mem_cons_of_mem _ (reps_sub k as x h.1)

theorem firsts_map {α κ : Type} [DecidableEq κ] (k : α → κ) : ∀ l : List α, firsts (l.map k) = (reps k l).map k
  | [] => rfl
  | a :: as => by
    simp only [List.map_cons, firsts, reps, firsts_map k as, List.filter_map]
    rfl

theorem reps_congr {α κ τ : Type} [DecidableEq κ] [DecidableEq τ] (k : α → κ) (t : α → τ) :
    ∀ l : List α, (∀ x ∈ l, ∀ y ∈ l, k x = k y ↔ t x = t y) → reps k l = reps t l
  | [], _ => rfl
  | a :: as, h => by
    have ih := reps_congr k t as (fun x hx y hy => h x (List.mem_cons_of_mem _ hx) y (List.mem_cons_of_mem _ hy))
    simp only [reps, ih]
    congr 1
    apply List.filter_congr
    intro y hy
    have hy' : y ∈ as := reps_sub t as y hy
    have := h y (List.mem_cons_of_mem _ hy') a List.mem_cons_self
    by_cases hk : k y = k a
    · simp [hk, this.mp hk]
    · have ht : t y ≠ t a := fun e => hk (this.mpr e)
      simp [hk, ht]

/-- grouping by `k` and grouping by `t` give the same groups in the same order when the two functions
    identify the same elements of the list -/
theorem groups_congr {α κ τ : Type} [DecidableEq κ] [DecidableEq τ] (k : α → κ) (t : α → τ) (l : List α)
    (h : ∀ x ∈ l, ∀ y ∈ l, k x = k y ↔ t x = t y) :
    (firsts (l.map k)).map (fun key => l.filter (fun p => decide (k p = key))) =
      (firsts (l.map t)).map (fun tu => l.filter (fun p => decide (t p = tu))) := by
  rw [firsts_map, firsts_map, reps_congr k t l h, List.map_map, List.map_map]
  apply List.map_congr_left
  intro r hr
  have hr' := reps_sub t l r hr
  simp only [Function.comp]
  apply List.filter_congr
  intro p hp
  have := h p hp r hr'
  by_cases hk : k p = k r
  · simp [hk, this.mp hk]
  · have ht : t p ≠ t r := fun e => hk (this.mpr e)
    simp [hk, ht]

/-! ## the accumulators, for arbitrary argument values -/

theorem foldl_sum_gen (vs : List AVal) (isum : Int64) (fsum : F64) (b : Bool) :
    vs.foldl Acc.update (.sum isum fsum b) =
      .sum (isum + ((vs.map convertToNumber).map (·.1)).sum)
        ((vs.map convertToNumber).foldl (fun a n => F64.add a n.2.1) fsum)
        (b || (vs.map convertToNumber).any (·.2.2)) := by
  induction vs generalizing isum fsum b with
  | nil => simp
  | cons v vs ih =>
    simp only [List.foldl_cons, Acc.update, ih, List.map_cons, List.sum_cons, List.any_cons, Int64.add_assoc,
      Bool.or_assoc]

theorem foldl_avg_gen (vs : List AVal) (isum : Int64) (fsum : F64) (cnt : Int64) (b : Bool) :
    vs.foldl Acc.update (.avg isum fsum cnt b) =
      .avg (isum + ((vs.map convertToNumber).map (·.1)).sum)
        ((vs.map convertToNumber).foldl (fun a n => F64.add a n.2.1) fsum)
        (cnt + Int64.ofNat vs.length)
        (b || (vs.map convertToNumber).any (·.2.2)) := by
  induction vs generalizing isum fsum cnt b with
  | nil => simp
  | cons v vs ih =>
    simp only [List.foldl_cons, Acc.update, ih, List.map_cons, List.sum_cons, List.any_cons, Int64.add_assoc,
      Bool.or_assoc, List.length_cons, Int64.ofNat_add]
    congr 2
    exact Int64.add_comm _ _

theorem foldl_min_gen (vs : List AVal) (n : Num) :
    vs.foldl Acc.update (.min n.1 n.2.1 n.2.2 true) =
      .min ((vs.map convertToNumber).foldl lesser n).1 ((vs.map convertToNumber).foldl lesser n).2.1
        ((vs.map convertToNumber).foldl lesser n).2.2 true := by
  induction vs generalizing n with
  | nil => simp
  | cons v vs ih =>
    obtain ⟨i, f, b⟩ := n
    simp only [List.foldl_cons, List.map_cons]
    have step : Acc.update (.min i f b true) v =
        .min (lesser (i, f, b) (convertToNumber v)).1 (lesser (i, f, b) (convertToNumber v)).2.1
          (lesser (i, f, b) (convertToNumber v)).2.2 true := by
      rcases hc : convertToNumber v with ⟨i', f', b'⟩
      simp only [Acc.update, hc, lesser]
      cases b <;> simp <;> split <;> simp_all
    rw [step]
    exact ih _

theorem foldl_max_gen (vs : List AVal) (n : Num) :
    vs.foldl Acc.update (.max n.1 n.2.1 n.2.2 true) =
      .max ((vs.map convertToNumber).foldl greater n).1 ((vs.map convertToNumber).foldl greater n).2.1
        ((vs.map convertToNumber).foldl greater n).2.2 true := by
  induction vs generalizing n with
  | nil => simp
  | cons v vs ih =>
    obtain ⟨i, f, b⟩ := n
    simp only [List.foldl_cons, List.map_cons]
    have step : Acc.update (.max i f b true) v =
        .max (greater (i, f, b) (convertToNumber v)).1 (greater (i, f, b) (convertToNumber v)).2.1
          (greater (i, f, b) (convertToNumber v)).2.2 true := by
      rcases hc : convertToNumber v with ⟨i', f', b'⟩
      simp only [Acc.update, hc, greater]
      cases b <;> simp <;> split <;> simp_all
    rw [step]
    exact ih _

/-- **every accumulator computes its definition**, whatever the argument values are -/
theorem complete_fold (k : Kind) (vs : List AVal) : (fold k vs).complete = aggDef k vs := by
  cases k with
  | count => exact acc_count vs
  | sum =>
    simp only [fold, Kind.init, foldl_sum_gen, Acc.complete, aggDef, Bool.false_or]
    simp
  | avg =>
    simp only [fold, Kind.init, foldl_avg_gen, Acc.complete, aggDef, Bool.false_or]
    simp
  | min =>
    cases vs with
    | nil => simp [fold, Kind.init, Acc.complete, aggDef]
    | cons v vs =>
      have h0 : Acc.update (Kind.init .min) v =
          .min (convertToNumber v).1 (convertToNumber v).2.1 (convertToNumber v).2.2 true := by
        rcases hc : convertToNumber v with ⟨i', f', b'⟩
        simp [Kind.init, Acc.update, hc]
      simp only [fold, List.foldl_cons, h0, foldl_min_gen, Acc.complete, aggDef, List.map_cons, numOut]
  | max =>
    cases vs with
    | nil => simp [fold, Kind.init, Acc.complete, aggDef]
    | cons v vs =>
      have h0 : Acc.update (Kind.init .max) v =
          .max (convertToNumber v).1 (convertToNumber v).2.1 (convertToNumber v).2.2 true := by
        rcases hc : convertToNumber v with ⟨i', f', b'⟩
        simp [Kind.init, Acc.update, hc]
      simp only [fold, List.foldl_cons, h0, foldl_max_gen, Acc.complete, aggDef, List.map_cons, numOut]
  | concat sep => exact acc_concat sep vs
  | arrayagg =>
    rw [acc_arrayagg]
    simp only [aggDef, jsonArray]
    cases (vs.map JItem.ofVal).mapM JItem.render <;> rfl

end Kvql.Proofs.RunAggr
