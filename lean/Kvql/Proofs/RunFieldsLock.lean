/-
  End-to-end proofs for SELECT statements WITH A FIELD LIST, part 10: BATCH MODE in lock step.

  `Run.projTrace` lays the evaluation side of a statement with a field list
  (`Project.drainBatchFuel`: the chunk loop of a scan's `Batch` and `processProjectionBatch`) over the
  storage side (`Plans`: the same `Batch` over the storage machine with a verdict table) and checks that
  both hand out the same number of rows at every `Batch` call (`zipProj`).  Here that check is discharged:
  both sides are described by ONE pure function of the inner chunks (`pollLoop` / `pollsOf`: take inner
  chunks until `PlanBatchSize` pairs are accepted), poll by poll.
-/
import Kvql.Proofs.RunFieldsThms

namespace Kvql.Proofs.RunFields
open Kvql Kvql.Run Kvql.Plans Kvql.Storage Kvql.Cache Kvql.Project Kvql.Proofs.Scan Kvql.Proofs.Typing
open Kvql.Proofs.RunTables Kvql.Proofs.RunScan Kvql.Proofs.RunLimit Kvql.Proofs.RunFold

/-! ### chunks -/

theorem chunksAux_fuel {α : Type} (bs : Nat) (hbs : 1 ≤ bs) : ∀ (n : Nat) (l : List α), l.length ≤ n →
    Run.chunksAux bs n l = Run.chunksAux bs l.length l
  | 0, l, h => by
    have : l = [] := List.length_eq_zero_iff.mp (Nat.le_zero.mp h)
    subst this; rfl
  | n + 1, [], _ => rfl
  | n + 1, x :: xs, h => by
    have hd : ((x :: xs).drop bs).length ≤ xs.length := by
      simp only [List.length_drop, List.length_cons]; omega
    simp only [List.length_cons] at h
    rw [List.length_cons, Run.chunksAux, Run.chunksAux,
      chunksAux_fuel bs hbs n _ (by omega), chunksAux_fuel bs hbs xs.length _ hd]

theorem chunksOf_nil {α : Type} (bs : Nat) : Run.chunksOf bs ([] : List α) = [] := rfl

/-- a full first chunk -/
theorem chunksOf_append {α : Type} (bs : Nat) (hbs : 1 ≤ bs) (c T : List α) (hc : c.length = bs) :
    Run.chunksOf bs (c ++ T) = c :: Run.chunksOf bs T := by
  cases c with
  | nil => simp at hc; omega
  | cons x xs =>
    unfold Run.chunksOf
    have hlen : ((x :: xs) ++ T).length = (xs ++ T).length + 1 := by simp
    rw [hlen]
    have e : (x :: xs) ++ T = x :: (xs ++ T) := rfl
    rw [e, Run.chunksAux]
    have htake : (x :: (xs ++ T)).take bs = x :: xs := by
      rw [← e, List.take_append_of_le_length (by omega), List.take_of_length_le (by omega)]
    have hdrop : (x :: (xs ++ T)).drop bs = T := by
      rw [← e, List.drop_append_of_le_length (by omega), List.drop_of_length_le (by omega), List.nil_append]
    rw [htake, hdrop]
    congr 1
    exact chunksAux_fuel bs hbs _ T (by simp)

/-- a short (last) chunk -/
theorem chunksOf_short {α : Type} (bs : Nat) (c : List α) (hne : c ≠ []) (hc : c.length ≤ bs) :
    Run.chunksOf bs c = [c] := by
  cases c with
  | nil => exact absurd rfl hne
  | cons x xs =>
    unfold Run.chunksOf
    rw [List.length_cons, Run.chunksAux, List.take_of_length_le hc, List.drop_of_length_le hc]
    cases xs.length <;> rfl

/-! ### one `Batch` call of a scan as a pure function of the inner chunks -/

/-- take inner chunks until `bs` pairs are accepted (or the chunks are used up):
    (the accepted pairs, the chunks left) -/
def pollLoop (bs : Nat) (g : SPair → Bool) : List (List SPair) → List SPair → List SPair × List (List SPair)
  | [], acc => (acc, [])
  | c :: rest, acc =>
    if (acc ++ c.filter g).length ≥ bs then (acc ++ c.filter g, rest) else pollLoop bs g rest (acc ++ c.filter g)

/-- the `Batch` calls of a drain: until one returns nothing -/
def pollsOf (bs : Nat) (g : SPair → Bool) : Nat → List (List SPair) → List (List SPair)
  | 0, _ => []
  | n + 1, chunks =>
    match pollLoop bs g chunks [] with
    | ([], _) => []
    | (x :: xs, rest) => (x :: xs) :: pollsOf bs g n rest

theorem pollLoop_acc (bs : Nat) (g : SPair → Bool) : ∀ (chunks : List (List SPair)) (acc : List SPair),
    ∃ X, (pollLoop bs g chunks acc).1 = acc ++ X
  | [], acc => ⟨[], by simp [pollLoop]⟩
  | c :: rest, acc => by
    rw [pollLoop]
    split
    · exact ⟨c.filter g, rfl⟩
    · obtain ⟨X, hX⟩ := pollLoop_acc bs g rest (acc ++ c.filter g)
      exact ⟨c.filter g ++ X, by rw [hX, List.append_assoc]⟩

theorem pollLoop_rest_length (bs : Nat) (g : SPair → Bool) : ∀ (chunks : List (List SPair)) (acc : List SPair),
    (pollLoop bs g chunks acc).2.length ≤ chunks.length
  | [], acc => by simp [pollLoop]
  | c :: rest, acc => by
    rw [pollLoop]
    split
    · simp
    · have := pollLoop_rest_length bs g rest (acc ++ c.filter g)
      simp only [List.length_cons]; omega

theorem pollLoop_rest_mem (bs : Nat) (g : SPair → Bool) : ∀ (chunks : List (List SPair)) (acc : List SPair),
    ∀ c ∈ (pollLoop bs g chunks acc).2, c ∈ chunks
  | [], acc => by simp [pollLoop]
  | c :: rest, acc => by
    rw [pollLoop]
    split
    · intro c' hc'; exact List.mem_cons_of_mem _ hc'
    · intro c' hc'; exact List.mem_cons_of_mem _ (pollLoop_rest_mem bs g rest _ c' hc')

theorem pollLoop_mem (bs : Nat) (g : SPair → Bool) : ∀ (chunks : List (List SPair)) (acc : List SPair),
    ∀ p ∈ (pollLoop bs g chunks acc).1, p ∈ acc ∨ ∃ c ∈ chunks, p ∈ c ∧ g p = true
  | [], acc => by simp [pollLoop]
  | c :: rest, acc => by
    rw [pollLoop]
    have hc : ∀ p ∈ acc ++ c.filter g, p ∈ acc ∨ ∃ c' ∈ c :: rest, p ∈ c' ∧ g p = true := by
      intro p hp
      rcases List.mem_append.mp hp with h | h
      · exact .inl h
      · exact .inr ⟨c, List.mem_cons_self, (List.mem_filter.mp h).1, (List.mem_filter.mp h).2⟩
    split
    · exact hc
    · intro p hp
      rcases pollLoop_mem bs g rest _ p hp with h | ⟨c', hc', h1, h2⟩
      · exact hc p h
      · exact .inr ⟨c', List.mem_cons_of_mem _ hc', h1, h2⟩

/-- a `Batch` call that returns pairs uses up at least one inner chunk -/
theorem pollLoop_consumes (bs : Nat) (g : SPair → Bool) (chunks : List (List SPair))
    (h : (pollLoop bs g chunks []).1 ≠ []) : (pollLoop bs g chunks []).2.length < chunks.length := by
  cases chunks with
  | nil => simp [pollLoop] at h
  | cons c rest =>
    rw [pollLoop]
    split
    · simp
    · have := pollLoop_rest_length bs g rest ([] ++ c.filter g)
      simp only [List.length_cons]; omega

/-- with enough fuel the number of `Batch` calls does not depend on the fuel -/
theorem pollsOf_fuel (bs : Nat) (g : SPair → Bool) : ∀ (n m : Nat) (chunks : List (List SPair)),
    chunks.length < n → chunks.length < m → pollsOf bs g n chunks = pollsOf bs g m chunks
  | 0, _, _, h, _ => by omega
  | _, 0, _, _, h => by omega
  | n + 1, m + 1, chunks, hn, hm => by
    rw [pollsOf, pollsOf]
    rcases hp : pollLoop bs g chunks [] with ⟨X, rest⟩
    cases X with
    | nil => rfl
    | cons x xs =>
      simp only
      have hc := pollLoop_consumes bs g chunks (by rw [hp]; simp)
      rw [hp] at hc
      simp only at hc
      rw [pollsOf_fuel bs g n m rest (by omega) (by omega)]

/-! ### the evaluation side -/

theorem maskFilter_map {α β : Type} (g : α → Bool) (φ : α → β) : ∀ (c : List α),
    maskFilter (c.map g) (c.map φ) = (c.filter g).map φ
  | [] => rfl
  | x :: xs => by
    simp only [List.map_cons, List.filter_cons]
    cases hg : g x <;> simp [maskFilter, maskFilter_map g φ xs]

/-- the cache-free chunk filter gives the Booleans `g` on every non-empty inner chunk -/
def ChunksOK (w : Expr) (g : SPair → Bool) (chunks : List (List SPair)) : Prop :=
  ∀ c ∈ chunks, c ≠ [] → filterChunkSpec w (c.map toKv) = .ok (c.map g)

theorem scanLoopSpec_poll {w : Expr} {bs : Nat} {g : SPair → Bool} : ∀ (chunks : List (List SPair)) (s : Sel)
    (acc : List SPair), s.ret = acc.map toKv → acc.length < bs → ChunksOK w g chunks →
    ∃ s', scanLoopSpec w bs (chunks.map (·.map toKv)) s =
        .ok (s', (pollLoop bs g chunks acc).2.map (·.map toKv)) ∧
      s'.ret = (pollLoop bs g chunks acc).1.map toKv
  | [], s, acc, hs, _, _ => ⟨s, by simp [scanLoopSpec, pollLoop], by simpa [pollLoop] using hs⟩
  | [] :: rest, s, acc, hs, hacc, hok => by
    have hlt : ¬ (acc ++ ([] : List SPair).filter g).length ≥ bs := by simp; omega
    rw [pollLoop]
    simp only [hlt, if_false, List.map_cons, List.map_nil, scanLoopSpec]
    have := scanLoopSpec_poll rest s acc hs hacc (fun c hc => hok c (List.mem_cons_of_mem _ hc))
    simpa using this
  | (p :: ps) :: rest, s, acc, hs, hacc, hok => by
    have hf := hok (p :: ps) List.mem_cons_self (by simp)
    have hsel := selectLoop_spec ((p :: ps).map g) ((p :: ps).map toKv) s (by simp)
    rw [maskFilter_map] at hsel
    have hmap : ((p :: ps) :: rest).map (·.map toKv) = (toKv p :: ps.map toKv) :: rest.map (·.map toKv) := rfl
    have hc : (p :: ps).map toKv = toKv p :: ps.map toKv := rfl
    rw [hmap, scanLoopSpec, ← hc, hf]
    simp only [hsel]
    rw [pollLoop]
    have hret : (s.ret ++ ((p :: ps).filter g).map toKv).length = (acc ++ (p :: ps).filter g).length := by
      rw [hs]; simp
    by_cases hge : (acc ++ (p :: ps).filter g).length ≥ bs
    · simp only [hge, if_true, hret]
      exact ⟨_, rfl, by simp [hs]⟩
    · simp only [hge, if_false, hret]
      exact scanLoopSpec_poll rest _ (acc ++ (p :: ps).filter g) (by simp [hs]) (by omega)
        (fun c hc' => hok c (List.mem_cons_of_mem _ hc'))

/-- the batch value of an expression on a pair: `ExecuteBatch` on the pair as a chunk of its own, cache off
    (`nil` where it has none) -/
def batchValKv (e : Expr) (kv : Kvql.Pair) : Value :=
  match (execBatch e [kv] Ctx.off).1 with
  | .ok [v] => v
  | _ => .nil

def batchVal (e : Expr) (p : SPair) : Value := batchValKv e (toKv p)

/-- the row of a stored pair in batch mode -/
def batchRow (fields : List Field) (p : SPair) : List Value := fields.map (fun fld => batchVal fld.expr p)

theorem batchValKv_of_pairVal {e : Expr} {v : Value} {kv : Kvql.Pair} (h : PairVal e v kv) : batchValKv e kv = v := by
  unfold batchValKv
  unfold PairVal at h
  rw [h]

theorem rows_eq_map {α β : Type} (φ : β → α) : ∀ {as : List α} {bs : List β}, Rows (fun a b => a = φ b) as bs →
    as = bs.map φ
  | _, _, .nil => rfl
  | _, _, .cons hp hr => by rw [List.map_cons, hp, rows_eq_map φ hr]

theorem mapM_option_isSome {α β : Type} {f : α → Option β} : ∀ (l : List α), (∀ a ∈ l, (f a).isSome = true) →
    (l.mapM f).isSome = true
  | [], _ => rfl
  | a :: l, h => by
    obtain ⟨b, hb⟩ := Option.isSome_iff_exists.mp (h a List.mem_cons_self)
    obtain ⟨r, hr⟩ := Option.isSome_iff_exists.mp (mapM_option_isSome l (fun x hx => h x (List.mem_cons_of_mem _ hx)))
    simp [List.mapM_cons, hb, hr]

/-- the transposition does not run out of a column when every column has the chunk's length -/
theorem rowsOfCols_ok (n : Nat) (cols : List (List Value)) (h : ∀ col ∈ cols, col.length = n) :
    ∃ rows, rowsOfCols n cols = .ok rows := by
  unfold rowsOfCols
  have : ((List.range n).mapM (fun i => cols.mapM (fun col => col[i]?))).isSome = true := by
    apply mapM_option_isSome
    intro i hi
    apply mapM_option_isSome
    intro col hcol
    have hi' : i < col.length := by rw [h col hcol]; exact List.mem_range.mp hi
    simp [List.getElem?_eq_getElem hi']
  obtain ⟨rows, hr⟩ := Option.isSome_iff_exists.mp this
  exact ⟨rows, by rw [hr]⟩

/-- every select field has a batch value on the pair -/
def FieldsOKOn (fields : List Field) (p : SPair) : Prop := ∀ fld ∈ fields, ∃ v, PairVal fld.expr v (toKv p)

theorem colsSpec_ok : ∀ (fields : List Field) {X : List SPair}, X ≠ [] → (∀ p ∈ X, FieldsOKOn fields p) →
    ∃ cols, colsSpec fields (X.map toKv) = .ok cols ∧ ∀ col ∈ cols, col.length = X.length
  | [], _, _, _ => ⟨[], rfl, by simp⟩
  | fld :: fs, X, hne, h => by
    have hne' : X.map toKv ≠ [] := by simpa using hne
    have hrows : Rows (PairVal fld.expr) (X.map (batchVal fld.expr)) (X.map toKv) := by
      have : ∀ (Y : List SPair), (∀ p ∈ Y, FieldsOKOn (fld :: fs) p) →
          Rows (PairVal fld.expr) (Y.map (batchVal fld.expr)) (Y.map toKv) := by
        intro Y
        induction Y with
        | nil => intro _; exact .nil
        | cons y ys ih =>
          intro hY
          obtain ⟨v, hv⟩ := hY y List.mem_cons_self fld List.mem_cons_self
          refine .cons ?_ (ih (fun p hp => hY p (List.mem_cons_of_mem _ hp)))
          unfold batchVal
          rw [batchValKv_of_pairVal hv]
          exact hv
      exact this X h
    have hcol := (nocacheB_ok_iff fld.expr hne' _).mpr hrows
    obtain ⟨cols, hc, hl⟩ := colsSpec_ok fs hne (fun p hp g hg => h p hp g (List.mem_cons_of_mem _ hg))
    refine ⟨X.map (batchVal fld.expr) :: cols, by rw [colsSpec, hcol]; simp only [hc], ?_⟩
    intro col hcol'
    rcases List.mem_cons.mp hcol' with rfl | hcol'
    · simp
    · exact hl col hcol'

theorem bshape_eq {kv : Kvql.Pair} {fields : List Field} {row : Project.Row} (h : BShape kv fields row) :
    row = fields.map (fun fld => batchValKv fld.expr kv) := by
  apply rows_eq_map (fun (fld : Field) => batchValKv fld.expr kv)
  exact Rows.imp (fun v fld hv => (batchValKv_of_pairVal hv).symm) h

/-- one `Batch` call of the projection, cache-free: the accepted pairs `pollLoop` takes, each as its batch row -/
theorem nextBatchSpec_poll {w : Expr} {fields : List Field} {bs : Nat} (hbs : 1 ≤ bs) {g : SPair → Bool}
    (chunks : List (List SPair)) (hok : ChunksOK w g chunks)
    (hf : ∀ p ∈ (pollLoop bs g chunks []).1, FieldsOKOn fields p) :
    nextBatchSpec w fields bs (chunks.map (·.map toKv)) =
      .ok ((pollLoop bs g chunks []).1.map (batchRow fields), (pollLoop bs g chunks []).2.map (·.map toKv)) := by
  obtain ⟨s', h1, h2⟩ := scanLoopSpec_poll (w := w) (bs := bs) chunks {} [] rfl (by simp; omega) hok
  unfold nextBatchSpec
  rw [h1]
  simp only
  generalize (pollLoop bs g chunks []).1 = X at h2 hf
  cases X with
  | nil =>
    rw [h2]
    rfl
  | cons x xs =>
    rw [h2]
    simp only [List.map_cons]
    obtain ⟨cols, hc, hl⟩ := colsSpec_ok fields (X := x :: xs) (by simp) hf
    simp only [List.map_cons] at hc
    rw [hc]
    simp only
    obtain ⟨rows, hr⟩ := rowsOfCols_ok (x :: xs).length cols hl
    have hlen : (toKv x :: xs.map toKv).length = (x :: xs).length := by simp
    rw [hlen, hr]
    simp only [Except.ok.injEq, Prod.mk.injEq]
    have hsh := rowsOfCols_shape (fields := fields) (ret := toKv x :: xs.map toKv) (by simp) (colsSpec_rows hc)
      (rows := rows) (by rw [hlen]; exact hr)
    have : rows = (toKv x :: xs.map toKv).map (fun kv => fields.map (fun fld => batchValKv fld.expr kv)) := by
      apply rows_eq_map (fun kv => fields.map (fun (fld : Field) => batchValKv fld.expr kv))
      exact Rows.imp (fun row kv h => bshape_eq h) hsh
    rw [this]
    simp [batchRow, batchVal, List.map_map, Function.comp_def]

/-- the cache-free drain of the projection in batch mode: the `Batch` calls `pollsOf` describes, each
    accepted pair as its batch row, no failure -/
theorem batchesSpec_polls {w : Expr} {fields : List Field} {bs : Nat} (hbs : 1 ≤ bs) {g : SPair → Bool} :
    ∀ (n : Nat) (chunks : List (List SPair)), chunks.length < n → ChunksOK w g chunks →
      (∀ c ∈ chunks, ∀ p ∈ c, g p = true → FieldsOKOn fields p) →
      batchesSpec w fields bs n (chunks.map (·.map toKv)) =
        ((pollsOf bs g n chunks).map (·.map (batchRow fields)), none)
  | 0, _, h, _, _ => by omega
  | n + 1, chunks, hn, hok, hf => by
    have hfX : ∀ p ∈ (pollLoop bs g chunks []).1, FieldsOKOn fields p := by
      intro p hp
      rcases pollLoop_mem bs g chunks [] p hp with h | ⟨c, hc, h1, h2⟩
      · cases h
      · exact hf c hc p h1 h2
    rw [batchesSpec, nextBatchSpec_poll hbs chunks hok hfX, pollsOf]
    have hcons := pollLoop_consumes bs g chunks
    have hmem := pollLoop_rest_mem bs g chunks []
    rcases hp : pollLoop bs g chunks [] with ⟨X, rest⟩
    rw [hp] at hcons hmem
    simp only at hcons hmem ⊢
    cases X with
    | nil => rfl
    | cons x xs =>
      simp only [List.map_cons]
      have hlt := hcons (by simp)
      rw [batchesSpec_polls hbs n rest (by omega) (fun c hc => hok c (hmem c hc))
        (fun c hc => hf c (hmem c hc))]

end Kvql.Proofs.RunFields
