/-
  C18 / C13 end to end, part 10: the statement-level facts in terms of the readable script
  (`RunRegionRead.script`: two `Init`s, the region's stored keys in order, the one key beyond or
  `Next->end`).
-/
import Kvql.Proofs.RunRegionRead
import Kvql.Proofs.RunRegionStmt

namespace Kvql.Proofs.RunRegion

open Kvql Kvql.Storage Kvql.Plans Kvql.Proofs.Plan
open Kvql.Run (runStmt)

/-- every call of a script is a read -/
theorem scriptI_reads (node : ScanNode) (store : Store) : ∀ c ∈ scriptI node store, c.isRead = true := by
  intro c hc
  have hinit : ∀ c ∈ initCalls node, c.isRead = true := by
    intro c hc
    have := initCalls_reads node ⟨c, false⟩ (by
      simp only [entries, List.mem_map]
      exact ⟨c, List.mem_append_left _ hc, rfl⟩)
    exact this
  have hk : ∀ ks, node = .mget ks → (initState node node.newState store).keysLeft = ks := by
    intro ks h; subst h; rfl
  simp only [scriptI, List.mem_append] at hc
  rcases hc with (h | h) | h
  · exact hinit c h
  · exact hinit c h
  · rw [← remaining_init node (initState node node.newState store) store hk] at h
    exact remaining_reads node _ c h

/-- SELECT is read-only, end to end, for every store (sorted or not) -/
theorem select_read_only (s : SelectS) (store : Store) (kind : PollKind) (bs : Nat) (cache : Bool) :
    (runStmt (.select s) store kind bs cache).world.store = store ∧
    ∀ e ∈ (runStmt (.select s) store kind bs cache).world.log, e.call.isRead = true ∧ e.fault = false := by
  obtain ⟨⟨h1, h2⟩, _⟩ := runStmt_select_world s store kind bs cache
  refine ⟨h1, fun e he => ?_⟩
  have := List.IsPrefix.mem he h2
  simp only [entries, List.mem_map] at this
  obtain ⟨c, hc, rfl⟩ := this
  exact ⟨scriptI_reads _ _ c hc, rfl⟩

/-- the log of a SELECT over a sorted store -/
theorem select_log (s : SelectS) {store : Store} (hs : store.Sorted) (kind : PollKind) (bs : Nat) (cache : Bool) :
    (runStmt (.select s) store kind bs cache).world.store = store ∧
    (runStmt (.select s) store kind bs cache).world.log <+: entries (script (selectNode s) store) ∧
    ((runStmt (.select s) store kind bs cache).fail = none → s.limit = none →
      (runStmt (.select s) store kind bs cache).world.log = entries (script (selectNode s) store)) := by
  obtain ⟨⟨h1, h2⟩, h3⟩ := runStmt_select_world s store kind bs cache
  rw [script_eq _ hs]
  exact ⟨h1, h2, fun hf hl => (h3 hf hl).2⟩

theorem readsOf_of_reads {l : List Entry} (h : ∀ e ∈ l, e.call.isRead = true) : readsOf l = l := by
  unfold readsOf; rw [List.filter_eq_self]; exact h

/-- … hence its reads are within the region -/
theorem select_reads_prefix (s : SelectS) {store : Store} (hs : store.Sorted) (kind : PollKind) (bs : Nat) (cache : Bool) :
    readsOf (runStmt (.select s) store kind bs cache).world.log <+: entries (script (selectNode s) store) := by
  rw [readsOf_of_reads (fun e he => ((select_read_only s store kind bs cache).2 e he).1)]
  exact (select_log s hs kind bs cache).2.1

/-- the log of a DELETE over a sorted store -/
theorem delete_log (pos wpos : Nat) (w : Expr) (lim : Option LimitS) {store : Store} (hs : store.Sorted)
    (kind : PollKind) (bs : Nat) (cache : Bool) :
    readsOf (runStmt (.delete pos wpos w lim) store kind bs cache).world.log <+: entries (script (deleteNode w) store) ∧
    (∀ e ∈ (runStmt (.delete pos wpos w lim) store kind bs cache).world.log, e.call.isRead = true ∨ IsDel e) := by
  obtain ⟨⟨h1, h2⟩, _⟩ := runStmt_delete_world pos wpos w lim store kind bs cache
  rw [script_eq _ hs]
  exact ⟨h1, h2⟩

/-! ### a finished scan issues no further read -/

theorem prefix_with_last {α : Type} {l A : List α} {m : α} (hp : l <+: A ++ [m]) (hm : m ∈ l) (hA : m ∉ A) :
    l = A ++ [m] := by
  obtain ⟨t, ht⟩ := hp
  -- `l` cannot be a prefix of `A`
  by_cases hlen : l.length ≤ A.length
  · exfalso
    have : l <+: A := List.prefix_of_prefix_length_le ⟨t, ht⟩ (List.prefix_append A [m]) hlen
    exact hA (List.IsPrefix.mem hm this)
  · have hl : (A ++ [m]).length ≤ l.length := by simp; omega
    have : l.length = (A ++ [m]).length := by
      have := congrArg List.length ht
      simp at this ⊢
      omega
    exact List.IsPrefix.eq_of_length ⟨t, ht⟩ this

/-- the end marker of a cursor scan (`Next` of the key beyond the region, or `Next->end`) is the last
    call of the script and occurs nowhere else in it -/
theorem script_marker (node : ScanNode) (store : Store) (hc : node.isCursorScan = true) :
    ∃ A, script node store = A ++ [.next (firstBeyond node store)] ∧ Call.next (firstBeyond node store) ∉ A := by
  have key2 : readScript node store =
      (regionKeys node store).map (fun k => .next (some k)) ++ [.next (firstBeyond node store)] := by
    cases node <;> simp [ScanNode.isCursorScan] at hc <;> rfl
  refine ⟨initScript node ++ initScript node ++ (regionKeys node store).map (fun k => .next (some k)), ?_, ?_⟩
  · simp [script, key2, List.append_assoc]
  · intro hm
    have hinit : Call.next (firstBeyond node store) ∉ initScript node := by
      unfold initScript
      cases hr : regionStart node <;> simp [hc]
    simp only [List.mem_append] at hm
    rcases hm with (h | h) | h
    · exact hinit h
    · exact hinit h
    · obtain ⟨k, hk, he⟩ := List.mem_map.mp h
      simp only [Call.next.injEq] at he
      have h1 := (mem_regionKeys hk).1
      have h2 := (firstBeyond_spec he.symm).1
      rw [h1] at h2; cases h2

/-- once the end of the scan was seen the log is the whole script: nothing is read after it -/
theorem finished_is_all {node : ScanNode} {store : Store} {l : List Entry}
    (hp : l <+: entries (script node store))
    (hm : (⟨.next (firstBeyond node store), false⟩ : Entry) ∈ l) : l = entries (script node store) := by
  have hmem := List.IsPrefix.mem hm hp
  simp only [entries, List.mem_map, Entry.mk.injEq, and_true] at hmem
  obtain ⟨c, hc, rfl⟩ := hmem
  have hcur : node.isCursorScan = true := by
    rcases mem_script hc with h | ⟨a, h, _⟩ | ⟨k, _, h, _⟩ | h | ⟨k, h, _⟩
    · cases h.1
    · cases h
    · exact h
    · exact h.2.1
    · cases h
  obtain ⟨A, hA, hnot⟩ := script_marker node store hcur
  rw [hA, entries_append] at hp ⊢
  refine prefix_with_last hp hm ?_
  intro h
  simp only [entries, List.mem_map, Entry.mk.injEq, and_true] at h
  obtain ⟨c, hc, rfl⟩ := h
  exact hnot hc

end Kvql.Proofs.RunRegion
