/-
  Aggregated SELECT, end to end — part 5: `Run.runAggrSelect` / `Run.runStmt` / `Run.runQuery` in row
  mode return the rows of the specification.

    * `aggrField_isSome_indep`   whether the aggregate model covers a field does not depend on the
                                  evaluation context (only the VALUES of constant leaves do);
    * `scan_pairs`                the scan below the AggregatePlan hands out the stored pairs the WHERE
                                  accepts, in key order, ends without failure, issues read calls only;
    * `specRows_convertible`      no row of the specification holds a list / JSON value;
    * `runAggrSelect_next`        the composition.
-/
import Kvql.Proofs.RunAggrNext
import Kvql.Proofs.RunProofs
import Kvql.Properties.C13

set_option linter.unusedSimpArgs false
set_option linter.unusedVariables false

namespace Kvql.Proofs.RunAggr
open Kvql Kvql.Run Kvql.Aggr Kvql.Proofs.Aggr Kvql.Generated Kvql.Proofs.Typing Kvql.Cache
open Kvql.Plans Kvql.Storage Kvql.Proofs.Scan Kvql.Proofs.RunScan Kvql.Proofs.RunTables Kvql.Proofs.RunLimit
open Kvql.PlanCheck (listAggrCalls isAggrCallee isAggr planStage finalPlanCheck)

/-! ### which fields the aggregate model covers does not depend on the context -/

/-- an aggregate expression with the values of its leaves forgotten -/
def shape : AggExpr → AggExpr
  | .call i => .call i
  | .leaf _ => .leaf (.error .malformed)
  | .arith op rpos l r => .arith op rpos (shape l) (shape r)
  | .strcat l r => .strcat (shape l) (shape r)

def shapeR (x : Option (AggExpr × Nat)) : Option (AggExpr × Nat) := x.map (fun y => (shape y.1, y.2))

theorem aggExprOf_shape (c0 c1 : Ctx) : ∀ (fe : Expr) (n : Nat), shapeR (aggExprOf c0 fe n) = shapeR (aggExprOf c1 fe n)
  | .binop p op l r, n => by
    rw [aggExprOf, aggExprOf]
    by_cases hemp : (listAggrCalls (.binop p op l r)).isEmpty = true
    · simp only [hemp, if_true]
      split <;> simp [shapeR, shape]
    · simp only [hemp, Bool.false_eq_true, if_false]
      cases mathOpA op with
      | none => rfl
      | some mop =>
        simp only
        have ihl := aggExprOf_shape c0 c1 l n
        cases h0 : aggExprOf c0 l n with
        | none =>
          cases h1 : aggExprOf c1 l n with
          | none => rfl
          | some x => rw [h0, h1] at ihl; simp [shapeR] at ihl
        | some x0 =>
          cases h1 : aggExprOf c1 l n with
          | none => rw [h0, h1] at ihl; simp [shapeR] at ihl
          | some x1 =>
            rw [h0, h1] at ihl
            obtain ⟨le0, n0⟩ := x0
            obtain ⟨le1, n1⟩ := x1
            simp only [shapeR, Option.map_some, Option.some.injEq, Prod.mk.injEq] at ihl
            obtain ⟨hs, hn⟩ := ihl
            subst hn
            simp only
            have ihr := aggExprOf_shape c0 c1 r n0
            cases g0 : aggExprOf c0 r n0 with
            | none =>
              cases g1 : aggExprOf c1 r n0 with
              | none => rfl
              | some x => rw [g0, g1] at ihr; simp [shapeR] at ihr
            | some y0 =>
              cases g1 : aggExprOf c1 r n0 with
              | none => rw [g0, g1] at ihr; simp [shapeR] at ihr
              | some y1 =>
                rw [g0, g1] at ihr
                obtain ⟨re0, m0⟩ := y0
                obtain ⟨re1, m1⟩ := y1
                simp only [shapeR, Option.map_some, Option.some.injEq, Prod.mk.injEq] at ihr
                obtain ⟨hs', hn'⟩ := ihr
                subst hn'
                simp only
                split <;> simp [shapeR, shape, hs, hs']
  | .call p nm args, n => by
    rw [aggExprOf, aggExprOf]
    split
    · rfl
    · split <;> simp [shapeR, shape]
  | .field a1 a2, n | .str a1 a2, n | .not a1 a2, n | .name a1 a2, n | .ref a1 a2 a3, n | .cycle, n
  | .num a1 a2 a3, n | .float a1 a2 a3, n | .bool a1 a2 a3, n | .list a1 a2, n | .access a1 a2 a3, n => by
    rw [aggExprOf.eq_def, aggExprOf.eq_def]
    simp only
    split <;> simp [shapeR, shape]

theorem aggExprOf_isSome_indep (c0 c1 : Ctx) (fe : Expr) (n : Nat) :
    (aggExprOf c0 fe n).isSome = (aggExprOf c1 fe n).isSome := by
  have := congrArg Option.isSome (aggExprOf_shape c0 c1 fe n)
  simpa [shapeR] using this

theorem aggrField_isSome_indep (c0 c1 : Ctx) (fe : Expr) : (aggrField c0 fe).isSome = (aggrField c1 fe).isSome := by
  rw [aggrField_eq, aggrField_eq]
  split
  · rfl
  · cases (listAggrCalls fe).mapM (fun c => Run.kindOf c.1 c.2) with
    | none => rfl
    | some kinds =>
      have := aggExprOf_isSome_indep c0 c1 fe 0
      cases h0 : aggExprOf c0 fe 0 <;> cases h1 : aggExprOf c1 fe 0 <;> simp [h0, h1] at this ⊢

theorem mapM_aggrField_indep (c0 c1 : Ctx) : ∀ (fields : List Expr) (afields : List Aggr.Field),
    fields.mapM (aggrField c0) = some afields → ∃ afields', fields.mapM (aggrField c1) = some afields'
  | [], _, _ => ⟨[], rfl⟩
  | fe :: fs, afields, h => by
    simp only [List.mapM_cons, Option.bind_eq_bind, Option.bind_eq_some_iff] at h
    obtain ⟨a, ha, as, has, _⟩ := h
    obtain ⟨as', has'⟩ := mapM_aggrField_indep c0 c1 fs as has
    have := aggrField_isSome_indep c0 c1 fe
    rw [ha] at this
    cases h1 : aggrField c1 fe with
    | none => rw [h1] at this; cases this
    | some a' => exact ⟨a' :: as', by simp [List.mapM_cons, h1, has']⟩

/-! ### the scan below the AggregatePlan -/

/-- row mode below `AggregatePlan.prepare`: `FilterExec.Filter` with a nil context -/
theorem rowVerdicts_none_eq {w : Expr} (g : SPair → Bool) (l : List SPair)
    (hx : ∀ p ∈ l, exec w (toKv p) Ctx.off = (.ok (.bool (g p)), Ctx.off)) :
    rowVerdicts w Ctx.none l = l.map (fun p => (p.1, Except.ok (g p))) := by
  unfold rowVerdicts
  apply List.map_congr_left
  intro p hp
  rw [filterRow_off true w (toKv p) (c := Ctx.none) rfl]
  simp only [filterSpec, nocache, hx p hp]

/-- the scan with a verdict table that is `g` on the node's region, `g` false outside: no failure,
    the stored pairs with `g` in key order, non-empty polls, read calls only, the store unchanged -/
theorem scan_pairs (node : ScanNode) (hwf : ScanNode.WellFormed node) (store : Store) (hs : store.Sorted)
    (v : Verdicts) (g : SPair → Bool)
    (hv : ∀ p ∈ store, node.inRegion p.1 = true → v.lookup p.1 = some (.ok (g p)))
    (hcover : ∀ p ∈ store, g p = true → node.inRegion p.1 = true)
    (kind : PollKind) (bs : Nat) (hbs : 1 ≤ bs) :
    (scanTrace node v kind bs store).fin.1 = none ∧
    (scanTrace node v kind bs store).polls.flatMap (·.1) = store.filter g ∧
    (∀ p ∈ (scanTrace node v kind bs store).polls, p.1 ≠ []) ∧
    (scanTrace node v kind bs store).fin.2.store = store ∧
    (∀ e ∈ (scanTrace node v kind bs store).fin.2.log, e.call.isRead = true) := by
  have hev : ∀ p ∈ store, node.inRegion p.1 = true → Kvql.Proofs.Scan.Evaluable (filterOfV v) p :=
    fun p hp hr => evaluable_filterOfV (hv p hp hr)
  obtain ⟨h1, h2, h3⟩ := scan_rows node hwf (filterOfV v) store hs hev kind bs hbs
  obtain ⟨t1, t2⟩ := scanTrace_ok node v kind bs store h1
  have hexp : expectedRows node (filterOfV v) store = store.filter g := by
    rw [expectedRows, List.filter_filter]
    apply List.filter_congr
    intro p hp
    cases hr : node.inRegion p.1 with
    | true => simp [accepts_filterOfV (hv p hp hr)]
    | false =>
      cases hg : g p with
      | false => simp
      | true => rw [hcover p hp hg] at hr; cases hr
  obtain ⟨r1, r2⟩ := Kvql.Properties.C13.select_read_only node (filterOfV v) kind bs none store
  refine ⟨by rw [t1], ?_, scanTrace_nonempty node v kind bs store, by rw [t1]; exact h3, by rw [t1]; exact r1⟩
  rw [t2, h2, pairsOfRows_map, hexp]

/-- the verdict of the folded WHERE `w` gives the table and the coverage `scan_pairs` asks for -/
theorem scan_pairs_where {w : Expr} {store : Store} (hs : store.Sorted) (g : SPair → Bool)
    (hx : ∀ p ∈ store, exec w (toKv p) Ctx.off = (.ok (.bool (g p)), Ctx.off))
    (v : Verdicts)
    (htable : v = (yielded (nodeOf (Scan.optimize w)) store).map (fun p => (p.1, Except.ok (g p))))
    (kind : PollKind) (bs : Nat) (hbs : 1 ≤ bs) :
    (scanTrace (nodeOf (Scan.optimize w)) v kind bs store).fin.1 = none ∧
    (scanTrace (nodeOf (Scan.optimize w)) v kind bs store).polls.flatMap (·.1) = store.filter g ∧
    (∀ p ∈ (scanTrace (nodeOf (Scan.optimize w)) v kind bs store).polls, p.1 ≠ []) ∧
    (scanTrace (nodeOf (Scan.optimize w)) v kind bs store).fin.2.store = store ∧
    (∀ e ∈ (scanTrace (nodeOf (Scan.optimize w)) v kind bs store).fin.2.log, e.call.isRead = true) := by
  have hwf : ScanNode.WellFormed (nodeOf (Scan.optimize w)) := by
    rw [Kvql.Proofs.Run.nodeOf_eq]; exact Select.nodeOf_wellFormed _
  have hy := yielded_eq_filter (nodeOf (Scan.optimize w)) hwf hs
  have hcover : ∀ p ∈ store, g p = true → (nodeOf (Scan.optimize w)).inRegion p.1 = true := by
    intro p hp hg
    have ha : Select.execTrue p.2 w p.1 = true := by
      rw [Select.execTrue_iff]
      have := hx p hp
      rw [hg] at this
      exact this
    rw [Kvql.Proofs.Run.nodeOf_eq]
    exact Select.inRegion_of_region (Kvql.Properties.C02.scan_plan_sound (Select.exec_is_sem p.2) w p.1 ha)
  have hv : ∀ p ∈ store, (nodeOf (Scan.optimize w)).inRegion p.1 = true →
      v.lookup p.1 = some (.ok (g p)) := by
    intro p hp hr
    rw [htable, hy]
    exact lookup_map_of_mem _ (keys_distinct hs _) (List.mem_filter.mpr ⟨hp, hr⟩)
  exact scan_pairs _ hwf store hs v g hv hcover kind bs hbs

/-! ### the rows of the specification hold no list / JSON value -/

/-- a column value back from the aggregation machinery (`other` has lost its content; it does not occur) -/
def toValue : AVal → Value
  | .bytes b => .bytes b
  | .str b => .str b
  | .int i => .int i
  | .goInt i => .goInt i
  | .float f => .float f
  | .bool b => .bool b
  | .nil => .nil
  | .other => .nil

theorem ofAVal_of_ne {v : AVal} (h : v ≠ .other) : ofAVal v = some (toValue v) := by
  cases v <;> first | rfl | exact absurd rfl h

theorem mapM_ofAVal : ∀ (row : List AVal), (∀ v ∈ row, v ≠ .other) → row.mapM ofAVal = some (row.map toValue)
  | [], _ => rfl
  | v :: vs, h => by
    simp only [List.mapM_cons, ofAVal_of_ne (h v (by simp)), mapM_ofAVal vs (fun x hx => h x (by simp [hx])),
      Option.bind_eq_bind, Option.bind_some, Option.pure_def, List.map_cons]

theorem mapM_mapM_ofAVal : ∀ (out : List (List AVal)), (∀ row ∈ out, ∀ v ∈ row, v ≠ .other) →
    out.mapM (List.mapM ofAVal) = some (out.map (List.map toValue))
  | [], _ => rfl
  | r :: rs, h => by
    simp only [List.mapM_cons, mapM_ofAVal r (h r (by simp)), mapM_mapM_ofAVal rs (fun x hx => h x (by simp [hx])),
      Option.bind_eq_bind, Option.bind_some, Option.pure_def, List.map_cons]

theorem floatOp_not_other {op : Aggr.MathOp} {rpos : Nat} {l r : F64} {v : AVal} (h : floatOp op rpos l r = .ok v) :
    v ≠ .other := by
  unfold floatOp at h
  cases op <;> simp only at h
  · injection h with h; subst h; simp
  · injection h with h; subst h; simp
  · injection h with h; subst h; simp
  · split at h
    · cases h
    · injection h with h; subst h; simp

theorem executeMathOp_not_other {op : Aggr.MathOp} {rpos : Nat} {l r v : AVal} (h : Aggr.executeMathOp op rpos l r = .ok v) :
    v ≠ .other := by
  unfold Aggr.executeMathOp at h
  split at h
  · cases op <;> simp only at h
    · injection h with h; subst h; simp
    · injection h with h; subst h; simp
    · injection h with h; subst h; simp
    · split at h
      · cases h
      · injection h with h; subst h; simp
  · exact floatOp_not_other h
  · exact floatOp_not_other h
  · exact floatOp_not_other h
  · cases h

theorem aggDef_not_other {k : Aggr.Kind} {vs : List AVal} {v : AVal} (h : aggDef k vs = .ok v) : v ≠ .other := by
  cases k <;> simp only [aggDef] at h
  · injection h with h; subst h; simp
  · injection h with h; subst h; split <;> simp
  · injection h with h; subst h; simp
  · split at h <;> (injection h with h; subst h; simp [numOut]; try (split <;> simp))
  · split at h <;> (injection h with h; subst h; simp [numOut]; try (split <;> simp))
  · injection h with h; subst h; simp
  · split at h
    · injection h with h; subst h; simp
    · cases h

theorem fieldDef_not_other (grp : List SPair) {fe : Expr} {v : AVal} (hagg : isAggrField fe = true)
    (h : fieldDef grp fe = .ok v) : v ≠ .other := by
  cases fe with
  | binop p op l r =>
    have hemp : (listAggrCalls (.binop p op l r)).isEmpty = false := by simpa [isAggrField] using hagg
    rw [fieldDef_binop grp p op l r hemp] at h
    cases hm : mathOpA op with
    | none => simp [hm] at h
    | some mop =>
      simp only [hm] at h
      cases hl : fieldDef grp l with
      | error x => simp [hl] at h
      | ok lv =>
        cases hr : fieldDef grp r with
        | error x => simp [hl, hr] at h
        | ok rv =>
          simp only [hl, hr, bind_ok] at h
          split at h
          · injection h with h; subst h; simp
          · exact executeMathOp_not_other h
  | call p nm args =>
    cases nm with
    | name q d =>
      rw [fieldDef_call] at h
      by_cases hag : isAggr (toLower d) = true
      · simp only [hag, if_true] at h
        split at h
        · exact aggDef_not_other h
        · cases h
      · simp [isAggrField, listAggrCalls, hag] at hagg
    | _ => simp [isAggrField, listAggrCalls] at hagg
  | _ => simp [isAggrField, listAggrCalls] at hagg

theorem rowOf_not_other {fields : List Expr} {grp : List SPair} {row : List AVal} (h : rowOf fields grp = .ok row) :
    ∀ v ∈ row, v ≠ .other := by
  obtain ⟨hl, hget⟩ := mapM_ok_get _ fields row h
  intro v hv
  obtain ⟨n, hn, rfl⟩ := List.getElem_of_mem hv
  have hlt : n < fields.length := by omega
  obtain ⟨b, hb, hf⟩ := hget n _ (List.getElem?_eq_getElem hlt)
  rw [List.getElem?_eq_getElem hn] at hb
  injection hb with hb
  rw [hb]
  by_cases hagg : isAggrField fields[n] = true
  · simp only [hagg, if_true] at hf
    exact fieldDef_not_other grp hagg hf
  · simp only [hagg, Bool.false_eq_true, if_false] at hf
    split at hf
    · injection hf with hf; subst hf; simp
    · cases hf

/-- every value of every row of the specification is a column value (`ofAVal` is defined on it) -/
theorem specRows_convertible {groups fields : List Expr} {sel : List SPair} {out : List (List AVal)}
    (h : specRows groups fields sel = .ok out) : out.mapM (List.mapM ofAVal) = some (out.map (List.map toValue)) := by
  apply mapM_mapM_ofAVal
  intro row hrow
  obtain ⟨hl, hget⟩ := mapM_ok_get _ _ out h
  obtain ⟨n, hn, rfl⟩ := List.getElem_of_mem hrow
  have hlt : n < (groupsOf groups sel).length := by omega
  obtain ⟨b, hb, hf⟩ := hget n _ (List.getElem?_eq_getElem hlt)
  rw [List.getElem?_eq_getElem hn] at hb
  injection hb with hb
  rw [hb]
  exact rowOf_not_other hf

/-! ### the AggregatePlan as its parent sees it, row mode -/

theorem polls_mapM (w : Storage.World) : ∀ (outs : List (List AVal)) (vrows : List (List Value)),
    outs.mapM (List.mapM ofAVal) = some vrows →
    (outs.map (fun r => ([r], w))).mapM (fun (p : List (List AVal) × Storage.World) =>
      (p.1.mapM (fun (r : List AVal) => r.mapM ofAVal)).bind (fun rows => some (rows, p.2))) =
        some (vrows.map (fun r => ([r], w)))
  | [], vrows, h => by
    simp only [List.mapM_nil, Option.pure_def, Option.some.injEq] at h
    subst h
    rfl
  | o :: os, vrows, h => by
    simp only [List.mapM_cons, Option.bind_eq_bind, Option.bind_eq_some_iff, Option.pure_def] at h
    obtain ⟨r, hr, rs, hrs, hv⟩ := h
    injection hv with hv
    subst hv
    simp only [List.map_cons, List.mapM_cons, List.mapM_nil, hr, Option.bind_eq_bind, Option.bind_some,
      Option.pure_def, polls_mapM w os rs hrs]

theorem traceValues_next (outs : List (List AVal)) (vrows : List (List Value))
    (hconv : outs.mapM (List.mapM ofAVal) = some vrows) (rows : List Aggr.Row) (hdrain : drainNext rows = (outs, none))
    (bs : Nat) (w : Storage.World) :
    traceValues (aggrInner rows .next bs w) =
      some { w0 := w, polls := vrows.map (fun r => ([r], w)), fin := (none, w) } := by
  unfold traceValues aggrInner
  simp only [hdrain, Option.bind_eq_bind, Option.pure_def, Option.map_none]
  rw [polls_mapM w outs vrows hconv]
  rfl

theorem flatten_singletons' {α : Type} (w : Storage.World) : ∀ (l : List α),
    ((l.map (fun r => ([r], w))).map (fun (x : List α × Storage.World) => x.1)).flatten = l
  | [] => rfl
  | x :: xs => by
    have := flatten_singletons' w xs
    simp only [List.map_map] at this
    simp [this]

theorem groupExprs_none {s : SelectS} {f : FoldedSelect} {groups : List Expr} (hg : groupExprs s f = some groups)
    (h : s.groupBy.isNone = true) : groups = [] := by
  unfold groupExprs at hg
  cases hgb : s.groupBy with
  | none => rw [hgb] at hg; injection hg with hg; exact hg.symm
  | some g => rw [hgb] at h; cases h

/-- **`Run.runAggrSelect`, row mode**: an aggregated SELECT without ORDER BY / LIMIT whose folded WHERE
    gives the verdict `g` on every stored pair returns the rows of the specification over the stored
    pairs with `g`; it issues read calls only and leaves the store as it was. -/
theorem runAggrSelect_next (s : SelectS) (f : FoldedSelect) (store : Store) (hs : store.Sorted)
    (bs : Nat) (hbs : 1 ≤ bs) (cache : Bool)
    (hord : s.order = none) (hlim : s.limit = none)
    {groups : List Expr} (hg : groupExprs s f = some groups)
    (hcov : ∃ afields, f.fields.mapM (aggrField Ctx.off) = some afields)
    (hafg : ∀ e ∈ groups, aliasFree e = true) (haff : ∀ fe ∈ f.fields, aliasFree fe = true)
    (g : SPair → Bool) (hx : ∀ p ∈ store, exec f.where_ (toKv p) Ctx.off = (.ok (.bool (g p)), Ctx.off))
    (hev : ∀ p ∈ store.filter g, Evaluable groups f.fields p)
    {out : List (List AVal)} (hspec : specRows groups f.fields (store.filter g) = .ok out) :
    (runAggrSelect s f store .next bs cache).fail = none ∧
    (runAggrSelect s f store .next bs cache).rows = out.map (List.map toValue) ∧
    (runAggrSelect s f store .next bs cache).world.store = store ∧
    (∀ e ∈ (runAggrSelect s f store .next bs cache).world.log, e.call.isRead = true) := by
  obtain ⟨afields0, hcov⟩ := hcov
  obtain ⟨afields, hfields⟩ := mapM_aggrField_indep Ctx.off (Ctx.new cache) _ _ hcov
  have hy : ∀ p ∈ yielded (nodeOf (Scan.optimize f.where_)) store, p ∈ store := by
    intro p hp
    have hwf : ScanNode.WellFormed (nodeOf (Scan.optimize f.where_)) := by
      rw [Kvql.Proofs.Run.nodeOf_eq]; exact Select.nodeOf_wellFormed _
    rw [yielded_eq_filter _ hwf hs] at hp
    exact (List.mem_filter.mp hp).1
  obtain ⟨t1, t2, _, t4, t5⟩ := scan_pairs_where hs g hx
    (rowVerdicts f.where_ Ctx.none (yielded (nodeOf (Scan.optimize f.where_)) store))
    (rowVerdicts_none_eq g _ (fun p hp => hx p (hy p hp))) .next bs hbs
  obtain ⟨gs, hprep, hfin⟩ := prepare_spec (kind := .next) (cacheInvisible_new cache) hfields haff s.groupBy.isNone
    (groupExprs_none hg) (store.filter g)
    (fun p hp => evaluableK_next (cacheInvisible_new cache) hafg (hev p hp)) hspec
  have hdrain := (drainNext_ok_iff _ _).mpr hfin
  have hconv := specRows_convertible hspec
  unfold runAggrSelect
  simp only [new_clear, hfields, hg, hord, hlim, t1, t2, hprep,
    traceValues_next out _ hconv (rowsOf gs) hdrain]
  refine ⟨rfl, ?_, t4, t5⟩
  simp only [Trace.outcome]
  exact flatten_singletons' _ _

end Kvql.Proofs.RunAggr
