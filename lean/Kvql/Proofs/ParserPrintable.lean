/-
  print_reparse: the side conditions.  `printable pf e` is the decidable predicate "the
  canonical text of `e` can be read back": what the parser produces (no references), string
  literals without the quote character, names / numbers / Booleans whose text lexes as one
  token of that kind, operands in the positions the printed form can express.
-/
import Kvql.Proofs.ParserPrintLex

namespace Kvql.Proofs.PrintLex

open Kvql Kvql.Lexer Kvql.Generated Kvql.Spec Kvql.Proofs.LexSpec

/-- a word: non-empty, word bytes only, already lower case -/
def wordOK (d : Bytes) : Bool := !d.isEmpty && d.all wordByte && toLower d == d
def nameOK (d : Bytes) : Bool := wordOK d && classify d == tkNAME
def numOK (d : Bytes) (v : Int64) : Bool :=
  wordOK d && classify d == tkNUMBER && v == Int64.ofInt ((parseInt? d).getD 0)
def floatOK (pf : Bytes → F64) (d : Bytes) (v : F64) : Bool :=
  wordOK d && classify d == tkFLOAT && pf d == v
def boolOK (d : Bytes) (v : Bool) : Bool :=
  (d == Bytes.ofAscii "true" && v) || (d == Bytes.ofAscii "false" && !v)
def strOK (d : Bytes) : Bool := !d.contains 39

/-- what may stand to the left of `[…]` (and, restricted further, of `(…)`) in printed form -/
def primaryKind : Expr → Bool
  | .name .. | .field .. | .str .. | .num .. | .float .. | .bool .. | .call .. | .access ..
  | .binop .. => true
  | _ => false

/-- the printed form does not start with `(`: a right operand of `in` that is not a list
    must be of this kind -/
def noParen : Expr → Bool
  | .binop .. | .list .. | .ref .. | .cycle => false
  | .access _ l _ => noParen l
  | _ => true

section
variable (pf : Bytes → F64)

mutual
  /-- `e` is in the parser's image and its canonical text reads back -/
  def printable : Expr → Bool
    | .binop _ op l r =>
      match op with
      | .not => false
      | .between =>
        printable l &&
        (match r with
         | .list _ items => items.length == 2 && printables items
         | _ => false)
      | .in_ =>
        printable l &&
        (match r with
         | .list _ items => printables items
         | r => noParen r && printable r)
      | _ => printable l && printable r
    | .field .. => true
    | .str _ d => strOK d
    | .not _ r => printable r
    | .call _ n args => n.calleeAtomic && printable n && printables args
    | .name _ d => nameOK d
    | .ref .. => false
    | .cycle => false
    | .num _ d v => numOK d v
    | .float _ d v => floatOK pf d v
    | .bool _ d v => boolOK d v
    | .list .. => false            -- a list only stands to the right of `in` / `between`
    | .access _ l f => primaryKind l && printable l && printable f
  def printables : List Expr → Bool
    | [] => true
    | e :: es => printable e && printables es
end

end

/-! ### the canonical text stays outside literals -/

theorem ofAscii_outside (s : String) (h : Outside (Bytes.ofAscii s)) : Outside (Bytes.ofAscii s) := h

theorem Outside_opText : ∀ op : Op, Outside (Expr.opText op) := by
  intro op; cases op <;> decide

theorem wordOK_bytes {d : Bytes} (h : wordOK d = true) : ∀ c ∈ d, wordByte c = true := by
  unfold wordOK at h
  simp only [Bool.and_eq_true, List.all_eq_true] at h
  exact h.1.2

theorem Outside_word {d : Bytes} (h : wordOK d = true) : Outside d :=
  Outside_of_noquote d (fun c hc => wordByte_noquote c (wordOK_bytes h c hc))

theorem Outside_str {d : Bytes} (h : strOK d = true) : Outside (39 :: d ++ [39]) := by
  have hd : (39 : UInt8) ∉ d := by
    unfold strOK at h
    simpa using h
  apply (Outside_cons_quote (c := 39) (by decide)).mpr
  exact ⟨d, [], literalBody_of_eq d [] hd, Outside_nil⟩

theorem Outside_joinSep (sep : Bytes) (hs : Outside sep) : ∀ (l : List Bytes), (∀ x ∈ l, Outside x) →
    Outside (Expr.joinSep sep l) := by
  intro l
  induction l with
  | nil => intro _; exact Outside_nil
  | cons x rest ih =>
    intro h
    cases rest with
    | nil => simpa [Expr.joinSep] using h x (by simp)
    | cons y ys =>
      simp only [Expr.joinSep]
      exact Outside_append _ _ (Outside_append _ _ (h x (by simp)) hs)
        (ih (fun z hz => h z (by simp [hz])))

theorem boolOK_cases {d : Bytes} {v : Bool} (h : boolOK d v = true) :
    (d = Bytes.ofAscii "true" ∧ v = true) ∨ (d = Bytes.ofAscii "false" ∧ v = false) := by
  unfold boolOK at h
  simp only [Bool.or_eq_true, Bool.and_eq_true, beq_iff_eq, Bool.not_eq_true'] at h
  exact h

theorem o_lit1 : Outside (Bytes.ofAscii "(") ∧ Outside (Bytes.ofAscii ")") ∧ Outside (Bytes.ofAscii " ") ∧
    Outside (Bytes.ofAscii " BETWEEN ") ∧ Outside (Bytes.ofAscii " AND ") ∧ Outside (Bytes.ofAscii "!(") ∧
    Outside (Bytes.ofAscii "[") ∧ Outside (Bytes.ofAscii "]") ∧ Outside (Bytes.ofAscii ", ") := by decide

local notation "oa" => Outside_append _ _

theorem Outside_generic {sl sr : Bytes} (op : Op) (hl : Outside sl) (hr : Outside sr) :
    Outside (Bytes.ofAscii "(" ++ sl ++ Bytes.ofAscii " " ++ Expr.opText op ++ Bytes.ofAscii " " ++ sr ++
      Bytes.ofAscii ")") :=
  oa (oa (oa (oa (oa (oa o_lit1.1 hl) o_lit1.2.2.1) (Outside_opText op)) o_lit1.2.2.1) hr) o_lit1.2.1

theorem Outside_between {sl slo shi : Bytes} (hl : Outside sl) (hlo : Outside slo) (hhi : Outside shi) :
    Outside (Bytes.ofAscii "(" ++ sl ++ Bytes.ofAscii " BETWEEN " ++ slo ++ Bytes.ofAscii " AND " ++ shi ++
      Bytes.ofAscii ")") :=
  oa (oa (oa (oa (oa (oa o_lit1.1 hl) o_lit1.2.2.2.1) hlo) o_lit1.2.2.2.2.1) hhi) o_lit1.2.1

theorem Outside_parens {s : Bytes} (h : Outside s) :
    Outside (Bytes.ofAscii "(" ++ s ++ Bytes.ofAscii ")") := oa (oa o_lit1.1 h) o_lit1.2.1

section
variable (pf : Bytes → F64)

mutual
  theorem Outside_toString : ∀ e : Expr, printable pf e = true → Outside (Expr.toString e)
    | .binop _ op l r, h => by
      have hp := h
      unfold printable at hp
      unfold Expr.toString
      cases op
      case not => simp at hp
      case between =>
        simp only [Bool.and_eq_true] at hp
        obtain ⟨hl, hr⟩ := hp
        have hl' := Outside_toString l hl
        cases r
        case list p items =>
          simp only [Bool.and_eq_true, beq_iff_eq] at hr
          have hitems := Outside_toStrings items hr.2
          match items, hr.1, hitems with
          | [lo, hi], _, hitems =>
            simp only [Expr.toStringList] at hitems ⊢
            exact Outside_between hl' (hitems _ (by simp)) (hitems _ (by simp))
        all_goals simp at hr
      case in_ =>
        simp only [Bool.and_eq_true] at hp
        obtain ⟨hl, hr⟩ := hp
        have hl' := Outside_toString l hl
        have hr' : Outside (Expr.toString r) := by
          cases r
          case list p items =>
            simp only at hr
            unfold Expr.toString
            exact Outside_parens (Outside_joinSep _ o_lit1.2.2.2.2.2.2.2.2 _ (Outside_toStrings items hr))
          all_goals first
            | (simp only [Bool.and_eq_true] at hr; exact Outside_toString _ hr.2)
            | (simp [noParen] at hr)
        exact Outside_generic _ hl' hr'
      all_goals
        simp only [Bool.and_eq_true] at hp
        exact Outside_generic _ (Outside_toString l hp.1) (Outside_toString r hp.2)
    | .field _ kw, _ => by cases kw <;> (unfold Expr.toString; decide)
    | .str _ d, h => by
      unfold printable at h
      unfold Expr.toString
      have := Outside_str h
      simpa [Bytes.ofAscii] using this
    | .not _ r, h => by
      unfold printable at h
      unfold Expr.toString
      exact oa (oa o_lit1.2.2.2.2.2.1 (Outside_toString r h)) o_lit1.2.1
    | .call _ n args, h => by
      unfold printable at h
      simp only [Bool.and_eq_true] at h
      unfold Expr.toString
      have h1 := Outside_toString n h.1.2
      have h2 := Outside_joinSep (Bytes.ofAscii ", ") o_lit1.2.2.2.2.2.2.2.2 _ (Outside_toStrings args h.2)
      exact oa (oa (oa h1 o_lit1.1) h2) o_lit1.2.1
    | .name _ d, h => by
      unfold printable nameOK at h
      simp only [Bool.and_eq_true] at h
      unfold Expr.toString
      exact Outside_word h.1
    | .num _ d v, h => by
      unfold printable numOK at h
      simp only [Bool.and_eq_true] at h
      unfold Expr.toString
      exact Outside_word h.1.1
    | .float _ d v, h => by
      unfold printable floatOK at h
      simp only [Bool.and_eq_true] at h
      unfold Expr.toString
      exact Outside_word h.1.1
    | .bool _ d v, h => by
      unfold printable at h
      unfold Expr.toString
      rcases boolOK_cases h with ⟨rfl, _⟩ | ⟨rfl, _⟩ <;> decide
    | .access _ l f, h => by
      unfold printable at h
      simp only [Bool.and_eq_true] at h
      unfold Expr.toString
      exact oa (oa (oa (Outside_toString l h.1.2) o_lit1.2.2.2.2.2.2.1) (Outside_toString f h.2))
        o_lit1.2.2.2.2.2.2.2.1
    | .ref .., h => by simp [printable] at h
    | .cycle, h => by simp [printable] at h
    | .list .., h => by simp [printable] at h
  theorem Outside_toStrings : ∀ es : List Expr, printables pf es = true →
      ∀ x ∈ Expr.toStringList es, Outside x
    | [], _ => by simp [Expr.toStringList]
    | e :: es, h => by
      unfold printables at h
      simp only [Bool.and_eq_true] at h
      intro x hx
      simp only [Expr.toStringList, List.mem_cons] at hx
      rcases hx with rfl | hx
      · exact Outside_toString e h.1
      · exact Outside_toStrings es h.2 x hx
end

end

end Kvql.Proofs.PrintLex
